import CantoVerif.Props.C08
import CantoVerif.Props.C09
/-!
# C09 — the executable predicates `whitelist` and `swap_cap` hold of every successful swap of the model.
(`no_module_recipient` is linked in `Props/C09.lean`.)
-/
namespace CV
namespace Coinswap

/-- pool, effect list, the one-standard-leg fact, the per-swap maximum of the counter-asset and the
counter-asset leg (at least one unit, at most the maximum), with one set of witnesses -/
theorem swap_caps_pool {env : Env} {s s' : State} {m : MsgSwap} {r : Resp} (h : swap env s m = .ok (s', r)) :
    ∃ (sold bought : Nat) (esc : Addr) (p : Pool) (mx : Nat),
      s.poolByCounter (counterOf s.std m.inDenom m.outDenom) = some p ∧ env.reserve p.lpt = .ok esc ∧
      s.bank.applyAll (swapEffs m.inAddr.bytes m.outAddr.bytes esc m.inDenom sold m.outDenom bought) = .ok s'.bank ∧
      m.inDenom ≠ m.outDenom ∧
      ((m.inDenom = s.std ∧ m.outDenom ≠ s.std) ∨ (m.inDenom ≠ s.std ∧ m.outDenom = s.std)) ∧
      lookupD s.params.maxSwap (counterOf s.std m.inDenom m.outDenom) = some mx ∧
      (if m.inDenom = s.std then bought else sold) ≤ mx ∧ 1 ≤ (if m.inDenom = s.std then bought else sold) := by
  obtain ⟨F⟩ := swap_ok h
  have hbank := F.hBank
  rw [decode_ok F.hSender, decode_ok F.hRcpt] at hbank
  have hone : (m.inDenom = s.std ∧ m.outDenom ≠ s.std) ∨ (m.inDenom ≠ s.std ∧ m.outDenom = s.std) := by
    rcases F.oneStd with h1 | h1
    · exact Or.inl ⟨h1, fun e => F.denomsNe (h1.trans e.symm)⟩
    · exact Or.inr ⟨fun e => F.denomsNe (e.trans h1.symm), h1⟩
  have hin : 1 ≤ m.inAmt.toNat := by have := F.inPos; omega
  have hout : 1 ≤ m.outAmt.toNat := by have := F.outPos; omega
  cases hb : m.isBuy with
  | false =>
    have ht := F.hTrade; rw [hb] at ht
    obtain ⟨q, hpf, hsold, _, _, _, hmin, hmax⟩ := trade_sell_ok ht
    obtain ⟨_, _, hfind, hres, _⟩ := poolFor_ok hpf
    obtain ⟨mx, hl, hle⟩ := checkMaxSwap_ok hmax
    obtain ⟨q1, q2⟩ := quoteLeg_fst s.std m.inDenom m.outDenom m.inAmt.toNat F.bought false F.oneStd F.denomsNe
    rw [q1] at hl; rw [q2] at hle
    refine ⟨F.sold, F.bought, F.esc, q, mx, hfind, hres, hbank, F.denomsNe, hone, hl, ?_, ?_⟩
    · rw [hsold]; exact hle
    · rw [hsold]; split <;> omega
  | true =>
    have ht := F.hTrade; rw [hb] at ht
    obtain ⟨q, hpf, hbought, _, _, _, hp, _, hmax⟩ := trade_buy_ok ht
    obtain ⟨_, _, hfind, hres, _⟩ := poolFor_ok hpf
    obtain ⟨_, _, _, hs⟩ := outputPrice_ok hp
    obtain ⟨mx, hl, hle⟩ := checkMaxSwap_ok hmax
    obtain ⟨q1, q2⟩ := quoteLeg_fst s.std m.inDenom m.outDenom F.sold m.outAmt.toNat true F.oneStd F.denomsNe
    rw [q1] at hl; rw [q2] at hle
    have hc : counterOf s.std m.inDenom m.outDenom = counterOf s.std m.outDenom m.inDenom := by
      unfold counterOf
      rcases F.oneStd with h1 | h1
      · have : m.outDenom ≠ s.std := fun e => F.denomsNe (h1.trans e.symm)
        simp [h1, this]
      · have : m.inDenom ≠ s.std := fun e => F.denomsNe (e.trans h1.symm)
        simp [h1, this]
    have hfind2 : s.poolByCounter (counterOf s.std m.inDenom m.outDenom) = some q := by rw [hc]; exact hfind
    have h1 : 1 ≤ F.sold := by rw [hs]; exact Nat.le_add_left 1 _
    refine ⟨F.sold, F.bought, F.esc, q, mx, hfind2, hres, hbank, F.denomsNe, hone, hl, ?_, ?_⟩
    · rw [hbought]; exact hle
    · rw [hbought]; split <;> omega

open Spec in
/-- the executable predicates `whitelist` and `swap_cap` the driver evaluates on implementation
transitions hold of every successful swap of the model (payer not a pool's escrow) -/
theorem swap_whitelist_cap_monitor {env : Env} {s s' : State} {m : MsgSwap} {r : Resp} (hW : WF env s)
    (hS : SignerOK s (.swap m)) (h : swap env s m = .ok (s', r)) :
    c09_whitelist { env := env, pre := s, op := .swap m, ok := true, resp := r, post := s' } = true ∧
    c09_swapCap { env := env, pre := s, op := .swap m, ok := true, resp := r, post := s' } = true := by
  obtain ⟨sold, bought, esc, p, mx, hfind, hres, hbank, hne, hone, hl, hle, hpos⟩ := swap_caps_pool h
  obtain ⟨hmem, _⟩ := mem_of_poolByCounter hfind
  have hesc : p.escrow = esc := by
    have := hW.reserveOk p hmem
    rw [hres] at this; injection this with this; exact this.symm
  have hin : m.inAddr.bytes ≠ esc := by
    rw [← hesc]; exact hS m.inAddr.bytes rfl p hmem
  have hmxOf : s.params.maxSwapOf (counterOf s.std m.inDenom m.outDenom) = mx := by
    simp only [Params.maxSwapOf, hl, Option.getD_some]
  have hfind' : s.poolByCounter (if m.inDenom == s.std then m.outDenom else m.inDenom) = some p := hfind
  have hmxOf' : s.params.maxSwapOf (if m.inDenom == s.std then m.outDenom else m.inDenom) = mx := hmxOf
  constructor
  · simp only [c09_whitelist, Bool.not_true, Bool.false_or, hmxOf', Bool.and_eq_true, decide_eq_true_eq]
    refine ⟨?_, by omega⟩
    rcases hone with ⟨a, b⟩ | ⟨a, b⟩
    · simp [a, b]
    · simp [a, b]
  · simp only [c09_swapCap, swapMsgOf, Bool.not_true, Bool.false_or, hfind', hmxOf', hesc]
    by_cases hc : (m.outAddr.bytes == esc) = true
    · simp only [hc, Bool.true_or]
    · simp only [hc, Bool.false_or, decide_eq_true_eq]
      simp only [beq_iff_eq] at hc
      obtain ⟨a1, a2, _, _⟩ := swapEffs_exact hbank hin hc hne
      by_cases hstd : m.inDenom = s.std
      · have : (m.inDenom == s.std) = true := by simp [hstd]
        simp only [this, if_true, loss]
        simp only [hstd, if_true] at hle
        omega
      · have : (m.inDenom == s.std) = false := by simp [hstd]
        simp only [this, Bool.false_eq_true, if_false, gain]
        simp only [hstd, if_false] at hle
        omega

open Spec in
/-- `whitelist` for additions: the counter-asset is not the standard coin and has a positive per-swap maximum -/
theorem add_whitelist_monitor {env : Env} {s s' : State} {m : MsgAdd} {r : Resp} (h : add env s m = .ok (s', r)) :
    c09_whitelist { env := env, pre := s, op := .add m, ok := true, resp := r, post := s' } = true := by
  obtain ⟨h1, h2, _⟩ := add_caps h
  simp only [c09_whitelist, Bool.not_true, Bool.false_or, Bool.and_eq_true, bne_iff_ne, ne_eq, decide_eq_true_eq]
  exact ⟨h1, h2⟩

open Spec in
/-- `whitelist` for the onboarding auto-swap (the keeper's trade function called directly) -/
theorem autoSwap_whitelist_monitor {env : Env} {s s' : State} {rcpt : Addr} {dIn : Denom} {maxIn out : Nat} {r : Resp}
    (h : step env s (.autoSwap rcpt dIn maxIn out) = .ok (s', r)) :
    c09_whitelist { env := env, pre := s, op := .autoSwap rcpt dIn maxIn out, ok := true, resp := r, post := s' } = true := by
  simp only [step] at h
  obtain ⟨⟨sold, bought, esc⟩, ht, h⟩ := bind_ok h
  obtain ⟨q, hpf, _, _, _, _, hp, _, hmax⟩ := trade_buy_ok ht
  obtain ⟨hne, _, _, _, _⟩ := poolFor_ok hpf
  obtain ⟨_, _, _, hs⟩ := outputPrice_ok hp
  obtain ⟨mx, hl, hle⟩ := checkMaxSwap_ok hmax
  have hne' : dIn ≠ s.std := fun e => hne e.symm
  obtain ⟨q1, q2⟩ := quoteLeg_fst s.std dIn s.std sold out true (Or.inr rfl) hne'
  rw [q1] at hl; rw [q2] at hle
  have hc : counterOf s.std dIn s.std = dIn := by
    unfold counterOf; simp [hne']
  rw [hc] at hl
  simp only [hne', if_false] at hle
  have h1 : 1 ≤ sold := by rw [hs]; exact Nat.le_add_left 1 _
  simp only [c09_whitelist, Bool.not_true, Bool.false_or, Bool.and_eq_true, bne_iff_ne, ne_eq, decide_eq_true_eq,
    Params.maxSwapOf, hl, Option.getD_some]
  exact ⟨hne', by omega⟩

end Coinswap
end CV
