import CantoVerif.Props.C04Monitors
/-!
# C04 — recording the EVM's answers does not influence the run.

`Props/C04Monitors.lean` proves the four answer-reading monitors (`c04_successExactReported`, `c04_noApproval`,
`c04_transferTrue`, `c04_internalFailureRejects`) on `logTr`: the transition of the model's `step` run with the
*recording* oracle `logO O`.  Its header lists as not done: that the record does not influence the run.
This file proves it, for **every** state type `σ`, environment, oracle `O`, world and operation.

## Route

* `Sim π O2 O` — oracle `O2` over states `τ` simulates oracle `O` over states `σ` along a projection
  `π : τ → σ`: same answer on the projected state, next state projects to the next state.
* one pair of lemmas per model helper that calls the oracle (`hasCode`, `balanceOf`, `callEVM`:
  `_sim1` the result agrees, `_sim2` the EVM state after it projects), then the four conversions,
  `afterGate`, `convertCoin`, `convertERC20`, `registerCoin`, `queryERC20`, `registerERC20`, `toggle`,
  `updateParams`, `hookLog`, `hookLogs`, `postTx`.
* `step_sim` — `mapR π (step env O2 w op) = step env O (mapW π w) op` for every operation: the same
  rejection (the same `Rej` value), or the same response with identical Canto stores and projected EVM
  state.  `exec_sim`, `run_sim`: the same for the transaction wrapper and for traces.
* `logO_sim` — `Sim Prod.fst (logO O) O` (both fields by `rfl`).

## Results

* `recording_transparent` — `mapR Prod.fst (logRun env O w op) = step env O w op`, hence
  `isOk`, `respOf` agree and `postOf w (logRun …) = exec env O w op`.  No hypothesis.
  `logO_step`: the same from any initial record; `recording_transparent_run`: for traces.
* `logO_step_from`, `answers_from` — a second use of `step_sim` (`logO O` simulates itself along "prepend
  `rec`"): the recorded run from an initial record `rec` is the run from the empty record with `rec`
  prepended; so `answersOf (logRun …)` is the list of answers of the operation itself.
* `logTr_eq_plainTr` — `logTr … = plainTr …`, where `plainTr` has `ok`, `resp`, `post` of the **plain** run
  (`isOk (step env O w op)`, `respOf (step env O w op)`, `exec env O w op`) and `answers` the record.
* `c04_successExactReported_monitor_plain`, `c04_noApproval_monitor_plain`, `c04_transferTrue_monitor_plain` — every
  oracle, no hypothesis; `c04_internalFailureRejects_monitor_plain` — under `CodeLookupOk O`, which cannot be
  dropped (the `badCode` counterexample of `C04Monitors.lean`, re-evaluated here on `plainTr`).

Nothing asked for turned out false.  Core Lean only.
-/
set_option linter.unusedSimpArgs false

namespace CV
namespace Erc20
namespace C04M
open KMap Spec Token

variable {σ τ : Type}

/-! ## simulation of oracles -/

/-- `O2` (over states `τ`) *simulates* `O` (over states `σ`) along the projection `π`: on every call it
gives the answer `O` gives on the projected state, and its next state projects to `O`'s next state. -/
structure Sim (π : τ → σ) (O2 : Oracle τ) (O : Oracle σ) : Prop where
  ans : ∀ c s, (O2 c s).1 = (O c (π s)).1
  nxt : ∀ c s, π (O2 c s).2 = (O c (π s)).2

/-- the projection of a world: Canto's stores as they are, the EVM state projected -/
def mapW (π : τ → σ) (w : World τ) : World σ := { st := w.st, evm := π w.evm }

@[simp] theorem mapW_st (π : τ → σ) (w : World τ) : (mapW π w).st = w.st := rfl
@[simp] theorem mapW_evm (π : τ → σ) (w : World τ) : (mapW π w).evm = π w.evm := rfl

/-- the projection of the result of a handler -/
def mapR (π : τ → σ) : R (World τ × Resp) → R (World σ × Resp)
  | .ok (w, r) => .ok (mapW π w, r)
  | .error e => .error e

/-- the projection of the result of the hook loop -/
def mapRW (π : τ → σ) : R (World τ) → R (World σ)
  | .ok w => .ok (mapW π w)
  | .error e => .error e

/-- the projection of the result of `queryERC20` (an EVM state) -/
def mapRS (π : τ → σ) : R τ → R σ
  | .ok e => .ok (π e)
  | .error e => .error e

theorem mapR_bind (π : τ → σ) {α : Type} (x : R α) (f : α → R (World τ × Resp)) :
    mapR π (x >>= f) = x >>= fun a => mapR π (f a) := by
  cases x <;> rfl

theorem mapRW_bind (π : τ → σ) {α : Type} (x : R α) (f : α → R (World τ)) :
    mapRW π (x >>= f) = x >>= fun a => mapRW π (f a) := by
  cases x <;> rfl

theorem mapRS_bind (π : τ → σ) {α : Type} (x : R α) (f : α → R τ) :
    mapRS π (x >>= f) = x >>= fun a => mapRS π (f a) := by
  cases x <;> rfl

/-- `postTx`'s last step: wrap the world the hook loop ended in -/
theorem mapR_bind_world (π : τ → σ) (x : R (World τ)) (r : Resp) :
    mapR π (x >>= fun w1 => .ok (w1, r)) = mapRW π x >>= fun w1 => .ok (w1, r) := by
  cases x <;> rfl

/-- `registerERC20`: the bind on the EVM state `queryERC20` ended in -/
theorem mapR_bind_evm (π : τ → σ) (x : R τ) (f : τ → R (World τ × Resp)) (g : σ → R (World σ × Resp))
    (hfg : ∀ e, mapR π (f e) = g (π e)) : mapR π (x >>= f) = mapRS π x >>= g := by
  cases x with
  | error e => rfl
  | ok e => exact hfg e

@[simp] theorem mapRS_ok (π : τ → σ) (e : τ) : mapRS π (.ok e) = .ok (π e) := rfl
@[simp] theorem mapRS_error (π : τ → σ) (e : Rej) : mapRS π (.error e : R τ) = .error e := rfl
@[simp] theorem mapR_ok (π : τ → σ) (w : World τ) (r : Resp) : mapR π (.ok (w, r)) = .ok (mapW π w, r) := rfl
@[simp] theorem mapR_error (π : τ → σ) (e : Rej) : mapR π (.error e) = .error e := rfl
@[simp] theorem mapRW_ok (π : τ → σ) (w : World τ) : mapRW π (.ok w) = .ok (mapW π w) := rfl
@[simp] theorem mapRW_error (π : τ → σ) (e : Rej) : mapRW π (.error e) = .error e := rfl

section sim
variable {π : τ → σ} {O2 : Oracle τ} {O : Oracle σ}

/-! ### the helpers that call the oracle -/

theorem hasCode_sim1 (h : Sim π O2 O) (c : Addr) (e : τ) : (hasCode O2 c e).1 = (hasCode O c (π e)).1 := by
  simp only [hasCode, h.ans]
theorem hasCode_sim2 (h : Sim π O2 O) (c : Addr) (e : τ) : π (hasCode O2 c e).2 = (hasCode O c (π e)).2 := by
  simp only [hasCode, h.nxt]

theorem balanceOf_sim1 (h : Sim π O2 O) (c who : Addr) (e : τ) :
    (balanceOf O2 c who e).1 = (balanceOf O c who (π e)).1 := by
  simp only [balanceOf, h.ans]
theorem balanceOf_sim2 (h : Sim π O2 O) (c who : Addr) (e : τ) :
    π (balanceOf O2 c who e).2 = (balanceOf O c who (π e)).2 := by
  simp only [balanceOf, h.nxt]

theorem callEVM_sim1 (h : Sim π O2 O) (s : State) (sender : Addr) (c : Call) (e : τ) :
    (callEVM O2 s sender c e).1 = (callEVM O s sender c (π e)).1 := by
  unfold callEVM
  split
  · simp only [h.ans]
  · rfl
theorem callEVM_sim2 (h : Sim π O2 O) (s : State) (sender : Addr) (c : Call) (e : τ) :
    π (callEVM O2 s sender c e).2 = (callEVM O s sender c (π e)).2 := by
  unfold callEVM
  split
  · simp only [h.nxt]
  · rfl

/-- push the projection through a handler: binds on values that do not depend on the EVM state are
congruent, matches on (already rewritten) discriminants split in step on both sides, and at the leaves
the projected post-state is rewritten with the `_sim2` lemmas -/
macro "push_sim " h:term : tactic => `(tactic|
  repeat' (first
    | rfl
    | (rw [mapR_bind]; apply bind_congr; intro _)
    | (rw [mapRW_bind]; apply bind_congr; intro _)
    | (rw [mapRS_bind]; apply bind_congr; intro _)
    | split
    | (simp only [mapR_ok, mapR_error, mapRW_ok, mapRW_error, mapRS_ok, mapRS_error, mapW,
        balanceOf_sim2 $h, callEVM_sim2 $h, hasCode_sim2 $h]; done)))

/-! ### the four conversions -/

theorem convertCoinNativeCoin_sim (h : Sim π O2 O) (env : Env) (w : World τ) (p : Pair) (d : Denom) (a : Nat)
    (R S : Addr) :
    mapR π (convertCoinNativeCoin env O2 w p d a R S) = convertCoinNativeCoin env O (mapW π w) p d a R S := by
  unfold convertCoinNativeCoin
  simp only [mapW_st, mapW_evm, balanceOf_sim1 h, balanceOf_sim2 h, callEVM_sim1 h, callEVM_sim2 h]
  push_sim h

theorem convertERC20NativeCoin_sim (h : Sim π O2 O) (env : Env) (w : World τ) (p : Pair) (a : Nat) (R S : Addr) :
    mapR π (convertERC20NativeCoin env O2 w p a R S) = convertERC20NativeCoin env O (mapW π w) p a R S := by
  unfold convertERC20NativeCoin
  simp only [mapW_st, mapW_evm, balanceOf_sim1 h, balanceOf_sim2 h, callEVM_sim1 h, callEVM_sim2 h]
  push_sim h

theorem convertERC20NativeToken_sim (h : Sim π O2 O) (env : Env) (w : World τ) (p : Pair) (a : Nat) (R S : Addr) :
    mapR π (convertERC20NativeToken env O2 w p a R S) = convertERC20NativeToken env O (mapW π w) p a R S := by
  unfold convertERC20NativeToken
  simp only [mapW_st, mapW_evm, balanceOf_sim1 h, balanceOf_sim2 h, callEVM_sim1 h, callEVM_sim2 h]
  push_sim h

theorem convertCoinNativeERC20_sim (h : Sim π O2 O) (env : Env) (w : World τ) (p : Pair) (d : Denom) (a : Nat)
    (R S : Addr) :
    mapR π (convertCoinNativeERC20 env O2 w p d a R S) = convertCoinNativeERC20 env O (mapW π w) p d a R S := by
  unfold convertCoinNativeERC20
  simp only [mapW_st, mapW_evm, balanceOf_sim1 h, balanceOf_sim2 h, callEVM_sim1 h, callEVM_sim2 h]
  push_sim h

/-! ### the message handlers -/

theorem afterGate_sim (h : Sim π O2 O) (w : World τ) (p : Pair)
    (conv2 : World τ → R (World τ × Resp)) (conv : World σ → R (World σ × Resp))
    (hc : ∀ w1, mapR π (conv2 w1) = conv (mapW π w1)) :
    mapR π (afterGate O2 w p conv2) = afterGate O (mapW π w) p conv := by
  unfold afterGate
  rw [show (mapW π w).evm = π w.evm from rfl, show (mapW π w).st = w.st from rfl]
  dsimp only
  rw [← hasCode_sim1 h, ← hasCode_sim2 h]
  by_cases hb : (hasCode O2 p.addr w.evm).1 = true
  · rw [if_pos hb, if_pos hb, hc]
    rfl
  · rw [if_neg hb, if_neg hb]
    rfl

theorem convertCoin_sim (h : Sim π O2 O) (env : Env) (w : World τ) (m : MsgConvertCoin) :
    mapR π (convertCoin env O2 w m) = convertCoin env O (mapW π w) m := by
  unfold convertCoin
  simp only [mapW_st]
  repeat (rw [mapR_bind]; apply bind_congr; intro _)
  apply afterGate_sim h
  intro w1
  split
  · exact convertCoinNativeCoin_sim h ..
  · exact convertCoinNativeERC20_sim h ..
  · rfl

theorem convertERC20_sim (h : Sim π O2 O) (env : Env) (w : World τ) (m : MsgConvertERC20) :
    mapR π (convertERC20 env O2 w m) = convertERC20 env O (mapW π w) m := by
  unfold convertERC20
  simp only [mapW_st]
  repeat (rw [mapR_bind]; apply bind_congr; intro _)
  apply afterGate_sim h
  intro w1
  split
  · exact convertERC20NativeCoin_sim h ..
  · exact convertERC20NativeToken_sim h ..
  · rfl

/-! ### governance -/

theorem registerCoin_sim (h : Sim π O2 O) (env : Env) (w : World τ) (auth : Bool) (base : Denom) (dg : String) :
    mapR π (registerCoin env O2 w auth base dg) = registerCoin env O (mapW π w) auth base dg := by
  unfold registerCoin
  simp only [mapW_st, mapW_evm, callEVM_sim1 h]
  push_sim h

theorem queryERC20_sim (h : Sim π O2 O) (s : State) (env : Env) (c : Addr) (e : τ) :
    mapRS π (queryERC20 O2 s env c e) = queryERC20 O s env c (π e) := by
  unfold queryERC20
  simp only [callEVM_sim1 h, callEVM_sim2 h]
  push_sim h

theorem registerERC20_sim (h : Sim π O2 O) (env : Env) (w : World τ) (auth : Bool) (c : Addr) (mo : Bool) :
    mapR π (registerERC20 env O2 w auth c mo) = registerERC20 env O (mapW π w) auth c mo := by
  unfold registerERC20
  simp only [mapW_st, mapW_evm]
  repeat (rw [mapR_bind]; apply bind_congr; intro _)
  rw [← queryERC20_sim h]
  apply mapR_bind_evm
  intro e1
  push_sim h

theorem toggle_sim (π : τ → σ) (w : World τ) (auth : Bool) (t : Tok) :
    mapR π (toggle w auth t) = toggle (mapW π w) auth t := by
  unfold toggle
  simp only [mapW_st]
  rw [mapR_bind]; apply bind_congr; intro _
  split
  · rfl
  · split <;> rfl

theorem updateParams_sim (π : τ → σ) (w : World τ) (auth : Bool) (p : Params) :
    mapR π (updateParams w auth p) = updateParams (mapW π w) auth p := by
  unfold updateParams
  rw [mapR_bind]; apply bind_congr; intro _
  rfl

/-! ### the EVM hook -/

theorem hookLog_sim (h : Sim π O2 O) (env : Env) (w : World τ) (l : Log) :
    mapRW π (hookLog env O2 w l) = hookLog env O (mapW π w) l := by
  unfold hookLog
  simp only [mapW_st, mapW_evm, callEVM_sim1 h]
  push_sim h

theorem hookLogs_sim (h : Sim π O2 O) (env : Env) (w : World τ) (ls : List Log) :
    mapRW π (hookLogs env O2 w ls) = hookLogs env O (mapW π w) ls := by
  induction ls generalizing w with
  | nil => rfl
  | cons l ls ih =>
    simp only [hookLogs]
    rw [← hookLog_sim h]
    cases hookLog env O2 w l with
    | error e => rfl
    | ok w1 => exact ih w1

theorem postTx_sim (h : Sim π O2 O) (env : Env) (w : World τ) (logs : List Log) :
    mapR π (postTx env O2 w logs) = postTx env O (mapW π w) logs := by
  unfold postTx
  rw [show (mapW π w).st = w.st from rfl]
  by_cases hb : (!w.st.params.enableErc20 || !w.st.params.enableEVMHook) = true
  · rw [if_pos hb, if_pos hb]
    rfl
  · rw [if_neg hb, if_neg hb, mapR_bind_world, hookLogs_sim h]

/-! ### every operation -/

/-- **simulation**: if `O2` simulates `O` along `π`, then every step of the model with `O2` projects to
the step of the model with `O` from the projected world — same rejection or same response, Canto's
stores identical, EVM state the projection. -/
theorem step_sim (h : Sim π O2 O) (env : Env) (w : World τ) (op : Op) :
    mapR π (step env O2 w op) = step env O (mapW π w) op := by
  cases op with
  | convertCoin m => exact convertCoin_sim h env w m
  | convertERC20 m => exact convertERC20_sim h env w m
  | registerCoin auth base dg => exact registerCoin_sim h env w auth base dg
  | registerERC20 auth c mo => exact registerERC20_sim h env w auth c mo
  | toggle auth t => exact toggle_sim π w auth t
  | updateParams auth p => exact updateParams_sim π w auth p
  | hook logs => exact postTx_sim h env w logs
  | send src dst d amt =>
    simp only [step, mapW_st]
    rw [mapR_bind]; apply bind_congr; intro _
    rfl
  | setSendEnabled d v => rfl
  | setSendDefault v => rfl
  | reimport => rfl

theorem exec_sim (h : Sim π O2 O) (env : Env) (w : World τ) (op : Op) :
    mapW π (exec env O2 w op) = exec env O (mapW π w) op := by
  have hs := step_sim h env w op
  simp only [exec, deliver]
  cases h2 : step env O2 w op with
  | error e => rw [h2] at hs; rw [← hs]; rfl
  | ok x => obtain ⟨w', r⟩ := x; rw [h2] at hs; rw [← hs]; rfl

theorem run_sim (h : Sim π O2 O) (env : Env) (w : World τ) (ops : List Op) :
    mapW π (run env O2 w ops) = run env O (mapW π w) ops := by
  induction ops generalizing w with
  | nil => rfl
  | cons op ops ih =>
    simp only [run, List.foldl_cons] at ih ⊢
    rw [ih, exec_sim h]

end sim

/-! ## the recording oracle -/

/-- the recording oracle simulates the oracle it records, along "forget the record" -/
theorem logO_sim (O : Oracle σ) : Sim (Prod.fst : σ × List Ans → σ) (logO O) O :=
  { ans := fun _ _ => rfl, nxt := fun _ _ => rfl }

/-- the recorded step, from **any** initial record `rec`, projects to the plain step: the same rejection, or
the same response with the same Canto stores and the same EVM state -/
theorem logO_step (env : Env) (O : Oracle σ) (w : World σ) (rec : List Ans) (op : Op) :
    mapR Prod.fst (step env (logO O) { st := w.st, evm := (w.evm, rec) } op) = step env O w op :=
  step_sim (logO_sim O) env { st := w.st, evm := (w.evm, rec) } op

/-- the recording oracle simulates *itself* along "prepend `rec` to the record": what has been recorded
before does not influence what is recorded next -/
theorem logO_shift_sim (O : Oracle σ) (rec : List Ans) :
    Sim (fun s : σ × List Ans => (s.1, rec ++ s.2)) (logO O) (logO O) :=
  { ans := fun _ _ => rfl
    nxt := fun c s => by
      show ((O c s.1).2, rec ++ (s.2 ++ [(O c s.1).1])) = ((O c s.1).2, rec ++ s.2 ++ [(O c s.1).1])
      rw [List.append_assoc] }

/-- **the record only grows, by the same answers whatever was recorded before**: the recorded step from an
initial record `rec` is the recorded step from the empty record with `rec` prepended to the final record
(`answersOf (logRun …)` is therefore *the* list of answers of the operation, not an artefact of starting
with an empty record) -/
theorem logO_step_from (env : Env) (O : Oracle σ) (w : World σ) (rec : List Ans) (op : Op) :
    step env (logO O) { st := w.st, evm := (w.evm, rec) } op =
      mapR (fun s : σ × List Ans => (s.1, rec ++ s.2)) (logRun env O w op) := by
  have h := step_sim (logO_shift_sim O rec) env { st := w.st, evm := (w.evm, []) } op
  rw [logRun, h]
  simp only [mapW, List.append_nil]

theorem answers_from (env : Env) (O : Oracle σ) (w : World σ) (rec : List Ans) (op : Op)
    (hok : isOk (logRun env O w op) = true) :
    answersOf (step env (logO O) { st := w.st, evm := (w.evm, rec) } op) = rec ++ answersOf (logRun env O w op) := by
  rw [logO_step_from]
  cases hl : logRun env O w op with
  | error e => rw [hl] at hok; cases hok
  | ok x => obtain ⟨w', r⟩ := x; rfl

/-- `logRun` projects to `step` -/
theorem logRun_step (env : Env) (O : Oracle σ) (w : World σ) (op : Op) :
    mapR Prod.fst (logRun env O w op) = step env O w op := logO_step env O w [] op

theorem isOk_mapR (π : τ → σ) (x : R (World τ × Resp)) : isOk (mapR π x) = isOk x := by
  cases x <;> rfl
theorem respOf_mapR (π : τ → σ) (x : R (World τ × Resp)) : respOf (mapR π x) = respOf x := by
  rcases x with _ | ⟨_, _⟩ <;> rfl

/-- **recording is transparent.**  For every environment, oracle, world and operation the model's run with
the recording oracle `logO O` (record initially empty) has the same outcome, the same response and —
the record forgotten — the same post-state as the plain run with `O`; in fact the whole result of the
step is the same (first conjunct: same rejection `e` on failure, too). -/
theorem recording_transparent (env : Env) (O : Oracle σ) (w : World σ) (op : Op) :
    mapR Prod.fst (logRun env O w op) = step env O w op ∧
    isOk (logRun env O w op) = isOk (step env O w op) ∧
    respOf (logRun env O w op) = respOf (step env O w op) ∧
    postOf w (logRun env O w op) = exec env O w op := by
  have hs := logRun_step env O w op
  refine ⟨hs, ?_, ?_, ?_⟩
  · rw [← hs, isOk_mapR]
  · rw [← hs, respOf_mapR]
  · simp only [exec, deliver]
    rw [← hs]
    rcases logRun env O w op with _ | ⟨_, _⟩ <;> rfl

/-- the same for a whole trace: running the operations with the recording oracle and forgetting the
record is running them with the plain oracle -/
theorem recording_transparent_run (env : Env) (O : Oracle σ) (w : World σ) (rec : List Ans) (ops : List Op) :
    mapW Prod.fst (run env (logO O) { st := w.st, evm := (w.evm, rec) } ops) = run env O w ops :=
  run_sim (logO_sim O) env { st := w.st, evm := (w.evm, rec) } ops

/-! ## the answer-reading monitors on the plain run -/

/-- the `Tr` of the **plain** run of `op` from `w` with oracle `O` — `ok`, `resp`, `post` are those of
`step env O w op` / `exec env O w op` — with `answers` the record of the recording run -/
def plainTr (env : Env) (cfg : Cfg) (O : Oracle TState) (w : World TState) (op : Op) (hon cl : Bool)
    (lk : List (Addr × Denom × String × String)) (prev : Option (DOp × Bool × Resp × World TState × Bool)) : Tr :=
  { env := env, cfg := cfg, pre := w, op := .k op, ok := isOk (step env O w op), resp := respOf (step env O w op),
    post := exec env O w op, answers := answersOf (logRun env O w op),
    honest := hon, lookups := lk, clean := cl, prev := prev }

section plain
variable (env : Env) (cfg : Cfg) (O : Oracle TState) (w : World TState) (op : Op) (hon cl : Bool)
  (lk : List (Addr × Denom × String × String)) (prev : Option (DOp × Bool × Resp × World TState × Bool))

/-- the transition of the recorded run *is* the transition of the plain run with the record attached -/
theorem logTr_eq_plainTr : logTr env cfg O w op hon cl lk prev = plainTr env cfg O w op hon cl lk prev := by
  obtain ⟨_, h1, h2, h3⟩ := recording_transparent env O w op
  simp only [logTr, plainTr, h1, h2, h3]

/-- **C04 success_exact_reported** on the plain run, every oracle -/
theorem c04_successExactReported_monitor_plain :
    c04_successExactReported (plainTr env cfg O w op hon cl lk prev) = true := by
  rw [← logTr_eq_plainTr]; exact c04_successExactReported_monitor ..

/-- **C04 no_approval** on the plain run, every oracle -/
theorem c04_noApproval_monitor_plain : c04_noApproval (plainTr env cfg O w op hon cl lk prev) = true := by
  rw [← logTr_eq_plainTr]; exact c04_noApproval_monitor ..

/-- **C04 transfer_true** on the plain run, every oracle -/
theorem c04_transferTrue_monitor_plain : c04_transferTrue (plainTr env cfg O w op hon cl lk prev) = true := by
  rw [← logTr_eq_plainTr]; exact c04_transferTrue_monitor ..

/-- **C04 internal_failure_rejects** on the plain run, every oracle whose account lookup cannot fail -/
theorem c04_internalFailureRejects_monitor_plain (hcode : CodeLookupOk O) :
    c04_internalFailureRejects (plainTr env cfg O w op hon cl lk prev) = true := by
  rw [← logTr_eq_plainTr]; exact c04_internalFailureRejects_monitor env cfg O w op hon cl lk prev hcode

end plain

/-! ## non-vacuity -/

/-- `Sim` is satisfiable by a non-trivial pair: the recording oracle of the honest token really records
(after one call the record is not what it was), and still simulates -/
example : Sim (Prod.fst : TState × List Ans → TState) (logO (honest exCfg)) (honest exCfg) ∧
    (logO (honest exCfg) (.balanceOf "k0" "u0") (c04mW2.evm, [])).2.2.length = 1 :=
  ⟨logO_sim _, rfl⟩

/-- on the example world the plain transitions of both kinds of pair are successful conversions with four
recorded answers — the monitors are not true by their `!(ok && converted)` escape — the post-state of
the recorded run is the plain post-state, and the four monitors evaluate to `true` -/
example :
    ([c04mCC, c04mCE].all fun op =>
      let t := plainTr exEnv exCfg (honest exCfg) c04mW2 op true true [] none
      let l := logRun exEnv (honest exCfg) c04mW2 op
      t.ok && t.resp == .converted && t.answers.length == 4 && isOk l &&
      sameState (postOf c04mW2 l).st t.post.st && sameTok (postOf c04mW2 l).evm t.post.evm &&
      !sameTok c04mW2.evm t.post.evm &&
      c04_successExactReported t && c04_noApproval t && c04_transferTrue t && c04_internalFailureRejects t) = true := by
  decide +kernel

/-- a record that does not start empty: the same four answers are appended to it -/
example :
    (let r0 : List Ans := [⟨.err, none, [.approval]⟩]
     let l := step exEnv (logO (honest exCfg)) { st := c04mW2.st, evm := (c04mW2.evm, r0) } c04mCE
     isOk l && answersOf l == r0 ++ answersOf (logRun exEnv (honest exCfg) c04mW2 c04mCE) &&
     (answersOf l).length == 5) = true := by
  decide +kernel

/-- the hypothesis `CodeLookupOk` of `c04_internalFailureRejects_monitor_plain` cannot be dropped: with `badCode`
(lookup answered `⟨err, some 1⟩`, honest otherwise) the *plain* run of `ConvertCoin` succeeds and the
monitor is `false` on its `plainTr` -/
example :
    (let t := plainTr exEnv exCfg (badCode exCfg) c04mW2 c04mCC true true [] none
     t.ok && t.resp == .converted && t.answers.length == 4 && !c04_internalFailureRejects t) = true := by
  decide +kernel

end C04M
end Erc20
end CV
