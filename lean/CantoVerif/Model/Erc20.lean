import CantoVerif.Base.Core
import CantoVerif.Base.AMap
import CantoVerif.Base.Bank
/-!
# x/erc20 — executable model of the keeper, message server and EVM hook.

Mirrors `x/erc20/keeper/{msg_server,mint,evm,evm_hooks,proposals,token_pairs,params}.go` and
`x/erc20/genesis.go` as they are: guards in source order, bank calls as effect lists, the three
registry prefixes (pair by id, id by denomination, id by address) as three finite maps.

**The EVM is an oracle.**  The keeper reaches the EVM only through the `EVMKeeper` interface
(`GetAccountWithoutBalance`, `EstimateGas`, `ApplyMessage`).  Here every such call is a value of
`Call`, answered by an arbitrary function `O : Call → σ → Ans × σ` over an arbitrary EVM state
type `σ`.  All theorems about conversions quantify over *every* `σ` and `O` — every behaviour a
token contract (or the whole EVM) can show to the keeper: any balance reported, any return word,
any logs, an error or a revert at any call.  The honest token of `Model/Erc20Token.lean` is one
particular oracle.

External functions, recorded in `Env` as tables filled in by the harness:
`crypto.CreateAddress(module, nonce)`, `CreateDenom(contract.String())` and the pair id
`sha256(address|denom)`.  The hash is modelled *symbolically*: the model's id of a pair is the
preimage `(address, denom)` itself, i.e. the hash is assumed collision free (trusted base).
-/
namespace CV
namespace Erc20

def ensure (c : Bool) (e : Rej) : R Unit := if c then .ok () else .error e
theorem ensure_ok {c : Bool} {e : Rej} {u : Unit} (h : ensure c e = .ok u) : c = true := by
  unfold ensure at h; split at h
  · assumption
  · cases h

/-! ## strings -/

def isAlpha (c : Char) : Bool := (c ≥ 'a' && c ≤ 'z') || (c ≥ 'A' && c ≤ 'Z')
def isDigit (c : Char) : Bool := c ≥ '0' && c ≤ '9'
def isDenomChar (c : Char) : Bool :=
  isAlpha c || isDigit c || c == '/' || c == ':' || c == '.' || c == '_' || c == '-'
def isHexDigit (c : Char) : Bool := isDigit c || (c ≥ 'a' && c ≤ 'f') || (c ≥ 'A' && c ≤ 'F')

/-- `sdk.ValidateDenom`: `[a-zA-Z][a-zA-Z0-9/:._-]{2,127}` -/
def validDenomL (cs : List Char) : Bool :=
  match cs with
  | [] => false
  | c :: r => isAlpha c && r.all isDenomChar && decide (2 ≤ r.length) && decide (r.length ≤ 127)
def validDenom (d : String) : Bool := validDenomL d.toList

/-- strip an optional `0x` / `0X` -/
def hexBody : List Char → List Char
  | '0' :: 'x' :: r => r
  | '0' :: 'X' :: r => r
  | cs => cs

/-- `common.IsHexAddress` -/
def isHexAddressL (cs : List Char) : Bool := (hexBody cs).length == 40 && (hexBody cs).all isHexDigit
def isHexAddress (s : String) : Bool := isHexAddressL s.toList

/-- `strings.SplitN(s, "/", 2)`: the part before the first `/` and, if there is one, the rest -/
def splitSlash : List Char → List Char × Option (List Char)
  | [] => ([], none)
  | c :: r => if c = '/' then ([], some r) else
      let (a, b) := splitSlash r
      (c :: a, b)

/-- `types.ValidateErc20Denom` -/
def validErc20Denom (d : String) : Bool :=
  match splitSlash d.toList with
  | (p, some r) => p == "erc20".toList && isHexAddressL r
  | _ => false

/-- `ibctransfertypes.ValidateIBCDenom` (`ibc/<64 hex digits>` or any other valid denomination) -/
def validIBCDenom (d : String) : Bool :=
  validDenom d && d != "ibc" &&
  (match splitSlash d.toList with
   | (p, some r) => if p == "ibc".toList then r.length == 64 && r.all isHexDigit else true
   | _ => true)

def isInfixL (p : List Char) : List Char → Bool
  | [] => p.isEmpty
  | c :: r => p.isPrefixOf (c :: r) || isInfixL p r
/-- `strings.Contains(base, "CANTO")` -/
def containsCANTO (d : String) : Bool := isInfixL "CANTO".toList d.toList

/-! ## addresses as they appear in messages -/

inductive AddrForm where | lower | upper | bad
deriving DecidableEq, Repr

/-- a bech32 string (`sdk.AccAddressFromBech32`) -/
structure AddrStr where
  form : AddrForm
  bytes : Addr
deriving DecidableEq, Repr

def AddrStr.decode (a : AddrStr) : R Addr :=
  match a.form with
  | .bad => .error (.invalid "bech32 address")
  | _ => .ok a.bytes

/-- a hex string naming an account (`common.IsHexAddress` then `common.HexToAddress`): only whether
it parses and which 20 bytes it names matter -/
structure HexStr where
  valid : Bool
  bytes : Addr
deriving DecidableEq, Repr

def HexStr.decode (a : HexStr) : R Addr := if a.valid then .ok a.bytes else .error (.invalid "hex address")

/-- a *token* string (`MsgConvertCoin.Coin.Denom`, `MsgToggleTokenConversion.Token`): the literal
string decides between the denomination index and the address index (`GetTokenPairID`);
`addr` is `common.HexToAddress(s)` (meaningful when `isHexAddress s`). -/
structure Tok where
  s : String
  addr : Addr
deriving DecidableEq, Repr

/-! ## finite maps as association lists (the KV prefixes) -/

namespace KMap
variable {κ β : Type} [DecidableEq κ]

def get? : List (κ × β) → κ → Option β
  | [], _ => none
  | (k', v) :: r, k => if k' = k then some v else get? r k

/-- `Set`: overwrite the entry of `k`, or append a new one -/
def put : List (κ × β) → κ → β → List (κ × β)
  | [], k, v => [(k, v)]
  | (k', v') :: r, k, v => if k' = k then (k, v) :: r else (k', v') :: put r k v

/-- `Delete` -/
def del (l : List (κ × β)) (k : κ) : List (κ × β) := l.filter (fun p => !decide (p.1 = k))

def has (l : List (κ × β)) (k : κ) : Bool := (get? l k).isSome
end KMap

/-! ## state -/

inductive Owner where | unspecified | module | external
deriving DecidableEq, Repr

structure Pair where
  addr : Addr
  denom : Denom
  enabled : Bool
  owner : Owner
deriving DecidableEq, Repr

/-- the pair id `sha256(erc20Address | denom)`, modelled by its preimage -/
abbrev PairId := Addr × Denom
def Pair.id (p : Pair) : PairId := (p.addr, p.denom)

structure Registry where
  pairs : List (PairId × Pair)       -- prefix 1
  byAddr : List (Addr × PairId)      -- prefix 2
  byDenom : List (Denom × PairId)    -- prefix 3
deriving DecidableEq, Repr

structure Params where
  enableErc20 : Bool
  enableEVMHook : Bool
deriving DecidableEq, Repr

structure State where
  bank : Bank
  params : Params
  reg : Registry
  /-- x/bank denomination metadata: base denom ↦ digest of the fields `EqualMetadata` compares -/
  dmeta : List (Denom × String)
  /-- x/bank `DefaultSendEnabled` and the per-denomination entries -/
  sendDefault : Bool
  sendOverride : List (Denom × Bool)
  /-- account sequence of the erc20 module account (decides the next `CREATE` address) -/
  mn : Nat
deriving Repr

/-- state of the chain: Canto's stores and the EVM's -/
structure World (σ : Type) where
  st : State
  evm : σ

structure Env where
  modAddr : Addr                      -- erc20 module account = `types.ModuleAddress`
  blocked : List Addr                 -- `bankKeeper.BlockedAddr`
  createAddr : List (Nat × Addr)      -- `crypto.CreateAddress(ModuleAddress, nonce)`
  erc20Denom : List (Addr × Denom)    -- `types.CreateDenom(contract.String())`
  macc : List Addr := []              -- the application's module accounts (`maccPerms`); the code never reads this list
deriving Repr

def Env.create (env : Env) (n : Nat) : R Addr :=
  match KMap.get? env.createAddr n with
  | some a => .ok a
  | none => .error (.panic "createAddr table")

def Env.denomOf (env : Env) (c : Addr) : R Denom :=
  match KMap.get? env.erc20Denom c with
  | some d => .ok d
  | none => .error (.panic "erc20Denom table")

/-- `bankKeeper.IsSendEnabledCoin` -/
def State.sendEnabled (s : State) (d : Denom) : Bool :=
  match KMap.get? s.sendOverride d with
  | some v => v
  | none => s.sendDefault

/-! ## registry accessors (`token_pairs.go`) -/

namespace Registry

def empty : Registry := { pairs := [], byAddr := [], byDenom := [] }

/-- `GetTokenPairID` -/
def idOfTok (r : Registry) (t : Tok) : Option PairId :=
  if isHexAddress t.s then KMap.get? r.byAddr t.addr else KMap.get? r.byDenom t.s

def getPair (r : Registry) (i : PairId) : Option Pair := KMap.get? r.pairs i

/-- `SetTokenPair` + `SetTokenPairIdByDenom` + `SetTokenPairIdByERC20Addr` as the two `Register*` do -/
def insert (r : Registry) (p : Pair) : Registry :=
  { pairs := KMap.put r.pairs p.id p, byDenom := KMap.put r.byDenom p.denom p.id,
    byAddr := KMap.put r.byAddr p.addr p.id }

/-- `SetTokenPair` alone (toggle) -/
def setPair (r : Registry) (p : Pair) : Registry := { r with pairs := KMap.put r.pairs p.id p }

/-- `DeleteTokenPair` -/
def delete (r : Registry) (p : Pair) : Registry :=
  { pairs := KMap.del r.pairs p.id, byAddr := KMap.del r.byAddr p.addr, byDenom := KMap.del r.byDenom p.denom }

/-- what the gRPC `TokenPair` query / `MintingEnabled` / `ToggleConversion` resolve a token string to -/
def lookupTok (r : Registry) (t : Tok) : Option Pair :=
  match r.idOfTok t with
  | none => none
  | some i => r.getPair i

/-- gRPC `TokenPairs` / `GetTokenPairs` -/
def list (r : Registry) : List Pair := r.pairs.map (·.2)

end Registry

/-! ## the EVM as an oracle -/

inductive Status where
  | ok       -- the call ran and did not fail
  | err      -- `EstimateGas` / `ApplyMessage` returned an error
  | revert   -- `res.Failed()`: VM error
deriving DecidableEq, Repr

/-- what `monitorApprovalEvent` can tell about a log -/
inductive LogK where | transfer | approval | noTopics | other
deriving DecidableEq, Repr

structure Ans where
  status : Status
  /-- return data read as one 32-byte word; `none`: empty or not a whole word -/
  ret : Option Nat
  logs : List LogK
deriving DecidableEq, Repr

inductive Call where
  | code (c : Addr)                              -- `GetAccountWithoutBalance(c)` … `IsContract()`
  | balanceOf (c who : Addr)
  | mint (c to : Addr) (amt : Nat)               -- from the module account
  | burnCoins (c who : Addr) (amt : Nat)         -- from the module account
  | transfer (c sender to : Addr) (amt : Nat)    -- from `sender`
  | burn (c : Addr) (amt : Nat)                  -- from the module account (hook)
  | create (addr : Addr)                         -- deployment of ERC20MinterBurnerDecimals by the module
  | name (c : Addr)
  | symbol (c : Addr)
  | decimals (c : Addr)
deriving DecidableEq, Repr

abbrev Oracle (σ : Type) := Call → σ → Ans × σ

section keeper
variable {σ : Type}

/-- `acc == nil || !acc.IsContract()` negated -/
def hasCode (O : Oracle σ) (c : Addr) (e : σ) : Bool × σ :=
  let r := O (.code c) e
  (r.1.ret == some 1, r.2)

/-- `Keeper.BalanceOf`: `nil` on any failure -/
def balanceOf (O : Oracle σ) (c who : Addr) (e : σ) : Option Nat × σ :=
  let r := O (.balanceOf c who) e
  (if r.1.status = .ok then r.1.ret else none, r.2)

/-- `CallEVMWithData`: `GetSequence(from)` needs the account; any error or VM failure is an error.
The EVM state after the attempt is returned in both cases (the hook goes on after a failure). -/
def callEVM (O : Oracle σ) (s : State) (sender : Addr) (c : Call) (e : σ) : R Ans × σ :=
  if s.bank.hasAcct sender then
    let r := O c e
    (if r.1.status = .ok then .ok r.1 else .error (.evm "call failed"), r.2)
  else (.error (.notFound "account"), e)

/-- `UnpackIntoInterface(&ERC20BoolResponse, "transfer", ret)` -/
def unpackBool : Option Nat → R Bool
  | some 0 => .ok false
  | some 1 => .ok true
  | _ => .error (.evm "unpack bool")

/-- `monitorApprovalEvent`; `log.Topics[0]` of a log without topics panics -/
def monitorApproval : List LogK → R Unit
  | [] => .ok ()
  | .noTopics :: _ => .error (.panic "index out of range")
  | .approval :: _ => .error (.evm "unexpected Approval event")
  | _ :: r => monitorApproval r

/-! ## `MintingEnabled` -/

/-- `MintingEnabled` after the id lookup (`i?` is what `GetTokenPairID` returned) -/
def gate (env : Env) (s : State) (sender receiver : Addr) (i? : Option PairId) : R Pair :=
  ensure s.params.enableErc20 .disabled >>= fun _ =>
  match i? with
  | none => .error (.notFound "token pair id")
  | some i =>
    match s.reg.getPair i with
    | none => .error (.notFound "token pair")
    | some p =>
      ensure p.enabled (.constraint "pair disabled") >>= fun _ =>
      ensure (!env.blocked.contains receiver) .unauthorized >>= fun _ =>
      ensure (sender == receiver || s.sendEnabled p.denom) (.constraint "send disabled") >>= fun _ =>
      .ok p

def mintingEnabled (env : Env) (s : State) (sender receiver : Addr) (t : Tok) : R Pair :=
  gate env s sender receiver (s.reg.idOfTok t)

/-! ## messages -/

structure MsgConvertCoin where
  denom : Tok
  amount : Int
  receiver : HexStr
  sender : AddrStr
deriving Repr

structure MsgConvertERC20 where
  contract : HexStr
  amount : Int
  receiver : AddrStr
  sender : HexStr
deriving Repr

inductive Resp where
  | none
  | converted
  | deleted      -- `return nil, nil` after deleting the pair of a self-destructed contract
deriving Repr, DecidableEq

/-- `SendCoinsFromModuleToAccount(erc20, rcpt, coins)` -/
def modToAcct (env : Env) (b : Bank) (rcpt : Addr) (d : Denom) (a : Nat) : R Bank :=
  ensure (!env.blocked.contains rcpt) .unauthorized >>= fun _ =>
  b.applyAll [.xfer env.modAddr rcpt d a]

/-- case 1.1: escrow coins, mint tokens -/
def convertCoinNativeCoin (env : Env) (O : Oracle σ) (w : World σ) (p : Pair) (d : Denom) (a : Nat)
    (receiver sender : Addr) : R (World σ × Resp) :=
  let q0 := balanceOf O p.addr receiver w.evm
  match q0.1 with
  | none => .error (.evm "balance")
  | some b0 =>
    w.st.bank.applyAll [.xfer sender env.modAddr d a] >>= fun bank1 =>
    let c1 := callEVM O w.st env.modAddr (.mint p.addr receiver a) q0.2
    c1.1 >>= fun _ =>
    let q1 := balanceOf O p.addr receiver c1.2
    match q1.1 with
    | none => .error (.evm "balance")
    | some b1 =>
      ensure (decide (b1 = b0 + a)) (.evm "balance invariance") >>= fun _ =>
      .ok ({ st := { w.st with bank := bank1 }, evm := q1.2 }, .converted)

/-- case 1.2: burn tokens, release escrowed coins -/
def convertERC20NativeCoin (env : Env) (O : Oracle σ) (w : World σ) (p : Pair) (a : Nat)
    (receiver sender : Addr) : R (World σ × Resp) :=
  let coin0 := w.st.bank.get receiver p.denom
  let q0 := balanceOf O p.addr sender w.evm
  match q0.1 with
  | none => .error (.evm "balance")
  | some t0 =>
    let c1 := callEVM O w.st env.modAddr (.burnCoins p.addr sender a) q0.2
    c1.1 >>= fun _ =>
    modToAcct env w.st.bank receiver p.denom a >>= fun bank1 =>
    ensure (decide (bank1.get receiver p.denom = coin0 + a)) (.evm "coin balance invariance") >>= fun _ =>
    let q1 := balanceOf O p.addr sender c1.2
    match q1.1 with
    | none => .error (.evm "balance")
    | some t1 =>
      ensure (decide (t1 + a = t0)) (.evm "balance invariance") >>= fun _ =>
      .ok ({ st := { w.st with bank := bank1 }, evm := q1.2 }, .converted)

/-- case 2.1: escrow tokens on the module address, mint coins -/
def convertERC20NativeToken (env : Env) (O : Oracle σ) (w : World σ) (p : Pair) (a : Nat)
    (receiver sender : Addr) : R (World σ × Resp) :=
  let coin0 := w.st.bank.get receiver p.denom
  let q0 := balanceOf O p.addr env.modAddr w.evm
  match q0.1 with
  | none => .error (.evm "balance")
  | some m0 =>
    let c1 := callEVM O w.st sender (.transfer p.addr sender env.modAddr a) q0.2
    c1.1 >>= fun ans =>
    unpackBool ans.ret >>= fun okv =>
    ensure okv (.evm "transfer returned false") >>= fun _ =>
    let q1 := balanceOf O p.addr env.modAddr c1.2
    match q1.1 with
    | none => .error (.evm "balance")
    | some m1 =>
      ensure (decide (m1 = m0 + a)) (.evm "balance invariance") >>= fun _ =>
      w.st.bank.applyAll [.mint env.modAddr p.denom a] >>= fun bank1 =>
      modToAcct env bank1 receiver p.denom a >>= fun bank2 =>
      ensure (decide (bank2.get receiver p.denom = coin0 + a)) (.evm "coin balance invariance") >>= fun _ =>
      monitorApproval ans.logs >>= fun _ =>
      .ok ({ st := { w.st with bank := bank2 }, evm := q1.2 }, .converted)

/-- case 2.2: escrow coins, release tokens, burn the coins -/
def convertCoinNativeERC20 (env : Env) (O : Oracle σ) (w : World σ) (p : Pair) (d : Denom) (a : Nat)
    (receiver sender : Addr) : R (World σ × Resp) :=
  let q0 := balanceOf O p.addr receiver w.evm
  match q0.1 with
  | none => .error (.evm "balance")
  | some r0 =>
    w.st.bank.applyAll [.xfer sender env.modAddr d a] >>= fun bank1 =>
    let c1 := callEVM O w.st env.modAddr (.transfer p.addr env.modAddr receiver a) q0.2
    c1.1 >>= fun ans =>
    unpackBool ans.ret >>= fun okv =>
    ensure okv (.evm "transfer returned false") >>= fun _ =>
    let q1 := balanceOf O p.addr receiver c1.2
    match q1.1 with
    | none => .error (.evm "balance")
    | some r1 =>
      ensure (decide (r1 = r0 + a)) (.evm "balance invariance") >>= fun _ =>
      bank1.applyAll [.burn env.modAddr d a] >>= fun bank2 =>
      monitorApproval ans.logs >>= fun _ =>
      .ok ({ st := { w.st with bank := bank2 }, evm := q1.2 }, .converted)

/-- "Remove token pair if contract is suicided", then dispatch on the owner -/
def afterGate (O : Oracle σ) (w : World σ) (p : Pair)
    (conv : World σ → R (World σ × Resp)) : R (World σ × Resp) :=
  let hc := hasCode O p.addr w.evm
  if hc.1 then conv { w with evm := hc.2 }
  else .ok ({ st := { w.st with reg := w.st.reg.delete p }, evm := hc.2 }, .deleted)

/-- `Keeper.ConvertCoin` -/
def convertCoin (env : Env) (O : Oracle σ) (w : World σ) (m : MsgConvertCoin) : R (World σ × Resp) :=
  ensure (validErc20Denom m.denom.s || validIBCDenom m.denom.s) (.invalid "denom") >>= fun _ =>
  -- a denomination of hex-address form would be routed to the address index by `GetTokenPairID`
  ensure (!isHexAddress m.denom.s) (.invalid "denomination has the form of a hex address") >>= fun _ =>
  ensure (decide (0 < m.amount)) (.invalid "amount") >>= fun _ =>
  m.sender.decode >>= fun sender =>
  m.receiver.decode >>= fun receiver =>
  mintingEnabled env w.st sender receiver m.denom >>= fun p =>
  afterGate O w p (fun w1 =>
    match p.owner with
    | .module => convertCoinNativeCoin env O w1 p m.denom.s m.amount.toNat receiver sender
    | .external => convertCoinNativeERC20 env O w1 p m.denom.s m.amount.toNat receiver sender
    | .unspecified => .error (.invalid "undefined owner"))

/-- `Keeper.ConvertERC20` -/
def convertERC20 (env : Env) (O : Oracle σ) (w : World σ) (m : MsgConvertERC20) : R (World σ × Resp) :=
  m.contract.decode >>= fun c =>
  ensure (decide (0 < m.amount)) (.invalid "amount") >>= fun _ =>
  m.receiver.decode >>= fun receiver =>
  m.sender.decode >>= fun sender =>
  -- `MintingEnabled(ctx, sender, receiver, msg.ContractAddress)`: the string is a hex address
  gate env w.st sender receiver (KMap.get? w.st.reg.byAddr c) >>= fun p =>
  afterGate O w p (fun w1 =>
    match p.owner with
    | .module => convertERC20NativeCoin env O w1 p m.amount.toNat receiver sender
    | .external => convertERC20NativeToken env O w1 p m.amount.toNat receiver sender
    | .unspecified => .error (.invalid "undefined owner"))

/-! ## governance: registration, toggle, parameters (`proposals.go`, `msg_server.go`) -/

/-- `RegisterCoinProposal` → `RegisterCoin` -/
def registerCoin (env : Env) (O : Oracle σ) (w : World σ) (auth : Bool) (base : Denom) (digest : String) :
    R (World σ × Resp) :=
  ensure auth .unauthorized >>= fun _ =>
  ensure w.st.params.enableErc20 .disabled >>= fun _ =>
  ensure (!containsCANTO base) (.invalid "EVM denomination") >>= fun _ =>
  ensure (!isHexAddress base) (.invalid "base denomination has the form of a hex address") >>= fun _ =>
  ensure (!KMap.has w.st.reg.byDenom base) (.exists_ "denomination") >>= fun _ =>
  ensure (decide (0 < w.st.bank.supply base)) (.invalid "no supply") >>= fun _ =>
  -- verifyMetadata
  (match KMap.get? w.st.dmeta base with
   | none => .ok (KMap.put w.st.dmeta base digest)
   | some dg => ensure (dg == digest) (.invalid "metadata differs") >>= fun _ => .ok w.st.dmeta) >>= fun dmeta1 =>
  -- DeployERC20Contract
  ensure (w.st.bank.hasAcct env.modAddr) (.notFound "account") >>= fun _ =>
  env.create w.st.mn >>= fun addr =>
  let c1 := callEVM O w.st env.modAddr (.create addr) w.evm
  c1.1 >>= fun _ =>
  let p : Pair := { addr := addr, denom := base, enabled := true, owner := .module }
  .ok ({ st := { w.st with reg := w.st.reg.insert p, dmeta := dmeta1, mn := w.st.mn + 1 }, evm := c1.2 }, .none)

/-- `QueryERC20`: three read-only calls; each must succeed and return decodable data -/
def queryERC20 (O : Oracle σ) (s : State) (env : Env) (c : Addr) (e : σ) : R σ :=
  let c1 := callEVM O s env.modAddr (.name c) e
  c1.1 >>= fun a1 =>
  ensure a1.ret.isSome (.evm "unpack name") >>= fun _ =>
  let c2 := callEVM O s env.modAddr (.symbol c) c1.2
  c2.1 >>= fun a2 =>
  ensure a2.ret.isSome (.evm "unpack symbol") >>= fun _ =>
  let c3 := callEVM O s env.modAddr (.decimals c) c2.2
  c3.1 >>= fun a3 =>
  ensure a3.ret.isSome (.evm "unpack decimals") >>= fun _ =>
  .ok c3.2

/-- `RegisterERC20Proposal` → `RegisterERC20`.  `metaOk`: the bank metadata assembled from what the
contract answered passes `banktypes.Metadata.Validate` (SDK code, abstracted to this flag). -/
def registerERC20 (env : Env) (O : Oracle σ) (w : World σ) (auth : Bool) (c : Addr) (metaOk : Bool) :
    R (World σ × Resp) :=
  ensure auth .unauthorized >>= fun _ =>
  ensure w.st.params.enableErc20 .disabled >>= fun _ =>
  ensure (!KMap.has w.st.reg.byAddr c) (.exists_ "contract") >>= fun _ =>
  -- CreateCoinMetadata
  queryERC20 O w.st env c w.evm >>= fun e1 =>
  env.denomOf c >>= fun d =>
  ensure (!KMap.has w.st.dmeta d) (.exists_ "denom metadata") >>= fun _ =>
  ensure (!KMap.has w.st.reg.byDenom d) (.exists_ "denomination") >>= fun _ =>
  ensure metaOk (.invalid "metadata") >>= fun _ =>
  let p : Pair := { addr := c, denom := d, enabled := true, owner := .external }
  .ok ({ st := { w.st with reg := w.st.reg.insert p, dmeta := KMap.put w.st.dmeta d "erc20" }, evm := e1 }, .none)

/-- `ToggleTokenConversionProposal` → `ToggleConversion` -/
def toggle (w : World σ) (auth : Bool) (t : Tok) : R (World σ × Resp) :=
  ensure auth .unauthorized >>= fun _ =>
  match w.st.reg.idOfTok t with
  | none => .error (.notFound "token pair id")
  | some i =>
    match w.st.reg.getPair i with
    | none => .error (.notFound "token pair")
    | some p =>
      .ok ({ w with st := { w.st with reg := w.st.reg.setPair { p with enabled := !p.enabled } } }, .none)

/-- `UpdateParams` (`Params.Validate` accepts everything) -/
def updateParams (w : World σ) (auth : Bool) (p : Params) : R (World σ × Resp) :=
  ensure auth .unauthorized >>= fun _ =>
  .ok ({ w with st := { w.st with params := p } }, .none)

/-! ## the EVM hook (`evm_hooks.go`) -/

structure Log where
  emitter : Addr
  nTopics : Nat
  /-- `Topics[0]` is the id of the ABI's `Transfer` event -/
  isTransfer : Bool
  sender : Addr          -- `Topics[1]` (last 20 bytes)
  to : Addr              -- `Topics[2]` (last 20 bytes)
  /-- `Data` unpacked as one `uint256`; `none`: does not unpack -/
  amount : Option Nat
deriving DecidableEq, Repr

/-- the pair a log converts, if it passes every filter of the loop body -/
def hookTarget (env : Env) (s : State) (l : Log) : Option (Pair × Nat) :=
  if l.nTopics ≠ 3 then none else
  if !l.isTransfer then none else
  match l.amount with
  | none => none
  | some v =>
    if v = 0 then none else
    match KMap.get? s.reg.byAddr l.emitter with
    | none => none
    | some i =>
      match s.reg.getPair i with
      | none => none
      | some p =>
        if l.to ≠ env.modAddr then none else
        if !p.enabled then none else some (p, v)

/-- a bank error is logged and the loop `continue`s; an overflow panic aborts the transaction -/
def bankSoft (b : Bank) (r : R Bank) : R Bank :=
  match r with
  | .ok b' => .ok b'
  | .error .overflow => .error .overflow
  | .error _ => .ok b

/-- one iteration of the loop over `receipt.Logs` -/
def hookLog (env : Env) (O : Oracle σ) (w : World σ) (l : Log) : R (World σ) :=
  match hookTarget env w.st l with
  | none => .ok w
  | some (p, v) =>
    match p.owner with
    | .module =>
      let c1 := callEVM O w.st env.modAddr (.burn l.emitter v) w.evm
      (match c1.1 with
       | .error _ => .ok { w with evm := c1.2 }
       | .ok _ =>
         bankSoft w.st.bank (modToAcct env w.st.bank l.sender p.denom v) >>= fun bank1 =>
         .ok { st := { w.st with bank := bank1 }, evm := c1.2 })
    | .external =>
      w.st.bank.applyAll [.mint env.modAddr p.denom v] >>= fun bank1 =>
      bankSoft bank1 (modToAcct env bank1 l.sender p.denom v) >>= fun bank2 =>
      .ok { w with st := { w.st with bank := bank2 } }
    | .unspecified => .ok w

def hookLogs (env : Env) (O : Oracle σ) : World σ → List Log → R (World σ)
  | w, [] => .ok w
  | w, l :: ls => hookLog env O w l >>= fun w1 => hookLogs env O w1 ls

/-- `Hooks.PostTxProcessing` -/
def postTx (env : Env) (O : Oracle σ) (w : World σ) (logs : List Log) : R (World σ × Resp) :=
  if !w.st.params.enableErc20 || !w.st.params.enableEVMHook then .ok (w, .none)
  else hookLogs env O w logs >>= fun w1 => .ok (w1, .none)

/-! ## genesis export / import (`genesis.go`) -/

/-- `InitGenesis (ExportGenesis s)` into emptied stores -/
def reimport (r : Registry) : Registry :=
  let r1 : Registry := r.pairs.foldl (fun acc e => { acc with pairs := KMap.put acc.pairs e.2.id e.2 }) Registry.empty
  let r2 : Registry := r.byDenom.foldl (fun acc e => { acc with byDenom := KMap.put acc.byDenom e.1 e.2 }) r1
  r.byAddr.foldl (fun acc e => { acc with byAddr := KMap.put acc.byAddr e.1 e.2 }) r2

/-! ## the operation alphabet -/

inductive Op where
  | convertCoin (m : MsgConvertCoin)
  | convertERC20 (m : MsgConvertERC20)
  | registerCoin (auth : Bool) (base : Denom) (digest : String)
  | registerERC20 (auth : Bool) (c : Addr) (metaOk : Bool)
  | toggle (auth : Bool) (t : Tok)
  | updateParams (auth : Bool) (p : Params)
  | hook (logs : List Log)
  | send (src dst : Addr) (d : Denom) (amt : Nat)       -- any bank transfer between accounts
  | setSendEnabled (d : Denom) (v : Bool)               -- x/bank governance
  | setSendDefault (v : Bool)
  | reimport
deriving Repr

def step (env : Env) (O : Oracle σ) (w : World σ) : Op → R (World σ × Resp)
  | .convertCoin m => convertCoin env O w m
  | .convertERC20 m => convertERC20 env O w m
  | .registerCoin auth base dg => registerCoin env O w auth base dg
  | .registerERC20 auth c mo => registerERC20 env O w auth c mo
  | .toggle auth t => toggle w auth t
  | .updateParams auth p => updateParams w auth p
  | .hook logs => postTx env O w logs
  | .send src dst d amt =>
    w.st.bank.applyAll [.xfer src dst d amt] >>= fun b => .ok ({ w with st := { w.st with bank := b } }, .none)
  | .setSendEnabled d v =>
    .ok ({ w with st := { w.st with sendOverride := KMap.put w.st.sendOverride d v } }, .none)
  | .setSendDefault v => .ok ({ w with st := { w.st with sendDefault := v } }, .none)
  | .reimport => .ok ({ w with st := { w.st with reg := reimport w.st.reg } }, .none)

/-- transaction-level execution: a rejected operation leaves *both* stores (Canto's and the EVM's)
as they were — the message ran in a branch of state that is discarded -/
def exec (env : Env) (O : Oracle σ) (w : World σ) (op : Op) : World σ := (deliver w (fun w => step env O w op)).1

def run (env : Env) (O : Oracle σ) (w : World σ) (ops : List Op) : World σ := ops.foldl (exec env O) w

end keeper

end Erc20
end CV
