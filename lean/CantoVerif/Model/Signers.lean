import CantoVerif.Model.Coinswap
/-!
# Required signers and paying accounts of the five Canto user messages — executable model (C07).

* signer derivation: `proto/canto/*/v1/tx.proto` `cosmos.msg.v1.signer` annotations (`sender` for
  MsgAddLiquidity, MsgRemoveLiquidity, MsgConvertCoin: the address codec decodes the bech32 string) and
  the custom functions registered in `app/app.go` (`MsgSwapOrder` → `Input.Address` through the
  address codec; `MsgConvertERC20` → `common.HexToAddress(Sender)`, which never fails);
* execution: the three coinswap messages are the existing coinswap model (`Model/Coinswap.lean`);
  for the two conversions only *which account each leg debits* is modelled
  (`x/erc20/keeper/msg_server.go`, the four `convert…` functions): the ERC-20 ledger of a registered
  token is kept in the same `Bank` under a pseudo-denomination `tok.<contract>` and an honest token's
  `transfer` / `mint` / `burnCoins` are `Eff.xfer` / `Eff.mint` / `Eff.burn` on it.  Everything else
  those handlers check (module switches, pair enabled, contract alive, balance-after checks, blocked
  receivers) is a parameter: `g` says whether those un-modelled guards pass.

Address *strings*: bech32 in lower or upper case (`Coinswap.AddrStr`), hex in the six spellings
go-ethereum accepts (`HexStr`).  Core Lean only.
-/
namespace CV
namespace Signers
open Coinswap

/-- spellings of a hex address accepted by `common.IsHexAddress`; anything else is `bad` -/
inductive HexForm where
  | x0Eip55 | x0Lower | x0Upper | bareLower | bareUpper | bareEip55 | bad
deriving DecidableEq, Repr

structure HexStr where
  form : HexForm
  bytes : Addr      -- the 20 bytes a well-formed spelling denotes
  junk : Addr       -- what the lenient `common.HexToAddress` makes of a malformed string
deriving Repr

/-- `common.IsHexAddress` -/
def HexStr.isHex (h : HexStr) : Bool := h.form != .bad
/-- `common.HexToAddress`: never fails -/
def HexStr.toAddr (h : HexStr) : Addr := if h.isHex then h.bytes else h.junk

inductive Owner where | module | external
deriving DecidableEq, Repr

/-- a registered token pair: coin denomination, the pseudo-denomination of the contract's ledger, owner -/
structure Pair where
  denom : Denom
  tok : Denom
  owner : Owner
deriving DecidableEq, Repr

structure Env where
  cs : Coinswap.Env
  erc20Mod : Addr
deriving Repr

structure State where
  cs : Coinswap.State
  pairs : List Pair
deriving Repr

structure MsgConvertCoin where
  sender : AddrStr
  receiver : HexStr
  denom : Denom
  amt : Int
deriving Repr

structure MsgConvertERC20 where
  sender : HexStr
  receiver : AddrStr
  contract : Denom      -- pseudo-denomination of the contract address the message names
  amt : Int
deriving Repr

inductive Op where
  | cs (op : Coinswap.Op)
  | convertCoin (m : MsgConvertCoin)
  | convertERC20 (m : MsgConvertERC20)
deriving Repr

/-- the five user messages (the coinswap alphabet also has bank sends, parameter and time steps) -/
def Op.isUserMsg : Op → Bool
  | .cs (.swap _) | .cs (.add _) | .cs (.remove _) | .convertCoin _ | .convertERC20 _ => true
  | _ => false

/-- the signer set the chain derives (`codec.GetMsgV1Signers`) -/
def signers : Op → R (List Addr)
  | .cs (.swap m) => m.inAddr.decode >>= fun a => .ok [a]       -- custom: Input.Address via the address codec
  | .cs (.add m) => m.sender.decode >>= fun a => .ok [a]        -- annotation: sender
  | .cs (.remove m) => m.sender.decode >>= fun a => .ok [a]     -- annotation: sender
  | .cs _ => .ok []
  | .convertCoin m => m.sender.decode >>= fun a => .ok [a]      -- annotation: sender
  | .convertERC20 m => .ok [m.sender.toAddr]                    -- custom: common.HexToAddress(Sender)

/-! ## the legs of the four conversion paths -/

/-- `convertCoinNativeCoin` (1.1): escrow the coins, mint tokens to the receiver;
`convertCoinNativeERC20` (2.2): escrow the coins, release escrowed tokens to the receiver, burn the coins -/
def convertCoinEffs (mod sender receiver : Addr) (p : Pair) (amt : Nat) : List Eff :=
  match p.owner with
  | .module => [.xfer sender mod p.denom amt, .mint receiver p.tok amt]
  | .external => [.xfer sender mod p.denom amt, .xfer mod receiver p.tok amt, .burn mod p.denom amt]

/-- `convertERC20NativeCoin` (1.2): burn the sender's tokens, release the escrowed coins;
`convertERC20NativeToken` (2.1): the sender transfers tokens to the module, coins are minted and sent on -/
def convertERC20Effs (mod sender receiver : Addr) (p : Pair) (amt : Nat) : List Eff :=
  match p.owner with
  | .module => [.burn sender p.tok amt, .xfer mod receiver p.denom amt]
  | .external => [.xfer sender mod p.tok amt, .mint mod p.denom amt, .xfer mod receiver p.denom amt]

def ensure' (c : Bool) (e : Rej) : R Unit := if c then .ok () else .error e

/-- `Keeper.ConvertCoin` -/
def convertCoin (env : Env) (g : Bool) (s : State) (m : MsgConvertCoin) : R State :=
  ensure (decide (0 < m.amt)) (.invalid "amount") >>= fun _ =>
  m.sender.decode >>= fun sender =>
  ensure m.receiver.isHex (.invalid "receiver") >>= fun _ =>
  ensure g (.evm "un-modelled guards") >>= fun _ =>
  match s.pairs.find? (fun p => p.denom == m.denom) with
  | none => .error (.notFound "pair")
  | some p =>
    s.cs.bank.applyAll (convertCoinEffs env.erc20Mod sender m.receiver.toAddr p m.amt.toNat) >>= fun b =>
    .ok { s with cs := { s.cs with bank := b } }

/-- `Keeper.ConvertERC20` -/
def convertERC20 (env : Env) (g : Bool) (s : State) (m : MsgConvertERC20) : R State :=
  ensure (decide (0 < m.amt)) (.invalid "amount") >>= fun _ =>
  m.receiver.decode >>= fun receiver =>
  ensure m.sender.isHex (.invalid "sender") >>= fun _ =>
  ensure g (.evm "un-modelled guards") >>= fun _ =>
  match s.pairs.find? (fun p => p.tok == m.contract) with
  | none => .error (.notFound "pair")
  | some p =>
    s.cs.bank.applyAll (convertERC20Effs env.erc20Mod m.sender.toAddr receiver p m.amt.toNat) >>= fun b =>
    .ok { s with cs := { s.cs with bank := b } }

def step (env : Env) (g : Bool) (s : State) : Op → R State
  | .cs op => Coinswap.step env.cs s.cs op >>= fun (cs', _) => .ok { s with cs := cs' }
  | .convertCoin m => convertCoin env g s m
  | .convertERC20 m => convertERC20 env g s m

/-- a pool escrow of the state: the reserve address of a pool's share denomination, or the address the pool records -/
def isEscrow (env : Env) (s : State) (a : Addr) : Prop :=
  ∃ p ∈ s.cs.pools, env.cs.reserve p.lpt = .ok a ∨ p.escrow = a

end Signers
end CV
