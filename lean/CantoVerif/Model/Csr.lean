import CantoVerif.Base.Core
import CantoVerif.Base.AMap
import CantoVerif.Base.Bank
import CantoVerif.Base.Dec
/-!
# x/csr — executable model of the EVM post-transaction hook and the Turnstile event handlers.

Mirrors `x/csr/keeper/{evm_hooks,event_handler,csr}.go`, `x/csr/types/{csr,params}.go` and
`msg_server.go` as they are now (zero-amount legs of the fee split are skipped):

* the registry is the two KV prefixes read raw: `csrs` (NFT id ↦ CSR record) and `idx`
  (contract ↦ NFT id); `SetCSR` writes the record and re-writes the index entry of every contract
  in its list;
* `processEvents` interprets only logs whose emitter is the stored Turnstile address, skips logs
  without topics, stops at an unknown topic and at the first handler error;
* `RegisterEvent` / `UpdateEvent` with `ValidateContract` and `CSR.Validate` in source order;
* the fee path: `fee = gasUsed·gasPrice` (256-bit guards) fee collector → module, all of it burned
  for a contract creation or an unregistered target, else `csrFee = ⌊fee·share⌋` (LegacyDec, 315-bit
  guard) paid into the Turnstile by `distributeFees`, the rest burned, `Txs += 1` (uint64),
  `Revenue += csrFee` (256-bit guard).

External functions, carried on the operation: the ABI decoder (a log arrives with what
`UnpackIntoInterface` makes of its data under the layout of its topic, or `malformed`), the topic
lookup `EventByID`, and `evmKeeper.GetAccount(c).IsContract()` (`hasCode`).  The Turnstile contract
is its `balances` mapping with the revert conditions of `distributeFees` (`msg.value == 0`,
checked `+=`); an EVM value transfer is what ethermint's `StateDB.Commit` does to x/bank: the
sender's decrease is burned and the recipient's increase minted through the evm module account, in
byte order of the two addresses.  Core Lean only.
-/
namespace CV
namespace Csr

def ensure (c : Bool) (e : Rej) : R Unit := if c then .ok () else .error e
theorem ensure_ok {c : Bool} {e : Rej} {u : Unit} (h : ensure c e = .ok u) : c = true := by
  unfold ensure at h; split at h
  · assumption
  · cases h

/-- 2^64: `uint64` arithmetic (`TokenId.Uint64()`, `csr.Txs += 1`) -/
def U64 : Nat := 18446744073709551616

/-! ## association lists read with `lookup` (the two store prefixes) -/

def lookup {α β : Type} [DecidableEq α] : List (α × β) → α → Option β
  | [], _ => none
  | (k, v) :: rest, a => if k = a then some v else lookup rest a

/-- `store.Set`: replace the value under an existing key, else add the key -/
def insert {α β : Type} [DecidableEq α] : List (α × β) → α → β → List (α × β)
  | [], a, b => [(a, b)]
  | (k, v) :: rest, a, b => if k = a then (a, b) :: rest else (k, v) :: insert rest a b

/-! ## state -/

structure CSR where
  id : Nat
  contracts : List Addr
  txs : Nat
  revenue : Nat
deriving DecidableEq, Repr

structure Params where
  enabled : Bool
  share : Nat        -- CsrShares, LegacyDec scaled by 10^18
deriving DecidableEq, Repr

/-- static wiring -/
structure Env where
  modAddr : Addr        -- csr module account (owner of the Turnstile, sender of `distributeFees`)
  feeCollector : Addr
  evmAddr : Addr        -- evm module account (mints / burns for EVM balance changes)
  zeroAddr : Addr       -- 0x000…0
  denom : Denom         -- EVM denomination
deriving Repr

structure State where
  bank : Bank
  params : Params
  turnstile : Option Addr        -- `GetTurnstile`
  modFirst : Bool                -- the module address sorts before the Turnstile address (commit order of the EVM state)
  csrs : List (Nat × CSR)        -- prefix 1: NFT id ↦ CSR
  idx : List (Addr × Nat)        -- prefix 2: contract ↦ NFT id
  tsBal : AMap Nat               -- Turnstile storage: `balances[nft]`
deriving Repr

def State.getCSR (s : State) (n : Nat) : Option CSR := lookup s.csrs n
def State.nftOf (s : State) (c : Addr) : Option Nat := lookup s.idx c

def setIdx (idx : List (Addr × Nat)) (cs : List Addr) (n : Nat) : List (Addr × Nat) :=
  cs.foldl (fun m c => insert m c n) idx

/-- `Keeper.SetCSR` -/
def State.setCSR (s : State) (r : CSR) : State :=
  { s with csrs := insert s.csrs r.id r, idx := setIdx s.idx r.contracts r.id }

/-! ## receipts -/

/-- `log.Topics[0]` as `processEvents` sees it -/
inductive Topic where
  | none        -- no topics at all
  | register    -- `EventByID` finds "Register"
  | assign      -- `EventByID` finds "Assign"
  | other       -- another event of the Turnstile ABI
  | unknown     -- `EventByID` fails
deriving DecidableEq, Repr

/-- what `TurnstileContract.UnpackIntoInterface` makes of `log.Data` (with `hasCode` = the answer of
`evmKeeper.GetAccount(contract).IsContract()` in the state the hook runs in) -/
inductive Payload where
  | malformed
  | reg (contract : Addr) (hasCode : Bool) (tokenId : Nat)   -- RegisterCSREvent (the recipient is not used)
  | upd (contract : Addr) (hasCode : Bool) (tokenId : Nat)   -- UpdateCSREvent
deriving DecidableEq, Repr

structure Log where
  emitter : Addr
  topic : Topic
  payload : Payload
deriving DecidableEq, Repr

/-! ## event handlers -/

/-- `Keeper.ValidateContract` -/
def validateContract (s : State) (c : Addr) (hasCode : Bool) : R Unit :=
  ensure (s.nftOf c).isNone (.exists_ "contract already registered") >>= fun _ =>
  ensure hasCode (.invalid "not a smart contract")

/-- the loop of `CSR.Validate` -/
def validateLoop (zero : Addr) : List Addr → List Addr → R Unit
  | _, [] => .ok ()
  | seen, c :: cs =>
    ensure (c != zero) (.invalid "zero address") >>= fun _ =>
    ensure (!seen.contains c) (.invalid "duplicate smart contract") >>= fun _ =>
    validateLoop zero (c :: seen) cs

/-- `CSR.Validate` -/
def validateCSR (env : Env) (r : CSR) : R Unit :=
  validateLoop env.zeroAddr [] r.contracts >>= fun _ =>
  ensure (decide (1 ≤ r.contracts.length)) (.invalid "no smart contract")

/-- `Keeper.RegisterEvent` -/
def registerEvent (env : Env) (s : State) (p : Payload) : R State :=
  match p with
  | .reg c hasCode tokenId =>
    validateContract s c hasCode >>= fun _ =>
    let id := tokenId % U64
    ensure (s.getCSR id).isNone (.exists_ "nft id") >>= fun _ =>
    let r : CSR := { id := id, contracts := [c], txs := 0, revenue := 0 }
    validateCSR env r >>= fun _ =>
    .ok (s.setCSR r)
  | _ => .error (.invalid "abi")

/-- `Keeper.UpdateEvent` -/
def updateEvent (env : Env) (s : State) (p : Payload) : R State :=
  match p with
  | .upd c hasCode tokenId =>
    validateContract s c hasCode >>= fun _ =>
    match s.getCSR (tokenId % U64) with
    | none => .error (.notFound "nft id")
    | some r =>
      let r' : CSR := { r with contracts := r.contracts ++ [c] }
      validateCSR env r' >>= fun _ =>
      .ok (s.setCSR r')
  | _ => .error (.invalid "abi")

/-- one iteration of the loop of `processEvents`: the new state and whether the loop goes on -/
def handleLog (env : Env) (ts : Addr) (s : State) (l : Log) : State × Bool :=
  if l.topic = .none then (s, true)
  else if l.emitter ≠ ts then (s, true)
  else match l.topic with
    | .unknown => (s, false)
    | .register =>
      (match registerEvent env s l.payload with
       | .ok s' => (s', true)
       | .error _ => (s, false))
    | .assign =>
      (match updateEvent env s l.payload with
       | .ok s' => (s', true)
       | .error _ => (s, false))
    | _ => (s, true)

/-- `Hooks.processEvents` -/
def processEvents (env : Env) (ts : Addr) : State → List Log → State
  | s, [] => s
  | s, l :: ls =>
    match handleLog env ts s l with
    | (s', true) => processEvents env ts s' ls
    | (s', false) => s'

/-! ## fee distribution -/

/-- an EVM value transfer as x/bank sees it (`StateDB.Commit` → `SetBalance` per dirty account,
accounts in byte order) -/
def evmTransfer (env : Env) (srcFirst : Bool) (src dst : Addr) (v : Nat) : List Eff :=
  let debit := [Eff.xfer src env.evmAddr env.denom v, Eff.burn env.evmAddr env.denom v]
  let credit := [Eff.mint env.evmAddr env.denom v, Eff.xfer env.evmAddr dst env.denom v]
  if srcFirst then debit ++ credit else credit ++ debit

/-- `Turnstile.distributeFees{value: v}(nft)` called by the module account (the owner) -/
def distributeFees (env : Env) (s : State) (ts : Addr) (nft v : Nat) : R State :=
  ensure (v != 0) (.evm "NothingToDistribute") >>= fun _ =>
  ensure (decide (s.tsBal.get nft + v < intBound)) (.evm "balances overflow") >>= fun _ =>
  s.bank.applyAll (evmTransfer env s.modFirst env.modAddr ts v) >>= fun b =>
  .ok { s with bank := b, tsBal := s.tsBal.set nft (s.tsBal.get nft + v) }

/-- burn the whole fee (contract creation / unregistered target); nothing to do for a zero fee -/
def burnAll (env : Env) (s : State) (fee : Nat) : R State :=
  if fee = 0 then .ok s
  else s.bank.applyAll [.burn env.modAddr env.denom fee] >>= fun b => .ok { s with bank := b }

/-- `csrFee := LegacyNewDecFromInt(fee).Mul(share).TruncateInt()` -/
def csrFeeOf (fee share : Nat) : R Nat :=
  Dec.mul (Dec.ofIntN fee) share >>= fun d => Dec.truncateInt d

/-- the registered-target leg of `PostTxProcessing` -/
def split (env : Env) (s : State) (ts : Addr) (nft : Nat) (r : CSR) (fee share : Nat) : R State :=
  csrFeeOf fee share >>= fun csrFee =>
  let remaining := fee - csrFee     -- `fee.Sub(csrFee)`; only used when positive
  (if csrFee = 0 then .ok s else distributeFees env s ts nft csrFee) >>= fun s3 =>
  (if remaining = 0 then .ok s3.bank else s3.bank.applyAll [.burn env.modAddr env.denom remaining]) >>= fun b4 =>
  SdkInt.add r.revenue csrFee >>= fun rev =>
  .ok ({ s3 with bank := b4 }.setCSR { r with txs := (r.txs + 1) % U64, revenue := rev })

/-- `Hooks.PostTxProcessing(ctx, msg, receipt)` with `to = msg.To()`, `gasUsed = receipt.GasUsed`,
`gasPrice = msg.GasPrice()`, `logs = receipt.Logs` -/
def postTx (env : Env) (s : State) (to : Option Addr) (gasUsed gasPrice : Nat) (logs : List Log) : R State :=
  if s.params.enabled = false then .ok s
  else match s.turnstile with
  | none => .error (.panic "turnstile not found")
  | some ts =>
    let s1 := processEvents env ts s logs
    if gasUsed = 0 then .ok s1
    else
      SdkInt.ofBig gasPrice >>= fun gp =>
      SdkInt.mul gasUsed gp >>= fun fee =>
      (if fee = 0 then .ok s1.bank
       else s1.bank.applyAll [.xfer env.feeCollector env.modAddr env.denom fee]) >>= fun b1 =>
      let s2 : State := { s1 with bank := b1 }
      match to with
      | none => burnAll env s2 fee
      | some c =>
        match s2.nftOf c with
        | none => burnAll env s2 fee
        | some nft =>
          match s2.getCSR nft with
          | none => .error (.notFound "csr of indexed nft")
          | some r => split env s2 ts nft r fee s.params.share

/-! ## operations -/

inductive Op where
  | postTx (to : Option Addr) (gasUsed gasPrice : Nat) (logs : List Log)
  /-- `MsgUpdateParams`: `authorized` = the message's authority is the keeper's; `share = none` is a nil decimal -/
  | setParams (authorized : Bool) (enabled : Bool) (share : Option Int)
  | send (src dst : Addr) (d : Denom) (amt : Nat)     -- any bank transfer (funding of the fee collector, donations)
deriving Repr

/-- `Params.Validate` -/
def validShare (share : Option Int) : Bool :=
  match share with
  | none => false
  | some v => decide (0 ≤ v) && decide (v ≤ (S18 : Int))

def step (env : Env) (s : State) : Op → R State
  | .postTx to gu gp logs => postTx env s to gu gp logs
  | .setParams auth en share =>
    ensure auth .unauthorized >>= fun _ =>
    ensure (validShare share) (.invalid "params") >>= fun _ =>
    .ok { s with params := { enabled := en, share := (share.getD 0).toNat } }
  | .send src dst d amt =>
    s.bank.applyAll [.xfer src dst d amt] >>= fun b => .ok { s with bank := b }

/-- transaction-level execution (the EVM reverts the whole transaction when a hook fails;
baseapp discards a failed message): rejected ⇒ unchanged -/
def exec (env : Env) (s : State) (op : Op) : State :=
  match step env s op with
  | .ok s' => s'
  | .error _ => s

def run (env : Env) (s : State) (ops : List Op) : State := ops.foldl (exec env) s

end Csr
end CV
