import CantoVerif.Base.Core
/-!
# x/govshuttle — executable model of the message server, the keeper and the proposal store (C20).

Mirrors `x/govshuttle/keeper/{msg_server,proposals,keeper}.go`, `x/govshuttle/types/proposal.go`
(`FromTreasuryToLendingMarket`) and the storage rule of `contracts/Port.sol` (`ProposalStore`):

* message server: authority (a *string* comparison) first, then the list-length checks (call data / values /
  signatures — the target list is NOT part of the check) resp. the denomination check
  (`strings.ToLower(denom) ∈ {"canto","note"}`), then `AppendLendingMarketProposal`;
* keeper: `PropId = 0 ⇒ govKeeper.ProposalID.Peek` (the NEXT gov proposal id), deploy the store iff
  `GetPort` finds nothing (the constructor stores the proposal; address = `CreateAddress(module, nonce)`;
  the module account's nonce is bumped by the creation), remember the address, then `AddProposal`
  (which stores the same proposal again);
* conversions `ToAddress / ToBigInt / ToBytes` with go-ethereum's LENIENT hex decoding
  (`common.HexToAddress`, `common.Hex2Bytes`), modelled on byte lists exactly as the Go code behaves,
  malformed input included;
* the contract: `proposals[propId] = Proposal(propId, …)` overwrites the slot; `QueryProp(q)` returns the
  slot iff `proposals[q].id == q`, else the empty proposal.

A Go `string` is a byte sequence; it is modelled as `List Nat` (each element `< 256`, see `IsBytes`).
Everything `encoding/hex` and go-ethereum do is defined on bytes, so this is exact also for non-ASCII
input (e.g. `len(s) % 2` in `FromHex` is a *byte* count).

External / not modelled (trusted base, compared by the correspondence run only):
* `crypto.CreateAddress(module, nonce)` — a table in `Env`;
* ABI encoding of the call, the EVM and Solidity's storage layout: the contract is the abstract map
  `Store` with the three rules above;
* gas: whether the EVM runs out of gas for a huge payload cannot be predicted by the model; it is an
  *input* of the operation (`evmFail`), reported by the harness on the trace line.
Core Lean only.
-/
namespace CV
namespace Govshuttle

def ensure (c : Bool) (e : Rej) : R Unit := if c then .ok () else .error e
theorem ensure_ok {c : Bool} {e : Rej} {u : Unit} (h : ensure c e = .ok u) : c = true := by
  unfold ensure at h; split at h
  · assumption
  · cases h

/-- a Go `string` / `[]byte`: a list of bytes -/
abbrev Bytes := List Nat

def IsBytes (bs : Bytes) : Prop := ∀ b ∈ bs, b < 256

/-- the bytes of a Lean string (UTF-8), for examples and the driver -/
def bytesOf (s : String) : Bytes := s.toUTF8.toList.map UInt8.toNat

/-! ## hexadecimal, exactly as `encoding/hex` and `go-ethereum/common` decode it -/

/-- `reverseHexTable` of `encoding/hex`: the value of a hex-digit byte; every other byte is invalid -/
def hexVal (c : Nat) : Option Nat :=
  if 48 ≤ c ∧ c ≤ 57 then some (c - 48)          -- '0'..'9'
  else if 97 ≤ c ∧ c ≤ 102 then some (c - 87)    -- 'a'..'f'
  else if 65 ≤ c ∧ c ≤ 70 then some (c - 55)     -- 'A'..'F'
  else none

/-- `common.Hex2Bytes(str)` = `hex.DecodeString(str)` with the error dropped: pairs of hex digits are
decoded from the left; decoding stops at the first pair containing a byte that is not a hex digit and
the bytes decoded so far are returned; a trailing single byte (odd length) is dropped.  No `0x`
stripping. -/
def hex2Bytes : Bytes → Bytes
  | p :: q :: rest =>
    match hexVal p, hexVal q with
    | some a, some b => (16 * a + b) :: hex2Bytes rest
    | _, _ => []
  | _ => []

/-- `has0xPrefix` -/
def has0x : Bytes → Bool
  | 48 :: x :: _ => x == 120 || x == 88
  | _ => false

/-- `common.FromHex`: strip one `0x`/`0X`, pad an odd number of BYTES with a leading `'0'`, then `Hex2Bytes` -/
def fromHex (s : Bytes) : Bytes :=
  let s := if has0x s then s.drop 2 else s
  let s := if s.length % 2 = 1 then 48 :: s else s
  hex2Bytes s

/-- `common.BytesToAddress` / `Address.SetBytes`: keep the LAST 20 bytes, left-pad with zeros -/
def bytesToAddress (b : Bytes) : Bytes :=
  let b := if b.length > 20 then b.drop (b.length - 20) else b
  List.replicate (20 - b.length) 0 ++ b

/-- `common.HexToAddress` -/
def hexToAddress (s : Bytes) : Bytes := bytesToAddress (fromHex s)

/-- lower-case hex digit of a nibble (`hex.EncodeToString`) -/
def hexDigit (n : Nat) : Nat := if n < 10 then 48 + n else 87 + n

/-- `hex.EncodeToString` -/
def hexEncode : Bytes → Bytes
  | [] => []
  | b :: bs => hexDigit (b / 16) :: hexDigit (b % 16) :: hexEncode bs

/-- "well-formed hex call data": an even number of hex digits and nothing else (no prefix) -/
def wellFormedHex (s : Bytes) : Bool := s.length % 2 == 0 && s.all (fun c => (hexVal c).isSome)

/-- ASCII lower-casing of one byte -/
def lowerByte (c : Nat) : Nat := if 65 ≤ c ∧ c ≤ 90 then c + 32 else c

def cantoBytes : Bytes := [99, 97, 110, 116, 111]
def noteBytes : Bytes := [110, 111, 116, 101]

/-- `s := strings.ToLower(denom); s == "canto" || s == "note"`.
`strings.ToLower` is Unicode-aware, but the only non-ASCII runes it maps into ASCII are U+212A (→ `k`) and
U+0130 (→ `i`), letters that do not occur in either word (the harness re-checks this over all runes at
start-up); so the test is exactly "the ASCII-lower-cased bytes are one of the two words". -/
def denomOK (d : Bytes) : Bool :=
  let l := d.map lowerByte
  l == cantoBytes || l == noteBytes

/-! ## the proposal store contract (`contracts/Port.sol`) as an abstract map -/

/-- `ProposalStore.Proposal` -/
structure Proposal where
  id : Nat
  title : Bytes
  desc : Bytes
  targets : List Bytes     -- 20-byte addresses
  values : List Nat
  signatures : List Bytes
  calldatas : List Bytes
deriving DecidableEq, Repr

/-- the value of an unwritten mapping slot, and what `QueryProp` answers for an unknown id -/
def Proposal.empty : Proposal := ⟨0, [], [], [], [], [], []⟩

/-- `mapping(uint256 => Proposal) proposals` -/
abbrev Store := List (Nat × Proposal)

def sget : Store → Nat → Proposal
  | [], _ => Proposal.empty
  | (k', v) :: rest, k => if k' = k then v else sget rest k

def sset : Store → Nat → Proposal → Store
  | [], k, v => [(k, v)]
  | (k', v') :: rest, k, v => if k' = k then (k, v) :: rest else (k', v') :: sset rest k v

/-- `QueryProp(q)`: `if (proposals[q].id == q) return proposals[q]; else return <empty>` -/
def queryStore (st : Store) (q : Nat) : Proposal :=
  let p := sget st q
  if p.id = q then p else Proposal.empty

/-! ## messages -/

/-- `LendingMarketMetadata` -/
structure Metadata where
  account : List Bytes
  propId : Nat
  values : List Nat
  calldatas : List Bytes
  signatures : List Bytes
deriving DecidableEq, Repr

/-- `MsgLendingMarketProposal`; `metadata = none` is the nil pointer -/
structure MsgLM where
  authority : Bytes
  title : Bytes
  desc : Bytes
  metadata : Option Metadata
deriving DecidableEq, Repr

/-- `TreasuryProposalMetadata` -/
structure TMetadata where
  propId : Nat
  recipient : Bytes
  amount : Nat
  denom : Bytes
deriving DecidableEq, Repr

/-- `MsgTreasuryProposal` -/
structure MsgTreasury where
  authority : Bytes
  title : Bytes
  desc : Bytes
  metadata : Option TMetadata
deriving DecidableEq, Repr

/-- `FromTreasuryToLendingMarket`: recipient → targets, amount → values, denomination AS GIVEN → signatures,
no call data -/
def fromTreasury (t : TMetadata) : Metadata :=
  { account := [t.recipient], propId := t.propId, values := [t.amount], calldatas := [], signatures := [t.denom] }

/-! ## state -/

structure Env where
  authority : Bytes                 -- `k.authority` (the gov module address, bech32 text)
  modAddr : Bytes                   -- `types.ModuleAddress`
  create : List (Nat × Bytes)       -- `crypto.CreateAddress(ModuleAddress, nonce)` (external, a table)
deriving Repr

structure State where
  port : Option Bytes     -- `GetPort`
  store : Store           -- storage of the contract at `port` (meaningless while `port = none`)
  nextGovId : Nat         -- `govKeeper.ProposalID.Peek`
  nonce : Nat             -- sequence of the govshuttle module account
deriving DecidableEq, Repr

def lookupN : List (Nat × Bytes) → Nat → Option Bytes
  | [], _ => none
  | (k, v) :: rest, n => if k = n then some v else lookupN rest n

def Env.createAddr (env : Env) (nonce : Nat) : R Bytes :=
  match lookupN env.create nonce with
  | some a => .ok a
  | none => .error (.panic "createAddr table")

/-- what `QueryProp(q)` answers by `eth_call` on the stored port; nothing to call while there is no port -/
def query (s : State) (q : Nat) : Option Proposal :=
  match s.port with
  | none => none
  | some _ => some (queryStore s.store q)

/-- `if m.GetPropId() == 0 { m.PropId = ProposalID.Peek(ctx) }` -/
def effId (s : State) (propId : Nat) : Nat := if propId = 0 then s.nextGovId else propId

/-- the arguments handed to the constructor / `AddProposal`:
`(propId, title, description, ToAddress(accounts), ToBigInt(values), signatures, ToBytes(calldatas))` -/
def content (s : State) (title desc : Bytes) (m : Metadata) : Proposal :=
  { id := effId s m.propId, title := title, desc := desc, targets := m.account.map hexToAddress,
    values := m.values, signatures := m.signatures, calldatas := m.calldatas.map hex2Bytes }

/-- result of "find or deploy the store" -/
structure Dep where
  addr : Bytes
  store : Store
  nonce : Nat

/-- `GetPort`, else `DeployMapContract` (constructor stores `p` in a fresh contract; nonce + 1) and `SetPort` -/
def findOrDeploy (env : Env) (s : State) (p : Proposal) (evmFail : Bool) : R Dep :=
  match s.port with
  | some a => .ok ⟨a, s.store, s.nonce⟩
  | none =>
    env.createAddr s.nonce >>= fun a =>
    ensure (!evmFail) (.evm "deploy") >>= fun _ =>
    .ok ⟨a, sset [] p.id p, s.nonce + 1⟩

/-- `AppendLendingMarketProposal` -/
def append (env : Env) (s : State) (title desc : Bytes) (m : Metadata) (evmFail : Bool) : R (State × Unit) :=
  findOrDeploy env s (content s title desc m) evmFail >>= fun d =>
  ensure (!evmFail) (.evm "AddProposal") >>= fun _ =>
  .ok ({ s with port := some d.addr, store := sset d.store (effId s m.propId) (content s title desc m), nonce := d.nonce }, ())

/-- `len(req.Metadata.GetX())` — the getters of a nil pointer return nil -/
def lens (m : Option Metadata) : Nat × Nat × Nat :=
  match m with
  | none => (0, 0, 0)
  | some md => (md.calldatas.length, md.values.length, md.signatures.length)

/-- `Keeper.LendingMarketProposal` -/
def lendingMarket (env : Env) (s : State) (m : MsgLM) (evmFail : Bool) : R (State × Unit) :=
  ensure (m.authority == env.authority) .unauthorized >>= fun _ =>
  ensure ((lens m.metadata).1 == (lens m.metadata).2.1) (.invalid "array lengths") >>= fun _ =>
  ensure ((lens m.metadata).2.1 == (lens m.metadata).2.2) (.invalid "array lengths") >>= fun _ =>
  match m.metadata with
  | none => .error (.panic "nil metadata")      -- `m.PropId = …` on a nil pointer
  | some md => append env s m.title m.desc md evmFail

/-- `Keeper.TreasuryProposal` -/
def treasury (env : Env) (s : State) (m : MsgTreasury) (evmFail : Bool) : R (State × Unit) :=
  ensure (m.authority == env.authority) .unauthorized >>= fun _ =>
  match m.metadata with
  | none => .error (.invalid "denom")           -- `GetDenom()` of a nil pointer is "", not a valid denomination
  | some md =>
    ensure (denomOK md.denom) (.invalid "denom") >>= fun _ =>
    append env s m.title m.desc (fromTreasury md) evmFail

/-! ## the operation alphabet of histories -/

inductive Op where
  | lm (m : MsgLM) (evmFail : Bool)
  | treasury (m : MsgTreasury) (evmFail : Bool)
  | setNextId (n : Nat)        -- the gov module hands out proposal ids independently of govshuttle
  | foreignAdd (id : Nat)      -- any other account calls `AddProposal` on the store: `require(msg.sender == module)`
deriving DecidableEq, Repr

def step (env : Env) (s : State) : Op → R (State × Unit)
  | .lm m f => lendingMarket env s m f
  | .treasury m f => treasury env s m f
  | .setNextId n => .ok ({ s with nextGovId := n }, ())
  | .foreignAdd _ =>
    match s.port with
    | none => .error (.notFound "port")
    | some _ => .error .unauthorized

/-- transaction-level execution: rejected ⇒ unchanged -/
def exec (env : Env) (s : State) (op : Op) : State := (deliver s (fun s => step env s op)).1

def run (env : Env) (s : State) (ops : List Op) : State := ops.foldl (exec env) s

/-- the id under which an accepted `op` stores in state `s` -/
def targetId (s : State) : Op → Option Nat
  | .lm m _ => m.metadata.map (fun md => effId s md.propId)
  | .treasury m _ => m.metadata.map (fun md => effId s md.propId)
  | _ => none

/-- the record an accepted `op` submits in state `s` -/
def expected (s : State) : Op → Option Proposal
  | .lm m _ => m.metadata.map (fun md => content s m.title m.desc md)
  | .treasury m _ => m.metadata.map (fun md => content s m.title m.desc (fromTreasury md))
  | _ => none

end Govshuttle
end CV
