/-!
# Solidity contract-ABI encoding — executable model (core Lean only)

Models the head/tail encoding of the "Contract ABI Specification" as implemented by go-ethereum's
`accounts/abi` (`Arguments.Pack` / `Arguments.Unpack`) for the types needed by govshuttle's
`AddProposal(uint256,string,string,address[],uint256[],string[],bytes[])` and
`QueryProp(uint256) returns (Proposal)`:

* bytes are `List Nat`, every element `< 256` (`wfBytes`);
* `uint256`  : 32 bytes big-endian (`be32`);
* `address`  : the 20 bytes left-padded with zeros to 32 bytes (`leftPad32`);
* `bytes` / `string` (a string is its UTF-8 bytes): `be32 length ++ padRight data`;
* `T[]`      : `be32 length ++ enc(tuple of the elements)`;
* `(T1,…,Tk)`: `head(1) … head(k) tail(1) … tail(k)`; a static component is encoded in place in the head and has
  an empty tail, a dynamic component has `be32 offset` in the head (offset of its tail, relative to the start of
  *this* tuple encoding) and its encoding in the tail (`assemble`).

Decoding (`decode`, `decodeTuple`) is total and strict on everything that matters for memory safety:
a word, a length prefix, an offset or an array length that points outside the input is REJECTED (`none`),
never defaulted.  As in go-ethereum, bytes *after* an encoding are ignored (offsets are relative, tails of
later components follow), the zero padding of `bytes`/`string` data need not be present, and the 12 padding
bytes of an `address` word are not inspected.

The recursion is structural (`encode` on the value, `decode` on the type), so everything here reduces in the
kernel (`decide`, `rfl`) and compiles.  No proofs in this file; see `CantoVerif/Props/AbiRoundTrip.lean`.
-/

namespace CV
namespace Abi

/-- A byte string; well-formed iff every element is `< 256`. -/
abbrev Bytes := List Nat

/-- Every element is a byte. -/
def wfBytes (bs : Bytes) : Bool := bs.all (fun b => decide (b < 256))

def zeros (n : Nat) : Bytes := List.replicate n 0

/-- Big-endian, exactly `k` bytes (the value modulo `256^k`). -/
def beN : Nat → Nat → Bytes
  | 0, _ => []
  | k + 1, n => beN k (n / 256) ++ [n % 256]

/-- A 32-byte big-endian word. -/
def be32 (n : Nat) : Bytes := beN 32 n

/-- Big-endian value of a byte string. -/
def ofBe (bs : Bytes) : Nat := bs.foldl (fun a b => a * 256 + b) 0

/-- Right-pad with zeros to a multiple of 32. -/
def padRight (bs : Bytes) : Bytes := bs ++ zeros ((32 - bs.length % 32) % 32)

/-- Left-pad with zeros to exactly 32 bytes (keeps the last 32 bytes of a longer input, so the result always
has 32 bytes; for a 20-byte address this is `zeros 12 ++ bs`). -/
def leftPad32 (bs : Bytes) : Bytes := zeros (32 - bs.length) ++ bs.drop (bs.length - 32)

/-- The 32-byte word at position `pos` (callers check `pos + 32 ≤ bs.length`). -/
def word (pos : Nat) (bs : Bytes) : Nat := ofBe ((bs.drop pos).take 32)

/-! ## types and values -/

inductive Ty where
  | uint256
  | address
  | bytes
  | string
  | arr (elem : Ty)
  | tuple (ts : List Ty)
  deriving Repr, Inhabited

inductive Val where
  | uint (n : Nat)
  | addr (bs : Bytes)
  | bytes (bs : Bytes)
  | str (bs : Bytes)
  | arr (vs : List Val)
  | tuple (vs : List Val)
  deriving Repr, Inhabited

mutual
/-- Dynamic types: `bytes`, `string`, `T[]`, and tuples with a dynamic component. -/
def isDynamic : Ty → Bool
  | .uint256 => false
  | .address => false
  | .bytes => true
  | .string => true
  | .arr _ => true
  | .tuple ts => anyDynamic ts
def anyDynamic : List Ty → Bool
  | [] => false
  | t :: ts => isDynamic t || anyDynamic ts
end

mutual
/-- Number of bytes a component occupies in the head of the enclosing tuple: 32 (the offset) for a dynamic
type, the full in-place encoding for a static one. -/
def headSize : Ty → Nat
  | .uint256 => 32
  | .address => 32
  | .bytes => 32
  | .string => 32
  | .arr _ => 32
  | .tuple ts => if anyDynamic ts then 32 else headSizes ts
def headSizes : List Ty → Nat
  | [] => 0
  | t :: ts => headSize t + headSizes ts
end

/-- Maximal value of a `uint256` plus one. -/
def two256 : Nat := 2 ^ 256

mutual
/-- Typing.  Lengths of `bytes`/`string`/arrays must fit a `uint256` length prefix. -/
def Val.hasTy : Val → Ty → Bool
  | .uint n, .uint256 => decide (n < two256)
  | .addr bs, .address => bs.length == 20 && wfBytes bs
  | .bytes bs, .bytes => decide (bs.length < two256) && wfBytes bs
  | .str bs, .string => decide (bs.length < two256) && wfBytes bs
  | .arr vs, .arr t => decide (vs.length < two256) && allHaveTy vs t
  | .tuple vs, .tuple ts => haveTys vs ts
  | _, _ => false
def allHaveTy : List Val → Ty → Bool
  | [], _ => true
  | v :: vs, t => v.hasTy t && allHaveTy vs t
def haveTys : List Val → List Ty → Bool
  | [], [] => true
  | v :: vs, t :: ts => v.hasTy t && haveTys vs ts
  | _, _ => false
end

/-! ## head/tail layout (independent of the component types)

A component is given as `(dynamic?, its encoding)`. -/

abbrev Item := Bool × Bytes

/-- Total size of the head part. -/
def headLen : List Item → Nat
  | [] => 0
  | (d, e) :: r => (if d then 32 else e.length) + headLen r

/-- The head part; `off` is the offset of the tail of the first remaining dynamic component. -/
def heads : Nat → List Item → Bytes
  | _, [] => []
  | off, (true, e) :: r => be32 off ++ heads (off + e.length) r
  | off, (false, e) :: r => e ++ heads off r

/-- The tail part. -/
def tails : List Item → Bytes
  | [] => []
  | (true, e) :: r => e ++ tails r
  | (false, _) :: r => tails r

/-- `enc((X1,…,Xk)) = head(X1) … head(Xk) tail(X1) … tail(Xk)`. -/
def assemble (items : List Item) : Bytes := heads (headLen items) items ++ tails items

/-! ## encoding -/

mutual
/-- `encode t v`; the empty string when `v` is not a value of type `t`. -/
def encode : Ty → Val → Bytes
  | .uint256, .uint n => be32 n
  | .address, .addr bs => leftPad32 bs
  | .bytes, .bytes bs => be32 bs.length ++ padRight bs
  | .string, .str bs => be32 bs.length ++ padRight bs
  | .arr t, .arr vs => be32 vs.length ++ assemble (encArr t vs)
  | .tuple ts, .tuple vs => assemble (encTup ts vs)
  | _, _ => []
/-- The components of an array, all of type `t`. -/
def encArr (t : Ty) : List Val → List Item
  | [] => []
  | v :: vs => (isDynamic t, encode t v) :: encArr t vs
/-- The components of a tuple. -/
def encTup : List Ty → List Val → List Item
  | t :: ts, v :: vs => (isDynamic t, encode t v) :: encTup ts vs
  | _, _ => []
end

/-- Encoding of an argument list (= of the tuple of the arguments). -/
def encodeTuple (args : List (Ty × Val)) : Bytes :=
  assemble (args.map fun a => (isDynamic a.1, encode a.1 a.2))

/-- Call data: the 4-byte selector followed by the encoded arguments. -/
def encodeCall (selector : Bytes) (args : List (Ty × Val)) : Bytes := selector ++ encodeTuple args

/-! ## decoding -/

/-- A component decoder: `(dynamic?, head size, decoder of the component at the start of its input)`. -/
abbrev Dec := Bool × Nat × (Bytes → Option Val)

/-- Decode the components of a tuple whose encoding starts at the beginning of `bs`; `pos` is the position of
the next head slot.  An offset slot outside `bs`, or an offset pointing outside `bs`, is rejected. -/
def decSeq : List Dec → Nat → Bytes → Option (List Val)
  | [], _, _ => some []
  | (true, _, dec) :: ds, pos, bs =>
    if pos + 32 ≤ bs.length then
      if word pos bs ≤ bs.length then
        match dec (bs.drop (word pos bs)), decSeq ds (pos + 32) bs with
        | some v, some vs => some (v :: vs)
        | _, _ => none
      else none
    else none
  | (false, hs, dec) :: ds, pos, bs =>
    if pos + hs ≤ bs.length then
      match dec (bs.drop pos), decSeq ds (pos + hs) bs with
      | some v, some vs => some (v :: vs)
      | _, _ => none
    else none

mutual
/-- Decode a value of type `t` whose encoding starts at the beginning of `bs` (later bytes are ignored). -/
def decode : Ty → Bytes → Option Val
  | .uint256, bs => if 32 ≤ bs.length then some (.uint (word 0 bs)) else none
  | .address, bs => if 32 ≤ bs.length then some (.addr ((bs.take 32).drop 12)) else none
  | .bytes, bs =>
    if 32 ≤ bs.length then
      if 32 + word 0 bs ≤ bs.length then some (.bytes ((bs.drop 32).take (word 0 bs))) else none
    else none
  | .string, bs =>
    if 32 ≤ bs.length then
      if 32 + word 0 bs ≤ bs.length then some (.str ((bs.drop 32).take (word 0 bs))) else none
    else none
  | .arr t, bs =>
    if 32 ≤ bs.length then
      -- the heads of all `n` elements must fit (go-ethereum: `start + size*elemSize > len(output)` ⇒ error)
      if 32 + word 0 bs * headSize t ≤ bs.length then
        (decSeq (List.replicate (word 0 bs) (isDynamic t, headSize t, decode t)) 0 (bs.drop 32)).map Val.arr
      else none
    else none
  | .tuple ts, bs => (decSeq (decoders ts) 0 bs).map Val.tuple
def decoders : List Ty → List Dec
  | [] => []
  | t :: ts => (isDynamic t, headSize t, decode t) :: decoders ts
end

/-- Decode an argument list / the components of a tuple. -/
def decodeTuple (ts : List Ty) (bs : Bytes) : Option (List Val) := decSeq (decoders ts) 0 bs

/-- Decode call data: the selector must match. -/
def decodeCall (selector : Bytes) (ts : List Ty) (bs : Bytes) : Option (List Val) :=
  if bs.take selector.length = selector then decodeTuple ts (bs.drop selector.length) else none

/-! ## govshuttle's `ProposalStore` -/

/-- `AddProposal(uint256 propId, string title, string desc, address[] targets, uint256[] values,
string[] signatures, bytes[] calldatas)`; also the components of the `Proposal` tuple. -/
def addProposalTys : List Ty :=
  [.uint256, .string, .string, .arr .address, .arr .uint256, .arr .string, .arr .bytes]

/-- The return type of `QueryProp(uint256)`: one (dynamic) tuple. -/
def proposalTy : Ty := .tuple addProposalTys

end Abi
end CV
