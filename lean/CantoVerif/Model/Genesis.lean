import CantoVerif.Base.Core
import CantoVerif.Model.Coinswap
/-!
# Genesis export / import of the seven Canto modules — executable model (core Lean only).

Mirrors `x/{coinswap,erc20,csr,govshuttle,onboarding,epochs,inflation}/{genesis.go,keeper/genesis.go,
types/genesis.go}`: per module a structured-record *state* (what the module keeps in its KV store: the
primary records **and** every secondary index and counter, each store section held as a list sorted by
its byte-wise store key, because that is the order in which `ExportGenesis` iterates), the *genesis*
record (`GenesisState` of the proto file), and

* `export : State → Genesis`           (`ExportGenesis`)
* `init   : Ctx → Genesis → R State`   (`InitGenesis`; coinswap panics on an invalid genesis, the others do not validate)
* `validate : Genesis → Bool`          (`ValidateGenesis` / `GenesisState.Validate`, loops and `seen` maps in source order)

External functions are fields of `Env` (the trusted base lists what is assumed of them):
`pairId` = `TokenPair.GetID` (sha256 of `address|denom`), `validAddr` = `sdk.AccAddressFromBech32` succeeds,
`hexBytes` = `common.HexToAddress(s).Bytes()`, `hexString` = `common.Address.String()` (EIP-55),
`calcProvision` = `types.CalculateEpochMintProvision` (exempt from the property: recomputed on import).

Level: structured records. Protobuf/JSON encodings (nil vs empty slices, string forms of numbers) and the SDK
modules' own genesis are *not* modelled; they are exercised only by the real round trip of the harness.
-/
namespace CV
namespace Genesis

open CV.Coinswap (validDenom)

/-! ## store keys: byte strings in lexicographic order (IAVL iteration order) -/

abbrev Bytes := List Nat

def bytesLt : Bytes → Bytes → Bool
  | [], [] => false
  | [], _ :: _ => true
  | _ :: _, [] => false
  | a :: as, b :: bs => if a < b then true else if b < a then false else bytesLt as bs

def strBytes (s : String) : Bytes := s.toUTF8.toList.map (·.toNat)

/-- `binary.LittleEndian.PutUint64` (x/csr keys its records by the little-endian NFT id) -/
def le8 (n : Nat) : Bytes := (List.range 8).map (fun i => (n / 256 ^ i) % 256)

/-- `sdk.Uint64ToBigEndian` -/
def be8 (n : Nat) : Bytes := (le8 n).reverse

/-- `common.BytesToAddress(b).Bytes()`: the last 20 bytes, left-padded with zeros -/
def toAddr20 (b : Bytes) : Bytes :=
  if b.length ≥ 20 then b.drop (b.length - 20) else List.replicate (20 - b.length) 0 ++ b

/-- insert into a list kept sorted by `key` (a store `Set`: an equal key overwrites) -/
def insBy {α : Type} (key : α → Bytes) (v : α) : List α → List α
  | [] => [v]
  | w :: rest =>
    if bytesLt (key v) (key w) then v :: w :: rest
    else if bytesLt (key w) (key v) then w :: insBy key v rest
    else v :: rest

/-- a sequence of `Set`s starting from an empty store section -/
def build {α : Type} (key : α → Bytes) (l : List α) : List α := l.foldl (fun acc v => insBy key v acc) []

def lookBy {α : Type} (key : α → Bytes) (k : Bytes) : List α → Option α
  | [] => none
  | w :: rest => if key w = k then some w else lookBy key k rest

/-! ## shared pieces -/

structure Coin where
  denom : String
  amount : Int
deriving DecidableEq, Repr

/-- the block context `InitGenesis` runs in -/
structure Ctx where
  height : Int
  time : Int          -- nanoseconds
  bondedRatio : Int   -- LegacyDec; read by the inflation import only
deriving Repr

/-- `time.Time{}` (January 1, year 1 UTC) in Unix nanoseconds -/
def zeroTime : Int := -62135596800 * 1000000000

/-- `unicode.IsSpace` on the code points Go's `strings.TrimSpace` removes -/
def isGoSpace (c : Char) : Bool :=
  let n := c.toNat
  n == 0x20 || (0x09 ≤ n && n ≤ 0x0d) || n == 0x85 || n == 0xa0 || n == 0x1680 || (0x2000 ≤ n && n ≤ 0x200a) ||
  n == 0x2028 || n == 0x2029 || n == 0x202f || n == 0x205f || n == 0x3000

/-- `strings.TrimSpace(s) == ""` -/
def blank (s : String) : Bool := s.toList.all isGoSpace

def isHexDigit (c : Char) : Bool := (c ≥ '0' && c ≤ '9') || (c ≥ 'a' && c ≤ 'f') || (c ≥ 'A' && c ≤ 'F')

/-- `common.IsHexAddress`: optional `0x`/`0X`, then exactly 40 hex digits -/
def isHexAddress (s : String) : Bool :=
  let l := s.toList
  let body := match l with
    | '0' :: 'x' :: r => r
    | '0' :: 'X' :: r => r
    | _ => l
  body.length == 40 && body.all isHexDigit

structure Env where
  pairId : String → String → Bytes      -- TokenPair.GetID
  validAddr : String → Bool             -- sdk.AccAddressFromBech32 succeeds
  hexBytes : String → Bytes             -- common.HexToAddress(s).Bytes()
  hexString : Bytes → String            -- common.Address.String()
  calcProvision : Int → Int → Int → Int → Int → Nat → Int → Int → Int   -- a r c bondingTarget maxVariance period epochsPerPeriod bondedRatio

/-! ## coinswap -/

structure CsParams where
  fee : Int
  taxRate : Int
  feeCoin : Coin
  maxStd : Int
  maxSwap : List Coin
deriving DecidableEq, Repr

structure Pool where
  id : String
  std : String
  counter : String
  escrow : String
  lpt : String
deriving DecidableEq, Repr

structure CsGen where
  params : CsParams
  std : String
  pools : List Pool
  seq : Nat
deriving DecidableEq, Repr

structure CsState where
  params : CsParams
  std : String
  seq : Nat                           -- key `nextPoolSequence`
  pools : List Pool                   -- keys `pool/<id>`
  lptIdx : List (String × String)     -- keys `lptDenom/<lpt>` -> pool id
deriving DecidableEq, Repr

def poolKey (p : Pool) : Bytes := strBytes ("pool/" ++ p.id)
def lptKey (e : String × String) : Bytes := strBytes ("lptDenom/" ++ e.1)

/-- `strings.Split(s, "-")` on the characters (structural, so that closed instances evaluate in the kernel) -/
def splitDash : List Char → List (List Char)
  | [] => [[]]
  | c :: cs =>
    if c = '-' then [] :: splitDash cs
    else match splitDash cs with
      | h :: t => (c :: h) :: t
      | [] => [[c]]

def digitsOk (n : List Char) : Bool := !n.isEmpty && n.all (fun c => c ≥ '0' && c ≤ '9')
def digitsNat (n : List Char) : Nat := n.foldl (fun v c => 10 * v + (c.toNat - '0'.toNat)) 0

/-- `types.ParseLptDenom`: exactly two `-`-separated parts, the second a base-10 uint64 (the first part is not looked at) -/
def parseLpt (d : String) : Option Nat :=
  match splitDash d.toList with
  | [_, n] => if digitsOk n && digitsNat n < 2 ^ 64 then some (digitsNat n) else none
  | _ => none

/-- the `for _, pool := range data.Pool` loop of `ValidateGenesis`: (seen ids, seen lpt denoms, max sequence) or failure -/
def csLoop (env : Env) : List Pool → List String → List String → Nat → Option Nat
  | [], _, _, mx => some mx
  | p :: rest, ids, lpts, mx =>
    if ids.contains p.id then none
    else if lpts.contains p.lpt then none
    else match parseLpt p.lpt with
      | none => none
      | some sq =>
        if !validDenom p.counter then none
        else if !validDenom p.std then none
        else if !env.validAddr p.escrow then none
        else csLoop env rest (p.id :: ids) (p.lpt :: lpts) (if sq > mx then sq else mx)

/-- `Params.Validate` of coinswap checks the fee only -/
def csParamsValid (p : CsParams) : Bool := decide (0 ≤ p.fee) && decide (p.fee < (S18 : Int))

def csValidate (env : Env) (g : CsGen) : Bool :=
  validDenom g.std &&
  (match csLoop env g.pools [] [] 0 with
   | none => false
   | some mx => mx + 1 == g.seq) &&
  csParamsValid g.params

def csSetPools (pools : List Pool) : List Pool × List (String × String) :=
  pools.foldl (fun (acc : List Pool × List (String × String)) p => (insBy poolKey p acc.1, insBy lptKey (p.lpt, p.id) acc.2)) ([], [])

def csInit (env : Env) (g : CsGen) : R CsState :=
  if csValidate env g then
    let r := csSetPools g.pools
    .ok { params := g.params, std := g.std, seq := g.seq, pools := r.1, lptIdx := r.2 }
  else .error (.panic "ValidateGenesis")

def csExport (s : CsState) : CsGen := { params := s.params, std := s.std, pools := s.pools, seq := s.seq }

/-! ## erc20 -/

structure Pair where
  addr : String
  denom : String
  enabled : Bool
  owner : Nat
deriving DecidableEq, Repr

structure Erc20Gen where
  enableErc20 : Bool
  enableHook : Bool
  pairs : List Pair
  dix : List (String × Bytes)     -- DenomIndexes
  aix : List (Bytes × Bytes)      -- Erc20AddressIndexes
deriving DecidableEq, Repr

structure Erc20State where
  enableErc20 : Bool
  enableHook : Bool
  pairs : List Pair               -- prefix 1, key = pair id
  aix : List (Bytes × Bytes)      -- prefix 2, key = 20 address bytes
  dix : List (String × Bytes)     -- prefix 3, key = denom bytes
deriving DecidableEq, Repr

def pairKey (env : Env) (p : Pair) : Bytes := env.pairId p.addr p.denom
def dixKey (e : String × Bytes) : Bytes := strBytes e.1
def aixKey (e : Bytes × Bytes) : Bytes := e.1

def erc20Loop : List Pair → List String → List String → Bool
  | [], _, _ => true
  | p :: rest, addrs, denoms =>
    if addrs.contains p.addr then false
    else if denoms.contains p.denom then false
    else if !validDenom p.denom then false
    else if !isHexAddress p.addr then false
    else erc20Loop rest (p.addr :: addrs) (p.denom :: denoms)

def erc20Validate (g : Erc20Gen) : Bool := erc20Loop g.pairs [] []

def erc20Init (env : Env) (g : Erc20Gen) : R Erc20State :=
  .ok { enableErc20 := g.enableErc20, enableHook := g.enableHook,
        pairs := build (pairKey env) g.pairs,
        dix := build dixKey g.dix,
        aix := build aixKey (g.aix.map (fun e => (toAddr20 e.1, e.2))) }

def erc20Export (s : Erc20State) : Erc20Gen :=
  { enableErc20 := s.enableErc20, enableHook := s.enableHook, pairs := s.pairs, dix := s.dix, aix := s.aix }

/-! ## csr -/

structure Csr where
  id : Nat
  contracts : List String
  txs : Nat
  revenue : Int
deriving DecidableEq, Repr

structure CsrGen where
  enable : Bool
  shares : Int
  csrs : List Csr
  turnstile : String            -- "" = not deployed
deriving DecidableEq, Repr

structure CsrState where
  enable : Bool
  shares : Int
  csrs : List Csr               -- prefix 1, key = little-endian id
  cidx : List (String × Nat)    -- prefix 2, key = contract string bytes -> nft id
  turnstile : Option Bytes      -- prefix 3 ++ "Turnstile"
deriving DecidableEq, Repr

def csrKey (c : Csr) : Bytes := le8 c.id
def cidxKey (e : String × Nat) : Bytes := strBytes e.1

/-- `SetCSR`: the record, then one index entry per contract -/
def setCsr (acc : List Csr × List (String × Nat)) (c : Csr) : List Csr × List (String × Nat) :=
  (insBy csrKey c acc.1, c.contracts.foldl (fun ix a => insBy cidxKey (a, c.id) ix) acc.2)

def csrValidate (g : CsrGen) : Bool := decide (0 ≤ g.shares) && decide (g.shares ≤ (S18 : Int))

def csrInit (env : Env) (g : CsrGen) : R CsrState :=
  let r := g.csrs.foldl setCsr ([], [])
  .ok { enable := g.enable, shares := g.shares, csrs := r.1, cidx := r.2,
        turnstile := if g.turnstile = "" then none else some (env.hexBytes g.turnstile) }

def csrExport (env : Env) (s : CsrState) : CsrGen :=
  { enable := s.enable, shares := s.shares, csrs := s.csrs,
    turnstile := match s.turnstile with | some b => env.hexString b | none => "" }

/-! ## govshuttle, onboarding -/

structure GsGen where
  port : String
deriving DecidableEq, Repr
structure GsState where
  port : Option Bytes
deriving DecidableEq, Repr

def gsValidate (_ : GsGen) : Bool := true
def gsInit (env : Env) (g : GsGen) : R GsState := .ok { port := if g.port = "" then none else some (env.hexBytes g.port) }
def gsExport (env : Env) (s : GsState) : GsGen := { port := match s.port with | some b => env.hexString b | none => "" }

structure ObGen where
  enable : Bool
  threshold : Int
  channels : List String
deriving DecidableEq, Repr
abbrev ObState := ObGen

def obValidate (g : ObGen) : Bool := decide (0 ≤ g.threshold)
def obInit (g : ObGen) : R ObState := .ok g
def obExport (s : ObState) : ObGen := s

/-! ## epochs -/

structure Epoch where
  id : String
  start : Int        -- StartTime, ns
  dur : Int          -- Duration, ns
  cur : Int          -- CurrentEpoch
  curStart : Int     -- CurrentEpochStartTime
  counting : Bool
  height : Int       -- CurrentEpochStartHeight (informational; reset by the import)
deriving DecidableEq, Repr

structure EpGen where
  epochs : List Epoch
deriving DecidableEq, Repr
structure EpState where
  epochs : List Epoch     -- prefix 1, key = identifier bytes
deriving DecidableEq, Repr

def epochKey (e : Epoch) : Bytes := strBytes e.id

def epochValid (e : Epoch) : Bool := !blank e.id && e.dur != 0 && decide (0 ≤ e.cur) && decide (0 ≤ e.height)

def epLoop : List Epoch → List String → Bool
  | [], _ => true
  | e :: rest, seen => if seen.contains e.id then false else if !epochValid e then false else epLoop rest (e.id :: seen)

def epValidate (g : EpGen) : Bool := epLoop g.epochs []

def epImport (ctx : Ctx) (e : Epoch) : Epoch :=
  { e with start := if e.start = zeroTime then ctx.time else e.start, height := ctx.height }

def epInit (ctx : Ctx) (g : EpGen) : R EpState := .ok { epochs := build epochKey (g.epochs.map (epImport ctx)) }
def epExport (s : EpState) : EpGen := { epochs := s.epochs }

/-! ## inflation -/

structure InfParams where
  mintDenom : String
  a : Int
  r : Int
  c : Int
  bondingTarget : Int
  maxVariance : Int
  stakingRewards : Int
  communityPool : Int
  enable : Bool
deriving DecidableEq, Repr

structure InfGen where
  params : InfParams
  period : Nat
  epochId : String
  epp : Int
  skipped : Nat
deriving DecidableEq, Repr

structure InfState where
  params : InfParams
  period : Nat
  epochId : String
  epp : Int
  skipped : Nat
  provision : Int       -- EpochMintProvision: not exported, recomputed by the import
deriving DecidableEq, Repr

def infParamsValid (p : InfParams) : Bool :=
  !blank p.mintDenom && validDenom p.mintDenom &&
  decide (0 ≤ p.a) && decide (p.r ≤ (S18 : Int)) && decide (0 ≤ p.r) && decide (0 ≤ p.c) &&
  decide (p.bondingTarget ≤ (S18 : Int)) && decide (0 < p.bondingTarget) && decide (0 ≤ p.maxVariance) &&
  decide (0 ≤ p.stakingRewards) && decide (0 ≤ p.communityPool) && decide (p.stakingRewards + p.communityPool = (S18 : Int))

def infValidate (g : InfGen) : Bool := !blank g.epochId && decide (0 < g.epp) && infParamsValid g.params

def infProvision (env : Env) (ctx : Ctx) (p : InfParams) (period : Nat) (epp : Int) : Int :=
  env.calcProvision p.a p.r p.c p.bondingTarget p.maxVariance period epp ctx.bondedRatio

def infInit (env : Env) (ctx : Ctx) (g : InfGen) : R InfState :=
  .ok { params := g.params, period := g.period, epochId := g.epochId, epp := g.epp, skipped := g.skipped,
        provision := infProvision env ctx g.params g.period g.epp }

def infExport (s : InfState) : InfGen :=
  { params := s.params, period := s.period, epochId := s.epochId, epp := s.epp, skipped := s.skipped }

/-! ## the seven modules together -/

structure Gen where
  cs : CsGen
  erc20 : Erc20Gen
  csr : CsrGen
  gs : GsGen
  ob : ObGen
  ep : EpGen
  inf : InfGen
deriving DecidableEq, Repr

structure State where
  cs : CsState
  erc20 : Erc20State
  csr : CsrState
  gs : GsState
  ob : ObState
  ep : EpState
  inf : InfState
deriving DecidableEq, Repr

def exportAll (env : Env) (s : State) : Gen :=
  { cs := csExport s.cs, erc20 := erc20Export s.erc20, csr := csrExport env s.csr, gs := gsExport env s.gs,
    ob := obExport s.ob, ep := epExport s.ep, inf := infExport s.inf }

/-- `InitGenesis` of the seven modules (their relative order in `genesisModuleOrder` does not matter: no module's
import reads another Canto module's store; inflation reads the staking bonded ratio, which `Ctx` carries) -/
def initAll (env : Env) (ctx : Ctx) (g : Gen) : R State :=
  csInit env g.cs >>= fun cs =>
  erc20Init env g.erc20 >>= fun erc20 =>
  csrInit env g.csr >>= fun csr =>
  gsInit env g.gs >>= fun gs =>
  obInit g.ob >>= fun ob =>
  epInit ctx g.ep >>= fun ep =>
  infInit env ctx g.inf >>= fun inf =>
  .ok { cs := cs, erc20 := erc20, csr := csr, gs := gs, ob := ob, ep := ep, inf := inf }

/-- per-module results of the modules' own genesis validation, in the order of `moduleNames` -/
def moduleNames : List String := ["coinswap", "erc20", "csr", "govshuttle", "onboarding", "epochs", "inflation"]

def validateEach (env : Env) (g : Gen) : List Bool :=
  [csValidate env g.cs, erc20Validate g.erc20, csrValidate g.csr, gsValidate g.gs, obValidate g.ob, epValidate g.ep, infValidate g.inf]

def validateAll (env : Env) (g : Gen) : Bool := (validateEach env g).all id

/-- `≈` of the property: equality up to the epochs' `CurrentEpochStartHeight` -/
def clearHeights (g : Gen) : Gen := { g with ep := { epochs := g.ep.epochs.map (fun e => { e with height := 0 }) } }
def Gen.eqv (a b : Gen) : Bool := clearHeights a == clearHeights b

/-! ## modelled queries (gRPC services of the seven modules + the two address getters) -/

inductive Query where
  | csParams | pools | pool (lpt : String)
  | erc20Params | pairs | pairByDenom (d : String) | pairByAddr (a : Bytes)
  | csrParams | csrs | csrByNft (id : Nat) | csrByContract (a : String) | turnstile
  | port | obParams
  | epochInfos | currentEpoch (id : String)
  | period | skipped | infParams | epochIdentifier | epochsPerPeriod
  | provision          -- exempt
deriving Repr

inductive Answer where
  | csParams (p : CsParams) (std : String)
  | pools (l : List Pool)
  | pool (p : Option Pool)
  | flags (a b : Bool)
  | pairs (l : List Pair)
  | pair (p : Option Pair)
  | csrParams (en : Bool) (sh : Int)
  | csrs (l : List Csr)
  | csr (c : Option Csr)
  | addr (a : Option Bytes)
  | ob (p : ObGen)
  | epochs (l : List Epoch)
  | num (n : Option Int)
  | nat (n : Nat)
  | infParams (p : InfParams)
  | str (s : String)
deriving DecidableEq, Repr

def pairById (env : Env) (s : Erc20State) (id : Option Bytes) : Option Pair :=
  match id with
  | none => none
  | some i => lookBy (pairKey env) i s.pairs

/-- the epoch queries report everything except the informational start height -/
def answer (env : Env) (s : State) : Query → Answer
  | .csParams => .csParams s.cs.params s.cs.std
  | .pools => .pools s.cs.pools
  | .pool lpt => .pool ((lookBy lptKey (strBytes ("lptDenom/" ++ lpt)) s.cs.lptIdx).bind
                         (fun e => lookBy poolKey (strBytes ("pool/" ++ e.2)) s.cs.pools))
  | .erc20Params => .flags s.erc20.enableErc20 s.erc20.enableHook
  | .pairs => .pairs s.erc20.pairs
  | .pairByDenom d => .pair (pairById env s.erc20 ((lookBy dixKey (strBytes d) s.erc20.dix).map (·.2)))
  | .pairByAddr a => .pair (pairById env s.erc20 ((lookBy aixKey a s.erc20.aix).map (·.2)))
  | .csrParams => .csrParams s.csr.enable s.csr.shares
  | .csrs => .csrs s.csr.csrs
  | .csrByNft id => .csr (lookBy csrKey (le8 id) s.csr.csrs)
  | .csrByContract a => .csr ((lookBy cidxKey (strBytes a) s.csr.cidx).bind (fun e => lookBy csrKey (le8 e.2) s.csr.csrs))
  | .turnstile => .addr s.csr.turnstile
  | .port => .addr s.gs.port
  | .obParams => .ob s.ob
  | .epochInfos => .epochs (s.ep.epochs.map (fun e => { e with height := 0 }))
  | .currentEpoch id => .num ((lookBy epochKey (strBytes id) s.ep.epochs).map (·.cur))
  | .period => .nat s.inf.period
  | .skipped => .nat s.inf.skipped
  | .infParams => .infParams s.inf.params
  | .epochIdentifier => .str s.inf.epochId
  | .epochsPerPeriod => .num (some s.inf.epp)
  | .provision => .num (some s.inf.provision)

def Query.exempt : Query → Bool
  | .provision => true
  | _ => false

/-! ## the raw store keys of a state (what a KV dump of the module stores shows) -/

def keysOf (env : Env) (s : State) : List (String × List Bytes) :=
  [ ("coinswap",
      -- "StandardDenom" < "lptDenom/..." < "nextPoolSequence" < "pool/..."
      [strBytes "StandardDenom"] ++ s.cs.lptIdx.map lptKey ++ [strBytes "nextPoolSequence"] ++ s.cs.pools.map poolKey),
    ("erc20", s.erc20.pairs.map (fun p => 1 :: pairKey env p) ++ s.erc20.aix.map (fun e => 2 :: aixKey e) ++
              s.erc20.dix.map (fun e => 3 :: dixKey e)),
    ("csr", s.csr.csrs.map (fun c => 1 :: csrKey c) ++ s.csr.cidx.map (fun e => 2 :: cidxKey e) ++
            (match s.csr.turnstile with | some _ => [3 :: strBytes "Turnstile"] | none => [])),
    ("govshuttle", match s.gs.port with | some _ => [strBytes "PortPort"] | none => []),
    ("onboarding", []),
    ("epochs", s.ep.epochs.map (fun e => 1 :: epochKey e)),
    ("inflation", [[1], [2], [3], [4], [5]]),
    -- the modules' parameter sets live in the x/params store under `<module>/<key>` (every pair is always written)
    ("params", ["coinswap/Fee", "coinswap/MaxStandardCoinPerPool", "coinswap/MaxSwapAmount", "coinswap/PoolCreationFee",
                "coinswap/TaxRate", "csr/CSRShares", "csr/EnableCSR", "erc20/EnableEVMHook", "erc20/EnableErc20",
                "inflation/ParamStoreKeyEnableInflation", "inflation/ParamStoreKeyExponentialCalculation",
                "inflation/ParamStoreKeyInflationDistribution", "inflation/ParamStoreKeyMintDenom",
                "onboarding/AutoSwapThreshold", "onboarding/EnableOnboarding", "onboarding/WhitelistedChannels"].map strBytes) ]

end Genesis
end CV
