import CantoVerif.Model.Coinswap
/-!
# x/onboarding — executable model of the IBC receive callback (core Lean only).

Mirrors `x/onboarding/ibc_middleware.go` (`IBCMiddleware.OnRecvPacket`) and
`x/onboarding/keeper/ibc_callbacks.go` (`Keeper.OnRecvPacket`) *as they are*, guards in source
order, on top of

* the coinswap model (`Coinswap.trade … true` **is** `TradeInputForExactOutput` up to the two bank
  legs, which this file executes one after the other directly on the state, as `swapCoins` does on
  the un-branched context);
* an oracle for the erc20 keeper's `ConvertCoin` (`ConvOutcome`, an input of every packet): the
  model only fixes what onboarding relies on — a successful conversion of a coin-originated pair
  moves exactly the requested amount of the voucher from the recipient to the erc20 module account
  and credits the same amount of tokens to the recipient's hex address; a conversion that fails
  after `stage` inner effects returns an error; a pair whose contract has no code is deleted and
  nothing moves.  Whatever the conversion did on its *branch* of the state is kept only on
  success (`convertCached`, the `CacheContext`);
* the discipline of ibc core's `RecvPacket`: the callback runs on a branch which is written back
  only for a successful acknowledgement; a panic aborts the transaction.

The underlying ICS-20 application is summarised by its result: did it acknowledge success, and
which bank effects credited the recipient (`Credit`: minted voucher, or un-escrowed coin that
returns home).  External functions (voucher denomination hash, bech32, module addresses) are inputs.
-/
namespace CV
namespace Onboarding
open Coinswap (ensure ensure_ok lookupD)

/-- Go panics (abort the whole transaction) as opposed to returned errors -/
def isPanic : Rej → Bool
  | .overflow => true
  | .divZero => true
  | .negative => true
  | .panic _ => true
  | _ => false

/-! ## packets -/

/-- spelling of an address in the ICS-20 packet data -/
inductive AddrForm where | lower | upper | bad
deriving DecidableEq, Repr

structure PktAddr where
  form : AddrForm
  bytes : Addr
deriving DecidableEq, Repr

/-- `canto.GetcantoAddressFromBech32`: the human-readable part is the text before the first `1`
and the string is decoded with `sdk.GetFromBech32(address, hrp)`.  A lower-case bech32 string of
any prefix parses.  The all-upper-case spelling — which `sdk.AccAddressFromBech32`, and therefore
the ICS-20 application, accepts — does **not**: the decoder reports the lower-cased prefix, which
is then compared with the upper-case one. -/
def PktAddr.parse (a : PktAddr) : R Addr :=
  match a.form with
  | .lower => .ok a.bytes
  | _ => .error (.invalid "address")

/-- how the underlying ICS-20 application credited the recipient -/
inductive Credit where
  | mint (module : Addr)       -- sender chain is the source: `MintCoins(transfer)`, `SendCoinsFromModuleToAccount`
  | unescrow (escrow : Addr)   -- the coin returns home: `SendCoins(channel escrow, receiver)`
deriving DecidableEq, Repr

/-- what the erc20 keeper's `ConvertCoin` does with the request (an oracle: every answer of the
EVM, and a failure at each of its calls, end in one of these) -/
inductive ConvOutcome where
  | ok                    -- returned a response
  | gone                  -- returned `(nil, nil)`: the pair's contract has no code; the pair is deleted
  | fail (stage : Nat)    -- returned an error after `stage` inner effects (0 none, 1 coins escrowed, ≥2 tokens minted too)
deriving DecidableEq, Repr

structure Packet where
  dstChannel : String
  sender : PktAddr
  receiver : PktAddr
  denom : Denom          -- the received coin's denomination on this chain (`ibc.GetReceivedCoin`)
  amount : Nat
  credit : Credit
  underOk : Bool         -- the underlying application acknowledged success
  conv : ConvOutcome
deriving Repr

/-! ## state -/

structure Params where
  enabled : Bool
  threshold : Nat
  channels : List String
deriving Repr, DecidableEq

structure Env where
  cs : Coinswap.Env
  erc20Mod : Addr
deriving Repr

/-- a registered token pair as onboarding reads it -/
structure Pair where
  contract : Addr
  enabled : Bool
deriving Repr, DecidableEq

structure State where
  cs : Coinswap.State             -- bank ledger, pools, coinswap parameters, standard denomination
  ob : Params
  macc : List Addr                -- addresses whose account is a module account (`x/auth`)
  pairs : List (Denom × Pair)     -- erc20 registry: registered denomination ↦ (contract, enabled)
  tok : AMap (Addr × Addr)        -- token ledger of the pairs' contracts: (contract, holder)
deriving Repr

def State.withBank (s : State) (b : Bank) : State := { s with cs := { s.cs with bank := b } }

/-- `given`: the acknowledgement of the underlying application, untouched; `error`: a new error
acknowledgement; `other`: anything else (never produced by the model; an observation can be) -/
inductive Ack where | given | error | other
deriving DecidableEq, Repr

structure Resp where
  ack : Ack                    -- the acknowledgement handed to us, or a new error acknowledgement
  swapped : Nat                -- voucher paid into the pool
  convCalled : Bool            -- `ConvertCoin` was called
  convAmt : Nat                -- … with this amount
  converted : Nat              -- voucher that moved to the erc20 module account
  event : Option (Nat × Nat)   -- attributes (swap amount, convert amount) of the `onboarding` event
deriving DecidableEq, Repr

def pass : Resp := { ack := .given, swapped := 0, convCalled := false, convAmt := 0, converted := 0, event := none }

/-! ## the automatic swap -/

/-- the two bank legs of `swapCoins`, executed one after the other directly on the context (there is
no branch): a *returned* error after the first leg would leave the first leg in place.  Result:
the bank and whether both legs were made. -/
def swapLegs (b : Bank) (r esc : Addr) (v : Denom) (sold : Nat) (std : Denom) (out : Nat) : R (Bank × Bool) :=
  match b.apply1 (.xfer r esc v sold) with
  | .error e => if isPanic e then .error e else .ok (b, false)
  | .ok b1 =>
    match b1.apply1 (.xfer esc r std out) with
    | .error e => if isPanic e then .error e else .ok (b1, false)
    | .ok b2 => .ok (b2, true)

/-- `if standardCoinBalance.LT(autoSwapThreshold) { TradeInputForExactOutput(…) }`: buy exactly the
threshold of standard coin with at most the transferred voucher.  Returns the state and the amount
of voucher sold (0 when no swap was made). -/
def autoSwap (env : Env) (s : State) (r : Addr) (v : Denom) (amt : Nat) : R (State × Nat) :=
  -- sdk.NewCoin(standardDenom, autoSwapThreshold)
  ensure (Coinswap.validDenom s.cs.std) (.panic "standard denom") >>= fun _ =>
  if s.cs.bank.get r s.cs.std < s.ob.threshold then
    match Coinswap.trade env.cs s.cs v amt s.cs.std s.ob.threshold true with
    | .error e => if isPanic e then .error e else .ok (s, 0)
    | .ok (sold, _, esc) =>
      swapLegs s.cs.bank r esc v sold s.cs.std s.ob.threshold >>= fun (b, done) =>
      .ok (s.withBank b, if done then sold else 0)
  else .ok (s, 0)

/-! ## the conversion -/

def convErr : Rej := .evm "convert coin"

/-- `erc20Keeper.ConvertCoin` for a coin-originated pair, effects in the code's order (escrow the
coins in the module account, mint the tokens), cut short after `stage` effects when it fails -/
def convertInner (env : Env) (s : State) (r : Addr) (v : Denom) (c : Addr) (a : Nat) : ConvOutcome → R State
  | .ok =>
    s.cs.bank.applyAll [.xfer r env.erc20Mod v a] >>= fun b =>
    .ok { s.withBank b with tok := s.tok.set (c, r) (s.tok.get (c, r) + a) }
  | .gone => .ok { s with pairs := s.pairs.filter (fun p => p.1 != v) }
  | .fail 0 => .error convErr
  | .fail 1 => s.cs.bank.applyAll [.xfer r env.erc20Mod v a] >>= fun _ => .error convErr
  | .fail _ =>
    s.cs.bank.applyAll [.xfer r env.erc20Mod v a] >>= fun b =>
    (.ok { s.withBank b with tok := s.tok.set (c, r) (s.tok.get (c, r) + a) } : R State) >>= fun _ => .error convErr

/-- `cacheCtx, writeCache := ctx.CacheContext(); if _, err := ConvertCoin(cacheCtx, msg); err == nil { writeCache() }`.
Returns the state, the amount that moved to the module account, and whether `err == nil`. -/
def convertCached (env : Env) (s : State) (r : Addr) (v : Denom) (c : Addr) (a : Nat) (o : ConvOutcome) :
    R (State × Nat × Bool) :=
  match convertInner env s r v c a o with
  | .ok s' => .ok (s', (if o = .ok then a else 0), true)
  | .error e => if isPanic e then .error e else .ok (s, 0, false)

/-! ## `Keeper.OnRecvPacket` -/

def onRecv (env : Env) (s : State) (p : Packet) : R (State × Resp) :=
  if !s.ob.enabled then .ok (s, pass) else
  if !s.ob.channels.contains p.dstChannel then .ok (s, pass) else
  match p.sender.parse >>= fun _ => p.receiver.parse with
  | .error _ => .ok (s, { pass with ack := .error })
  | .ok r =>
    if s.macc.contains r then .ok (s, pass) else
    autoSwap env s r p.denom p.amount >>= fun (s1, swapped) =>
    match lookupD s1.pairs p.denom with
    | none => .ok (s1, { pass with swapped := swapped })
    | some pair =>
      if !pair.enabled then .ok (s1, { pass with swapped := swapped }) else
      -- transferredCoin.Amount.Sub(swappedAmount) inside sdk.NewCoin
      SdkInt.sub p.amount swapped >>= fun a =>
      -- ConvertCoin rejects a non-positive amount before anything else happens
      let o := if a = 0 then ConvOutcome.fail 0 else p.conv
      convertCached env s1 r p.denom pair.contract a o >>= fun (s2, converted, succeeded) =>
      .ok (s2, { ack := .given, swapped := swapped, convCalled := true, convAmt := a, converted := converted,
                 event := some (swapped, if succeeded then a else 0) })

/-! ## `IBCMiddleware.OnRecvPacket` under ibc core's `RecvPacket` -/

def creditEffs (p : Packet) : List Eff :=
  match p.credit with
  | .mint m => [.mint m p.denom p.amount, .xfer m p.receiver.bytes p.denom p.amount]
  | .unescrow e => [.xfer e p.receiver.bytes p.denom p.amount]

/-- `MintCoins(transfer, …)` instantiates the module account of the minting module if it does not exist yet -/
def creditMacc (macc : List Addr) : Credit → List Addr
  | .mint m => if macc.contains m then macc else macc ++ [m]
  | .unescrow _ => macc

def creditTouch (b : Bank) : Credit → Bank
  | .mint m => b.touch m
  | .unescrow _ => b

/-- the state right after the underlying application credited the recipient -/
def credited (s : State) (p : Packet) (b : Bank) : State :=
  { s.withBank (creditTouch b p.credit) with macc := creditMacc s.macc p.credit }

/-- One received packet.  `underOk = false`: the middleware returns the underlying error
acknowledgement untouched and core drops the branch.  Otherwise the credit happens, then the
keeper callback; the branch is written only when the acknowledgement is still the (successful)
one of the underlying application. -/
def recv (env : Env) (s : State) (p : Packet) : R (State × Resp) :=
  if !p.underOk then .ok (s, pass) else
  s.cs.bank.applyAll (creditEffs p) >>= fun b =>
  onRecv env (credited s p b) p >>= fun (s', resp) =>
  match resp.ack with
  | .given => .ok (s', resp)
  | _ => .ok (s, resp)

/-! ## histories -/

inductive Op where
  | recv (p : Packet)
  | cs (op : Coinswap.Op)                       -- any coinswap message, bank transfer, coinswap parameter change, time step
  | setParams (p : Params)                      -- governance: onboarding parameters
  | setPair (d : Denom) (st : Option Pair)      -- erc20 registry: register / toggle / remove a pair
deriving Repr

def setPairL (l : List (Denom × Pair)) (d : Denom) : Option Pair → List (Denom × Pair)
  | none => l.filter (fun p => p.1 != d)
  | some b => (d, b) :: l.filter (fun p => p.1 != d)

def step (env : Env) (s : State) : Op → R (State × Resp)
  | .recv p => recv env s p
  | .cs op => Coinswap.step env.cs s.cs op >>= fun (c, _) => .ok ({ s with cs := c }, pass)
  | .setParams p => .ok ({ s with ob := p }, pass)
  | .setPair d st => .ok ({ s with pairs := setPairL s.pairs d st }, pass)

/-- transaction-level execution: rejected (panicked) ⇒ unchanged -/
def exec (env : Env) (s : State) (op : Op) : State := (deliver s (fun s => step env s op)).1

def run (env : Env) (s : State) (ops : List Op) : State := ops.foldl (exec env) s

end Onboarding
end CV
