import CantoVerif.Base.Core
import CantoVerif.Base.AMap
import CantoVerif.Base.Bank
import CantoVerif.Base.Dec
/-!
# x/coinswap — executable model of the message server and keeper.

Mirrors `x/coinswap/keeper/{msg_server,keeper,swap,pool,fees}.go` and `types/validation.go`:
stateless validation, deadline test, blocked-recipient test, the keeper logic with every guard in
source order, and the bank calls as an effect list (`Bank.applyAll`).  Reserves are *bank balances
of the escrow address*, pool-token supply is the *bank supply* of the `lpt-N` denom — exactly as
the code reads them, so plain transfers into the escrow ("donations") are part of the model.

External functions are parameters recorded in `Env`: the address hash `GetReservePoolAddr`
(a table), the module-account addresses, the blocked-address sets handed to the keepers.
-/
namespace CV
namespace Coinswap

def ensure (c : Bool) (e : Rej) : R Unit := if c then .ok () else .error e
theorem ensure_ok {c : Bool} {e : Rej} {u : Unit} (h : ensure c e = .ok u) : c = true := by
  unfold ensure at h; split at h
  · assumption
  · cases h

/-! ## strings the messages carry -/

/-- An address *string* as typed by the user: bech32 accepts an all-lower-case and an
all-upper-case spelling of the same bytes; anything else does not parse. -/
inductive AddrForm where | lower | upper | bad
deriving DecidableEq, Repr

structure AddrStr where
  form : AddrForm
  bytes : Addr
deriving DecidableEq, Repr

/-- `sdk.AccAddressFromBech32` -/
def AddrStr.decode (a : AddrStr) : R Addr :=
  match a.form with
  | .bad => .error (.invalid "address")
  | _ => .ok a.bytes

def isAlpha (c : Char) : Bool := (c ≥ 'a' && c ≤ 'z') || (c ≥ 'A' && c ≤ 'Z')
def isDenomChar (c : Char) : Bool :=
  isAlpha c || (c ≥ '0' && c ≤ '9') || c == '/' || c == ':' || c == '.' || c == '_' || c == '-'

/-- `sdk.ValidateDenom`: `[a-zA-Z][a-zA-Z0-9/:._-]{2,127}` -/
def validDenom (d : String) : Bool :=
  match d.toList with
  | [] => false
  | c :: cs => isAlpha c && cs.all isDenomChar && 2 ≤ cs.length && cs.length ≤ 127

/-- `strings.HasPrefix(d, "lpt")` -/
def hasLptPrefix (d : String) : Bool := ("lpt".toList).isPrefixOf d.toList

/-- `strings.Split(s, "-")` on a character list (structural, so that closed instances reduce in the kernel) -/
def splitDash : List Char → List (List Char)
  | [] => [[]]
  | c :: cs =>
    if c = '-' then [] :: splitDash cs
    else match splitDash cs with
      | [] => [[c]]
      | w :: ws => (c :: w) :: ws

def allDigitsL (s : List Char) : Bool := !s.isEmpty && s.all (fun c => c ≥ '0' && c ≤ '9')
def digitsValL (s : List Char) : Nat := s.foldl (fun n c => 10 * n + (c.toNat - '0'.toNat)) 0

/-- `types.ParseLptDenom` succeeds: exactly two `-`-separated parts, the second a base-10 uint64. -/
def validLptDenom (d : String) : Bool :=
  match splitDash d.toList with
  | [_, n] => allDigitsL n && decide (digitsValL n < 2 ^ 64)
  | _ => false

/-! ## state -/

structure Pool where
  counter : Denom
  lpt : Denom
  escrow : Addr
deriving DecidableEq, Repr

structure Params where
  fee : Nat          -- LegacyDec, scaled by 10^18
  taxRate : Nat      -- LegacyDec
  feeDenom : Denom   -- PoolCreationFee
  feeAmt : Nat
  maxStd : Nat       -- MaxStandardCoinPerPool
  maxSwap : List (Denom × Nat)
deriving Repr

/-- static wiring (`app.go`) and external functions -/
structure Env where
  modAddr : Addr
  feeCollector : Addr
  blockedCs : List Addr      -- recipients the coinswap message server refuses
  blockedBank : List Addr    -- recipients `SendCoinsFromModuleToAccount` refuses
  reserveAddr : List (Denom × Addr)   -- `GetReservePoolAddr`
deriving Repr

structure State where
  bank : Bank
  params : Params
  std : Denom
  pools : List Pool
  seq : Nat
  nowSec : Nat
  nowNsec : Nat
deriving Repr

/-- pools are listed in store-key order (`pool/pool-<counter denom>`) -/
def insertPool : List Pool → Pool → List Pool
  | [], p => [p]
  | q :: qs, p => if p.counter < q.counter then p :: q :: qs else q :: insertPool qs p

/-- `types.GetLptDenom`: `fmt.Sprintf("lpt-%d", sequence)` -/
def lptName (n : Nat) : Denom := "lpt-" ++ Nat.repr n

def lookupD {β : Type} (l : List (Denom × β)) (d : Denom) : Option β :=
  match l with
  | [] => none
  | (k, v) :: rest => if k = d then some v else lookupD rest d

def Env.reserve (env : Env) (lpt : Denom) : R Addr :=
  match lookupD env.reserveAddr lpt with
  | some a => .ok a
  | none => .error (.panic "reserveAddr table")

def State.poolByCounter (s : State) (d : Denom) : Option Pool := s.pools.find? (fun p => p.counter == d)
def State.poolByLpt (s : State) (d : Denom) : Option Pool := s.pools.find? (fun p => p.lpt == d)

def Params.maxSwapOf (p : Params) (d : Denom) : Nat := (lookupD p.maxSwap d).getD 0

/-! ## time -/

def unixToInternal : Int := 62135596800
/-- int64 wrap-around -/
def wrap64 (x : Int) : Int := ((x + 9223372036854775808) % 18446744073709551616) - 9223372036854775808

/-- `ctx.BlockHeader().Time.After(time.Unix(deadline, 0))` -/
def pastDeadline (nowSec nowNsec : Nat) (deadline : Int) : Bool :=
  let dl := wrap64 (deadline + unixToInternal)
  let bt := (nowSec : Int) + unixToInternal
  decide (bt > dl) || (decide (bt = dl) && decide (nowNsec > 0))

/-! ## arithmetic kernels (bridged to the regenerated `Gen.*` terms) -/

/-- `GetInputPrice` -/
def inputPrice (inputAmt inputReserve outputReserve fee : Nat) : R Nat :=
  Dec.sub Dec.one fee >>= fun deltaFee =>
  SdkInt.ofBig deltaFee >>= fun df =>
  SdkInt.mul inputAmt df >>= fun inputAmtWithFee =>
  SdkInt.mul inputAmtWithFee outputReserve >>= fun numerator =>
  SdkInt.mul inputReserve S18 >>= fun d0 =>
  SdkInt.add d0 inputAmtWithFee >>= fun denominator =>
  SdkInt.quo numerator denominator

/-- `GetOutputPrice` -/
def outputPrice (outputAmt inputReserve outputReserve fee : Nat) : R Nat :=
  Dec.sub Dec.one fee >>= fun deltaFee =>
  SdkInt.mul inputReserve outputAmt >>= fun n0 =>
  SdkInt.mul n0 S18 >>= fun numerator =>
  SdkInt.sub outputReserve outputAmt >>= fun r =>
  SdkInt.ofBig deltaFee >>= fun df =>
  SdkInt.mul r df >>= fun denominator =>
  SdkInt.quo numerator denominator >>= fun q =>
  SdkInt.add q 1

/-- live-pool branch of `AddLiquidity`: `(maxStandardInputAmt, mintLiquidityAmt, depositAmt)` -/
def addLiveAmounts (exact maxStd X Y L : Nat) : R (Nat × Nat × Nat) :=
  SdkInt.sub maxStd X >>= fun room =>
  let s := min exact room
  SdkInt.mul L s >>= fun m0 =>
  SdkInt.quo m0 X >>= fun mint =>
  SdkInt.mul Y s >>= fun d0 =>
  SdkInt.quo d0 X >>= fun d1 =>
  SdkInt.add d1 1 >>= fun deposit =>
  .ok (s, mint, deposit)

/-- `RemoveLiquidity`: `(standardWithdrawAmt, tokenWithdrawnAmt)` -/
def removeAmounts (w X Y L : Nat) : R (Nat × Nat) :=
  SdkInt.mul w X >>= fun a0 =>
  SdkInt.quo a0 L >>= fun a =>
  SdkInt.mul w Y >>= fun b0 =>
  SdkInt.quo b0 L >>= fun b =>
  .ok (a, b)

/-- `DeductPoolCreationFee`: community tax = `⌊fee · rate⌋` -/
def poolTax (feeAmt taxRate : Nat) : R Nat :=
  Dec.mul (Dec.ofIntN feeAmt) taxRate >>= fun t => Dec.truncateInt t

/-! ## messages -/

structure MsgSwap where
  inAddr : AddrStr
  inDenom : Denom
  inAmt : Int
  outAddr : AddrStr
  outDenom : Denom
  outAmt : Int
  deadline : Int
  isBuy : Bool
deriving Repr

structure MsgAdd where
  sender : AddrStr
  tokDenom : Denom
  maxToken : Int
  exact : Int
  minLiq : Int
  deadline : Int
deriving Repr

structure MsgRemove where
  sender : AddrStr
  lptDenom : Denom
  withdraw : Int
  minToken : Int
  minStd : Int
  deadline : Int
deriving Repr

inductive Resp where
  | swap (amount : Nat)                 -- MsgSwapCoinResponse is empty; `amount` is the event value
  | add (lpt : Denom) (minted : Nat)    -- MsgAddLiquidityResponse.MintToken
  | remove (coins : Coins)              -- MsgRemoveLiquidityResponse.WithdrawCoins
  | none
deriving Repr, DecidableEq

/-- `sdk.NewCoins` of two coins of different denoms: sorted by denom, zero coins dropped -/
def newCoins2 (a b : Denom × Nat) : Coins :=
  let l := if a.1 < b.1 then [a, b] else [b, a]
  l.filter (fun c => c.2 != 0)

/-! ## SwapCoin -/

/-- the effect list of `swapCoins` -/
def swapEffs (sender rcpt escrow : Addr) (dSold : Denom) (sold : Nat) (dBought : Denom) (bought : Nat) : List Eff :=
  [.xfer sender escrow dSold sold, .xfer escrow rcpt dBought bought]

/-- the denomination of the pair that is not the standard coin -/
def counterOf (std d1 d2 : Denom) : Denom := if d1 == std then d2 else d1

/-- `GetLptDenomFromDenoms` followed by `GetReservePoolAddr` and `GetPoolBalances` -/
def poolFor (env : Env) (s : State) (d1 d2 : Denom) : R (Pool × Addr) :=
  ensure (d1 != d2) (.invalid "equal denom") >>= fun _ =>
  ensure (d1 == s.std || d2 == s.std) (.invalid "no standard denom") >>= fun _ =>
  match s.poolByCounter (counterOf s.std d1 d2) with
  | none => .error (.notFound "pool")
  | some p =>
    env.reserve p.lpt >>= fun esc =>
    ensure (s.bank.hasAcct esc) (.notFound "escrow account") >>= fun _ =>
    .ok (p, esc)

/-- which leg is checked against the per-swap maximum: the one that is not the standard coin -/
def quoteLeg (std : Denom) (dIn : Denom) (aIn : Nat) (dOut : Denom) (aOut : Nat) (isBuy : Bool) : Denom × Nat :=
  if isBuy then (if dIn != std then (dIn, aIn) else (dOut, aOut))
  else (if dOut != std then (dOut, aOut) else (dIn, aIn))

def checkMaxSwap (p : Params) (q : Denom × Nat) : R Unit :=
  match lookupD p.maxSwap q.1 with
  | none => .error (.invalid "denom not whitelisted")
  | some mx => ensure (decide (q.2 ≤ mx)) (.constraint "max swap amount")

/-- `TradeExactInputForOutput` / `TradeInputForExactOutput`: returns `(sold, bought, escrow)` -/
def trade (env : Env) (s : State) (dIn : Denom) (aIn : Nat) (dOut : Denom) (aOut : Nat) (isBuy : Bool) :
    R (Nat × Nat × Addr) :=
  if isBuy then
    -- calculateWithExactOutput(output.Coin, input.Coin.Denom)
    poolFor env s dOut dIn >>= fun (_, esc) =>
    let outRes := s.bank.get esc dOut
    let inRes := s.bank.get esc dIn
    ensure (decide (0 < inRes)) .insufficient >>= fun _ =>
    ensure (decide (0 < outRes)) .insufficient >>= fun _ =>
    ensure (decide (aOut < outRes)) .insufficient >>= fun _ =>
    outputPrice aOut inRes outRes s.params.fee >>= fun sold =>
    ensure (decide (sold ≤ aIn)) (.constraint "max input") >>= fun _ =>
    checkMaxSwap s.params (quoteLeg s.std dIn sold dOut aOut true) >>= fun _ =>
    .ok (sold, aOut, esc)
  else
    poolFor env s dIn dOut >>= fun (_, esc) =>
    let inRes := s.bank.get esc dIn
    let outRes := s.bank.get esc dOut
    ensure (decide (0 < inRes)) .insufficient >>= fun _ =>
    ensure (decide (0 < outRes)) .insufficient >>= fun _ =>
    inputPrice aIn inRes outRes s.params.fee >>= fun bought =>
    ensure (decide (aOut ≤ bought)) (.constraint "min output") >>= fun _ =>
    checkMaxSwap s.params (quoteLeg s.std dIn aIn dOut bought false) >>= fun _ =>
    .ok (aIn, bought, esc)

/-- is the recipient string refused by `m.Keeper.blockedAddrs[...]`?
The lookup is by the canonical (lower-case bech32) string of the decoded address. -/
def recipientBlocked (env : Env) (a : AddrStr) : Bool := env.blockedCs.contains a.bytes

def validCoin (d : Denom) (a : Int) : Bool := validDenom d && decide (0 < a)

/-- `msgServer.SwapCoin` -/
def swap (env : Env) (s : State) (m : MsgSwap) : R (State × Resp) :=
  ensure (validCoin m.inDenom m.inAmt) (.invalid "input coin") >>= fun _ =>
  ensure (!hasLptPrefix m.inDenom) (.invalid "input lpt") >>= fun _ =>
  m.inAddr.decode >>= fun sender =>
  ensure (validCoin m.outDenom m.outAmt) (.invalid "output coin") >>= fun _ =>
  ensure (!hasLptPrefix m.outDenom) (.invalid "output lpt") >>= fun _ =>
  m.outAddr.decode >>= fun rcpt =>
  ensure (m.inDenom != m.outDenom) (.invalid "equal denom") >>= fun _ =>
  ensure (decide (0 < m.deadline)) (.invalid "deadline") >>= fun _ =>
  ensure (!pastDeadline s.nowSec s.nowNsec m.deadline) .expired >>= fun _ =>
  ensure (!recipientBlocked env m.outAddr) .unauthorized >>= fun _ =>
  ensure (m.inDenom == s.std || m.outDenom == s.std) (.invalid "double swap") >>= fun _ =>
  trade env s m.inDenom m.inAmt.toNat m.outDenom m.outAmt.toNat m.isBuy >>= fun (sold, bought, esc) =>
  s.bank.applyAll (swapEffs sender rcpt esc m.inDenom sold m.outDenom bought) >>= fun bank' =>
  .ok ({ s with bank := bank' }, .swap (if m.isBuy then sold else bought))

/-! ## AddLiquidity -/

def creationFeeEffs (env : Env) (sender : Addr) (feeDenom : Denom) (feeAmt tax : Nat) : List Eff :=
  [.xfer sender env.modAddr feeDenom feeAmt, .xfer env.modAddr env.feeCollector feeDenom tax,
   .burn env.modAddr feeDenom (feeAmt - tax)]

def addEffs (env : Env) (sender escrow : Addr) (std : Denom) (stdAmt : Nat) (tok : Denom) (tokAmt : Nat)
    (lpt : Denom) (mint : Nat) : List Eff :=
  [.xfer sender escrow std stdAmt, .xfer sender escrow tok tokAmt,
   .mint env.modAddr lpt mint, .xfer env.modAddr sender lpt mint]

/-- the three branches of `Keeper.AddLiquidity` -/
inductive AddBranch where | create | refill | live
deriving DecidableEq, Repr

/-- amounts decided by `Keeper.AddLiquidity` before any coin moves:
`(branch, pool, stdIn, tokIn, mint, feeEffects, pools', seq')` -/
structure AddPlan where
  branch : AddBranch
  pool : Pool
  stdIn : Nat
  tokIn : Nat
  mint : Nat
  feeEffs : List Eff
  pools' : List Pool
  seq' : Nat
deriving Repr

def initialChecks (p : Params) (exact minLiq : Nat) : R Unit :=
  ensure (decide (exact ≤ p.maxStd)) (.constraint "max standard coin per pool") >>= fun _ =>
  ensure (decide (minLiq ≤ exact)) (.constraint "min liquidity")

def planAdd (env : Env) (s : State) (sender : Addr) (tok : Denom) (maxTok exact minLiq : Nat) : R AddPlan :=
  ensure (s.std != tok) (.invalid "max token is standard denom") >>= fun _ =>
  ensure (decide (0 < s.params.maxSwapOf tok)) (.invalid "not whitelisted") >>= fun _ =>
  match s.poolByCounter tok with
  | none =>
    -- DeductPoolCreationFee comes first
    ensure (validDenom s.params.feeDenom) (.panic "creation fee denom") >>= fun _ =>
    poolTax s.params.feeAmt s.params.taxRate >>= fun tax =>
    ensure (decide (tax ≤ s.params.feeAmt)) .negative >>= fun _ =>
    initialChecks s.params exact minLiq >>= fun _ =>
    let lpt := lptName s.seq
    env.reserve lpt >>= fun esc =>
    let pool : Pool := { counter := tok, lpt := lpt, escrow := esc }
    .ok { branch := .create, pool := pool, stdIn := exact, tokIn := maxTok, mint := exact,
          feeEffs := creationFeeEffs env sender s.params.feeDenom s.params.feeAmt tax,
          pools' := insertPool s.pools pool, seq' := s.seq + 1 }
  | some pool =>
    ensure (s.bank.hasAcct pool.escrow) (.notFound "escrow account") >>= fun _ =>
    let X := s.bank.get pool.escrow s.std
    let Y := s.bank.get pool.escrow tok
    let L := s.bank.supply pool.lpt
    if L = 0 then
      initialChecks s.params exact minLiq >>= fun _ =>
      .ok { branch := .refill, pool := pool, stdIn := exact, tokIn := maxTok, mint := exact,
            feeEffs := [], pools' := s.pools, seq' := s.seq }
    else
      ensure (decide (X < s.params.maxStd)) (.constraint "pool maxed out") >>= fun _ =>
      addLiveAmounts exact s.params.maxStd X Y L >>= fun (stdIn, mint, deposit) =>
      ensure (decide (minLiq ≤ mint)) (.constraint "min liquidity") >>= fun _ =>
      ensure (decide (deposit ≤ maxTok)) (.constraint "max token") >>= fun _ =>
      .ok { branch := .live, pool := pool, stdIn := stdIn, tokIn := deposit, mint := mint,
            feeEffs := [], pools' := s.pools, seq' := s.seq }

/-- `msgServer.AddLiquidity` -/
def add (env : Env) (s : State) (m : MsgAdd) : R (State × Resp) :=
  ensure (validCoin m.tokDenom m.maxToken) (.invalid "max token") >>= fun _ =>
  ensure (!hasLptPrefix m.tokDenom) (.invalid "max token lpt") >>= fun _ =>
  ensure (decide (0 < m.exact)) (.invalid "exact standard amt") >>= fun _ =>
  ensure (decide (0 ≤ m.minLiq)) (.invalid "min liquidity") >>= fun _ =>
  ensure (decide (0 < m.deadline)) (.invalid "deadline") >>= fun _ =>
  m.sender.decode >>= fun sender =>
  ensure (!pastDeadline s.nowSec s.nowNsec m.deadline) .expired >>= fun _ =>
  planAdd env s sender m.tokDenom m.maxToken.toNat m.exact.toNat m.minLiq.toNat >>= fun plan =>
  ensure (!env.blockedBank.contains sender) .unauthorized >>= fun _ =>
  s.bank.applyAll (plan.feeEffs ++
      addEffs env sender plan.pool.escrow s.std plan.stdIn m.tokDenom plan.tokIn plan.pool.lpt plan.mint) >>= fun bank' =>
  .ok ({ s with bank := bank', pools := plan.pools', seq := plan.seq' }, .add plan.pool.lpt plan.mint)

/-! ## RemoveLiquidity -/

def removeEffs (env : Env) (sender escrow : Addr) (lpt : Denom) (w : Nat) (std : Denom) (stdOut : Nat)
    (tok : Denom) (tokOut : Nat) : List Eff :=
  [.xfer sender env.modAddr lpt w, .burn env.modAddr lpt w,
   .xfer escrow sender std stdOut, .xfer escrow sender tok tokOut]

/-- `msgServer.RemoveLiquidity` -/
def remove (env : Env) (s : State) (m : MsgRemove) : R (State × Resp) :=
  ensure (decide (0 ≤ m.minToken)) (.invalid "min token") >>= fun _ =>
  ensure (validCoin m.lptDenom m.withdraw) (.invalid "withdraw liquidity") >>= fun _ =>
  ensure (validLptDenom m.lptDenom) (.invalid "lpt denom") >>= fun _ =>
  ensure (decide (0 ≤ m.minStd)) (.invalid "min standard amt") >>= fun _ =>
  ensure (decide (0 < m.deadline)) (.invalid "deadline") >>= fun _ =>
  m.sender.decode >>= fun sender =>
  ensure (!pastDeadline s.nowSec s.nowNsec m.deadline) .expired >>= fun _ =>
  match s.poolByLpt m.lptDenom with
  | none => .error (.notFound "pool")
  | some pool =>
    ensure (s.bank.hasAcct pool.escrow) (.notFound "escrow account") >>= fun _ =>
    let X := s.bank.get pool.escrow s.std
    let Y := s.bank.get pool.escrow pool.counter
    let L := s.bank.supply pool.lpt
    let w := m.withdraw.toNat
    ensure (decide (m.minStd.toNat ≤ X)) .insufficient >>= fun _ =>
    ensure (decide (m.minToken.toNat ≤ Y)) .insufficient >>= fun _ =>
    ensure (decide (w ≤ L)) .insufficient >>= fun _ =>
    removeAmounts w X Y L >>= fun (stdOut, tokOut) =>
    ensure (decide (m.minStd.toNat ≤ stdOut)) (.constraint "min standard") >>= fun _ =>
    ensure (decide (m.minToken.toNat ≤ tokOut)) (.constraint "min token") >>= fun _ =>
    s.bank.applyAll (removeEffs env sender pool.escrow pool.lpt w s.std stdOut pool.counter tokOut) >>= fun bank' =>
    .ok ({ s with bank := bank' }, .remove (newCoins2 (s.std, stdOut) (pool.counter, tokOut)))

/-! ## the operation alphabet of histories -/

inductive Op where
  | swap (m : MsgSwap)
  | add (m : MsgAdd)
  | remove (m : MsgRemove)
  | send (src dst : Addr) (d : Denom) (amt : Nat)   -- any bank transfer, e.g. a donation to an escrow
  | autoSwap (rcpt : Addr) (dIn : Denom) (maxIn out : Nat)   -- onboarding: keeper-level `TradeInputForExactOutput`, payer = recipient
  | setParams (p : Params)                           -- governance (validated by C17's predicate)
  | setTime (sec nsec : Nat)
deriving Repr

/-- parameter validity as enforced by `Params.Validate` + the per-field validators -/
def Params.valid (p : Params) : Bool :=
  decide (p.fee < S18) && decide (p.taxRate < S18) && decide (0 < p.maxStd)

def step (env : Env) (s : State) : Op → R (State × Resp)
  | .swap m => swap env s m
  | .add m => add env s m
  | .remove m => remove env s m
  | .send src dst d amt =>
    s.bank.applyAll [.xfer src dst d amt] >>= fun b => .ok ({ s with bank := b }, .none)
  | .autoSwap rcpt dIn maxIn out =>
    -- x/onboarding calls the keeper function directly: no message validation, no deadline, no blocked-recipient check
    trade env s dIn maxIn s.std out true >>= fun (sold, bought, esc) =>
    s.bank.applyAll (swapEffs rcpt rcpt esc dIn sold s.std bought) >>= fun bank' =>
    .ok ({ s with bank := bank' }, .swap sold)
  | .setParams p =>
    ensure p.valid (.invalid "params") >>= fun _ => .ok ({ s with params := p }, .none)
  | .setTime sec nsec => .ok ({ s with nowSec := sec, nowNsec := nsec }, .none)

/-- transaction-level execution: rejected ⇒ unchanged -/
def exec (env : Env) (s : State) (op : Op) : State := (deliver s (fun s => step env s op)).1

def run (env : Env) (s : State) (ops : List Op) : State := ops.foldl (exec env) s

end Coinswap
end CV
