import CantoVerif.Base.Core
import CantoVerif.Base.AMap
import CantoVerif.Base.Bank
import CantoVerif.Base.Dec
import CantoVerif.Model.Epochs
/-!
# x/inflation behind the x/epochs clock — executable model.

Mirrors `x/inflation/keeper/{hooks,inflation}.go`, `x/inflation/types/{inflation_calculation,params}.go`,
the `UpdateParams` message handler, and the wiring of `app.go` (the inflation keeper is the only
epochs listener; module accounts `inflation` (minter), `fee_collector`, `distribution`).

`AfterEpochEnd(id, n)`:
* disabled: `id == "day"` ⇒ `skipped++`; nothing else;
* enabled, `id != identifier`: nothing;
* enabled, `id == identifier`: mint `⌊provision⌋` of the mint denom to the inflation account, send
  `⌊minted·stakingRewards⌋` to the fee collector, send *every* balance of the inflation account to
  the distribution account and add it to `FeePool.CommunityPool`; then
  `if n − E·period − skipped > E { period++; provision = f(params, period, E, bondedRatio) }`.

Decimals are `LegacyDec` values scaled by 10^18, restricted to the non-negative range: a subtraction
that would go negative is the rejection `Rej.negative` (theorem `provision_total` shows it cannot
happen for valid parameters), 315-bit overflow is `Rej.overflow` exactly where the code panics.

**Ghost fields** (not stored by the implementation; they only record what happened, no guard reads
them): `mints` (number of minting epochs), `skips` (number of daily epochs counted as skipped),
`issued` (denomination and amount of every mint, oldest first), `State.hist` (all listener
notifications, oldest first) and `State.lastNow` (time of the latest block).

Not modelled: `uint64`/`int64` wrap-around of `period`, `skipped`, the epoch number; the
`!found` panic for a missing provision (InitGenesis always stores one); events and telemetry.
-/
namespace CV
namespace Inflation
open Epochs

def ensure (c : Bool) (e : Rej) : R Unit := if c then .ok () else .error e
theorem ensure_ok {c : Bool} {e : Rej} {u : Unit} (h : ensure c e = .ok u) : c = true := by
  unfold ensure at h; split at h
  · assumption
  · cases h

/-! ## parameters -/

def isAlpha (c : Char) : Bool := (c ≥ 'a' && c ≤ 'z') || (c ≥ 'A' && c ≤ 'Z')
def isDenomChar (c : Char) : Bool :=
  isAlpha c || (c ≥ '0' && c ≤ '9') || c == '/' || c == ':' || c == '.' || c == '_' || c == '-'
/-- `sdk.ValidateDenom`: `[a-zA-Z][a-zA-Z0-9/:._-]{2,127}` (a blank string fails it too) -/
def validDenom (d : String) : Bool :=
  match d.toList with
  | [] => false
  | c :: cs => isAlpha c && cs.all isDenomChar && 2 ≤ cs.length && cs.length ≤ 127

/-- `types.Params` with every `LegacyDec` as its scaled integer -/
structure Params where
  mintDenom : Denom
  a : Nat               -- ExponentialCalculation.A
  r : Nat               -- .R
  c : Nat               -- .C
  bondingTarget : Nat   -- .BondingTarget
  maxVariance : Nat     -- .MaxVariance
  stakingRewards : Nat  -- InflationDistribution.StakingRewards
  communityPool : Nat   -- InflationDistribution.CommunityPool
  enable : Bool
deriving DecidableEq, Repr

/-- the parameters as they arrive in a message (decimals may be negative there) -/
structure ParamsIn where
  mintDenom : Denom
  a : Int
  r : Int
  c : Int
  bondingTarget : Int
  maxVariance : Int
  stakingRewards : Int
  communityPool : Int
  enable : Bool
deriving DecidableEq, Repr

/-- `Params.Validate` -/
def ParamsIn.valid (p : ParamsIn) : Bool :=
  validDenom p.mintDenom &&
  decide (0 ≤ p.a) && decide (p.r ≤ (S18 : Int)) && decide (0 ≤ p.r) && decide (0 ≤ p.c) &&
  decide (p.bondingTarget ≤ (S18 : Int)) && decide (0 < p.bondingTarget) && decide (0 ≤ p.maxVariance) &&
  decide (0 ≤ p.stakingRewards) && decide (0 ≤ p.communityPool) &&
  decide (p.stakingRewards + p.communityPool = (S18 : Int))

def ParamsIn.toParams (p : ParamsIn) : Params :=
  { mintDenom := p.mintDenom, a := p.a.toNat, r := p.r.toNat, c := p.c.toNat, bondingTarget := p.bondingTarget.toNat,
    maxVariance := p.maxVariance.toNat, stakingRewards := p.stakingRewards.toNat, communityPool := p.communityPool.toNat,
    enable := p.enable }

/-- validity of stored parameters (what `Params.Validate` guarantees) -/
def Params.valid (p : Params) : Bool :=
  validDenom p.mintDenom && decide (p.r ≤ S18) && decide (p.bondingTarget ≤ S18) && decide (0 < p.bondingTarget) &&
  decide (p.stakingRewards + p.communityPool = S18)

/-! ## the provision formula (`types.CalculateEpochMintProvision`) -/

/-- `if bondedRatio.GTE(bTarget) { bondedRatio = bTarget }` -/
def capBonded (bonded target : Nat) : Nat := if target ≤ bonded then target else bonded

def provision (p : Params) (period : Nat) (epochsPerPeriod : Nat) (bondedRatio : Nat) : R Nat :=
  Dec.sub Dec.one p.r >>= fun decay =>
  Dec.power decay period >>= fun pw =>
  Dec.mul p.a pw >>= fun t =>
  Dec.add t p.c >>= fun exponentialDecay =>
  let b := capBonded bondedRatio p.bondingTarget
  Dec.quo p.maxVariance p.bondingTarget >>= fun q =>
  Dec.mul b q >>= fun sub =>
  Dec.add Dec.one p.maxVariance >>= fun onePlus =>
  Dec.sub onePlus sub >>= fun bondingIncentive =>
  Dec.mul exponentialDecay bondingIncentive >>= fun periodProvision =>
  Dec.quo periodProvision (Dec.ofIntN epochsPerPeriod) >>= fun epochProvision =>
  Dec.mul epochProvision (Dec.ofIntN S18)

/-! ### the same formula without guards (what the theorems and monitors speak about)

`provisionN = ((a ⊗ (1−r)^⊗x ⊕ c) ⊗ incentive ⊘ E) ⊗ 10^18` with every `⊗ ⊘` the rounded `LegacyDec`
operation and `incentive = 1 + v − min(b, target) ⊗ (v ⊘ target)`. -/

def decayedN (p : Params) (x : Nat) : Nat := Dec.mulN p.a (Dec.powerN (S18 - p.r) x) + p.c
def subN (p : Params) (b : Nat) : Nat := Dec.mulN (capBonded b p.bondingTarget) (Dec.quoN p.maxVariance p.bondingTarget)
def incentiveN (p : Params) (b : Nat) : Nat := S18 + p.maxVariance - subN p b
/-- everything after the bonding incentive: `(y ⊗ incentive ⊘ E) ⊗ 10^18` -/
def scaleN (y incentive epp : Nat) : Nat := Dec.mulN (Dec.quoN (Dec.mulN y incentive) (Dec.ofIntN epp)) (Dec.ofIntN S18)
def provisionN (p : Params) (x epp b : Nat) : Nat := scaleN (decayedN p x) (incentiveN p b) epp

/-! ## state -/

/-- static wiring (`app.go`, staking parameters) -/
structure Env where
  infl : Addr          -- inflation module account
  feeCollector : Addr
  distr : Addr         -- distribution module account
  bondedPool : Addr
  bondDenom : Denom
deriving Repr

/-- everything the inflation listener reads or writes -/
structure Infl where
  bank : Bank
  pool : AMap Denom     -- FeePool.CommunityPool, scaled by 10^18
  params : Params
  period : Nat
  epochId : String      -- EpochIdentifier
  epp : Nat             -- EpochsPerPeriod
  skipped : Nat         -- SkippedEpochs
  provision : Nat       -- EpochMintProvision
  -- ghost
  mints : Nat
  skips : Nat
  issued : List (Denom × Nat)
deriving Repr

structure State where
  infos : List EpochInfo
  infl : Infl
  -- ghost
  lastNow : Int
  hist : List Call
deriving Repr

/-! ## the listener -/

/-- `GetProportions`: `coin.Amount.ToLegacyDec().Mul(distribution).TruncateInt()` -/
def stakingShare (minted ratio : Nat) : R Nat :=
  Dec.mul (Dec.ofIntN minted) ratio >>= fun x => Dec.truncateInt x

/-- `Keeper.BondedRatio`: bonded-pool balance over the supply of the bond denomination, truncated -/
def bondedRatio (env : Env) (b : Bank) : R Nat :=
  let supply := b.supply env.bondDenom
  if supply = 0 then .ok 0
  else Dec.quoInt (Dec.ofIntN (b.get env.bondedPool env.bondDenom)) supply

/-- denominations with an entry under address `a` (a superset of those with a non-zero balance) -/
def heldDenoms (b : Bank) (a : Addr) : List Denom :=
  (b.bal.items.filter (fun p => p.1.1 == a && p.2 != 0)).map (fun p => p.1.2)

/-- `FundCommunityPool` for one denomination: the whole current balance goes to the distribution
account and is added to the community-pool record (`DecCoins.Add`, 315-bit guarded) -/
def sweepStep (env : Env) (acc : Bank × AMap Denom) (d : Denom) : R (Bank × AMap Denom) :=
  let v := acc.1.get env.infl d
  acc.1.apply1 (.xfer env.infl env.distr d v) >>= fun b' =>
  Dec.guard315 (acc.2.get d + v * S18) >>= fun pv =>
  .ok (b', acc.2.set d pv)

def sweep (env : Env) : List Denom → Bank × AMap Denom → R (Bank × AMap Denom)
  | [], acc => .ok acc
  | d :: ds, acc => sweepStep env acc d >>= fun acc' => sweep env ds acc'

/-- `MintCoins` + the staking leg of `AllocateExponentialInflation`.  (The code skips a zero mint
and sends an empty coin list for a zero share; both are the identity on every balance.) -/
def mintEffs (env : Env) (denom : Denom) (minted staking : Nat) : List Eff :=
  [.mint env.infl denom minted, .xfer env.infl env.feeCollector denom staking]

/-- `MintAndAllocateInflation` -/
def mintAndAllocate (env : Env) (bank : Bank) (pool : AMap Denom) (denom : Denom) (minted ratio : Nat) :
    R (Bank × AMap Denom) :=
  stakingShare minted ratio >>= fun staking =>
  bank.applyAll (mintEffs env denom minted staking) >>= fun bank1 =>
  sweep env (heldDenoms bank1 env.infl) (bank1, pool)

/-- `epochNumber - epochsPerPeriod*int64(period) - int64(skippedEpochs) > epochsPerPeriod` -/
def periodPassed (n : Int) (epp period skipped : Nat) : Bool :=
  decide (n - (epp : Int) * (period : Int) - (skipped : Int) > (epp : Int))

def dayId : String := "day"

/-- `Keeper.AfterEpochEnd` -/
def afterEpochEnd (env : Env) (s : Infl) (id : String) (n : Int) : R Infl :=
  if !s.params.enable then
    if id != dayId then .ok s
    else .ok { s with skipped := s.skipped + 1, skips := s.skips + 1 }
  else if id != s.epochId then .ok s
  else
    Dec.truncateInt s.provision >>= fun minted =>
    ensure (validDenom s.params.mintDenom) (.panic "mint denom") >>= fun _ =>
    mintAndAllocate env s.bank s.pool s.params.mintDenom minted s.params.stakingRewards >>= fun bp =>
    let s1 : Infl := { s with bank := bp.1, pool := bp.2, mints := s.mints + 1,
                              issued := s.issued ++ [(s.params.mintDenom, minted)] }
    if periodPassed n s.epp s.period s.skipped then
      bondedRatio env s1.bank >>= fun ratio =>
      provision s.params (s.period + 1) s.epp ratio >>= fun newProvision =>
      .ok { s1 with period := s.period + 1, provision := newProvision }
    else .ok s1

/-- `Keeper.BeforeEpochStart`: no-op -/
def beforeEpochStart (s : Infl) (_id : String) (_n : Int) : R Infl := .ok s

/-- `epochskeeper.NewMultiEpochHooks(app.InflationKeeper.Hooks())` -/
def hooks (env : Env) : Hooks Infl := { afterEnd := afterEpochEnd env, beforeStart := beforeEpochStart }

/-! ## operations -/

inductive Op where
  | block (now height : Int)                                  -- the epochs `BeginBlocker` of one block
  | send (src dst : Addr) (d : Denom) (amt : Nat)             -- any bank transfer (bonding, donations to module accounts)
  | updateParams (authorityOk : Bool) (p : ParamsIn)          -- `MsgUpdateParams`
  | sample (p : Params) (period epp bonded : Nat)               -- the pure function, periods `period` and `period+1`
deriving Repr

inductive Resp where
  | block (log : List Call)
  | sample (p : Nat) (next : Option Nat)
  | none
deriving Repr, DecidableEq

def step (env : Env) (s : State) : Op → R (State × Resp)
  | .block now height =>
    beginBlock (hooks env) now height s.infos s.infl >>= fun r =>
    .ok ({ infos := r.1, infl := r.2.1, lastNow := now, hist := s.hist ++ r.2.2 }, .block r.2.2)
  | .send src dst d amt =>
    s.infl.bank.applyAll [.xfer src dst d amt] >>= fun b => .ok ({ s with infl := { s.infl with bank := b } }, .none)
  | .updateParams auth p =>
    ensure auth .unauthorized >>= fun _ =>
    ensure p.valid (.invalid "params") >>= fun _ =>
    .ok ({ s with infl := { s.infl with params := p.toParams } }, .none)
  | .sample p period epp bonded =>
    provision p period epp bonded >>= fun v =>
    .ok (s, .sample v (match provision p (period + 1) epp bonded with | .ok w => some w | .error _ => none))

/-- block / transaction level execution: a rejected operation (for a block: a panicking
`BeginBlocker`, which halts the chain) leaves the state unchanged -/
def exec (env : Env) (s : State) (op : Op) : State := (deliver s (fun s => step env s op)).1

def run (env : Env) (s : State) (ops : List Op) : State := ops.foldl (exec env) s

end Inflation
end CV
