import CantoVerif.Model.Erc20
/-!
# The honest token: `ERC20MinterBurnerDecimals` (OpenZeppelin ERC20 + Burnable + roles) as an oracle.

One EVM state `TState` holds every deployed honest token: balances per (contract, holder), total
supply per contract, which addresses carry code, and who holds the minter/burner role of each
contract (the deployer: the erc20 module account for contracts deployed by `RegisterCoin`).
`honest cfg : Oracle TState` answers the keeper's calls exactly as the Solidity code does:

* `mint` / `burnCoins` need the role; minting to and transferring to the zero address revert;
  total supply is a `uint256` with checked addition; debits need a sufficient balance;
* `transfer` returns `true` and emits exactly one `Transfer` log; it never emits `Approval`;
* a call to an address without code succeeds and returns nothing (EVM semantics);
* `CREATE` at an address that already has code fails (address collision).

This machine is validated against the harness's script machine (surface M) and against the compiled
contract on ethermint's EVM (surface E) by the drivers.  It is what `roundtrip_identity` (C04) and
the backing invariants (C03) are stated about; the gating / exactness / atomicity theorems do not
use it — they hold for every oracle.
-/
namespace CV
namespace Erc20
namespace Token

structure TState where
  bal : AMap (Addr × Addr)        -- (contract, holder)
  sup : AMap Addr                 -- contract ↦ totalSupply
  code : List Addr
  minter : List (Addr × Addr)     -- (contract, account) holding MINTER_ROLE and BURNER_ROLE
deriving Repr

structure Cfg where
  modAddr : Addr
  zero : Addr
deriving Repr

def uintBound : Nat := 2 ^ 256

def okAns (ret : Option Nat) (logs : List LogK) : Ans := { status := .ok, ret := ret, logs := logs }
def revertAns : Ans := { status := .revert, ret := none, logs := [] }
/-- a call to an address without code -/
def emptyAns : Ans := { status := .ok, ret := none, logs := [] }

def TState.balOf (t : TState) (c who : Addr) : Nat := t.bal.get (c, who)
def TState.supply (t : TState) (c : Addr) : Nat := t.sup.get c
def TState.hasCode (t : TState) (c : Addr) : Bool := t.code.contains c
def TState.hasRole (t : TState) (c who : Addr) : Bool := t.minter.contains (c, who)

def TState.credit (t : TState) (c who : Addr) (a : Nat) : TState :=
  { t with bal := t.bal.set (c, who) (t.bal.get (c, who) + a) }
def TState.debit (t : TState) (c who : Addr) (a : Nat) : TState :=
  { t with bal := t.bal.set (c, who) (t.bal.get (c, who) - a) }
def TState.setSupply (t : TState) (c : Addr) (v : Nat) : TState := { t with sup := t.sup.set c v }

/-- `_mint(to, a)` by `caller` -/
def mintBy (cfg : Cfg) (t : TState) (c caller to : Addr) (a : Nat) : Ans × TState :=
  if !t.hasCode c then (emptyAns, t)
  else if !t.hasRole c caller || to == cfg.zero || decide (uintBound ≤ t.supply c + a) then (revertAns, t)
  else (okAns none [.transfer], (t.setSupply c (t.supply c + a)).credit c to a)

/-- `_burn(who, a)`; `_totalSupply -= amount` is checked arithmetic -/
def burnFrom (cfg : Cfg) (t : TState) (c who : Addr) (a : Nat) : Ans × TState :=
  if who == cfg.zero || decide (t.balOf c who < a) || decide (t.supply c < a) then (revertAns, t)
  else (okAns none [.transfer], (t.debit c who a).setSupply c (t.supply c - a))

/-- `_transfer(sender, to, a)`; returns `true` -/
def transferBy (cfg : Cfg) (t : TState) (c sender to : Addr) (a : Nat) : Ans × TState :=
  if !t.hasCode c then (emptyAns, t)
  else if to == cfg.zero || sender == cfg.zero || decide (t.balOf c sender < a) then (revertAns, t)
  else (okAns (some 1) [.transfer], (t.debit c sender a).credit c to a)

def honest (cfg : Cfg) : Oracle TState
  | .code c, t => (okAns (some (if t.hasCode c then 1 else 0)) [], t)
  | .balanceOf c who, t => if t.hasCode c then (okAns (some (t.balOf c who)) [], t) else (emptyAns, t)
  | .mint c to a, t => mintBy cfg t c cfg.modAddr to a
  | .burnCoins c who a, t =>
    if !t.hasCode c then (emptyAns, t)
    else if !t.hasRole c cfg.modAddr then (revertAns, t)
    else burnFrom cfg t c who a
  | .transfer c sender to a, t => transferBy cfg t c sender to a
  | .burn c a, t => if !t.hasCode c then (emptyAns, t) else burnFrom cfg t c cfg.modAddr a
  | .create addr, t =>
    if t.hasCode addr then (revertAns, t)
    else (okAns none [], { t with code := t.code ++ [addr], minter := t.minter ++ [(addr, cfg.modAddr)] })
  | .name c, t => if t.hasCode c then (okAns (some 1) [], t) else (emptyAns, t)
  | .symbol c, t => if t.hasCode c then (okAns (some 1) [], t) else (emptyAns, t)
  | .decimals c, t => if t.hasCode c then (okAns (some 1) [], t) else (emptyAns, t)

/-! ## holders' Ethereum transactions (they fire the hook on the receipt's logs) -/

inductive HolderCall where
  | transfer (to : Addr) (amt : Nat)
  | burn (amt : Nat)
  | approve (spender : Addr) (amt : Nat)
deriving Repr, DecidableEq

/-- the token call of a holder's transaction: the new token state and the receipt's logs;
`none`: the call reverted -/
def holderCall (cfg : Cfg) (t : TState) (c holder : Addr) : HolderCall → Option (TState × List Log)
  | .transfer to a =>
    let r := transferBy cfg t c holder to a
    if r.1.status = .ok then
      some (r.2, if t.hasCode c then [{ emitter := c, nTopics := 3, isTransfer := true, sender := holder, to := to, amount := some a }] else [])
    else none
  | .burn a =>
    if !t.hasCode c then some (t, [])
    else
      let r := burnFrom cfg t c holder a
      if r.1.status = .ok then
        some (r.2, [{ emitter := c, nTopics := 3, isTransfer := true, sender := holder, to := cfg.zero, amount := some a }])
      else none
  | .approve sp a =>
    -- OpenZeppelin `_approve`: reverts for the zero spender; no balance moves; one `Approval(owner, spender, value)`
    -- log: three topics and the amount in the data, like `Transfer`, under another event id
    if !t.hasCode c then some (t, [])
    else if sp == cfg.zero then none
    else some (t, [{ emitter := c, nTopics := 3, isTransfer := false, sender := holder, to := sp, amount := some a }])

/-- an Ethereum transaction by `holder`: the token call, then `PostTxProcessing` on its logs;
a reverted call fails the transaction -/
def evmTx (env : Env) (cfg : Cfg) (w : World TState) (c holder : Addr) (call : HolderCall) :
    R (World TState × Resp) :=
  match holderCall cfg w.evm c holder call with
  | none => .error (.evm "execution reverted")
  | some (t1, logs) => postTx env (honest cfg) { w with evm := t1 } logs

/-- somebody deploys a new honest token at `c` and receives the initial supply -/
def deployExternal (t : TState) (c deployer : Addr) (supply : Nat) : Option TState :=
  if t.hasCode c then none
  else some (({ t with code := t.code ++ [c], minter := t.minter ++ [(c, deployer)] }.setSupply c (t.supply c + supply)).credit c deployer supply)

/-- SELFDESTRUCT (not a feature of the honest contract; scripted on surface M to reach pair deletion) -/
def selfdestruct (t : TState) (c : Addr) : TState := { t with code := t.code.filter (· != c) }

end Token
end Erc20
end CV
