import CantoVerif.Base.Core
/-!
# x/epochs — executable model of `BeginBlocker` (`x/epochs/keeper/abci.go`, `types/epoch_info.go`).

Times are integers (nanoseconds since the Unix epoch, any sign: the zero `time.Time` is a large
negative number), durations are integers (`time.Duration`; `Validate` only excludes 0), the epoch
counter and heights are `int64` in the code and unbounded integers here (no wrap-around modelled).

`BeginBlocker` walks the epoch records in store order (= byte order of the identifiers) and, per
record, either starts counting, ends one epoch, or leaves the record alone.  Listeners are called
synchronously from inside the walk; they are a parameter (`Hooks σ`) acting on their own state `σ`
— the inflation keeper has no access to the epochs store, and the walk never reads `σ`.

  shouldInitialEpochStart := !started && !StartTime.After(now)
  shouldEpochEnd          := now.After(curStart + duration) && !shouldInitialEpochStart && !StartTime.After(now)
  CurrentEpochStartHeight := height                       (in memory, stored only on start / end)
  start: StartInitialEpoch; SetEpochInfo; BeforeEpochStart(id, 1)
  end  : EndEpoch; AfterEpochEnd(id, cur+1); SetEpochInfo; BeforeEpochStart(id, cur+1)
-/
namespace CV
namespace Epochs

structure EpochInfo where
  id : String
  start : Int       -- StartTime
  dur : Int         -- Duration
  cur : Int         -- CurrentEpoch
  curStart : Int    -- CurrentEpochStartTime
  started : Bool    -- EpochCountingStarted
  height : Int      -- CurrentEpochStartHeight
deriving DecidableEq, Repr

/-- `epochs.InitGenesis`: a record whose start time is unset (the zero `time.Time`, year 1) starts at the block time; every
record notes the import height; nothing else is touched — in particular a configured start time, however far in the past,
is kept. `zero` is the nanosecond value of Go's zero time. -/
def zeroTime : Int := -62135596800000000000
def initGenesis (now height : Int) (recs : List EpochInfo) : List EpochInfo :=
  recs.map (fun e => { e with start := if e.start = zeroTime then now else e.start, height := height })

/-- a listener notification -/
inductive Call where
  | afterEnd (id : String) (n : Int)
  | beforeStart (id : String) (n : Int)
deriving DecidableEq, Repr

inductive Action where | idle | start | tick
deriving DecidableEq, Repr

/-- `!epochInfo.EpochCountingStarted && !epochInfo.StartTime.After(ctx.BlockTime())` -/
def shouldStart (e : EpochInfo) (now : Int) : Bool := !e.started && !decide (now < e.start)

/-- `ctx.BlockTime().After(epochEndTime) && !shouldInitialEpochStart && !epochInfo.StartTime.After(ctx.BlockTime())` -/
def shouldEnd (e : EpochInfo) (now : Int) : Bool :=
  decide (e.curStart + e.dur < now) && !shouldStart e now && !decide (now < e.start)

/-- the `switch` of `BeginBlocker` -/
def action (e : EpochInfo) (now : Int) : Action :=
  if shouldStart e now then .start else if shouldEnd e now then .tick else .idle

/-- `StartInitialEpoch` (with the height assignment that precedes the switch) -/
def startInitial (e : EpochInfo) (height : Int) : EpochInfo :=
  { e with started := true, cur := 1, curStart := e.start, height := height }

/-- `EndEpoch` (with the height assignment that precedes the switch) -/
def endEpoch (e : EpochInfo) (height : Int) : EpochInfo :=
  { e with cur := e.cur + 1, curStart := e.curStart + e.dur, height := height }

/-- the record one block leaves behind -/
def advance (now height : Int) (e : EpochInfo) : EpochInfo :=
  match action e now with
  | .start => startInitial e height
  | .tick => endEpoch e height
  | .idle => e

/-- the notifications one record causes in one block -/
def calls (now : Int) (e : EpochInfo) : List Call :=
  match action e now with
  | .start => [.beforeStart e.id 1]
  | .tick => [.afterEnd e.id (e.cur + 1), .beforeStart e.id (e.cur + 1)]
  | .idle => []

/-- the listeners registered with `SetHooks` -/
structure Hooks (σ : Type) where
  afterEnd : σ → String → Int → R σ
  beforeStart : σ → String → Int → R σ

/-- body of the `IterateEpochInfo` callback: new record, listener state, notifications in call order.
A listener panic aborts the whole `BeginBlocker` (and with it the block). -/
def stepInfo {σ : Type} (H : Hooks σ) (now height : Int) (e : EpochInfo) (st : σ) : R (EpochInfo × σ × List Call) :=
  match action e now with
  | .start =>
    let e' := startInitial e height
    H.beforeStart st e'.id e'.cur >>= fun st1 =>
    .ok (e', st1, [.beforeStart e'.id e'.cur])
  | .tick =>
    let e' := endEpoch e height
    H.afterEnd st e'.id e'.cur >>= fun st1 =>
    H.beforeStart st1 e'.id e'.cur >>= fun st2 =>
    .ok (e', st2, [.afterEnd e'.id e'.cur, .beforeStart e'.id e'.cur])
  | .idle => .ok (e, st, [])

/-- `BeginBlocker`: the records in store order -/
def beginBlock {σ : Type} (H : Hooks σ) (now height : Int) : List EpochInfo → σ → R (List EpochInfo × σ × List Call)
  | [], st => .ok ([], st, [])
  | e :: es, st =>
    stepInfo H now height e st >>= fun r1 =>
    beginBlock H now height es r1.2.1 >>= fun r2 =>
    .ok (r1.1 :: r2.1, r2.2.1, r1.2.2 ++ r2.2.2)

/-- the listener calls of a notification list, replayed in order -/
def runCalls {σ : Type} (H : Hooks σ) : List Call → σ → R σ
  | [], st => .ok st
  | .afterEnd id n :: cs, st => H.afterEnd st id n >>= runCalls H cs
  | .beforeStart id n :: cs, st => H.beforeStart st id n >>= runCalls H cs

/-- `AfterEpochEnd` numbers announced for identifier `id`, oldest first -/
def ends (id : String) : List Call → List Int
  | [] => []
  | .afterEnd i n :: cs => if i = id then n :: ends id cs else ends id cs
  | .beforeStart _ _ :: cs => ends id cs

end Epochs
end CV
