import CantoVerif.Base.Core
/-!
# Transaction admission: the routing part of Canto's ante handler — executable model (C19).

Mirrors `app/ante/ante.go` (dispatch on the type URL of the **first** extension option only;
anything but the Ethereum and the Web3/EIP-712 option is refused, the dynamic-fee option
included), `app/ante/handler_options.go` (the Cosmos and the EIP-712 chain both start with
`RejectMessagesDecorator`, `AuthzLimiterDecorator`; the Ethereum chain insists that every message
is a `MsgEthereumTx` and — in `EthValidateBasicDecorator`, before it looks at the messages — that
there is exactly one extension option), the `DisabledAuthzMsgs` list of `app/app.go`, and
ethermint's `AuthzLimiterDecorator.checkDisabledMsgs` with its recursion over `MsgExec`, its
counter passed *by value* (bumped by every `MsgExec` met so far on the current level, inherited
by the levels below) and the limit 6.

What lies behind the routing stage (fees, signatures, sequence numbers, gas) is not modelled: the
model's answer is the chain a transaction is handed to, or the routing rejection.  Core Lean only.
-/
namespace CV
namespace Ante

/-- type URLs -/
def ethOpt : String := "/ethermint.evm.v1.ExtensionOptionsEthereumTx"
def web3Opt : String := "/ethermint.types.v1.ExtensionOptionsWeb3Tx"
def dynFeeOpt : String := "/ethermint.types.v1.ExtensionOptionDynamicFeeTx"
def ethMsgUrl : String := "/ethermint.evm.v1.MsgEthereumTx"
def vestingUrls : List String :=
  ["/cosmos.vesting.v1beta1.MsgCreateVestingAccount",
   "/cosmos.vesting.v1beta1.MsgCreatePermanentLockedAccount",
   "/cosmos.vesting.v1beta1.MsgCreatePeriodicVestingAccount"]

/-- `DisabledAuthzMsgs` of `app/app.go` -/
def disabledList : List String := ethMsgUrl :: vestingUrls

def isDisabled (url : String) : Bool := disabledList.contains url

/-- a message as the routing stage sees it -/
inductive Msg where
  | leaf (url : String)            -- any message that is neither MsgExec nor MsgGrant, by its type URL
  | grant (url : String)           -- authz.MsgGrant; `url` = `authorization.MsgTypeURL()`
  | exec (inner : List Msg)        -- authz.MsgExec
deriving Repr

structure Tx where
  extOpts : List String            -- type URLs of `body.extension_options`, in order
  msgs : List Msg
deriving Repr

def isEth : Msg → Bool
  | .leaf url => url == ethMsgUrl
  | _ => false

def maxNested : Nat := 6

inductive AuthzErr where
  | disabled        -- "found disabled msg type"
  | nesting         -- "found more nested msgs than permitted"
deriving DecidableEq, Repr

mutual
  /-- `checkDisabledMsgs(msgs, isAuthzInnerMsg, nestedMsgs)`: the first error met, in the order the code meets it -/
  def check : List Msg → Bool → Nat → Option AuthzErr
    | msgs, inner, n => if n ≥ maxNested then some .nesting else checkList msgs inner n
  /-- the `for` loop; `n` is the local counter which every `MsgExec` of this level bumps -/
  def checkList : List Msg → Bool → Nat → Option AuthzErr
    | [], _, _ => none
    | .leaf url :: rest, inner, n => if inner && isDisabled url then some .disabled else checkList rest inner n
    | .grant url :: rest, inner, n => if isDisabled url then some .disabled else checkList rest inner n
    | .exec ms :: rest, inner, n =>
      match check ms true (n + 1) with
      | some e => some e
      | none => checkList rest inner (n + 1)
end

inductive Verdict where
  | routedEth          -- handed to the Ethereum chain's remaining checks (Ethereum signature, fee, nonce …)
  | routedCosmos       -- handed to the Cosmos chain's remaining checks
  | routedEip712       -- handed to the EIP-712 chain's remaining checks
  | unknownExt         -- dispatcher: first extension option not recognised
  | ethInCosmos        -- RejectMessagesDecorator
  | authzDisabled      -- AuthzLimiterDecorator: disabled message under MsgExec / in MsgGrant
  | nestingLimit       -- AuthzLimiterDecorator: nesting limit
  | ethShape           -- Ethereum chain: number of extension options is not one
  | nonEthInEth        -- Ethereum chain: a message that is not MsgEthereumTx
deriving DecidableEq, Repr

def Verdict.passedRouting : Verdict → Bool
  | .routedEth | .routedCosmos | .routedEip712 => true
  | _ => false

/-- the first two decorators of the Cosmos and of the EIP-712 chain -/
def cosmosChain (msgs : List Msg) (onPass : Verdict) : Verdict :=
  if msgs.any isEth then .ethInCosmos
  else match check msgs false 0 with
    | some .disabled => .authzDisabled
    | some .nesting => .nestingLimit
    | none => onPass

/-- the message-kind checks of the Ethereum chain, in the order the chain reaches them -/
def ethChain (tx : Tx) : Verdict :=
  if tx.extOpts.length ≠ 1 then .ethShape
  else if tx.msgs.all isEth then .routedEth
  else .nonEthInEth

/-- `NewAnteHandler` -/
def route (tx : Tx) : Verdict :=
  match tx.extOpts with
  | [] => cosmosChain tx.msgs .routedCosmos
  | o :: _ =>
    if o = ethOpt then ethChain tx
    else if o = web3Opt then cosmosChain tx.msgs .routedEip712
    else .unknownExt

/-! ## vocabulary of the property -/

mutual
  /-- a disabled message strictly inside some `MsgExec` (`inner`), or a grant of a disabled type anywhere -/
  def hasBad : List Msg → Bool → Bool
    | [], _ => false
    | .leaf url :: rest, inner => (inner && isDisabled url) || hasBad rest inner
    | .grant url :: rest, inner => isDisabled url || hasBad rest inner
    | .exec ms :: rest, inner => hasBad ms true || hasBad rest inner
end

mutual
  /-- number of `MsgExec` wrappers on the deepest path -/
  def depth : Msg → Nat
    | .leaf _ => 0
    | .grant _ => 0
    | .exec ms => depthL ms + 1
  def depthL : List Msg → Nat
    | [] => 0
    | m :: rest => max (depth m) (depthL rest)
end

mutual
  /-- total number of `MsgExec` messages in a list of trees -/
  def execs : Msg → Nat
    | .leaf _ => 0
    | .grant _ => 0
    | .exec ms => execsL ms + 1
  def execsL : List Msg → Nat
    | [] => 0
    | m :: rest => execs m + execsL rest
end

/-- `k` `MsgExec` wrappers around `m` -/
def wrap : Nat → Msg → Msg
  | 0, m => m
  | k + 1, m => .exec [wrap k m]

end Ante
end CV
