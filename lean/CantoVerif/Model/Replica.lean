import CantoVerif.Model.Genesis
/-!
# C06 — a node as baseapp runs it, and the database image of the Canto state (core Lean only).

**What this model can and cannot say.** In a model a block is a *function* `applyBlock : σ → β → σ × ρ`, so two
model replicas fed the same blocks agree by reflexivity; that says nothing about the code. Whether the
IMPLEMENTATION is a function of (committed store, block) — Go map iteration order, wall clock, goroutines, memory
that survives between blocks or dies at a restart — is decided by the four-replica differential run of the harness
(suite `replica`), not here. What the model does pin down is the *discipline* that makes reads and restarts
harmless, so that the theorems of `Props/C06.lean` have some content:

* a node keeps a committed state and a check state (baseapp's `checkState`, reset to the committed state by `Commit`);
* a gRPC query runs on a branch of the committed state, a simulation on a branch of the check state — whatever the
  handler writes is discarded; `CheckTx` writes to the check state only;
* a restart rebuilds the node from `load (save committed)`: nothing outside what `save` writes to the database
  survives, and whatever the transition reads must be there.

`Disk`/`save`/`load` below give the database image for the state of the seven Canto modules (`Genesis.State`):
every store section as a sorted list of (key, encoded value).
-/
namespace CV
namespace Replica

/-- the application, abstractly -/
structure App (σ β ρ τ α : Type) where
  applyBlock : σ → β → σ × ρ     -- FinalizeBlock + Commit on the committed state: new state, observable results
  query : σ → τ → σ × α          -- a gRPC query handler; it is handed a branch and MAY write to it
  checkTx : σ → τ → σ × α        -- ante handler on the check state (sequence bumps, fee deduction)
  simulate : σ → τ → σ × α       -- runTx in simulation mode on a branch of the check state

structure Node (σ : Type) where
  committed : σ
  check : σ

inductive Ev (β τ : Type) where
  | block (b : β)
  | query (q : τ)
  | checkTx (t : τ)
  | simulate (t : τ)
  | restart

def Ev.isRead {β τ : Type} : Ev β τ → Bool
  | .query _ | .checkTx _ | .simulate _ => true
  | _ => false

def Ev.isRestart {β τ : Type} : Ev β τ → Bool
  | .restart => true
  | _ => false

/-- one event; `db` is the pair (save, load). The second component is the block result, if the event is a block. -/
def step {σ β ρ τ α δ : Type} (app : App σ β ρ τ α) (save : σ → δ) (load : δ → Option σ)
    (n : Node σ) : Ev β τ → Node σ × Option ρ
  | .block b => let r := app.applyBlock n.committed b; ({ committed := r.1, check := r.1 }, some r.2)
  | .query _ => (n, none)                                             -- branch of committed, discarded
  | .checkTx t => ({ n with check := (app.checkTx n.check t).1 }, none)
  | .simulate _ => (n, none)                                          -- branch of check, discarded
  | .restart =>
    match load (save n.committed) with
    | some s => ({ committed := s, check := s }, none)
    | none => (n, none)     -- a database that does not load is outside the property (the node does not come up)

/-- run a schedule; returns the final node and the block results in order -/
def run {σ β ρ τ α δ : Type} (app : App σ β ρ τ α) (save : σ → δ) (load : δ → Option σ) :
    Node σ → List (Ev β τ) → Node σ × List ρ
  | n, [] => (n, [])
  | n, e :: rest =>
    let r := step app save load n e
    let r' := run app save load r.1 rest
    (r'.1, (match r.2 with | some x => [x] | none => []) ++ r'.2)

/-- the answers a reader gets are computed from the state it branches from (used to state that reads see committed data) -/
def answerOf {σ β ρ τ α : Type} (app : App σ β ρ τ α) (n : Node σ) : Ev β τ → Option α
  | .query q => some (app.query n.committed q).2
  | .checkTx t => some (app.checkTx n.check t).2
  | .simulate t => some (app.simulate n.check t).2
  | _ => none

/-! ## the database image of the Canto state -/

open CV.Genesis

/-- encoded values (what the protobuf / amino-JSON bytes stand for, structurally) -/
inductive Val where
  | int (i : Int)
  | nat (n : Nat)
  | str (s : String)
  | bool (b : Bool)
  | bytes (b : Bytes)
  | strs (l : List String)
  | coins (l : List (String × Int))
  | rec_ (fields : List Val)
deriving Repr

def encCoin (c : Coin) : String × Int := (c.denom, c.amount)
def decCoin (p : String × Int) : Coin := ⟨p.1, p.2⟩

def encPool (p : Pool) : Val := .strs [p.id, p.std, p.counter, p.escrow, p.lpt]
def decPool : Val → Option Pool
  | .strs [a, b, c, d, e] => some ⟨a, b, c, d, e⟩
  | _ => none

def encPair (p : Pair) : Val := .rec_ [.str p.addr, .str p.denom, .bool p.enabled, .nat p.owner]
def decPair : Val → Option Pair
  | .rec_ [.str a, .str d, .bool e, .nat o] => some ⟨a, d, e, o⟩
  | _ => none

def encCsr (c : Csr) : Val := .rec_ [.nat c.id, .strs c.contracts, .nat c.txs, .int c.revenue]
def decCsr : Val → Option Csr
  | .rec_ [.nat i, .strs cs, .nat t, .int r] => some ⟨i, cs, t, r⟩
  | _ => none

def encEpoch (e : Epoch) : Val := .rec_ [.str e.id, .int e.start, .int e.dur, .int e.cur, .int e.curStart, .bool e.counting, .int e.height]
def decEpoch : Val → Option Epoch
  | .rec_ [.str i, .int s, .int d, .int c, .int cs, .bool cn, .int h] => some ⟨i, s, d, c, cs, cn, h⟩
  | _ => none

/-- the database: one sorted (key, value) list per store section; single-key entries as plain fields.
`save` writes nothing else and `load` reads nothing else. -/
structure Disk where
  -- coinswap store
  csStd : Val
  csSeq : Val
  csPools : List (Bytes × Val)
  csLptIdx : List (Bytes × Val)
  -- erc20 store
  ercPairs : List (Bytes × Val)
  ercAix : List (Bytes × Val)
  ercDix : List (Bytes × Val)
  -- csr store
  csrCsrs : List (Bytes × Val)
  csrCidx : List (Bytes × Val)
  csrTurnstile : Option Val
  -- govshuttle store
  gsPort : Option Val
  -- epochs store
  epEpochs : List (Bytes × Val)
  -- inflation store (prefixes 1..5)
  infPeriod : Val
  infProvision : Val
  infEpochId : Val
  infEpp : Val
  infSkipped : Val
  -- x/params subspaces of the modules
  pCoinswap : Val
  pErc20 : Val
  pCsr : Val
  pInflation : Val
  pOnboarding : Val

def save (env : Env) (s : State) : Disk :=
  { csStd := .str s.cs.std, csSeq := .nat s.cs.seq,
    csPools := s.cs.pools.map (fun p => (poolKey p, encPool p)),
    csLptIdx := s.cs.lptIdx.map (fun e => (lptKey e, .strs [e.1, e.2])),
    ercPairs := s.erc20.pairs.map (fun p => (1 :: pairKey env p, encPair p)),
    ercAix := s.erc20.aix.map (fun e => (2 :: aixKey e, .rec_ [.bytes e.1, .bytes e.2])),
    ercDix := s.erc20.dix.map (fun e => (3 :: dixKey e, .rec_ [.str e.1, .bytes e.2])),
    csrCsrs := s.csr.csrs.map (fun c => (1 :: csrKey c, encCsr c)),
    csrCidx := s.csr.cidx.map (fun e => (2 :: cidxKey e, .rec_ [.str e.1, .nat e.2])),
    csrTurnstile := s.csr.turnstile.map .bytes,
    gsPort := s.gs.port.map .bytes,
    epEpochs := s.ep.epochs.map (fun e => (1 :: epochKey e, encEpoch e)),
    infPeriod := .nat s.inf.period, infProvision := .int s.inf.provision, infEpochId := .str s.inf.epochId,
    infEpp := .int s.inf.epp, infSkipped := .nat s.inf.skipped,
    pCoinswap := .rec_ [.int s.cs.params.fee, .int s.cs.params.taxRate, .str s.cs.params.feeCoin.denom, .int s.cs.params.feeCoin.amount,
                        .int s.cs.params.maxStd, .coins (s.cs.params.maxSwap.map encCoin)],
    pErc20 := .rec_ [.bool s.erc20.enableErc20, .bool s.erc20.enableHook],
    pCsr := .rec_ [.bool s.csr.enable, .int s.csr.shares],
    pInflation := .rec_ [.str s.inf.params.mintDenom, .int s.inf.params.a, .int s.inf.params.r, .int s.inf.params.c,
                         .int s.inf.params.bondingTarget, .int s.inf.params.maxVariance, .int s.inf.params.stakingRewards,
                         .int s.inf.params.communityPool, .bool s.inf.params.enable],
    pOnboarding := .rec_ [.bool s.ob.enable, .int s.ob.threshold, .strs s.ob.channels] }

def decSS : Val → Option (String × String)
  | .strs [a, b] => some (a, b)
  | _ => none
def decBB : Val → Option (Bytes × Bytes)
  | .rec_ [.bytes a, .bytes b] => some (a, b)
  | _ => none
def decSB : Val → Option (String × Bytes)
  | .rec_ [.str a, .bytes b] => some (a, b)
  | _ => none
def decSN : Val → Option (String × Nat)
  | .rec_ [.str a, .nat b] => some (a, b)
  | _ => none

def decOptBytes : Option Val → Option (Option Bytes)
  | none => some none
  | some (.bytes b) => some (some b)
  | some _ => none

/-- read the state back from the database (values only: the keys are recomputable from the values) -/
def load (d : Disk) : Option State :=
  match d.csStd, d.csSeq, d.pCoinswap with
  | .str std, .nat seq, .rec_ [.int fee, .int tax, .str fd, .int fa, .int mx, .coins ms] =>
    (d.csPools.mapM (fun (e : Bytes × Val) => decPool e.2)).bind fun pools =>
    (d.csLptIdx.mapM (fun (e : Bytes × Val) => decSS e.2)).bind fun lptIdx =>
    match d.pErc20 with
    | .rec_ [.bool e1, .bool e2] =>
      (d.ercPairs.mapM (fun (e : Bytes × Val) => decPair e.2)).bind fun pairs =>
      (d.ercAix.mapM (fun (e : Bytes × Val) => decBB e.2)).bind fun aix =>
      (d.ercDix.mapM (fun (e : Bytes × Val) => decSB e.2)).bind fun dix =>
      match d.pCsr with
      | .rec_ [.bool cen, .int csh] =>
        (d.csrCsrs.mapM (fun (e : Bytes × Val) => decCsr e.2)).bind fun csrs =>
        (d.csrCidx.mapM (fun (e : Bytes × Val) => decSN e.2)).bind fun cidx =>
        (decOptBytes d.csrTurnstile).bind fun ts =>
        (decOptBytes d.gsPort).bind fun port =>
        (d.epEpochs.mapM (fun (e : Bytes × Val) => decEpoch e.2)).bind fun epochs =>
        match d.pOnboarding, d.pInflation, d.infPeriod, d.infProvision, d.infEpochId, d.infEpp, d.infSkipped with
        | .rec_ [.bool oen, .int othr, .strs och],
          .rec_ [.str md, .int a, .int r, .int c, .int bt, .int mv, .int sr, .int cp, .bool ien],
          .nat period, .int prov, .str eid, .int epp, .nat skipped =>
          some { cs := { params := ⟨fee, tax, ⟨fd, fa⟩, mx, ms.map decCoin⟩, std := std, seq := seq, pools := pools, lptIdx := lptIdx },
                 erc20 := { enableErc20 := e1, enableHook := e2, pairs := pairs, aix := aix, dix := dix },
                 csr := { enable := cen, shares := csh, csrs := csrs, cidx := cidx, turnstile := ts },
                 gs := { port := port },
                 ob := { enable := oen, threshold := othr, channels := och },
                 ep := { epochs := epochs },
                 inf := { params := ⟨md, a, r, c, bt, mv, sr, cp, ien⟩, period := period, epochId := eid, epp := epp,
                          skipped := skipped, provision := prov } }
        | _, _, _, _, _, _, _ => none
      | _ => none
    | _ => none
  | _, _, _ => none

/-- the raw store keys of a database image, store by store in iteration order (compare `Genesis.keysOf`) -/
def Disk.keys (d : Disk) : List (String × List Bytes) :=
  [ ("coinswap", [strBytes "StandardDenom"] ++ d.csLptIdx.map (·.1) ++ [strBytes "nextPoolSequence"] ++ d.csPools.map (·.1)),
    ("erc20", d.ercPairs.map (·.1) ++ d.ercAix.map (·.1) ++ d.ercDix.map (·.1)),
    ("csr", d.csrCsrs.map (·.1) ++ d.csrCidx.map (·.1) ++ (match d.csrTurnstile with | some _ => [3 :: strBytes "Turnstile"] | none => [])),
    ("govshuttle", match d.gsPort with | some _ => [strBytes "PortPort"] | none => []),
    ("onboarding", []),
    ("epochs", d.epEpochs.map (·.1)),
    ("inflation", [[1], [2], [3], [4], [5]]),
    ("params", ["coinswap/Fee", "coinswap/MaxStandardCoinPerPool", "coinswap/MaxSwapAmount", "coinswap/PoolCreationFee",
                "coinswap/TaxRate", "csr/CSRShares", "csr/EnableCSR", "erc20/EnableEVMHook", "erc20/EnableErc20",
                "inflation/ParamStoreKeyEnableInflation", "inflation/ParamStoreKeyExponentialCalculation",
                "inflation/ParamStoreKeyInflationDistribution", "inflation/ParamStoreKeyMintDenom",
                "onboarding/AutoSwapThreshold", "onboarding/EnableOnboarding", "onboarding/WhitelistedChannels"].map strBytes) ]

end Replica
end CV
