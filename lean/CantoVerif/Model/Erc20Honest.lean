import CantoVerif.Model.Erc20Token
/-!
# The honest world of C03: the erc20 keeper against honest tokens on an honest EVM.

Operations: every keeper operation (`Op`) answered by the honest token machine, Ethereum
transactions of token holders (`transfer`, `burn`; the hook runs on exactly the logs the token
emitted — receipts are never forged here), and deployments of further honest tokens by anybody.

`destroyed` is a **ghost** component (nothing reads it): per contract, the tokens that holders
destroyed themselves with `burn`; for a contract the module deploys it starts at whatever the module
account already held of the coin at registration (nothing, in a closed world).
-/
namespace CV
namespace Erc20
namespace Token

inductive HOp where
  | k (op : Op)
  | evmTx (c holder : Addr) (call : HolderCall)
  | deploy (c deployer : Addr) (supply : Nat)
deriving Repr

structure HWorld where
  w : World TState
  destroyed : AMap Addr

/-- the ghost after a successful operation -/
def ghostAfter (env : Env) (h : HWorld) (op : HOp) (w' : World TState) : AMap Addr :=
  match op with
  | .evmTx c _ (.burn a) => if h.w.evm.hasCode c then h.destroyed.set c (h.destroyed.get c + a) else h.destroyed
  | .k (.registerCoin _ base _) =>
    (match env.create h.w.st.mn with
     | .ok addr => h.destroyed.set addr (w'.st.bank.get env.modAddr base - w'.evm.supply addr)
     | .error _ => h.destroyed)
  | _ => h.destroyed

def hstepW (env : Env) (cfg : Cfg) (w : World TState) : HOp → R (World TState × Resp)
  | .k op => step env (honest cfg) w op
  | .evmTx c holder call => evmTx env cfg w c holder call
  | .deploy c deployer supply =>
    match deployExternal w.evm c deployer supply with
    | some t => .ok ({ w with evm := t }, .none)
    | none => .error (.evm "contract address collision")

def hstep (env : Env) (cfg : Cfg) (h : HWorld) (op : HOp) : R (HWorld × Resp) :=
  hstepW env cfg h.w op >>= fun r => .ok ({ w := r.1, destroyed := ghostAfter env h op r.1 }, r.2)

def hexec (env : Env) (cfg : Cfg) (h : HWorld) (op : HOp) : HWorld := (deliver h (fun h => hstep env cfg h op)).1

def hrun (env : Env) (cfg : Cfg) (h : HWorld) (ops : List HOp) : HWorld := ops.foldl (hexec env cfg) h

end Token
end Erc20
end CV
