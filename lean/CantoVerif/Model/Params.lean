import CantoVerif.Base.Core
/-!
# Privileged messages and parameter stores of the Canto modules — executable model (C17).

Mirrors, *as the code is*:

* `x/{coinswap,erc20,inflation,csr,onboarding}/keeper/msg_server.go` `UpdateParams`: the authority
  comparison (`k.GetAuthority() != req.Authority`, a comparison of *strings*) comes first, then the
  message-level `Params.Validate()`, then `SetParams` → `Subspace.SetParamSet`, which walks
  `ParamSetPairs()` **in order**, runs the pair's validator, **panics** if it fails and otherwise
  writes that one field before looking at the next;
* `x/*/types/params.go`: `Validate()` and the field validators, with their nil-pointer panics
  (`LegacyDec{}`/`Int{}` carry a nil `*big.Int`; `IsNegative`, `LT`, `GT`, `IsPositive` dereference it);
* `x/erc20` `RegisterCoinProposal` / `RegisterERC20Proposal` / `ToggleTokenConversionProposal` and
  `x/govshuttle` `LendingMarketProposal` / `TreasuryProposal`: authority comparison first; what
  follows is not this model's subject and is a parameter (`Ext`: what the rest of the handler did);
* the legacy route `ParameterChangeProposal` mounted in `app.go` (`params.NewParamChangeProposalHandler`)
  reached through gov's `MsgExecLegacyContent`: gov's own authority comparison, then per change
  `GetSubspace` (error if unknown), `Subspace.Update`: key registered? (panic if not) → amino-JSON
  decoding onto the stored value (see `LVal` for what that means for absent fields) → the key's field
  validator only (error, not panic) → write.

A handler runs on a *branch* of the state (baseapp `runMsgs`, gov `safeExecuteHandler`): `HRes.st`
is the branch as the handler left it, `HRes.res` its verdict; `exec` keeps the branch only on
success.  Panics are `Rej` values.  Core Lean only.
-/
namespace CV
namespace Params

def ensure (c : Bool) (e : Rej) : R Unit := if c then .ok () else .error e

/-- LegacyDec as its integer scaled by 10^18; `none` is the nil decimal. -/
abbrev DecV := Option Int
/-- sdkmath.Int; `none` is the nil integer. -/
abbrev IntV := Option Int

/-- 10^18 as an `Int` literal (`LegacyOneDec`) -/
def one : Int := 1000000000000000000
/-- LegacyDec arithmetic panics above 315 bits -/
def decBound : Int := 66749594872528440074844428317798503581334516323645399060845050244444366430645017188217565216768   -- 2^315

def nilPanic : Rej := .panic "nil pointer dereference"

/-- reading a possibly-nil number the way `IsNegative`/`LT`/`GT`/`IsPositive` do -/
def deref (v : Option Int) : R Int :=
  match v with
  | none => .error nilPanic
  | some x => .ok x

def okB (r : R Unit) : Bool :=
  match r with
  | .ok _ => true
  | .error _ => false

/-! ## `sdk.ValidateDenom`: `[a-zA-Z][a-zA-Z0-9/:._-]{2,127}` -/

def isAlpha (c : Char) : Bool := (c ≥ 'a' && c ≤ 'z') || (c ≥ 'A' && c ≤ 'Z')
def isDenomChar (c : Char) : Bool :=
  isAlpha c || (c ≥ '0' && c ≤ '9') || c == '/' || c == ':' || c == '.' || c == '_' || c == '-'
def validDenom (d : String) : Bool :=
  match d.toList with
  | [] => false
  | c :: cs => isAlpha c && cs.all isDenomChar && 2 ≤ cs.length && cs.length ≤ 127

/-! ## parameter sets -/

structure CsP where
  fee : DecV
  pfDenom : String          -- PoolCreationFee.Denom
  pfAmt : IntV              -- PoolCreationFee.Amount
  tax : DecV
  maxStd : IntV             -- MaxStandardCoinPerPool
  maxSwap : List (String × IntV)   -- MaxSwapAmount as submitted (order, duplicates and nil amounts kept)
deriving DecidableEq, Repr

structure ErcP where
  enableErc20 : Bool
  enableEvmHook : Bool
deriving DecidableEq, Repr

structure InfP where
  mintDenom : String
  a : DecV
  r : DecV
  c : DecV
  bt : DecV                 -- BondingTarget
  mv : DecV                 -- MaxVariance
  sr : DecV                 -- InflationDistribution.StakingRewards
  cp : DecV                 -- InflationDistribution.CommunityPool
  enable : Bool
deriving DecidableEq, Repr

structure CsrP where
  enable : Bool
  shares : DecV
deriving DecidableEq, Repr

structure OnbP where
  enable : Bool
  threshold : IntV
  channels : List String
deriving DecidableEq, Repr

/-! ## field validators (`x/*/types/params.go`), guards in source order -/

/-- coinswap `validateFee` / `validateTaxRate` (and `Params.Validate`): `v.IsNegative() || !v.LT(1)` -/
def vUnit (what : String) (v : DecV) : R Unit :=
  deref v >>= fun x =>
  ensure (!(decide (x < 0) || !decide (x < one))) (.invalid what)

/-- coinswap `validatePoolCreationFee`: `v.IsNegative()` on the coin — the denomination is not looked at -/
def vPoolFee (_denom : String) (amt : IntV) : R Unit :=
  deref amt >>= fun x =>
  ensure (!decide (x < 0)) (.invalid "poolCreationFee")

/-- coinswap `validateMaxStandardCoinPerPool`: `!v.IsPositive()` -/
def vMaxStd (v : IntV) : R Unit :=
  deref v >>= fun x =>
  ensure (decide (0 < x)) (.invalid "maxStandardCoinPerPool")

/-- one coin of `sdk.Coins.Validate`: `ValidateDenom`, (order checks against the previous denom), `IsPositive` -/
def vCoin (prev : Option String) (c : String × IntV) : R Unit :=
  ensure (validDenom c.1) (.invalid "denom") >>= fun _ =>
  (match prev with
   | none => .ok ()
   | some low =>
     ensure (!decide (c.1 < low)) (.invalid "not sorted") >>= fun _ =>
     ensure (c.1 != low) (.invalid "duplicate denom")) >>= fun _ =>
  deref c.2 >>= fun x =>
  ensure (decide (0 < x)) (.invalid "amount not positive")

def vCoinsFrom : Option String → List (String × IntV) → R Unit
  | _, [] => .ok ()
  | prev, c :: cs => vCoin prev c >>= fun _ => vCoinsFrom (some c.1) cs

/-- coinswap `validateMaxSwapAmount`: `v.Validate()`; the loop after it re-checks what `Validate`
already established (valid denom, amount not negative) and is a no-op on success -/
def vMaxSwap (v : List (String × IntV)) : R Unit := vCoinsFrom none v

/-- inflation `validateMintDenom`: blank check, then `sdk.ValidateDenom` -/
def vMintDenom (v : String) : R Unit :=
  ensure (!v.toList.all Char.isWhitespace) (.invalid "blank mint denom") >>= fun _ =>
  ensure (validDenom v) (.invalid "mint denom")

/-- inflation `validateExponentialCalculation` -/
def vExp (a r c bt mv : DecV) : R Unit :=
  deref a >>= fun a => ensure (!decide (a < 0)) (.invalid "A") >>= fun _ =>
  deref r >>= fun r => ensure (!decide (r > one)) (.invalid "R>1") >>= fun _ =>
  ensure (!decide (r < 0)) (.invalid "R<0") >>= fun _ =>
  deref c >>= fun c => ensure (!decide (c < 0)) (.invalid "C") >>= fun _ =>
  deref bt >>= fun bt => ensure (!decide (bt > one)) (.invalid "bondingTarget>1") >>= fun _ =>
  ensure (decide (0 < bt)) (.invalid "bondingTarget<=0") >>= fun _ =>
  deref mv >>= fun mv => ensure (!decide (mv < 0)) (.invalid "maxVariance")

/-- inflation `validateInflationDistribution` (`Add` panics when the sum exceeds 315 bits) -/
def vDist (sr cp : DecV) : R Unit :=
  deref sr >>= fun sr => ensure (!decide (sr < 0)) (.invalid "stakingRewards") >>= fun _ =>
  deref cp >>= fun cp => ensure (!decide (cp < 0)) (.invalid "communityPool") >>= fun _ =>
  ensure (decide (sr + cp < decBound)) .overflow >>= fun _ =>
  ensure (decide (sr + cp = one)) (.invalid "total distribution")

/-- csr `ValidateShares`: `IsNil` is an error here, not a panic -/
def vShares (v : DecV) : R Unit :=
  match v with
  | none => .error (.invalid "nil shares")
  | some x =>
    ensure (!decide (x < 0)) (.invalid "shares<0") >>= fun _ =>
    ensure (!decide (x > one)) (.invalid "shares>1")

/-- onboarding `validateAutoSwapThreshold`: `v.IsNegative()` -/
def vThreshold (v : IntV) : R Unit :=
  deref v >>= fun x => ensure (!decide (x < 0)) (.invalid "threshold")

/-! ## message-level `Params.Validate()` -/

def CsP.validate (p : CsP) : R Unit := vUnit "fee" p.fee
def ErcP.validate (_ : ErcP) : R Unit := .ok ()
def InfP.validate (p : InfP) : R Unit :=
  vMintDenom p.mintDenom >>= fun _ => vExp p.a p.r p.c p.bt p.mv >>= fun _ => vDist p.sr p.cp
def CsrP.validate (p : CsrP) : R Unit := vShares p.shares
def OnbP.validate (p : OnbP) : R Unit := vThreshold p.threshold

/-! ## each module's validity rule for a *stored* set: every field validator of `ParamSetPairs` accepts -/

def CsP.valid (p : CsP) : Bool :=
  okB (vUnit "fee" p.fee) && okB (vPoolFee p.pfDenom p.pfAmt) && okB (vUnit "tax" p.tax) &&
  okB (vMaxStd p.maxStd) && okB (vMaxSwap p.maxSwap)
def InfP.valid (p : InfP) : Bool :=
  okB (vMintDenom p.mintDenom) && okB (vExp p.a p.r p.c p.bt p.mv) && okB (vDist p.sr p.cp)
def CsrP.valid (p : CsrP) : Bool := okB (vShares p.shares)
def OnbP.valid (p : OnbP) : Bool := okB (vThreshold p.threshold)

/-! ## state -/

structure State where
  cs : CsP
  erc : ErcP
  inf : InfP
  csr : CsrP
  onb : OnbP
  pairs : Nat        -- number of registered token pairs
  port : Bool        -- govshuttle port contract stored
  dg : String        -- digest of every KV store of the application
  dgx : String       -- the same without the params store
deriving DecidableEq, Repr

def State.valid (s : State) : Bool := s.cs.valid && s.inf.valid && s.csr.valid && s.onb.valid

/-- what a handler left behind on its branch, and its verdict -/
structure HRes where
  st : State
  res : R Unit

/-- `Subspace.SetParamSet`: pairs in order — validator (panic on failure), then the write of that field -/
def setParamSet : List (R Unit × (State → State)) → State → HRes
  | [], s => ⟨s, .ok ()⟩
  | (v, w) :: rest, s =>
    match v with
    | .ok _ => setParamSet rest (w s)
    | .error e => ⟨s, .error e⟩

/-- the common shape of the five `UpdateParams` handlers -/
def updateParams (gov auth : String) (validate : R Unit) (pairs : List (R Unit × (State → State))) (s : State) : HRes :=
  if auth ≠ gov then ⟨s, .error .unauthorized⟩
  else match validate with
    | .error e => ⟨s, .error e⟩
    | .ok _ => setParamSet pairs s

/-! ### `ParamSetPairs()` of each module, in source order -/

def csPairs (p : CsP) : List (R Unit × (State → State)) :=
  [ (vUnit "fee" p.fee, fun s => { s with cs := { s.cs with fee := p.fee } }),
    (vPoolFee p.pfDenom p.pfAmt, fun s => { s with cs := { s.cs with pfDenom := p.pfDenom, pfAmt := p.pfAmt } }),
    (vUnit "tax" p.tax, fun s => { s with cs := { s.cs with tax := p.tax } }),
    (vMaxStd p.maxStd, fun s => { s with cs := { s.cs with maxStd := p.maxStd } }),
    (vMaxSwap p.maxSwap, fun s => { s with cs := { s.cs with maxSwap := p.maxSwap } }) ]

def ercPairs (p : ErcP) : List (R Unit × (State → State)) :=
  [ (.ok (), fun s => { s with erc := { s.erc with enableErc20 := p.enableErc20 } }),
    (.ok (), fun s => { s with erc := { s.erc with enableEvmHook := p.enableEvmHook } }) ]

def infPairs (p : InfP) : List (R Unit × (State → State)) :=
  [ (vMintDenom p.mintDenom, fun s => { s with inf := { s.inf with mintDenom := p.mintDenom } }),
    (vExp p.a p.r p.c p.bt p.mv, fun s => { s with inf := { s.inf with a := p.a, r := p.r, c := p.c, bt := p.bt, mv := p.mv } }),
    (vDist p.sr p.cp, fun s => { s with inf := { s.inf with sr := p.sr, cp := p.cp } }),
    (.ok (), fun s => { s with inf := { s.inf with enable := p.enable } }) ]

def csrPairs (p : CsrP) : List (R Unit × (State → State)) :=
  [ (.ok (), fun s => { s with csr := { s.csr with enable := p.enable } }),
    (vShares p.shares, fun s => { s with csr := { s.csr with shares := p.shares } }) ]

def onbPairs (p : OnbP) : List (R Unit × (State → State)) :=
  [ (.ok (), fun s => { s with onb := { s.onb with enable := p.enable } }),
    (vThreshold p.threshold, fun s => { s with onb := { s.onb with threshold := p.threshold } }),
    (.ok (), fun s => { s with onb := { s.onb with channels := p.channels } }) ]

/-! ## the legacy route -/

/-- a `ParamChange.Value` after amino-JSON decoding for the type registered for its key; `bad` = does
not decode.  `Subspace.Update` decodes onto the *stored* value and go-amino resets a field that is absent
from a JSON object to its zero value unless the field is tagged `omitempty`: absent numbers are nil
(`Coin.amount`, every field of `ExponentialCalculation` / `InflationDistribution`), an absent
`Coin.denom` (tagged `omitempty`) keeps the stored denomination. -/
inductive LVal where
  | dec (v : Int)
  | int (v : Int)
  | bool (b : Bool)
  | str (s : String)
  | strs (l : List String)
  | coin (denom : Option String) (amt : IntV)
  | coins (l : List (String × Int))
  | exp (a r c bt mv : DecV)
  | dist (sr cp : DecV)
  | bad
deriving DecidableEq, Repr

structure Change where
  sub : String
  key : String
  val : LVal
deriving DecidableEq, Repr

def badJson : Rej := .invalid "json"
def notRegistered : Rej := .panic "parameter not registered"

/-- validate-then-write of one key (`Subspace.Update` after decoding) -/
def upd (s : State) (v : R Unit) (w : State → State) : HRes :=
  match v with
  | .ok _ => ⟨w s, .ok ()⟩
  | .error e => ⟨s, .error e⟩

def reject (s : State) (e : Rej) : HRes := ⟨s, .error e⟩

/-- `handleParameterChangeProposal` for one change: `GetSubspace`, then `Subspace.Update` -/
def updateKey (s : State) (c : Change) : HRes :=
  if c.sub = "coinswap" then
    if c.key = "Fee" then
      match c.val with
      | .dec v => upd s (vUnit "fee" (some v)) (fun s => { s with cs := { s.cs with fee := some v } })
      | _ => reject s badJson
    else if c.key = "PoolCreationFee" then
      match c.val with
      | .coin d a => upd s (vPoolFee (d.getD s.cs.pfDenom) a) (fun s => { s with cs := { s.cs with pfDenom := d.getD s.cs.pfDenom, pfAmt := a } })
      | _ => reject s badJson
    else if c.key = "TaxRate" then
      match c.val with
      | .dec v => upd s (vUnit "tax" (some v)) (fun s => { s with cs := { s.cs with tax := some v } })
      | _ => reject s badJson
    else if c.key = "MaxStandardCoinPerPool" then
      match c.val with
      | .int v => upd s (vMaxStd (some v)) (fun s => { s with cs := { s.cs with maxStd := some v } })
      | _ => reject s badJson
    else if c.key = "MaxSwapAmount" then
      match c.val with
      | .coins l =>
        let l' : List (String × IntV) := l.map (fun p => (p.1, some p.2))
        upd s (vMaxSwap l') (fun s => { s with cs := { s.cs with maxSwap := l' } })
      | _ => reject s badJson
    else reject s notRegistered
  else if c.sub = "erc20" then
    if c.key = "EnableErc20" then
      match c.val with
      | .bool b => upd s (.ok ()) (fun s => { s with erc := { s.erc with enableErc20 := b } })
      | _ => reject s badJson
    else if c.key = "EnableEVMHook" then
      match c.val with
      | .bool b => upd s (.ok ()) (fun s => { s with erc := { s.erc with enableEvmHook := b } })
      | _ => reject s badJson
    else reject s notRegistered
  else if c.sub = "inflation" then
    if c.key = "ParamStoreKeyMintDenom" then
      match c.val with
      | .str d => upd s (vMintDenom d) (fun s => { s with inf := { s.inf with mintDenom := d } })
      | _ => reject s badJson
    else if c.key = "ParamStoreKeyExponentialCalculation" then
      match c.val with
      | .exp a r c' bt mv => upd s (vExp a r c' bt mv) (fun s => { s with inf := { s.inf with a := a, r := r, c := c', bt := bt, mv := mv } })
      | _ => reject s badJson
    else if c.key = "ParamStoreKeyInflationDistribution" then
      match c.val with
      | .dist sr cp => upd s (vDist sr cp) (fun s => { s with inf := { s.inf with sr := sr, cp := cp } })
      | _ => reject s badJson
    else if c.key = "ParamStoreKeyEnableInflation" then
      match c.val with
      | .bool b => upd s (.ok ()) (fun s => { s with inf := { s.inf with enable := b } })
      | _ => reject s badJson
    else reject s notRegistered
  else if c.sub = "csr" then
    if c.key = "EnableCSR" then
      match c.val with
      | .bool b => upd s (.ok ()) (fun s => { s with csr := { s.csr with enable := b } })
      | _ => reject s badJson
    else if c.key = "CSRShares" then
      match c.val with
      | .dec v => upd s (vShares (some v)) (fun s => { s with csr := { s.csr with shares := some v } })
      | _ => reject s badJson
    else reject s notRegistered
  else if c.sub = "onboarding" then
    if c.key = "EnableOnboarding" then
      match c.val with
      | .bool b => upd s (.ok ()) (fun s => { s with onb := { s.onb with enable := b } })
      | _ => reject s badJson
    else if c.key = "AutoSwapThreshold" then
      match c.val with
      | .int v => upd s (vThreshold (some v)) (fun s => { s with onb := { s.onb with threshold := some v } })
      | _ => reject s badJson
    else if c.key = "WhitelistedChannels" then
      match c.val with
      | .strs l => upd s (.ok ()) (fun s => { s with onb := { s.onb with channels := l } })
      | _ => reject s badJson
    else reject s notRegistered
  else if c.sub = "govshuttle" then reject s notRegistered     -- registered subspace with an empty key table
  else reject s (.notFound "subspace")   -- any other name (the subspaces of the SDK modules are outside this model)

/-- the changes of one proposal are applied in order; the first failure stops the handler -/
def applyChanges : List Change → State → HRes
  | [], s => ⟨s, .ok ()⟩
  | c :: cs, s =>
    match updateKey s c with
    | ⟨s', .ok _⟩ => applyChanges cs s'
    | r => r

/-! ## operations -/

/-- the privileged messages whose body (after the authority comparison) is other suites' subject -/
inductive PrivKind where
  | registerCoin | registerERC20 | toggleConversion | lendingMarket | treasury
deriving DecidableEq, Repr

inductive Op where
  | updCs (auth : String) (p : CsP)
  | updErc (auth : String) (p : ErcP)
  | updInf (auth : String) (p : InfP)
  | updCsr (auth : String) (p : CsrP)
  | updOnb (auth : String) (p : OnbP)
  | priv (kind : PrivKind) (auth : String)
  | legacy (auth : String) (changes : List Change)
deriving Repr

def Op.auth : Op → String
  | .updCs a _ => a | .updErc a _ => a | .updInf a _ => a | .updCsr a _ => a | .updOnb a _ => a
  | .priv _ a => a | .legacy a _ => a

/-- what is not modelled and therefore a parameter: the digests after a write, and for the five
registration / govshuttle handlers everything they do after the authority comparison -/
structure Ext where
  ok : Bool
  pairs : Nat
  port : Bool
  dg : String
  dgx : String
deriving Repr

/-- a parameter write changes the store digest to whatever the hash function says (`x.dg`);
nothing outside the params store moves -/
def redigest (x : Ext) (pre : State) (r : HRes) : HRes :=
  { r with st := if r.st = pre then r.st else { r.st with dg := x.dg } }

/-- one handler on its branch -/
def handle (gov : String) (x : Ext) (s : State) : Op → HRes
  | .updCs auth p => redigest x s (updateParams gov auth p.validate (csPairs p) s)
  | .updErc auth p => redigest x s (updateParams gov auth p.validate (ercPairs p) s)
  | .updInf auth p => redigest x s (updateParams gov auth p.validate (infPairs p) s)
  | .updCsr auth p => redigest x s (updateParams gov auth p.validate (csrPairs p) s)
  | .updOnb auth p => redigest x s (updateParams gov auth p.validate (onbPairs p) s)
  | .priv _ auth =>
    if auth ≠ gov then ⟨s, .error .unauthorized⟩
    else ⟨{ s with pairs := x.pairs, port := x.port, dg := x.dg, dgx := x.dgx },
          if x.ok then .ok () else .error (.evm "handler body")⟩
  | .legacy auth cs =>
    if auth ≠ gov then ⟨s, .error .unauthorized⟩
    else redigest x s (applyChanges cs s)

/-- the transaction discipline: the branch is kept only when the handler succeeded -/
def exec (gov : String) (x : Ext) (s : State) (op : Op) : State :=
  let r := handle gov x s op
  match r.res with
  | .ok _ => r.st
  | .error _ => s

def accepted (gov : String) (x : Ext) (s : State) (op : Op) : Bool := okB (handle gov x s op).res

/-- any sequence of attempted operations, each with whatever the un-modelled parts answer -/
def run (gov : String) (s : State) (ops : List (Ext × Op)) : State :=
  ops.foldl (fun s xo => exec gov xo.1 s xo.2) s

/-- the genesis defaults (`DefaultParams()` of each module) -/
def defaults : State :=
  { cs := { fee := some 0, pfDenom := "stake", pfAmt := some 0, tax := some 0, maxStd := some 10000000000000000000000,
            maxSwap := [("ibc/17CD484EE7D9723B847D95015FA3EBD1572FD13BC84FB838F55B18A57450F25B", some 10000000),
                        ("ibc/4F6A2DEFEA52CD8D90966ADCB2BD0593D3993AB0DF7F6AEB3EFD6167D79237B0", some 10000000),
                        ("ibc/DC186CA7A8C009B43774EBDC825C935CABA9743504CE6037507E6E5CCE12858A", some 10000000000000000)] },
    erc := { enableErc20 := true, enableEvmHook := true },
    inf := { mintDenom := "acanto", a := some 16304348000000000000000000, r := some 350000000000000000, c := some 0,
             bt := some 800000000000000000, mv := some 0, sr := some 1000000000000000000, cp := some 0, enable := false },
    csr := { enable := false, shares := some 200000000000000000 },
    onb := { enable := true, threshold := some 4000000000000000000, channels := ["channel-0"] },
    pairs := 0, port := false, dg := "", dgx := "" }

end Params
end CV
