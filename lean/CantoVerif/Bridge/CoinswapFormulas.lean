import CantoVerif.Gen.CoinswapFormulas
import CantoVerif.Model.Coinswap
/-!
# Bridge: the arithmetic kernels regenerated from `/repo` by `factx` ARE the model's kernels.

Each theorem is `rfl`: the term the translator printed from the Go source is, binder names aside,
the term the property theorems are about.  A change to a formula in the code changes the generated
file and the corresponding theorem no longer checks.
-/
namespace CV.Bridge.Coinswap
open CV CV.Coinswap

theorem inputPrice_bridge : @Gen.Coinswap.inputPrice = @Coinswap.inputPrice := rfl
theorem outputPrice_bridge : @Gen.Coinswap.outputPrice = @Coinswap.outputPrice := rfl
theorem addLiveAmounts_bridge : @Gen.Coinswap.addLiveAmounts = @Coinswap.addLiveAmounts := rfl
theorem removeAmounts_bridge : @Gen.Coinswap.removeAmounts = @Coinswap.removeAmounts := rfl
theorem poolTax_bridge : @Gen.Coinswap.poolTax = @Coinswap.poolTax := rfl

end CV.Bridge.Coinswap
