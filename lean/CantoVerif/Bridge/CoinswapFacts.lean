import CantoVerif.Gen.CoinswapFacts
/-!
# Bridge: structure of the coinswap code as the model assumes it.

For every function the model mirrors: its guard conditions in source order, the calls it makes
(bank keeper, sub-functions, validators) and its assignments / returns, as source text regenerated
by `factx` from `/repo` on every run, equal to the reviewed expectation below.  The expectations were
reviewed against `Model/Coinswap.lean` line by line; an edit to a guard (`GT`→`GTE`, a dropped `!`),
to the order or arguments of the bank calls, or to an amount expression makes the matching theorem
fail — deterministically, without waiting for the generator to land on the boundary.  The check
then searches for a failing input with more seeds.
-/
namespace CV.Bridge.CoinswapFacts
open CV

theorem msgAddLiquidity_guards : Gen.Coinswap.msgAddLiquidity_guards = [
    "err: err := types.ValidateMaxToken(msg.MaxToken)",
    "err: err := types.ValidateExactStandardAmt(msg.ExactStandardAmt)",
    "err: err := types.ValidateMinLiquidity(msg.MinLiquidity)",
    "err: err := types.ValidateDeadline(msg.Deadline)",
    "err: _, err := sdk.AccAddressFromBech32(msg.Sender)",
    "ctx.BlockHeader().Time.After(time.Unix(msg.Deadline, 0))"] := rfl
theorem msgAddLiquidity_calls : Gen.Coinswap.msgAddLiquidity_calls = [
    "types.ValidateMaxToken(msg.MaxToken)",
    "types.ValidateExactStandardAmt(msg.ExactStandardAmt)",
    "types.ValidateMinLiquidity(msg.MinLiquidity)",
    "types.ValidateDeadline(msg.Deadline)",
    "sdk.AccAddressFromBech32(msg.Sender)",
    "m.Keeper.AddLiquidity(ctx, msg)"] := rfl
theorem msgAddLiquidity_stmts : Gen.Coinswap.msgAddLiquidity_stmts = [
    "return nil, err",
    "return nil, err",
    "return nil, err",
    "return nil, err",
    "_, err := sdk.AccAddressFromBech32(msg.Sender)",
    "return nil, errorsmod.Wrapf(sdkerrors.ErrInvalidAddress, \"invalid sender address (%s)\", err)",
    "ctx := sdk.UnwrapSDKContext(goCtx)",
    "return nil, errorsmod.Wrap(types.ErrInvalidDeadline, \"deadline has passed for MsgAddLiquidity\")",
    "mintToken, err := m.Keeper.AddLiquidity(ctx, msg)",
    "return nil, err",
    "return &types.MsgAddLiquidityResponse{ MintToken: &mintToken, }, nil"] := rfl

theorem msgRemoveLiquidity_guards : Gen.Coinswap.msgRemoveLiquidity_guards = [
    "err: err := types.ValidateMinToken(msg.MinToken)",
    "err: err := types.ValidateWithdrawLiquidity(msg.WithdrawLiquidity)",
    "err: err := types.ValidateMinStandardAmt(msg.MinStandardAmt)",
    "err: err := types.ValidateDeadline(msg.Deadline)",
    "err: _, err := sdk.AccAddressFromBech32(msg.Sender)",
    "ctx.BlockHeader().Time.After(time.Unix(msg.Deadline, 0))"] := rfl
theorem msgRemoveLiquidity_calls : Gen.Coinswap.msgRemoveLiquidity_calls = [
    "types.ValidateMinToken(msg.MinToken)",
    "types.ValidateWithdrawLiquidity(msg.WithdrawLiquidity)",
    "types.ValidateMinStandardAmt(msg.MinStandardAmt)",
    "types.ValidateDeadline(msg.Deadline)",
    "sdk.AccAddressFromBech32(msg.Sender)",
    "m.Keeper.RemoveLiquidity(ctx, msg)"] := rfl
theorem msgRemoveLiquidity_stmts : Gen.Coinswap.msgRemoveLiquidity_stmts = [
    "return nil, err",
    "return nil, err",
    "return nil, err",
    "return nil, err",
    "_, err := sdk.AccAddressFromBech32(msg.Sender)",
    "return nil, errorsmod.Wrapf(sdkerrors.ErrInvalidAddress, \"invalid sender address (%s)\", err)",
    "ctx := sdk.UnwrapSDKContext(goCtx)",
    "return nil, errorsmod.Wrap(types.ErrInvalidDeadline, \"deadline has passed for MsgRemoveLiquidity\")",
    "withdrawCoins, err := m.Keeper.RemoveLiquidity(ctx, msg)",
    "return nil, err",
    "coin := coin",
    "coins = append(coins, &coin)",
    "return &types.MsgRemoveLiquidityResponse{ WithdrawCoins: coins, }, nil"] := rfl

theorem msgSwapCoin_guards : Gen.Coinswap.msgSwapCoin_guards = [
    "err: err := types.ValidateInput(msg.Input)",
    "err: err := types.ValidateOutput(msg.Output)",
    "msg.Input.Coin.Denom == msg.Output.Coin.Denom",
    "err: err := types.ValidateDeadline(msg.Deadline)",
    "ctx.BlockHeader().Time.After(time.Unix(msg.Deadline, 0))",
    "m.Keeper.blockedAddrs[outputAddr.String()]",
    "err: err := m.Keeper.Swap(ctx, msg)"] := rfl
theorem msgSwapCoin_calls : Gen.Coinswap.msgSwapCoin_calls = [
    "types.ValidateInput(msg.Input)",
    "types.ValidateOutput(msg.Output)",
    "types.ValidateDeadline(msg.Deadline)",
    "sdk.AccAddressFromBech32(msg.Output.Address)",
    "m.Keeper.Swap(ctx, msg)"] := rfl
theorem msgSwapCoin_stmts : Gen.Coinswap.msgSwapCoin_stmts = [
    "return nil, err",
    "return nil, err",
    "return nil, errorsmod.Wrap(types.ErrEqualDenom, \"invalid swap\")",
    "return nil, err",
    "ctx := sdk.UnwrapSDKContext(goCtx)",
    "return nil, errorsmod.Wrap(types.ErrInvalidDeadline, \"deadline has passed for MsgSwapOrder\")",
    "outputAddr, err := sdk.AccAddressFromBech32(msg.Output.Address)",
    "return nil, errorsmod.Wrapf(sdkerrors.ErrInvalidAddress, \"invalid output address (%s)\", err)",
    "return nil, errorsmod.Wrapf(sdkerrors.ErrUnauthorized, \"%s is not allowed to receive external funds\", msg.Output.Address)",
    "return nil, err",
    "return &types.MsgSwapCoinResponse{}, nil"] := rfl

theorem swap_guards : Gen.Coinswap.swap_guards = [
    "isDoubleSwap",
    "msg.IsBuyOrder"] := rfl
theorem swap_calls : Gen.Coinswap.swap_calls = [
    "k.GetStandardDenom(ctx)",
    "k.TradeInputForExactOutput(ctx, msg.Input, msg.Output)",
    "k.TradeExactInputForOutput(ctx, msg.Input, msg.Output)",
    "types.GetTokenPairByDenom(msg.Input.Coin.Denom, msg.Output.Coin.Denom)"] := rfl
theorem swap_stmts : Gen.Coinswap.swap_stmts = [
    "standardDenom, err := k.GetStandardDenom(ctx)",
    "return err",
    "isDoubleSwap := (msg.Input.Coin.Denom != standardDenom) && (msg.Output.Coin.Denom != standardDenom)",
    "return errorsmod.Wrapf(types.ErrNotContainStandardDenom, \"unsupported swap: standard coin must be in either Input or Output\")",
    "amount, err = k.TradeInputForExactOutput(ctx, msg.Input, msg.Output)",
    "amount, err = k.TradeExactInputForOutput(ctx, msg.Input, msg.Output)",
    "return err",
    "return nil"] := rfl

theorem addLiquidity_guards : Gen.Coinswap.addLiquidity_guards = [
    "standardDenom == msg.MaxToken.Denom",
    "!params.MaxSwapAmount.AmountOf(msg.MaxToken.Denom).IsPositive()",
    "!exists",
    "err: err := k.DeductPoolCreationFee(ctx, sender)",
    "mintLiquidityAmt.GT(params.MaxStandardCoinPerPool)",
    "mintLiquidityAmt.LT(msg.MinLiquidity)",
    "liquidity.Equal(sdkmath.ZeroInt())",
    "mintLiquidityAmt.GT(params.MaxStandardCoinPerPool)",
    "mintLiquidityAmt.LT(msg.MinLiquidity)",
    "standardReserveAmt.GTE(params.MaxStandardCoinPerPool)",
    "mintLiquidityAmt.LT(msg.MinLiquidity)",
    "depositAmt.GT(msg.MaxToken.Amount)"] := rfl
theorem addLiquidity_calls : Gen.Coinswap.addLiquidity_calls = [
    "k.GetStandardDenom(ctx)",
    "k.GetParams(ctx)",
    "sdk.NewCoin(standardDenom, msg.ExactStandardAmt)",
    "types.GetPoolId(msg.MaxToken.Denom)",
    "k.GetPool(ctx, poolId)",
    "sdk.AccAddressFromBech32(msg.Sender)",
    "k.DeductPoolCreationFee(ctx, sender)",
    "sdk.NewCoin(msg.MaxToken.Denom, msg.MaxToken.Amount)",
    "k.CreatePool(ctx, msg.MaxToken.Denom)",
    "k.GetPoolBalances(ctx, pool.EscrowAddress)",
    "k.bk.GetSupply(ctx, pool.LptDenom)",
    "sdk.NewCoin(msg.MaxToken.Denom, msg.MaxToken.Amount)",
    "sdk.NewCoin(msg.MaxToken.Denom, depositAmt)",
    "sdk.NewCoin(standardDenom, maxStandardInputAmt)",
    "sdk.AccAddressFromBech32(pool.EscrowAddress)",
    "types.GetTokenPairByDenom(msg.MaxToken.Denom, standardDenom)",
    "k.addLiquidity(ctx, sender, reservePoolAddress, standardCoin, depositToken, pool.LptDenom, mintLiquidityAmt)"] := rfl
theorem addLiquidity_stmts : Gen.Coinswap.addLiquidity_stmts = [
    "standardDenom, err := k.GetStandardDenom(ctx)",
    "return sdk.Coin{}, err",
    "return sdk.Coin{}, errorsmod.Wrapf(types.ErrInvalidDenom, \"MaxToken: %s should not be StandardDenom\", msg.MaxToken.String())",
    "params := k.GetParams(ctx)",
    "return sdk.Coin{}, errorsmod.Wrapf(types.ErrInvalidDenom, \"MaxToken %s is not registered in max swap amount\", msg.MaxToken.Denom)",
    "poolId := types.GetPoolId(msg.MaxToken.Denom)",
    "pool, exists := k.GetPool(ctx, poolId)",
    "sender, err := sdk.AccAddressFromBech32(msg.Sender)",
    "return sdk.Coin{}, err",
    "return sdk.Coin{}, err",
    "mintLiquidityAmt = msg.ExactStandardAmt",
    "return sdk.Coin{}, errorsmod.Wrap(types.ErrMaxedStandardDenom, fmt.Sprintf(\"liquidity amount not met, max standard coin amount: no bigger than %s, actual: %s\", params.MaxStandardCoinPerPool.String(), mintLiquidityAmt.String()))",
    "return sdk.Coin{}, errorsmod.Wrap(types.ErrConstraintNotMet, fmt.Sprintf(\"liquidity amount not met, user expected: no less than %s, actual: %s\", msg.MinLiquidity.String(), mintLiquidityAmt.String()))",
    "depositToken = sdk.NewCoin(msg.MaxToken.Denom, msg.MaxToken.Amount)",
    "pool = k.CreatePool(ctx, msg.MaxToken.Denom)",
    "balances, err := k.GetPoolBalances(ctx, pool.EscrowAddress)",
    "return sdk.Coin{}, err",
    "standardReserveAmt := balances.AmountOf(standardDenom)",
    "tokenReserveAmt := balances.AmountOf(msg.MaxToken.Denom)",
    "liquidity := k.bk.GetSupply(ctx, pool.LptDenom).Amount",
    "mintLiquidityAmt = msg.ExactStandardAmt",
    "return sdk.Coin{}, errorsmod.Wrap(types.ErrMaxedStandardDenom, fmt.Sprintf(\"liquidity amount not met, max standard coin amount: no bigger than %s, actual: %s\", params.MaxStandardCoinPerPool.String(), mintLiquidityAmt.String()))",
    "return sdk.Coin{}, errorsmod.Wrap(types.ErrConstraintNotMet, fmt.Sprintf(\"liquidity amount not met, user expected: no less than %s, actual: %s\", msg.MinLiquidity.String(), mintLiquidityAmt.String()))",
    "depositToken = sdk.NewCoin(msg.MaxToken.Denom, msg.MaxToken.Amount)",
    "return sdk.Coin{}, errorsmod.Wrap(types.ErrMaxedStandardDenom, fmt.Sprintf(\"pool standard coin is maxed out: %s\", params.MaxStandardCoinPerPool.String()))",
    "maxStandardInputAmt := sdkmath.MinInt(msg.ExactStandardAmt, params.MaxStandardCoinPerPool.Sub(standardReserveAmt))",
    "mintLiquidityAmt = (liquidity.Mul(maxStandardInputAmt)).Quo(standardReserveAmt)",
    "return sdk.Coin{}, errorsmod.Wrap(types.ErrConstraintNotMet, fmt.Sprintf(\"liquidity amount not met, user expected: no less than %s, actual: %s\", msg.MinLiquidity.String(), mintLiquidityAmt.String()))",
    "depositAmt := (tokenReserveAmt.Mul(maxStandardInputAmt)).Quo(standardReserveAmt).AddRaw(1)",
    "depositToken = sdk.NewCoin(msg.MaxToken.Denom, depositAmt)",
    "standardCoin = sdk.NewCoin(standardDenom, maxStandardInputAmt)",
    "return sdk.Coin{}, errorsmod.Wrap(types.ErrConstraintNotMet, fmt.Sprintf(\"token amount not met, user expected: no more than %s, actual: %s\", msg.MaxToken.String(), depositToken.String()))",
    "reservePoolAddress, err := sdk.AccAddressFromBech32(pool.EscrowAddress)",
    "return sdk.Coin{}, err",
    "return k.addLiquidity(ctx, sender, reservePoolAddress, standardCoin, depositToken, pool.LptDenom, mintLiquidityAmt)"] := rfl

theorem addLiquidityInner_guards : Gen.Coinswap.addLiquidityInner_guards = [
    "err: err := k.bk.SendCoins(ctx, sender, reservePoolAddress, depositedTokens)",
    "err: err := k.bk.MintCoins(ctx, types.ModuleName, mintTokens)",
    "err: err := k.bk.SendCoinsFromModuleToAccount(ctx, types.ModuleName, sender, mintTokens)"] := rfl
theorem addLiquidityInner_calls : Gen.Coinswap.addLiquidityInner_calls = [
    "sdk.NewCoins(standardCoin, token)",
    "k.bk.SendCoins(ctx, sender, reservePoolAddress, depositedTokens)",
    "sdk.NewCoin(lptDenom, mintLiquidityAmt)",
    "sdk.NewCoins(mintToken)",
    "k.bk.MintCoins(ctx, types.ModuleName, mintTokens)",
    "k.bk.SendCoinsFromModuleToAccount(ctx, types.ModuleName, sender, mintTokens)"] := rfl
theorem addLiquidityInner_stmts : Gen.Coinswap.addLiquidityInner_stmts = [
    "depositedTokens := sdk.NewCoins(standardCoin, token)",
    "return sdk.Coin{}, err",
    "mintToken := sdk.NewCoin(lptDenom, mintLiquidityAmt)",
    "mintTokens := sdk.NewCoins(mintToken)",
    "return sdk.Coin{}, err",
    "return sdk.Coin{}, err",
    "return mintToken, nil"] := rfl

theorem removeLiquidity_guards : Gen.Coinswap.removeLiquidity_guards = [
    "!exists",
    "standardReserveAmt.LT(msg.MinStandardAmt)",
    "tokenReserveAmt.LT(msg.MinToken)",
    "liquidityReserve.LT(msg.WithdrawLiquidity.Amount)",
    "standardWithdrawCoin.Amount.LT(msg.MinStandardAmt)",
    "tokenWithdrawCoin.Amount.LT(msg.MinToken)"] := rfl
theorem removeLiquidity_calls : Gen.Coinswap.removeLiquidity_calls = [
    "k.GetStandardDenom(ctx)",
    "k.GetPoolByLptDenom(ctx, msg.WithdrawLiquidity.Denom)",
    "k.GetPoolBalances(ctx, pool.EscrowAddress)",
    "k.bk.GetSupply(ctx, lptDenom)",
    "sdk.NewCoin(standardDenom, standardWithdrawAmt)",
    "sdk.NewCoin(minTokenDenom, tokenWithdrawnAmt)",
    "sdk.NewCoin(standardDenom, msg.MinStandardAmt).String()",
    "sdk.NewCoin(standardDenom, msg.MinStandardAmt)",
    "sdk.NewCoin(minTokenDenom, msg.MinToken).String()",
    "sdk.NewCoin(minTokenDenom, msg.MinToken)",
    "types.GetTokenPairByDenom(minTokenDenom, standardDenom)",
    "sdk.AccAddressFromBech32(msg.Sender)",
    "sdk.AccAddressFromBech32(pool.EscrowAddress)",
    "k.removeLiquidity(ctx, poolAddr, sender, deductUniCoin, standardWithdrawCoin, tokenWithdrawCoin)"] := rfl
theorem removeLiquidity_stmts : Gen.Coinswap.removeLiquidity_stmts = [
    "standardDenom, err := k.GetStandardDenom(ctx)",
    "return nil, err",
    "pool, exists := k.GetPoolByLptDenom(ctx, msg.WithdrawLiquidity.Denom)",
    "return nil, errorsmod.Wrapf(types.ErrReservePoolNotExists, \"liquidity pool token: %s\", msg.WithdrawLiquidity.Denom)",
    "balances, err := k.GetPoolBalances(ctx, pool.EscrowAddress)",
    "return nil, err",
    "lptDenom := msg.WithdrawLiquidity.Denom",
    "minTokenDenom := pool.CounterpartyDenom",
    "standardReserveAmt := balances.AmountOf(standardDenom)",
    "tokenReserveAmt := balances.AmountOf(minTokenDenom)",
    "liquidityReserve := k.bk.GetSupply(ctx, lptDenom).Amount",
    "return nil, errorsmod.Wrap(types.ErrInsufficientFunds, fmt.Sprintf(\"insufficient %s funds, user expected: %s, actual: %s\", standardDenom, msg.MinStandardAmt.String(), standardReserveAmt.String()))",
    "return nil, errorsmod.Wrap(types.ErrInsufficientFunds, fmt.Sprintf(\"insufficient %s funds, user expected: %s, actual: %s\", minTokenDenom, msg.MinToken.String(), tokenReserveAmt.String()))",
    "return nil, errorsmod.Wrap(types.ErrInsufficientFunds, fmt.Sprintf(\"insufficient %s funds, user expected: %s, actual: %s\", lptDenom, msg.WithdrawLiquidity.Amount.String(), liquidityReserve.String()))",
    "standardWithdrawAmt := msg.WithdrawLiquidity.Amount.Mul(standardReserveAmt).Quo(liquidityReserve)",
    "tokenWithdrawnAmt := msg.WithdrawLiquidity.Amount.Mul(tokenReserveAmt).Quo(liquidityReserve)",
    "standardWithdrawCoin := sdk.NewCoin(standardDenom, standardWithdrawAmt)",
    "tokenWithdrawCoin := sdk.NewCoin(minTokenDenom, tokenWithdrawnAmt)",
    "deductUniCoin := msg.WithdrawLiquidity",
    "return nil, errorsmod.Wrap(types.ErrConstraintNotMet, fmt.Sprintf(\"standard coin amount not met, user expected: no less than %s, actual: %s\", sdk.NewCoin(standardDenom, msg.MinStandardAmt).String(), standardWithdrawCoin.String()))",
    "return nil, errorsmod.Wrap(types.ErrConstraintNotMet, fmt.Sprintf(\"token amount not met, user expected: no less than %s, actual: %s\", sdk.NewCoin(minTokenDenom, msg.MinToken).String(), tokenWithdrawCoin.String()))",
    "sender, err := sdk.AccAddressFromBech32(msg.Sender)",
    "return nil, err",
    "poolAddr, err := sdk.AccAddressFromBech32(pool.EscrowAddress)",
    "return nil, err",
    "return k.removeLiquidity(ctx, poolAddr, sender, deductUniCoin, standardWithdrawCoin, tokenWithdrawCoin)"] := rfl

theorem removeLiquidityInner_guards : Gen.Coinswap.removeLiquidityInner_guards = [
    "err: err := k.bk.SendCoinsFromAccountToModule(ctx, sender, types.ModuleName, deltaCoins)",
    "err: err := k.bk.BurnCoins(ctx, types.ModuleName, deltaCoins)"] := rfl
theorem removeLiquidityInner_calls : Gen.Coinswap.removeLiquidityInner_calls = [
    "sdk.NewCoins(deductUniCoin)",
    "k.bk.SendCoinsFromAccountToModule(ctx, sender, types.ModuleName, deltaCoins)",
    "k.bk.BurnCoins(ctx, types.ModuleName, deltaCoins)",
    "sdk.NewCoins(standardWithdrawCoin, tokenWithdrawCoin)",
    "k.bk.SendCoins(ctx, poolAddr, sender, coins)"] := rfl
theorem removeLiquidityInner_stmts : Gen.Coinswap.removeLiquidityInner_stmts = [
    "deltaCoins := sdk.NewCoins(deductUniCoin)",
    "return nil, err",
    "return nil, err",
    "coins := sdk.NewCoins(standardWithdrawCoin, tokenWithdrawCoin)",
    "return coins, k.bk.SendCoins(ctx, poolAddr, sender, coins)"] := rfl

theorem swapCoins_guards : Gen.Coinswap.swapCoins_guards = [
    "err: err := k.bk.SendCoins(ctx, sender, poolAddr, sdk.NewCoins(coinSold))",
    "recipient.Empty()"] := rfl
theorem swapCoins_calls : Gen.Coinswap.swapCoins_calls = [
    "k.GetLptDenomFromDenoms(ctx, coinSold.Denom, coinBought.Denom)",
    "types.GetReservePoolAddr(lptDenom)",
    "k.bk.SendCoins(ctx, sender, poolAddr, sdk.NewCoins(coinSold))",
    "sdk.NewCoins(coinSold)",
    "k.bk.SendCoins(ctx, poolAddr, recipient, sdk.NewCoins(coinBought))",
    "sdk.NewCoins(coinBought)"] := rfl
theorem swapCoins_stmts : Gen.Coinswap.swapCoins_stmts = [
    "lptDenom, err := k.GetLptDenomFromDenoms(ctx, coinSold.Denom, coinBought.Denom)",
    "return err",
    "poolAddr := types.GetReservePoolAddr(lptDenom)",
    "return err",
    "recipient = sender",
    "return k.bk.SendCoins(ctx, poolAddr, recipient, sdk.NewCoins(coinBought))"] := rfl

theorem calculateWithExactInput_guards : Gen.Coinswap.calculateWithExactInput_guards = [
    "!inputReserve.IsPositive()",
    "!outputReserve.IsPositive()"] := rfl
theorem calculateWithExactInput_calls : Gen.Coinswap.calculateWithExactInput_calls = [
    "k.GetLptDenomFromDenoms(ctx, exactSoldCoin.Denom, boughtTokenDenom)",
    "types.GetReservePoolAddr(lptDenom).String()",
    "types.GetReservePoolAddr(lptDenom)",
    "k.GetPoolBalances(ctx, reservePoolAddress)",
    "k.GetParams(ctx)"] := rfl
theorem calculateWithExactInput_stmts : Gen.Coinswap.calculateWithExactInput_stmts = [
    "lptDenom, err := k.GetLptDenomFromDenoms(ctx, exactSoldCoin.Denom, boughtTokenDenom)",
    "return sdkmath.ZeroInt(), err",
    "reservePoolAddress := types.GetReservePoolAddr(lptDenom).String()",
    "reservePool, err := k.GetPoolBalances(ctx, reservePoolAddress)",
    "return sdkmath.ZeroInt(), err",
    "inputReserve := reservePool.AmountOf(exactSoldCoin.Denom)",
    "outputReserve := reservePool.AmountOf(boughtTokenDenom)",
    "return sdkmath.ZeroInt(), errorsmod.Wrap(types.ErrInsufficientFunds, fmt.Sprintf(\"reserve pool insufficient funds, actual [%s%s]\", inputReserve.String(), exactSoldCoin.Denom))",
    "return sdkmath.ZeroInt(), errorsmod.Wrap(types.ErrInsufficientFunds, fmt.Sprintf(\"reserve pool insufficient funds, actual [%s%s]\", outputReserve.String(), boughtTokenDenom))",
    "param := k.GetParams(ctx)",
    "boughtTokenAmt := GetInputPrice(exactSoldCoin.Amount, inputReserve, outputReserve, param.Fee)",
    "return boughtTokenAmt, nil"] := rfl

theorem tradeExactInputForOutput_guards : Gen.Coinswap.tradeExactInputForOutput_guards = [
    "boughtTokenAmt.LT(output.Coin.Amount)",
    "boughtToken.Denom != standardDenom",
    "quoteCoinToSwap.Amount.GT(maxSwapAmount.Amount)",
    "err: err := k.swapCoins(ctx, inputAddress, outputAddress, input.Coin, boughtToken)"] := rfl
theorem tradeExactInputForOutput_calls : Gen.Coinswap.tradeExactInputForOutput_calls = [
    "k.calculateWithExactInput(ctx, input.Coin, output.Coin.Denom)",
    "sdk.NewCoin(output.Coin.Denom, boughtTokenAmt)",
    "sdk.AccAddressFromBech32(input.Address)",
    "sdk.AccAddressFromBech32(output.Address)",
    "k.GetStandardDenom(ctx)",
    "k.GetMaximumSwapAmount(ctx, quoteCoinToSwap.Denom)",
    "k.swapCoins(ctx, inputAddress, outputAddress, input.Coin, boughtToken)"] := rfl
theorem tradeExactInputForOutput_stmts : Gen.Coinswap.tradeExactInputForOutput_stmts = [
    "boughtTokenAmt, err := k.calculateWithExactInput(ctx, input.Coin, output.Coin.Denom)",
    "return sdkmath.ZeroInt(), err",
    "return sdkmath.ZeroInt(), errorsmod.Wrap(types.ErrConstraintNotMet, fmt.Sprintf(\"insufficient amount of %s, user expected: %s, actual: %s\", output.Coin.Denom, output.Coin.Amount.String(), boughtTokenAmt.String()))",
    "boughtToken := sdk.NewCoin(output.Coin.Denom, boughtTokenAmt)",
    "inputAddress, err := sdk.AccAddressFromBech32(input.Address)",
    "return sdkmath.ZeroInt(), err",
    "outputAddress, err := sdk.AccAddressFromBech32(output.Address)",
    "return sdkmath.ZeroInt(), err",
    "standardDenom, err := k.GetStandardDenom(ctx)",
    "return sdkmath.Int{}, err",
    "quoteCoinToSwap = boughtToken",
    "quoteCoinToSwap = input.Coin",
    "maxSwapAmount, err := k.GetMaximumSwapAmount(ctx, quoteCoinToSwap.Denom)",
    "return sdkmath.ZeroInt(), err",
    "return sdkmath.ZeroInt(), errorsmod.Wrap(types.ErrConstraintNotMet, fmt.Sprintf(\"expected swap amount %s%s exceeding swap amount limit %s%s\", quoteCoinToSwap.Amount.String(), quoteCoinToSwap.Denom, maxSwapAmount.Amount.String(), maxSwapAmount.Denom))",
    "return sdkmath.ZeroInt(), err",
    "return boughtTokenAmt, nil"] := rfl

theorem calculateWithExactOutput_guards : Gen.Coinswap.calculateWithExactOutput_guards = [
    "!inputReserve.IsPositive()",
    "!outputReserve.IsPositive()",
    "exactBoughtCoin.Amount.GTE(outputReserve)"] := rfl
theorem calculateWithExactOutput_calls : Gen.Coinswap.calculateWithExactOutput_calls = [
    "k.GetLptDenomFromDenoms(ctx, exactBoughtCoin.Denom, soldTokenDenom)",
    "types.GetReservePoolAddr(lptDenom).String()",
    "types.GetReservePoolAddr(lptDenom)",
    "k.GetPoolBalances(ctx, poolAddr)",
    "k.GetParams(ctx)"] := rfl
theorem calculateWithExactOutput_stmts : Gen.Coinswap.calculateWithExactOutput_stmts = [
    "lptDenom, err := k.GetLptDenomFromDenoms(ctx, exactBoughtCoin.Denom, soldTokenDenom)",
    "return sdkmath.ZeroInt(), err",
    "poolAddr := types.GetReservePoolAddr(lptDenom).String()",
    "reservePool, err := k.GetPoolBalances(ctx, poolAddr)",
    "return sdkmath.ZeroInt(), err",
    "outputReserve := reservePool.AmountOf(exactBoughtCoin.Denom)",
    "inputReserve := reservePool.AmountOf(soldTokenDenom)",
    "return sdkmath.ZeroInt(), errorsmod.Wrap(types.ErrInsufficientFunds, fmt.Sprintf(\"reserve pool insufficient balance: [%s%s]\", inputReserve.String(), soldTokenDenom))",
    "return sdkmath.ZeroInt(), errorsmod.Wrap(types.ErrInsufficientFunds, fmt.Sprintf(\"reserve pool insufficient balance: [%s%s]\", outputReserve.String(), exactBoughtCoin.Denom))",
    "return sdkmath.ZeroInt(), errorsmod.Wrap(types.ErrInsufficientFunds, fmt.Sprintf(\"reserve pool insufficient balance of %s, user expected: %s, actual: %s\", exactBoughtCoin.Denom, exactBoughtCoin.Amount.String(), outputReserve.String()))",
    "param := k.GetParams(ctx)",
    "soldTokenAmt := GetOutputPrice(exactBoughtCoin.Amount, inputReserve, outputReserve, param.Fee)",
    "return soldTokenAmt, nil"] := rfl

theorem tradeInputForExactOutput_guards : Gen.Coinswap.tradeInputForExactOutput_guards = [
    "soldTokenAmt.GT(input.Coin.Amount)",
    "soldToken.Denom != standardDenom",
    "quoteCoinToSwap.Amount.GT(maxSwapAmount.Amount)",
    "err: err := k.swapCoins(ctx, inputAddress, outputAddress, soldToken, output.Coin)"] := rfl
theorem tradeInputForExactOutput_calls : Gen.Coinswap.tradeInputForExactOutput_calls = [
    "k.calculateWithExactOutput(ctx, output.Coin, input.Coin.Denom)",
    "sdk.NewCoin(input.Coin.Denom, soldTokenAmt)",
    "sdk.AccAddressFromBech32(input.Address)",
    "sdk.AccAddressFromBech32(output.Address)",
    "k.GetStandardDenom(ctx)",
    "k.GetMaximumSwapAmount(ctx, quoteCoinToSwap.Denom)",
    "k.swapCoins(ctx, inputAddress, outputAddress, soldToken, output.Coin)"] := rfl
theorem tradeInputForExactOutput_stmts : Gen.Coinswap.tradeInputForExactOutput_stmts = [
    "soldTokenAmt, err := k.calculateWithExactOutput(ctx, output.Coin, input.Coin.Denom)",
    "return sdkmath.ZeroInt(), err",
    "return sdkmath.ZeroInt(), errorsmod.Wrap(types.ErrConstraintNotMet, fmt.Sprintf(\"insufficient amount of %s, user expected: %s, actual: %s\", input.Coin.Denom, input.Coin.Amount.String(), soldTokenAmt.String()))",
    "soldToken := sdk.NewCoin(input.Coin.Denom, soldTokenAmt)",
    "inputAddress, err := sdk.AccAddressFromBech32(input.Address)",
    "return sdkmath.ZeroInt(), err",
    "outputAddress, err := sdk.AccAddressFromBech32(output.Address)",
    "return sdkmath.ZeroInt(), err",
    "standardDenom, err := k.GetStandardDenom(ctx)",
    "return sdkmath.Int{}, err",
    "quoteCoinToSwap = soldToken",
    "quoteCoinToSwap = output.Coin",
    "maxSwapAmount, err := k.GetMaximumSwapAmount(ctx, quoteCoinToSwap.Denom)",
    "return sdkmath.ZeroInt(), err",
    "return sdkmath.ZeroInt(), errorsmod.Wrap(types.ErrConstraintNotMet, fmt.Sprintf(\"expected swap amount %s%s exceeding swap amount limit %s%s\", quoteCoinToSwap.Amount.String(), quoteCoinToSwap.Denom, maxSwapAmount.Amount.String(), maxSwapAmount.Denom))",
    "return sdkmath.ZeroInt(), err",
    "return soldTokenAmt, nil"] := rfl

theorem getMaximumSwapAmount_guards : Gen.Coinswap.getMaximumSwapAmount_guards = [
    "coin.Denom == denom"] := rfl
theorem getMaximumSwapAmount_calls : Gen.Coinswap.getMaximumSwapAmount_calls = [
    "k.GetParams(ctx)"] := rfl
theorem getMaximumSwapAmount_stmts : Gen.Coinswap.getMaximumSwapAmount_stmts = [
    "params := k.GetParams(ctx)",
    "return coin, nil",
    "return sdk.Coin{}, errorsmod.Wrap(types.ErrInvalidDenom, fmt.Sprintf(\"invalid denom: %s, denom is not whitelisted\", denom))"] := rfl

theorem deductPoolCreationFee_guards : Gen.Coinswap.deductPoolCreationFee_guards = [
    "err: err := k.bk.SendCoinsFromAccountToModule( ctx, creator, types.ModuleName, sdk.NewCoins(poolCreationFee), )",
    "err: err := k.bk.SendCoinsFromModuleToModule(ctx, types.ModuleName, k.feeCollectorName, sdk.NewCoins(communityTaxCoin))"] := rfl
theorem deductPoolCreationFee_calls : Gen.Coinswap.deductPoolCreationFee_calls = [
    "k.GetParams(ctx)",
    "sdk.NewCoin(poolCreationFee.Denom, sdkmath.LegacyNewDecFromInt(poolCreationFee.Amount).Mul(params.TaxRate).TruncateInt())",
    "sdk.NewCoins(poolCreationFee.Sub(communityTaxCoin))",
    "k.bk.SendCoinsFromAccountToModule( ctx, creator, types.ModuleName, sdk.NewCoins(poolCreationFee), )",
    "sdk.NewCoins(poolCreationFee)",
    "k.bk.SendCoinsFromModuleToModule(ctx, types.ModuleName, k.feeCollectorName, sdk.NewCoins(communityTaxCoin))",
    "sdk.NewCoins(communityTaxCoin)",
    "k.bk.BurnCoins(ctx, types.ModuleName, burnedCoins)"] := rfl
theorem deductPoolCreationFee_stmts : Gen.Coinswap.deductPoolCreationFee_stmts = [
    "params := k.GetParams(ctx)",
    "poolCreationFee := params.PoolCreationFee",
    "communityTaxCoin := sdk.NewCoin(poolCreationFee.Denom, sdkmath.LegacyNewDecFromInt(poolCreationFee.Amount).Mul(params.TaxRate).TruncateInt())",
    "burnedCoins := sdk.NewCoins(poolCreationFee.Sub(communityTaxCoin))",
    "return err",
    "return err",
    "return k.bk.BurnCoins(ctx, types.ModuleName, burnedCoins)"] := rfl

theorem createPool_guards : Gen.Coinswap.createPool_guards = [] := rfl
theorem createPool_calls : Gen.Coinswap.createPool_calls = [
    "k.GetStandardDenom(ctx)",
    "k.getSequence(ctx)",
    "types.GetLptDenom(sequence)",
    "types.GetPoolId(counterpartyDenom)",
    "types.GetReservePoolAddr(lptDenom).String()",
    "types.GetReservePoolAddr(lptDenom)",
    "k.setSequence(ctx, sequence+1)",
    "k.setPool(ctx, pool)"] := rfl
theorem createPool_stmts : Gen.Coinswap.createPool_stmts = [
    "standardDenom, _ := k.GetStandardDenom(ctx)",
    "sequence := k.getSequence(ctx)",
    "lptDenom := types.GetLptDenom(sequence)",
    "pool := &types.Pool{ Id: types.GetPoolId(counterpartyDenom), StandardDenom: standardDenom, CounterpartyDenom: counterpartyDenom, EscrowAddress: types.GetReservePoolAddr(lptDenom).String(), LptDenom: lptDenom, }",
    "return *pool"] := rfl

theorem getPoolBalances_guards : Gen.Coinswap.getPoolBalances_guards = [
    "acc == nil"] := rfl
theorem getPoolBalances_calls : Gen.Coinswap.getPoolBalances_calls = [
    "sdk.AccAddressFromBech32(escrowAddress)",
    "k.ak.GetAccount(ctx, address)",
    "k.bk.GetAllBalances(ctx, acc.GetAddress())"] := rfl
theorem getPoolBalances_stmts : Gen.Coinswap.getPoolBalances_stmts = [
    "address, err := sdk.AccAddressFromBech32(escrowAddress)",
    "return coins, err",
    "acc := k.ak.GetAccount(ctx, address)",
    "return nil, errorsmod.Wrap(types.ErrReservePoolNotExists, escrowAddress)",
    "return k.bk.GetAllBalances(ctx, acc.GetAddress()), nil"] := rfl

theorem getLptDenomFromDenoms_guards : Gen.Coinswap.getLptDenomFromDenoms_guards = [
    "denom1 == denom2",
    "denom1 != standardDenom && denom2 != standardDenom",
    "counterpartyDenom == standardDenom",
    "!has"] := rfl
theorem getLptDenomFromDenoms_calls : Gen.Coinswap.getLptDenomFromDenoms_calls = [
    "k.GetStandardDenom(ctx)",
    "types.GetPoolId(counterpartyDenom)",
    "k.GetPool(ctx, poolId)"] := rfl
theorem getLptDenomFromDenoms_stmts : Gen.Coinswap.getLptDenomFromDenoms_stmts = [
    "return \"\", types.ErrEqualDenom",
    "standardDenom, _ := k.GetStandardDenom(ctx)",
    "return \"\", errorsmod.Wrap(types.ErrNotContainStandardDenom, fmt.Sprintf(\"standard denom: %s, denom1: %s, denom2: %s\", standardDenom, denom1, denom2))",
    "counterpartyDenom := denom1",
    "counterpartyDenom = denom2",
    "poolId := types.GetPoolId(counterpartyDenom)",
    "pool, has := k.GetPool(ctx, poolId)",
    "return \"\", errorsmod.Wrapf(types.ErrReservePoolNotExists, \"liquidity pool token: %s\", counterpartyDenom)",
    "return pool.LptDenom, nil"] := rfl

theorem validateInput_guards : Gen.Coinswap.validateInput_guards = [
    "!(input.Coin.IsValid() && input.Coin.IsPositive())",
    "strings.HasPrefix(input.Coin.Denom, LptTokenPrefix)",
    "err: _, err := sdk.AccAddressFromBech32(input.Address)"] := rfl
theorem validateInput_calls : Gen.Coinswap.validateInput_calls = [
    "sdk.AccAddressFromBech32(input.Address)"] := rfl
theorem validateInput_stmts : Gen.Coinswap.validateInput_stmts = [
    "return errorsmod.Wrapf(sdkerrors.ErrInvalidCoins, \"invalid input (%s)\", input.Coin.String())",
    "return errorsmod.Wrapf(sdkerrors.ErrInvalidRequest, \"invalid input denom, should not begin with (%s)\", LptTokenPrefix)",
    "_, err := sdk.AccAddressFromBech32(input.Address)",
    "return errorsmod.Wrapf(sdkerrors.ErrInvalidAddress, \"invalid input address (%s)\", err)",
    "return nil"] := rfl

theorem validateOutput_guards : Gen.Coinswap.validateOutput_guards = [
    "!(output.Coin.IsValid() && output.Coin.IsPositive())",
    "strings.HasPrefix(output.Coin.Denom, LptTokenPrefix)",
    "err: _, err := sdk.AccAddressFromBech32(output.Address)"] := rfl
theorem validateOutput_calls : Gen.Coinswap.validateOutput_calls = [
    "sdk.AccAddressFromBech32(output.Address)"] := rfl
theorem validateOutput_stmts : Gen.Coinswap.validateOutput_stmts = [
    "return errorsmod.Wrapf(sdkerrors.ErrInvalidCoins, \"invalid output (%s)\", output.Coin.String())",
    "return errorsmod.Wrapf(sdkerrors.ErrInvalidRequest, \"invalid output denom, should not begin with (%s)\", LptTokenPrefix)",
    "_, err := sdk.AccAddressFromBech32(output.Address)",
    "return errorsmod.Wrapf(sdkerrors.ErrInvalidAddress, \"invalid output address (%s)\", err)",
    "return nil"] := rfl

theorem validateDeadline_guards : Gen.Coinswap.validateDeadline_guards = [
    "deadline <= 0"] := rfl
theorem validateDeadline_calls : Gen.Coinswap.validateDeadline_calls = [] := rfl
theorem validateDeadline_stmts : Gen.Coinswap.validateDeadline_stmts = [
    "return errorsmod.Wrap(sdkerrors.ErrInvalidRequest, fmt.Sprintf(\"deadline %d must be greater than 0\", deadline))",
    "return nil"] := rfl

theorem validateMaxToken_guards : Gen.Coinswap.validateMaxToken_guards = [
    "!(maxToken.IsValid() && maxToken.IsPositive())",
    "strings.HasPrefix(maxToken.Denom, LptTokenPrefix)"] := rfl
theorem validateMaxToken_calls : Gen.Coinswap.validateMaxToken_calls = [] := rfl
theorem validateMaxToken_stmts : Gen.Coinswap.validateMaxToken_stmts = [
    "return errorsmod.Wrapf(sdkerrors.ErrInvalidCoins, \"invalid maxToken (%s)\", maxToken.String())",
    "return errorsmod.Wrap(sdkerrors.ErrInvalidRequest, \"max token must be non-liquidity token\")",
    "return nil"] := rfl

theorem validateExactStandardAmt_guards : Gen.Coinswap.validateExactStandardAmt_guards = [
    "!standardAmt.IsPositive()"] := rfl
theorem validateExactStandardAmt_calls : Gen.Coinswap.validateExactStandardAmt_calls = [] := rfl
theorem validateExactStandardAmt_stmts : Gen.Coinswap.validateExactStandardAmt_stmts = [
    "return errorsmod.Wrap(sdkerrors.ErrInvalidRequest, \"standard token amount must be positive\")",
    "return nil"] := rfl

theorem validateMinLiquidity_guards : Gen.Coinswap.validateMinLiquidity_guards = [
    "minLiquidity.IsNegative()"] := rfl
theorem validateMinLiquidity_calls : Gen.Coinswap.validateMinLiquidity_calls = [] := rfl
theorem validateMinLiquidity_stmts : Gen.Coinswap.validateMinLiquidity_stmts = [
    "return errorsmod.Wrap(sdkerrors.ErrInvalidRequest, \"minimum liquidity can not be negative\")",
    "return nil"] := rfl

theorem validateMinToken_guards : Gen.Coinswap.validateMinToken_guards = [
    "minToken.IsNegative()"] := rfl
theorem validateMinToken_calls : Gen.Coinswap.validateMinToken_calls = [] := rfl
theorem validateMinToken_stmts : Gen.Coinswap.validateMinToken_stmts = [
    "return errorsmod.Wrap(sdkerrors.ErrInvalidCoins, \"minimum token amount can not be negative\")",
    "return nil"] := rfl

theorem validateWithdrawLiquidity_guards : Gen.Coinswap.validateWithdrawLiquidity_guards = [
    "!liquidity.IsValid() || !liquidity.IsPositive()",
    "err: err := ValidateLptDenom(liquidity.Denom)"] := rfl
theorem validateWithdrawLiquidity_calls : Gen.Coinswap.validateWithdrawLiquidity_calls = [] := rfl
theorem validateWithdrawLiquidity_stmts : Gen.Coinswap.validateWithdrawLiquidity_stmts = [
    "return errorsmod.Wrapf(sdkerrors.ErrInvalidCoins, \"invalid withdrawLiquidity (%s)\", liquidity.String())",
    "return err",
    "return nil"] := rfl

theorem validateMinStandardAmt_guards : Gen.Coinswap.validateMinStandardAmt_guards = [
    "minStandardAmt.IsNegative()"] := rfl
theorem validateMinStandardAmt_calls : Gen.Coinswap.validateMinStandardAmt_calls = [] := rfl
theorem validateMinStandardAmt_stmts : Gen.Coinswap.validateMinStandardAmt_stmts = [
    "return errorsmod.Wrap(sdkerrors.ErrInvalidRequest, fmt.Sprintf(\"minimum standard token amount %s can not be negative\", minStandardAmt.String()))",
    "return nil"] := rfl

theorem validateLptDenom_guards : Gen.Coinswap.validateLptDenom_guards = [
    "err: _, err := ParseLptDenom(lptDenom)"] := rfl
theorem validateLptDenom_calls : Gen.Coinswap.validateLptDenom_calls = [] := rfl
theorem validateLptDenom_stmts : Gen.Coinswap.validateLptDenom_stmts = [
    "_, err := ParseLptDenom(lptDenom)",
    "return errorsmod.Wrap(ErrInvalidDenom, lptDenom)",
    "return nil"] := rfl

theorem parseLptDenom_guards : Gen.Coinswap.parseLptDenom_guards = [
    "len(result) != 2"] := rfl
theorem parseLptDenom_calls : Gen.Coinswap.parseLptDenom_calls = [] := rfl
theorem parseLptDenom_stmts : Gen.Coinswap.parseLptDenom_stmts = [
    "result := strings.Split(lptDenom, \"-\")",
    "return 0, fmt.Errorf(\"invalid lpt denom: %s\", lptDenom)",
    "return strconv.ParseUint(result[1], 10, 64)"] := rfl

theorem getReservePoolAddr_guards : Gen.Coinswap.getReservePoolAddr_guards = [] := rfl
theorem getReservePoolAddr_calls : Gen.Coinswap.getReservePoolAddr_calls = [] := rfl
theorem getReservePoolAddr_stmts : Gen.Coinswap.getReservePoolAddr_stmts = [
    "return sdk.AccAddress(crypto.AddressHash([]byte(lptDenom)))"] := rfl

theorem getLptDenom_guards : Gen.Coinswap.getLptDenom_guards = [] := rfl
theorem getLptDenom_calls : Gen.Coinswap.getLptDenom_calls = [] := rfl
theorem getLptDenom_stmts : Gen.Coinswap.getLptDenom_stmts = [
    "return fmt.Sprintf(LptTokenFormat, sequence)"] := rfl

end CV.Bridge.CoinswapFacts
