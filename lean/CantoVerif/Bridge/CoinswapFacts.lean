import CantoVerif.Gen.CoinswapFacts
/-!
# Bridge: structure of the coinswap code as the model assumes it.

For every function the model mirrors: its guard conditions in source order, the calls it makes
(bank keeper, sub-functions, validators) and its assignments / returns, as source text regenerated
by `factx` from `/repo` on every run, equal to the reviewed expectation below.  The expectations were
reviewed against `Model/Coinswap.lean` line by line; an edit to a guard (`GT`→`GTE`, a dropped `!`),
to the order or arguments of the bank calls, or to an amount expression makes the matching theorem
fail — deterministically, without waiting for the generator to land on the boundary.  The check
then searches for a failing input with more seeds.
-/
namespace CV.Bridge.CoinswapFacts
open CV

-- parameters, receivers and locals are alpha-normalised by factx (p1…, v1… in order of declaration):
-- renaming a variable does not disturb the facts

theorem msgAddLiquidity_guards : Gen.Coinswap.msgAddLiquidity_guards = [
    "err: v1 := types.ValidateMaxToken(p3.MaxToken)",
    "err: v1 := types.ValidateExactStandardAmt(p3.ExactStandardAmt)",
    "err: v1 := types.ValidateMinLiquidity(p3.MinLiquidity)",
    "err: v1 := types.ValidateDeadline(p3.Deadline)",
    "err: _, v1 := sdk.AccAddressFromBech32(p3.Sender)",
    "v2.BlockHeader().Time.After(time.Unix(p3.Deadline, 0))"] := rfl
theorem msgAddLiquidity_calls : Gen.Coinswap.msgAddLiquidity_calls = [
    "types.ValidateMaxToken(p3.MaxToken)",
    "types.ValidateExactStandardAmt(p3.ExactStandardAmt)",
    "types.ValidateMinLiquidity(p3.MinLiquidity)",
    "types.ValidateDeadline(p3.Deadline)",
    "sdk.AccAddressFromBech32(p3.Sender)",
    "p1.Keeper.AddLiquidity(v2, p3)"] := rfl
theorem msgAddLiquidity_stmts : Gen.Coinswap.msgAddLiquidity_stmts = [
    "return nil, v1",
    "return nil, v1",
    "return nil, v1",
    "return nil, v1",
    "_, v1 := sdk.AccAddressFromBech32(p3.Sender)",
    "return nil, errorsmod.Wrapf(sdkerrors.ErrInvalidAddress, \"invalid sender address (%s)\", v1)",
    "v2 := sdk.UnwrapSDKContext(p2)",
    "return nil, errorsmod.Wrap(types.ErrInvalidDeadline, \"deadline has passed for MsgAddLiquidity\")",
    "v3, v1 := p1.Keeper.AddLiquidity(v2, p3)",
    "return nil, v1",
    "return &types.MsgAddLiquidityResponse{ MintToken: &v3, }, nil"] := rfl

theorem msgRemoveLiquidity_guards : Gen.Coinswap.msgRemoveLiquidity_guards = [
    "err: v1 := types.ValidateMinToken(p3.MinToken)",
    "err: v1 := types.ValidateWithdrawLiquidity(p3.WithdrawLiquidity)",
    "err: v1 := types.ValidateMinStandardAmt(p3.MinStandardAmt)",
    "err: v1 := types.ValidateDeadline(p3.Deadline)",
    "err: _, v1 := sdk.AccAddressFromBech32(p3.Sender)",
    "v2.BlockHeader().Time.After(time.Unix(p3.Deadline, 0))"] := rfl
theorem msgRemoveLiquidity_calls : Gen.Coinswap.msgRemoveLiquidity_calls = [
    "types.ValidateMinToken(p3.MinToken)",
    "types.ValidateWithdrawLiquidity(p3.WithdrawLiquidity)",
    "types.ValidateMinStandardAmt(p3.MinStandardAmt)",
    "types.ValidateDeadline(p3.Deadline)",
    "sdk.AccAddressFromBech32(p3.Sender)",
    "p1.Keeper.RemoveLiquidity(v2, p3)"] := rfl
theorem msgRemoveLiquidity_stmts : Gen.Coinswap.msgRemoveLiquidity_stmts = [
    "return nil, v1",
    "return nil, v1",
    "return nil, v1",
    "return nil, v1",
    "_, v1 := sdk.AccAddressFromBech32(p3.Sender)",
    "return nil, errorsmod.Wrapf(sdkerrors.ErrInvalidAddress, \"invalid sender address (%s)\", v1)",
    "v2 := sdk.UnwrapSDKContext(p2)",
    "return nil, errorsmod.Wrap(types.ErrInvalidDeadline, \"deadline has passed for MsgRemoveLiquidity\")",
    "v3, v1 := p1.Keeper.RemoveLiquidity(v2, p3)",
    "return nil, v1",
    "v5 := v5",
    "v4 = append(v4, &v5)",
    "return &types.MsgRemoveLiquidityResponse{ WithdrawCoins: v4, }, nil"] := rfl

theorem msgSwapCoin_guards : Gen.Coinswap.msgSwapCoin_guards = [
    "err: v1 := types.ValidateInput(p3.Input)",
    "err: v1 := types.ValidateOutput(p3.Output)",
    "p3.Input.Coin.Denom == p3.Output.Coin.Denom",
    "err: v1 := types.ValidateDeadline(p3.Deadline)",
    "v2.BlockHeader().Time.After(time.Unix(p3.Deadline, 0))",
    "p1.Keeper.blockedAddrs[v3.String()]",
    "err: v1 := p1.Keeper.Swap(v2, p3)"] := rfl
theorem msgSwapCoin_calls : Gen.Coinswap.msgSwapCoin_calls = [
    "types.ValidateInput(p3.Input)",
    "types.ValidateOutput(p3.Output)",
    "types.ValidateDeadline(p3.Deadline)",
    "sdk.AccAddressFromBech32(p3.Output.Address)",
    "p1.Keeper.Swap(v2, p3)"] := rfl
theorem msgSwapCoin_stmts : Gen.Coinswap.msgSwapCoin_stmts = [
    "return nil, v1",
    "return nil, v1",
    "return nil, errorsmod.Wrap(types.ErrEqualDenom, \"invalid swap\")",
    "return nil, v1",
    "v2 := sdk.UnwrapSDKContext(p2)",
    "return nil, errorsmod.Wrap(types.ErrInvalidDeadline, \"deadline has passed for MsgSwapOrder\")",
    "v3, v1 := sdk.AccAddressFromBech32(p3.Output.Address)",
    "return nil, errorsmod.Wrapf(sdkerrors.ErrInvalidAddress, \"invalid output address (%s)\", v1)",
    "return nil, errorsmod.Wrapf(sdkerrors.ErrUnauthorized, \"%s is not allowed to receive external funds\", p3.Output.Address)",
    "return nil, v1",
    "return &types.MsgSwapCoinResponse{}, nil"] := rfl

theorem swap_guards : Gen.Coinswap.swap_guards = [
    "v4",
    "p3.IsBuyOrder"] := rfl
theorem swap_calls : Gen.Coinswap.swap_calls = [
    "p1.GetStandardDenom(p2)",
    "p1.TradeInputForExactOutput(p2, p3.Input, p3.Output)",
    "p1.TradeExactInputForOutput(p2, p3.Input, p3.Output)",
    "types.GetTokenPairByDenom(p3.Input.Coin.Denom, p3.Output.Coin.Denom)"] := rfl
theorem swap_stmts : Gen.Coinswap.swap_stmts = [
    "v3, v2 := p1.GetStandardDenom(p2)",
    "return v2",
    "v4 := (p3.Input.Coin.Denom != v3) && (p3.Output.Coin.Denom != v3)",
    "return errorsmod.Wrapf(types.ErrNotContainStandardDenom, \"unsupported swap: standard coin must be in either Input or Output\")",
    "v1, v2 = p1.TradeInputForExactOutput(p2, p3.Input, p3.Output)",
    "v1, v2 = p1.TradeExactInputForOutput(p2, p3.Input, p3.Output)",
    "return v2",
    "return nil"] := rfl

theorem addLiquidity_guards : Gen.Coinswap.addLiquidity_guards = [
    "v1 == p3.MaxToken.Denom",
    "!v3.MaxSwapAmount.AmountOf(p3.MaxToken.Denom).IsPositive()",
    "!v9",
    "err: v2 := p1.DeductPoolCreationFee(p2, v10)",
    "v4.GT(v3.MaxStandardCoinPerPool)",
    "v4.LT(p3.MinLiquidity)",
    "v14.Equal(sdkmath.ZeroInt())",
    "v4.GT(v3.MaxStandardCoinPerPool)",
    "v4.LT(p3.MinLiquidity)",
    "v12.GTE(v3.MaxStandardCoinPerPool)",
    "v4.LT(p3.MinLiquidity)",
    "v16.GT(p3.MaxToken.Amount)"] := rfl
theorem addLiquidity_calls : Gen.Coinswap.addLiquidity_calls = [
    "p1.GetStandardDenom(p2)",
    "p1.GetParams(p2)",
    "sdk.NewCoin(v1, p3.ExactStandardAmt)",
    "types.GetPoolId(p3.MaxToken.Denom)",
    "p1.GetPool(p2, v7)",
    "sdk.AccAddressFromBech32(p3.Sender)",
    "p1.DeductPoolCreationFee(p2, v10)",
    "sdk.NewCoin(p3.MaxToken.Denom, p3.MaxToken.Amount)",
    "p1.CreatePool(p2, p3.MaxToken.Denom)",
    "p1.GetPoolBalances(p2, v8.EscrowAddress)",
    "p1.bk.GetSupply(p2, v8.LptDenom)",
    "sdk.NewCoin(p3.MaxToken.Denom, p3.MaxToken.Amount)",
    "sdk.NewCoin(p3.MaxToken.Denom, v16)",
    "sdk.NewCoin(v1, v15)",
    "sdk.AccAddressFromBech32(v8.EscrowAddress)",
    "types.GetTokenPairByDenom(p3.MaxToken.Denom, v1)",
    "p1.addLiquidity(p2, v10, v17, v6, v5, v8.LptDenom, v4)"] := rfl
theorem addLiquidity_stmts : Gen.Coinswap.addLiquidity_stmts = [
    "v1, v2 := p1.GetStandardDenom(p2)",
    "return sdk.Coin{}, v2",
    "return sdk.Coin{}, errorsmod.Wrapf(types.ErrInvalidDenom, \"MaxToken: %s should not be StandardDenom\", p3.MaxToken.String())",
    "v3 := p1.GetParams(p2)",
    "return sdk.Coin{}, errorsmod.Wrapf(types.ErrInvalidDenom, \"MaxToken %s is not registered in max swap amount\", p3.MaxToken.Denom)",
    "v7 := types.GetPoolId(p3.MaxToken.Denom)",
    "v8, v9 := p1.GetPool(p2, v7)",
    "v10, v2 := sdk.AccAddressFromBech32(p3.Sender)",
    "return sdk.Coin{}, v2",
    "return sdk.Coin{}, v2",
    "v4 = p3.ExactStandardAmt",
    "return sdk.Coin{}, errorsmod.Wrap(types.ErrMaxedStandardDenom, fmt.Sprintf(\"liquidity amount not met, max standard coin amount: no bigger than %s, actual: %s\", v3.MaxStandardCoinPerPool.String(), v4.String()))",
    "return sdk.Coin{}, errorsmod.Wrap(types.ErrConstraintNotMet, fmt.Sprintf(\"liquidity amount not met, user expected: no less than %s, actual: %s\", p3.MinLiquidity.String(), v4.String()))",
    "v5 = sdk.NewCoin(p3.MaxToken.Denom, p3.MaxToken.Amount)",
    "v8 = p1.CreatePool(p2, p3.MaxToken.Denom)",
    "v11, v2 := p1.GetPoolBalances(p2, v8.EscrowAddress)",
    "return sdk.Coin{}, v2",
    "v12 := v11.AmountOf(v1)",
    "v13 := v11.AmountOf(p3.MaxToken.Denom)",
    "v14 := p1.bk.GetSupply(p2, v8.LptDenom).Amount",
    "v4 = p3.ExactStandardAmt",
    "return sdk.Coin{}, errorsmod.Wrap(types.ErrMaxedStandardDenom, fmt.Sprintf(\"liquidity amount not met, max standard coin amount: no bigger than %s, actual: %s\", v3.MaxStandardCoinPerPool.String(), v4.String()))",
    "return sdk.Coin{}, errorsmod.Wrap(types.ErrConstraintNotMet, fmt.Sprintf(\"liquidity amount not met, user expected: no less than %s, actual: %s\", p3.MinLiquidity.String(), v4.String()))",
    "v5 = sdk.NewCoin(p3.MaxToken.Denom, p3.MaxToken.Amount)",
    "return sdk.Coin{}, errorsmod.Wrap(types.ErrMaxedStandardDenom, fmt.Sprintf(\"pool standard coin is maxed out: %s\", v3.MaxStandardCoinPerPool.String()))",
    "v15 := sdkmath.MinInt(p3.ExactStandardAmt, v3.MaxStandardCoinPerPool.Sub(v12))",
    "v4 = (v14.Mul(v15)).Quo(v12)",
    "return sdk.Coin{}, errorsmod.Wrap(types.ErrConstraintNotMet, fmt.Sprintf(\"liquidity amount not met, user expected: no less than %s, actual: %s\", p3.MinLiquidity.String(), v4.String()))",
    "v16 := (v13.Mul(v15)).Quo(v12).AddRaw(1)",
    "v5 = sdk.NewCoin(p3.MaxToken.Denom, v16)",
    "v6 = sdk.NewCoin(v1, v15)",
    "return sdk.Coin{}, errorsmod.Wrap(types.ErrConstraintNotMet, fmt.Sprintf(\"token amount not met, user expected: no more than %s, actual: %s\", p3.MaxToken.String(), v5.String()))",
    "v17, v2 := sdk.AccAddressFromBech32(v8.EscrowAddress)",
    "return sdk.Coin{}, v2",
    "return p1.addLiquidity(p2, v10, v17, v6, v5, v8.LptDenom, v4)"] := rfl

theorem addLiquidityInner_guards : Gen.Coinswap.addLiquidityInner_guards = [
    "err: v2 := p1.bk.SendCoins(p2, p3, p4, v1)",
    "err: v2 := p1.bk.MintCoins(p2, types.ModuleName, v4)",
    "err: v2 := p1.bk.SendCoinsFromModuleToAccount(p2, types.ModuleName, p3, v4)"] := rfl
theorem addLiquidityInner_calls : Gen.Coinswap.addLiquidityInner_calls = [
    "sdk.NewCoins(p5, p6)",
    "p1.bk.SendCoins(p2, p3, p4, v1)",
    "sdk.NewCoin(p7, p8)",
    "sdk.NewCoins(v3)",
    "p1.bk.MintCoins(p2, types.ModuleName, v4)",
    "p1.bk.SendCoinsFromModuleToAccount(p2, types.ModuleName, p3, v4)"] := rfl
theorem addLiquidityInner_stmts : Gen.Coinswap.addLiquidityInner_stmts = [
    "v1 := sdk.NewCoins(p5, p6)",
    "return sdk.Coin{}, v2",
    "v3 := sdk.NewCoin(p7, p8)",
    "v4 := sdk.NewCoins(v3)",
    "return sdk.Coin{}, v2",
    "return sdk.Coin{}, v2",
    "return v3, nil"] := rfl

theorem removeLiquidity_guards : Gen.Coinswap.removeLiquidity_guards = [
    "!v4",
    "v8.LT(p3.MinStandardAmt)",
    "v9.LT(p3.MinToken)",
    "v10.LT(p3.WithdrawLiquidity.Amount)",
    "v13.Amount.LT(p3.MinStandardAmt)",
    "v14.Amount.LT(p3.MinToken)"] := rfl
theorem removeLiquidity_calls : Gen.Coinswap.removeLiquidity_calls = [
    "p1.GetStandardDenom(p2)",
    "p1.GetPoolByLptDenom(p2, p3.WithdrawLiquidity.Denom)",
    "p1.GetPoolBalances(p2, v3.EscrowAddress)",
    "p1.bk.GetSupply(p2, v6)",
    "sdk.NewCoin(v1, v11)",
    "sdk.NewCoin(v7, v12)",
    "sdk.NewCoin(v1, p3.MinStandardAmt).String()",
    "sdk.NewCoin(v1, p3.MinStandardAmt)",
    "sdk.NewCoin(v7, p3.MinToken).String()",
    "sdk.NewCoin(v7, p3.MinToken)",
    "types.GetTokenPairByDenom(v7, v1)",
    "sdk.AccAddressFromBech32(p3.Sender)",
    "sdk.AccAddressFromBech32(v3.EscrowAddress)",
    "p1.removeLiquidity(p2, v17, v16, v15, v13, v14)"] := rfl
theorem removeLiquidity_stmts : Gen.Coinswap.removeLiquidity_stmts = [
    "v1, v2 := p1.GetStandardDenom(p2)",
    "return nil, v2",
    "v3, v4 := p1.GetPoolByLptDenom(p2, p3.WithdrawLiquidity.Denom)",
    "return nil, errorsmod.Wrapf(types.ErrReservePoolNotExists, \"liquidity pool token: %s\", p3.WithdrawLiquidity.Denom)",
    "v5, v2 := p1.GetPoolBalances(p2, v3.EscrowAddress)",
    "return nil, v2",
    "v6 := p3.WithdrawLiquidity.Denom",
    "v7 := v3.CounterpartyDenom",
    "v8 := v5.AmountOf(v1)",
    "v9 := v5.AmountOf(v7)",
    "v10 := p1.bk.GetSupply(p2, v6).Amount",
    "return nil, errorsmod.Wrap(types.ErrInsufficientFunds, fmt.Sprintf(\"insufficient %s funds, user expected: %s, actual: %s\", v1, p3.MinStandardAmt.String(), v8.String()))",
    "return nil, errorsmod.Wrap(types.ErrInsufficientFunds, fmt.Sprintf(\"insufficient %s funds, user expected: %s, actual: %s\", v7, p3.MinToken.String(), v9.String()))",
    "return nil, errorsmod.Wrap(types.ErrInsufficientFunds, fmt.Sprintf(\"insufficient %s funds, user expected: %s, actual: %s\", v6, p3.WithdrawLiquidity.Amount.String(), v10.String()))",
    "v11 := p3.WithdrawLiquidity.Amount.Mul(v8).Quo(v10)",
    "v12 := p3.WithdrawLiquidity.Amount.Mul(v9).Quo(v10)",
    "v13 := sdk.NewCoin(v1, v11)",
    "v14 := sdk.NewCoin(v7, v12)",
    "v15 := p3.WithdrawLiquidity",
    "return nil, errorsmod.Wrap(types.ErrConstraintNotMet, fmt.Sprintf(\"standard coin amount not met, user expected: no less than %s, actual: %s\", sdk.NewCoin(v1, p3.MinStandardAmt).String(), v13.String()))",
    "return nil, errorsmod.Wrap(types.ErrConstraintNotMet, fmt.Sprintf(\"token amount not met, user expected: no less than %s, actual: %s\", sdk.NewCoin(v7, p3.MinToken).String(), v14.String()))",
    "v16, v2 := sdk.AccAddressFromBech32(p3.Sender)",
    "return nil, v2",
    "v17, v2 := sdk.AccAddressFromBech32(v3.EscrowAddress)",
    "return nil, v2",
    "return p1.removeLiquidity(p2, v17, v16, v15, v13, v14)"] := rfl

theorem removeLiquidityInner_guards : Gen.Coinswap.removeLiquidityInner_guards = [
    "err: v2 := p1.bk.SendCoinsFromAccountToModule(p2, p4, types.ModuleName, v1)",
    "err: v2 := p1.bk.BurnCoins(p2, types.ModuleName, v1)"] := rfl
theorem removeLiquidityInner_calls : Gen.Coinswap.removeLiquidityInner_calls = [
    "sdk.NewCoins(p5)",
    "p1.bk.SendCoinsFromAccountToModule(p2, p4, types.ModuleName, v1)",
    "p1.bk.BurnCoins(p2, types.ModuleName, v1)",
    "sdk.NewCoins(p6, p7)",
    "p1.bk.SendCoins(p2, p3, p4, v3)"] := rfl
theorem removeLiquidityInner_stmts : Gen.Coinswap.removeLiquidityInner_stmts = [
    "v1 := sdk.NewCoins(p5)",
    "return nil, v2",
    "return nil, v2",
    "v3 := sdk.NewCoins(p6, p7)",
    "return v3, p1.bk.SendCoins(p2, p3, p4, v3)"] := rfl

theorem swapCoins_guards : Gen.Coinswap.swapCoins_guards = [
    "err: v2 := p1.bk.SendCoins(p2, p3, v3, sdk.NewCoins(p5))",
    "p4.Empty()"] := rfl
theorem swapCoins_calls : Gen.Coinswap.swapCoins_calls = [
    "p1.GetLptDenomFromDenoms(p2, p5.Denom, p6.Denom)",
    "types.GetReservePoolAddr(v1)",
    "p1.bk.SendCoins(p2, p3, v3, sdk.NewCoins(p5))",
    "sdk.NewCoins(p5)",
    "p1.bk.SendCoins(p2, v3, p4, sdk.NewCoins(p6))",
    "sdk.NewCoins(p6)"] := rfl
theorem swapCoins_stmts : Gen.Coinswap.swapCoins_stmts = [
    "v1, v2 := p1.GetLptDenomFromDenoms(p2, p5.Denom, p6.Denom)",
    "return v2",
    "v3 := types.GetReservePoolAddr(v1)",
    "return v2",
    "p4 = p3",
    "return p1.bk.SendCoins(p2, v3, p4, sdk.NewCoins(p6))"] := rfl

theorem calculateWithExactInput_guards : Gen.Coinswap.calculateWithExactInput_guards = [
    "!v5.IsPositive()",
    "!v6.IsPositive()"] := rfl
theorem calculateWithExactInput_calls : Gen.Coinswap.calculateWithExactInput_calls = [
    "p1.GetLptDenomFromDenoms(p2, p3.Denom, p4)",
    "types.GetReservePoolAddr(v1).String()",
    "types.GetReservePoolAddr(v1)",
    "p1.GetPoolBalances(p2, v3)",
    "p1.GetParams(p2)"] := rfl
theorem calculateWithExactInput_stmts : Gen.Coinswap.calculateWithExactInput_stmts = [
    "v1, v2 := p1.GetLptDenomFromDenoms(p2, p3.Denom, p4)",
    "return sdkmath.ZeroInt(), v2",
    "v3 := types.GetReservePoolAddr(v1).String()",
    "v4, v2 := p1.GetPoolBalances(p2, v3)",
    "return sdkmath.ZeroInt(), v2",
    "v5 := v4.AmountOf(p3.Denom)",
    "v6 := v4.AmountOf(p4)",
    "return sdkmath.ZeroInt(), errorsmod.Wrap(types.ErrInsufficientFunds, fmt.Sprintf(\"reserve pool insufficient funds, actual [%s%s]\", v5.String(), p3.Denom))",
    "return sdkmath.ZeroInt(), errorsmod.Wrap(types.ErrInsufficientFunds, fmt.Sprintf(\"reserve pool insufficient funds, actual [%s%s]\", v6.String(), p4))",
    "v7 := p1.GetParams(p2)",
    "v8 := GetInputPrice(p3.Amount, v5, v6, v7.Fee)",
    "return v8, nil"] := rfl

theorem tradeExactInputForOutput_guards : Gen.Coinswap.tradeExactInputForOutput_guards = [
    "v1.LT(p4.Coin.Amount)",
    "v3.Denom != v6",
    "v7.Amount.GT(v8.Amount)",
    "err: v2 := p1.swapCoins(p2, v4, v5, p3.Coin, v3)"] := rfl
theorem tradeExactInputForOutput_calls : Gen.Coinswap.tradeExactInputForOutput_calls = [
    "p1.calculateWithExactInput(p2, p3.Coin, p4.Coin.Denom)",
    "sdk.NewCoin(p4.Coin.Denom, v1)",
    "sdk.AccAddressFromBech32(p3.Address)",
    "sdk.AccAddressFromBech32(p4.Address)",
    "p1.GetStandardDenom(p2)",
    "p1.GetMaximumSwapAmount(p2, v7.Denom)",
    "p1.swapCoins(p2, v4, v5, p3.Coin, v3)"] := rfl
theorem tradeExactInputForOutput_stmts : Gen.Coinswap.tradeExactInputForOutput_stmts = [
    "v1, v2 := p1.calculateWithExactInput(p2, p3.Coin, p4.Coin.Denom)",
    "return sdkmath.ZeroInt(), v2",
    "return sdkmath.ZeroInt(), errorsmod.Wrap(types.ErrConstraintNotMet, fmt.Sprintf(\"insufficient amount of %s, user expected: %s, actual: %s\", p4.Coin.Denom, p4.Coin.Amount.String(), v1.String()))",
    "v3 := sdk.NewCoin(p4.Coin.Denom, v1)",
    "v4, v2 := sdk.AccAddressFromBech32(p3.Address)",
    "return sdkmath.ZeroInt(), v2",
    "v5, v2 := sdk.AccAddressFromBech32(p4.Address)",
    "return sdkmath.ZeroInt(), v2",
    "v6, v2 := p1.GetStandardDenom(p2)",
    "return sdkmath.Int{}, v2",
    "v7 = v3",
    "v7 = p3.Coin",
    "v8, v2 := p1.GetMaximumSwapAmount(p2, v7.Denom)",
    "return sdkmath.ZeroInt(), v2",
    "return sdkmath.ZeroInt(), errorsmod.Wrap(types.ErrConstraintNotMet, fmt.Sprintf(\"expected swap amount %s%s exceeding swap amount limit %s%s\", v7.Amount.String(), v7.Denom, v8.Amount.String(), v8.Denom))",
    "return sdkmath.ZeroInt(), v2",
    "return v1, nil"] := rfl

theorem calculateWithExactOutput_guards : Gen.Coinswap.calculateWithExactOutput_guards = [
    "!v6.IsPositive()",
    "!v5.IsPositive()",
    "p3.Amount.GTE(v5)"] := rfl
theorem calculateWithExactOutput_calls : Gen.Coinswap.calculateWithExactOutput_calls = [
    "p1.GetLptDenomFromDenoms(p2, p3.Denom, p4)",
    "types.GetReservePoolAddr(v1).String()",
    "types.GetReservePoolAddr(v1)",
    "p1.GetPoolBalances(p2, v3)",
    "p1.GetParams(p2)"] := rfl
theorem calculateWithExactOutput_stmts : Gen.Coinswap.calculateWithExactOutput_stmts = [
    "v1, v2 := p1.GetLptDenomFromDenoms(p2, p3.Denom, p4)",
    "return sdkmath.ZeroInt(), v2",
    "v3 := types.GetReservePoolAddr(v1).String()",
    "v4, v2 := p1.GetPoolBalances(p2, v3)",
    "return sdkmath.ZeroInt(), v2",
    "v5 := v4.AmountOf(p3.Denom)",
    "v6 := v4.AmountOf(p4)",
    "return sdkmath.ZeroInt(), errorsmod.Wrap(types.ErrInsufficientFunds, fmt.Sprintf(\"reserve pool insufficient balance: [%s%s]\", v6.String(), p4))",
    "return sdkmath.ZeroInt(), errorsmod.Wrap(types.ErrInsufficientFunds, fmt.Sprintf(\"reserve pool insufficient balance: [%s%s]\", v5.String(), p3.Denom))",
    "return sdkmath.ZeroInt(), errorsmod.Wrap(types.ErrInsufficientFunds, fmt.Sprintf(\"reserve pool insufficient balance of %s, user expected: %s, actual: %s\", p3.Denom, p3.Amount.String(), v5.String()))",
    "v7 := p1.GetParams(p2)",
    "v8 := GetOutputPrice(p3.Amount, v6, v5, v7.Fee)",
    "return v8, nil"] := rfl

theorem tradeInputForExactOutput_guards : Gen.Coinswap.tradeInputForExactOutput_guards = [
    "v1.GT(p3.Coin.Amount)",
    "v3.Denom != v6",
    "v7.Amount.GT(v8.Amount)",
    "err: v2 := p1.swapCoins(p2, v4, v5, v3, p4.Coin)"] := rfl
theorem tradeInputForExactOutput_calls : Gen.Coinswap.tradeInputForExactOutput_calls = [
    "p1.calculateWithExactOutput(p2, p4.Coin, p3.Coin.Denom)",
    "sdk.NewCoin(p3.Coin.Denom, v1)",
    "sdk.AccAddressFromBech32(p3.Address)",
    "sdk.AccAddressFromBech32(p4.Address)",
    "p1.GetStandardDenom(p2)",
    "p1.GetMaximumSwapAmount(p2, v7.Denom)",
    "p1.swapCoins(p2, v4, v5, v3, p4.Coin)"] := rfl
theorem tradeInputForExactOutput_stmts : Gen.Coinswap.tradeInputForExactOutput_stmts = [
    "v1, v2 := p1.calculateWithExactOutput(p2, p4.Coin, p3.Coin.Denom)",
    "return sdkmath.ZeroInt(), v2",
    "return sdkmath.ZeroInt(), errorsmod.Wrap(types.ErrConstraintNotMet, fmt.Sprintf(\"insufficient amount of %s, user expected: %s, actual: %s\", p3.Coin.Denom, p3.Coin.Amount.String(), v1.String()))",
    "v3 := sdk.NewCoin(p3.Coin.Denom, v1)",
    "v4, v2 := sdk.AccAddressFromBech32(p3.Address)",
    "return sdkmath.ZeroInt(), v2",
    "v5, v2 := sdk.AccAddressFromBech32(p4.Address)",
    "return sdkmath.ZeroInt(), v2",
    "v6, v2 := p1.GetStandardDenom(p2)",
    "return sdkmath.Int{}, v2",
    "v7 = v3",
    "v7 = p4.Coin",
    "v8, v2 := p1.GetMaximumSwapAmount(p2, v7.Denom)",
    "return sdkmath.ZeroInt(), v2",
    "return sdkmath.ZeroInt(), errorsmod.Wrap(types.ErrConstraintNotMet, fmt.Sprintf(\"expected swap amount %s%s exceeding swap amount limit %s%s\", v7.Amount.String(), v7.Denom, v8.Amount.String(), v8.Denom))",
    "return sdkmath.ZeroInt(), v2",
    "return v1, nil"] := rfl

theorem getMaximumSwapAmount_guards : Gen.Coinswap.getMaximumSwapAmount_guards = [
    "v2.Denom == p3"] := rfl
theorem getMaximumSwapAmount_calls : Gen.Coinswap.getMaximumSwapAmount_calls = [
    "p1.GetParams(p2)"] := rfl
theorem getMaximumSwapAmount_stmts : Gen.Coinswap.getMaximumSwapAmount_stmts = [
    "v1 := p1.GetParams(p2)",
    "return v2, nil",
    "return sdk.Coin{}, errorsmod.Wrap(types.ErrInvalidDenom, fmt.Sprintf(\"invalid denom: %s, denom is not whitelisted\", p3))"] := rfl

theorem deductPoolCreationFee_guards : Gen.Coinswap.deductPoolCreationFee_guards = [
    "err: v5 := p1.bk.SendCoinsFromAccountToModule( p2, p3, types.ModuleName, sdk.NewCoins(v2), )",
    "err: v5 := p1.bk.SendCoinsFromModuleToModule(p2, types.ModuleName, p1.feeCollectorName, sdk.NewCoins(v3))"] := rfl
theorem deductPoolCreationFee_calls : Gen.Coinswap.deductPoolCreationFee_calls = [
    "p1.GetParams(p2)",
    "sdk.NewCoin(v2.Denom, sdkmath.LegacyNewDecFromInt(v2.Amount).Mul(v1.TaxRate).TruncateInt())",
    "sdk.NewCoins(v2.Sub(v3))",
    "p1.bk.SendCoinsFromAccountToModule( p2, p3, types.ModuleName, sdk.NewCoins(v2), )",
    "sdk.NewCoins(v2)",
    "p1.bk.SendCoinsFromModuleToModule(p2, types.ModuleName, p1.feeCollectorName, sdk.NewCoins(v3))",
    "sdk.NewCoins(v3)",
    "p1.bk.BurnCoins(p2, types.ModuleName, v4)"] := rfl
theorem deductPoolCreationFee_stmts : Gen.Coinswap.deductPoolCreationFee_stmts = [
    "v1 := p1.GetParams(p2)",
    "v2 := v1.PoolCreationFee",
    "v3 := sdk.NewCoin(v2.Denom, sdkmath.LegacyNewDecFromInt(v2.Amount).Mul(v1.TaxRate).TruncateInt())",
    "v4 := sdk.NewCoins(v2.Sub(v3))",
    "return v5",
    "return v5",
    "return p1.bk.BurnCoins(p2, types.ModuleName, v4)"] := rfl

theorem createPool_guards : Gen.Coinswap.createPool_guards = [] := rfl
theorem createPool_calls : Gen.Coinswap.createPool_calls = [
    "p1.GetStandardDenom(p2)",
    "p1.getSequence(p2)",
    "types.GetLptDenom(v2)",
    "types.GetPoolId(p3)",
    "types.GetReservePoolAddr(v3).String()",
    "types.GetReservePoolAddr(v3)",
    "p1.setSequence(p2, v2+1)",
    "p1.setPool(p2, v4)"] := rfl
theorem createPool_stmts : Gen.Coinswap.createPool_stmts = [
    "v1, _ := p1.GetStandardDenom(p2)",
    "v2 := p1.getSequence(p2)",
    "v3 := types.GetLptDenom(v2)",
    "v4 := &types.Pool{ Id: types.GetPoolId(p3), StandardDenom: v1, CounterpartyDenom: p3, EscrowAddress: types.GetReservePoolAddr(v3).String(), LptDenom: v3, }",
    "return *v4"] := rfl

theorem getPoolBalances_guards : Gen.Coinswap.getPoolBalances_guards = [
    "v4 == nil"] := rfl
theorem getPoolBalances_calls : Gen.Coinswap.getPoolBalances_calls = [
    "sdk.AccAddressFromBech32(p3)",
    "p1.ak.GetAccount(p2, v3)",
    "p1.bk.GetAllBalances(p2, v4.GetAddress())"] := rfl
theorem getPoolBalances_stmts : Gen.Coinswap.getPoolBalances_stmts = [
    "v3, v2 := sdk.AccAddressFromBech32(p3)",
    "return v1, v2",
    "v4 := p1.ak.GetAccount(p2, v3)",
    "return nil, errorsmod.Wrap(types.ErrReservePoolNotExists, p3)",
    "return p1.bk.GetAllBalances(p2, v4.GetAddress()), nil"] := rfl

theorem getLptDenomFromDenoms_guards : Gen.Coinswap.getLptDenomFromDenoms_guards = [
    "p3 == p4",
    "p3 != v1 && p4 != v1",
    "v2 == v1",
    "!v5"] := rfl
theorem getLptDenomFromDenoms_calls : Gen.Coinswap.getLptDenomFromDenoms_calls = [
    "p1.GetStandardDenom(p2)",
    "types.GetPoolId(v2)",
    "p1.GetPool(p2, v3)"] := rfl
theorem getLptDenomFromDenoms_stmts : Gen.Coinswap.getLptDenomFromDenoms_stmts = [
    "return \"\", types.ErrEqualDenom",
    "v1, _ := p1.GetStandardDenom(p2)",
    "return \"\", errorsmod.Wrap(types.ErrNotContainStandardDenom, fmt.Sprintf(\"standard denom: %s, denom1: %s, denom2: %s\", v1, p3, p4))",
    "v2 := p3",
    "v2 = p4",
    "v3 := types.GetPoolId(v2)",
    "v4, v5 := p1.GetPool(p2, v3)",
    "return \"\", errorsmod.Wrapf(types.ErrReservePoolNotExists, \"liquidity pool token: %s\", v2)",
    "return v4.LptDenom, nil"] := rfl

theorem validateInput_guards : Gen.Coinswap.validateInput_guards = [
    "!(p1.Coin.IsValid() && p1.Coin.IsPositive())",
    "strings.HasPrefix(p1.Coin.Denom, LptTokenPrefix)",
    "err: _, v1 := sdk.AccAddressFromBech32(p1.Address)"] := rfl
theorem validateInput_calls : Gen.Coinswap.validateInput_calls = [
    "sdk.AccAddressFromBech32(p1.Address)"] := rfl
theorem validateInput_stmts : Gen.Coinswap.validateInput_stmts = [
    "return errorsmod.Wrapf(sdkerrors.ErrInvalidCoins, \"invalid input (%s)\", p1.Coin.String())",
    "return errorsmod.Wrapf(sdkerrors.ErrInvalidRequest, \"invalid input denom, should not begin with (%s)\", LptTokenPrefix)",
    "_, v1 := sdk.AccAddressFromBech32(p1.Address)",
    "return errorsmod.Wrapf(sdkerrors.ErrInvalidAddress, \"invalid input address (%s)\", v1)",
    "return nil"] := rfl

theorem validateOutput_guards : Gen.Coinswap.validateOutput_guards = [
    "!(p1.Coin.IsValid() && p1.Coin.IsPositive())",
    "strings.HasPrefix(p1.Coin.Denom, LptTokenPrefix)",
    "err: _, v1 := sdk.AccAddressFromBech32(p1.Address)"] := rfl
theorem validateOutput_calls : Gen.Coinswap.validateOutput_calls = [
    "sdk.AccAddressFromBech32(p1.Address)"] := rfl
theorem validateOutput_stmts : Gen.Coinswap.validateOutput_stmts = [
    "return errorsmod.Wrapf(sdkerrors.ErrInvalidCoins, \"invalid output (%s)\", p1.Coin.String())",
    "return errorsmod.Wrapf(sdkerrors.ErrInvalidRequest, \"invalid output denom, should not begin with (%s)\", LptTokenPrefix)",
    "_, v1 := sdk.AccAddressFromBech32(p1.Address)",
    "return errorsmod.Wrapf(sdkerrors.ErrInvalidAddress, \"invalid output address (%s)\", v1)",
    "return nil"] := rfl

theorem validateDeadline_guards : Gen.Coinswap.validateDeadline_guards = [
    "p1 <= 0"] := rfl
theorem validateDeadline_calls : Gen.Coinswap.validateDeadline_calls = [] := rfl
theorem validateDeadline_stmts : Gen.Coinswap.validateDeadline_stmts = [
    "return errorsmod.Wrap(sdkerrors.ErrInvalidRequest, fmt.Sprintf(\"deadline %d must be greater than 0\", p1))",
    "return nil"] := rfl

theorem validateMaxToken_guards : Gen.Coinswap.validateMaxToken_guards = [
    "!(p1.IsValid() && p1.IsPositive())",
    "strings.HasPrefix(p1.Denom, LptTokenPrefix)"] := rfl
theorem validateMaxToken_calls : Gen.Coinswap.validateMaxToken_calls = [] := rfl
theorem validateMaxToken_stmts : Gen.Coinswap.validateMaxToken_stmts = [
    "return errorsmod.Wrapf(sdkerrors.ErrInvalidCoins, \"invalid maxToken (%s)\", p1.String())",
    "return errorsmod.Wrap(sdkerrors.ErrInvalidRequest, \"max token must be non-liquidity token\")",
    "return nil"] := rfl

theorem validateExactStandardAmt_guards : Gen.Coinswap.validateExactStandardAmt_guards = [
    "!p1.IsPositive()"] := rfl
theorem validateExactStandardAmt_calls : Gen.Coinswap.validateExactStandardAmt_calls = [] := rfl
theorem validateExactStandardAmt_stmts : Gen.Coinswap.validateExactStandardAmt_stmts = [
    "return errorsmod.Wrap(sdkerrors.ErrInvalidRequest, \"standard token amount must be positive\")",
    "return nil"] := rfl

theorem validateMinLiquidity_guards : Gen.Coinswap.validateMinLiquidity_guards = [
    "p1.IsNegative()"] := rfl
theorem validateMinLiquidity_calls : Gen.Coinswap.validateMinLiquidity_calls = [] := rfl
theorem validateMinLiquidity_stmts : Gen.Coinswap.validateMinLiquidity_stmts = [
    "return errorsmod.Wrap(sdkerrors.ErrInvalidRequest, \"minimum liquidity can not be negative\")",
    "return nil"] := rfl

theorem validateMinToken_guards : Gen.Coinswap.validateMinToken_guards = [
    "p1.IsNegative()"] := rfl
theorem validateMinToken_calls : Gen.Coinswap.validateMinToken_calls = [] := rfl
theorem validateMinToken_stmts : Gen.Coinswap.validateMinToken_stmts = [
    "return errorsmod.Wrap(sdkerrors.ErrInvalidCoins, \"minimum token amount can not be negative\")",
    "return nil"] := rfl

theorem validateWithdrawLiquidity_guards : Gen.Coinswap.validateWithdrawLiquidity_guards = [
    "!p1.IsValid() || !p1.IsPositive()",
    "err: v1 := ValidateLptDenom(p1.Denom)"] := rfl
theorem validateWithdrawLiquidity_calls : Gen.Coinswap.validateWithdrawLiquidity_calls = [] := rfl
theorem validateWithdrawLiquidity_stmts : Gen.Coinswap.validateWithdrawLiquidity_stmts = [
    "return errorsmod.Wrapf(sdkerrors.ErrInvalidCoins, \"invalid withdrawLiquidity (%s)\", p1.String())",
    "return v1",
    "return nil"] := rfl

theorem validateMinStandardAmt_guards : Gen.Coinswap.validateMinStandardAmt_guards = [
    "p1.IsNegative()"] := rfl
theorem validateMinStandardAmt_calls : Gen.Coinswap.validateMinStandardAmt_calls = [] := rfl
theorem validateMinStandardAmt_stmts : Gen.Coinswap.validateMinStandardAmt_stmts = [
    "return errorsmod.Wrap(sdkerrors.ErrInvalidRequest, fmt.Sprintf(\"minimum standard token amount %s can not be negative\", p1.String()))",
    "return nil"] := rfl

theorem validateLptDenom_guards : Gen.Coinswap.validateLptDenom_guards = [
    "err: _, v1 := ParseLptDenom(p1)"] := rfl
theorem validateLptDenom_calls : Gen.Coinswap.validateLptDenom_calls = [] := rfl
theorem validateLptDenom_stmts : Gen.Coinswap.validateLptDenom_stmts = [
    "_, v1 := ParseLptDenom(p1)",
    "return errorsmod.Wrap(ErrInvalidDenom, p1)",
    "return nil"] := rfl

theorem parseLptDenom_guards : Gen.Coinswap.parseLptDenom_guards = [
    "len(v1) != 2"] := rfl
theorem parseLptDenom_calls : Gen.Coinswap.parseLptDenom_calls = [] := rfl
theorem parseLptDenom_stmts : Gen.Coinswap.parseLptDenom_stmts = [
    "v1 := strings.Split(p1, \"-\")",
    "return 0, fmt.Errorf(\"invalid lpt denom: %s\", p1)",
    "return strconv.ParseUint(v1[1], 10, 64)"] := rfl

theorem getReservePoolAddr_guards : Gen.Coinswap.getReservePoolAddr_guards = [] := rfl
theorem getReservePoolAddr_calls : Gen.Coinswap.getReservePoolAddr_calls = [] := rfl
theorem getReservePoolAddr_stmts : Gen.Coinswap.getReservePoolAddr_stmts = [
    "return sdk.AccAddress(crypto.AddressHash([]byte(p1)))"] := rfl

theorem getLptDenom_guards : Gen.Coinswap.getLptDenom_guards = [] := rfl
theorem getLptDenom_calls : Gen.Coinswap.getLptDenom_calls = [] := rfl
theorem getLptDenom_stmts : Gen.Coinswap.getLptDenom_stmts = [
    "return fmt.Sprintf(LptTokenFormat, p1)"] := rfl

end CV.Bridge.CoinswapFacts
