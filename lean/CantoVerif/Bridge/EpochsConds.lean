import CantoVerif.Gen.EpochsConds
import CantoVerif.Model.Epochs
/-!
# Bridge: the decision expressions of the epochs `BeginBlocker` and the two mutators of `EpochInfo`,
regenerated from `/repo` by `factx` (conds.go), ARE the model's (`rfl`).

`shouldInitialEpochStart`, `shouldEpochEnd` (with `epochEndTime` inlined) of `x/epochs/keeper/abci.go`; the
right-hand sides of the assignments of `StartInitialEpoch` and `EndEpoch` in `x/epochs/types/epoch_info.go`.
`time.Time` / `time.Duration` are integers of nanoseconds on both sides (`a.After(b)` is `b < a`).
A change of a comparison (`After` → `!Before`), of a conjunct, of the end-time expression or of a mutator's
right-hand side changes the generated term and breaks the corresponding `rfl`.
-/
namespace CV.Bridge.Epochs
open CV CV.Epochs

theorem shouldStart_bridge (e : EpochInfo) (now : Int) :
    Gen.EpochsConds.shouldInitialEpochStart e.started e.start e.curStart e.dur now = shouldStart e now := rfl

theorem shouldEnd_bridge (e : EpochInfo) (now : Int) :
    Gen.EpochsConds.shouldEpochEnd e.started e.start e.curStart e.dur now = shouldEnd e now := rfl

theorem startInitial_bridge (e : EpochInfo) (h : Int) :
    (startInitial e h).started = Gen.EpochsConds.startStarted e.start e.curStart e.dur e.cur ∧
    (startInitial e h).cur = Gen.EpochsConds.startCur e.start e.curStart e.dur e.cur ∧
    (startInitial e h).curStart = Gen.EpochsConds.startCurStart e.start e.curStart e.dur e.cur := ⟨rfl, rfl, rfl⟩

theorem endEpoch_bridge (e : EpochInfo) (h : Int) :
    (endEpoch e h).cur = Gen.EpochsConds.endCur e.start e.curStart e.dur e.cur ∧
    (endEpoch e h).curStart = Gen.EpochsConds.endCurStart e.start e.curStart e.dur e.cur := ⟨rfl, rfl⟩

end CV.Bridge.Epochs
