import CantoVerif.Gen.EpochsConds
import CantoVerif.Model.Epochs
/-!
# Bridge: the decision expressions of the epochs `BeginBlocker` and the two mutators of `EpochInfo`,
regenerated from `/repo` by `factx` (conds.go), ARE the model's.

`shouldInitialEpochStart`, `shouldEpochEnd` (with `epochEndTime` inlined) of `x/epochs/keeper/abci.go`; the
right-hand sides of the assignments of `StartInitialEpoch` and `EndEpoch` in `x/epochs/types/epoch_info.go`.
`time.Time` / `time.Duration` are integers of nanoseconds on both sides (`a.After(b)` is `b < a`).
A change of a comparison (`After` → `!Before`), of a conjunct, of the end-time expression or of a mutator's
right-hand side changes the generated term and breaks the corresponding theorem.  The proofs try `rfl` first and fall back to a
decision by cases (the started flag, block time before the start time, block time past the end time; `omega` for what is left),
so that an *equivalent* reformulation of a condition (conjuncts reordered, a sub-condition hoisted into a local, `x.After(y)`
written `y.Before(x)`) still checks, while any reformulation that differs on some input does not.
-/
namespace CV.Bridge.Epochs
open CV CV.Epochs

theorem shouldStart_bridge (e : EpochInfo) (now : Int) :
    Gen.EpochsConds.shouldInitialEpochStart e.started e.start e.curStart e.dur now = shouldStart e now := by
  first
  | rfl
  | (simp only [Gen.EpochsConds.shouldInitialEpochStart, shouldStart]
     cases e.started <;> by_cases h1 : now < e.start <;> by_cases h2 : e.curStart + e.dur < now <;> simp [h1, h2] <;> omega)

theorem shouldEnd_bridge (e : EpochInfo) (now : Int) :
    Gen.EpochsConds.shouldEpochEnd e.started e.start e.curStart e.dur now = shouldEnd e now := by
  first
  | rfl
  | (simp only [Gen.EpochsConds.shouldEpochEnd, shouldEnd, shouldStart]
     cases e.started <;> by_cases h1 : now < e.start <;> by_cases h2 : e.curStart + e.dur < now <;> simp [h1, h2] <;> omega)

theorem startInitial_bridge (e : EpochInfo) (h : Int) :
    (startInitial e h).started = Gen.EpochsConds.startStarted e.start e.curStart e.dur e.cur ∧
    (startInitial e h).cur = Gen.EpochsConds.startCur e.start e.curStart e.dur e.cur ∧
    (startInitial e h).curStart = Gen.EpochsConds.startCurStart e.start e.curStart e.dur e.cur := by
  first
  | exact ⟨rfl, rfl, rfl⟩
  | (simp [startInitial, Gen.EpochsConds.startStarted, Gen.EpochsConds.startCur, Gen.EpochsConds.startCurStart] <;> omega)

theorem endEpoch_bridge (e : EpochInfo) (h : Int) :
    (endEpoch e h).cur = Gen.EpochsConds.endCur e.start e.curStart e.dur e.cur ∧
    (endEpoch e h).curStart = Gen.EpochsConds.endCurStart e.start e.curStart e.dur e.cur := by
  first
  | exact ⟨rfl, rfl⟩
  | (simp [endEpoch, Gen.EpochsConds.endCur, Gen.EpochsConds.endCurStart] <;> omega)

end CV.Bridge.Epochs
