import CantoVerif.Gen.InflationFormulas
import CantoVerif.Model.Inflation
/-!
# Bridge: the inflation kernels regenerated from `/repo` by `factx` ARE the model's kernels (`rfl`).
`CalculateEpochMintProvision` (the whole function, including the clamp of the bonded ratio at the
bonding target) and `GetProportions`.
-/
namespace CV.Bridge.Inflation
open CV CV.Inflation

theorem provision_bridge (p : Params) (x epp b : Nat) :
    Gen.Inflation.provision p.a p.r p.c p.bondingTarget p.maxVariance x epp b = Inflation.provision p x epp b := rfl

theorem stakingShare_bridge : @Gen.Inflation.stakingShare = @Inflation.stakingShare := rfl

end CV.Bridge.Inflation
