import CantoVerif.Gen.EpochsCounters
import CantoVerif.Gen.InflationCounters
import CantoVerif.Model.Epochs
import CantoVerif.Model.Inflation
/-!
# Bridge: the stored counters' increments as the machine performs them = the model's `+ 1`, below the wrap.

`CurrentEpoch++` (int64, `EndEpoch`), `skippedEpochs++` and `period++` (uint64, `AfterEpochEnd`) are regenerated from the
source over `Int64` / `UInt64` (`factx/conds.go`).  The model keeps the counters in `Int` / `Nat`.  These theorems say the
two agree while the counter is below 2^62; `Props/C13NoWrap.lean` (`cur_block_bound`, `counters_block_bound`,
`period_product_bound`) shows every history of fewer than 2^60 blocks keeps all three below its block count, so in
reachable states the model's unbounded counters are the stored ones.
-/
namespace CV.Bridge.Counters
open CV

private theorem bmod_id {x : Int} (h1 : -(2 ^ 63 : Int) ≤ x) (h2 : x < (2 ^ 63 : Int)) : x.bmod (2 ^ 64) = x := by
  apply Int.bmod_eq_of_le <;> omega

/-- `ei.CurrentEpoch++` on an `int64` is the model's `cur + 1` (`Epochs.endEpoch`) for 0 ≤ cur < 2^62 -/
theorem endCur_nowrap (c : Int) (h0 : 0 ≤ c) (h1 : c < (2 ^ 62 : Int)) (e : Epochs.EpochInfo) (h : Int) (hc : e.cur = c) :
    (Gen.EpochsCounters.endCur64 (Int64.ofInt c)).toInt = (Epochs.endEpoch e h).cur := by
  have e0 : (Int64.ofInt c).toInt = c := by rw [Int64.toInt_ofInt]; exact bmod_id (by omega) (by omega)
  have e1 : (1 : Int64).toInt = 1 := by decide
  show (Int64.ofInt c + 1).toInt = e.cur + 1
  rw [Int64.toInt_add, e0, e1, hc]; exact bmod_id (by omega) (by omega)

/-- `skippedEpochs++` / `period++` on a `uint64` are the model's `+ 1` for values below 2^62 -/
theorem skipped_nowrap (k : Nat) (h : k < 2 ^ 62) : (Gen.InflationCounters.skippedNext (UInt64.ofNat k)).toNat = k + 1 := by
  show (UInt64.ofNat k + 1).toNat = k + 1
  rw [UInt64.toNat_add, UInt64.toNat_ofNat']
  have : (1 : UInt64).toNat = 1 := by decide
  rw [this, Nat.mod_eq_of_lt (by omega : k < 2 ^ 64)]
  exact Nat.mod_eq_of_lt (by omega)

theorem period_nowrap (k : Nat) (h : k < 2 ^ 62) : (Gen.InflationCounters.periodNext (UInt64.ofNat k)).toNat = k + 1 := by
  show (UInt64.ofNat k + 1).toNat = k + 1
  rw [UInt64.toNat_add, UInt64.toNat_ofNat']
  have : (1 : UInt64).toNat = 1 := by decide
  rw [this, Nat.mod_eq_of_lt (by omega : k < 2 ^ 64)]
  exact Nat.mod_eq_of_lt (by omega)

/-- at the top of the range the machine wraps where the model does not -/
theorem counters_wrap_at_top :
    (Gen.InflationCounters.skippedNext (UInt64.ofNat (2 ^ 64 - 1))).toNat = 0 ∧
    (Gen.EpochsCounters.endCur64 (Int64.ofInt (2 ^ 63 - 1))).toInt = -(2 ^ 63) := by decide

end CV.Bridge.Counters
