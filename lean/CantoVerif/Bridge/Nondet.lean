import CantoVerif.Gen.Nondet
/-!
# Bridge (C06, Tie 1): every nondeterminism source that `factx` finds in consensus code has been reviewed.

`Gen/Nondet.lean` is regenerated from the repository's working tree on every check run (ranges over maps, wall-clock
reads, random numbers, environment reads, goroutines, writes to package-level variables outside `init`, keeper methods
writing receiver fields). The whitelist below holds each item found on the reviewed tree with a one-line reason why it
cannot influence consensus state. A new item, or a reviewed statement whose text changed (the shape hash differs), is
not in the whitelist: `nondet_reviewed` stops checking and the C06 check reports the obligation.
-/
namespace CV.Bridge
open CV.Gen

/-- (item, reason it is harmless) -/
def reviewedWhitelist : List (NondetItem × String) := [
  (⟨"rangeMap", "app/app.go", "(*Canto).BlockedAddrs", "maccPerms", "139b331b51"⟩,
    "loop body only inserts into a result map (a set of addresses): the result does not depend on the iteration order"),
  (⟨"rangeMap", "app/app.go", "(*Canto).GetStoreKeys", "app.keys", "a4073f433e"⟩,
    "testing helper (called from app_test.go / sim_test.go only); the order of the returned slice never reaches consensus code"),
  (⟨"rangeMap", "app/app.go", "(*Canto).ModuleAccountAddrs", "maccPerms", "8b8d88fae0"⟩,
    "loop body only inserts into a result map (a set of addresses): order-insensitive"),
  (⟨"goStmt", "app/app.go", "NewCanto", "func() { _ = app.tpsCounter.start(context.Background()) }", "ee5a0ae429"⟩,
    "the transactions-per-second counter: logs a number periodically, reads two atomic counters, writes no store"),
  (⟨"pkgVarWrite", "app/app.go", "NewCanto", "legacytx.RegressionTestingAminoCodec", "207c6d660a"⟩,
    "wiring-time assignment of the amino codec when the application object is constructed; the same value on every construction"),
  (⟨"random", "app/state.go", "AppStateFn", "math/rand.Rand", "981bd13573"⟩,
    "simulator genesis generation (a *rand.Rand parameter type of the simulation framework); not reachable from block execution"),
  (⟨"random", "app/state.go", "AppStateRandomizedFn", "math/rand.Rand", "981bd13573"⟩,
    "simulator genesis generation; not reachable from block execution"),
  (⟨"wallClock", "x/epochs/keeper/abci.go", "(Keeper).BeginBlocker", "time.Now", "8e7e606818"⟩,
    "the statement is `defer telemetry.ModuleMeasureSince(..., time.Now(), ...)`: a metrics gauge only; the epoch logic reads ctx.BlockTime()"),
  (⟨"recvFieldWrite", "x/epochs/keeper/keeper.go", "(*Keeper).SetHooks", "k.hooks", "9a3aba0993"⟩,
    "wiring time (app.go, once per construction, panics if set twice); identical after every restart"),
  (⟨"recvFieldWrite", "x/onboarding/keeper/keeper.go", "(*Keeper).SetErc20Keeper", "k.erc20Keeper", "a0c0a6dde2"⟩,
    "test wiring helper replacing a keeper dependency; not called during block execution"),
  (⟨"recvFieldWrite", "x/onboarding/keeper/keeper.go", "(*Keeper).SetICS4Wrapper", "k.ics4Wrapper", "3599b78e46"⟩,
    "wiring time (app.go), once per construction"),
  (⟨"recvFieldWrite", "x/onboarding/keeper/keeper.go", "(*Keeper).SetTransferKeeper", "k.transferKeeper", "54221fca6c"⟩,
    "wiring time (app.go), once per construction"),
  (⟨"recvFieldWrite", "x/epochs/types/epoch_info.go", "(*EpochInfo).EndEpoch", "ei.CurrentEpochStartTime", "bea0059370"⟩,
    "EpochInfo is a value decoded from the store for one BeginBlocker iteration, mutated and written back (SetEpochInfo); it does not outlive the call"),
  (⟨"recvFieldWrite", "x/epochs/types/epoch_info.go", "(*EpochInfo).StartInitialEpoch", "ei.CurrentEpoch", "ff8766f2b3"⟩,
    "as above: a decoded record of one iteration, written back to the store"),
  (⟨"recvFieldWrite", "x/epochs/types/epoch_info.go", "(*EpochInfo).StartInitialEpoch", "ei.CurrentEpochStartTime", "f0cb6d6e42"⟩,
    "as above"),
  (⟨"recvFieldWrite", "x/epochs/types/epoch_info.go", "(*EpochInfo).StartInitialEpoch", "ei.EpochCountingStarted", "83540840f4"⟩,
    "as above"),
  (⟨"syncUse", "app/tps_counter.go", "(*tpsCounter).incrementFailure", "sync/atomic.AddUint64", "40d70e4d80"⟩,
    "the transactions-per-second counter (metrics): an atomic counter that is only logged, never written to a store"),
  (⟨"syncUse", "app/tps_counter.go", "(*tpsCounter).incrementSuccess", "sync/atomic.AddUint64", "4bf199730a"⟩,
    "as above"),
  (⟨"syncUse", "app/tps_counter.go", "(*tpsCounter).start", "sync/atomic.LoadUint64", "66711c5448"⟩,
    "as above: read for the periodic log line"),
  (⟨"syncUse", "app/tps_counter.go", "(*tpsCounter).start", "sync/atomic.LoadUint64", "b5c27b3c0b"⟩,
    "as above")
]

/-- **Every regenerated nondeterminism source is a reviewed one.** -/
theorem nondet_reviewed : ∀ i ∈ nondet, i ∈ reviewedWhitelist.map (·.1) := by decide +kernel

/-- the scan did look at the consensus packages (guards against an extractor that silently found no files) -/
theorem nondet_scanned : 30 ≤ nondetPackagesScanned := by decide

end CV.Bridge
