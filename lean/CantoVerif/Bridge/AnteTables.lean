import CantoVerif.Gen.AnteTables
import CantoVerif.Model.Ante
/-!
# Bridge: the admission wiring the C19 model assumes, read off the source as tables (`factx/tables.go`).

These are obligations of C19 (unlike the text facts of `Bridge/AnteFacts.lean`, which only widen the search): the model's
`route` / `cosmosChain` / `disabledList` are *about* this wiring, so a change to it must break a named theorem.

* every Cosmos-path chain (deliver, simulation, EIP-712) starts with ethermint's `RejectMessagesDecorator` followed by ethermint's
  `AuthzLimiterDecorator` — nothing runs before them — and `ethante` is ethermint's `app/ante` package, not a look-alike;
* the Ethereum chain contains `EthValidateBasicDecorator` (the shape checks the model's `ethChain` transcribes), before the
  signature check;
* the dispatcher has exactly two `case`s — the Ethereum option to the Ethereum chain, the Web3 option to the EIP-712 chain —
  and its `default` rejects;
* `DisabledAuthzMsgs` is exactly the model's `disabledList` (Go message types mapped to their protobuf type URLs by the reviewed
  table `urlOf`).
-/
namespace CV.Bridge.AnteTables
open CV CV.Ante

theorem cosmos_chains_start_with_reject_then_authz :
    Gen.AnteTables.cosmosChain.take 2 = ["ethante.RejectMessagesDecorator", "ethante.NewAuthzLimiterDecorator"] ∧
    Gen.AnteTables.cosmosSimChain.take 2 = ["ethante.RejectMessagesDecorator", "ethante.NewAuthzLimiterDecorator"] ∧
    Gen.AnteTables.eip712Chain.take 2 = ["ethante.RejectMessagesDecorator", "ethante.NewAuthzLimiterDecorator"] := by decide

theorem ethante_is_ethermint : Gen.AnteTables.ethanteImport = ["github.com/evmos/ethermint/app/ante"] := by decide

theorem eth_chain_validates_shape_before_signature :
    Gen.AnteTables.ethChain.take 5 = ["ethante.NewEthSetUpContextDecorator", "ethante.NewEthMempoolFeeDecorator",
      "ethante.NewEthMinGasPriceDecorator", "ethante.NewEthValidateBasicDecorator", "ethante.NewEthSigVerificationDecorator"] := by decide

theorem ext_dispatch :
    Gen.AnteTables.extCases = [ethOpt, web3Opt] ∧
    Gen.AnteTables.extHandlers = ["newEthAnteHandler", "newCosmosAnteHandlerEip712"] ∧
    Gen.AnteTables.extDefault = "reject" := by decide

/-- reviewed table: Go message type ↦ protobuf type URL (`sdk.MsgTypeURL`) -/
def urlOf (goType : String) : String :=
  if goType = "evmtypes.MsgEthereumTx" then "/ethermint.evm.v1.MsgEthereumTx"
  else if goType = "vestingtypes.MsgCreateVestingAccount" then "/cosmos.vesting.v1beta1.MsgCreateVestingAccount"
  else if goType = "vestingtypes.MsgCreatePermanentLockedAccount" then "/cosmos.vesting.v1beta1.MsgCreatePermanentLockedAccount"
  else if goType = "vestingtypes.MsgCreatePeriodicVestingAccount" then "/cosmos.vesting.v1beta1.MsgCreatePeriodicVestingAccount"
  else "?"

theorem disabled_list_bridge : Gen.AnteTables.disabledAuthzTypes.map urlOf = disabledList := by decide

end CV.Bridge.AnteTables
