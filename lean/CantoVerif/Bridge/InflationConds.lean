import CantoVerif.Gen.InflationConds
import CantoVerif.Model.Inflation
/-!
# Bridge: the period-boundary test of `AfterEpochEnd`, regenerated from `/repo` over Go's fixed-width integers,
agrees with the model's unbounded one wherever nothing wraps.

`Gen.InflationConds.periodPassed` is the condition of the `if` of `x/inflation/keeper/hooks.go` as the
compiler sees it: `int64` subtraction and multiplication that wrap modulo 2^64, `int64(period)` and
`int64(skippedEpochs)` reinterpreting `uint64` bits.  `Inflation.periodPassed` (the model) computes in `Int`.
`periodPassed_nowrap` proves they coincide whenever `|epochNumber| < 2^61`, `epochsPerPeriod · period < 2^61`
and `skippedEpochs < 2^61` (at one epoch per second that is 73 billion years of chain history), so every C13
theorem about the boundary transfers to the machine arithmetic in that range.  `wraps_beyond` is the witness
that the range hypothesis is not decoration: with `skippedEpochs = 2^64 − 1000` the machine test says "period passed"
where the mathematical one does not.
-/
namespace CV.Bridge.Inflation
open CV CV.Inflation

private theorem bmod_id {x : Int} (h1 : -(2 ^ 63 : Int) ≤ x) (h2 : x < (2 ^ 63 : Int)) : x.bmod (2 ^ 64) = x := by
  apply Int.bmod_eq_of_le <;> omega

private theorem toInt_ofNat_toInt64 {k : Nat} (h : k < 2 ^ 62) : (UInt64.ofNat k).toInt64.toInt = (k : Int) := by
  show (BitVec.ofNat 64 k).toInt = (k : Int)
  rw [BitVec.toInt_ofNat']
  exact bmod_id (by omega) (by omega)

private theorem toInt_ofInt {x : Int} (h1 : -(2 ^ 62 : Int) ≤ x) (h2 : x < (2 ^ 62 : Int)) : (Int64.ofInt x).toInt = x := by
  rw [Int64.toInt_ofInt]; exact bmod_id (by omega) (by omega)

/-- the machine-integer boundary test regenerated from the source equals the model's unbounded one
whenever the operands are in the range where nothing wraps -/
theorem periodPassed_nowrap (n : Int) (epp period skipped : Nat)
    (hn1 : -(2 ^ 61 : Int) ≤ n) (hn2 : n < (2 ^ 61 : Int)) (he : epp < 2 ^ 62) (hp : period < 2 ^ 62)
    (hep : epp * period < 2 ^ 61) (hs : skipped < 2 ^ 61) :
    Gen.InflationConds.periodPassed (Int64.ofInt n) (Int64.ofInt epp) (UInt64.ofNat period) (UInt64.ofNat skipped)
      = Inflation.periodPassed n epp period skipped := by
  have hepI : ((epp : Int) * (period : Int)) < (2 ^ 61 : Int) := by exact_mod_cast hep
  have hep0 : (0 : Int) ≤ (epp : Int) * (period : Int) := Int.mul_nonneg (Int.natCast_nonneg _) (Int.natCast_nonneg _)
  have e1 : (Int64.ofInt (epp : Int)).toInt = (epp : Int) := toInt_ofInt (by omega) (by omega)
  have e2 : (UInt64.ofNat period).toInt64.toInt = (period : Int) := toInt_ofNat_toInt64 hp
  have e3 : (UInt64.ofNat skipped).toInt64.toInt = (skipped : Int) := toInt_ofNat_toInt64 (by omega)
  have e0 : (Int64.ofInt n).toInt = n := toInt_ofInt (by omega) (by omega)
  have m1 : (Int64.ofInt (epp : Int) * (UInt64.ofNat period).toInt64).toInt = (epp : Int) * (period : Int) := by
    rw [Int64.toInt_mul, e1, e2]; exact bmod_id (by omega) (by omega)
  have s1 : (Int64.ofInt n - Int64.ofInt (epp : Int) * (UInt64.ofNat period).toInt64).toInt = n - (epp : Int) * (period : Int) := by
    rw [Int64.toInt_sub, e0, m1]; exact bmod_id (by omega) (by omega)
  have s2 : (Int64.ofInt n - Int64.ofInt (epp : Int) * (UInt64.ofNat period).toInt64 - (UInt64.ofNat skipped).toInt64).toInt
      = n - (epp : Int) * (period : Int) - (skipped : Int) := by
    rw [Int64.toInt_sub, s1, e3]
    have hs' : ((skipped : Int)) < (2 ^ 61 : Int) := by exact_mod_cast hs
    exact bmod_id (by omega) (by omega)
  unfold Gen.InflationConds.periodPassed Inflation.periodPassed
  rw [decide_eq_decide, GT.gt, GT.gt, Int64.lt_iff_toInt_lt, s2, e1]

/-- outside that range the two differ: 2^64 − 1000 skipped epochs read as −1000 by `int64(...)` -/
theorem wraps_beyond :
    Gen.InflationConds.periodPassed (Int64.ofInt 1) (Int64.ofInt 365) (UInt64.ofNat 0) (UInt64.ofNat (2 ^ 64 - 1000))
      ≠ Inflation.periodPassed 1 365 0 (2 ^ 64 - 1000) := by decide

/-- non-vacuity of `periodPassed_nowrap`: both sides fire at the documented example (741, 365, 1, 10) -/
example : Gen.InflationConds.periodPassed (Int64.ofInt 741) (Int64.ofInt 365) (UInt64.ofNat 1) (UInt64.ofNat 10) = true ∧
    Inflation.periodPassed 741 365 1 10 = true := by decide

end CV.Bridge.Inflation
