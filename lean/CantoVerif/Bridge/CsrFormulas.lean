import CantoVerif.Gen.CsrFormulas
import CantoVerif.Model.Csr
/-!
# Bridge: the CSR share computation regenerated from `/repo` by `factx` IS the model's kernel (`rfl`).
-/
namespace CV.Bridge.Csr
open CV

theorem csrFee_bridge : @Gen.Csr.csrFee = @CV.Csr.csrFeeOf := rfl

end CV.Bridge.Csr
