import CantoVerif.Model.Params
/-!
# C17 as executable predicates on one observed transition.

The same predicates are proved of every transition of the model (`Props/C17.lean`,
`model_step_monitors`) and evaluated by the driver on every transition observed on the
implementation.  Core Lean only.
-/
namespace CV
namespace Params
namespace Spec

/-- one privileged message as observed: the state before, the message, the verdict, what the
handler had written on its branch when it gave up (`bd`: any store of the application differed;
`branch`: the parameters read on that branch), and the state afterwards -/
structure Tr where
  gov : String
  pre : State
  op : Op
  ok : Bool
  bd : Bool
  branch : State
  post : State

def sameParams (a b : State) : Bool :=
  decide (a.cs = b.cs) && decide (a.erc = b.erc) && decide (a.inf = b.inf) && decide (a.csr = b.csr) && decide (a.onb = b.onb)

def sameAll (a b : State) : Bool :=
  sameParams a b && a.pairs == b.pairs && a.port == b.port && a.dg == b.dg && a.dgx == b.dgx

/-- an authority other than the governance module account is refused -/
def wrongAuthorityRejected (t : Tr) : Bool := t.op.auth == t.gov || !t.ok

/-- … and the handler has not touched anything when it refuses it (the comparison comes first) -/
def authorityFirst (t : Tr) : Bool := t.op.auth == t.gov || (!t.bd && sameParams t.branch t.pre)

/-- a rejected message leaves parameters, registry size, port and every store as they were -/
def rejectedUnchanged (t : Tr) : Bool := t.ok || sameAll t.pre t.post

/-- whatever was attempted, what is stored satisfies every module's rules -/
def storedValid (t : Tr) : Bool := t.post.valid

/-- an accepted update is stored as submitted; the other modules' parameters and everything outside
the params store stay as they were -/
def storedAsGiven (t : Tr) : Bool :=
  !t.ok ||
  (match t.op with
   | .updCs _ p => decide (t.post.cs = p) && decide (t.post.erc = t.pre.erc) && decide (t.post.inf = t.pre.inf) &&
                   decide (t.post.csr = t.pre.csr) && decide (t.post.onb = t.pre.onb)
   | .updErc _ p => decide (t.post.erc = p) && decide (t.post.cs = t.pre.cs) && decide (t.post.inf = t.pre.inf) &&
                   decide (t.post.csr = t.pre.csr) && decide (t.post.onb = t.pre.onb)
   | .updInf _ p => decide (t.post.inf = p) && decide (t.post.cs = t.pre.cs) && decide (t.post.erc = t.pre.erc) &&
                   decide (t.post.csr = t.pre.csr) && decide (t.post.onb = t.pre.onb)
   | .updCsr _ p => decide (t.post.csr = p) && decide (t.post.cs = t.pre.cs) && decide (t.post.erc = t.pre.erc) &&
                   decide (t.post.inf = t.pre.inf) && decide (t.post.onb = t.pre.onb)
   | .updOnb _ p => decide (t.post.onb = p) && decide (t.post.cs = t.pre.cs) && decide (t.post.erc = t.pre.erc) &&
                   decide (t.post.inf = t.pre.inf) && decide (t.post.csr = t.pre.csr)
   | .priv _ _ => sameParams t.post t.pre
   | .legacy _ _ => true) &&
  (match t.op with
   | .priv _ _ => true
   | _ => t.post.dgx == t.pre.dgx && t.post.pairs == t.pre.pairs && t.post.port == t.pre.port)

def monitors : List (String × String × (Tr → Bool)) :=
  [ ("C17", "wrong_authority_rejected", wrongAuthorityRejected),
    ("C17", "authority_first", authorityFirst),
    ("C17", "rejected_unchanged", rejectedUnchanged),
    ("C17", "stored_params_valid", storedValid),
    ("C17", "accepted_stored_as_given", storedAsGiven) ]

/-- the transition the model makes -/
def ofModel (gov : String) (x : Ext) (s : State) (op : Op) : Tr :=
  let r := handle gov x s op
  let ok := okB r.res
  { gov := gov, pre := s, op := op, ok := ok, bd := !ok && decide (r.st ≠ s), branch := r.st, post := exec gov x s op }

end Spec
end Params
end CV
