import CantoVerif.Model.Csr
/-!
# Observable statements of C10 and C16 as executable predicates on one transition
`(pre-state, operation, accepted?, post-state)`.

They are (a) what `Props/C10.lean` / `Props/C16.lean` prove of every transition of the model and
(b) what the driver evaluates on every transition observed on the implementation.  Core Lean only.
-/
namespace CV
namespace Csr
namespace Spec

structure Tr where
  env : Env
  pre : State
  op : Op
  ok : Bool
  post : State

/-- 2^255 -/
def HALF : Nat := 57896044618658097711785492504343953926634992332820282019728792003956564819968

/-! ## the registry invariant, executable -/

/-- `lookup idx c = some n → ∃ r, lookup csrs n = some r ∧ c ∈ r.contracts` over the keys present -/
def idxSoundB (s : State) : Bool :=
  s.idx.all (fun p =>
    match s.nftOf p.1 with
    | none => true
    | some n => (match s.getCSR n with
                 | some r => r.contracts.contains p.1
                 | none => false))

/-- every record: stored under its own id, duplicate-free, and each of its contracts indexed to it -/
def csrsOkB (s : State) : Bool :=
  s.csrs.all (fun p =>
    match s.getCSR p.1 with
    | none => true
    | some r => r.id == p.1 && decide r.contracts.Nodup && r.contracts.all (fun c => s.nftOf c == some p.1))

def regInvB (s : State) : Bool := idxSoundB s && csrsOkB s

/-- registry equality as finite maps -/
def csrsEq (a b : State) : Bool :=
  a.csrs.all (fun p => b.getCSR p.1 == a.getCSR p.1) && b.csrs.all (fun p => a.getCSR p.1 == b.getCSR p.1)
def idxEq (a b : State) : Bool :=
  a.idx.all (fun p => b.nftOf p.1 == a.nftOf p.1) && b.idx.all (fun p => a.nftOf p.1 == b.nftOf p.1)

def balKeys (a b : State) : List (Addr × Denom) := (a.bank.bal.keys ++ b.bank.bal.keys).eraseDups
def supKeys (a b : State) : List Denom := (a.bank.sup.keys ++ b.bank.sup.keys).eraseDups

def sameBank (a b : State) : Bool :=
  (balKeys a b).all (fun k => a.bank.get k.1 k.2 == b.bank.get k.1 k.2) &&
  (supKeys a b).all (fun d => a.bank.supply d == b.bank.supply d)

def sameState (a b : State) : Bool :=
  sameBank a b && csrsEq a b && idxEq a b && a.tsBal.eqv b.tsBal && a.params == b.params && a.turnstile == b.turnstile

/-- fee collector, module account, evm module account and Turnstile are four different accounts -/
def distinct (env : Env) (ts : Addr) : Bool :=
  env.feeCollector != env.modAddr && env.feeCollector != env.evmAddr && env.feeCollector != ts &&
  env.modAddr != env.evmAddr && env.modAddr != ts && env.evmAddr != ts

/-- is this hook invocation a fee-bearing transaction processed while CSR is enabled, on a sound wiring? -/
def feeTx (t : Tr) (gu : Nat) : Option Addr :=
  match t.pre.turnstile with
  | some ts => if t.ok && t.pre.params.enabled && gu != 0 && distinct t.env ts then some ts else none
  | none => none

/-! ## C10 -/

/-- magnitudes far below the 256-bit range (every real supply is): total supply under 2^255 and covering
the four accounts involved, recorded revenues and Turnstile balances under 2^255 -/
def sane (env : Env) (s : State) (ts : Addr) : Bool :=
  decide (s.bank.supply env.denom < HALF) &&
  decide (s.bank.get env.feeCollector env.denom + s.bank.get env.modAddr env.denom + s.bank.get env.evmAddr env.denom +
          s.bank.get ts env.denom ≤ s.bank.supply env.denom) &&
  s.csrs.all (fun p => decide (p.2.revenue < HALF)) &&
  s.tsBal.items.all (fun p => decide (p.2 < HALF))

/-- the hypotheses of `never_fails_for_valid_share`: Turnstile deployed, four different accounts, share in [0,1],
the fee collector holds the fee, sane magnitudes, consistent registry -/
def neverFailsPre (env : Env) (s : State) (gu gp : Nat) : Bool :=
  match s.turnstile with
  | none => false
  | some ts =>
    distinct env ts && decide (s.params.share ≤ S18) && decide (gu * gp ≤ s.bank.get env.feeCollector env.denom) &&
    sane env s ts && regInvB s

/-- the hook does not fail a transaction whose fee the fee collector holds, whatever the accepted share -/
def c10_never_fails (t : Tr) : Bool :=
  match t.op with
  | .postTx _ gu gp _ => t.ok || !(t.pre.params.enabled == false || neverFailsPre t.env t.pre gu gp)
  | _ => true

/-- exactly `gasUsed·gasPrice` of the EVM denomination leaves the fee collector, nothing else of it -/
def c10_fee_leaves_collector (t : Tr) : Bool :=
  match t.op with
  | .postTx _ gu gp _ =>
    (match feeTx t gu with
     | none => true
     | some _ =>
       let fc := t.env.feeCollector
       (balKeys t.pre t.post).all (fun k =>
         k.1 != fc ||
         (if k.2 == t.env.denom then t.post.bank.get fc k.2 + gu * gp == t.pre.bank.get fc k.2
          else t.post.bank.get fc k.2 == t.pre.bank.get fc k.2)) &&
       t.post.bank.get fc t.env.denom + gu * gp == t.pre.bank.get fc t.env.denom)
  | _ => true

/-- the target of the transaction as the fee split sees it: the NFT it is registered to once the
receipt's own events are processed -/
def targetNft (t : Tr) (to : Option Addr) : Option Nat :=
  match to with
  | none => none
  | some c => t.post.nftOf c

/-- registered target: `⌊fee·share⌋` is credited to the NFT in the Turnstile and added to its revenue,
its transaction count grows by one, the remainder is burned -/
def c10_registered_split (t : Tr) : Bool :=
  match t.op with
  | .postTx to gu gp _ =>
    (match feeTx t gu, targetNft t to with
     | some ts, some n =>
       let fee := gu * gp
       let csrFee := fee * t.pre.params.share / S18
       let preTxs := ((t.pre.getCSR n).map (·.txs)).getD 0
       let preRev := ((t.pre.getCSR n).map (·.revenue)).getD 0
       (match t.post.getCSR n with
        | none => false
        | some r' =>
          r'.revenue == preRev + csrFee &&
          (!decide (preTxs + 1 < U64) || r'.txs == preTxs + 1) &&
          t.post.tsBal.get n == t.pre.tsBal.get n + csrFee &&
          t.post.bank.get ts t.env.denom == t.pre.bank.get ts t.env.denom + csrFee &&
          t.post.bank.supply t.env.denom + (fee - csrFee) == t.pre.bank.supply t.env.denom &&
          decide (csrFee ≤ fee))
     | _, _ => true)
  | _ => true

/-- contract creation or unregistered target: the whole fee is burned; no NFT is credited -/
def c10_burn_all (t : Tr) : Bool :=
  match t.op with
  | .postTx to gu gp _ =>
    (match feeTx t gu, targetNft t to with
     | some ts, none =>
       t.post.bank.supply t.env.denom + gu * gp == t.pre.bank.supply t.env.denom &&
       t.post.bank.get ts t.env.denom == t.pre.bank.get ts t.env.denom &&
       t.post.tsBal.eqv t.pre.tsBal &&
       t.post.csrs.all (fun p =>
         match t.post.getCSR p.1 with
         | none => true
         | some r' =>
           r'.txs == ((t.pre.getCSR p.1).map (·.txs)).getD 0 && r'.revenue == ((t.pre.getCSR p.1).map (·.revenue)).getD 0)
     | _, _ => true)
  | _ => true

/-- afterwards the CSR module account (and the evm module account the EVM transfer passes through) hold
what they held before, in every denomination -/
def c10_module_residue_zero (t : Tr) : Bool :=
  match t.op with
  | .postTx _ _ _ _ =>
    (match t.pre.turnstile with
     | none => true
     | some ts =>
       !distinct t.env ts ||
       (balKeys t.pre t.post).all (fun k =>
         !(k.1 == t.env.modAddr || k.1 == t.env.evmAddr) || t.post.bank.get k.1 k.2 == t.pre.bank.get k.1 k.2))
  | _ => true

/-- nobody but the fee collector and the Turnstile changes balance; only the EVM denomination changes supply;
only the target's NFT changes its Turnstile balance -/
def c10_frame (t : Tr) : Bool :=
  match t.op with
  | .postTx to _ _ _ =>
    (match t.pre.turnstile with
     | none => sameBank t.pre t.post
     | some ts =>
       (balKeys t.pre t.post).all (fun k =>
         ((k.1 == t.env.feeCollector || k.1 == ts) && k.2 == t.env.denom) || t.post.bank.get k.1 k.2 == t.pre.bank.get k.1 k.2) &&
       (supKeys t.pre t.post).all (fun d => d == t.env.denom || t.post.bank.supply d == t.pre.bank.supply d) &&
       ((t.pre.tsBal.keys ++ t.post.tsBal.keys).all (fun n => some n == targetNft t to || t.post.tsBal.get n == t.pre.tsBal.get n)))
  | _ => true

/-- a rejected operation changes nothing; a hook invocation while CSR is disabled is accepted and changes nothing -/
def c10_rejected_or_disabled_unchanged (t : Tr) : Bool :=
  (t.ok || sameState t.pre t.post) &&
  (match t.op with
   | .postTx _ _ _ _ => t.pre.params.enabled || (t.ok && sameState t.pre t.post)
   | _ => true)

/-! ## C16 -/

/-- the two indexes agree, lists are duplicate-free, records sit under their own id -/
def c16_csr_inv (t : Tr) : Bool := regInvB t.post

/-- stated directly: two different NFTs never share a contract -/
def c16_at_most_one_nft (t : Tr) : Bool :=
  t.post.csrs.all (fun p => t.post.csrs.all (fun q =>
    p.1 == q.1 ||
    (match t.post.getCSR p.1, t.post.getCSR q.1 with
     | some r, some r' => r.contracts.all (fun c => !r'.contracts.contains c)
     | _, _ => true)))

/-- does a log of this receipt, emitted by the Turnstile, with a well-formed payload naming a code-bearing
contract, account for the index entry `c ↦ n`? -/
def explains (ts : Addr) (c : Addr) (n : Nat) (l : Log) : Bool :=
  l.emitter == ts &&
  (match l.topic, l.payload with
   | .register, .reg c' true tid => c' == c && tid % U64 == n
   | .assign, .upd c' true tid => c' == c && tid % U64 == n
   | _, _ => false)

def opLogs : Op → List Log
  | .postTx _ _ _ logs => logs
  | _ => []

/-- every index entry after the operation was there before or is accounted for by a Register / Assign log
emitted by the Turnstile itself, well-formed, for an address holding code; no entry disappears or changes -/
def c16_changes_explained (t : Tr) : Bool :=
  let ts := t.pre.turnstile.getD ""
  t.post.idx.all (fun p =>
    match t.post.nftOf p.1 with
    | none => true
    | some n => t.pre.nftOf p.1 == some n ||
        (t.pre.turnstile.isSome && t.pre.params.enabled && t.ok && (opLogs t.op).any (explains ts p.1 n))) &&
  t.pre.idx.all (fun p => t.pre.nftOf p.1 == none || t.post.nftOf p.1 == t.pre.nftOf p.1)

/-- a Register log of the Turnstile, well-formed, for a code-bearing contract, carrying NFT id `n` (low 64 bits), whose
contract is `first` -/
def registersAs (ts : Addr) (n : Nat) (first : Option Addr) (l : Log) : Bool :=
  l.emitter == ts && l.topic == .register &&
  (match l.payload with
   | .reg c true tid => tid % U64 == n && first == some c
   | _ => false)


/-- an existing NFT id is never re-created: its record keeps its id and its contract list as a prefix; a new
id appears only through a Register log of the Turnstile carrying that id, whose contract heads the new list -/
def c16_no_recreate (t : Tr) : Bool :=
  let ts := t.pre.turnstile.getD ""
  t.pre.csrs.all (fun p =>
    match t.pre.getCSR p.1, t.post.getCSR p.1 with
    | some r, some r' => r'.id == r.id && r.contracts.isPrefixOf r'.contracts
    | some _, none => false
    | none, _ => true) &&
  t.post.csrs.all (fun p =>
    (t.pre.getCSR p.1).isSome ||
    (match t.post.getCSR p.1 with
     | none => true
     | some r' => t.pre.turnstile.isSome && (opLogs t.op).any (registersAs ts p.1 r'.contracts.head?)))

/-- a Register / Assign log of the Turnstile whose payload the decoder accepts -/
def isRegistryLog (ts : Addr) (l : Log) : Bool :=
  l.emitter == ts && (l.topic == .register || l.topic == .assign) && l.payload != .malformed

/-- a receipt none of whose logs is a well-formed Register / Assign log of the Turnstile (logs of other
emitters in any position, malformed payloads, other topics, no logs at all: plain fee distribution) leaves
both prefixes as they were up to the `txs` / `revenue` counters; so do parameter changes and transfers -/
def c16_inert_preserves_registry (t : Tr) : Bool :=
  let ts := t.pre.turnstile.getD ""
  (opLogs t.op).any (isRegistryLog ts) ||
  (idxEq t.pre t.post &&
   t.pre.csrs.all (fun p => ((t.post.getCSR p.1).map (fun r => (r.id, r.contracts))) == ((t.pre.getCSR p.1).map (fun r => (r.id, r.contracts)))) &&
   t.post.csrs.all (fun p => (t.pre.getCSR p.1).isSome || (t.post.getCSR p.1).isNone))

def monitors : List (String × String × (Tr → Bool)) :=
  [("C10", "never_fails_for_valid_share", c10_never_fails),
   ("C10", "fee_leaves_collector", c10_fee_leaves_collector),
   ("C10", "registered_split", c10_registered_split),
   ("C10", "burn_all", c10_burn_all),
   ("C10", "module_residue_zero", c10_module_residue_zero),
   ("C10", "frame", c10_frame),
   ("C10", "rejected_or_disabled_unchanged", c10_rejected_or_disabled_unchanged),
   ("C16", "csr_inv", c16_csr_inv),
   ("C16", "at_most_one_nft", c16_at_most_one_nft),
   ("C16", "changes_explained", c16_changes_explained),
   ("C16", "no_recreate", c16_no_recreate),
   ("C16", "inert_preserves_registry", c16_inert_preserves_registry)]

end Spec
end Csr
end CV
