import CantoVerif.Model.Replica
/-!
# C06 — the clauses of the property as `Bool` predicates over one *block transition of the replica run*.

One transition = one height of the generated history executed by the four replicas of the real application
(A continuous, B re-created from its database at every block boundary, C serving reads between blocks, D in another
OS process, E over an on-disk database with its OS process restarted at sampled block boundaries): what each replica answered — application hash, digest of all transaction results and block events,
and (at sampled heights) digest of the exported application state. `-` marks an observation that was not taken.
-/
namespace CV
namespace Replica
namespace Spec

structure Tr where
  height : Nat
  appHash : List String     -- A, B, C, D, E
  results : List String
  exports : List String

/-- all observations that were taken are equal, and none is an execution error -/
def agree (xs : List String) : Bool :=
  let taken := xs.filter (· ≠ "-")
  match taken with
  | [] => true
  | x :: rest => rest.all (· == x) && !(x.startsWith "error") && x != "missing" && x != "panic" && x != "err"

/-- identical application hashes at this height -/
def apphashAgree (t : Tr) : Bool := agree t.appHash
/-- identical transaction results (code, codespace, data, gas, events) and block events -/
def resultsAgree (t : Tr) : Bool := agree t.results
/-- identical exported state (sampled heights) -/
def exportAgree (t : Tr) : Bool := agree t.exports

def monitors : List (String × String × (Tr → Bool)) :=
  [ ("C06", "apphash_agree", apphashAgree),
    ("C06", "results_agree", resultsAgree),
    ("C06", "export_agree", exportAgree) ]

end Spec
end Replica
end CV
