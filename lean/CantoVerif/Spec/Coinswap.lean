import CantoVerif.Model.Coinswap
/-!
# Observable statements of C01, C02, C08, C09 as executable predicates on one transition
`(pre-state, operation, outcome, post-state)`.

The same predicates are (a) what the theorems in `Props/C0x.lean` prove of *every* transition of
the model and (b) what the driver evaluates on every transition *observed on the implementation*
(the search for a failing input).  Core Lean only.
-/
namespace CV
namespace Coinswap
namespace Spec

/-- an observed or modelled transition -/
structure Tr where
  env : Env
  pre : State
  op : Op
  ok : Bool
  resp : Resp
  post : State

/-- a swap message, or the onboarding auto-swap seen as the buy order it is (payer = recipient) -/
def swapMsgOf (std : Denom) : Op → Option MsgSwap
  | .swap m => some m
  | .autoSwap rcpt dIn maxIn out =>
    some { inAddr := ⟨.lower, rcpt⟩, inDenom := dIn, inAmt := maxIn, outAddr := ⟨.lower, rcpt⟩, outDenom := std, outAmt := out,
           deadline := 1, isBuy := true }
  | _ => none

def reserves (s : State) (p : Pool) : Nat × Nat × Nat :=
  (s.bank.get p.escrow s.std, s.bank.get p.escrow p.counter, s.bank.supply p.lpt)

/-! ## C01 -/

/-- `X·Y/L²` does not decrease for pool `p` (cross-multiplied), when it has shares before and after -/
def kPool (pre post : State) (p : Pool) : Bool :=
  let (X, Y, L) := reserves pre p
  let (X', Y', L') := reserves post p
  L == 0 || L' == 0 || decide (X * Y * L' ^ 2 ≤ X' * Y' * L ^ 2)

def c01_k (t : Tr) : Bool := t.pre.pools.all (kPool t.pre t.post)

/-- a removal pays at most the pro-rata share of either reserve -/
def c01_removeProRata (t : Tr) : Bool :=
  match t.op with
  | .remove m =>
    !t.ok ||
    (match t.pre.poolByLpt m.lptDenom with
     | none => false
     | some p =>
       let (X, Y, L) := reserves t.pre p
       let (X', Y', L') := reserves t.post p
       decide ((X - X') * L ≤ (L - L') * X) && decide ((Y - Y') * L ≤ (L - L') * Y))
  | _ => true

/-! ## C02 -/

def balKeys (a b : State) : List (Addr × Denom) := (a.bank.bal.keys ++ b.bank.bal.keys).eraseDups
def supKeys (a b : State) : List Denom := (a.bank.sup.keys ++ b.bank.sup.keys).eraseDups

def sameState (a b : State) : Bool :=
  (balKeys a b).all (fun k => a.bank.get k.1 k.2 == b.bank.get k.1 k.2) &&
  (supKeys a b).all (fun d => a.bank.supply d == b.bank.supply d) &&
  a.pools == b.pools && a.seq == b.seq

def total (s : State) (A : List Addr) (d : Denom) : Nat := totalOver s.bank A d

def denomsOf (a b : State) : List Denom := ((balKeys a b).map (·.2) ++ supKeys a b).eraseDups

/-- nobody outside `A` changed, in any denomination -/
def frameOutside (a b : State) (A : List Addr) : Bool :=
  (balKeys a b).all (fun k => A.contains k.1 || a.bank.get k.1 k.2 == b.bank.get k.1 k.2)

/-- the payer / recipient / escrow of a successful message (as a duplicate-free list) -/
def parties (t : Tr) : List Addr :=
  match t.op with
  | .swap m =>
    (match t.pre.poolByCounter (if m.inDenom == t.pre.std then m.outDenom else m.inDenom) with
     | some p => [m.inAddr.bytes, m.outAddr.bytes, p.escrow].eraseDups
     | none => [m.inAddr.bytes, m.outAddr.bytes].eraseDups)
  | .add m =>
    (match t.post.poolByCounter m.tokDenom with
     | some p => [m.sender.bytes, p.escrow].eraseDups
     | none => [m.sender.bytes])
  | .remove m =>
    (match t.pre.poolByLpt m.lptDenom with
     | some p => [m.sender.bytes, p.escrow].eraseDups
     | none => [m.sender.bytes])
  | .send src dst _ _ => [src, dst].eraseDups
  | .autoSwap rcpt dIn _ _ =>
    (match t.pre.poolByCounter dIn with
     | some p => [rcpt, p.escrow].eraseDups
     | none => [rcpt])
  | _ => []

/-- rejected ⇒ nothing changed -/
def c02_rejectedUnchanged (t : Tr) : Bool := t.ok || sameState t.pre t.post

/-- successful swap: coins move only among payer, recipient and escrow; no supply changes; no record changes -/
def c02_swap (t : Tr) : Bool :=
  match swapMsgOf t.pre.std t.op with
  | some _ =>
    !t.ok ||
    (let A := parties t
     frameOutside t.pre t.post A &&
     (denomsOf t.pre t.post).all (fun d => total t.pre A d == total t.post A d && t.pre.bank.supply d == t.post.bank.supply d) &&
     t.pre.pools == t.post.pools && t.pre.seq == t.post.seq)
  | none => true

/-- successful removal: coins move only between provider and escrow; only the pool-token supply
changes, by exactly what the provider gave up -/
def c02_remove (t : Tr) : Bool :=
  match t.op with
  | .remove m =>
    !t.ok ||
    (let A := parties t
     let lpt := m.lptDenom
     let w := m.withdraw.toNat
     frameOutside t.pre t.post A &&
     (denomsOf t.pre t.post).all (fun d =>
        if d == lpt then
          t.post.bank.supply d + w == t.pre.bank.supply d && t.post.bank.get m.sender.bytes d + w == t.pre.bank.get m.sender.bytes d
        else total t.pre A d == total t.post A d && t.pre.bank.supply d == t.post.bank.supply d) &&
     t.pre.pools == t.post.pools && t.pre.seq == t.post.seq)
  | _ => true

/-- successful addition.  Without pool creation: coins move only between provider and escrow and
only the pool-token supply changes, by exactly the amount credited to the provider.  With pool
creation the configured fee is additionally split exactly: `⌊fee·rate⌋` to the fee collector, the
rest burned. -/
def c02_add (t : Tr) : Bool :=
  match t.op with
  | .add m =>
    !t.ok ||
    (match t.post.poolByCounter m.tokDenom, t.resp with
     | some p, .add lpt minted =>
       let created := (t.pre.poolByCounter m.tokDenom).isNone
       let fc := t.env.feeCollector
       let feeD := t.pre.params.feeDenom
       let fee := if created then t.pre.params.feeAmt else 0
       let tax := if created then (match poolTax t.pre.params.feeAmt t.pre.params.taxRate with | .ok v => v | .error _ => 0) else 0
       let A := [m.sender.bytes, p.escrow].eraseDups
       let A' := if created && fee != 0 then (A ++ [fc]).eraseDups else A
       lpt == p.lpt &&
       frameOutside t.pre t.post A' &&
       (denomsOf t.pre t.post).all (fun d =>
          if d == lpt then
            t.post.bank.supply d == t.pre.bank.supply d + minted &&
            t.post.bank.get m.sender.bytes d == t.pre.bank.get m.sender.bytes d + minted
          else if created && d == feeD then
            total t.post A' d + (fee - tax) == total t.pre A' d &&
            t.post.bank.supply d + (fee - tax) == t.pre.bank.supply d &&
            (A.contains fc || fee == 0 || t.post.bank.get fc d == t.pre.bank.get fc d + tax)
          else total t.pre A d == total t.post A d && t.pre.bank.supply d == t.post.bank.supply d) &&
       decide (tax ≤ fee) &&
       (if created then t.post.seq == t.pre.seq + 1 && t.post.pools == insertPool t.pre.pools p
        else t.post.seq == t.pre.seq && t.post.pools == t.pre.pools)
     | _, _ => false)
  | _ => true

/-! ## C08 -/

/-- block time is not past the deadline (seconds, nanoseconds) -/
def notPast (s : State) (deadline : Int) : Bool :=
  decide ((s.nowSec : Int) < deadline) || (decide ((s.nowSec : Int) = deadline) && s.nowNsec == 0)

def opDeadline : Op → Option Int
  | .swap m => some m.deadline
  | .add m => some m.deadline
  | .remove m => some m.deadline
  | _ => none

def c08_deadline (t : Tr) : Bool :=
  match opDeadline t.op with
  | some dl => !t.ok || notPast t.pre dl
  | none => true

/-- change of `(a, d)` as a pair (gain, loss) -/
def gain (t : Tr) (a : Addr) (d : Denom) : Nat := t.post.bank.get a d - t.pre.bank.get a d
def loss (t : Tr) (a : Addr) (d : Denom) : Nat := t.pre.bank.get a d - t.post.bank.get a d

/-- user bounds of a swap, read off the escrow (so that payer = recipient is covered):
sell: the pool receives exactly the stated input and pays at least the stated minimum;
buy: the pool pays exactly the stated output and receives at most the stated maximum. -/
def c08_swapBounds (t : Tr) : Bool :=
  match swapMsgOf t.pre.std t.op with
  | some m =>
    !t.ok ||
    (match t.pre.poolByCounter (if m.inDenom == t.pre.std then m.outDenom else m.inDenom) with
     | none => false
     | some p =>
       let e := p.escrow
       let got := gain t e m.inDenom
       let paid := loss t e m.outDenom
       -- proceeds sent to the pool's own escrow: the pool's deltas no longer show the two legs
       if m.outAddr.bytes == e then true else
       if m.isBuy then paid == m.outAmt.toNat && decide (got ≤ m.inAmt.toNat)
       else got == m.inAmt.toNat && decide (m.outAmt.toNat ≤ paid))
  | none => true

/-- the bounds above are read off the escrow; this ties them to the parties: the stated recipient's
balance of the output coin rises by exactly what the pool paid, and the payer's balance of the
input coin falls by exactly what the pool received (input and output coin differ, so payer =
recipient is covered) -/
def c08_swapDelivered (t : Tr) : Bool :=
  match swapMsgOf t.pre.std t.op with
  | some m =>
    !t.ok ||
    (match t.pre.poolByCounter (if m.inDenom == t.pre.std then m.outDenom else m.inDenom) with
     | none => false
     | some p =>
       let e := p.escrow
       let pay := m.inAddr.bytes
       let rc := m.outAddr.bytes
       if rc == e || pay == e then true else
       t.post.bank.get rc m.outDenom == t.pre.bank.get rc m.outDenom + loss t e m.outDenom &&
       t.post.bank.get pay m.inDenom + gain t e m.inDenom == t.pre.bank.get pay m.inDenom)
  | none => true

/-- executed swap amounts are within one unit of the exact constant-product-with-fee value,
rounded in the pool's favour.  With `δ = 10^18 − fee`:
sell: `bought ≤ in·δ·Y/(X·10^18 + in·δ) < bought + 1`;
buy : `sold − 1 ≤ X·out·10^18/((Y−out)·δ) < sold`. -/
def c08_swapRounding (t : Tr) : Bool :=
  match swapMsgOf t.pre.std t.op with
  | some m =>
    !t.ok ||
    (match t.pre.poolByCounter (if m.inDenom == t.pre.std then m.outDenom else m.inDenom) with
     | none => false
     | some p =>
       let e := p.escrow
       let X := t.pre.bank.get e m.inDenom      -- input-side reserve
       let Y := t.pre.bank.get e m.outDenom     -- output-side reserve
       let df := S18 - t.pre.params.fee
       let a := gain t e m.inDenom
       let b := loss t e m.outDenom
       if m.outAddr.bytes == e then true else
       if m.isBuy then
         -- (a-1)·(Y-b)·δ ≤ X·b·10^18 < a·(Y-b)·δ
         decide ((a - 1) * ((Y - b) * df) ≤ X * b * S18) && decide (X * b * S18 < a * ((Y - b) * df)) && decide (1 ≤ a)
       else
         -- b·D ≤ a·δ·Y < (b+1)·D,  D = X·10^18 + a·δ
         let D := X * S18 + a * df
         decide (b * D ≤ a * df * Y) && decide (a * df * Y < (b + 1) * D))
  | none => true

/-- addition: at most the stated token and standard amounts enter the pool, at least the stated
minimum liquidity is minted; live pool: minted and deposit are the pro-rata values rounded in the
pool's favour -/
def c08_addBounds (t : Tr) : Bool :=
  match t.op with
  | .add m =>
    !t.ok ||
    (match t.post.poolByCounter m.tokDenom, t.resp with
     | some p, .add _ minted =>
       let e := p.escrow
       let stdIn := gain t e t.pre.std
       let tokIn := gain t e m.tokDenom
       let (X, Y, L) := reserves t.pre p
       decide (tokIn ≤ m.maxToken.toNat) && decide (stdIn ≤ m.exact.toNat) && decide (m.minLiq.toNat ≤ minted) &&
       minted == t.post.bank.supply p.lpt - t.pre.bank.supply p.lpt &&
       (if (t.pre.poolByCounter m.tokDenom).isSome && L != 0 then
          -- minted ≤ L·s/X < minted+1 ;  deposit-1 ≤ Y·s/X < deposit
          decide (minted * X ≤ L * stdIn) && decide (L * stdIn < (minted + 1) * X) &&
          decide ((tokIn - 1) * X ≤ Y * stdIn) && decide (Y * stdIn < tokIn * X) && decide (1 ≤ tokIn)
        else minted == stdIn && tokIn == m.maxToken.toNat && stdIn == m.exact.toNat)
     | _, _ => false)
  | _ => true

/-- removal: exactly the stated pool tokens are burned, at least both minimums are paid, the paid
amounts are the pro-rata values rounded down, and the response lists exactly the coins paid -/
def c08_removeBounds (t : Tr) : Bool :=
  match t.op with
  | .remove m =>
    !t.ok ||
    (match t.pre.poolByLpt m.lptDenom, t.resp with
     | some p, .remove coins =>
       let e := p.escrow
       let (X, Y, L) := reserves t.pre p
       let w := m.withdraw.toNat
       let a := loss t e t.pre.std
       let b := loss t e p.counter
       t.post.bank.supply p.lpt + w == L &&
       decide (m.minStd.toNat ≤ a) && decide (m.minToken.toNat ≤ b) &&
       decide (a * L ≤ w * X) && decide (w * X < (a + 1) * L) &&
       decide (b * L ≤ w * Y) && decide (w * Y < (b + 1) * L) &&
       coins == newCoins2 (t.pre.std, a) (p.counter, b)
     | _, _ => false)
  | _ => true

/-! ## C09 -/

/-- pools exist and trade only for whitelisted counter-assets, against the standard coin -/
def c09_whitelist (t : Tr) : Bool :=
  match t.op with
  | .swap m =>
    !t.ok ||
    ((m.inDenom == t.pre.std) != (m.outDenom == t.pre.std) &&
     decide (0 < t.pre.params.maxSwapOf (if m.inDenom == t.pre.std then m.outDenom else m.inDenom)))
  | .add m => !t.ok || (m.tokDenom != t.pre.std && decide (0 < t.pre.params.maxSwapOf m.tokDenom))
  | .autoSwap _ dIn _ _ => !t.ok || (dIn != t.pre.std && decide (0 < t.pre.params.maxSwapOf dIn))
  | _ => true

/-- the counter-asset leg of a successful swap is at most its per-swap maximum -/
def c09_swapCap (t : Tr) : Bool :=
  match swapMsgOf t.pre.std t.op with
  | some m =>
    !t.ok ||
    (let tok := if m.inDenom == t.pre.std then m.outDenom else m.inDenom
     match t.pre.poolByCounter tok with
     | none => false
     | some p =>
       let moved := if m.inDenom == t.pre.std then loss t p.escrow tok else gain t p.escrow tok
       m.outAddr.bytes == p.escrow || decide (moved ≤ t.pre.params.maxSwapOf tok))
  | none => true

/-- an addition never deposits more standard coin than the cap, nor more than the room under it -/
def c09_addCap (t : Tr) : Bool :=
  match t.op with
  | .add m =>
    !t.ok ||
    (match t.post.poolByCounter m.tokDenom with
     | none => false
     | some p =>
       let X := t.pre.bank.get p.escrow t.pre.std
       let L := t.pre.bank.supply p.lpt
       let stdIn := gain t p.escrow t.pre.std
       decide (stdIn ≤ t.pre.params.maxStd) &&
       ((t.pre.poolByCounter m.tokDenom).isNone || L == 0 || decide (X + stdIn ≤ t.pre.params.maxStd)))
  | _ => true

/-- swap proceeds are never delivered to a module account -/
def c09_noModuleRecipient (t : Tr) : Bool :=
  match t.op with
  | .swap m => !t.ok || !t.env.blockedCs.contains m.outAddr.bytes
  | _ => true

/-- all monitors with the property they belong to -/
def monitors : List (String × String × (Tr → Bool)) :=
  [("C01", "k_nondecreasing", c01_k), ("C01", "remove_le_prorata", c01_removeProRata),
   ("C02", "rejected_unchanged", c02_rejectedUnchanged), ("C02", "swap_conserves", c02_swap),
   ("C02", "remove_conserves", c02_remove), ("C02", "add_conserves", c02_add),
   ("C08", "deadline", c08_deadline), ("C08", "swap_bounds", c08_swapBounds), ("C08", "swap_delivered", c08_swapDelivered),
   ("C08", "swap_rounding", c08_swapRounding), ("C08", "add_bounds", c08_addBounds),
   ("C08", "remove_bounds", c08_removeBounds),
   ("C09", "whitelist", c09_whitelist), ("C09", "swap_cap", c09_swapCap), ("C09", "add_cap", c09_addCap),
   ("C09", "no_module_recipient", c09_noModuleRecipient)]

end Spec
end Coinswap
end CV
