import CantoVerif.Model.Govshuttle
/-!
# Observable statements of C20 as executable predicates on one transition.

A transition is `(pre-state, operation, accepted?, post-state)` where a *state* is what can be observed
of the implementation: the stored port address, the next gov proposal id, the module account's
sequence, and — as the `store` component — what `QueryProp(q)` ANSWERED (by `eth_call` on the real
contract) for every id `q` in `ids` (all ids met so far in the run, id 0 and one never-used id).
The same predicates are (a) proved of every transition of the model (`Props/C20.lean`,
`monitors_hold_ok / monitors_hold_rej`) and (b) evaluated by the driver on every transition observed
on the implementation.  Core Lean only.
-/
namespace CV
namespace Govshuttle
namespace Spec

structure Tr where
  env : Env
  pre : State
  op : Op
  ok : Bool
  post : State
  ids : List Nat            -- the ids whose `QueryProp` answer was observed before and after
  bankChanged : Bool        -- some bank balance or supply changed
  newAccts : List Bytes     -- accounts created by the operation

def isProposal : Op → Bool
  | .lm _ _ => true
  | .treasury _ _ => true
  | _ => false

/-- a well-formed target address string: 40 hex digits, optionally prefixed `0x`/`0X` (`common.IsHexAddress`) -/
def plainAddr (a : Bytes) : Bool :=
  (a.length == 40 && wellFormedHex a) || (a.length == 42 && has0x a && wellFormedHex (a.drop 2))

/-- `got` has as many entries as were submitted and agrees with `want` wherever the submitted text is well-formed
(the property speaks of well-formed hex only; what the lenient decoders make of malformed text is proved for the
model and compared by the correspondence, but it is not part of the property's statement) -/
def agreeWhere (wf : Bytes → Bool) : List Bytes → List Bytes → List Bytes → Bool
  | [], [], [] => true
  | s :: ss, w :: ws, g :: gs => (!wf s || w == g) && agreeWhere wf ss ws gs
  | _, _, _ => false

/-- the answer `got` records the submission `src` (whose exact model image is `want`) faithfully -/
def faithful (src : Metadata) (want : Proposal) (got : Option Proposal) : Bool :=
  match got with
  | none => false
  | some g =>
    g.id == want.id && g.title == want.title && g.desc == want.desc && g.values == want.values &&
    g.signatures == want.signatures && agreeWhere plainAddr src.account want.targets g.targets &&
    agreeWhere wellFormedHex src.calldatas want.calldatas g.calldatas

/-- **recorded faithfully** (lending-market): after an accepted proposal the store answers, under the id the
proposal specifies — or the next gov proposal id when it specifies none — exactly the submitted title,
description, values, signatures, the targets (where written as 40 hex digits) and the decoded call data
(where well-formed hex) -/
def storedFaithfully (t : Tr) : Bool :=
  match t.op with
  | .lm m _ =>
    !t.ok ||
    (match m.metadata with
     | some md => faithful md (content t.pre m.title m.desc md) (query t.post (effId t.pre md.propId))
     | none => true)
  | _ => true

/-- **treasury field placement**: recipient / amount / denomination are answered as the single target / value /
signature, with no call data, under the given or defaulted id -/
def treasuryFields (t : Tr) : Bool :=
  match t.op with
  | .treasury m _ =>
    !t.ok ||
    (match m.metadata with
     | some md =>
       faithful (fromTreasury md)
         ⟨effId t.pre md.propId, m.title, m.desc, [hexToAddress md.recipient], [md.amount], [md.denom], []⟩
         (query t.post (effId t.pre md.propId))
     | none => true)
  | _ => true

/-- **earlier records with other ids stay retrievable**: every observed id other than the one written answers
as before (when the store is deployed by this very operation: answers the empty record) -/
def othersRetrievable (t : Tr) : Bool :=
  !t.ok ||
  t.ids.all (fun q =>
    targetId t.pre t.op == some q ||
    (match t.pre.port with
     | some _ => query t.post q == query t.pre q
     | none => t.post.port.isNone || query t.post q == some Proposal.empty))

/-- **the address never changes** once set (accepted or not) -/
def portStable (t : Tr) : Bool :=
  match t.pre.port with
  | some a => t.post.port == some a
  | none => true

/-- **deployed once**: an accepted proposal deploys (module nonce + 1, port = CreateAddress(module, nonce)) iff no
port was stored; nothing else ever deploys -/
def deployOnce (t : Tr) : Bool :=
  if t.ok && isProposal t.op then
    (match t.pre.port with
     | some _ => t.post.nonce == t.pre.nonce
     | none => t.post.nonce == t.pre.nonce + 1 && some t.post.port == (lookupN t.env.create t.pre.nonce).map some)
  else t.post.nonce == t.pre.nonce && t.post.port == t.pre.port

/-- **rejected without effect**: port, nonce, next gov id, every observed answer and the ledger are unchanged -/
def rejectedNoEffect (t : Tr) : Bool :=
  t.ok ||
  (t.post.port == t.pre.port && t.post.nonce == t.pre.nonce && t.post.nextGovId == t.pre.nextGovId &&
   t.ids.all (fun q => query t.post q == query t.pre q) && !t.bankChanged && t.newAccts.isEmpty)

/-- **length mismatch is rejected** (call data / values / signatures) -/
def lengthMismatchRejected (t : Tr) : Bool :=
  match t.op with
  | .lm m _ =>
    let l := lens m.metadata
    (l.1 == l.2.1 && l.2.1 == l.2.2) || !t.ok
  | _ => true

/-- **unsupported treasury denomination is rejected** -/
def badDenomRejected (t : Tr) : Bool :=
  match t.op with
  | .treasury m _ =>
    (match m.metadata with
     | some md => denomOK md.denom || !t.ok
     | none => !t.ok)
  | _ => true

/-- only governance: any other authority string is rejected -/
def wrongAuthorityRejected (t : Tr) : Bool :=
  match t.op with
  | .lm m _ => m.authority == t.env.authority || !t.ok
  | .treasury m _ => m.authority == t.env.authority || !t.ok
  | _ => true

/-- nobody but the module account can write to the store -/
def foreignRejected (t : Tr) : Bool :=
  match t.op with
  | .foreignAdd _ => !t.ok
  | _ => true

/-- an answer of `QueryProp(q)` carries id `q` or is the empty record -/
def answersConsistent (t : Tr) : Bool :=
  t.ids.all (fun q =>
    match query t.post q with
    | none => true
    | some p => p.id == q || p == Proposal.empty)

def monitors : List (String × String × (Tr → Bool)) :=
  [("C20", "stored_faithfully", storedFaithfully), ("C20", "treasury_fields", treasuryFields),
   ("C20", "others_retrievable", othersRetrievable), ("C20", "port_stable", portStable),
   ("C20", "deploy_once", deployOnce), ("C20", "rejected_no_effect", rejectedNoEffect),
   ("C20", "length_mismatch_rejected", lengthMismatchRejected), ("C20", "bad_denom_rejected", badDenomRejected),
   ("C20", "wrong_authority_rejected", wrongAuthorityRejected), ("C20", "foreign_rejected", foreignRejected),
   ("C20", "answers_consistent", answersConsistent)]

end Spec
end Govshuttle
end CV
