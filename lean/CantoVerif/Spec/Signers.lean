import CantoVerif.Model.Signers
/-!
# C07 as executable predicates on one observed message execution.

`sg` is what the real codec answered for the message's required signers (`none`: it returned an
error).  Proved of the model in `Props/C07.lean`; evaluated by the driver on the implementation.
-/
namespace CV
namespace Signers
namespace Spec
open Coinswap

structure Tr where
  env : Env
  pre : State
  op : Op
  ok : Bool
  sg : Option (List Addr)
  post : State

/-- the paying account the message names, when its address string is well-formed -/
def payer : Op → Option Addr
  | .cs (.swap m) => if m.inAddr.form != .bad then some m.inAddr.bytes else none
  | .cs (.add m) => if m.sender.form != .bad then some m.sender.bytes else none
  | .cs (.remove m) => if m.sender.form != .bad then some m.sender.bytes else none
  | .cs _ => none
  | .convertCoin m => if m.sender.form != .bad then some m.sender.bytes else none
  | .convertERC20 m => if m.sender.isHex then some m.sender.bytes else none

/-- the derived signer set is exactly the payer, for every well-formed message -/
def signersEqPayer (t : Tr) : Bool :=
  match payer t.op with
  | some p => t.sg == some [p]
  | none => true

def balKeys (a b : State) : List (Addr × Denom) := (a.cs.bank.bal.keys ++ b.cs.bank.bal.keys).eraseDups

/-- `a` is the escrow of one of the pools (recorded address or reserve address of its share denomination) -/
def isEscrowB (env : Env) (s : State) (a : Addr) : Bool :=
  s.cs.pools.any (fun p => p.escrow == a || lookupD env.cs.reserveAddr p.lpt == some a)

/-- every account whose coin or token balance went down is a required signer, a pool escrow, or the
module account acting as counterparty -/
def debitedSubsetSigners (t : Tr) : Bool :=
  !t.ok || !t.op.isUserMsg ||
  (balKeys t.pre t.post).all (fun k =>
    decide (t.pre.cs.bank.get k.1 k.2 ≤ t.post.cs.bank.get k.1 k.2) ||
    (t.sg.getD []).contains k.1 || isEscrowB t.env t.post k.1 || k.1 == t.env.cs.modAddr || k.1 == t.env.erc20Mod)

def monitors : List (String × String × (Tr → Bool)) :=
  [ ("C07", "signers_eq_payer", signersEqPayer),
    ("C07", "debited_subset_signers", debitedSubsetSigners) ]

end Spec
end Signers
end CV
