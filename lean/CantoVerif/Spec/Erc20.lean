import CantoVerif.Model.Erc20
import CantoVerif.Model.Erc20Token
/-!
# Observable statements of C15, C14, C04, C03 as executable predicates on one transition.

The same predicates are (a) what the theorems in `Props/C15.lean` … prove of the model's
transitions and (b) what the driver evaluates on every transition *observed on the implementation*.
Core Lean only.
-/
namespace CV
namespace Erc20
namespace Spec
open Token

/-- operations of the trace: keeper operations plus what only touches the EVM side -/
inductive DOp where
  | k (op : Op)
  | tx (c holder : Addr) (call : HolderCall)     -- an Ethereum transaction of a token holder (+ hook)
  | txBatch (c holder : Addr) (calls : List HolderCall)   -- one transaction making several token calls (one receipt, one hook run)
  | sd (c : Addr)                                -- contract self-destructs
  | dep (c deployer : Addr) (supply : Nat)       -- somebody deploys an honest token
deriving Repr

/-- an observed transition; `pre`/`post` hold Canto's state and the token ledger as observed -/
structure Tr where
  env : Env
  cfg : Cfg
  pre : World TState
  op : DOp
  ok : Bool
  resp : Resp
  post : World TState
  /-- the answers the EVM gave to the keeper during the operation, in order -/
  answers : List Ans
  /-- no deviation was scripted for this operation -/
  honest : Bool
  /-- what the real gRPC server answered after the operation: the `TokenPairs` listing and, per listed
  pair `(address, denom)`, the class of `TokenPair(denom)` and `TokenPair(address)`:
  `"s"` the same pair, `"o"` another pair, `"n"` not found -/
  lookups : List (Addr × Denom × String × String)
  /-- the world has been honest so far: since it was created no scripted deviation was accepted, no
  receipt was forged (bare hook invocation) and no contract self-destructed (C03 speaks of such worlds) -/
  clean : Bool
  /-- the previous transition of the trace (for round trips): op, ok, resp, its pre-state, honest -/
  prev : Option (DOp × Bool × Resp × World TState × Bool)

/-! ## state equality -/

def balKeys (a b : State) : List (Addr × Denom) := (a.bank.bal.keys ++ b.bank.bal.keys).eraseDups
def supKeys (a b : State) : List Denom := (a.bank.sup.keys ++ b.bank.sup.keys).eraseDups

def sameBank (a b : State) : Bool :=
  (balKeys a b).all (fun k => a.bank.get k.1 k.2 == b.bank.get k.1 k.2) &&
  (supKeys a b).all (fun d => a.bank.supply d == b.bank.supply d)

def sameMap {κ β : Type} [DecidableEq κ] [BEq β] (a b : List (κ × β)) : Bool :=
  (a.map (·.1) ++ b.map (·.1)).all (fun k => KMap.get? a k == KMap.get? b k)

def sameReg (a b : Registry) : Bool :=
  sameMap a.pairs b.pairs && sameMap a.byAddr b.byAddr && sameMap a.byDenom b.byDenom

def sameTok (a b : TState) : Bool :=
  a.bal.eqv b.bal && a.sup.eqv b.sup &&
  a.code.all (fun x => b.code.contains x) && b.code.all (fun x => a.code.contains x)

def sameState (a b : State) : Bool :=
  sameBank a b && sameReg a.reg b.reg && a.params == b.params && sameMap a.dmeta b.dmeta &&
  a.sendDefault == b.sendDefault && sameMap a.sendOverride b.sendOverride && a.mn == b.mn

/-- rejected ⇒ neither ledger, nor the registry, nor any switch changed -/
def rejectedUnchanged (t : Tr) : Bool := t.ok || (sameState t.pre.st t.post.st && sameTok t.pre.evm t.post.evm)

/-! ## C15 -/

def nodupB {κ : Type} [DecidableEq κ] : List κ → Bool
  | [] => true
  | k :: r => !r.contains k && nodupB r
def nodupKeys {κ β : Type} [DecidableEq κ] (l : List (κ × β)) : Bool := nodupB (l.map (·.1))

/-- the registry invariant, evaluated on the raw dump of the three prefixes -/
def regInvB (r : Registry) : Bool :=
  r.pairs.all (fun e => e.1 == e.2.id && KMap.get? r.byDenom e.2.denom == some e.1 && KMap.get? r.byAddr e.2.addr == some e.1) &&
  r.byDenom.all (fun e => match KMap.get? r.pairs e.2 with | some p => p.denom == e.1 | none => false) &&
  r.byAddr.all (fun e => match KMap.get? r.pairs e.2 with | some p => p.addr == e.1 | none => false) &&
  nodupKeys r.pairs && nodupKeys r.byDenom && nodupKeys r.byAddr

def c15_registryInv (t : Tr) : Bool := regInvB t.post.st.reg

/-- lookups by id, by denomination string and by address return the same pair.  The address a
hex-shaped denomination would decode to is not a registered contract unless stated: `?` stands for it. -/
def c15_lookupsAgree (t : Tr) : Bool :=
  let r := t.post.st.reg
  r.pairs.all (fun e =>
    r.getPair e.1 == some e.2 &&
    r.lookupTok ⟨e.2.denom, "?"⟩ == some e.2 &&
    (match KMap.get? r.byAddr e.2.addr with | some i => r.getPair i == some e.2 | none => false))

/-- listing returns exactly the pairs reachable through the two indexes -/
def c15_listEqReachable (t : Tr) : Bool :=
  let r := t.post.st.reg
  let viaDenom := r.byDenom.filterMap (fun e => r.getPair e.2)
  let viaAddr := r.byAddr.filterMap (fun e => r.getPair e.2)
  r.list.all (fun p => viaDenom.contains p && viaAddr.contains p) &&
  viaDenom.all (fun p => r.list.contains p) && viaAddr.all (fun p => r.list.contains p) &&
  viaDenom.length == r.list.length && viaAddr.length == r.list.length

/-- registering an already registered denomination or contract fails -/
def c15_registerExistingRejected (t : Tr) : Bool :=
  match t.op with
  | .k (.registerCoin _ base _) => !(KMap.has t.pre.st.reg.byDenom base) || !t.ok
  | .k (.registerERC20 _ c _) => !(KMap.has t.pre.st.reg.byAddr c) || !t.ok
  | _ => true

/-- a successful registration adds exactly one pair, with its two index entries, and touches nothing else -/
def c15_registerAddsOne (t : Tr) : Bool :=
  let pre := t.pre.st.reg
  let post := t.post.st.reg
  let added (owner : Owner) (chk : Pair → Bool) : Bool :=
    match post.pairs.filter (fun e => !(KMap.has pre.pairs e.1)) with
    | [e] => e.2.owner == owner && e.2.enabled && chk e.2 &&
             sameReg post (pre.insert e.2) && !(KMap.has pre.byDenom e.2.denom) && !(KMap.has pre.byAddr e.2.addr)
    | _ => false
  match t.op with
  | .k (.registerCoin _ base _) => !t.ok || added .module (fun p => p.denom == base)
  | .k (.registerERC20 _ c _) => !t.ok || added .external (fun p => p.addr == c)
  | _ => true

/-- toggling changes only the enabled flag of the addressed pair -/
def c15_toggleOnlyFlag (t : Tr) : Bool :=
  match t.op with
  | .k (.toggle _ tk) =>
    !t.ok ||
    (match t.pre.st.reg.lookupTok tk with
     | none => false
     | some p =>
       sameReg t.post.st.reg (t.pre.st.reg.setPair { p with enabled := !p.enabled }) &&
       sameBank t.pre.st t.post.st && t.pre.st.params == t.post.st.params && sameTok t.pre.evm t.post.evm)
  | _ => true

/-- the pair a conversion message addresses -/
def msgPair (s : State) : Op → Option Pair
  | .convertCoin m => s.reg.lookupTok m.denom
  | .convertERC20 m => (match KMap.get? s.reg.byAddr m.contract.bytes with | some i => s.reg.getPair i | none => none)
  | _ => none

/-- removal of a pair whose contract self-destructed removes every entry for it, and nothing else -/
def c15_deleteRemovesAll (t : Tr) : Bool :=
  match t.op with
  | .k op =>
    if t.ok && t.resp == .deleted then
      (match msgPair t.pre.st op with
       | none => false
       | some p =>
         let post := t.post.st.reg
         sameReg post (t.pre.st.reg.delete p) &&
         !(KMap.has post.pairs p.id) && !(KMap.has post.byDenom p.denom) && !(KMap.has post.byAddr p.addr) &&
         post.pairs.all (fun e => e.2.denom != p.denom && e.2.addr != p.addr) &&
         sameBank t.pre.st t.post.st)
    else true
  | _ => true

/-- operations that are neither a registration, a toggle nor a deletion leave the registry as it is
(genesis export/import included) -/
def c15_othersKeepRegistry (t : Tr) : Bool :=
  match t.op with
  | .k (.registerCoin _ _ _) => true
  | .k (.registerERC20 _ _ _) => true
  | .k (.toggle _ _) => true
  | _ => (t.ok && t.resp == .deleted) || sameReg t.pre.st.reg t.post.st.reg

/-- the real query server: listing = the pairs of the raw dump; every listed pair is returned by the
lookup by its denomination and by its address -/
def c15_grpcLookups (t : Tr) : Bool :=
  let r := t.post.st.reg
  t.lookups.all (fun e => e.2.2.1 == "s" && e.2.2.2 == "s" && KMap.has r.pairs (e.1, e.2.1)) &&
  r.pairs.all (fun e => t.lookups.any (fun l => (l.1, l.2.1) == e.1)) &&
  t.lookups.length == r.pairs.length

/-! ## C14 -/

def isConvert : DOp → Bool
  | .k (.convertCoin _) => true
  | .k (.convertERC20 _) => true
  | _ => false

/-- decoded (sender, receiver) of a conversion message -/
def convParties : Op → Option (Addr × Addr)
  | .convertCoin m => if m.sender.form != .bad && m.receiver.valid then some (m.sender.bytes, m.receiver.bytes) else none
  | .convertERC20 m => if m.sender.valid && m.receiver.form != .bad then some (m.sender.bytes, m.receiver.bytes) else none
  | _ => none

/-- module disabled or pair toggled off ⇒ the message is rejected -/
def c14_msgGate (t : Tr) : Bool :=
  match t.op with
  | .k op =>
    if isConvert t.op then
      !t.ok || (t.pre.st.params.enableErc20 && (match msgPair t.pre.st op with | some p => p.enabled | none => false))
    else true
  | _ => true

/-- a receiver that may not receive funds (a module account) ⇒ rejected -/
def c14_receiverBlocked (t : Tr) : Bool :=
  match t.op with
  | .k op =>
    (match convParties op with
     | some (_, rcv) => !t.ok || !t.env.blocked.contains rcv
     | none => !isConvert t.op || !t.ok)
  | _ => true

/-- the same, with "module account" taken from the application's own table of module accounts
rather than from the list the bank was given: every module account is on that list -/
def c14_moduleReceiver (t : Tr) : Bool :=
  t.env.macc.all (fun a => t.env.blocked.contains a) &&
  (match t.op with
   | .k op =>
     (match convParties op with
      | some (_, rcv) => !t.ok || !t.env.macc.contains rcv
      | none => true)
   | _ => true)

/-- a switch flipped by an accepted parameter update is flipped: the stored switches are the
requested ones (and a rejected update leaves them alone: `rejected_unchanged`) -/
def c14_switchesStored (t : Tr) : Bool :=
  match t.op with
  | .k (.updateParams _ p) => !t.ok || t.post.st.params == p
  | _ => true

/-- a third-party receiver while bank sends of the coin are disabled ⇒ rejected -/
def c14_thirdPartySendDisabled (t : Tr) : Bool :=
  match t.op with
  | .k op =>
    (match convParties op, msgPair t.pre.st op with
     | some (snd, rcv), some p => !t.ok || snd == rcv || t.pre.st.sendEnabled p.denom
     | _, _ => true)
  | _ => true

def tokContractSame (a b : TState) (c : Addr) : Bool :=
  ((a.bal.keys ++ b.bal.keys).filter (fun k => k.1 == c)).all (fun k => a.bal.get k == b.bal.get k) &&
  a.sup.get c == b.sup.get c

def denomSame (a b : State) (d : Denom) : Bool :=
  ((balKeys a b).filter (fun k => k.2 == d)).all (fun k => a.bank.get k.1 k.2 == b.bank.get k.1 k.2) &&
  a.bank.supply d == b.bank.supply d

/-- module or hook disabled ⇒ an EVM transaction's logs mint or release nothing (whole bank ledger
unchanged), the hook returns no error; a pair toggled off ⇒ nothing of its coin moves.  For a bare
hook invocation the token ledger of a gated pair is untouched too (for a holder's transaction the
token effect is the holder's own call: compared by the driver against the honest token). -/
def c14_hookGate (t : Tr) : Bool :=
  let gatedAll := !t.pre.st.params.enableErc20 || !t.pre.st.params.enableEVMHook
  let pairsOff := t.pre.st.reg.list.filter (fun p => gatedAll || !p.enabled)
  match t.op with
  | .k (.hook _) =>
    (!gatedAll || (t.ok && sameBank t.pre.st t.post.st && sameTok t.pre.evm t.post.evm)) &&
    pairsOff.all (fun p => denomSame t.pre.st t.post.st p.denom && tokContractSame t.pre.evm t.post.evm p.addr)
  | .tx _ _ _ =>
    (!gatedAll || sameBank t.pre.st t.post.st) &&
    pairsOff.all (fun p => denomSame t.pre.st t.post.st p.denom)
  | _ => true

/-- ordinary ERC-20 transfers keep working whatever the switches: a holder's transfer to somebody
other than the module address succeeds exactly when the token allows it, and moves no coins -/
def c14_ordinaryTransfers (t : Tr) : Bool :=
  match t.op with
  | .tx c h (.transfer to a) =>
    if to == t.env.modAddr || !t.honest then true
    else
      sameBank t.pre.st t.post.st &&
      (match holderCall t.cfg t.pre.evm c h (.transfer to a) with
       | some (t1, _) => t.ok && sameTok t1 t.post.evm
       | none => !t.ok)
  | _ => true

/-! ## C04 -/

def idelta (c : Bool) (v : Int) : Int := if c then v else 0

/-- every bank balance and supply moved by exactly `db` / `ds` -/
def bankMovedBy (pre post : State) (db : Addr × Denom → Int) (ds : Denom → Int) : Bool :=
  (balKeys pre post).all (fun k => (post.bank.get k.1 k.2 : Int) == (pre.bank.get k.1 k.2 : Int) + db k) &&
  (supKeys pre post).all (fun d => (post.bank.supply d : Int) == (pre.bank.supply d : Int) + ds d)

def tokMovedBy (pre post : TState) (db : Addr × Addr → Int) (ds : Addr → Int) : Bool :=
  ((pre.bal.keys ++ post.bal.keys).eraseDups).all (fun k => (post.bal.get k : Int) == (pre.bal.get k : Int) + db k) &&
  ((pre.sup.keys ++ post.sup.keys).eraseDups).all (fun c => (post.sup.get c : Int) == (pre.sup.get c : Int) + ds c)

/-- successful conversion, bank ledger: the sender (coin → token) loses / the receiver (token → coin)
gains exactly the amount; the only other changes are the module escrow (chain-deployed contract) or
the supply (external contract) -/
def c04_successExactBank (t : Tr) : Bool :=
  match t.op with
  | .k op =>
    if !(t.ok && t.resp == .converted) then true else
    (match op, msgPair t.pre.st op, convParties op with
     | .convertCoin m, some p, some (snd, _) =>
       let a : Int := m.amount
       let d := m.denom.s
       let md := t.env.modAddr
       let isMod := p.owner == .module
       bankMovedBy t.pre.st t.post.st
         (fun k => idelta (k == (snd, d)) (-a) + idelta (k == (md, d) && isMod) a)
         (fun d' => idelta (d' == d && !isMod) (-a)) &&
       decide (0 < a)
     | .convertERC20 m, some p, some (_, rcv) =>
       let a : Int := m.amount
       let d := p.denom
       let md := t.env.modAddr
       let isMod := p.owner == .module
       bankMovedBy t.pre.st t.post.st
         (fun k => idelta (k == (rcv, d)) a + idelta (k == (md, d) && isMod) (-a))
         (fun d' => idelta (d' == d && !isMod) a) &&
       decide (0 < a)
     | _, _, _ => !isConvert t.op)
  | _ => true

/-- successful conversion, token ledger **as reported by the contract** to the keeper: the balance the
keeper watches (receiver, sender, or escrow) moved by exactly the amount between the two queries -/
def c04_successExactReported (t : Tr) : Bool :=
  match t.op with
  | .k op =>
    if !(t.ok && t.resp == .converted) then true else
    (match op, msgPair t.pre.st op, t.answers with
     | .convertCoin m, some _, [_, b0, _, b1] =>
       (match b0.ret, b1.ret with | some x, some y => y == x + m.amount.toNat | _, _ => false)
     | .convertERC20 m, some p, [_, b0, _, b1] =>
       (match b0.ret, b1.ret with
        | some x, some y => if p.owner == .module then y + m.amount.toNat == x else y == x + m.amount.toNat
        | _, _ => false)
     | _, _, _ => !isConvert t.op)
  | _ => true

/-- successful conversion against the honest token: the token ledger itself moved exactly -/
def c04_successExactToken (t : Tr) : Bool :=
  match t.op with
  | .k op =>
    if !(t.ok && t.resp == .converted && t.honest) then true else
    (match op, msgPair t.pre.st op, convParties op with
     | .convertCoin m, some p, some (_, rcv) =>
       let a : Int := m.amount
       let md := t.env.modAddr
       let isMod := p.owner == .module
       tokMovedBy t.pre.evm t.post.evm
         (fun k => idelta (k == (p.addr, rcv)) a + idelta (k == (p.addr, md) && !isMod) (-a))
         (fun c => idelta (c == p.addr && isMod) a)
     | .convertERC20 m, some p, some (snd, _) =>
       let a : Int := m.amount
       let md := t.env.modAddr
       let isMod := p.owner == .module
       tokMovedBy t.pre.evm t.post.evm
         (fun k => idelta (k == (p.addr, snd)) (-a) + idelta (k == (p.addr, md) && !isMod) a)
         (fun c => idelta (c == p.addr && isMod) (-a))
     | _, _, _ => !isConvert t.op)
  | _ => true

/-- no `Approval` event in the logs of the token call of a successful conversion of an external token -/
def c04_noApproval (t : Tr) : Bool :=
  match t.op with
  | .k op =>
    if !(t.ok && t.resp == .converted) then true else
    (match msgPair t.pre.st op, t.answers with
     | some p, [_, _, call, _] => p.owner != .external || !call.logs.contains .approval
     | _, _ => !isConvert t.op)
  | _ => true

/-- a successful conversion of an external token saw `transfer` return `true` (a contract that returns
`false`, nothing, or garbage must make the conversion fail) -/
def c04_transferTrue (t : Tr) : Bool :=
  match t.op with
  | .k op =>
    if !(t.ok && t.resp == .converted) then true else
    (match msgPair t.pre.st op, t.answers with
     | some p, [_, _, call, _] => p.owner != .external || (call.status == .ok && call.ret == some 1)
     | _, _ => !isConvert t.op)
  | _ => true

/-- a conversion that went through saw every one of its EVM calls succeed: a call that returned an error or reverted —
at any internal step, with or without a revert reason — must make the conversion unsuccessful -/
def c04_internalFailureRejects (t : Tr) : Bool :=
  if !(isConvert t.op && t.ok && t.resp == .converted) then true
  else t.answers.all (fun a => a.status == .ok)

/-- converting back restores exactly the original holdings on both ledgers (honest token) -/
def c04_roundtrip (t : Tr) : Bool :=
  match t.prev, t.op with
  | some (.k pop, true, .converted, w0, true), .k op =>
    if !(t.ok && t.resp == .converted && t.honest) then true else
    let back : Bool :=
      match pop, op with
      | .convertCoin m1, .convertERC20 m2 =>
        msgPair w0.st pop == msgPair t.pre.st op && (msgPair w0.st pop).isSome &&
        (match msgPair w0.st pop with | some p => p.denom == m1.denom.s | none => false) &&
        m1.amount == m2.amount && m1.receiver.bytes == m2.sender.bytes && m1.sender.bytes == m2.receiver.bytes
      | .convertERC20 m1, .convertCoin m2 =>
        msgPair w0.st pop == msgPair t.pre.st op && (msgPair w0.st pop).isSome &&
        (match msgPair w0.st pop with | some p => p.denom == m2.denom.s | none => false) &&
        m1.amount == m2.amount && m1.receiver.bytes == m2.sender.bytes && m1.sender.bytes == m2.receiver.bytes
      | _, _ => false
    !back || (sameBank w0.st t.post.st && sameTok w0.evm t.post.evm)
  | _, _ => true

/-! ## C03 (honest worlds) -/

def modulePairs (r : Registry) : List Pair := r.list.filter (fun p => p.owner == .module)
def externalPairs (r : Registry) : List Pair := r.list.filter (fun p => p.owner == .external)

/-- escrow − total supply of a chain-deployed pair -/
def gap (env : Env) (w : World TState) (p : Pair) : Int :=
  (w.st.bank.get env.modAddr p.denom : Int) - (w.evm.supply p.addr : Int)

/-- tokens of contract `c` a holder destroyed in this operation -/
def burnedBy (t : Tr) (c : Addr) : Int :=
  match t.op with
  | .tx c' _ (.burn a) => if t.ok && c' == c && t.pre.evm.hasCode c then (a : Int) else 0
  | .txBatch c' _ calls =>
    if t.ok && c' == c && t.pre.evm.hasCode c then
      calls.foldl (fun n call => match call with | .burn a => n + (a : Int) | _ => n) 0
    else 0
  | _ => 0

/-- chain-deployed pairs: escrow − total supply changes by exactly what holders destroyed themselves
in this operation, and by nothing else -/
def c03_nativeExact (t : Tr) : Bool :=
  !t.clean ||
  (modulePairs t.pre.st.reg).all (fun p =>
    match t.post.st.reg.getPair p.id with
    | some _ => gap t.env t.post p == gap t.env t.pre p + burnedBy t p.addr
    | none => true)

/-- chain-deployed pairs: the escrow is never less than the total supply (checked on the post-state
of every operation that started from a state where it held; new pairs directly) -/
def c03_nativeGe (t : Tr) : Bool :=
  !t.clean ||
  (modulePairs t.post.st.reg).all (fun p =>
    decide (0 ≤ gap t.env t.post p) ||
    (match t.pre.st.reg.getPair p.id with | some _ => decide (gap t.env t.pre p < 0) | none => false))

/-- external pairs: the bank supply of the coin never exceeds the tokens the module holds -/
def c03_external (t : Tr) : Bool :=
  !t.clean ||
  (externalPairs t.post.st.reg).all (fun p =>
    decide (t.post.st.bank.supply p.denom ≤ t.post.evm.balOf p.addr t.env.modAddr) ||
    (match t.pre.st.reg.getPair p.id with
     | some _ => decide (t.pre.evm.balOf p.addr t.env.modAddr < t.pre.st.bank.supply p.denom)
     | none => false))

def monitors : List (String × String × (Tr → Bool)) :=
  [("C15", "registry_inv", c15_registryInv), ("C15", "lookups_agree", c15_lookupsAgree),
   ("C15", "list_eq_reachable", c15_listEqReachable),
   ("C15", "register_existing_rejected", c15_registerExistingRejected),
   ("C15", "register_adds_one", c15_registerAddsOne), ("C15", "toggle_only_flag", c15_toggleOnlyFlag),
   ("C15", "delete_removes_all", c15_deleteRemovesAll), ("C15", "others_keep_registry", c15_othersKeepRegistry),
   ("C15", "grpc_lookups", c15_grpcLookups), ("C15", "rejected_unchanged", rejectedUnchanged),
   ("C14", "msg_gate", c14_msgGate), ("C14", "receiver_blocked", c14_receiverBlocked), ("C14", "module_receiver", c14_moduleReceiver), ("C14", "switches_stored", c14_switchesStored),
   ("C14", "third_party_send_disabled", c14_thirdPartySendDisabled), ("C14", "hook_gate", c14_hookGate),
   ("C14", "ordinary_transfers", c14_ordinaryTransfers), ("C14", "rejected_unchanged", rejectedUnchanged),
   ("C04", "rejected_unchanged", rejectedUnchanged), ("C04", "success_exact_bank", c04_successExactBank),
   ("C04", "success_exact_reported", c04_successExactReported), ("C04", "success_exact_token", c04_successExactToken),
   ("C04", "no_approval", c04_noApproval), ("C04", "transfer_true", c04_transferTrue),
   ("C04", "roundtrip", c04_roundtrip), ("C04", "internal_failure_rejects", c04_internalFailureRejects),
   ("C03", "native_backing_exact", c03_nativeExact), ("C03", "native_backing_ge", c03_nativeGe),
   ("C03", "external_backing", c03_external), ("C03", "rejected_unchanged", rejectedUnchanged)]

end Spec
end Erc20
end CV
