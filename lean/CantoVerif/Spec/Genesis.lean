import CantoVerif.Model.Genesis
/-!
# C18 — the clauses of the property as `Bool` predicates over one *round-trip transition*.

A transition is one checkpoint of a history: the seven exported Canto sections `g1`, the context of the import
(`InitChain` height and time), whether the import was accepted, the re-export taken directly after the import
(`g2a`), the re-export after one committed block at the same block time (`g2b`, absent when an epoch was due in
that block), the verdicts of the modules' own `ValidateGenesis`, and the three byte-level comparisons the
harness makes on the real chains (JSON-canonical sections, raw KV pairs of the module stores, gRPC answers).
The driver evaluates every monitor on the IMPLEMENTATION's transition.
-/
namespace CV
namespace Genesis
namespace Spec

/-- outcome of a byte-level comparison made by the harness -/
inductive Cmp where | eq | diff | skipped
deriving DecidableEq, Repr

def Cmp.good : Cmp → Bool
  | .diff => false
  | _ => true

structure Tr where
  env : Env
  ctx : Ctx
  g1 : Gen
  importOk : Bool
  valid : List Bool          -- per module, order of `moduleNames`
  g2a : Option Gen
  g2b : Option Gen
  json2a : Cmp
  json2b : Cmp
  kv2a : Cmp
  kv2b : Cmp
  queries : Cmp

/-- a fresh chain accepts the export -/
def importAccepted (t : Tr) : Bool := t.importOk

/-- export, import, export is a fixed point (up to the epochs' CurrentEpochStartHeight): directly after the import -/
def fixpointPure (t : Tr) : Bool :=
  !t.importOk || ((match t.g2a with | some g => g.eqv t.g1 | none => false) && t.json2a.good)

/-- … and after one committed block at the exported block time (official export path) -/
def fixpointBlock (t : Tr) : Bool :=
  !t.importOk || ((match t.g2b with | some g => g.eqv t.g1 | none => t.json2b != .diff) && t.json2b.good)

/-- the export passes every module's own genesis validation -/
def exportValidates (t : Tr) : Bool := t.valid.all id

/-- the re-imported chain answers the modules' queries identically (recomputed provision exempt) -/
def queriesAgree (t : Tr) : Bool := !t.importOk || t.queries.good

/-- completeness at store level: every raw key/value of the seven module stores (and their parameter subspaces)
survives the round trip, the epochs' start height and the recomputed provision exempt -/
def kvPreserved (t : Tr) : Bool := !t.importOk || (t.kv2a.good && t.kv2b.good)

def monitors : List (String × String × (Tr → Bool)) :=
  [ ("C18", "import_accepted", importAccepted),
    ("C18", "fixpoint_pure", fixpointPure),
    ("C18", "fixpoint_block", fixpointBlock),
    ("C18", "export_validates", exportValidates),
    ("C18", "queries_agree", queriesAgree),
    ("C18", "kv_preserved", kvPreserved) ]

/-- the transition the MODEL makes from a state `s`: export, import in `ctx`, export again; the byte-level
comparisons have no model counterpart and are `skipped`; `queries` is decided by the modelled queries `qs`. -/
def modelTr (env : Env) (ctx : Ctx) (s : State) (qs : List Query) : Tr :=
  let g1 := exportAll env s
  match initAll env ctx g1 with
  | .ok s' =>
    { env := env, ctx := ctx, g1 := g1, importOk := true, valid := validateEach env g1,
      g2a := some (exportAll env s'), g2b := none, json2a := .skipped, json2b := .skipped, kv2a := .skipped, kv2b := .skipped,
      queries := if qs.all (fun q => q.exempt || answer env s' q == answer env s q) then .eq else .diff }
  | .error _ =>
    { env := env, ctx := ctx, g1 := g1, importOk := false, valid := validateEach env g1,
      g2a := none, g2b := none, json2a := .skipped, json2b := .skipped, kv2a := .skipped, kv2b := .skipped, queries := .skipped }

end Spec
end Genesis
end CV
