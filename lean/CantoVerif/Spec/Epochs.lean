import CantoVerif.Model.Inflation
/-!
# Observable statements of C12, C13, C05 as executable predicates on one transition.

The same predicates are (a) proved of every transition of the model (`Props/C12.lean`, `C13.lean`,
`C05.lean`) and (b) evaluated by the driver on every transition *observed on the implementation*.
They read the pre-state, the operation, the outcome, the response (the listener notifications a
recorder saw) and the post-state — never the model's `step`.  Core Lean only.

Ghost components of the states of an implementation transition (`mints`, `hist`) are maintained by
the driver from what the implementation showed: a *minting epoch* is an end-of-epoch of the
configured identifier while inflation is enabled — the property's own definition.
-/
namespace CV
namespace Inflation
namespace Spec
open Epochs

structure Tr where
  env : Env
  pre : State
  op : Op
  ok : Bool
  resp : Resp
  post : State
  logKnown : Bool      -- false: the block ran through the application's own keeper (no recorder among the listeners)
  negative : Bool      -- the implementation printed a negative provision

/-- successful block transitions only -/
def onBlock (t : Tr) (f : Int → Int → Bool) : Bool :=
  match t.op with
  | .block now h => !t.ok || f now h
  | _ => true

def pairs (t : Tr) : List (EpochInfo × EpochInfo) := t.pre.infos.zip t.post.infos

/-- the record has counted one more epoch -/
def ticked (p : EpochInfo × EpochInfo) : Bool := p.1.started && p.2.cur == p.1.cur + 1
def startedNow (p : EpochInfo × EpochInfo) : Bool := !p.1.started && p.2.started

/-- `curStart = start + (cur − 1)·duration` for a counting record -/
def formulaOK (e : EpochInfo) : Bool := !e.started || e.curStart == e.start + (e.cur - 1) * e.dur

/-! ## C12 -/

/-- identifiers, their order, start times and durations never change -/
def c12_static (t : Tr) : Bool :=
  onBlock t fun _ _ =>
    t.pre.infos.length == t.post.infos.length &&
    (pairs t).all (fun p => p.1.id == p.2.id && p.1.start == p.2.start && p.1.dur == p.2.dur)

/-- counting starts in the first block whose time is not before the start time, with epoch 1 beginning at the
start time; before that the record is untouched -/
def c12_start (t : Tr) : Bool :=
  onBlock t fun now h =>
    (pairs t).all (fun p =>
      p.1.started ||
      (if now < p.1.start then p.2 == p.1
       else p.2 == { p.1 with started := true, cur := 1, curStart := p.1.start, height := h }))

/-- after the start: the counter moves by exactly one, and the epoch start by one duration, in precisely the
blocks whose time is strictly after `curStart + duration`; every other block leaves the record unchanged -/
def c12_tick_iff (t : Tr) : Bool :=
  onBlock t fun now h =>
    (pairs t).all (fun p =>
      !p.1.started || decide (now < p.1.start) ||
      (if p.1.curStart + p.1.dur < now then
         p.2 == { p.1 with cur := p.1.cur + 1, curStart := p.1.curStart + p.1.dur, height := h }
       else p.2 == p.1))

def c12_at_most_one (t : Tr) : Bool :=
  onBlock t fun _ _ =>
    (pairs t).all (fun p => p.2.cur == p.1.cur || p.2.cur == p.1.cur + 1 || (!p.1.started && p.2.cur == 1))

/-- the closed form of the current epoch's start time is preserved -/
def c12_start_time_formula (t : Tr) : Bool :=
  onBlock t fun _ _ => (pairs t).all (fun p => !formulaOK p.1 || formulaOK p.2)

/-- the block that moves the counter from `n` to `n+1` is later than `start + n·duration` -/
def c12_never_early (t : Tr) : Bool :=
  onBlock t fun now _ =>
    (pairs t).all (fun p => !ticked p || !formulaOK p.1 || decide (p.1.start + p.1.cur * p.1.dur < now))

/-- what the listeners must have been told, given what happened to the records -/
def expectedCalls (t : Tr) : List Call :=
  (pairs t).flatMap (fun p =>
    if startedNow p then [.beforeStart p.1.id 1]
    else if ticked p then [.afterEnd p.1.id p.2.cur, .beforeStart p.1.id p.2.cur]
    else [])

/-- one notification pair per tick, end before start, same number; one start notification per start; nothing
else; identifiers in store order -/
def c12_hook_order (t : Tr) : Bool :=
  onBlock t fun _ _ =>
    !t.logKnown ||
    (match t.resp with
     | .block log => log == expectedCalls t
     | _ => false)

def lastOf : List Int → Option Int
  | [] => none
  | [x] => some x
  | _ :: xs => lastOf xs

/-- end-of-epoch numbers of one identifier are consecutive across blocks -/
def c12_consecutive (t : Tr) : Bool :=
  onBlock t fun _ _ =>
    (match t.resp with
     | .block log =>
       (pairs t).all (fun p =>
         match ends p.1.id log with
         | [] => true
         | [n] => (match lastOf (ends p.1.id t.pre.hist) with
                   | some m => n == m + 1
                   | none => n == p.1.cur + 1)
         | _ => false)
     | _ => false)

/-! ## C13 -/

def isDay (s : State) : Bool := s.infl.epochId == dayId

/-- the record of the configured identifier ended an epoch in this block -/
def idTicked (t : Tr) (id : String) : Bool := (pairs t).any (fun p => p.1.id == id && ticked p)

/-- a minting epoch: end of an epoch of the configured identifier while inflation is enabled -/
def minting (t : Tr) : Bool := t.pre.infl.params.enable && idTicked t t.pre.infl.epochId

def c13_nonneg (t : Tr) : Bool := !t.negative

/-- the pure function equals the published formula, evaluated in `LegacyDec` arithmetic -/
def c13_calc_formula (t : Tr) : Bool :=
  match t.op, t.resp with
  | .sample p x epp b, .sample v next =>
    !t.ok || (v == provisionN p x epp b && (match next with | some w => w == provisionN p (x + 1) epp b | none => true))
  | .sample _ _ _ _, _ => !t.ok
  | _, _ => true

/-- the bonding incentive lies between 1 and 1 + max variance: the provision lies between the
values the formula gives for these two incentives -/
def c13_calc_range (t : Tr) : Bool :=
  match t.op, t.resp with
  | .sample p x epp _, .sample v _ =>
    !t.ok || !p.valid ||
    (decide (scaleN (decayedN p x) S18 epp ≤ v) && decide (v ≤ scaleN (decayedN p x) (S18 + p.maxVariance) epp))
  | _, _ => true

/-- fixed parameters and bonded ratio: the next period's provision is not larger -/
def c13_calc_antitone (t : Tr) : Bool :=
  match t.op, t.resp with
  | .sample p _ _ _, .sample v (some w) => !t.ok || !p.valid || decide (w ≤ v)
  | _, _ => true

/-- daily epochs: the period is the number of minting epochs divided by epochs-per-period -/
def c13_period_count (t : Tr) : Bool :=
  onBlock t fun _ _ =>
    !isDay t.pre || t.pre.infl.period != t.pre.infl.mints / t.pre.infl.epp ||
    t.post.infl.period == t.post.infl.mints / t.post.infl.epp

/-- the period moves by at most one, and only in a minting block -/
def c13_period_step (t : Tr) : Bool :=
  !t.ok ||
  (match t.op with
   | .block _ _ =>
     t.post.infl.period == t.pre.infl.period || (t.post.infl.period == t.pre.infl.period + 1 && minting t)
   | _ => t.post.infl.period == t.pre.infl.period)

/-- the provision changes only when the period does, to the formula's value for the new period -/
def c13_provision_boundary (t : Tr) : Bool :=
  !t.ok ||
  (if t.post.infl.period == t.pre.infl.period then t.post.infl.provision == t.pre.infl.provision
   else
     (match bondedRatio t.env t.post.infl.bank with
      | .ok ratio => t.post.infl.provision == provisionN t.pre.infl.params t.post.infl.period t.pre.infl.epp ratio
      | .error _ => false))

/-! ## C05 -/

def balKeys (a b : State) : List (Addr × Denom) := (a.infl.bank.bal.keys ++ b.infl.bank.bal.keys).eraseDups
def denomsOf (a b : State) : List Denom :=
  ((balKeys a b).map (·.2) ++ a.infl.bank.sup.keys ++ b.infl.bank.sup.keys ++ a.infl.pool.keys ++ b.infl.pool.keys).eraseDups

def sameLedger (a b : State) : Bool :=
  (balKeys a b).all (fun k => a.infl.bank.get k.1 k.2 == b.infl.bank.get k.1 k.2) &&
  (denomsOf a b).all (fun d => a.infl.bank.supply d == b.infl.bank.supply d && a.infl.pool.get d == b.infl.pool.get d)

def mintedAmt (t : Tr) : Nat := t.pre.infl.provision / S18
def stakingAmt (t : Tr) : Nat := mintedAmt t * t.pre.infl.params.stakingRewards / S18

/-- supply of the mint denomination grows by exactly `⌊provision⌋` in a minting block; no other supply changes -/
def c05_mint_exact (t : Tr) : Bool :=
  onBlock t fun _ _ =>
    (denomsOf t.pre t.post).all (fun d =>
      t.post.infl.bank.supply d ==
        t.pre.infl.bank.supply d + (if minting t && d == t.pre.infl.params.mintDenom then mintedAmt t else 0))

/-- the fee collector receives exactly `⌊minted · stakingRewards⌋` -/
def c05_staking_exact (t : Tr) : Bool :=
  onBlock t fun _ _ =>
    !minting t ||
    (denomsOf t.pre t.post).all (fun d =>
      t.post.infl.bank.get t.env.feeCollector d ==
        t.pre.infl.bank.get t.env.feeCollector d + (if d == t.pre.infl.params.mintDenom then stakingAmt t else 0))

/-- everything else — the rest of the mint and whatever the inflation account held before — goes to the
distribution account and is recorded in the community pool -/
def c05_community_rest (t : Tr) : Bool :=
  onBlock t fun _ _ =>
    !minting t ||
    (denomsOf t.pre t.post).all (fun d =>
      let extra := t.pre.infl.bank.get t.env.infl d + (if d == t.pre.infl.params.mintDenom then mintedAmt t - stakingAmt t else 0)
      decide (stakingAmt t ≤ mintedAmt t) &&
      t.post.infl.bank.get t.env.distr d == t.pre.infl.bank.get t.env.distr d + extra &&
      t.post.infl.pool.get d == t.pre.infl.pool.get d + extra * S18)

/-- the inflation account is empty after a minting epoch -/
def c05_module_empty (t : Tr) : Bool :=
  onBlock t fun _ _ => !minting t || (denomsOf t.pre t.post).all (fun d => t.post.infl.bank.get t.env.infl d == 0)

/-- disabled: nothing moves, nothing is minted, and each elapsed daily epoch is counted as skipped -/
def c05_disabled_skip (t : Tr) : Bool :=
  onBlock t fun _ _ =>
    t.pre.infl.params.enable ||
    (sameLedger t.pre t.post && t.post.infl.period == t.pre.infl.period && t.post.infl.provision == t.pre.infl.provision &&
     t.post.infl.skipped == t.pre.infl.skipped + (if idTicked t dayId then 1 else 0))

/-- enabled: epochs of other identifiers do nothing; the skipped counter does not move -/
def c05_other_id_noop (t : Tr) : Bool :=
  onBlock t fun _ _ =>
    !t.pre.infl.params.enable ||
    (t.post.infl.skipped == t.pre.infl.skipped &&
     (minting t || (sameLedger t.pre t.post && t.post.infl.period == t.pre.infl.period && t.post.infl.provision == t.pre.infl.provision)))

/-- no account other than the inflation account, the fee collector and the distribution account changes -/
def c05_frame (t : Tr) : Bool :=
  onBlock t fun _ _ =>
    (balKeys t.pre t.post).all (fun k =>
      k.1 == t.env.infl || k.1 == t.env.feeCollector || k.1 == t.env.distr ||
      t.pre.infl.bank.get k.1 k.2 == t.post.infl.bank.get k.1 k.2)

/-- a rejected operation (for a block: a panicking `BeginBlocker`) leaves everything as it was -/
def c05_rejected_unchanged (t : Tr) : Bool :=
  t.ok ||
  (sameLedger t.pre t.post && t.pre.infos == t.post.infos && t.pre.infl.period == t.post.infl.period &&
   t.pre.infl.skipped == t.post.infl.skipped && t.pre.infl.provision == t.post.infl.provision &&
   t.pre.infl.params == t.post.infl.params)

def monitors : List (String × String × (Tr → Bool)) :=
  [("C12", "static_fields", c12_static), ("C12", "start_at_first_block_not_before", c12_start),
   ("C12", "tick_iff", c12_tick_iff), ("C12", "at_most_one_per_block", c12_at_most_one),
   ("C12", "start_time_formula", c12_start_time_formula), ("C12", "never_early", c12_never_early),
   ("C12", "hook_order", c12_hook_order), ("C12", "consecutive", c12_consecutive),
   ("C13", "nonneg", c13_nonneg), ("C13", "calc_formula", c13_calc_formula), ("C13", "calc_incentive_range", c13_calc_range),
   ("C13", "calc_antitone", c13_calc_antitone), ("C13", "period_count", c13_period_count),
   ("C13", "period_step", c13_period_step), ("C13", "provision_boundary", c13_provision_boundary),
   ("C05", "mint_exact", c05_mint_exact), ("C05", "staking_exact", c05_staking_exact),
   ("C05", "community_rest", c05_community_rest), ("C05", "module_empty", c05_module_empty),
   ("C05", "disabled_skip", c05_disabled_skip), ("C05", "other_id_noop", c05_other_id_noop),
   ("C05", "frame", c05_frame), ("C05", "rejected_unchanged", c05_rejected_unchanged)]

end Spec
end Inflation
end CV
