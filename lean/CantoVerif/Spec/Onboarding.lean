import CantoVerif.Model.Onboarding
/-!
# Observable statements of C11 as executable predicates on one transition
`(pre-state, operation, outcome, response, post-state)` (core Lean only).

They are (a) what `Props/C11.lean` proves of every transition of the model and (b) what the driver
evaluates on every transition *observed on the implementation*.  All quantities are read off the
ledgers of the two states (bank balances, token ledger); the response is used only for the
acknowledgement and for what `ConvertCoin` was asked.

`pre` is the state **before the underlying transfer** credited the recipient.
-/
namespace CV
namespace Onboarding
namespace Spec

structure Tr where
  env : Env
  pre : State
  op : Op
  ok : Bool
  resp : Resp
  post : State

def balKeys (a b : State) : List (Addr × Denom) := (a.cs.bank.bal.keys ++ b.cs.bank.bal.keys).eraseDups
def supKeys (a b : State) : List Denom := (a.cs.bank.sup.keys ++ b.cs.bank.sup.keys).eraseDups
def tokKeys (a b : State) : List (Addr × Addr) := (a.tok.keys ++ b.tok.keys).eraseDups

def sameBank (a b : Bank) : Bool := a.bal.eqv b.bal && a.sup.eqv b.sup
def sameTok (a b : State) : Bool := a.tok.eqv b.tok
def sameList {α : Type} [BEq α] (a b : List α) : Bool := a.all b.contains && b.all a.contains

/-- nothing the property speaks about changed -/
def sameState (a b : State) : Bool :=
  sameBank a.cs.bank b.cs.bank && a.cs.pools == b.cs.pools && a.cs.seq == b.cs.seq &&
  sameTok a b && sameList a.pairs b.pairs && a.ob == b.ob

def gain (t : Tr) (a : Addr) (d : Denom) : Nat := t.post.cs.bank.get a d - t.pre.cs.bank.get a d
def loss (t : Tr) (a : Addr) (d : Denom) : Nat := t.pre.cs.bank.get a d - t.post.cs.bank.get a d

def Credit.src : Credit → Addr
  | .mint m => m
  | .unescrow e => e

/-- the escrow address of the pool the transferred coin trades on -/
def poolEscrow (s : State) (v : Denom) : Option Addr := (s.cs.poolByCounter v).map (·.escrow)

/-- the packet was processed and its effects kept -/
def kept (t : Tr) (p : Packet) : Bool := t.ok && p.underOk && t.resp.ack == .given

/-- voucher the pool received (0 when the recipient *is* the pool's escrow: no swap can happen then) -/
def swappedIn (t : Tr) (p : Packet) : Nat :=
  match poolEscrow t.pre p.denom with
  | some e => if e == p.receiver.bytes then 0 else gain t e p.denom
  | none => 0

/-- voucher the erc20 module account received -/
def convertedIn (t : Tr) (p : Packet) : Nat :=
  if t.env.erc20Mod == p.receiver.bytes then 0 else gain t t.env.erc20Mod p.denom

/-- the recipient is one of the accounts the credit itself debits (a transfer module / channel escrow paying itself) -/
def degenerate (p : Packet) : Bool := Credit.src p.credit == p.receiver.bytes

/-- the state onboarding starts from: `pre` plus the credit of the underlying transfer -/
def afterCredit (t : Tr) (p : Packet) : Option State :=
  match t.pre.cs.bank.applyAll (creditEffs p) with
  | .ok b => some (credited t.pre p b)
  | .error _ => none

def parsable (p : Packet) : Bool := p.sender.form == .lower && p.receiver.form == .lower

/-- the three guards of the callback, on the state after the credit -/
def guardsPass (s0 : State) (p : Packet) : Bool :=
  s0.ob.enabled && s0.ob.channels.contains p.dstChannel && parsable p && !s0.macc.contains p.receiver.bytes

/-! ## the clauses -/

/-- an aborted transaction, a refused transfer and a replaced acknowledgement leave nothing behind -/
def c11_unkept_unchanged (t : Tr) : Bool :=
  match t.op with
  | .recv p => kept t p || sameState t.pre t.post
  | _ => true

/-- `swapped into the pool + converted + left with the recipient = transferred`, with the
recipient's voucher balance of before the transfer -/
def c11_conservation (t : Tr) : Bool :=
  match t.op with
  | .recv p =>
    !kept t p || degenerate p ||
    t.post.cs.bank.get p.receiver.bytes p.denom + swappedIn t p + convertedIn t p ==
      t.pre.cs.bank.get p.receiver.bytes p.denom + p.amount
  | _ => true

/-- no balance the recipient held before the transfer is reduced, in any denomination -/
def c11_prior_untouched (t : Tr) : Bool :=
  match t.op with
  | .recv p =>
    !t.ok || degenerate p ||
    (balKeys t.pre t.post).all (fun k => k.1 != p.receiver.bytes ||
      decide (t.pre.cs.bank.get k.1 k.2 ≤ t.post.cs.bank.get k.1 k.2))
  | _ => true

/-- a swap happened iff the guards pass, the recipient's standard-coin balance is below the
threshold and the exact-output purchase is feasible within the transferred amount and the
governance limits; then the recipient gains exactly the threshold, the pool pays exactly the
threshold, and the pool receives at most the transferred amount.  Without a swap the pool and the
recipient's standard-coin balance are as before. -/
def c11_swap_iff_below_threshold (t : Tr) : Bool :=
  match t.op with
  | .recv p =>
    !kept t p || degenerate p ||
    (let r := p.receiver.bytes
     let std := t.pre.cs.std
     let thr := t.pre.ob.threshold
     let did := decide (0 < swappedIn t p)
     let expect :=
       match afterCredit t p with
       | some s0 =>
         guardsPass s0 p && decide (s0.cs.bank.get r std < thr) &&
         (match Coinswap.trade t.env.cs s0.cs p.denom p.amount std thr true with | .ok _ => true | .error _ => false)
       | none => false
     did == expect &&
     (match poolEscrow t.pre p.denom with
      | some e =>
        if e == r then true
        else if did then
          t.post.cs.bank.get r std == t.pre.cs.bank.get r std + thr && loss t e std == thr && gain t e std == 0 &&
          decide (swappedIn t p ≤ p.amount) && decide (t.pre.cs.bank.get r std < thr)
        else
          t.post.cs.bank.get e std == t.pre.cs.bank.get e std && t.post.cs.bank.get e p.denom == t.pre.cs.bank.get e p.denom &&
          (p.denom == std || t.post.cs.bank.get r std == t.pre.cs.bank.get r std)
      | none => p.denom == std || t.post.cs.bank.get r std == t.pre.cs.bank.get r std))
  | _ => true

/-- a swap is made of both legs or of none -/
def c11_no_partial_swap (t : Tr) : Bool :=
  match t.op with
  | .recv p =>
    !t.ok || degenerate p ||
    (match poolEscrow t.pre p.denom with
     | some e =>
       e == p.receiver.bytes ||
       (gain t e p.denom == 0 && loss t e t.pre.cs.std == 0) ||
       (decide (0 < gain t e p.denom) && loss t e t.pre.cs.std == t.pre.ob.threshold &&
        gain t p.receiver.bytes t.pre.cs.std == t.pre.ob.threshold)
     | none => true)
  | _ => true

/-- the conversion is all-or-nothing: when `ConvertCoin` answered success for a live pair, exactly
the requested amount — the transferred amount minus what was swapped — moved to the erc20 module
account and exactly that many tokens were credited to the recipient; in every other case (not
called, failed at any point, pair deleted) neither the module account nor the token ledger moved -/
def c11_no_partial_convert (t : Tr) : Bool :=
  match t.op with
  | .recv p =>
    !t.ok || degenerate p || t.env.erc20Mod == p.receiver.bytes ||
    (let r := p.receiver.bytes
     let m := t.env.erc20Mod
     (!t.resp.convCalled || t.resp.convAmt + swappedIn t p == p.amount) &&
     (if kept t p && t.resp.convCalled && p.conv == .ok then
        (match Coinswap.lookupD t.pre.pairs p.denom with
         | some pair =>
           gain t m p.denom == t.resp.convAmt && loss t m p.denom == 0 &&
           ((pair.contract, r) :: tokKeys t.pre t.post).all (fun k =>
             t.post.tok.get k == t.pre.tok.get k + (if k == (pair.contract, r) then t.resp.convAmt else 0))
         | none => false)
      else
        t.post.cs.bank.get m p.denom == t.pre.cs.bank.get m p.denom && sameTok t.pre t.post))
  | _ => true

/-- disabled, channel not whitelisted, module-account recipient, or refused transfer: nothing
happens beyond the credit of the underlying transfer, and the acknowledgement is passed on -/
def c11_guards (t : Tr) : Bool :=
  match t.op with
  | .recv p =>
    !t.ok ||
    (if !p.underOk then t.resp.ack == .given && sameState t.pre t.post
     else match afterCredit t p with
       | none => true
       | some s0 =>
         let blocked := !s0.ob.enabled || !s0.ob.channels.contains p.dstChannel ||
                        (parsable p && s0.macc.contains p.receiver.bytes)
         !blocked || (t.resp.ack == .given && !t.resp.convCalled && sameState s0 t.post))
  | _ => true

/-- packets whose addresses parse get the underlying acknowledgement back, whatever happened to
the swap and the conversion; the callback never invents a third acknowledgement -/
def c11_ack_passthrough (t : Tr) : Bool :=
  match t.op with
  | .recv p => !t.ok || (t.resp.ack != .other && (!parsable p || t.resp.ack == .given))
  | _ => true

def monitors : List (String × String × (Tr → Bool)) :=
  [("C11", "unkept_unchanged", c11_unkept_unchanged), ("C11", "conservation", c11_conservation),
   ("C11", "prior_untouched", c11_prior_untouched), ("C11", "swap_iff_below_threshold", c11_swap_iff_below_threshold),
   ("C11", "no_partial_swap", c11_no_partial_swap), ("C11", "no_partial_convert", c11_no_partial_convert),
   ("C11", "guards", c11_guards), ("C11", "ack_passthrough", c11_ack_passthrough)]

end Spec
end Onboarding
end CV
