import CantoVerif.Model.Ante
/-!
# C19 as executable predicates on one observed admission decision.

`Obs` is what the harness sees the real `AnteHandler` answer: admitted (`ok`), refused by one of
the routing checks, or refused by a later check of the chain it was routed to (`later`).
The predicates are proved of the model's own decisions in `Props/C19.lean` (`route_monitors`) and
evaluated by the driver on every decision of the implementation.  Core Lean only.
-/
namespace CV
namespace Ante
namespace Spec

inductive Obs where
  | ok | later
  | unknownExt | ethInCosmos | authzDisabled | nestingLimit | ethShape | nonEthInEth
deriving DecidableEq, Repr

/-- the transaction got past the routing checks (it was admitted, or only a later check of its chain refused it) -/
def Obs.passedRouting : Obs → Bool
  | .ok | .later => true
  | _ => false

structure Tr where
  tx : Tx
  obs : Obs

def headIs (tx : Tx) (url : String) : Bool := tx.extOpts.head? == some url

mutual
  /-- a disabled *message* strictly inside some `MsgExec` -/
  def hasBadExec : List Msg → Bool → Bool
    | [], _ => false
    | .leaf url :: rest, inner => (inner && isDisabled url) || hasBadExec rest inner
    | .grant _ :: rest, inner => hasBadExec rest inner
    | .exec ms :: rest, inner => hasBadExec ms true || hasBadExec rest inner
end

mutual
  /-- a *grant* of a disabled message type at any position -/
  def hasBadGrant : List Msg → Bool
    | [] => false
    | .leaf _ :: rest => hasBadGrant rest
    | .grant url :: rest => isDisabled url || hasBadGrant rest
    | .exec ms :: rest => hasBadGrant ms || hasBadGrant rest
end

/-- an Ethereum message gets past routing only under the Ethereum option, among Ethereum messages only -/
def ethOnlyViaEthPath (t : Tr) : Bool :=
  !(t.obs.passedRouting && t.tx.msgs.any isEth) || (headIs t.tx ethOpt && t.tx.msgs.all isEth)

/-- a first extension option that is neither the Ethereum nor the Web3 one is refused as such -/
def unknownExtRejected (t : Tr) : Bool :=
  match t.tx.extOpts with
  | [] => true
  | o :: _ => o == ethOpt || o == web3Opt || t.obs == .unknownExt

/-- no Ethereum message inside an ordinary or EIP-712 Cosmos transaction -/
def noEthInCosmosOrEip712 (t : Tr) : Bool :=
  !(t.tx.msgs.any isEth && !headIs t.tx ethOpt) || !t.obs.passedRouting

def authzExecBlocked (t : Tr) : Bool := !hasBadExec t.tx.msgs false || !t.obs.passedRouting
def authzGrantBlocked (t : Tr) : Bool := !hasBadGrant t.tx.msgs || !t.obs.passedRouting
def deepNestingRejected (t : Tr) : Bool := !decide (depthL t.tx.msgs ≥ 6) || !t.obs.passedRouting

def monitors : List (String × String × (Tr → Bool)) :=
  [ ("C19", "eth_only_via_eth_path", ethOnlyViaEthPath),
    ("C19", "unknown_ext_rejected", unknownExtRejected),
    ("C19", "no_eth_in_cosmos_or_eip712", noEthInCosmosOrEip712),
    ("C19", "authz_exec_blocked", authzExecBlocked),
    ("C19", "authz_grant_blocked", authzGrantBlocked),
    ("C19", "deep_nesting_rejected", deepNestingRejected) ]

/-- the model's decision as an observation; what happens after routing is not the model's business,
so a routed transaction is observed as `later` (the weakest observation that passed routing) -/
def obsOf : Verdict → Obs
  | .routedEth | .routedCosmos | .routedEip712 => .later
  | .unknownExt => .unknownExt
  | .ethInCosmos => .ethInCosmos
  | .authzDisabled => .authzDisabled
  | .nestingLimit => .nestingLimit
  | .ethShape => .ethShape
  | .nonEthInEth => .nonEthInEth

/-- does an implementation observation agree with the model's verdict? -/
def agrees (v : Verdict) (o : Obs) : Bool :=
  if v.passedRouting then o.passedRouting else obsOf v == o

def ofModel (tx : Tx) : Tr := { tx := tx, obs := obsOf (route tx) }

end Spec
end Ante
end CV
