import CantoVerif.Model.Coinswap
/-! Concrete states and operations used by the non-vacuity examples of the property files (core Lean only). -/
namespace CV
namespace Coinswap

def exEnv : Env :=
  { modAddr := "m.coinswap", feeCollector := "m.fee_collector", blockedCs := ["m.coinswap"], blockedBank := ["m.coinswap"],
    reserveAddr := [("lpt-1", "e.lpt-1")] }

def exState : State :=
  { bank := { bal := ⟨[(("e.lpt-1", "stake"), 3), (("e.lpt-1", "abtc"), 2), (("u0", "stake"), 10), (("u0", "abtc"), 10), (("u0", "lpt-1"), 3)]⟩,
              sup := ⟨[("lpt-1", 3), ("stake", 13), ("abtc", 12)]⟩, accts := ["e.lpt-1", "u0", "m.coinswap"] },
    params := { fee := 3000000000000000, taxRate := 0, feeDenom := "stake", feeAmt := 0, maxStd := 1000, maxSwap := [("abtc", 100)] },
    std := "stake", pools := [{ counter := "abtc", lpt := "lpt-1", escrow := "e.lpt-1" }], seq := 2, nowSec := 100, nowNsec := 0 }

def exSell : Op :=
  .swap { inAddr := ⟨.lower, "u0"⟩, inDenom := "stake", inAmt := 4, outAddr := ⟨.lower, "u0"⟩, outDenom := "abtc", outAmt := 1,
          deadline := 100, isBuy := false }


/-- the same pool after its last share was burned while coins remain in escrow -/
def exEmptied : State :=
  { exState with bank := { bal := ⟨[(("e.lpt-1", "stake"), 5), (("e.lpt-1", "abtc"), 7), (("u0", "stake"), 10), (("u0", "abtc"), 10)]⟩,
                           sup := ⟨[("stake", 15), ("abtc", 17)]⟩, accts := ["e.lpt-1", "u0", "m.coinswap"] } }

def exRefill : Op :=
  .add { sender := ⟨.lower, "u0"⟩, tokDenom := "abtc", maxToken := 1, exact := 1, minLiq := 1, deadline := 100 }

def exBuy : Op :=
  .swap { inAddr := ⟨.upper, "u0"⟩, inDenom := "stake", inAmt := 9, outAddr := ⟨.lower, "u0"⟩, outDenom := "abtc", outAmt := 1,
          deadline := 101, isBuy := true }

def exAdd : Op :=
  .add { sender := ⟨.lower, "u0"⟩, tokDenom := "abtc", maxToken := 5, exact := 3, minLiq := 3, deadline := 100 }

def exRemove : Op :=
  .remove { sender := ⟨.lower, "u0"⟩, lptDenom := "lpt-1", withdraw := 2, minToken := 1, minStd := 2, deadline := 100 }

end Coinswap
end CV
