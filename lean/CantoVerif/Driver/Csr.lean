import CantoVerif.Model.Abi
import CantoVerif.Driver.Common
import CantoVerif.Spec.Csr
/-!
# Driver for the `csr` suite: replays the harness trace on the model of the CSR hook, compares every
transition with what the implementation did (outcome, whole bank ledger, both registry prefixes,
Turnstile balances, parameters), and evaluates the predicates of `Spec/Csr.lean` on the
*implementation's* transitions.
-/
namespace CV.Drv.Csr
open CV CV.Drv CV.Csr

def parseEnv (kv : KV) : Env :=
  { modAddr := kv.get "mod", feeCollector := kv.get "fc", evmAddr := kv.get "evm", zeroAddr := kv.get "zero",
    denom := unesc (kv.get "denom") }

/-- `<key id>~<record id>~<c1+c2+…>~<txs>~<revenue>` -/
def parseCsrs (s : String) : List (Nat × CSR) :=
  (listOf s).filterMap (fun e =>
    match e.splitOn "~" with
    | [k, i, cs, t, r] => some (natOf k, { id := natOf i, contracts := listOf cs "+", txs := natOf t, revenue := natOf r })
    | _ => none)

def parseIdx (s : String) : List (Addr × Nat) :=
  (listOf s).filterMap (fun e =>
    match e.splitOn "~" with | [c, n] => some (c, natOf n) | _ => none)

def parseTsb (s : String) : AMap Nat :=
  ⟨(listOf s).filterMap (fun e =>
    match e.splitOn ":" with | [n, v] => some (natOf n, natOf v) | _ => none)⟩

def applyMod (s : State) (kv : KV) : State :=
  let p := s.params
  let p := if kv.has "en" then { p with enabled := kv.get "en" == "1" } else p
  let p := if kv.has "share" then { p with share := natOf (kv.get "share") } else p
  let s := { s with params := p }
  let s := if kv.has "ts" then { s with turnstile := if kv.get "ts" == "none" then none else some (kv.get "ts") } else s
  let s := if kv.has "mf" then { s with modFirst := kv.get "mf" == "1" } else s
  let s := if kv.has "csrs" then { s with csrs := parseCsrs (kv.get "csrs") } else s
  let s := if kv.has "idx" then { s with idx := parseIdx (kv.get "idx") } else s
  let s := if kv.has "tsb" then { s with tsBal := parseTsb (kv.get "tsb") } else s
  s

def emptyState : State :=
  { bank := emptyBank, params := { enabled := false, share := 0 }, turnstile := none, modFirst := false,
    csrs := [], idx := [], tsBal := AMap.empty }

def parsePayload (s : String) : Payload :=
  match s.splitOn "~" with
  | ["R", c, code, id] => .reg c (code == "1") (natOf id)
  | ["A", c, code, id] => .upd c (code == "1") (natOf id)
  | ["R", c, code, id, _] => .reg c (code == "1") (natOf id)
  | ["A", c, code, id, _] => .upd c (code == "1") (natOf id)
  | _ => .malformed

def hexNib (c : Char) : Nat :=
  if c.isDigit then c.toNat - '0'.toNat else if 'a' ≤ c && c ≤ 'f' then c.toNat - 'a'.toNat + 10 else 0

def hexBytes (s : String) : List Nat :=
  let rec go : List Char → List Nat
    | a :: b :: r => (hexNib a * 16 + hexNib b) :: go r
    | _ => []
  go s.toList

/-- the non-indexed inputs of the Turnstile's `Register(address smartContract, address receiver, uint256 id)` and
`Assign(address smartContract, uint256 id)` events -/
def regTys : List Abi.Ty := [.address, .address, .uint256]
def asgTys : List Abi.Ty := [.address, .uint256]

/-- One log token against the Lean model of the contract ABI (`Model/Abi.lean`, round trip proved in `Props/AbiRoundTrip.lean`):
data the real decoder accepted must decode in the model to the same token id, data it refused must not decode.
(go-ethereum additionally refuses EMPTY data for an event with non-indexed inputs before looking at offsets; the model's
decoder refuses it as a truncated head - same verdict.) -/
def abiLogOk (tok : String) : Bool :=
  match tok.splitOn "/" with
  | [_, t, p] =>
    let tys := if t == "reg" then regTys else asgTys
    (match p.splitOn "~" with
     | ["M", h] => (Abi.decodeTuple tys (hexBytes h)).isNone
     | [k, _, _, id, h] =>
       if k == "R" || k == "A" then
         (match Abi.decodeTuple tys (hexBytes h) with
          | some vs => (match vs.getLast? with | some (.uint n) => n == natOf id | _ => false)
          | none => false)
       else true
     | _ => true)
  | _ => true

def abiLogsOk (s : String) : Bool := (listOf s ";").all abiLogOk

def parseTopic (s : String) : Topic :=
  match s with
  | "reg" => .register | "asg" => .assign | "other" => .other | "unk" => .unknown | _ => .none

def parseLogs (s : String) : List Log :=
  (listOf s ";").filterMap (fun e =>
    match e.splitOn "/" with
    | [em, t, p] => some { emitter := em, topic := parseTopic t, payload := parsePayload p }
    | _ => none)

def parseOp (kind : String) (kv : KV) : Option Op :=
  match kind with
  | "hook" => some (.postTx (if kv.get "to" == "nil" then none else some (kv.get "to")) (natOf (kv.get "gu")) (natOf (kv.get "gp"))
                      (parseLogs (kv.get "logs")))
  | "setparams" => some (.setParams (kv.get "auth" == "1") (kv.get "en" == "1")
                      (if kv.get "share" == "nil" then none else some (intOf (kv.get "share"))))
  | "send" => some (.send (kv.get "src") (kv.get "dst") (unesc (kv.get "d")) (natOf (kv.get "amt")))
  | _ => none

/-- how the event loop went: (number of logs that changed the registry, stopped early?) -/
def evWalk (env : Env) (ts : Addr) : State → List Log → Nat × Bool
  | _, [] => (0, false)
  | s, l :: ls =>
    match handleLog env ts s l with
    | (s', true) =>
      let (n, st) := evWalk env ts s' ls
      ((if Spec.idxEq s s' then n else n + 1), st)
    | (_, false) => (0, true)

/-- per-log outcome classes of the model's event loop (coverage only; printed on `C` lines the runner ignores) -/
def evClasses (env : Env) (ts : Addr) : State → List Log → List String
  | _, [] => []
  | s, l :: ls =>
    let cls : String :=
      if l.topic = .none then "skip-notopic"
      else if l.emitter ≠ ts then "skip-foreign"
      else match l.topic with
        | .unknown => "stop-unknown-topic"
        | .other => "skip-other-event"
        | .register => (match registerEvent env s l.payload with | .ok _ => "reg-ok" | .error e => "reg-rej:" ++ (rejName e).replace " " "_")
        | .assign => (match updateEvent env s l.payload with | .ok _ => "asg-ok" | .error e => "asg-rej:" ++ (rejName e).replace " " "_")
        | .none => "skip-notopic"
    match handleLog env ts s l with
    | (s', true) => cls :: evClasses env ts s' ls
    | (_, false) => [cls] ++ ls.map (fun _ => "dropped-after-stop")

def magnitude (n : Nat) : String :=
  if n = 0 then "zero" else if n < 2 ^ 128 then "norm" else if n < 2 ^ 255 then "huge" else "edge"

def branchOf (env : Env) (s : State) : Op → String
  | .postTx to gu gp logs =>
    if s.params.enabled = false then "hook-disabled"
    else match s.turnstile with
    | none => "hook-no-turnstile"
    | some ts =>
      let (n, st) := evWalk env ts s logs
      let ev := if logs.isEmpty then "nolog" else if n == 0 then (if st then "stop" else "inert") else "chg"
      let s1 := processEvents env ts s logs
      let fee := gu * gp
      let path :=
        if gu == 0 then "gas0"
        else match to with
        | none => "create"
        | some c =>
          match s1.nftOf c with
          | none => "unreg"
          | some _ =>
            let csrFee := fee * s.params.share / S18
            if fee == 0 then "split-fee0" else if csrFee == 0 then "split-csr0" else if csrFee == fee then "split-rem0" else "split"
      s!"hook-{path}-{ev}"
  | .setParams _ _ _ => "setparams"
  | .send _ dst _ _ => if dst == env.feeCollector then "fund" else "send"

def opMagnitude : Op → String
  | .postTx _ gu gp _ => magnitude (gu * gp)
  | .send _ _ _ a => magnitude a
  | _ => "-"

structure Acc where
  env : Env
  cur : State
  lk : String := ""     -- the keeper's point lookups (contract ~ NFT id ~ CSR found) as last observed
  out : Array String

/-- every point lookup the keeper answered agrees with the raw index and names an existing CSR that lists the contract -/
def lookupsMatch (s : State) (lk : String) : Bool :=
  (listOf lk).all (fun e =>
    match e.splitOn "~" with
    | [c, n, h] =>
      h == "1" && (s.idx.find? (fun p => p.1 == c)).map (·.2) == some (natOf n) &&
      (match s.csrs.find? (fun p => p.1 == natOf n) with
       | some p => p.2.contracts.contains c
       | none => false)
    | _ => false)

def showCsrs (s : State) : String :=
  ",".intercalate (s.csrs.map (fun p => s!"{p.1}~{p.2.id}~{"+".intercalate p.2.contracts}~{p.2.txs}~{p.2.revenue}"))
def showIdx (s : State) : String := ",".intercalate (s.idx.map (fun p => s!"{p.1}~{p.2}"))
def showTsb (s : State) : String := ",".intercalate ((s.tsBal.items.filter (fun p => p.2 != 0)).map (fun p => s!"{p.1}:{p.2}"))

def processLine (acc : Acc) (line : String) : Acc :=
  if line.startsWith "E " then
    { acc with env := parseEnv (kvOf ((line.drop 2).toString.splitOn " ")) }
  else if line.startsWith "S " then
    let kv := kvOf ((line.drop 2).toString.splitOn " ")
    let s := applyMod emptyState kv
    { acc with cur := { s with bank := applyLedger emptyBank kv }, lk := kv.get "lk" }
  else if line.startsWith "O " then
    let (opToks, outToks, deltaToks) := splitOp line
    match opToks with
    | _ :: seq :: kind :: args =>
      match parseOp kind (kvOf args) with
      | none => { acc with out := acc.out.push s!"{seq} E unparsed-op" }
      | some op =>
        let implOk := outToks.head? == some "ok"
        let implClass := outToks.head?.getD "?"
        let dkv := kvOf deltaToks
        let implFull := let s := applyMod acc.cur dkv; { s with bank := applyLedger acc.cur.bank dkv }
        -- a real Ethereum transaction: ethermint refunds the unused gas after the hooks ran (fee collector → sender); that
        -- transfer is not the hook's and is taken out of the observed ledger before comparing and monitoring
        let opkv := kvOf args
        let isTx := opkv.has "refund"
        let refund := natOf (opkv.get "refund")
        let rto := opkv.get "rto"
        let fc := acc.env.feeCollector
        let d := acc.env.denom
        let implPost : State :=
          if refund == 0 then implFull
          else { implFull with bank :=
                  (implFull.bank.setBal fc d (implFull.bank.get fc d + refund)).setBal rto d (implFull.bank.get rto d - refund) }
        let (modelOk, modelPost, modelRej) :=
          match step acc.env acc.cur op with
          | .ok s' => (true, s', "")
          | .error e => (false, acc.cur, rejName e)
        let comps : List String :=
          (if modelOk != implOk then ["outcome"] else []) ++
          (if isTx then (if !(modelPost.bank.bal.eqv implPost.bank.bal && modelPost.bank.sup.eqv implPost.bank.sup) then ["bank"] else [])
           else if !bankEq modelPost.bank implPost.bank then ["bank"] else []) ++
          (if !(Spec.csrsEq modelPost implPost && Spec.idxEq modelPost implPost) then ["registry"] else []) ++
          (if !(modelPost.tsBal.eqv implPost.tsBal) then ["turnstile"] else []) ++
          (if modelPost.params != implPost.params || modelPost.turnstile != implPost.turnstile then ["params"] else []) ++
          (if kind == "hook" && !abiLogsOk ((kvOf args).get "logs") then ["abi"] else [])
        let tr : Spec.Tr := { env := acc.env, pre := acc.cur, op := op, ok := implOk, post := implPost }
        let lk' := if dkv.has "lk" then dkv.get "lk" else acc.lk
        let viol := Spec.monitors.filterMap (fun (pid, name, f) => if f tr then none else some s!"{seq} V {pid} {name}")
        let viol := viol ++ (if lookupsMatch implPost lk' then [] else [s!"{seq} V C16 lookups_match_registry"])
        let modelRej := modelRej.replace " " "_"
        let br := if implOk || modelOk then branchOf acc.env acc.cur op
                  else (match op with
                        | .postTx _ gu gp _ =>
                          "hook-rej-" ++
                            (if gp ≥ intBound then "gasprice-over-256-bits" else if gu * gp ≥ intBound then "fee-over-256-bits"
                             else if acc.cur.params.enabled && acc.cur.turnstile.isSome &&
                                     acc.cur.bank.get acc.env.feeCollector acc.env.denom < gu * gp then "collector-short"
                             else if modelRej == "overflow" && gu * gp * acc.cur.params.share ≥ Dec.decBound then "dec-over-315-bits"
                             else if modelRej == "overflow" then "revenue-or-balance-over-256-bits"
                             else modelRej)
                        | .setParams _ _ _ => "setparams-rej-" ++ modelRej
                        | .send _ _ _ _ => "send-rej-" ++ modelRej)
        let tag := s!"{br}{if isTx then "+tx" else ""}/{if implOk then "ok" else "rej"}/{opMagnitude op}"
        let cov : Array String :=
          match op, acc.cur.turnstile with
          | .postTx _ _ _ logs, some ts =>
            if acc.cur.params.enabled && !logs.isEmpty then #[s!"{seq} C {" ".intercalate (evClasses acc.env ts acc.cur logs)}"] else #[]
          | _, _ => #[]
        let l :=
          if comps.isEmpty then s!"{seq} A {tag}"
          else s!"{seq} D {tag} comps={",".intercalate comps} model={if modelOk then "ok" else "rej:" ++ modelRej} impl={implClass} " ++
               (if comps.contains "bank" then bankDiff modelPost.bank implPost.bank ++ " " else "") ++
               (if comps.contains "registry" then s!"modelCsrs=[{showCsrs modelPost}] implCsrs=[{showCsrs implPost}] modelIdx=[{showIdx modelPost}] implIdx=[{showIdx implPost}] " else "") ++
               (if comps.contains "turnstile" then s!"modelTsb=[{showTsb modelPost}] implTsb=[{showTsb implPost}] " else "")
        { acc with cur := implFull, lk := lk', out := (acc.out.push l) ++ viol.toArray ++ cov }
    | _ => { acc with out := acc.out.push "? E malformed" }
  else acc

def emptyEnv : Env := { modAddr := "", feeCollector := "", evmAddr := "", zeroAddr := "", denom := "" }

partial def loop (h : IO.FS.Stream) (o : IO.FS.Stream) (acc : Acc) : IO Unit := do
  let line ← h.getLine
  if line.isEmpty then return ()
  let acc := processLine acc ((line.dropEndWhile (· == '\n')).toString)
  for l in acc.out do o.putStrLn l
  loop h o { acc with out := #[] }

def main : IO Unit := do
  let i ← IO.getStdin
  let o ← IO.getStdout
  loop i o { env := emptyEnv, cur := emptyState, out := #[] }

end CV.Drv.Csr
