import CantoVerif.Driver.Common
import CantoVerif.Spec.Genesis
/-!
# Driver for the `genesis` suite (C18).

Per round trip the harness prints the seven exported Canto sections three times (`G <seq> 1|2|3 <module> …`:
the export of the running chain, the re-export directly after `InitChain` of a fresh application, the re-export
after one committed block), the raw store keys of both chains (`K <seq> 1|2 <store> …`) and one `O` line with what
the implementation did. The driver parses the first export into the model's `Gen`, runs the model's
`validate`, `init` and `export`, compares them with the implementation (validation verdict per module, import
accepted, re-export field by field including the reset start heights, the raw store keys the model predicts) and
evaluates the monitors of `Spec/Genesis.lean` on the implementation's transition.
-/
namespace CV.Drv.Genesis
open CV CV.Drv CV.Genesis

def gunesc (s : String) : String :=
  if s == "%empty" then "" else
  ((((((((s.replace "%20" " ").replace "%2c" ",").replace "%3a" ":").replace "%3d" "=").replace "%3b" ";").replace "%2b" "+").replace "%7c" "|").replace "%0a" "\n").replace "%25" "%"

def hexVal (c : Char) : Nat :=
  if c ≥ '0' && c ≤ '9' then c.toNat - '0'.toNat
  else if c ≥ 'a' && c ≤ 'f' then c.toNat - 'a'.toNat + 10
  else if c ≥ 'A' && c ≤ 'F' then c.toNat - 'A'.toNat + 10 else 0

def hexPairs : List Char → List Nat
  | a :: b :: rest => (hexVal a * 16 + hexVal b) :: hexPairs rest
  | _ => []

def unhex (s : String) : Bytes := hexPairs s.toList

/-- `common.HexToAddress(s).Bytes()`: strip `0x`, left-pad an odd digit string, keep the last 20 bytes -/
def hexToAddr (s : String) : Bytes :=
  let l := s.toList
  let body := match l with
    | '0' :: 'x' :: r => r
    | '0' :: 'X' :: r => r
    | _ => l
  let body := if body.length % 2 == 1 then '0' :: body else body
  toAddr20 (hexPairs body)

def boolOf (s : String) : Bool := s == "1"
def recs (s : String) : List (List String) := (listOf s).map (fun e => e.splitOn ";")

structure Tables where
  pairIds : List ((String × String) × Bytes) := []
  validAddrs : List String := []
  hexStrings : List (Bytes × String) := []

def parseCs (kv : KV) : CsGen × List String :=
  let pools := (recs (kv.get "pools")).filterMap (fun r =>
    match r with
    | [id, std, cp, esc, lpt, v] => some (({ id := gunesc id, std := gunesc std, counter := gunesc cp, escrow := gunesc esc, lpt := gunesc lpt } : Pool), boolOf v)
    | _ => none)
  ({ params := { fee := intOf (kv.get "fee"), taxRate := intOf (kv.get "tax"),
                 feeCoin := { denom := gunesc (kv.get "cfd"), amount := intOf (kv.get "cfa") }, maxStd := intOf (kv.get "maxstd"),
                 maxSwap := (recs (kv.get "ms")).filterMap (fun r => match r with | [d, n] => some { denom := gunesc d, amount := intOf n } | _ => none) },
     std := gunesc (kv.get "std"), pools := pools.map (·.1), seq := natOf (kv.get "seq") },
   (pools.filter (·.2)).map (·.1.escrow))

def parseErc20 (kv : KV) : Erc20Gen × List ((String × String) × Bytes) :=
  let ps := (recs (kv.get "pairs")).filterMap (fun r =>
    match r with
    | [a, d, en, ow, id] => some (({ addr := gunesc a, denom := gunesc d, enabled := boolOf en, owner := natOf ow } : Pair), unhex id)
    | _ => none)
  ({ enableErc20 := boolOf (kv.get "en"), enableHook := boolOf (kv.get "hook"), pairs := ps.map (·.1),
     dix := (recs (kv.get "dix")).filterMap (fun r => match r with | [d, id] => some (gunesc d, unhex id) | _ => none),
     aix := (recs (kv.get "aix")).filterMap (fun r => match r with | [a, id] => some (unhex a, unhex id) | _ => none) },
   ps.map (fun p => ((p.1.addr, p.1.denom), p.2)))

def parseCsr (kv : KV) : CsrGen :=
  { enable := boolOf (kv.get "en"), shares := intOf (kv.get "shares"),
    turnstile := if kv.get "ts" == "-" then "" else gunesc (kv.get "ts"),
    csrs := (recs (kv.get "csrs")).filterMap (fun r =>
      match r with
      | [id, txs, rev, cs] => some { id := natOf id, txs := natOf txs, revenue := intOf rev, contracts := (listOf cs "+").map gunesc }
      | _ => none) }

def parseGs (kv : KV) : GsGen := { port := if kv.get "port" == "-" then "" else gunesc (kv.get "port") }

def parseOb (kv : KV) : ObGen :=
  { enable := boolOf (kv.get "en"), threshold := intOf (kv.get "thr"), channels := (listOf (kv.get "ch")).map gunesc }

def parseEp (kv : KV) : EpGen :=
  { epochs := (recs (kv.get "e")).filterMap (fun r =>
      match r with
      | [id, st, du, cur, cs, cnt, h] => some { id := gunesc id, start := intOf st, dur := intOf du, cur := intOf cur, curStart := intOf cs,
                                                counting := boolOf cnt, height := intOf h }
      | _ => none) }

def parseInf (kv : KV) : InfGen :=
  { params := { mintDenom := gunesc (kv.get "mint"), a := intOf (kv.get "a"), r := intOf (kv.get "r"), c := intOf (kv.get "c"),
                bondingTarget := intOf (kv.get "bt"), maxVariance := intOf (kv.get "mv"), stakingRewards := intOf (kv.get "sr"),
                communityPool := intOf (kv.get "cp"), enable := boolOf (kv.get "en") },
    period := natOf (kv.get "period"), epochId := gunesc (kv.get "id"), epp := intOf (kv.get "epp"), skipped := natOf (kv.get "skipped") }

abbrev Sections := List (String × KV)

def secGet (s : Sections) (m : String) : KV := (s.find? (fun p => p.1 == m)).map (·.2) |>.getD []

def parseGen (s : Sections) : Gen × Tables :=
  let (cs, valid) := parseCs (secGet s "coinswap")
  let (erc20, ids) := parseErc20 (secGet s "erc20")
  let csr := parseCsr (secGet s "csr")
  let gs := parseGs (secGet s "govshuttle")
  let hs := ([csr.turnstile, gs.port].filter (· ≠ "")).map (fun a => (hexToAddr a, a))
  ({ cs := cs, erc20 := erc20, csr := csr, gs := gs, ob := parseOb (secGet s "onboarding"), ep := parseEp (secGet s "epochs"),
     inf := parseInf (secGet s "inflation") },
   { pairIds := ids, validAddrs := valid, hexStrings := hs })

def Tables.merge (a b : Tables) : Tables :=
  { pairIds := a.pairIds ++ b.pairIds, validAddrs := a.validAddrs ++ b.validAddrs, hexStrings := a.hexStrings ++ b.hexStrings }

/-- the external functions, answered from what the implementation itself printed (trusted base) -/
def mkEnv (t : Tables) : Env :=
  { pairId := fun a d => ((t.pairIds.find? (fun p => p.1 == (a, d))).map (·.2)).getD (strBytes ("?" ++ a ++ "|" ++ d)),
    validAddr := fun a => t.validAddrs.contains a,
    hexBytes := hexToAddr,
    hexString := fun b => ((t.hexStrings.find? (fun p => p.1 == b)).map (·.2)).getD "?",
    calcProvision := fun _ _ _ _ _ _ _ _ => 0 }

def cmpOf (s : String) : Spec.Cmp := if s == "eq" then .eq else if s == "skip" || s == "" then .skipped else .diff

def hexOf (b : Bytes) : String :=
  String.ofList (b.flatMap (fun n => [Nat.digitChar (n / 16), Nat.digitChar (n % 16)]))

def sizeClass (n : Nat) : String := if n == 0 then "0" else if n == 1 then "1" else "n"

structure Acc where
  gens : List (Nat × Sections) := []
  keys : List (Nat × List (String × List String)) := []
  out : Array String := #[]

def Acc.addG (a : Acc) (n : Nat) (m : String) (kv : KV) : Acc :=
  match a.gens.find? (fun p => p.1 == n) with
  | some _ => { a with gens := a.gens.map (fun p => if p.1 == n then (n, p.2 ++ [(m, kv)]) else p) }
  | none => { a with gens := a.gens ++ [(n, [(m, kv)])] }

def Acc.addK (a : Acc) (n : Nat) (st : String) (ks : List String) : Acc :=
  match a.keys.find? (fun p => p.1 == n) with
  | some _ => { a with keys := a.keys.map (fun p => if p.1 == n then (n, p.2 ++ [(st, ks)]) else p) }
  | none => { a with keys := a.keys ++ [(n, [(st, ks)])] }

def keyDiff (model : List (String × List Bytes)) (impl : List (String × List String)) : List String :=
  model.filterMap (fun (st, ks) =>
    let mk := ks.map hexOf
    let ik := ((impl.find? (fun p => p.1 == st)).map (·.2)).getD []
    if mk == ik then none
    else some s!"{st}[model-only={mk.filter (fun k => !ik.contains k)} impl-only={ik.filter (fun k => !mk.contains k)} order={mk.length == ik.length && mk.all ik.contains}]")

def genDiff (a b : Gen) : String :=
  (if a.cs != b.cs then "coinswap " else "") ++ (if a.erc20 != b.erc20 then "erc20 " else "") ++ (if a.csr != b.csr then "csr " else "") ++
  (if a.gs != b.gs then "govshuttle " else "") ++ (if a.ob != b.ob then "onboarding " else "") ++ (if a.ep != b.ep then "epochs " else "") ++
  (if a.inf != b.inf then "inflation " else "")

def processO (acc : Acc) (line : String) : Acc :=
  let (opToks, outToks, _) := splitOp line
  match opToks with
  | _ :: seq :: _ :: args =>
    let okv := kvOf args
    let rkv := kvOf outToks.tail
    let implOk := outToks.head? == some "ok"
    let implClass := outToks.head?.getD "?"
    let sec (n : Nat) : Option Sections := (acc.gens.find? (fun p => p.1 == n)).map (·.2)
    let clear : Acc := { gens := [], keys := [], out := acc.out }
    match sec 1 with
    | none =>
      -- the implementation could not even export: nothing for the model to run on
      { clear with out := (clear.out.push s!"{seq} D rt/rej/{implClass} comps=outcome model=- impl={implClass}").push s!"{seq} V C18 import_accepted" }
    | some s1 =>
      let (g1, t1) := parseGen s1
      let p2a := (sec 2).map parseGen
      let p2b := (sec 3).map parseGen
      let tabOf (p : Option (Gen × Tables)) : Tables := match p with | some x => x.2 | none => {}
      let tabs := t1.merge ((tabOf p2a).merge (tabOf p2b))
      let env := mkEnv tabs
      let ctx : Ctx := { height := intOf (okv.get "inith"), time := intOf (okv.get "t"), bondedRatio := 0 }
      let invalid := listOf (rkv.get "validate") ";"
      let implValid := moduleNames.map (fun m => !(invalid.any (fun x => x == m || x.startsWith (m ++ ":"))))
      let modelValid := validateEach env g1
      let mres := initAll env ctx g1
      let (modelOk, modelRej) := match mres with | .ok _ => (true, "") | .error e => (false, rejName e)
      let k1 := ((acc.keys.find? (fun p => p.1 == 1)).map (·.2)).getD []
      let k2 := ((acc.keys.find? (fun p => p.1 == 2)).map (·.2)).getD []
      let (stateDiff, keysDiff) : String × List String :=
        match mres, p2a with
        | .ok s', some (g2a, _) =>
          let m2 := exportAll env s'
          ((if m2 == g2a then "" else genDiff m2 g2a), keyDiff (keysOf env s') k2 ++ keyDiff (keysOf env s') k1)
        | _, _ => ("", [])
      let comps : List String :=
        (if modelOk != implOk then ["outcome"] else []) ++
        (if modelValid != implValid then ["validate"] else []) ++
        (if stateDiff != "" then ["state"] else []) ++
        (if !keysDiff.isEmpty then ["keys"] else [])
      let tr : Spec.Tr :=
        { env := env, ctx := ctx, g1 := g1, importOk := implOk, valid := implValid, g2a := p2a.map (·.1), g2b := p2b.map (·.1),
          json2a := cmpOf (rkv.get "json2a"), json2b := cmpOf (rkv.get "json2b"), kv2a := cmpOf (rkv.get "kv2a"),
          kv2b := cmpOf (rkv.get "kv2b"), queries := cmpOf (rkv.get "q") }
      let viol := Spec.monitors.filterMap (fun (pid, name, f) => if f tr then none else some s!"{seq} V {pid} {name}")
      let kind := if rkv.get "json2b" == "skip" then "rt-pure" else "rt-full"
      let tag := s!"{kind}/{if implOk then "ok" else "rej"}/pools{sizeClass g1.cs.pools.length}.pairs{sizeClass g1.erc20.pairs.length}" ++
                 s!".csrs{sizeClass g1.csr.csrs.length}.ts{if g1.csr.turnstile == "" then 0 else 1}.port{if g1.gs.port == "" then 0 else 1}" ++
                 s!".per{sizeClass g1.inf.period}.skip{sizeClass g1.inf.skipped}"
      let l :=
        if comps.isEmpty then s!"{seq} A {tag}"
        else s!"{seq} D {tag} comps={",".intercalate comps} model={if modelOk then "ok" else "rej:" ++ modelRej} impl={implClass} " ++
             s!"modelValid={modelValid} implValid={implValid} state[{stateDiff}] keys{keysDiff}"
      { clear with out := (clear.out.push l) ++ viol.toArray }
  | _ => { acc with out := acc.out.push "? E malformed" }

def processLine (acc : Acc) (line : String) : Acc :=
  if line.startsWith "G " then
    match (line.drop 2).toString.splitOn " " with
    | _ :: n :: m :: rest => acc.addG (natOf n) m (kvOf rest)
    | _ => acc
  else if line.startsWith "K " then
    match (line.drop 2).toString.splitOn " " with
    | _ :: n :: st :: rest => acc.addK (natOf n) st (listOf (rest.headD ""))
    | _ => acc
  else if line.startsWith "O " then processO acc line
  else acc

partial def loop (h : IO.FS.Stream) (o : IO.FS.Stream) (acc : Acc) : IO Unit := do
  let line ← h.getLine
  if line.isEmpty then return ()
  let acc := processLine acc ((line.dropEndWhile (· == '\n')).toString)
  for l in acc.out do o.putStrLn l
  loop h o { acc with out := #[] }

def main : IO Unit := do
  let i ← IO.getStdin
  let o ← IO.getStdout
  loop i o {}

end CV.Drv.Genesis
