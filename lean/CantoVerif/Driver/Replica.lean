import CantoVerif.Driver.Common
import CantoVerif.Spec.Replica
/-!
# Driver for the `replica` suite (C06).

The replica run is the decision procedure for the CODE (see `Props/C06.lean` for what is proved and why it is only
partial): the harness executes one generated block history on four replicas of the real application and prints, per
height, what each answered. There is no model run to compare with — a model replica agrees with itself by
reflexivity — so the driver only evaluates the monitors of `Spec/Replica.lean` on the implementation's transitions
and classifies each block for the coverage statistics.
-/
namespace CV.Drv.Replica
open CV CV.Drv CV.Replica

def cls (n : Nat) : String := if n == 0 then "0" else if n ≤ 3 then "few" else "many"

def processLine (line : String) : List String :=
  if line.startsWith "O " then
    let (opToks, outToks, _) := splitOp line
    match opToks with
    | _ :: seq :: _ :: args =>
      let okv := kvOf args
      let rkv := kvOf outToks.tail
      let tr : Spec.Tr := { height := natOf seq, appHash := listOf (rkv.get "ah"), results := listOf (rkv.get "rh"),
                            exports := listOf (rkv.get "ex") }
      let viol := Spec.monitors.filterMap (fun (pid, name, f) => if f tr then none else some s!"{seq} V {pid} {name}")
      let wellFormed := tr.appHash.length == 5 && tr.results.length == 5 && tr.exports.length == 5
      let tag := s!"block/ok/ntx-{cls (natOf (okv.get "ntx"))}.ok-{cls (natOf (okv.get "oktx"))}.reads-{cls (natOf (okv.get "reads"))}" ++
                 s!".tick{okv.get "tick"}.export{if (tr.exports.all (· == "-")) then 0 else 1}.d{if tr.appHash.getD 3 "-" == "-" then 0 else 1}.e{if tr.appHash.getD 4 "-" == "-" then 0 else 1}"
      (if wellFormed then [s!"{seq} A {tag}"] else [s!"{seq} E malformed-observation"]) ++ viol
    | _ => ["? E malformed"]
  else []

partial def loop (h : IO.FS.Stream) (o : IO.FS.Stream) : IO Unit := do
  let line ← h.getLine
  if line.isEmpty then return ()
  for l in processLine ((line.dropEndWhile (· == '\n')).toString) do o.putStrLn l
  loop h o

def main : IO Unit := do
  let i ← IO.getStdin
  let o ← IO.getStdout
  loop i o

end CV.Drv.Replica
