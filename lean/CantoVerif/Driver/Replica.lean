import CantoVerif.Driver.Common
import CantoVerif.Driver.Genesis
import CantoVerif.Spec.Replica
/-!
# Driver for the `replica` suite (C06).

The replica run is the decision procedure for the CODE (see `Props/C06.lean` for what is proved and why it is only
partial): the harness executes one generated block history on four replicas of the real application and prints, per
height, what each answered. There is no model run to compare with — a model replica agrees with itself by
reflexivity — so the driver only evaluates the monitors of `Spec/Replica.lean` on the implementation's transitions
and classifies each block for the coverage statistics.
-/
namespace CV.Drv.Replica
open CV CV.Drv CV.Replica

def cls (n : Nat) : String := if n == 0 then "0" else if n ≤ 3 then "few" else "many"

/-- At sampled heights replica A's exported Canto sections come with the block (`G` lines). The model part of the run: the
export must be accepted by the model's `validate`, importable by the model's `init`, and a fixed point of the model's
`export ∘ init` up to the start heights — so the replicas agree not only with each other but on a state the specification
of C18 accepts. Returns a description of what fails, or "". -/
def modelCheck (secs : CV.Drv.Genesis.Sections) (height time : Int) : String :=
  let (g, tabs) := CV.Drv.Genesis.parseGen secs
  let env := CV.Drv.Genesis.mkEnv tabs
  let ctx : Genesis.Ctx := { height := height + 1, time := time, bondedRatio := 0 }
  if !(Genesis.validateAll env g) then s!"model-validate={Genesis.validateEach env g}"
  else match Genesis.initAll env ctx g with
    | .error e => s!"model-init=rej:{rejName e}"
    | .ok s' => if (Genesis.exportAll env s').eqv g then "" else "model-fixpoint=" ++ CV.Drv.Genesis.genDiff (Genesis.exportAll env s') g

structure Acc where
  secs : CV.Drv.Genesis.Sections := []
  out : List String := []

def processLine (acc : Acc) (line : String) : Acc :=
  if line.startsWith "G " then
    match (line.drop 2).toString.splitOn " " with
    | _ :: _ :: m :: rest => { acc with secs := acc.secs ++ [(m, kvOf rest)], out := [] }
    | _ => { acc with out := [] }
  else if line.startsWith "O " then
    let (opToks, outToks, _) := splitOp line
    match opToks with
    | _ :: seq :: _ :: args =>
      let okv := kvOf args
      let rkv := kvOf outToks.tail
      let tr : Spec.Tr := { height := natOf seq, appHash := listOf (rkv.get "ah"), results := listOf (rkv.get "rh"),
                            exports := listOf (rkv.get "ex") }
      let viol := Spec.monitors.filterMap (fun (pid, name, f) => if f tr then none else some s!"{seq} V {pid} {name}")
      let wellFormed := tr.appHash.length == 5 && tr.results.length == 5 && tr.exports.length == 5
      let mc := if acc.secs.isEmpty then "" else modelCheck acc.secs (intOf seq) (intOf (okv.get "t"))
      let tag := s!"block/ok/ntx-{cls (natOf (okv.get "ntx"))}.ok-{cls (natOf (okv.get "oktx"))}.reads-{cls (natOf (okv.get "reads"))}" ++
                 s!".tick{okv.get "tick"}.export{if (tr.exports.all (· == "-")) then 0 else 1}.d{if tr.appHash.getD 3 "-" == "-" then 0 else 1}" ++
                 s!".e{if tr.appHash.getD 4 "-" == "-" then 0 else 1}.model{if acc.secs.isEmpty then 0 else 1}"
      let l := if !wellFormed then s!"{seq} E malformed-observation"
               else if mc != "" then s!"{seq} D {tag} comps=state model=rejects-the-export impl=ok {mc}"
               else s!"{seq} A {tag}"
      { secs := [], out := l :: viol }
    | _ => { secs := [], out := ["? E malformed"] }
  else { acc with out := [] }

partial def loop (h : IO.FS.Stream) (o : IO.FS.Stream) (acc : Acc) : IO Unit := do
  let line ← h.getLine
  if line.isEmpty then return ()
  let acc := processLine acc ((line.dropEndWhile (· == '\n')).toString)
  for l in acc.out do o.putStrLn l
  loop h o acc

def main : IO Unit := do
  let i ← IO.getStdin
  let o ← IO.getStdout
  loop i o {}

end CV.Drv.Replica
