import CantoVerif.Driver.Common
import CantoVerif.Spec.Coinswap
/-!
# Driver for the `coinswap` suite: replays the harness trace on the model, compares every
transition with what the implementation did, and evaluates the property predicates of
`Spec/Coinswap.lean` on the *implementation's* transitions.
-/
namespace CV.Drv.Coinswap
open CV CV.Drv CV.Coinswap

def addrStr (tok : String) : AddrStr :=
  if tok.startsWith "L" then ⟨.lower, (tok.drop 1).toString⟩
  else if tok.startsWith "U" then ⟨.upper, (tok.drop 1).toString⟩
  else ⟨.bad, ""⟩

def parseEnv (kv : KV) : Env :=
  { modAddr := kv.get "mod", feeCollector := kv.get "fc",
    blockedCs := listOf (kv.get "blkcs"), blockedBank := listOf (kv.get "blkbank"),
    reserveAddr := (listOf (kv.get "res")).filterMap (fun e =>
      match e.splitOn ":" with | [l, a] => some (l, a) | _ => none) }

def parsePools (s : String) : List Pool :=
  (listOf s).filterMap (fun e =>
    match e.splitOn ":" with
    | [c, l, a] => some { counter := unesc c, lpt := l, escrow := a }
    | _ => none)

def parseMaxSwap (s : String) : List (Denom × Nat) :=
  (listOf s).filterMap (fun e =>
    match e.splitOn ":" with | [d, n] => some (unesc d, natOf n) | _ => none)

/-- apply the module-level keys present in `kv` on top of `s` -/
def applyMod (s : State) (kv : KV) : State :=
  let s := if kv.has "t" then
      (match (kv.get "t").splitOn "." with
       | [a, b] => { s with nowSec := natOf a, nowNsec := natOf b }
       | _ => s) else s
  let s := if kv.has "std" then { s with std := kv.get "std" } else s
  let p := s.params
  let p := if kv.has "fee" then { p with fee := natOf (kv.get "fee") } else p
  let p := if kv.has "tax" then { p with taxRate := natOf (kv.get "tax") } else p
  let p := if kv.has "cfd" then { p with feeDenom := unesc (kv.get "cfd") } else p
  let p := if kv.has "cfa" then { p with feeAmt := natOf (kv.get "cfa") } else p
  let p := if kv.has "maxstd" then { p with maxStd := natOf (kv.get "maxstd") } else p
  let p := if kv.has "ms" then { p with maxSwap := parseMaxSwap (kv.get "ms") } else p
  let s := { s with params := p }
  let s := if kv.has "seq" then { s with seq := natOf (kv.get "seq") } else s
  let s := if kv.has "pools" then { s with pools := parsePools (kv.get "pools") } else s
  s

def emptyState : State :=
  { bank := emptyBank, params := { fee := 0, taxRate := 0, feeDenom := "", feeAmt := 0, maxStd := 0, maxSwap := [] },
    std := "", pools := [], seq := 1, nowSec := 0, nowNsec := 0 }

def parseOp (kind : String) (kv : KV) : Option Op :=
  match kind with
  | "swap" => some (.swap { inAddr := addrStr (kv.get "in"), inDenom := unesc (kv.get "ind"), inAmt := intOf (kv.get "ina"),
                            outAddr := addrStr (kv.get "out"), outDenom := unesc (kv.get "outd"), outAmt := intOf (kv.get "outa"),
                            deadline := intOf (kv.get "dl"), isBuy := kv.get "buy" == "1" })
  | "add" => some (.add { sender := addrStr (kv.get "sender"), tokDenom := unesc (kv.get "tok"), maxToken := intOf (kv.get "max"),
                          exact := intOf (kv.get "exact"), minLiq := intOf (kv.get "minliq"), deadline := intOf (kv.get "dl") })
  | "remove" => some (.remove { sender := addrStr (kv.get "sender"), lptDenom := unesc (kv.get "lpt"), withdraw := intOf (kv.get "w"),
                                minToken := intOf (kv.get "mintok"), minStd := intOf (kv.get "minstd"), deadline := intOf (kv.get "dl") })
  | "autoswap" => some (.autoSwap (kv.get "rcpt") (unesc (kv.get "ind")) (natOf (kv.get "maxin")) (natOf (kv.get "out")))
  | "send" => some (.send (kv.get "src") (kv.get "dst") (unesc (kv.get "d")) (natOf (kv.get "amt")))
  | _ => none

def parseCoins (s : String) : Coins :=
  (listOf s).filterMap (fun e =>
    match e.splitOn ":" with | [d, n] => some (unesc d, natOf n) | _ => none)

def parseResp (kind : String) (kv : KV) : Resp :=
  match kind with
  | "add" => (match (kv.get "mint").splitOn ":" with
              | [d, n] => .add d (natOf n)
              | _ => .none)
  | "remove" => .remove (parseCoins (kv.get "coins"))
  | _ => .none

/-- the swap response is empty in the implementation -/
def respEq (kind : String) (m i : Resp) : Bool :=
  match kind with
  | "swap" => true
  | "send" => true
  | "autoswap" => true
  | _ => m == i

def branchOf (s : State) : Op → String
  | .swap m => if m.isBuy then (if m.inDenom == s.std then "buy-std-in" else "buy-tok-in")
               else (if m.inDenom == s.std then "sell-std-in" else "sell-tok-in")
  | .add m => (match s.poolByCounter m.tokDenom with
               | none => "add-create"
               | some p => if s.bank.supply p.lpt == 0 then "add-refill" else "add-live")
  | .autoSwap _ _ _ _ => "autoswap"
  | .remove _ => "remove"
  | .send _ dst _ _ => if dst.startsWith "e." then "donate" else "send"
  | _ => "other"

def magnitude (n : Nat) : String :=
  if n ≤ 5 then "tiny" else if n ≤ 1000 then "small" else if n < 2 ^ 64 then "mid" else if n < 2 ^ 128 then "large" else "huge"

def opMagnitude : Op → String
  | .swap m => magnitude (if m.isBuy then m.outAmt.toNat else m.inAmt.toNat)
  | .add m => magnitude m.exact.toNat
  | .remove m => magnitude m.withdraw.toNat
  | .send _ _ _ a => magnitude a
  | .autoSwap _ _ _ out => magnitude out
  | _ => "-"

structure Acc where
  env : Env
  cur : State
  pq : String := ""     -- the pool records as the keeper's point lookups (by id, by lpt denom) returned them
  out : Array String

/-- the point lookups of the implementation return exactly the listed pools -/
def lookupsMatch (pools : List Pool) (pq : String) : Bool :=
  let byId := (listOf pq).filter (fun e => !e.startsWith "byLpt.")
  let byLpt := ((listOf pq).filter (fun e => e.startsWith "byLpt.")).map (fun e => (e.drop 6).toString)
  let want := pools.map (fun p => s!"{p.counter}:{p.lpt}:{p.escrow}")
  want.all (fun w => byId.contains w) && byId.all (fun e => want.contains (unesc e)) &&
  want.all (fun w => byLpt.contains w) && byLpt.all (fun e => want.contains (unesc e))

/-- parameter records equal up to the order of the per-swap maxima -/
def paramsEq (a b : Params) : Bool :=
  a.fee == b.fee && a.taxRate == b.taxRate && a.feeDenom == b.feeDenom && a.feeAmt == b.feeAmt && a.maxStd == b.maxStd &&
  a.maxSwap.all (fun e => b.maxSwap.contains e) && b.maxSwap.all (fun e => a.maxSwap.contains e)

def processLine (acc : Acc) (line : String) : Acc :=
  if line.startsWith "E " then
    { acc with env := parseEnv (kvOf ((line.drop 2).toString.splitOn " ")) }
  else if line.startsWith "S " then
    let kv := kvOf ((line.drop 2).toString.splitOn " ")
    let s := applyMod emptyState kv
    { acc with cur := { s with bank := applyLedger emptyBank kv }, pq := kv.get "pq" }
  else if line.startsWith "I " then
    -- the SDK's registered invariants evaluated on the real state by the harness
    match line.splitOn " " with
    | [_, seq, kv] =>
      if kv == "invariants=ok" then { acc with out := acc.out.push s!"{seq} I ok" }
      else { acc with out := (acc.out.push s!"{seq} I {kv}").push s!"{seq} V C02 sdk_invariants" }
    | _ => acc
  else if line.startsWith "O " then
    let (opToks, outToks, deltaToks) := splitOp line
    match opToks with
    | _ :: seq :: kind :: args =>
      -- `csparams`: a parameter update on a branch that is then discarded (always `later=1`): for the model a re-statement of
      -- the enacted parameters, for the implementation whatever the real handler did before the transaction failed
      match (if kind == "csparams" then some (Op.setParams acc.cur.params) else parseOp kind (kvOf args)) with
      | none => { acc with out := acc.out.push s!"{seq} E unparsed-op" }
      | some op =>
        let implOk := outToks.head? == some "ok"
        let implClass := outToks.head?.getD "?"
        let implResp := if implOk then parseResp kind (kvOf outToks.tail) else .none
        let dkv := kvOf deltaToks
        let implPost := let s := applyMod acc.cur dkv; { s with bank := applyLedger acc.cur.bank dkv }
        let mres := step acc.env acc.cur op
        -- `later=1`: a later message of the same transaction failed (class `rej:later` when this message itself had
        -- succeeded): the transaction's branch is discarded (`deliver`), nothing changed, whatever the handler did
        let later := (kvOf args).get "later" == "1"
        let handlerOk := match mres with | .ok _ => true | .error _ => false
        let (modelOk, modelResp, modelPost, modelRej) :=
          match mres with
          | .ok (s', r) => if later then (false, Resp.none, acc.cur, "later") else (true, r, s', "")
          | .error e => (false, Resp.none, acc.cur, rejName e)
        let comps : List String :=
          (if modelOk != implOk || (later && handlerOk != (implClass == "rej:later")) then ["outcome"] else []) ++
          (if modelOk && implOk && !respEq kind modelResp implResp then ["resp"] else []) ++
          (if !bankEq modelPost.bank implPost.bank then ["bank"] else []) ++
          (if modelPost.pools != implPost.pools || modelPost.seq != implPost.seq then ["pools"] else [])
        let tr : Spec.Tr := { env := acc.env, pre := acc.cur, op := op, ok := implOk, resp := implResp, post := implPost }
        let pq' := if dkv.has "pq" then dkv.get "pq" else acc.pq
        let viol := Spec.monitors.filterMap (fun (pid, name, f) => if f tr then none else some s!"{seq} V {pid} {name}")
        -- pool records as seen through the keeper's lookups: unchanged by a rejected message, and always the listed pools
        let viol := viol ++ (if !implOk && pq' != acc.pq then [s!"{seq} V C02 rejected_unchanged_lookups"] else []) ++
          (if later && !implOk && !paramsEq implPost.params acc.cur.params then [s!"{seq} V C09 discarded_caps_unchanged", s!"{seq} V C02 rejected_unchanged_params"] else []) ++
          (if !lookupsMatch implPost.pools pq' then [s!"{seq} V C02 pool_lookups_match_listing", s!"{seq} V C18 pool_lookups_match_listing"] else [])
        let tag := s!"{branchOf acc.cur op}/{if implOk then "ok" else "rej"}/{opMagnitude op}{if later then "/later" else ""}"
        let l :=
          if comps.isEmpty then s!"{seq} A {tag}"
          else s!"{seq} D {tag} comps={",".intercalate comps} model={if modelOk then "ok" else "rej:" ++ modelRej} impl={implClass} " ++
               (if comps.contains "resp" then s!"modelResp={repr modelResp} implResp={repr implResp} " else "") ++
               (if comps.contains "bank" then bankDiff modelPost.bank implPost.bank else "")
        { acc with cur := implPost, pq := pq', out := (acc.out.push l) ++ viol.toArray }
    | _ => { acc with out := acc.out.push "? E malformed" }
  else acc

def emptyEnv : Env := { modAddr := "", feeCollector := "", blockedCs := [], blockedBank := [], reserveAddr := [] }

partial def loop (h : IO.FS.Stream) (o : IO.FS.Stream) (acc : Acc) : IO Unit := do
  let line ← h.getLine
  if line.isEmpty then return ()
  let acc := processLine acc ((line.dropEndWhile (· == '\n')).toString)
  for l in acc.out do o.putStrLn l
  loop h o { acc with out := #[] }

def main : IO Unit := do
  let i ← IO.getStdin
  let o ← IO.getStdout
  loop i o { env := emptyEnv, cur := emptyState, out := #[] }

end CV.Drv.Coinswap
