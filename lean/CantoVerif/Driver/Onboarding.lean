import CantoVerif.Driver.Common
import CantoVerif.Driver.Coinswap
import CantoVerif.Spec.Onboarding
/-!
# Driver for the `onboarding` suite (C11): replays the harness trace on the model step by step from
the implementation's own pre-state, compares outcome / response / bank / pools / registry / token
ledger / module accounts, and evaluates the predicates of `Spec/Onboarding.lean` on the
*implementation's* transitions.
-/
namespace CV.Drv.Onboarding
open CV CV.Drv CV.Onboarding

def pktAddr (tok : String) : PktAddr :=
  if tok.startsWith "L" then ⟨.lower, (tok.drop 1).toString⟩
  else if tok.startsWith "U" then ⟨.upper, (tok.drop 1).toString⟩
  else ⟨.bad, ""⟩

def parseEnv (kv : KV) : Env := { cs := Drv.Coinswap.parseEnv kv, erc20Mod := kv.get "erc20mod" }

def parsePairs (s : String) : List (Denom × Pair) :=
  (listOf s).filterMap (fun e =>
    match e.splitOn ":" with
    | [d, c, en] => some (unesc d, { contract := c, enabled := en == "1" })
    | _ => none)

def applyTok (m : AMap (Addr × Addr)) (s : String) : AMap (Addr × Addr) :=
  (listOf s).foldl (fun m e =>
    match e.splitOn ":" with
    | [c, h, n] => m.set (c, h) (natOf n)
    | _ => m) m

/-- apply the keys present in `kv` on top of `s` (`S` lines carry all of them, deltas only what changed) -/
def applyAllKeys (s : State) (kv : KV) : State :=
  let cs := Drv.Coinswap.applyMod s.cs kv
  let cs := { cs with bank := applyLedger s.cs.bank kv }
  let ob := s.ob
  let ob := if kv.has "ob.en" then { ob with enabled := kv.get "ob.en" == "1" } else ob
  let ob := if kv.has "ob.thr" then { ob with threshold := natOf (kv.get "ob.thr") } else ob
  let ob := if kv.has "ob.ch" then { ob with channels := (listOf (kv.get "ob.ch")).map unesc } else ob
  { cs := cs, ob := ob,
    macc := if kv.has "macc" then listOf (kv.get "macc") else s.macc,
    pairs := if kv.has "pairs" then parsePairs (kv.get "pairs") else s.pairs,
    tok := applyTok (if kv.has "tok" then AMap.empty else s.tok) (if kv.has "tok" then kv.get "tok" else kv.get "tokd") }

def emptyState : State :=
  { cs := Drv.Coinswap.emptyState, ob := { enabled := false, threshold := 0, channels := [] }, macc := [], pairs := [], tok := AMap.empty }

def parseConv (s : String) : ConvOutcome :=
  if s == "ok" then .ok else if s == "gone" then .gone
  else match s.splitOn ":" with
    | ["fail", k] => .fail (natOf k)
    | _ => .fail 0

def parseCredit (s : String) : Credit :=
  match s.splitOn ":" with
  | ["unescrow", a] => .unescrow a
  | [_, a] => .mint a
  | _ => .mint ""

def parseOp (kind : String) (kv : KV) : Option Op :=
  match kind with
  | "recv" => some (.recv { dstChannel := unesc (kv.get "ch"), sender := pktAddr (kv.get "snd"), receiver := pktAddr (kv.get "rcv"),
                            denom := unesc (kv.get "d"), amount := natOf (kv.get "amt"), credit := parseCredit (kv.get "credit"),
                            underOk := kv.get "under" == "1", conv := parseConv (kv.get "conv") })
  | "obparams" => some (.setParams { enabled := kv.get "en" == "1", threshold := natOf (kv.get "thr"),
                                     channels := (listOf (kv.get "ch")).map unesc })
  | _ => (Drv.Coinswap.parseOp kind kv).map Op.cs

def parseAck (s : String) : Ack := if s == "same" then .given else if s == "err" then .error else .other

def parseEvent (s : String) : Option (Nat × Nat) :=
  match s.splitOn ":" with
  | [a, b] => some (natOf a, natOf b)
  | _ => none

/-- the implementation's response; `swapped` / `converted` are ledger quantities, filled in by the caller -/
def parseResp (kind : String) (kv : KV) : Resp :=
  match kind with
  | "recv" => { ack := parseAck (kv.get "ack"), swapped := 0, convCalled := kv.get "cvc" == "1", convAmt := natOf (kv.get "cva"),
                converted := 0, event := parseEvent (kv.get "ev") }
  | _ => pass

def respEq (m i : Resp) : Bool :=
  m.ack == i.ack && m.convCalled == i.convCalled && m.convAmt == i.convAmt && m.event == i.event

def showResp (r : Resp) : String :=
  s!"ack={repr r.ack},cvc={r.convCalled},cva={r.convAmt},ev={repr r.event}"

def shortRej : Rej → String
  | .invalid w => "invalid:" ++ (w.replace " " "-")
  | .notFound w => "nf:" ++ (w.replace " " "-")
  | .constraint w => "limit:" ++ (w.replace " " "-")
  | .insufficient => "insufficient"
  | e => (rejName e).replace " " "-"

/-- which path of the callback the model takes (for coverage statistics) -/
def branchOf (env : Env) (s : State) (p : Packet) : String :=
  if !p.underOk then "under-refused" else
  match s.cs.bank.applyAll (creditEffs p) with
  | .error e => "credit-" ++ shortRej e
  | .ok b =>
    let s0 := credited s p b
    if !s0.ob.enabled then "disabled" else
    if !s0.ob.channels.contains p.dstChannel then "channel" else
    match p.sender.parse >>= fun _ => p.receiver.parse with
    | .error _ => "errack"
    | .ok r =>
      if s0.macc.contains r then "module" else
      let sw :=
        if s0.ob.threshold == 0 then "thr0"
        else if !(s0.cs.bank.get r s0.cs.std < s0.ob.threshold) then "above"
        else match Coinswap.trade env.cs s0.cs p.denom p.amount s0.cs.std s0.ob.threshold true with
          | .error e => "noswap:" ++ shortRej e
          | .ok _ => "swap"
      match autoSwap env s0 r p.denom p.amount with
      | .error e => sw ++ "+panic:" ++ shortRej e
      | .ok (s1, swapped) =>
        let cv := match Coinswap.lookupD s1.pairs p.denom with
          | none => "unreg"
          | some pair =>
            if !pair.enabled then "off"
            else if p.amount - swapped == 0 then "zero"
            else match p.conv with
              | .ok => "ok" | .gone => "gone" | .fail k => s!"fail{k}"
        sw ++ "+" ++ cv

def magnitude (n : Nat) : String :=
  if n ≤ 10 then "tiny" else if n ≤ 1000000 then "small" else if n ≤ 10 ^ 18 then "mid" else if n < 2 ^ 128 then "large" else "huge"

structure Acc where
  env : Env
  cur : State
  out : Array String

def processLine (acc : Acc) (line : String) : Acc :=
  if line.startsWith "E " then
    { acc with env := parseEnv (kvOf ((line.drop 2).toString.splitOn " ")) }
  else if line.startsWith "S " then
    let kv := kvOf ((line.drop 2).toString.splitOn " ")
    { acc with cur := applyAllKeys emptyState kv }
  else if line.startsWith "O " then
    let (opToks, outToks, deltaToks) := splitOp line
    match opToks with
    | _ :: seq :: kind :: args =>
      match parseOp kind (kvOf args) with
      | none => { acc with out := acc.out.push s!"{seq} E unparsed-op" }
      | some op =>
        let implOk := outToks.head? == some "ok"
        let implClass := outToks.head?.getD "?"
        let implResp := if implOk then parseResp kind (kvOf outToks.tail) else pass
        let implPost := applyAllKeys acc.cur (kvOf deltaToks)
        let mres := step acc.env acc.cur op
        -- `later=1`: a later message of the same transaction failed: the branch is discarded, nothing changed
        let later := (kvOf args).get "later" == "1"
        let (modelOk, modelResp, modelPost, modelRej) :=
          match mres with
          | .ok (s', r) => if later then (false, pass, acc.cur, "later") else (true, r, s', "")
          | .error e => (false, pass, acc.cur, rejName e)
        let convSeen := match op with
          | .recv _ => (kvOf args).get "conv" != "none"
          | _ => false
        let comps : List String :=
          (if modelOk != implOk then ["outcome"] else []) ++
          (if modelOk && implOk && (!respEq modelResp implResp || modelResp.convCalled != convSeen) then ["resp"] else []) ++
          (if !bankEq modelPost.cs.bank implPost.cs.bank then ["bank"] else []) ++
          (if modelPost.cs.pools != implPost.cs.pools || modelPost.cs.seq != implPost.cs.seq then ["pools"] else []) ++
          (if !Spec.sameList modelPost.pairs implPost.pairs then ["pairs"] else []) ++
          (if !modelPost.tok.eqv implPost.tok then ["tok"] else []) ++
          (if !Spec.sameList modelPost.macc implPost.macc then ["macc"] else []) ++
          (if modelPost.ob != implPost.ob then ["ob"] else [])
        let tr : Spec.Tr := { env := acc.env, pre := acc.cur, op := op, ok := implOk, resp := implResp, post := implPost }
        let viol := Spec.monitors.filterMap (fun (pid, name, f) => if f tr then none else some s!"{seq} V {pid} {name}")
        -- the callback panicked on a packet for which the specification (the model) returns an acknowledgement: the
        -- underlying transfer's acknowledgement was NOT returned
        let viol := viol ++ (match op with
          | .recv _ => if modelOk && implClass == "rej:panic" then [s!"{seq} V C11 ack_returned_no_panic"] else []
          | _ => [])
        -- a parameter update on a discarded branch left something behind (as observed through the keeper): from then on the
        -- module acts on channels / thresholds / an enabled flag that were never committed
        let viol := viol ++ (if later && !implOk && !Spec.sameState acc.cur implPost then [s!"{seq} V C11 discarded_update_unchanged"] else [])
        let (br, mag) := match op with
          | .recv p => (branchOf acc.env acc.cur p, magnitude p.amount)
          | .cs o => (Drv.Coinswap.branchOf acc.cur.cs o, Drv.Coinswap.opMagnitude o)
          | _ => ("other", "-")
        let tag := s!"{br}/{if implOk then "ok" else "rej"}/{mag}"
        let l :=
          if comps.isEmpty then s!"{seq} A {tag}"
          else s!"{seq} D {tag} comps={",".intercalate comps} model={if modelOk then "ok" else "rej:" ++ modelRej} impl={implClass} " ++
               (if comps.contains "resp" then s!"modelResp={showResp modelResp} implResp={showResp implResp} " else "") ++
               (if comps.contains "bank" then bankDiff modelPost.cs.bank implPost.cs.bank ++ " " else "") ++
               (if comps.contains "pairs" then s!"modelPairs={repr modelPost.pairs} implPairs={repr implPost.pairs} " else "") ++
               (if comps.contains "tok" then s!"tok-differs-at={repr (modelPost.tok.diffKeys implPost.tok)} " else "") ++
               (if comps.contains "macc" then s!"modelMacc={modelPost.macc} implMacc={implPost.macc}" else "")
        { acc with cur := implPost, out := (acc.out.push l) ++ viol.toArray }
    | _ => { acc with out := acc.out.push "? E malformed" }
  else acc

def emptyEnv : Env := { cs := Drv.Coinswap.emptyEnv, erc20Mod := "" }

partial def loop (h : IO.FS.Stream) (o : IO.FS.Stream) (acc : Acc) : IO Unit := do
  let line ← h.getLine
  if line.isEmpty then return ()
  let acc := processLine acc ((line.dropEndWhile (· == '\n')).toString)
  for l in acc.out do o.putStrLn l
  loop h o { acc with out := #[] }

def main : IO Unit := do
  let i ← IO.getStdin
  let o ← IO.getStdout
  loop i o { env := emptyEnv, cur := emptyState, out := #[] }

end CV.Drv.Onboarding
