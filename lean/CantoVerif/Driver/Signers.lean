import CantoVerif.Driver.Coinswap
import CantoVerif.Spec.Signers
/-!
# Driver for the `signers` suite (C07): signer derivation and the debited accounts of the five user
messages, model against implementation, with the C07 predicates evaluated on the implementation.
-/
namespace CV.Drv.Signers
open CV CV.Drv CV.Signers

def hexStr (tok : String) : HexStr :=
  if tok.startsWith "H" then
    let form : HexForm :=
      match (tok.drop 1).toString.take 1 |>.toString with
      | "0" => .x0Eip55 | "1" => .x0Lower | "2" => .x0Upper | "3" => .bareLower | "4" => .bareUpper | _ => .bareEip55
    ⟨form, (tok.drop 2).toString, ""⟩
  else ⟨.bad, "", (tok.drop 1).toString⟩

def parsePairs (s : String) : List Pair :=
  (listOf s).filterMap (fun e =>
    match e.splitOn ":" with
    | [d, t, o] => some { denom := unesc d, tok := t, owner := if o == "module" then .module else .external }
    | _ => none)

def parseOp (kind : String) (kv : KV) : Option Op :=
  match kind with
  | "ccoin" => some (.convertCoin { sender := CV.Drv.Coinswap.addrStr (kv.get "sender"), receiver := hexStr (kv.get "recv"),
                                    denom := unesc (kv.get "denom"), amt := intOf (kv.get "amt") })
  | "cerc20" => some (.convertERC20 { sender := hexStr (kv.get "sender"), receiver := CV.Drv.Coinswap.addrStr (kv.get "recv"),
                                      contract := kv.get "contract", amt := intOf (kv.get "amt") })
  | _ => (CV.Drv.Coinswap.parseOp kind kv).map .cs

def branchOf (s : State) : Op → String
  | .cs op => CV.Drv.Coinswap.branchOf s.cs op
  | .convertCoin m =>
    (match s.pairs.find? (fun p => p.denom == m.denom) with
     | some p => if p.owner == .module then "ccoin-module-owned" else "ccoin-external"
     | none => "ccoin-nopair")
  | .convertERC20 m =>
    (match s.pairs.find? (fun p => p.tok == m.contract) with
     | some p => if p.owner == .module then "cerc20-module-owned" else "cerc20-external"
     | none => "cerc20-nopair")

/-- is the recipient somebody else than the payer? -/
def recipientClass : Op → String
  | .cs (.swap m) => if m.outAddr.form == .bad then "bad-recipient" else if m.outAddr.bytes == m.inAddr.bytes then "self" else "other"
  | .convertCoin m => if !m.receiver.isHex then "bad-recipient" else if m.receiver.bytes == m.sender.bytes then "self" else "other"
  | .convertERC20 m => if m.receiver.form == .bad then "bad-recipient" else if m.receiver.bytes == m.sender.bytes then "self" else "other"
  | _ => "self"

/-- the token ledger of the model lives in the same `Bank` as the coins; a token transfer to a fresh address
"creates" a bank account there, which is an artefact: for the conversions balances and supplies are compared -/
def ledgerEq (op : Op) (a b : Bank) : Bool :=
  match op with
  | .cs _ => bankEq a b
  | _ => a.bal.eqv b.bal && a.sup.eqv b.sup

structure Acc where
  env : Env
  cur : State
  out : Array String

def emptyS : State := { cs := CV.Drv.Coinswap.emptyState, pairs := [] }

def processLine (acc : Acc) (line : String) : Acc :=
  if line.startsWith "E " then
    let kv := kvOf ((line.drop 2).toString.splitOn " ")
    { acc with env := { cs := CV.Drv.Coinswap.parseEnv kv, erc20Mod := kv.get "emod" } }
  else if line.startsWith "S " then
    let kv := kvOf ((line.drop 2).toString.splitOn " ")
    let cs := CV.Drv.Coinswap.applyMod CV.Drv.Coinswap.emptyState kv
    { acc with cur := { cs := { cs with bank := applyLedger emptyBank kv }, pairs := parsePairs (kv.get "pairs") } }
  else if line.startsWith "O " then
    let (opToks, outToks, deltaToks) := splitOp line
    match opToks with
    | _ :: seq :: kind :: args =>
      match parseOp kind (kvOf args) with
      | none => { acc with out := acc.out.push s!"{seq} E unparsed-op" }
      | some op =>
        let implOk := outToks.head? == some "ok"
        let implClass := outToks.head?.getD "?"
        let okv := kvOf outToks.tail
        let implSg : Option (List Addr) := if okv.get "sg" == "err" then none else some (listOf (okv.get "sg"))
        let dkv := kvOf deltaToks
        let implPost : State :=
          let cs := CV.Drv.Coinswap.applyMod acc.cur.cs dkv
          { acc.cur with cs := { cs with bank := applyLedger acc.cur.cs.bank dkv } }
        let modelSg : Option (List Addr) := match signers op with | .ok l => some l | .error _ => none
        let mres := step acc.env implOk acc.cur op
        let (modelOk, modelPost, modelRej) :=
          match mres with
          | .ok s' => (true, s', "")
          | .error e => (false, acc.cur, rejName e)
        let comps : List String :=
          (if modelSg != implSg then ["signers"] else []) ++
          (if modelOk != implOk then ["outcome"] else []) ++
          (if !ledgerEq op modelPost.cs.bank implPost.cs.bank then ["bank"] else []) ++
          (if modelPost.cs.pools != implPost.cs.pools || modelPost.cs.seq != implPost.cs.seq then ["pools"] else [])
        let tr : Spec.Tr := { env := acc.env, pre := acc.cur, op := op, ok := implOk, sg := implSg, post := implPost }
        let viol := Spec.monitors.filterMap (fun (pid, name, f) => if f tr then none else some s!"{seq} V {pid} {name}")
        let tag := s!"{branchOf acc.cur op}/{if implOk then "ok" else "rej"}/{recipientClass op}"
        let l :=
          if comps.isEmpty then s!"{seq} A {tag}"
          else s!"{seq} D {tag} comps={",".intercalate comps} model={if modelOk then "ok" else "rej:" ++ modelRej} impl={implClass} " ++
               (if comps.contains "signers" then s!"modelSigners={repr modelSg} implSigners={repr implSg} " else "") ++
               (if comps.contains "bank" then bankDiff modelPost.cs.bank implPost.cs.bank else "")
        { acc with cur := implPost, out := (acc.out.push l) ++ viol.toArray }
    | _ => { acc with out := acc.out.push "? E malformed" }
  else acc

partial def loop (h : IO.FS.Stream) (o : IO.FS.Stream) (acc : Acc) : IO Unit := do
  let line ← h.getLine
  if line.isEmpty then return ()
  let acc := processLine acc ((line.dropEndWhile (· == '\n')).toString)
  for l in acc.out do o.putStrLn l
  loop h o { acc with out := #[] }

def main : IO Unit := do
  let i ← IO.getStdin
  let o ← IO.getStdout
  loop i o { env := { cs := CV.Drv.Coinswap.emptyEnv, erc20Mod := "" }, cur := emptyS, out := #[] }

end CV.Drv.Signers
