import CantoVerif.Driver.Common
import CantoVerif.Spec.Ante
/-!
# Driver for the `ante` suite (C19): the model's routing verdict for every generated transaction is
compared with the class of the real ante handler's answer; the C19 predicates are evaluated on the
implementation's answers.
-/
namespace CV.Drv.Ante
open CV CV.Drv CV.Ante

instance : Inhabited Msg := ⟨.leaf "?"⟩

/-- `L<url>` | `G<url>` | `E(<list>)`, lists comma separated -/
partial def parseList (cs : List Char) : List Msg × List Char :=
  match cs with
  | [] => ([], [])
  | ')' :: _ => ([], cs)
  | _ =>
    let (m, rest) := parseItem cs
    match rest with
    | ',' :: rest' =>
      let (ms, rest'') := parseList rest'
      (m :: ms, rest'')
    | _ => ([m], rest)
where
  parseItem (cs : List Char) : Msg × List Char :=
    match cs with
    | 'E' :: '(' :: rest =>
      let (ms, rest') := parseList rest
      (.exec ms, match rest' with | ')' :: r => r | r => r)
    | 'G' :: rest =>
      let url := rest.takeWhile (fun c => c != ',' && c != ')')
      (.grant (String.ofList url), rest.dropWhile (fun c => c != ',' && c != ')'))
    | 'L' :: rest =>
      let url := rest.takeWhile (fun c => c != ',' && c != ')')
      (.leaf (String.ofList url), rest.dropWhile (fun c => c != ',' && c != ')'))
    | _ => (.leaf "?", [])

def parseTx (kv : KV) : Tx :=
  { extOpts := listOf (kv.get "ext") ";", msgs := (parseList (kv.get "msgs").toList).1 }

def parseObs (s : String) : Spec.Obs :=
  if s == "ok" then .ok
  else if s == "rej:unknown-ext" then .unknownExt
  else if s == "rej:eth-in-cosmos" then .ethInCosmos
  else if s == "rej:authz" then .authzDisabled
  else if s == "rej:nesting" then .nestingLimit
  else if s == "rej:eth-shape" then .ethShape
  else if s == "rej:non-eth-in-eth" then .nonEthInEth
  else .later

def verdictName : Verdict → String
  | .routedEth => "routedEth" | .routedCosmos => "routedCosmos" | .routedEip712 => "routedEip712"
  | .unknownExt => "unknownExt" | .ethInCosmos => "ethInCosmos" | .authzDisabled => "authzDisabled"
  | .nestingLimit => "nestingLimit" | .ethShape => "ethShape" | .nonEthInEth => "nonEthInEth"

def processLine (out : Array String) (line : String) : Array String :=
  if line.startsWith "O " then
    let (opToks, outToks, _) := splitOp line
    match opToks with
    | _ :: seq :: _ :: args =>
      let kv := kvOf args
      let tx := parseTx kv
      let implClass := outToks.head?.getD "?"
      let obs := parseObs implClass
      let v := route tx
      let tr : Spec.Tr := { tx := tx, obs := obs }
      let viol := Spec.monitors.filterMap (fun (pid, name, f) => if f tr then none else some s!"{seq} V {pid} {name}")
      let sz := s!"d{depthL tx.msgs}{if Spec.hasBadExec tx.msgs false || Spec.hasBadGrant tx.msgs then "-bad" else ""}"
      let tag := s!"{verdictName v}/{if obs == .ok then "ok" else "rej"}/{sz}"
      let l := if Spec.agrees v obs then s!"{seq} A {tag}"
               else s!"{seq} D {tag} comps=route model={verdictName v} impl={implClass}"
      (out.push l) ++ viol.toArray
    | _ => out.push "? E malformed"
  else out

partial def loop (h : IO.FS.Stream) (o : IO.FS.Stream) : IO Unit := do
  let line ← h.getLine
  if line.isEmpty then return ()
  for l in processLine #[] ((line.dropEndWhile (· == '\n')).toString) do o.putStrLn l
  loop h o

def main : IO Unit := do
  let i ← IO.getStdin
  let o ← IO.getStdout
  loop i o

end CV.Drv.Ante
