import CantoVerif.Model.Abi
import CantoVerif.Driver.Common
import CantoVerif.Spec.Erc20
/-!
# Driver for the `erc20` suites (surface M: scripted EVM; surface E: real EVM).

For every operation of the trace the model's `step` is run from the implementation's own pre-state:

* when the harness scripted **no deviation** (`dev=-`), against the honest token machine of
  `Model/Erc20Token.lean`; the answers that machine gives are compared with the answers the
  implementation's EVM gave (`evm=` recording), and the token ledger it predicts with the one observed;
* when a **deviation** was scripted, against the recorded answers themselves (the oracle is the
  script), so the keeper model is exercised under arbitrary contract behaviour.

Compared components: outcome, response, bank ledger, the three registry prefixes, params, bank
metadata, send-enabled switches, module nonce, token ledger, EVM answers.  Every monitor of
`Spec/Erc20.lean` is evaluated on the implementation's transition.
-/
namespace CV.Drv.Erc20
open CV CV.Drv CV.Erc20 CV.Erc20.Token CV.Erc20.Spec

def addrStr (tok : String) : AddrStr :=
  if tok.startsWith "L" then ⟨.lower, (tok.drop 1).toString⟩
  else if tok.startsWith "U" then ⟨.upper, (tok.drop 1).toString⟩
  else ⟨.bad, ""⟩

def hexStr (tok : String) : HexStr :=
  if tok == "HX" then ⟨false, ""⟩
  else if tok.startsWith "H" then ⟨true, (tok.drop 1).toString⟩
  else ⟨false, ""⟩

def b1 (s : String) : Bool := s == "1"

def parseEnv (kv : KV) : Env × Cfg :=
  ({ modAddr := kv.get "mod", blocked := listOf (kv.get "blocked"),
     createAddr := (listOf (kv.get "ca")).filterMap (fun e =>
       match e.splitOn ":" with | [n, a] => some (natOf n, a) | _ => none),
     erc20Denom := (listOf (kv.get "ed")).filterMap (fun e =>
       match e.splitOn ":" with | [a, d] => some (a, unesc d) | _ => none),
     macc := listOf (kv.get "macc") },
   { modAddr := kv.get "mod", zero := kv.get "zero" })

def ownerOf (s : String) : Owner := if s == "m" then .module else if s == "e" then .external else .unspecified

def parsePairs (s : String) : List (PairId × Pair) :=
  (listOf s).filterMap (fun e =>
    match e.splitOn ":" with
    | [ia, id, a, d, en, ow] => some ((ia, unesc id), { addr := a, denom := unesc d, enabled := b1 en, owner := ownerOf ow })
    | _ => none)
def parseByAddr (s : String) : List (Addr × PairId) :=
  (listOf s).filterMap (fun e =>
    match e.splitOn ":" with | [a, ia, id] => some (a, (ia, unesc id)) | _ => none)
def parseByDenom (s : String) : List (Denom × PairId) :=
  (listOf s).filterMap (fun e =>
    match e.splitOn ":" with | [d, ia, id] => some (unesc d, (ia, unesc id)) | _ => none)
def parseDS (s : String) : List (Denom × String) :=
  (listOf s).filterMap (fun e =>
    match e.splitOn ":" with | [d, v] => some (unesc d, v) | _ => none)

def applyTokBal (m : AMap (Addr × Addr)) (s : String) : AMap (Addr × Addr) :=
  (listOf s).foldl (fun m e =>
    match e.splitOn ":" with | [c, h, n] => m.set (c, h) (natOf n) | _ => m) m
def applyTokSup (m : AMap Addr) (s : String) : AMap Addr :=
  (listOf s).foldl (fun m e =>
    match e.splitOn ":" with | [c, n] => m.set c (natOf n) | _ => m) m
def parseMinter (s : String) : List (Addr × Addr) :=
  (listOf s).filterMap (fun e => match e.splitOn ":" with | [c, a] => some (c, a) | _ => none)

/-- apply the keys present in `kv` on top of a world -/
def applyMod (w : World TState) (kv : KV) : World TState :=
  let s := w.st
  let p := s.params
  let p := if kv.has "en" then { p with enableErc20 := b1 (kv.get "en") } else p
  let p := if kv.has "hk" then { p with enableEVMHook := b1 (kv.get "hk") } else p
  let r := s.reg
  let r := if kv.has "pairs" then { r with pairs := parsePairs (kv.get "pairs") } else r
  let r := if kv.has "bya" then { r with byAddr := parseByAddr (kv.get "bya") } else r
  let r := if kv.has "byd" then { r with byDenom := parseByDenom (kv.get "byd") } else r
  let s := { s with params := p, reg := r }
  let s := if kv.has "mn" then { s with mn := natOf (kv.get "mn") } else s
  let s := if kv.has "sd" then { s with sendDefault := b1 (kv.get "sd") } else s
  let s := if kv.has "so" then { s with sendOverride := (parseDS (kv.get "so")).map (fun e => (e.1, b1 e.2)) } else s
  let s := if kv.has "meta" then { s with dmeta := parseDS (kv.get "meta") } else s
  let s := { s with bank := applyLedger s.bank kv }
  let t := w.evm
  let t := if kv.has "tb" then { t with bal := applyTokBal t.bal (kv.get "tb") } else t
  let t := if kv.has "ts" then { t with sup := applyTokSup t.sup (kv.get "ts") } else t
  let t := if kv.has "code" then { t with code := listOf (kv.get "code") } else t
  let t := if kv.has "minter" then { t with minter := parseMinter (kv.get "minter") } else t
  { st := s, evm := t }

def emptyTok : TState := { bal := AMap.empty, sup := AMap.empty, code := [], minter := [] }
def emptyState : State :=
  { bank := emptyBank, params := { enableErc20 := true, enableEVMHook := true }, reg := Registry.empty,
    dmeta := [], sendDefault := true, sendOverride := [], mn := 0 }
def emptyWorld : World TState := { st := emptyState, evm := emptyTok }

def parseLog (e : String) : Option Log :=
  match e.splitOn "/" with
  | [em, nt, it, f, t, a] =>
    some { emitter := em, nTopics := natOf nt, isTransfer := b1 it, sender := f, to := t,
           amount := if a == "-" then none else some (natOf a) }
  | [em, nt, it, f, t, a, _] =>
    some { emitter := em, nTopics := natOf nt, isTransfer := b1 it, sender := f, to := t,
           amount := if a == "-" then none else some (natOf a) }
  | _ => none

def hexNibE (c : Char) : Nat :=
  if c.isDigit then c.toNat - '0'.toNat else if 'a' ≤ c && c ≤ 'f' then c.toNat - 'a'.toNat + 10 else 0

def hexBytesE (s : String) : List Nat :=
  let rec go : List Char → List Nat
    | a :: b :: r => (hexNibE a * 16 + hexNibE b) :: go r
    | _ => []
  go s.toList

/-- the amount of a `Transfer` log against the Lean model of the contract ABI (`Model/Abi.lean`): the data the real decoder
accepted under the layout `(uint256)` decodes in the model to the same amount, the data it refused does not decode -/
def abiLogOkE (tok : String) : Bool :=
  match tok.splitOn "/" with
  | [_, _, _, _, _, a, h] =>
    (match Abi.decodeTuple [.uint256] (hexBytesE h) with
     | some [.uint n] => a != "-" && natOf a == n
     | _ => a == "-")
  | _ => true

def parseOp (kind : String) (kv : KV) : Option DOp :=
  match kind with
  | "cc" => some (.k (.convertCoin { denom := ⟨unesc (kv.get "d"), kv.get "da"⟩, amount := intOf (kv.get "amt"),
                                      receiver := hexStr (kv.get "recv"), sender := addrStr (kv.get "sender") }))
  | "ce" => some (.k (.convertERC20 { contract := hexStr (kv.get "c"), amount := intOf (kv.get "amt"),
                                       receiver := addrStr (kv.get "recv"), sender := hexStr (kv.get "sender") }))
  | "rc" => some (.k (.registerCoin (b1 (kv.get "auth")) (unesc (kv.get "base")) (kv.get "dg")))
  | "re" => some (.k (.registerERC20 (b1 (kv.get "auth")) (kv.get "c") (b1 (kv.get "mo"))))
  | "tg" => some (.k (.toggle (b1 (kv.get "auth")) ⟨unesc (kv.get "t"), kv.get "ta"⟩))
  | "up" => some (.k (.updateParams (b1 (kv.get "auth")) { enableErc20 := b1 (kv.get "en"), enableEVMHook := b1 (kv.get "hk") }))
  | "hook" => some (.k (.hook ((listOf (kv.get "logs")).filterMap parseLog)))
  | "send" => some (.k (.send (kv.get "src") (kv.get "dst") (unesc (kv.get "d")) (natOf (kv.get "amt"))))
  | "sse" => some (.k (.setSendEnabled (unesc (kv.get "d")) (b1 (kv.get "v"))))
  | "ssd" => some (.k (.setSendDefault (b1 (kv.get "v"))))
  | "reimp" => some (.k .reimport)
  | "tx" => some (.tx (kv.get "c") (kv.get "holder")
      (if kv.get "call" == "burn" then .burn (natOf (kv.get "amt"))
       else if kv.get "call" == "approve" then .approve (kv.get "to") (natOf (kv.get "amt"))
       else .transfer (kv.get "to") (natOf (kv.get "amt"))))
  | "txb" => some (.txBatch (kv.get "c") (kv.get "holder")
      ((listOf (kv.get "calls")).filterMap (fun e =>
        match e.splitOn ":" with
        | ["burn", a] => some (.burn (natOf a))
        | ["xfer", to, a] => some (.transfer to (natOf a))
        | ["approve", to, a] => some (.approve to (natOf a))
        | _ => none)))
  | "sd" => some (.sd (kv.get "c"))
  | "dep" => some (.dep (kv.get "c") (kv.get "by") (natOf (kv.get "sup")))
  | _ => none

def parseResp (kv : KV) : Resp :=
  match kv.get "resp" with
  | "converted" => .converted
  | "deleted" => .deleted
  | _ => .none

def logKs (s : String) : List LogK :=
  if s == "-" then [] else s.toList.map (fun c => if c == 'T' then .transfer else if c == 'A' then .approval else if c == 'N' then .noTopics else .other)

def parseAns (e : String) : Option (String × Ans) :=
  match e.splitOn "/" with
  | [k, st, ret, logs] =>
    some (k, { status := if st == "ok" then .ok else if st == "rev" then .revert else .err,
               ret := if ret == "-" then none else some (natOf ret), logs := logKs logs })
  | _ => none

def parseRec (s : String) : List (String × Ans) := if s == "-" then [] else (listOf s).filterMap parseAns

def callKind : Call → String
  | .code _ => "code" | .balanceOf _ _ => "bal" | .mint _ _ _ => "mint" | .burnCoins _ _ _ => "burnc"
  | .transfer _ _ _ _ => "xfer" | .burn _ _ => "burn" | .create _ => "create" | .name _ => "name"
  | .symbol _ => "sym" | .decimals _ => "dec"

/-- the oracle "answer what the implementation's EVM answered" -/
structure Script where
  rest : List (String × Ans)
  bad : Bool
def scriptO : Oracle Script := fun c s =>
  match s.rest with
  | (k, a) :: r => (a, { rest := r, bad := s.bad || k != callKind c })
  | [] => ({ status := .err, ret := none, logs := [] }, { rest := [], bad := true })

/-- the honest machine, logging its answers -/
structure Logged where
  t : TState
  log : List (String × Ans)
def loggedO (cfg : Cfg) : Oracle Logged := fun c s =>
  let r := honest cfg c s.t
  (r.1, { t := r.2, log := s.log ++ [(callKind c, r.1)] })

/-- result of running the model on one op -/
structure MRes where
  ok : Bool
  rej : String
  resp : Resp
  st : State
  tok : Option TState           -- predicted token state (honest mode only)
  evmBad : Bool                 -- answers / call kinds do not line up with the recording
  evmNote : String

def ansEq (a b : List (String × Ans)) : Bool := a == b

/-- one-line rendering for diagnostics -/
def flat {α : Type} [Repr α] (x : α) : String := ((repr x).pretty 1000000).replace "\n" " "

def runHonest (env : Env) (cfg : Cfg) (w : World TState) (op : DOp) (rec : List (String × Ans)) : MRes :=
  let lw : World Logged := { st := w.st, evm := { t := w.evm, log := [] } }
  let fail (e : Rej) : MRes := { ok := false, rej := rejName e, resp := .none, st := w.st, tok := some w.evm, evmBad := false, evmNote := "" }
  match op with
  | .k kop =>
    (match step env (loggedO cfg) lw kop with
     | .ok (w', r) =>
       let bad := !ansEq w'.evm.log rec
       { ok := true, rej := "", resp := r, st := w'.st, tok := some w'.evm.t, evmBad := bad,
         evmNote := if bad then s!"model-answers={flat w'.evm.log}" else "" }
     | .error e => fail e)
  | .tx c h call =>
    (match holderCall cfg w.evm c h call with
     | none => fail (.evm "execution reverted")
     | some (t1, logs) =>
       match postTx env (loggedO cfg) { st := w.st, evm := { t := t1, log := [] } } logs with
       | .ok (w', r) =>
         let bad := !ansEq w'.evm.log rec
         { ok := true, rej := "", resp := r, st := w'.st, tok := some w'.evm.t, evmBad := bad,
           evmNote := if bad then s!"model-answers={flat w'.evm.log}" else "" }
       | .error e => fail e)
  | .txBatch c h calls =>
    -- every call of the transaction runs first (a reverting call reverts the transaction), then the hook sees the whole receipt
    let step1 : Option (TState × List Log) → HolderCall → Option (TState × List Log) := fun acc call =>
      match acc with
      | none => none
      | some (t, logs) =>
        (match holderCall cfg t c h call with
         | none => none
         | some (t1, l1) => some (t1, logs ++ l1))
    (match calls.foldl step1 (some (w.evm, [])) with
     | none => fail (.evm "execution reverted")
     | some (t1, logs) =>
       match postTx env (loggedO cfg) { st := w.st, evm := { t := t1, log := [] } } logs with
       | .ok (w', r) =>
         let bad := !ansEq w'.evm.log rec
         { ok := true, rej := "", resp := r, st := w'.st, tok := some w'.evm.t, evmBad := bad,
           evmNote := if bad then s!"model-answers={flat w'.evm.log}" else "" }
       | .error e => fail e)
  | .sd c => { ok := true, rej := "", resp := .none, st := w.st, tok := some (selfdestruct w.evm c), evmBad := false, evmNote := "" }
  | .dep c by_ sup =>
    (match deployExternal w.evm c by_ sup with
     | some t => { ok := true, rej := "", resp := .none, st := w.st, tok := some t, evmBad := false, evmNote := "" }
     | none => fail (.evm "collision"))

def runScript (env : Env) (cfg : Cfg) (w : World TState) (op : DOp) (rec : List (String × Ans)) : MRes :=
  let sw : World Script := { st := w.st, evm := { rest := rec, bad := false } }
  let fail (e : Rej) : MRes := { ok := false, rej := rejName e, resp := .none, st := w.st, tok := none, evmBad := false, evmNote := "" }
  let fin (r : R (World Script × Resp)) : MRes :=
    match r with
    | .ok (w', r) =>
      let bad := w'.evm.bad || !w'.evm.rest.isEmpty
      { ok := true, rej := "", resp := r, st := w'.st, tok := none, evmBad := bad,
        evmNote := if bad then s!"script-left={w'.evm.rest.length} kind-mismatch={w'.evm.bad}" else "" }
    | .error e => fail e
  match op with
  | .k kop => fin (step env scriptO sw kop)
  | .tx c h call =>
    (match holderCall cfg w.evm c h call with
     | none => fail (.evm "execution reverted")
     | some (_, logs) => fin (postTx env scriptO sw logs))
  | _ => runHonest env cfg w op rec

def regEq (a b : Registry) : Bool :=
  let keysP := (a.pairs.map (·.1) ++ b.pairs.map (·.1))
  let keysA := (a.byAddr.map (·.1) ++ b.byAddr.map (·.1))
  let keysD := (a.byDenom.map (·.1) ++ b.byDenom.map (·.1))
  keysP.all (fun k => KMap.get? a.pairs k == KMap.get? b.pairs k) &&
  keysA.all (fun k => KMap.get? a.byAddr k == KMap.get? b.byAddr k) &&
  keysD.all (fun k => KMap.get? a.byDenom k == KMap.get? b.byDenom k) &&
  a.pairs.length == b.pairs.length && a.byAddr.length == b.byAddr.length && a.byDenom.length == b.byDenom.length

def mapEq {β : Type} [BEq β] (a b : List (String × β)) : Bool :=
  (a.map (·.1) ++ b.map (·.1)).all (fun k => KMap.get? a k == KMap.get? b k) && a.length == b.length

def tokEq (a b : TState) : Bool :=
  a.bal.eqv b.bal && a.sup.eqv b.sup &&
  a.code.all (fun x => b.code.contains x) && b.code.all (fun x => a.code.contains x) &&
  a.minter.all (fun x => b.minter.contains x) && b.minter.all (fun x => a.minter.contains x)

def tokDiff (a b : TState) : String :=
  let ks := a.bal.diffKeys b.bal
  let ss := a.sup.diffKeys b.sup
  s!"tb[{", ".intercalate (ks.map (fun k => s!"{k.1}:{k.2} model={a.bal.get k} impl={b.bal.get k}"))}] " ++
  s!"ts[{", ".intercalate (ss.map (fun k => s!"{k} model={a.sup.get k} impl={b.sup.get k}"))}] code[model={a.code} impl={b.code}]"

def devClass (d : String) : String :=
  if d == "-" then "honest" else
  match (d.splitOn ":").getD 1 "" with
  | "err" | "revert" | "revertmoved" | "gas" => "fail"
  | "bal+1" | "bal-1" | "balnil" | "balbad" => "bal"
  | "amt+1" | "amt-1" | "amtx2" | "neg" => "amt"
  | "false" | "falsemoved" | "retempty" | "retbad" | "ret2" | "qnil" => "ret"
  | "approval" | "approvalfirst" | "approval1" | "approval4" | "notopics" | "otherlog" => "log"
  | k => k

def ownerTag : Option Pair → String
  | some p => (match p.owner with | .module => "mod" | .external => "ext" | .unspecified => "unspec") ++ (if p.enabled then "" else "-off")
  | none => "nopair"

def branchOf (s : State) (t : TState) : DOp → String
  | .k (.convertCoin m) => "cc-" ++ ownerTag (s.reg.lookupTok m.denom)
  | .k (.convertERC20 m) => "ce-" ++ ownerTag (match KMap.get? s.reg.byAddr m.contract.bytes with | some i => s.reg.getPair i | none => none)
  | .k (.registerCoin _ b _) => if KMap.has s.reg.byDenom b then "rc-repeat" else "rc"
  | .k (.registerERC20 _ c _) => if KMap.has s.reg.byAddr c then "re-repeat" else "re"
  | .k (.toggle _ tk) => if isHexAddress tk.s then "tg-addr" else "tg-denom"
  | .k (.updateParams _ _) => "params"
  | .k (.hook logs) =>
    let n := (logs.filter (fun l => (hookTarget { modAddr := "m.erc20", blocked := [], createAddr := [], erc20Denom := [] } s l).isSome)).length
    if n == 0 then "hook-none" else "hook-conv"
  | .k (.send _ _ _ _) => "send"
  | .k (.setSendEnabled _ _) => "sendenabled"
  | .k (.setSendDefault _) => "senddefault"
  | .k .reimport => "reimport"
  | .tx c _ call =>
    let o := ownerTag (match KMap.get? s.reg.byAddr c with | some i => s.reg.getPair i | none => none)
    (match call with
     | .burn _ => "tx-burn-"
     | .transfer to _ => if to == "m.erc20" then "tx-tomod-" else "tx-xfer-"
     | .approve to _ => if to == "m.erc20" then "tx-approvemod-" else "tx-approve-") ++ o ++
      (if t.hasCode c then "" else "-nocode")
  | .txBatch c _ calls =>
    let o := ownerTag (match KMap.get? s.reg.byAddr c with | some i => s.reg.getPair i | none => none)
    s!"tx-batch{calls.length}-" ++ o ++ (if t.hasCode c then "" else "-nocode")
  | .sd _ => "selfdestruct"
  | .dep _ _ _ => "deploy"

structure Acc where
  env : Env
  cfg : Cfg
  cur : World TState
  lk : String
  clean : Bool
  prev : Option (DOp × Bool × Resp × World TState × Bool)
  out : Array String

def parseLk (s : String) : List (Addr × Denom × String × String) :=
  (listOf s).filterMap (fun e =>
    match e.splitOn ":" with | [a, d, x, y] => some (a, unesc d, x, y) | _ => none)

def processLine (acc : Acc) (line : String) : Acc :=
  if line.startsWith "E " then
    let (e, c) := parseEnv (kvOf ((line.drop 2).toString.splitOn " "))
    { acc with env := e, cfg := c, clean := true }
  else if line.startsWith "S " then
    let kv := kvOf ((line.drop 2).toString.splitOn " ")
    { acc with cur := applyMod emptyWorld kv, lk := kv.get "lk", prev := none }
  else if line.startsWith "O " then
    let (opToks, outToks, deltaToks) := splitOp line
    match opToks with
    | _ :: seq :: kind :: args =>
      let akv := kvOf args
      match parseOp kind akv with
      | none => { acc with out := acc.out.push s!"{seq} E unparsed-op" }
      | some op =>
        let implOk := outToks.head? == some "ok"
        let implClass := outToks.head?.getD "?"
        let implResp := if implOk then parseResp (kvOf outToks.tail) else .none
        let dkv := kvOf deltaToks
        let implPost := applyMod acc.cur dkv
        let lk := if dkv.has "lk" then dkv.get "lk" else acc.lk
        let dev := akv.get "dev"
        let rec_ := parseRec (akv.get "evm")
        let m0 := if dev == "-" then runHonest acc.env acc.cfg acc.cur op rec_ else runScript acc.env acc.cfg acc.cur op rec_
        -- `later=1`: a later message of the same transaction failed (class `rej:later` when this message itself had
        -- succeeded): the transaction's branch is discarded (`deliver`), nothing changed, whatever the handler did
        let later := akv.get "later" == "1"
        let m := if later && m0.ok then { m0 with ok := false, rej := "later", resp := .none, st := acc.cur.st, tok := some acc.cur.evm } else m0
        let comps : List String :=
          (if m.ok != implOk || (later && m0.ok != (implClass == "rej:later")) then ["outcome"] else []) ++
          (if m.ok && implOk && m.resp != implResp then ["resp"] else []) ++
          (if !bankEq m.st.bank implPost.st.bank then ["bank"] else []) ++
          (if !regEq m.st.reg implPost.st.reg then ["reg"] else []) ++
          (if m.st.params != implPost.st.params then ["params"] else []) ++
          (if !mapEq m.st.dmeta implPost.st.dmeta then ["meta"] else []) ++
          (if m.st.sendDefault != implPost.st.sendDefault || !mapEq m.st.sendOverride implPost.st.sendOverride then ["send"] else []) ++
          (if m.st.mn != implPost.st.mn then ["nonce"] else []) ++
          (match m.tok with | some t => if tokEq t implPost.evm then [] else ["token"] | none => []) ++
          (if m.ok == implOk && m.evmBad && akv.get "evm" != "?" then ["evm"] else []) ++
          (if kind == "hook" && !(listOf (akv.get "logs")).all abiLogOkE then ["abi"] else [])
        -- what takes a world out of the scope of C03 (`HOpOK`): an accepted deviation, a forged receipt, a
        -- self-destruct.  A forged receipt or an accepted deviation is itself already outside the honest world (the model's
        -- own transition fails `c03_external` on a bare hook: last example of Props/C03Monitors.lean), so the transition
        -- that taints is evaluated as unclean; a self-destruct is evaluated as clean (`c03_*_sd_monitor`) and taints afterwards.
        let taintNow := implOk && (dev != "-" || (match op with | .k (.hook _) => true | _ => false))
        let taint := taintNow || (implOk && (match op with | .sd _ => true | _ => false))
        let tr : Tr := { env := acc.env, cfg := acc.cfg, pre := acc.cur, op := op, ok := implOk, resp := implResp,
                         post := implPost, answers := rec_.map (·.2), honest := dev == "-",
                         lookups := parseLk lk, clean := acc.clean && !taintNow, prev := acc.prev }
        let viol := monitors.filterMap (fun (pid, name, f) => if f tr then none else some s!"{seq} V {pid} {name}")
        let tag := s!"{branchOf acc.cur.st acc.cur.evm op}/{if implOk then "ok" else "rej"}/{devClass dev}{if later then "/later" else ""}"
        let l :=
          if comps.isEmpty then s!"{seq} A {tag}"
          else s!"{seq} D {tag} comps={",".intercalate comps} model={if m.ok then "ok" else "rej:" ++ m.rej} impl={implClass} " ++
               (if comps.contains "resp" then s!"modelResp={flat m.resp} implResp={flat implResp} " else "") ++
               (if comps.contains "bank" then bankDiff m.st.bank implPost.st.bank ++ " " else "") ++
               (if comps.contains "reg" then s!"modelReg={flat m.st.reg} implReg={flat implPost.st.reg} " else "") ++
               (if comps.contains "meta" then s!"modelMeta={flat m.st.dmeta} implMeta={flat implPost.st.dmeta} " else "") ++
               (if comps.contains "nonce" then s!"modelMn={m.st.mn} implMn={implPost.st.mn} " else "") ++
               (if comps.contains "token" then (match m.tok with | some t => tokDiff t implPost.evm | none => "") ++ " " else "") ++
               (if comps.contains "evm" then m.evmNote else "")
        { acc with cur := implPost, lk := lk, clean := acc.clean && !taint, prev := some (op, implOk, implResp, acc.cur, dev == "-"),
                   out := (acc.out.push l) ++ viol.toArray }
    | _ => { acc with out := acc.out.push "? E malformed" }
  else acc

def emptyEnv : Env := { modAddr := "", blocked := [], createAddr := [], erc20Denom := [] }

partial def loop (h : IO.FS.Stream) (o : IO.FS.Stream) (acc : Acc) : IO Unit := do
  let line ← h.getLine
  if line.isEmpty then return ()
  let acc := processLine acc ((line.dropEndWhile (· == '\n')).toString)
  for l in acc.out do o.putStrLn l
  loop h o { acc with out := #[] }

def main : IO Unit := do
  let i ← IO.getStdin
  let o ← IO.getStdout
  loop i o { env := emptyEnv, cfg := { modAddr := "", zero := "" }, cur := emptyWorld, lk := "", clean := true, prev := none, out := #[] }

end CV.Drv.Erc20
