import CantoVerif.Driver.Common
import CantoVerif.Spec.Epochs
/-!
# Driver for the `epochs` suite (C12, C13, C05): replays the harness trace on the model of
`Model/{Epochs,Inflation}.lean`, compares every transition with what the implementation did and
evaluates the predicates of `Spec/Epochs.lean` on the *implementation's* transitions.

Ghost state of the implementation side (`mints`, `skips`, `issued`, `hist`, `lastNow`) is derived
from what the implementation showed: record changes, the recorder's log, supply deltas.
-/
namespace CV.Drv.Epochs
open CV CV.Drv CV.Epochs CV.Inflation

def parseEnv (kv : KV) : Env :=
  { infl := kv.get "infl", feeCollector := kv.get "fc", distr := kv.get "distr", bondedPool := kv.get "bonded",
    bondDenom := unesc (kv.get "bond") }

def parseInfos (s : String) : List EpochInfo :=
  (listOf s).filterMap (fun e =>
    match e.splitOn ":" with
    | [id, st, du, cu, cs, sd, h] =>
      some { id := unesc id, start := intOf st, dur := intOf du, cur := intOf cu, curStart := intOf cs,
             started := sd == "1", height := intOf h }
    | _ => none)

def parseLog (s : String) : List Call :=
  (listOf s).filterMap (fun e =>
    match e.splitOn ":" with
    | ["E", id, n] => some (.afterEnd (unesc id) (intOf n))
    | ["B", id, n] => some (.beforeStart (unesc id) (intOf n))
    | _ => none)

def parseParamsIn (kv : KV) : ParamsIn :=
  { mintDenom := unesc (kv.get "md"), a := intOf (kv.get "a"), r := intOf (kv.get "r"), c := intOf (kv.get "c"),
    bondingTarget := intOf (kv.get "bt"), maxVariance := intOf (kv.get "mv"), stakingRewards := intOf (kv.get "sr"),
    communityPool := intOf (kv.get "cpr"), enable := kv.get "en" == "1" }

def applyParams (p : Params) (kv : KV) : Params :=
  let p := if kv.has "md" then { p with mintDenom := unesc (kv.get "md") } else p
  let p := if kv.has "a" then { p with a := natOf (kv.get "a") } else p
  let p := if kv.has "r" then { p with r := natOf (kv.get "r") } else p
  let p := if kv.has "c" then { p with c := natOf (kv.get "c") } else p
  let p := if kv.has "bt" then { p with bondingTarget := natOf (kv.get "bt") } else p
  let p := if kv.has "mv" then { p with maxVariance := natOf (kv.get "mv") } else p
  let p := if kv.has "sr" then { p with stakingRewards := natOf (kv.get "sr") } else p
  let p := if kv.has "cpr" then { p with communityPool := natOf (kv.get "cpr") } else p
  let p := if kv.has "en" then { p with enable := kv.get "en" == "1" } else p
  p

def emptyParams : Params :=
  { mintDenom := "", a := 0, r := 0, c := 0, bondingTarget := 0, maxVariance := 0, stakingRewards := 0, communityPool := 0, enable := false }

def emptyInfl : Infl :=
  { bank := emptyBank, pool := AMap.empty, params := emptyParams, period := 0, epochId := "", epp := 0, skipped := 0,
    provision := 0, mints := 0, skips := 0, issued := [] }

def emptyState : State := { infos := [], infl := emptyInfl, lastNow := 0, hist := [] }

/-- the non-ghost keys present in `kv`, applied on top of `s` -/
def applyMod (s : State) (kv : KV) : State :=
  let i := s.infl
  let i := { i with params := applyParams i.params kv }
  let i := if kv.has "period" then { i with period := natOf (kv.get "period") } else i
  let i := if kv.has "eid" then { i with epochId := unesc (kv.get "eid") } else i
  let i := if kv.has "epp" then { i with epp := natOf (kv.get "epp") } else i
  let i := if kv.has "skipped" then { i with skipped := natOf (kv.get "skipped") } else i
  let i := if kv.has "prov" then { i with provision := natOf (kv.get "prov") } else i
  let i := if kv.has "cp" then { i with pool := applySup i.pool (kv.get "cp") } else i
  let i := { i with bank := applyLedger i.bank kv }
  let s := { s with infl := i }
  if kv.has "infos" then { s with infos := parseInfos (kv.get "infos") } else s

def parseOp (kind : String) (kv : KV) : Option Op :=
  match kind with
  | "block" => some (.block (intOf (kv.get "t")) (intOf (kv.get "h")))
  | "send" => some (.send (kv.get "src") (kv.get "dst") (unesc (kv.get "d")) (natOf (kv.get "amt")))
  | "params" => some (.updateParams (kv.get "auth" == "1") (parseParamsIn kv))
  | "calc" => some (.sample (applyParams emptyParams kv) (natOf (kv.get "x")) (natOf (kv.get "epp")) (natOf (kv.get "b")))
  | _ => none

def parseResp (kind : String) (kv : KV) : Resp :=
  match kind with
  | "block" => .block (parseLog (kv.get "log"))
  | "calc" => .sample (natOf (kv.get "p")) (if kv.get "q" == "panic" then none else some (natOf (kv.get "q")))
  | _ => .none

def isNeg (s : String) : Bool := s.startsWith "-"

/-- the notifications implied by what happened to the records (used when no recorder was listening) -/
def inferredCalls (pre post : List EpochInfo) : List Call :=
  (pre.zip post).flatMap (fun p =>
    if !p.1.started && p.2.started then [.beforeStart p.1.id 1]
    else if p.1.started && p.2.cur == p.1.cur + 1 then [.afterEnd p.1.id p.2.cur, .beforeStart p.1.id p.2.cur]
    else [])

def tickedId (pre post : List EpochInfo) (id : String) : Bool :=
  (pre.zip post).any (fun p => p.1.id == id && p.1.started && p.2.cur == p.1.cur + 1)

/-- ghost components of the implementation's post-state, from what it showed -/
def implGhost (pre : State) (post : State) (op : Op) (ok : Bool) (log : List Call) : State :=
  match op, ok with
  | .block now _, true =>
    let en := pre.infl.params.enable
    let md := pre.infl.params.mintDenom
    let isMint := en && tickedId pre.infos post.infos pre.infl.epochId
    let isSkip := !en && tickedId pre.infos post.infos dayId
    { post with
      lastNow := now, hist := pre.hist ++ log,
      infl := { post.infl with
        mints := pre.infl.mints + (if isMint then 1 else 0),
        skips := pre.infl.skips + (if isSkip then 1 else 0),
        issued := if isMint then pre.infl.issued ++ [(md, post.infl.bank.supply md - pre.infl.bank.supply md)] else pre.infl.issued } }
  | _, _ => { post with lastNow := pre.lastNow, hist := pre.hist,
                        infl := { post.infl with mints := pre.infl.mints, skips := pre.infl.skips, issued := pre.infl.issued } }

def respEq (m i : Resp) (logKnown : Bool) : Bool :=
  match m, i with
  | .block a, .block b => !logKnown || a == b
  | a, b => a == b

def inflEq (a b : Infl) : Bool :=
  a.params == b.params && a.period == b.period && a.epochId == b.epochId && a.epp == b.epp && a.skipped == b.skipped &&
  a.provision == b.provision

def inflDiff (m i : Infl) : String :=
  s!"period={m.period}/{i.period} skipped={m.skipped}/{i.skipped} prov={m.provision}/{i.provision} " ++
  (if m.params == i.params then "" else s!"params={repr m.params}/{repr i.params}")

def poolDiff (m i : AMap Denom) : String :=
  ", ".intercalate ((m.diffKeys i).map (fun k => s!"{k} model={m.get k} impl={i.get k}"))

/-! ### coverage tags -/

def blockTag (env : Env) (s : State) (now : Int) : String :=
  let acts := s.infos.map (fun e => action e now)
  let a := (if acts.contains .start then "S" else "") ++ (if acts.contains .tick then "T" else "") ++
           (if acts.contains .idle then "I" else "")
  let tickIds := (s.infos.filter (fun e => action e now == .tick)).map (·.id)
  let i := s.infl
  let hook :=
    if !i.params.enable then (if tickIds.contains dayId then "skip" else "off")
    else if tickIds.contains i.epochId then
      (match s.infos.find? (fun e => e.id == i.epochId) with
       | some e => if periodPassed (e.cur + 1) i.epp i.period i.skipped then "mint+period" else "mint"
       | none => "mint")
    else "on"
  let prior := if hook.startsWith "mint" && !(heldDenoms i.bank env.infl).isEmpty then "+prior" else ""
  s!"block-{if a.isEmpty then "none" else a}-{hook}{prior}"

def blockSize (s : State) (now : Int) : String :=
  let n := (s.infos.filter (fun e => action e now != .idle)).length
  if n == 0 then "0act" else if n == 1 then "1act" else "2+act"

def decClass (v : Nat) : String :=
  if v == 0 then "0" else if v == 1 then "ulp" else if v < S18 then "frac" else if v == S18 then "1" else "big"

def opTag (env : Env) (s : State) : Op → String × String
  | .block now _ => (blockTag env s now, blockSize s now)
  | .send _ dst _ _ => ((if dst == env.bondedPool then "send-bond" else if dst == env.infl then "send-donate" else "send-other"), "-")
  | .updateParams auth p =>
    ((if !auth then "params-auth" else if !p.valid then "params-invalid"
      else if p.enable != s.infl.params.enable then "params-toggle" else "params-same-enable"), "-")
  | .sample p x _ b =>
    (s!"calc-r{decClass p.r}-{if p.maxVariance == 0 then "v0" else if p.bondingTarget ≤ b then "capped" else "below"}",
     if x == 0 then "x0" else if x < 64 then "x<64" else if x < 1024 then "x<1024" else "x>=1024")

structure Acc where
  env : Env
  cur : State
  out : Array String

def processLine (acc : Acc) (line : String) : Acc :=
  if line.startsWith "E " then
    { acc with env := parseEnv (kvOf ((line.drop 2).toString.splitOn " ")) }
  else if line.startsWith "S " then
    let kv := kvOf ((line.drop 2).toString.splitOn " ")
    let s := applyMod emptyState kv
    { acc with cur := { s with lastNow := intOf (kv.get "t"), hist := [],
                               infl := { s.infl with mints := natOf (kv.get "mints"), skips := 0, issued := [] } } }
  else if line.startsWith "G " then
    -- `G <seq> t=<now> h=<height> given=<records handed to epochs.InitGenesis> stored=<records read back>`
    match (line.drop 2).toString.splitOn " " with
    | seq :: rest =>
      let kv := kvOf rest
      let want := (Epochs.initGenesis (intOf (kv.get "t")) (intOf (kv.get "h")) (parseInfos (kv.get "given")))
      let got := parseInfos (kv.get "stored")
      -- the store lists records by identifier; several records with one identifier overwrite each other (last wins)
      let ok := got.all (fun g => (want.filter (fun w => w.id == g.id)).getLast? == some g) &&
                want.all (fun w => got.any (fun g => g.id == w.id))
      if ok then { acc with out := acc.out.push s!"{seq} A initgenesis/ok/-" }
      else { acc with out := (acc.out.push s!"{seq} D initgenesis/ok/- comps=infos model={repr want} impl={repr got}").push
                              s!"{seq} V C12 init_genesis_keeps_start" |>.push s!"{seq} V C18 init_genesis_keeps_start" }
    | _ => acc
  else if line.startsWith "O " then
    let (opToks, outToks, deltaToks) := splitOp line
    match opToks with
    | _ :: seq :: kind :: args =>
      let akv := kvOf args
      match parseOp kind akv with
      | none => { acc with out := acc.out.push s!"{seq} E unparsed-op" }
      | some op =>
        let implOk := outToks.head? == some "ok"
        let implClass := outToks.head?.getD "?"
        let rkv := kvOf outToks.tail
        let dkv := kvOf deltaToks
        let logKnown := kind != "block" || rkv.get "log" != "?"
        let implPost0 := applyMod acc.cur dkv
        let implResp0 := if implOk then parseResp kind rkv else .none
        let implResp := if kind == "block" && implOk && !logKnown then Resp.block (inferredCalls acc.cur.infos implPost0.infos) else implResp0
        let implLog := match implResp with | .block l => l | _ => []
        let implPost := implGhost acc.cur implPost0 op implOk implLog
        let negative := isNeg (rkv.get "p") || isNeg (rkv.get "q") || isNeg (dkv.get "prov")
        let mres := step acc.env acc.cur op
        -- `later=1`: a later message of the same transaction failed (class `rej:later` when this message itself had
        -- succeeded): the transaction's branch is discarded (`deliver`), nothing changed, whatever the handler did
        let later := akv.get "later" == "1"
        let handlerOk := match mres with | .ok _ => true | .error _ => false
        let (modelOk, modelResp, modelPost, modelRej) :=
          match mres with
          | .ok (s', r) => if later then (false, Resp.none, acc.cur, "later") else (true, r, s', "")
          | .error e => (false, Resp.none, acc.cur, rejName e)
        let comps : List String :=
          (if modelOk != implOk || (later && handlerOk != (implClass == "rej:later")) then ["outcome"] else []) ++
          (if modelOk && implOk && !respEq modelResp implResp logKnown then ["resp"] else []) ++
          (if modelPost.infos != implPost.infos then ["infos"] else []) ++
          (if !inflEq modelPost.infl implPost.infl then ["infl"] else []) ++
          (if !modelPost.infl.pool.eqv implPost.infl.pool then ["pool"] else []) ++
          (if !bankEq modelPost.infl.bank implPost.infl.bank then ["bank"] else []) ++
          (if modelOk && implOk && (modelPost.infl.mints != implPost.infl.mints || modelPost.infl.skips != implPost.infl.skips ||
              modelPost.infl.issued != implPost.infl.issued) then ["ghost"] else [])
        let tr : Spec.Tr := { env := acc.env, pre := acc.cur, op := op, ok := implOk, resp := implResp, post := implPost,
                              logKnown := logKnown, negative := negative }
        let viol := Spec.monitors.filterMap (fun (pid, name, f) => if f tr then none else some s!"{seq} V {pid} {name}")
        let (t1, t2) := opTag acc.env acc.cur op
        let tag := s!"{t1}/{if implOk then "ok" else "rej"}/{t2}{if later then "/later" else ""}"
        let l :=
          if comps.isEmpty then s!"{seq} A {tag}"
          else s!"{seq} D {tag} comps={",".intercalate comps} model={if modelOk then "ok" else "rej:" ++ modelRej} impl={implClass} " ++
               (if comps.contains "resp" then s!"modelResp={repr modelResp} implResp={repr implResp} " else "") ++
               (if comps.contains "infos" then s!"modelInfos={repr modelPost.infos} implInfos={repr implPost.infos} " else "") ++
               (if comps.contains "infl" then inflDiff modelPost.infl implPost.infl ++ " " else "") ++
               (if comps.contains "pool" then "pool[" ++ poolDiff modelPost.infl.pool implPost.infl.pool ++ "] " else "") ++
               (if comps.contains "bank" then bankDiff modelPost.infl.bank implPost.infl.bank else "")
        { acc with cur := implPost, out := (acc.out.push l) ++ viol.toArray }
    | _ => { acc with out := acc.out.push "? E malformed" }
  else acc

def emptyEnv : Env := { infl := "", feeCollector := "", distr := "", bondedPool := "", bondDenom := "" }

partial def loop (h : IO.FS.Stream) (o : IO.FS.Stream) (acc : Acc) : IO Unit := do
  let line ← h.getLine
  if line.isEmpty then return ()
  let acc := processLine acc ((line.dropEndWhile (· == '\n')).toString)
  for l in acc.out do o.putStrLn l
  loop h o { acc with out := #[] }

def main : IO Unit := do
  let i ← IO.getStdin
  let o ← IO.getStdout
  loop i o { env := emptyEnv, cur := emptyState, out := #[] }

end CV.Drv.Epochs
