import CantoVerif.Driver.Common
import CantoVerif.Spec.Params
/-!
# Driver for the `params` suite (C17): replays every privileged message of the trace on the model
from the implementation's own pre-state, compares verdict, branch and post-state, and evaluates
the C17 predicates on the implementation's transition.
-/
namespace CV.Drv.Params
open CV CV.Drv CV.Params

/-- inverse of the harness' `pSafe` -/
def unescP (s : String) : String :=
  if s == "%empty" then "" else
  ((((((((s.replace "%20" " ").replace "%2c" ",").replace "%3a" ":").replace "%3d" "=").replace "%7c" "|").replace "%0a" "\n").replace
    "%09" "\t").replace "%3b" ";").replace "%25" "%"

def numV (s : String) : Option Int := if s == "nil" then none else some (intOf s)
def optV (s : String) : Option Int := if s == "-" then none else some (intOf s)
def boolOf (s : String) : Bool := s == "1"

def coinsV (s : String) : List (String × IntV) :=
  (listOf s).filterMap (fun e =>
    match e.splitOn ":" with
    | [d, n] => some (unescP d, numV n)
    | _ => none)

def strsV (s : String) : List String := (listOf s).map unescP

/-- apply the keys present in `kv` (with prefix `pre`, e.g. "" or "b.") on top of a state -/
def applyState (s : State) (kv : KV) (pre : String := "") : State :=
  let has := fun k => kv.has (pre ++ k)
  let get := fun k => kv.get (pre ++ k)
  let cs := s.cs
  let cs := if has "cs.fee" then { cs with fee := numV (get "cs.fee") } else cs
  let cs := if has "cs.pfd" then { cs with pfDenom := unescP (get "cs.pfd") } else cs
  let cs := if has "cs.pfa" then { cs with pfAmt := numV (get "cs.pfa") } else cs
  let cs := if has "cs.tax" then { cs with tax := numV (get "cs.tax") } else cs
  let cs := if has "cs.maxstd" then { cs with maxStd := numV (get "cs.maxstd") } else cs
  let cs := if has "cs.ms" then { cs with maxSwap := coinsV (get "cs.ms") } else cs
  let erc := s.erc
  let erc := if has "erc.e20" then { erc with enableErc20 := boolOf (get "erc.e20") } else erc
  let erc := if has "erc.hook" then { erc with enableEvmHook := boolOf (get "erc.hook") } else erc
  let inf := s.inf
  let inf := if has "inf.md" then { inf with mintDenom := unescP (get "inf.md") } else inf
  let inf := if has "inf.a" then { inf with a := numV (get "inf.a") } else inf
  let inf := if has "inf.r" then { inf with r := numV (get "inf.r") } else inf
  let inf := if has "inf.c" then { inf with c := numV (get "inf.c") } else inf
  let inf := if has "inf.bt" then { inf with bt := numV (get "inf.bt") } else inf
  let inf := if has "inf.mv" then { inf with mv := numV (get "inf.mv") } else inf
  let inf := if has "inf.sr" then { inf with sr := numV (get "inf.sr") } else inf
  let inf := if has "inf.cp" then { inf with cp := numV (get "inf.cp") } else inf
  let inf := if has "inf.en" then { inf with enable := boolOf (get "inf.en") } else inf
  let csr := s.csr
  let csr := if has "csr.en" then { csr with enable := boolOf (get "csr.en") } else csr
  let csr := if has "csr.sh" then { csr with shares := numV (get "csr.sh") } else csr
  let onb := s.onb
  let onb := if has "onb.en" then { onb with enable := boolOf (get "onb.en") } else onb
  let onb := if has "onb.th" then { onb with threshold := numV (get "onb.th") } else onb
  let onb := if has "onb.ch" then { onb with channels := strsV (get "onb.ch") } else onb
  { s with cs := cs, erc := erc, inf := inf, csr := csr, onb := onb,
           pairs := if has "pairs" then natOf (get "pairs") else s.pairs,
           port := if has "port" then boolOf (get "port") else s.port,
           dg := if has "dg" then get "dg" else s.dg,
           dgx := if has "dgx" then get "dgx" else s.dgx }

def parseVal (s : String) : LVal :=
  match s.splitOn "~" with
  | ["dec", n] => .dec (intOf n)
  | ["int", n] => .int (intOf n)
  | ["bool", b] => .bool (boolOf b)
  | ["str", x] => .str (unescP x)
  | "strs" :: xs => .strs (xs.map unescP)
  | ["coin", d, a] => .coin (if d == "-" then none else some (unescP d)) (optV a)
  | "coins" :: xs =>
    let rec pairs : List String → List (String × Int)
      | d :: n :: rest => (unescP d, intOf n) :: pairs rest
      | _ => []
    .coins (pairs xs)
  | ["exp", a, r, c, bt, mv] => .exp (optV a) (optV r) (optV c) (optV bt) (optV mv)
  | ["dist", sr, cp] => .dist (optV sr) (optV cp)
  | _ => .bad

def parseChanges (s : String) : List Change :=
  (listOf s ";").filterMap (fun e =>
    match e.splitOn ":" with
    | [sub, key, v] => some { sub := unescP sub, key := unescP key, val := parseVal v }
    | _ => none)

def parseOp (kind : String) (kv : KV) : Option Op :=
  let auth := unescP (kv.get "auth")
  match kind with
  | "upd.cs" => some (.updCs auth { fee := numV (kv.get "fee"), pfDenom := unescP (kv.get "pfd"), pfAmt := numV (kv.get "pfa"),
                                       tax := numV (kv.get "tax"), maxStd := numV (kv.get "maxstd"), maxSwap := coinsV (kv.get "ms") })
  | "upd.erc" => some (.updErc auth { enableErc20 := boolOf (kv.get "e20"), enableEvmHook := boolOf (kv.get "hook") })
  | "upd.inf" => some (.updInf auth { mintDenom := unescP (kv.get "md"), a := numV (kv.get "a"), r := numV (kv.get "r"), c := numV (kv.get "c"),
                                        bt := numV (kv.get "bt"), mv := numV (kv.get "mv"), sr := numV (kv.get "sr"), cp := numV (kv.get "cp"),
                                        enable := boolOf (kv.get "en") })
  | "upd.csr" => some (.updCsr auth { enable := boolOf (kv.get "en"), shares := numV (kv.get "sh") })
  | "upd.onb" => some (.updOnb auth { enable := boolOf (kv.get "en"), threshold := numV (kv.get "th"), channels := strsV (kv.get "ch") })
  | "reg.coin" => some (.priv .registerCoin auth)
  | "reg.erc20" => some (.priv .registerERC20 auth)
  | "toggle" => some (.priv .toggleConversion auth)
  | "lend" => some (.priv .lendingMarket auth)
  | "treas" => some (.priv .treasury auth)
  | "legacy" => some (.legacy auth (parseChanges (kv.get "ch")))
  | _ => none

def isPriv : Op → Bool
  | .priv _ _ => true
  | _ => false

def noSpace (s : String) : String := (s.replace " " "_").replace "/" "_"

/-- why the model rejects (or `ok`), for the coverage tag -/
def reason (r : R Unit) : String :=
  match r with
  | .ok _ => "ok"
  | .error e => noSpace (rejName e)

def authClass (gov auth : String) : String :=
  if auth == gov then "gov"
  else if auth == "" then "empty"
  else if auth.toLower == gov then "upper"
  else if auth.startsWith "canto1" then "other-bech32"
  else "malformed"

def diffParams (a b : State) : String :=
  (if a.cs != b.cs then s!"cs[model={repr a.cs} impl={repr b.cs}] " else "") ++
  (if a.erc != b.erc then s!"erc[model={repr a.erc} impl={repr b.erc}] " else "") ++
  (if a.inf != b.inf then s!"inf[model={repr a.inf} impl={repr b.inf}] " else "") ++
  (if a.csr != b.csr then s!"csr[model={repr a.csr} impl={repr b.csr}] " else "") ++
  (if a.onb != b.onb then s!"onb[model={repr a.onb} impl={repr b.onb}] " else "")

structure Acc where
  gov : String
  cur : State
  out : Array String

def processLine (acc : Acc) (line : String) : Acc :=
  if line.startsWith "E " then
    { acc with gov := (kvOf ((line.drop 2).toString.splitOn " ")).get "gov" }
  else if line.startsWith "S " then
    { acc with cur := applyState defaults (kvOf ((line.drop 2).toString.splitOn " ")) }
  else if line.startsWith "O " then
    let (opToks, outToks, deltaToks) := splitOp line
    match opToks with
    | _ :: seq :: kind :: args =>
      match parseOp kind (kvOf args) with
      | none => { acc with out := acc.out.push s!"{seq} E unparsed-op" }
      | some op =>
        let implOk := outToks.head? == some "ok"
        let implClass := outToks.head?.getD "?"
        let okv := kvOf outToks.tail
        let implPost := applyState acc.cur (kvOf deltaToks)
        let implBranch := if implOk then implPost else applyState acc.cur okv "b."
        let bd := okv.get "bd" == "1"
        -- `later=1`: a later message of the same transaction failed; `hok=1`: this message's handler had succeeded.
        -- The transaction's branch is discarded (`deliver`): rejected, nothing changed, whatever the handler did.
        let later := (kvOf args).get "later" == "1"
        let hok := okv.get "hok" == "1"
        let x : Ext := { ok := if later then hok else implOk, pairs := implPost.pairs, port := implPost.port, dg := implPost.dg, dgx := implPost.dgx }
        let r := handle acc.gov x acc.cur op
        let modelOk := okB r.res && !later
        let modelPost := if later then acc.cur else exec acc.gov x acc.cur op
        -- a write the model makes must dirty the store; the converse is not demanded: re-writing a nil list as an empty one
        -- changes the stored bytes but not the parameters (the nil/empty normalisation) — wrong authorities are held to
        -- "store untouched" by the monitor `authority_first`, not by this comparison
        let branchDiff := !modelOk && !implOk &&
          (!Spec.sameParams r.st implBranch || (!(isPriv op && op.auth == acc.gov) && decide (r.st ≠ acc.cur) && !bd))
        let comps : List String :=
          (if modelOk != implOk || (later && okB r.res != hok) then ["outcome"] else []) ++
          (if !Spec.sameParams modelPost implPost then ["params"] else []) ++
          (if branchDiff then ["branch"] else []) ++
          (if modelPost.pairs != implPost.pairs || modelPost.port != implPost.port || modelPost.dgx != implPost.dgx ||
              (!implOk && modelPost.dg != implPost.dg) then ["store"] else [])
        let tr : Spec.Tr := { gov := acc.gov, pre := acc.cur, op := op, ok := implOk, bd := bd, branch := implBranch, post := implPost }
        let viol := Spec.monitors.filterMap (fun (pid, name, f) => if f tr then none else some s!"{seq} V {pid} {name}")
        let why := if op.auth == acc.gov then reason r.res else "auth-" ++ authClass acc.gov op.auth
        let tag := s!"{kind}/{if implOk then "ok" else "rej"}/{why}{if later then "/later" else ""}"
        let l :=
          if comps.isEmpty then s!"{seq} A {tag}"
          else s!"{seq} D {tag} comps={",".intercalate comps} model={if modelOk then "ok" else "rej:" ++ reason r.res} impl={implClass} " ++
               (if comps.contains "params" then "post: " ++ diffParams modelPost implPost else "") ++
               (if comps.contains "branch" then s!"branch: {diffParams r.st implBranch}bd={bd}" else "")
        { acc with cur := implPost, out := (acc.out.push l) ++ viol.toArray }
    | _ => { acc with out := acc.out.push "? E malformed" }
  else acc

partial def loop (h : IO.FS.Stream) (o : IO.FS.Stream) (acc : Acc) : IO Unit := do
  let line ← h.getLine
  if line.isEmpty then return ()
  let acc := processLine acc ((line.dropEndWhile (· == '\n')).toString)
  for l in acc.out do o.putStrLn l
  loop h o { acc with out := #[] }

def main : IO Unit := do
  let i ← IO.getStdin
  let o ← IO.getStdout
  loop i o { gov := "", cur := defaults, out := #[] }

end CV.Drv.Params
