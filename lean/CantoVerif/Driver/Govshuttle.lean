import CantoVerif.Model.Abi
import CantoVerif.Driver.Common
import CantoVerif.Spec.Govshuttle
/-!
# Driver for the `govshuttle` suite (C20).

Replays the harness trace on the model step by step: keeps the IMPLEMENTATION's observed state (port,
next gov id, module nonce, the `QueryProp` answer of every tracked id), runs the model's `step` from
it, compares outcome / port / nonce / next id / every answer / ledger, evaluates every monitor of
`Spec/Govshuttle.lean` on the implementation's transition, then adopts the implementation's post-state.

Token grammar (written by `harness/govshuttle_util.go`): a Go string is `seg+seg+…`, a segment is
either `<esc>` or `<n>*<esc>` (n repetitions), `<esc>` has every byte outside `[A-Za-z0-9_.-]` as `%xx`.
Lists are `<n>;item,item,…`.  A record is `id/title/desc/targets/values/signatures/calldatas`
(addresses and call data in hex).
-/
namespace CV.Drv.Govshuttle
open CV CV.Drv CV.Govshuttle

def hexNib (c : Char) : Nat :=
  if c ≥ '0' && c ≤ '9' then c.toNat - 48 else if c ≥ 'a' && c ≤ 'f' then c.toNat - 87
  else if c ≥ 'A' && c ≤ 'F' then c.toNat - 55 else 0

/-- percent-decoding into bytes -/
def unescB (s : String) : Bytes :=
  let rec go : List Char → Array Nat → Array Nat
    | '%' :: a :: b :: rest, acc => go rest (acc.push (16 * hexNib a + hexNib b))
    | c :: rest, acc => go rest (acc.push c.toNat)
    | [], acc => acc
  (go s.toList #[]).toList

def segB (seg : String) : Bytes :=
  match seg.splitOn "*" with
  | [n, p] => let pb := unescB p; (List.replicate (natOf n) pb).flatten
  | _ => unescB seg

/-- a Go string token -/
def strB (tok : String) : Bytes :=
  if tok.isEmpty then [] else ((tok.splitOn "+").map segB).flatten

/-- `<n>;a,b,c` -/
def listTok (tok : String) : List String :=
  match tok.splitOn ";" with
  | [n, rest] => if natOf n == 0 then [] else rest.splitOn ","
  | _ => []

def strListB (tok : String) : List Bytes := (listTok tok).map strB
def natList (tok : String) : List Nat := (listTok tok).map natOf
/-- hex text (possibly `n*pattern+rest`) of bytes printed by the harness with `hex.EncodeToString` -/
def hexB (tok : String) : Bytes := hex2Bytes (strB tok)

def parseRecord (tok : String) : Proposal :=
  match tok.splitOn "/" with
  | [i, t, d, tg, vs, sg, cd] =>
    { id := natOf i, title := strB t, desc := strB d, targets := (listTok tg).map hexB, values := natList vs,
      signatures := strListB sg, calldatas := (listTok cd).map hexB }
  | _ => { Proposal.empty with id := 999999999999, title := bytesOf "unparsed record" }

def parseEnv (kv : KV) : Env :=
  { authority := strB (kv.get "auth"), modAddr := hexB (kv.get "mod"),
    create := (listOf (kv.get "create")).filterMap (fun e =>
      match e.splitOn ":" with | [n, a] => some (natOf n, hexB a) | _ => none) }

def portOf (s : String) : Option Bytes := if s == "-" then none else some (hexB s)

/-- apply `port= next= nonce= q<id>=` (and, with prefix `pq`, the pre-answers of newly tracked ids) on top of `s` -/
def applyKV (s : State) (kv : KV) (qprefix : String) : State :=
  let s := if qprefix == "q" && kv.has "port" then { s with port := portOf (kv.get "port") } else s
  let s := if qprefix == "q" && kv.has "next" then { s with nextGovId := natOf (kv.get "next") } else s
  let s := if qprefix == "q" && kv.has "nonce" then { s with nonce := natOf (kv.get "nonce") } else s
  kv.foldl (fun s (k, v) =>
    if k.startsWith qprefix && (k.drop qprefix.length).toString.all Char.isDigit && k.length > qprefix.length then
      { s with store := sset s.store (natOf (k.drop qprefix.length).toString) (parseRecord v) }
    else s) s

/-- the record as a value of the contract ABI (`Proposal` tuple of `contracts/Port.sol`) -/
def abiOf (p : Proposal) : Abi.Val :=
  .tuple [.uint p.id, .str p.title, .str p.desc, .arr (p.targets.map Abi.Val.addr), .arr (p.values.map Abi.Val.uint),
          .arr (p.signatures.map Abi.Val.str), .arr (p.calldatas.map Abi.Val.bytes)]

partial def valBeq : Abi.Val → Abi.Val → Bool
  | .uint a, .uint b => a == b
  | .addr a, .addr b => a == b
  | .bytes a, .bytes b => a == b
  | .str a, .str b => a == b
  | .arr a, .arr b => a.length == b.length && (a.zip b).all (fun (x, y) => valBeq x y)
  | .tuple a, .tuple b => a.length == b.length && (a.zip b).all (fun (x, y) => valBeq x y)
  | _, _ => false

/-- `r<id>=<hex>`: the bytes the compiled contract returned for `QueryProp(id)` on the real EVM.  The Lean model of the
contract ABI (`Model/Abi.lean`, round trip proved in `Props/AbiRoundTrip.lean`) must (a) encode the observed record to exactly
these bytes and (b) decode these bytes to exactly the observed record.  Ids for which either fails. -/
def abiBadIds (post : State) (dkv : KV) : List Nat :=
  dkv.foldl (fun bad (k, v) =>
    if k.startsWith "r" && (k.drop 1).toString.all Char.isDigit && k.length > 1 then
      let id := natOf (k.drop 1).toString
      let raw := hexB v
      let val := abiOf (queryStore post.store id)
      let encOk := Abi.encodeTuple [(Abi.proposalTy, val)] == raw
      let decOk := match Abi.decodeTuple [Abi.proposalTy] raw with
        | some [v'] => valBeq v' val
        | _ => false
      if encOk && decOk then bad else bad ++ [id]
    else bad) []

def emptyState : State := { port := none, store := [], nextGovId := 0, nonce := 0 }
def emptyEnv : Env := { authority := [], modAddr := [], create := [] }

def parseOp (kind : String) (kv : KV) : Option Op :=
  let fail := kv.get "evmfail" == "1"
  match kind with
  | "lm" =>
    let md : Option Metadata := if kv.get "meta" == "1" then
        some { account := strListB (kv.get "acct"), propId := natOf (kv.get "id"), values := natList (kv.get "vals"),
               calldatas := strListB (kv.get "cds"), signatures := strListB (kv.get "sigs") } else none
    some (.lm { authority := strB (kv.get "auth"), title := strB (kv.get "title"), desc := strB (kv.get "desc"), metadata := md } fail)
  | "tr" =>
    let md : Option TMetadata := if kv.get "meta" == "1" then
        some { propId := natOf (kv.get "id"), recipient := strB (kv.get "rcpt"), amount := natOf (kv.get "amt"),
               denom := strB (kv.get "denom") } else none
    some (.treasury { authority := strB (kv.get "auth"), title := strB (kv.get "title"), desc := strB (kv.get "desc"), metadata := md } fail)
  | "setnext" => some (.setNextId (natOf (kv.get "n")))
  | "foreign" => some (.foreignAdd (natOf (kv.get "id")))
  | _ => none

def sumLen (l : List Bytes) : Nat := l.foldl (fun n b => n + b.length) 0

/-- bytes of text / call data the operation asks the EVM to store -/
def payload : Op → Nat
  | .lm m _ => m.title.length + m.desc.length +
      (match m.metadata with
       | some md => sumLen md.account + sumLen md.calldatas + sumLen md.signatures + 8 * md.values.length
       | none => 0)
  | .treasury m _ => m.title.length + m.desc.length +
      (match m.metadata with | some md => md.recipient.length + md.denom.length + 8 | none => 0)
  | _ => 0

/-- The model cannot predict gas.  The harness reports an EVM out-of-gas failure as `evmfail=1`; the driver believes
the report only for payloads of at least 8 kB (a small proposal that "runs out of gas" is a disagreement). -/
def gasThreshold : Nat := 8192

def withOracle : Op → Op
  | .lm m f => .lm m (f && decide (gasThreshold ≤ payload (.lm m f)))
  | .treasury m f => .treasury m (f && decide (gasThreshold ≤ payload (.treasury m f)))
  | op => op

def sizeClass (n : Nat) : String :=
  if n < 1024 then "small" else if n < gasThreshold then "mid" else "large"

def idClass (given : Nat) : String := if given == 0 then "id0" else if given < 4294967296 then "idx" else "idhuge"

def branchOf (env : Env) (s : State) (op : Op) (modelRes : R (State × Unit)) : String :=
  let okBranch (id : Nat) : String :=
    match s.port with
    | none => "deploy"
    | some _ => if queryStore s.store id == Proposal.empty then "new" else "overwrite"
  match op with
  | .lm m _ =>
    (match modelRes with
     | .ok _ =>
       (match m.metadata with
        | some md =>
          s!"lm-{okBranch (effId s md.propId)}-{idClass md.propId}"
        | none => "lm-?")
     | .error e =>
       if m.authority != env.authority then "lm-auth"
       else match e with
         | .invalid _ => "lm-len"
         | .panic _ => "lm-nilmeta"
         | .evm _ => "lm-gas"
         | _ => "lm-other")
  | .treasury m _ =>
    (match modelRes with
     | .ok _ =>
       (match m.metadata with
        | some md =>
          s!"tr-{okBranch (effId s md.propId)}-{idClass md.propId}"
        | none => "tr-?")
     | .error e =>
       if m.authority != env.authority then "tr-auth"
       else match e with
         | .invalid _ => "tr-denom"
         | .evm _ => "tr-gas"
         | _ => "tr-other")
  | .setNextId _ => "setnext"
  | .foreignAdd _ => "foreign"

def showProp (p : Option Proposal) : String :=
  match p with
  | none => "none"
  | some p => s!"(id={p.id} title={p.title.length}B desc={p.desc.length}B targets={p.targets} values={p.values} " ++
              s!"sigs={p.signatures.map (·.length)} cds={p.calldatas.map (·.length)})"

structure Acc where
  env : Env
  cur : State
  ids : List Nat
  out : Array String

def addIds (ids : List Nat) (s : String) : List Nat :=
  (listOf s).foldl (fun l x => let n := natOf x; if l.contains n then l else l ++ [n]) ids

def processLine (acc : Acc) (line : String) : Acc :=
  if line.startsWith "E " then
    { acc with env := parseEnv (kvOf ((line.drop 2).toString.splitOn " ")) }
  else if line.startsWith "S " then
    let kv := kvOf ((line.drop 2).toString.splitOn " ")
    { acc with cur := applyKV emptyState kv "q", ids := addIds [] (kv.get "ids") }
  else if line.startsWith "O " then
    let (opToks, outToks, deltaToks) := splitOp line
    match opToks with
    | _ :: seq :: kind :: args =>
      let kv := kvOf args
      match parseOp kind kv with
      | none => { acc with out := acc.out.push s!"{seq} E unparsed-op" }
      | some op0 =>
        -- newly tracked ids and what the store answered for them before the operation
        let ids := addIds acc.ids (kv.get "newids")
        let pre := applyKV acc.cur kv "pq"
        let op := withOracle op0
        let implOk := outToks.head? == some "ok"
        let implClass := outToks.head?.getD "?"
        let dkv := kvOf deltaToks
        let implPost := applyKV pre dkv "q"
        let bankChanged := !(dkv.get "b").isEmpty || !(dkv.get "s").isEmpty
        let newAccts := (listOf (dkv.get "accts")).map (fun a => hexB (a.drop 1).toString)
        let mres := step acc.env pre op
        -- `later=1`: a later message of the same transaction failed (class `rej:later` when this message's handler
        -- had succeeded): the transaction's branch is discarded, nothing changed, whatever the handler did
        let later := kv.get "later" == "1"
        let (modelOk, modelPost, modelRej) :=
          match mres with
          | .ok (s', _) => if later then (false, pre, "later") else (true, s', "")
          | .error e => (false, pre, rejName e)
        let handlerOk := match mres with | .ok _ => true | .error _ => false
        let modelAccts : List Bytes :=
          match pre.port, modelPost.port with
          | none, some a => [a]
          | _, _ => []
        let badIds := ids.filter (fun q => query modelPost q != query implPost q)
        let abiBad := abiBadIds implPost dkv
        let comps : List String :=
          (if modelOk != implOk || (later && handlerOk != (implClass == "rej:later")) then ["outcome"] else []) ++
          (if modelPost.port != implPost.port then ["port"] else []) ++
          (if modelPost.nonce != implPost.nonce then ["nonce"] else []) ++
          (if modelPost.nextGovId != implPost.nextGovId then ["next"] else []) ++
          (if !badIds.isEmpty then ["store"] else []) ++
          (if !abiBad.isEmpty then ["abi"] else []) ++
          (if bankChanged || newAccts != modelAccts then ["bank"] else [])
        let tr : Spec.Tr := { env := acc.env, pre := pre, op := op0, ok := implOk, post := implPost, ids := ids,
                              bankChanged := bankChanged, newAccts := newAccts }
        let viol := Spec.monitors.filterMap (fun (pid, name, f) => if f tr then none else some s!"{seq} V {pid} {name}")
        let br := branchOf acc.env pre op mres
        let sz := if modelOk || br.endsWith "-gas" then sizeClass (payload op) else "-"
        let tag := s!"{br}/{if implOk then "ok" else "rej"}/{sz}{if later then "/later" else ""}"
        let l :=
          if comps.isEmpty then s!"{seq} A {tag}"
          else s!"{seq} D {tag} comps={",".intercalate comps} model={if modelOk then "ok" else "rej:" ++ modelRej} impl={implClass} " ++
               s!"port(model={repr modelPost.port} impl={repr implPost.port}) nonce(model={modelPost.nonce} impl={implPost.nonce}) " ++
               " ".intercalate (badIds.map (fun q => s!"q{q}(model={showProp (query modelPost q)} impl={showProp (query implPost q)})")) ++
               (if abiBad.isEmpty then "" else s!" abi-mismatch-ids={abiBad}")
        { acc with cur := implPost, ids := ids, out := (acc.out.push l) ++ viol.toArray }
    | _ => { acc with out := acc.out.push "? E malformed" }
  else acc

partial def loop (h : IO.FS.Stream) (o : IO.FS.Stream) (acc : Acc) : IO Unit := do
  let line ← h.getLine
  if line.isEmpty then return ()
  let acc := processLine acc ((line.dropEndWhile (· == '\n')).toString)
  for l in acc.out do o.putStrLn l
  loop h o { acc with out := #[] }

def main : IO Unit := do
  let i ← IO.getStdin
  let o ← IO.getStdout
  loop i o { env := emptyEnv, cur := emptyState, ids := [], out := #[] }

end CV.Drv.Govshuttle
