import CantoVerif.Base.Core
import CantoVerif.Base.AMap
import CantoVerif.Base.Bank
/-!
# Line-protocol helpers shared by the suite drivers (core Lean only).
-/
namespace CV.Drv

def unesc (s : String) : String :=
  if s == "%empty" then "" else
  (((s.replace "%20" " ").replace "%2c" ",").replace "%3a" ":").replace "%3d" "="

/-- split `k=v` at the first `=` -/
def splitKV (tok : String) : String × String :=
  match tok.splitOn "=" with
  | [] => ("", "")
  | [k] => (k, "")
  | k :: rest => (k, "=".intercalate rest)

/-- comma separated list; the empty string is the empty list -/
def listOf (s : String) (sep : String := ",") : List String :=
  if s.isEmpty then [] else s.splitOn sep

def natOf (s : String) : Nat := s.toNat?.getD 0
def intOf (s : String) : Int := s.toInt?.getD 0

abbrev KV := List (String × String)

def kvOf (toks : List String) : KV := toks.map splitKV
def KV.get (kv : KV) (k : String) : String :=
  match kv.find? (fun p => p.1 == k) with
  | some p => p.2
  | none => ""
def KV.has (kv : KV) (k : String) : Bool := kv.any (fun p => p.1 == k)

/-- `b=<a>:<d>:<n>,...` entries applied on top of a balance map -/
def applyBal (m : AMap (Addr × Denom)) (s : String) : AMap (Addr × Denom) :=
  (listOf s).foldl (fun m e =>
    match e.splitOn ":" with
    | [a, d, n] => m.set (a, unesc d) (natOf n)
    | _ => m) m

def applySup (m : AMap Denom) (s : String) : AMap Denom :=
  (listOf s).foldl (fun m e =>
    match e.splitOn ":" with
    | [d, n] => m.set (unesc d) (natOf n)
    | _ => m) m

def applyLedger (b : Bank) (kv : KV) : Bank :=
  { bal := applyBal b.bal (kv.get "b"), sup := applySup b.sup (kv.get "s"),
    accts := (listOf (kv.get "accts")).foldl (fun l a => if l.contains a then l else l ++ [a]) b.accts }

def emptyBank : Bank := { bal := AMap.empty, sup := AMap.empty, accts := [] }

def bankEq (a b : Bank) : Bool :=
  a.bal.eqv b.bal && a.sup.eqv b.sup &&
  a.accts.all (fun x => b.accts.contains x) && b.accts.all (fun x => a.accts.contains x)

def bankDiff (a b : Bank) : String :=
  let ks := a.bal.diffKeys b.bal
  let ss := a.sup.diffKeys b.sup
  let accA := a.accts.filter (fun x => !b.accts.contains x)
  let accB := b.accts.filter (fun x => !a.accts.contains x)
  s!"bal[{", ".intercalate (ks.map (fun k => s!"{k.1}:{k.2} model={a.bal.get k} impl={b.bal.get k}"))}] " ++
  s!"sup[{", ".intercalate (ss.map (fun k => s!"{k} model={a.sup.get k} impl={b.sup.get k}"))}] " ++
  s!"accts[model-only={accA} impl-only={accB}]"

def rejName : Rej → String
  | .overflow => "overflow" | .divZero => "divZero" | .negative => "negative"
  | .invalid w => s!"invalid({w})" | .insufficient => "insufficient" | .notFound w => s!"notFound({w})"
  | .constraint w => s!"constraint({w})" | .unauthorized => "unauthorized" | .expired => "expired"
  | .disabled => "disabled" | .exists_ w => s!"exists({w})" | .evm w => s!"evm({w})" | .panic w => s!"panic({w})"

/-- split an `O` line at ` => ` and ` | ` : (opTokens, outcomeTokens, deltaTokens) -/
def splitOp (line : String) : List String × List String × List String :=
  match line.splitOn " => " with
  | [l, r] =>
    match r.splitOn " | " with
    | [o, d] => (l.splitOn " " |>.filter (· ≠ ""), o.splitOn " " |>.filter (· ≠ ""), d.splitOn " " |>.filter (· ≠ ""))
    | [o] => (l.splitOn " " |>.filter (· ≠ ""), o.splitOn " " |>.filter (· ≠ ""), [])
    | _ => ([], [], [])
  | _ => ([], [], [])

end CV.Drv
