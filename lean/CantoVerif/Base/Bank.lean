import CantoVerif.Base.Core
import CantoVerif.Base.AMap
/-!
# x/bank as the Canto modules use it.

Balances and supplies are finite maps with default 0; an account exists once it is in `accts`
(`SendCoins` creates the recipient account).  Every keeper call the Canto modules make
(`SendCoins`, `SendCoinsFromModuleToAccount`, `SendCoinsFromAccountToModule`,
`SendCoinsFromModuleToModule`, `MintCoins`, `BurnCoins`) is a sequence of *effects*
`Eff`, applied in order by `Bank.applyAll`; the first effect that cannot be applied
(insufficient funds, 256-bit overflow) rejects the whole sequence.

The one generic theorem of this file, `applyAll_flow`, says that a successfully applied effect
list changes every balance and every supply by exactly the list's inflow/outflow — this is what
conservation, frame and supply statements of the property files are derived from.
-/
namespace CV

abbrev Addr := String
abbrev Denom := String
abbrev Coins := List (Denom × Nat)

structure Bank where
  bal : AMap (Addr × Denom)
  sup : AMap Denom
  accts : List Addr
deriving Repr

inductive Eff where
  | xfer (src dst : Addr) (d : Denom) (amt : Nat)
  | mint (mod : Addr) (d : Denom) (amt : Nat)
  | burn (mod : Addr) (d : Denom) (amt : Nat)
deriving Repr, DecidableEq

namespace Bank

def get (b : Bank) (a : Addr) (d : Denom) : Nat := b.bal.get (a, d)
def supply (b : Bank) (d : Denom) : Nat := b.sup.get d
def hasAcct (b : Bank) (a : Addr) : Bool := b.accts.contains a
def touch (b : Bank) (a : Addr) : Bank := if b.accts.contains a then b else { b with accts := b.accts ++ [a] }

def setBal (b : Bank) (a : Addr) (d : Denom) (v : Nat) : Bank := { b with bal := b.bal.set (a, d) v }
def setSup (b : Bank) (d : Denom) (v : Nat) : Bank := { b with sup := b.sup.set d v }

@[simp] theorem get_setBal (b : Bank) (a a' : Addr) (d d' : Denom) (v : Nat) :
    (b.setBal a d v).get a' d' = if a' = a ∧ d' = d then v else b.get a' d' := by
  simp [get, setBal, AMap.get_set, Prod.mk.injEq]
@[simp] theorem supply_setBal (b : Bank) (a : Addr) (d d' : Denom) (v : Nat) :
    (b.setBal a d v).supply d' = b.supply d' := rfl
@[simp] theorem get_setSup (b : Bank) (a : Addr) (d d' : Denom) (v : Nat) :
    (b.setSup d v).get a d' = b.get a d' := rfl
@[simp] theorem supply_setSup (b : Bank) (d d' : Denom) (v : Nat) :
    (b.setSup d v).supply d' = if d' = d then v else b.supply d' := by
  simp [supply, setSup, AMap.get_set]
@[simp] theorem get_touch (b : Bank) (x a : Addr) (d : Denom) : (b.touch x).get a d = b.get a d := by
  unfold touch; split <;> rfl
@[simp] theorem supply_touch (b : Bank) (x : Addr) (d : Denom) : (b.touch x).supply d = b.supply d := by
  unfold touch; split <;> rfl

/-- one effect -/
def apply1 (b : Bank) : Eff → R Bank
  | .xfer src dst d amt =>
    if b.get src d < amt then .error .insufficient
    else
      let b1 := b.setBal src d (b.get src d - amt)
      if b1.get dst d + amt < intBound then .ok ((b1.setBal dst d (b1.get dst d + amt)).touch dst)
      else .error .overflow
  | .mint m d amt =>
    if b.supply d + amt < intBound ∧ b.get m d + amt < intBound then
      .ok ((b.setSup d (b.supply d + amt)).setBal m d (b.get m d + amt))
    else .error .overflow
  | .burn m d amt =>
    if b.get m d < amt then .error .insufficient
    else if b.supply d < amt then .error .negative
    else .ok ((b.setBal m d (b.get m d - amt)).setSup d (b.supply d - amt))

def applyAll (b : Bank) : List Eff → R Bank
  | [] => .ok b
  | e :: es => match b.apply1 e with
    | .ok b1 => applyAll b1 es
    | .error r => .error r

end Bank

namespace Eff
/-- coins credited to `(a, d)` by one effect -/
def inflow (a : Addr) (d : Denom) : Eff → Nat
  | .xfer _ dst d' amt => if a = dst ∧ d = d' then amt else 0
  | .mint m d' amt => if a = m ∧ d = d' then amt else 0
  | .burn _ _ _ => 0
/-- coins debited from `(a, d)` by one effect -/
def outflow (a : Addr) (d : Denom) : Eff → Nat
  | .xfer src _ d' amt => if a = src ∧ d = d' then amt else 0
  | .mint _ _ _ => 0
  | .burn m d' amt => if a = m ∧ d = d' then amt else 0
def minted (d : Denom) : Eff → Nat
  | .mint _ d' amt => if d = d' then amt else 0
  | _ => 0
def burned (d : Denom) : Eff → Nat
  | .burn _ d' amt => if d = d' then amt else 0
  | _ => 0
end Eff

def sumBy {α : Type} (f : α → Nat) : List α → Nat
  | [] => 0
  | x :: xs => f x + sumBy f xs

@[simp] theorem sumBy_nil {α : Type} (f : α → Nat) : sumBy f [] = 0 := rfl
@[simp] theorem sumBy_cons {α : Type} (f : α → Nat) (x : α) (xs : List α) :
    sumBy f (x :: xs) = f x + sumBy f xs := rfl
theorem sumBy_append {α : Type} (f : α → Nat) (xs ys : List α) :
    sumBy f (xs ++ ys) = sumBy f xs + sumBy f ys := by
  induction xs with
  | nil => simp
  | cons x xs ih => simp [ih, Nat.add_assoc]

def inflow (es : List Eff) (a : Addr) (d : Denom) : Nat := sumBy (Eff.inflow a d) es
def outflow (es : List Eff) (a : Addr) (d : Denom) : Nat := sumBy (Eff.outflow a d) es
def minted (es : List Eff) (d : Denom) : Nat := sumBy (Eff.minted d) es
def burned (es : List Eff) (d : Denom) : Nat := sumBy (Eff.burned d) es

namespace Bank

theorem apply1_flow (b b' : Bank) (e : Eff) (h : b.apply1 e = .ok b') (a : Addr) (d : Denom) :
    b'.get a d + e.outflow a d = b.get a d + e.inflow a d ∧
    b'.supply d + e.burned d = b.supply d + e.minted d := by
  cases e with
  | xfer src dst d' amt =>
    simp only [apply1] at h
    split at h
    · cases h
    · rename_i hge
      split at h
      · rename_i hov
        injection h with h; subst h
        refine ⟨?_, by simp [Eff.minted, Eff.burned]⟩
        simp only [Eff.inflow, Eff.outflow, get_touch, get_setBal]
        by_cases h1 : a = dst ∧ d = d'
        · obtain ⟨rfl, rfl⟩ := h1
          by_cases h2 : a = src
          · subst h2; simp; omega
          · simp [h2]
        · by_cases h2 : a = src ∧ d = d'
          · obtain ⟨rfl, rfl⟩ := h2
            simp at h1
            simp [h1]; omega
          · simp [h1, h2]
      · cases h
  | mint m d' amt =>
    simp only [apply1] at h
    split at h
    · injection h with h; subst h
      simp only [Eff.inflow, Eff.outflow, Eff.minted, Eff.burned, get_setBal, supply_setBal,
        get_setSup, supply_setSup]
      constructor
      · by_cases h1 : a = m ∧ d = d'
        · obtain ⟨rfl, rfl⟩ := h1; simp
        · simp [h1]
      · by_cases h1 : d = d'
        · subst h1; simp
        · simp [h1]
    · cases h
  | burn m d' amt =>
    simp only [apply1] at h
    split at h
    · cases h
    · split at h
      · cases h
      · injection h with h; subst h
        simp only [Eff.inflow, Eff.outflow, Eff.minted, Eff.burned, get_setBal, supply_setBal,
          get_setSup, supply_setSup]
        constructor
        · by_cases h1 : a = m ∧ d = d'
          · obtain ⟨rfl, rfl⟩ := h1; simp; omega
          · simp [h1]
        · by_cases h1 : d = d'
          · subst h1; simp; omega
          · simp [h1]

/-- **Flow theorem.** A successfully applied effect list changes every balance and every supply by
exactly its net flow. -/
theorem applyAll_flow (es : List Eff) : ∀ (b b' : Bank), b.applyAll es = .ok b' → ∀ (a : Addr) (d : Denom),
    b'.get a d + outflow es a d = b.get a d + inflow es a d ∧
    b'.supply d + burned es d = b.supply d + minted es d := by
  induction es with
  | nil =>
    intro b b' h a d
    simp only [applyAll] at h; injection h with h; subst h
    simp [outflow, inflow, burned, minted]
  | cons e es ih =>
    intro b b' h a d
    simp only [applyAll] at h
    split at h
    · rename_i b1 h1
      have s1 := apply1_flow b b1 e h1 a d
      have s2 := ih b1 b' h a d
      simp only [outflow, inflow, burned, minted, sumBy_cons] at *
      omega
    · cases h

theorem applyAll_append (es fs : List Eff) : ∀ (b : Bank),
    b.applyAll (es ++ fs) = (match b.applyAll es with | .ok b1 => b1.applyAll fs | .error r => .error r) := by
  induction es with
  | nil => intro b; simp [applyAll]
  | cons e es ih =>
    intro b
    simp only [List.cons_append, applyAll]
    split
    · exact ih _
    · rfl

/-- accounts only ever get added -/
theorem apply1_accts (b b' : Bank) (e : Eff) (h : b.apply1 e = .ok b') (x : Addr)
    (hx : b.hasAcct x = true) : b'.hasAcct x = true := by
  cases e with
  | xfer src dst d amt =>
    simp only [apply1] at h
    split at h
    · cases h
    · split at h
      · injection h with h; subst h
        simp only [hasAcct, touch, setBal] at *
        by_cases hc : b.accts.contains dst = true
        · simp only [hc, if_true]; exact hx
        · simp only [hc]; simp at hx ⊢; exact Or.inl hx
      · cases h
  | mint m d amt =>
    simp only [apply1] at h
    split at h
    · injection h with h; subst h; exact hx
    · cases h
  | burn m d amt =>
    simp only [apply1] at h
    split at h
    · cases h
    · split at h
      · cases h
      · injection h with h; subst h; exact hx

theorem applyAll_accts (es : List Eff) : ∀ (b b' : Bank), b.applyAll es = .ok b' → ∀ x,
    b.hasAcct x = true → b'.hasAcct x = true := by
  induction es with
  | nil => intro b b' h x hx; simp only [applyAll] at h; injection h with h; subst h; exact hx
  | cons e es ih =>
    intro b b' h x hx
    simp only [applyAll] at h
    split at h
    · rename_i b1 h1
      exact ih b1 b' h x (apply1_accts b b1 e h1 x hx)
    · cases h

end Bank

/-! ### consequences of the flow theorem used by the property files -/

/-- an effect list that only moves coins among the accounts of `A` -/
def Eff.within (A : List Addr) : Eff → Bool
  | .xfer src dst _ _ => A.contains src && A.contains dst
  | .mint _ _ _ => false
  | .burn _ _ _ => false

theorem inflow_zero_of_not_mem (es : List Eff) (A : List Addr) (hw : es.all (Eff.within A) = true)
    (a : Addr) (ha : A.contains a = false) (d : Denom) : inflow es a d = 0 ∧ outflow es a d = 0 := by
  induction es with
  | nil => simp [inflow, outflow]
  | cons e es ih =>
    simp only [List.all_cons, Bool.and_eq_true] at hw
    obtain ⟨h1, h2⟩ := ih hw.2
    simp only [inflow, outflow, sumBy_cons] at *
    rw [h1, h2]
    cases e with
    | xfer src dst d' amt =>
      simp only [Eff.within, Bool.and_eq_true] at hw
      have hs : a ≠ src := by intro e; subst e; rw [hw.1.1] at ha; cases ha
      have hd : a ≠ dst := by intro e; subst e; rw [hw.1.2] at ha; cases ha
      simp [Eff.inflow, Eff.outflow, hs, hd]
    | mint m d' amt => simp [Eff.within] at hw
    | burn m d' amt => simp [Eff.within] at hw

theorem sumBy_indicator (A : List Addr) (hA : A.Nodup) (x : Addr) (hx : x ∈ A) (c : Nat) (p : Prop) [Decidable p] :
    sumBy (fun a => if a = x ∧ p then c else 0) A = if p then c else 0 := by
  induction A with
  | nil => cases hx
  | cons y ys ih =>
    simp only [sumBy_cons]
    have hnd := List.nodup_cons.mp hA
    by_cases hyx : y = x
    · subst hyx
      have : sumBy (fun a => if a = y ∧ p then c else 0) ys = 0 := by
        clear ih hx hA
        induction ys with
        | nil => rfl
        | cons z zs ihz =>
          simp only [sumBy_cons]
          have hz : z ≠ y := by
            intro e; subst e; exact hnd.1 (List.mem_cons_self ..)
          have hnd' : ¬ y ∈ zs ∧ zs.Nodup := by
            refine ⟨fun hm => hnd.1 (List.mem_cons_of_mem _ hm), ?_⟩
            exact (List.nodup_cons.mp hnd.2).2
          rw [ihz hnd']; simp [hz]
      rw [this]; simp
    · have hx' : x ∈ ys := by
        cases hx with
        | head => exact absurd rfl hyx
        | tail _ h => exact h
      rw [ih hnd.2 hx']; simp [hyx]

/-! ### effects that cannot lower a balance / raise a supply -/

def Eff.debits (e : Addr) : Eff → Bool
  | .xfer src _ _ _ => src == e
  | .mint _ _ _ => false
  | .burn m _ _ => m == e
def Eff.mints (d : Denom) : Eff → Bool
  | .mint _ d' _ => d' == d
  | _ => false
def Eff.burns (d : Denom) : Eff → Bool
  | .burn _ d' _ => d' == d
  | _ => false

theorem outflow_zero_of_no_debit (es : List Eff) (e : Addr) (h : es.all (fun x => !x.debits e) = true) (d : Denom) :
    outflow es e d = 0 := by
  induction es with
  | nil => rfl
  | cons x xs ih =>
    simp only [List.all_cons, Bool.and_eq_true] at h
    simp only [outflow, sumBy_cons] at *
    rw [ih h.2]
    cases x with
    | xfer src dst d' amt =>
      have : e ≠ src := by
        intro he; subst he; simp [Eff.debits] at h
      simp [Eff.outflow, this]
    | mint m d' amt => simp [Eff.outflow]
    | burn m d' amt =>
      have : e ≠ m := by
        intro he; subst he; simp [Eff.debits] at h
      simp [Eff.outflow, this]

theorem minted_zero_of_no_mint (es : List Eff) (d : Denom) (h : es.all (fun x => !x.mints d) = true) :
    minted es d = 0 := by
  induction es with
  | nil => rfl
  | cons x xs ih =>
    simp only [List.all_cons, Bool.and_eq_true] at h
    simp only [minted, sumBy_cons] at *
    rw [ih h.2]
    cases x with
    | xfer src dst d' amt => simp [Eff.minted]
    | mint m d' amt =>
      have : d ≠ d' := by
        intro he; subst he; simp [Eff.mints] at h
      simp [Eff.minted, this]
    | burn m d' amt => simp [Eff.minted]

theorem burned_zero_of_no_burn (es : List Eff) (d : Denom) (h : es.all (fun x => !x.burns d) = true) :
    burned es d = 0 := by
  induction es with
  | nil => rfl
  | cons x xs ih =>
    simp only [List.all_cons, Bool.and_eq_true] at h
    simp only [burned, sumBy_cons] at *
    rw [ih h.2]
    cases x with
    | xfer src dst d' amt => simp [Eff.burned]
    | mint m d' amt => simp [Eff.burned]
    | burn m d' amt =>
      have : d ≠ d' := by
        intro he; subst he; simp [Eff.burns] at h
      simp [Eff.burned, this]

/-- an account that no effect debits does not lose anything -/
theorem no_debit_mono (b b' : Bank) (es : List Eff) (e : Addr) (h : b.applyAll es = .ok b')
    (hn : es.all (fun x => !x.debits e) = true) (d : Denom) : b.get e d ≤ b'.get e d := by
  have f := (Bank.applyAll_flow es b b' h e d).1
  rw [outflow_zero_of_no_debit es e hn d] at f
  omega

/-- a denomination nobody mints does not grow in supply -/
theorem no_mint_supply_le (b b' : Bank) (es : List Eff) (d : Denom) (h : b.applyAll es = .ok b')
    (hn : es.all (fun x => !x.mints d) = true) : b'.supply d ≤ b.supply d := by
  have f := (Bank.applyAll_flow es b b' h "" d).2
  rw [minted_zero_of_no_mint es d hn] at f
  omega

theorem no_mint_burn_supply_eq (b b' : Bank) (es : List Eff) (d : Denom) (h : b.applyAll es = .ok b')
    (hm : es.all (fun x => !x.mints d) = true) (hb : es.all (fun x => !x.burns d) = true) :
    b'.supply d = b.supply d := by
  have f := (Bank.applyAll_flow es b b' h "" d).2
  rw [minted_zero_of_no_mint es d hm, burned_zero_of_no_burn es d hb] at f
  omega


theorem sumBy_add {α : Type} (f g : α → Nat) (xs : List α) :
    sumBy (fun x => f x + g x) xs = sumBy f xs + sumBy g xs := by
  induction xs with
  | nil => rfl
  | cons x xs ih => simp only [sumBy_cons, ih]; omega

theorem sumBy_congr {α : Type} (f g : α → Nat) (xs : List α) (h : ∀ x, f x = g x) :
    sumBy f xs = sumBy g xs := by
  induction xs with
  | nil => rfl
  | cons x xs ih => simp only [sumBy_cons, ih, h]

theorem flows_balance_within (es : List Eff) (A : List Addr) (hA : A.Nodup)
    (hw : es.all (Eff.within A) = true) (d : Denom) :
    sumBy (fun a => inflow es a d) A = sumBy (fun a => outflow es a d) A := by
  induction es with
  | nil => simp [inflow, outflow]
  | cons e es ih =>
    simp only [List.all_cons, Bool.and_eq_true] at hw
    have ih' := ih hw.2
    simp only [inflow, outflow, sumBy_cons] at *
    rw [sumBy_add, sumBy_add, ih']
    cases e with
    | xfer src dst d' amt =>
      simp only [Eff.within, Bool.and_eq_true, List.contains_iff_mem] at hw
      have h1 := sumBy_indicator A hA dst hw.1.2 amt (d = d')
      have h2 := sumBy_indicator A hA src hw.1.1 amt (d = d')
      simp only [Eff.inflow, Eff.outflow]
      rw [h1, h2]
    | mint m d' amt => simp [Eff.within] at hw
    | burn m d' amt => simp [Eff.within] at hw

/-- total of a denomination over a list of accounts -/
def totalOver (b : Bank) (A : List Addr) (d : Denom) : Nat := sumBy (fun a => b.get a d) A

/-! ### group flow: what a set of accounts gains and loses together -/

/-- coins of `d` that effect `e` brings into the group `A` -/
def Eff.inTo (A : List Addr) (d : Denom) : Eff → Nat
  | .xfer _ dst d' amt => if A.contains dst ∧ d = d' then amt else 0
  | .mint m d' amt => if A.contains m ∧ d = d' then amt else 0
  | .burn _ _ _ => 0
/-- coins of `d` that effect `e` takes out of accounts of the group `A` -/
def Eff.outFrom (A : List Addr) (d : Denom) : Eff → Nat
  | .xfer src _ d' amt => if A.contains src ∧ d = d' then amt else 0
  | .mint _ _ _ => 0
  | .burn m d' amt => if A.contains m ∧ d = d' then amt else 0

theorem sumBy_indicator' (A : List Addr) (hA : A.Nodup) (x : Addr) (c : Nat) (p : Prop) [Decidable p] :
    sumBy (fun a => if a = x ∧ p then c else 0) A = if A.contains x ∧ p then c else 0 := by
  by_cases hx : x ∈ A
  · rw [sumBy_indicator A hA x hx c p]
    simp [hx]
  · have hz : sumBy (fun a => if a = x ∧ p then c else 0) A = 0 := by
      clear hA
      induction A with
      | nil => rfl
      | cons y ys ih =>
        simp only [sumBy_cons]
        have hy : y ≠ x := fun e => hx (e ▸ List.mem_cons_self ..)
        have hx' : ¬ x ∈ ys := fun h => hx (List.mem_cons_of_mem _ h)
        rw [ih hx']; simp [hy]
    rw [hz]; simp [hx]

theorem sumBy_zero {α : Type} (xs : List α) : sumBy (fun _ => 0) xs = 0 := by
  induction xs with
  | nil => rfl
  | cons x xs ih => simp [ih]

theorem group_inflow (A : List Addr) (hA : A.Nodup) (d : Denom) (e : Eff) :
    sumBy (fun a => e.inflow a d) A = e.inTo A d := by
  cases e with
  | xfer src dst d' amt => exact sumBy_indicator' A hA dst amt (d = d')
  | mint m d' amt => exact sumBy_indicator' A hA m amt (d = d')
  | burn m d' amt => exact sumBy_zero A

theorem group_outflow (A : List Addr) (hA : A.Nodup) (d : Denom) (e : Eff) :
    sumBy (fun a => e.outflow a d) A = e.outFrom A d := by
  cases e with
  | xfer src dst d' amt => exact sumBy_indicator' A hA src amt (d = d')
  | mint m d' amt => exact sumBy_zero A
  | burn m d' amt => exact sumBy_indicator' A hA m amt (d = d')

theorem group_inflow_list (A : List Addr) (hA : A.Nodup) (d : Denom) (es : List Eff) :
    sumBy (fun a => inflow es a d) A = sumBy (Eff.inTo A d) es := by
  induction es with
  | nil => simp [inflow, sumBy_zero]
  | cons e es ih =>
    simp only [inflow, sumBy_cons] at *
    rw [sumBy_add, ih, group_inflow A hA d e]

theorem group_outflow_list (A : List Addr) (hA : A.Nodup) (d : Denom) (es : List Eff) :
    sumBy (fun a => outflow es a d) A = sumBy (Eff.outFrom A d) es := by
  induction es with
  | nil => simp [outflow, sumBy_zero]
  | cons e es ih =>
    simp only [outflow, sumBy_cons] at *
    rw [sumBy_add, ih, group_outflow A hA d e]

/-- **Group flow theorem.** The total a duplicate-free group of accounts holds changes by exactly
what the effect list brings in and takes out. -/
theorem group_flow (b b' : Bank) (es : List Eff) (A : List Addr) (hA : A.Nodup) (h : b.applyAll es = .ok b')
    (d : Denom) :
    totalOver b' A d + sumBy (Eff.outFrom A d) es = totalOver b A d + sumBy (Eff.inTo A d) es := by
  have flow := Bank.applyAll_flow es b b' h
  have hsum : sumBy (fun a => b'.get a d + outflow es a d) A = sumBy (fun a => b.get a d + inflow es a d) A :=
    sumBy_congr _ _ _ (fun a => (flow a d).1)
  rw [sumBy_add, sumBy_add, group_inflow_list A hA, group_outflow_list A hA] at hsum
  exact hsum

/-- every account an effect touches is in `A` -/
def Eff.endsIn (A : List Addr) : Eff → Bool
  | .xfer src dst _ _ => A.contains src && A.contains dst
  | .mint m _ _ => A.contains m
  | .burn m _ _ => A.contains m

theorem inTo_outFrom_balance (A : List Addr) (d : Denom) (es : List Eff) (h : es.all (Eff.endsIn A) = true) :
    sumBy (Eff.inTo A d) es + burned es d = sumBy (Eff.outFrom A d) es + minted es d := by
  induction es with
  | nil => simp [burned, minted]
  | cons e es ih =>
    simp only [List.all_cons, Bool.and_eq_true] at h
    have ih' := ih h.2
    simp only [burned, minted, sumBy_cons] at *
    cases e with
    | xfer src dst d' amt =>
      simp only [Eff.endsIn, Bool.and_eq_true] at h
      simp only [Eff.inTo, Eff.outFrom, Eff.burned, Eff.minted, h.1.1, h.1.2, true_and]
      split <;> omega
    | mint m d' amt =>
      simp only [Eff.endsIn] at h
      simp only [Eff.inTo, Eff.outFrom, Eff.burned, Eff.minted, h.1, true_and]
      split <;> omega
    | burn m d' amt =>
      simp only [Eff.endsIn] at h
      simp only [Eff.inTo, Eff.outFrom, Eff.burned, Eff.minted, h.1, true_and]
      split <;> omega

/-- **Total-supply invariant** (the model-level counterpart of x/bank's registered invariant):
if the supply of `d` equals the total held by the accounts of `A` and every effect stays within `A`,
the same holds afterwards. -/
theorem total_supply_inv (b b' : Bank) (es : List Eff) (A : List Addr) (hA : A.Nodup)
    (hends : es.all (Eff.endsIn A) = true) (h : b.applyAll es = .ok b') (d : Denom)
    (hinv : b.supply d = totalOver b A d) : b'.supply d = totalOver b' A d := by
  have g := group_flow b b' es A hA h d
  have f := (Bank.applyAll_flow es b b' h "" d).2
  have e := inTo_outFrom_balance A d es hends
  omega

/-- **Conservation + frame** for effect lists that only move coins among `A`. -/
theorem within_conserves (b b' : Bank) (es : List Eff) (A : List Addr) (hA : A.Nodup)
    (hw : es.all (Eff.within A) = true) (h : b.applyAll es = .ok b') :
    (∀ d, totalOver b' A d = totalOver b A d) ∧
    (∀ a d, A.contains a = false → b'.get a d = b.get a d) ∧
    (∀ d, b'.supply d = b.supply d) := by
  have flow := Bank.applyAll_flow es b b' h
  refine ⟨?_, ?_, ?_⟩
  · intro d
    have hb := flows_balance_within es A hA hw d
    have hsum : sumBy (fun a => b'.get a d + outflow es a d) A = sumBy (fun a => b.get a d + inflow es a d) A :=
      sumBy_congr _ _ _ (fun a => (flow a d).1)
    rw [sumBy_add, sumBy_add] at hsum
    unfold totalOver
    omega
  · intro a d ha
    have := (flow a d).1
    have hz := inflow_zero_of_not_mem es A hw a ha d
    omega
  · intro d
    have := (flow "" d).2
    have hm : minted es d = 0 ∧ burned es d = 0 := by
      clear this flow h
      induction es with
      | nil => simp [minted, burned]
      | cons e es ih =>
        simp only [List.all_cons, Bool.and_eq_true] at hw
        have ih' := ih hw.2
        simp only [minted, burned, sumBy_cons] at *
        cases e with
        | xfer => simp [Eff.minted, Eff.burned, ih']
        | mint => simp [Eff.within] at hw
        | burn => simp [Eff.within] at hw
    omega

end CV
