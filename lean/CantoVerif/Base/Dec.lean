import CantoVerif.Base.Core
/-!
# `sdkmath.LegacyDec` on non-negative values (an integer scaled by 10^18).

Pure functions (`chop`, `mulN`, `quoN`, `powerN`, …) reproduce the arithmetic of
cosmossdk.io/math v1.3.0 exactly — half-to-even rounding in `chopPrecisionAndRound`, the
truncating `a·10^36/b` before rounding in `Quo`, square-and-multiply with a rounding after every
multiplication in `Power`.  The guarded wrappers (`Dec.mul`, …) add the 315-bit panic.
Monotonicity lemmas at the end are what C13 is built from.
-/
namespace CV
namespace Dec

/-- 2^315: LegacyDec values satisfy `BitLen ≤ 315`. -/
def decBound : Nat := 2 ^ 315

def one : Nat := S18

/-- round half to even of `q + r/10^18` -/
def rnd (q r : Nat) : Nat :=
  if 2 * r < 1000000000000000000 then q
  else if 2 * r > 1000000000000000000 then q + 1
  else if q % 2 = 0 then q else q + 1

/-- `chopPrecisionAndRound` on non-negative values -/
def chop (v : Nat) : Nat := rnd (v / 1000000000000000000) (v % 1000000000000000000)

def mulN (a b : Nat) : Nat := chop (a * b)
def quoN (a b : Nat) : Nat := chop (a * (S18 * S18) / b)
/-- `TruncateInt` -/
def truncN (a : Nat) : Nat := a / S18
/-- `LegacyNewDecFromInt` -/
def ofIntN (i : Nat) : Nat := i * S18

/-- the `PowerMut` loop: `for i := power; i > 1; { if i%2 != 0 {tmp*=d}; i/=2; d*=d }; return d*tmp` -/
def powLoop (i d tmp : Nat) : Nat :=
  if h : i ≤ 1 then mulN d tmp
  else powLoop (i / 2) (mulN d d) (if i % 2 ≠ 0 then mulN tmp d else tmp)
termination_by i
decreasing_by omega

def powerN (d n : Nat) : Nat := if n = 0 then S18 else powLoop n d S18

/-! guarded versions -/
def guard315 (v : Nat) : R Nat := if v < decBound then .ok v else .error .overflow

def add (a b : Nat) : R Nat := guard315 (a + b)
def sub (a b : Nat) : R Nat := if b ≤ a then .ok (a - b) else .error .negative
def mul (a b : Nat) : R Nat := guard315 (mulN a b)
def quo (a b : Nat) : R Nat := if b = 0 then .error .divZero else guard315 (quoN a b)
def mulInt (a i : Nat) : R Nat := guard315 (a * i)
def quoInt (a i : Nat) : R Nat := if i = 0 then .error .divZero else .ok (a / i)
def truncateInt (a : Nat) : R Nat := SdkInt.ofBig (truncN a)

/-- guarded power: every intermediate multiplication is checked like `MulMut` does -/
def powLoopG (i d tmp : Nat) : R Nat :=
  if h : i ≤ 1 then mul d tmp
  else
    (if i % 2 ≠ 0 then mul tmp d else .ok tmp) >>= fun tmp' =>
    mul d d >>= fun d' => powLoopG (i / 2) d' tmp'
termination_by i
decreasing_by omega

def power (d n : Nat) : R Nat := if n = 0 then .ok S18 else powLoopG n d S18

theorem guard315_ok {v c : Nat} (h : guard315 v = .ok c) : c = v := by
  unfold guard315 at h; split at h
  · injection h with h; exact h.symm
  · cases h
theorem mul_ok {a b c : Nat} (h : mul a b = .ok c) : c = mulN a b := guard315_ok h
theorem add_ok {a b c : Nat} (h : add a b = .ok c) : c = a + b := guard315_ok h
theorem mulInt_ok {a b c : Nat} (h : mulInt a b = .ok c) : c = a * b := guard315_ok h
theorem sub_ok {a b c : Nat} (h : sub a b = .ok c) : c = a - b ∧ b ≤ a := by
  unfold sub at h; split at h
  · injection h with h; exact ⟨h.symm, by assumption⟩
  · cases h
theorem quo_ok {a b c : Nat} (h : quo a b = .ok c) : c = quoN a b ∧ b ≠ 0 := by
  unfold quo at h; split at h
  · cases h
  · exact ⟨guard315_ok h, by assumption⟩
theorem quoInt_ok {a b c : Nat} (h : quoInt a b = .ok c) : c = a / b ∧ b ≠ 0 := by
  unfold quoInt at h; split at h
  · cases h
  · injection h with h; exact ⟨h.symm, by assumption⟩
theorem truncateInt_ok {a c : Nat} (h : truncateInt a = .ok c) : c = a / S18 := SdkInt.ofBig_ok h

theorem powLoopG_ok (i : Nat) : ∀ d tmp c, powLoopG i d tmp = .ok c → c = powLoop i d tmp := by
  induction i using Nat.strongRecOn with
  | _ i ih =>
    intro d tmp c h
    unfold powLoopG at h
    unfold powLoop
    split at h
    · rename_i hi; simp only [hi, dite_true]; exact mul_ok h
    · rename_i hi; simp only [hi, dite_false]
      obtain ⟨tmp', h1, h⟩ := bind_ok h
      obtain ⟨d', h2, h⟩ := bind_ok h
      have hd := mul_ok h2; subst hd
      have := ih (i / 2) (by omega) _ _ _ h
      rw [this]
      split at h1
      · rename_i hodd; simp only [hodd, if_true, ne_eq, not_false_eq_true]; rw [mul_ok h1]
      · rename_i hev; simp only [ne_eq, hev, if_false]; injection h1 with h1; rw [h1]

theorem power_ok {d n c : Nat} (h : power d n = .ok c) : c = powerN d n := by
  unfold power at h; unfold powerN
  split at h
  · rename_i hn; simp only [hn, if_true]; injection h with h; exact h.symm
  · rename_i hn; simp only [hn, if_false]; exact powLoopG_ok _ _ _ _ h

/-! ### monotonicity of the rounded operations -/

theorem rnd_mono {qa ra qb rb : Nat} (hra : ra < 1000000000000000000) (hrb : rb < 1000000000000000000)
    (h : 1000000000000000000 * qa + ra ≤ 1000000000000000000 * qb + rb) : rnd qa ra ≤ rnd qb rb := by
  unfold rnd
  repeat' split
  all_goals omega

theorem chop_mono {a b : Nat} (h : a ≤ b) : chop a ≤ chop b := by
  unfold chop
  apply rnd_mono (Nat.mod_lt _ (by decide)) (Nat.mod_lt _ (by decide))
  rw [Nat.div_add_mod, Nat.div_add_mod]; exact h

theorem chop_mul_S18 (x : Nat) : chop (S18 * x) = x := by
  unfold chop rnd S18
  have hP : 0 < 1000000000000000000 := by decide
  simp [Nat.mul_mod_right, Nat.mul_div_cancel_left _ hP]

theorem mulN_comm (a b : Nat) : mulN a b = mulN b a := by unfold mulN; rw [Nat.mul_comm]
theorem mulN_mono_left {a b : Nat} (c : Nat) (h : a ≤ b) : mulN a c ≤ mulN b c :=
  chop_mono (Nat.mul_le_mul_right c h)
theorem mulN_mono_right {a b : Nat} (c : Nat) (h : a ≤ b) : mulN c a ≤ mulN c b :=
  chop_mono (Nat.mul_le_mul_left c h)
theorem mulN_one_left (x : Nat) : mulN S18 x = x := chop_mul_S18 x
theorem mulN_one_right (x : Nat) : mulN x S18 = x := by rw [mulN_comm]; exact mulN_one_left x
theorem mulN_le_one {a b : Nat} (ha : a ≤ S18) (hb : b ≤ S18) : mulN a b ≤ S18 := by
  calc mulN a b ≤ mulN S18 b := mulN_mono_left b ha
    _ = b := mulN_one_left b
    _ ≤ S18 := hb
theorem quoN_mono_left {a b : Nat} (c : Nat) (h : a ≤ b) : quoN a c ≤ quoN b c := by
  unfold quoN
  exact chop_mono (Nat.div_le_div_right (Nat.mul_le_mul_right _ h))

theorem powLoop_mono_tmp (i : Nat) : ∀ d t t', t ≤ t' → powLoop i d t ≤ powLoop i d t' := by
  induction i using Nat.strongRecOn with
  | _ i ih =>
    intro d t t' h
    unfold powLoop
    split
    · exact mulN_mono_right d h
    · apply ih (i / 2) (by omega)
      split
      · exact mulN_mono_left d h
      · exact h

theorem powLoop_succ_le (i : Nat) : ∀ d t, 1 ≤ i → d ≤ S18 → d ≤ t → t ≤ S18 →
    powLoop (i + 1) d S18 ≤ powLoop i d t := by
  induction i using Nat.strongRecOn with
  | _ i ih =>
    intro d t hi hd hdt ht
    by_cases h1 : i = 1
    · subst h1
      have : powLoop 2 d S18 = mulN (mulN d d) S18 := by
        rw [powLoop]; simp; rw [powLoop]; simp
      rw [this, mulN_one_right]
      have : powLoop 1 d t = mulN d t := by rw [powLoop]; simp
      rw [this]
      exact mulN_mono_right d hdt
    · by_cases hev : i % 2 = 0
      · have e1 : powLoop (i + 1) d S18 = powLoop ((i + 1) / 2) (mulN d d) (mulN S18 d) := by
          rw [powLoop]; have : ¬ (i + 1 ≤ 1) := by omega
          have h2 : (i + 1) % 2 = 1 := by omega
          simp [this, h2]
        have e2 : powLoop i d t = powLoop (i / 2) (mulN d d) t := by
          rw [powLoop]; have : ¬ (i ≤ 1) := by omega
          simp [this, hev]
        rw [e1, e2, mulN_one_left]
        have : (i + 1) / 2 = i / 2 := by omega
        rw [this]
        exact powLoop_mono_tmp _ _ _ _ hdt
      · have e1 : powLoop (i + 1) d S18 = powLoop ((i + 1) / 2) (mulN d d) S18 := by
          rw [powLoop]; have : ¬ (i + 1 ≤ 1) := by omega
          have h2 : (i + 1) % 2 = 0 := by omega
          simp [this, h2]
        have e2 : powLoop i d t = powLoop (i / 2) (mulN d d) (mulN t d) := by
          rw [powLoop]; have : ¬ (i ≤ 1) := by omega
          have h2 : i % 2 = 1 := by omega
          simp [this, h2]
        rw [e1, e2]
        have : (i + 1) / 2 = i / 2 + 1 := by omega
        rw [this]
        apply ih (i / 2) (by omega) (mulN d d) (mulN t d) (by omega)
        · exact mulN_le_one hd hd
        · exact mulN_mono_left d hdt
        · exact mulN_le_one ht hd

/-- `LegacyDec.Power` (square-and-multiply, one banker's rounding per multiplication) is
non-increasing in the exponent for every base in `[0,1]`. -/
theorem powerN_antitone (d n : Nat) (hd : d ≤ S18) : powerN d (n + 1) ≤ powerN d n := by
  unfold powerN
  by_cases h0 : n = 0
  · subst h0
    have : powLoop 1 d S18 = mulN d S18 := by rw [powLoop]; simp
    simp [this, mulN_one_right, hd]
  · simp [h0]
    exact powLoop_succ_le n d S18 (by omega) hd hd (Nat.le_refl _)

/-- upper estimate of rounding: 2·P·chop(T) ≤ 2·T + P -/
theorem two_chop_le (T : Nat) : 2 * S18 * chop T ≤ 2 * T + S18 := by
  unfold chop rnd S18
  have h := Nat.div_add_mod T 1000000000000000000
  have hr : T % 1000000000000000000 < 1000000000000000000 := Nat.mod_lt _ (by decide)
  generalize T / 1000000000000000000 = q at *
  generalize T % 1000000000000000000 = r at *
  repeat' split
  all_goals omega

/-- if 2·v < (2m+1)·P then chop v ≤ m -/
theorem chop_le_of_lt (v m : Nat) (h : 2 * v < (2 * m + 1) * S18) : chop v ≤ m := by
  unfold chop rnd
  unfold S18 at h
  have hd := Nat.div_add_mod v 1000000000000000000
  have hr : v % 1000000000000000000 < 1000000000000000000 := Nat.mod_lt _ (by decide)
  generalize v / 1000000000000000000 = q at *
  generalize v % 1000000000000000000 = r at *
  repeat' split
  all_goals omega

/-- lower estimate of rounding: 2·T ≤ 2·P·chop(T) + P -/
theorem two_chop_ge (T : Nat) : 2 * T ≤ 2 * S18 * chop T + S18 := by
  unfold chop rnd S18
  have h := Nat.div_add_mod T 1000000000000000000
  have hr : T % 1000000000000000000 < 1000000000000000000 := Nat.mod_lt _ (by decide)
  generalize T / 1000000000000000000 = q at *
  generalize T % 1000000000000000000 = r at *
  repeat' split
  all_goals omega

/-- a decimal times an integer-valued decimal is exact: no rounding happens -/
theorem mulN_ofInt (a i : Nat) : mulN a (ofIntN i) = a * i := by
  unfold mulN ofIntN
  rw [show a * (i * S18) = S18 * (a * i) by rw [Nat.mul_comm i S18, Nat.mul_left_comm]]
  exact chop_mul_S18 _

theorem mulN_ofInt_left (a i : Nat) : mulN (ofIntN i) a = i * a := by
  rw [mulN_comm, mulN_ofInt, Nat.mul_comm]

end Dec
end CV
