/-!
# `AMap` — association-list finite map with default 0 (an absent balance is 0, as in x/bank).
Own container; its laws are separate theorems (`get_set`).
-/
namespace CV

structure AMap (K : Type) [DecidableEq K] where
  items : List (K × Nat)
deriving Repr

namespace AMap
variable {K : Type} [DecidableEq K]

def empty : AMap K := ⟨[]⟩

def getL : List (K × Nat) → K → Nat
  | [], _ => 0
  | (k', v) :: rest, k => if k' = k then v else getL rest k

def setL : List (K × Nat) → K → Nat → List (K × Nat)
  | [], k, v => [(k, v)]
  | (k', v') :: rest, k, v => if k' = k then (k, v) :: rest else (k', v') :: setL rest k v

def get (m : AMap K) (k : K) : Nat := getL m.items k
def set (m : AMap K) (k : K) (v : Nat) : AMap K := ⟨setL m.items k v⟩
def keys (m : AMap K) : List K := m.items.map (·.1)

/-- extensional equality on the union of the keys of both maps (executable) -/
def eqv (a b : AMap K) : Bool :=
  a.items.all (fun p => b.get p.1 == a.get p.1) && b.items.all (fun p => a.get p.1 == b.get p.1)

/-- keys on which two maps differ (for diagnostics) -/
def diffKeys (a b : AMap K) : List K :=
  ((a.keys ++ b.keys).filter (fun k => a.get k != b.get k)).eraseDups

theorem getL_setL (l : List (K × Nat)) (k k' : K) (v : Nat) :
    getL (setL l k v) k' = if k' = k then v else getL l k' := by
  induction l with
  | nil =>
    by_cases h : k' = k
    · subst h; simp [setL, getL]
    · have : ¬ k = k' := fun e => h e.symm
      simp [setL, getL, h, this]
  | cons p ps ih =>
    obtain ⟨pk, pv⟩ := p
    by_cases h1 : pk = k
    · subst h1
      by_cases h2 : k' = pk
      · subst h2; simp [setL, getL]
      · have : ¬ pk = k' := fun e => h2 e.symm
        simp [setL, getL, h2, this]
    · by_cases h2 : pk = k'
      · subst h2
        simp [setL, getL, h1]
      · simp [setL, getL, h1, h2, ih]

theorem get_set (m : AMap K) (k k' : K) (v : Nat) :
    (m.set k v).get k' = if k' = k then v else m.get k' := getL_setL _ _ _ _
@[simp] theorem get_set_same (m : AMap K) (k : K) (v : Nat) : (m.set k v).get k = v := by
  simp [get_set]
@[simp] theorem get_set_other (m : AMap K) (k k' : K) (v : Nat) (h : k' ≠ k) :
    (m.set k v).get k' = m.get k' := by simp [get_set, h]
@[simp] theorem get_empty (k : K) : (empty : AMap K).get k = 0 := rfl

end AMap
end CV
