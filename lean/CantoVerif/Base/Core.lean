/-!
# Core definitions shared by every model file (core Lean only).

* `Rej`     — the classes of rejection a message can end in (errors *and* recovered panics);
* `R`       — the `Except Rej` monad every model step lives in;
* `SdkInt`  — `cosmossdk.io/math.Int` restricted to the non-negative values the Canto modules
               ever hold, with the 256-bit overflow panic, the division-by-zero panic and a
               "would be negative" rejection (`sdk.NewCoin`/`Coin.Sub` panic on negatives);
* `deliver` — the transaction wrapper (baseapp `runMsgs` / gov `safeExecuteHandler` discipline):
               a rejected step leaves the state it started from.
-/
namespace CV

inductive Rej where
  | overflow                 -- sdkmath.Int / LegacyDec bit-length panic
  | divZero                  -- "Division by zero" panic
  | negative                 -- a value that must be non-negative is not (NewCoin / Coin.Sub panic)
  | invalid (what : String)  -- stateless validation failed
  | insufficient             -- not enough funds / reserve
  | notFound (what : String)
  | constraint (what : String)  -- user bound or governance cap not met
  | unauthorized
  | expired
  | disabled
  | exists_ (what : String)
  | evm (what : String)      -- EVM call failed / reverted / bad answer
  | panic (what : String)
deriving Repr, DecidableEq, Inhabited

abbrev R := Except Rej

/-- 10^18, the LegacyDec precision and the "fee denominator" of coinswap. -/
def S18 : Nat := 1000000000000000000

/-- `2^256`: sdkmath.Int values satisfy `|v| < 2^256` (`BitLen ≤ 256`). -/
def intBound : Nat := 2 ^ 256

namespace SdkInt

def add (a b : Nat) : R Nat := if a + b < intBound then .ok (a + b) else .error .overflow
def sub (a b : Nat) : R Nat := if b ≤ a then .ok (a - b) else .error .negative
def mul (a b : Nat) : R Nat := if a * b < intBound then .ok (a * b) else .error .overflow
def quo (a b : Nat) : R Nat := if b = 0 then .error .divZero else .ok (a / b)
/-- `sdkmath.NewIntFromBigInt` -/
def ofBig (a : Nat) : R Nat := if a < intBound then .ok a else .error .overflow

theorem add_ok {a b c : Nat} (h : add a b = .ok c) : c = a + b ∧ a + b < intBound := by
  unfold add at h; split at h
  · injection h with h; exact ⟨h.symm, by assumption⟩
  · cases h
theorem sub_ok {a b c : Nat} (h : sub a b = .ok c) : c = a - b ∧ b ≤ a := by
  unfold sub at h; split at h
  · injection h with h; exact ⟨h.symm, by assumption⟩
  · cases h
theorem mul_ok {a b c : Nat} (h : mul a b = .ok c) : c = a * b ∧ a * b < intBound := by
  unfold mul at h; split at h
  · injection h with h; exact ⟨h.symm, by assumption⟩
  · cases h
theorem quo_ok {a b c : Nat} (h : quo a b = .ok c) : c = a / b ∧ b ≠ 0 := by
  unfold quo at h; split at h
  · cases h
  · injection h with h; exact ⟨h.symm, by assumption⟩
theorem ofBig_ok {a c : Nat} (h : ofBig a = .ok c) : c = a := by
  unfold ofBig at h; split at h
  · injection h with h; exact h.symm
  · cases h

end SdkInt

/-- Transaction wrapper: the state is replaced only when the step succeeds. -/
def deliver {σ ρ : Type} (s : σ) (f : σ → R (σ × ρ)) : σ × R ρ :=
  match f s with
  | .ok (s', r) => (s', .ok r)
  | .error e => (s, .error e)

theorem deliver_rejected_unchanged {σ ρ : Type} (s : σ) (f : σ → R (σ × ρ)) (e : Rej)
    (h : (deliver s f).2 = .error e) : (deliver s f).1 = s := by
  unfold deliver at *
  split at h <;> simp_all

theorem deliver_ok {σ ρ : Type} (s s' : σ) (f : σ → R (σ × ρ)) (r : ρ)
    (h : deliver s f = (s', .ok r)) : f s = .ok (s', r) := by
  unfold deliver at h
  split at h
  · rename_i s'' r'' heq; simp at h; obtain ⟨h1, h2⟩ := h; subst h1; subst h2; exact heq
  · simp at h

/-! ### a transaction of several messages

The messages run in order on the transaction's branch; the first failure ends the transaction and
the branch is discarded.  This is what the harness's `later=1` operations exercise on the
implementation: a message that succeeds, followed by a sibling that fails. -/

/-- the messages of one transaction on its branch: the state after all of them and their responses,
or the first rejection -/
def runMsgs {σ ο ρ : Type} (step : σ → ο → R (σ × ρ)) : σ → List ο → R (σ × List ρ)
  | s, [] => .ok (s, [])
  | s, o :: os =>
    match step s o with
    | .error e => .error e
    | .ok (s1, r) =>
      match runMsgs step s1 os with
      | .error e => .error e
      | .ok (s2, rs) => .ok (s2, r :: rs)

/-- the transaction: `deliver` around all its messages -/
def deliverTx {σ ο ρ : Type} (step : σ → ο → R (σ × ρ)) (s : σ) (os : List ο) : σ × R (List ρ) :=
  deliver s (fun s => runMsgs step s os)

/-- a failing message fails the transaction wherever it stands, whatever the messages before it did -/
theorem runMsgs_fails {σ ο ρ : Type} (step : σ → ο → R (σ × ρ)) (bad : ο)
    (hbad : ∀ s, ∃ e, step s bad = .error e) (pre post : List ο) :
    ∀ s, ∃ e, runMsgs step s (pre ++ bad :: post) = .error e := by
  induction pre with
  | nil =>
    intro s
    obtain ⟨e, he⟩ := hbad s
    exact ⟨e, by simp only [List.nil_append, runMsgs, he]⟩
  | cons o os ih =>
    intro s
    simp only [List.cons_append, runMsgs]
    cases h1 : step s o with
    | error e => exact ⟨e, rfl⟩
    | ok p =>
      obtain ⟨s1, r⟩ := p
      obtain ⟨e, he⟩ := ih s1
      exact ⟨e, by simp only [he]⟩

/-- **All or nothing.**  A transaction containing a message that fails leaves the state exactly as
it was — including everything its earlier, successful messages did. -/
theorem later_failure_unchanged {σ ο ρ : Type} (step : σ → ο → R (σ × ρ)) (bad : ο)
    (hbad : ∀ s, ∃ e, step s bad = .error e) (pre post : List ο) (s : σ) :
    (deliverTx step s (pre ++ bad :: post)).1 = s := by
  obtain ⟨e, he⟩ := runMsgs_fails step bad hbad pre post s
  unfold deliverTx deliver
  simp only [he]

/-- a transaction whose messages all succeed ends in the state the messages reach one after the other -/
theorem deliverTx_ok {σ ο ρ : Type} (step : σ → ο → R (σ × ρ)) (s s' : σ) (os : List ο) (rs : List ρ)
    (h : runMsgs step s os = .ok (s', rs)) : deliverTx step s os = (s', .ok rs) := by
  unfold deliverTx deliver
  simp only [h]

/-- lifting a one-step invariant to every operation sequence -/
theorem foldl_inv {σ ο : Type} (step : σ → ο → σ) (Inv : σ → Prop)
    (hstep : ∀ s o, Inv s → Inv (step s o)) (ops : List ο) (s : σ) (h : Inv s) :
    Inv (ops.foldl step s) := by
  induction ops generalizing s with
  | nil => simpa
  | cons o os ih => exact ih _ (hstep s o h)

/-- bind inversion for `Except` -/
theorem bind_ok {ε α β : Type} {x : Except ε α} {f : α → Except ε β} {b : β}
    (h : (x >>= f) = .ok b) : ∃ a, x = .ok a ∧ f a = .ok b := by
  cases x with
  | error e => cases h
  | ok a => exact ⟨a, rfl, h⟩

end CV
