import CantoVerif.Spec.Ante
/-!
# Lemmas about the authz recursion (`checkDisabledMsgs`) — induction over the message tree.
-/
namespace CV
namespace Ante
open Spec

mutual
  /-- a disabled message under a `MsgExec`, or a grant of one, at any depth makes the loop fail -/
  theorem bad_checkList : ∀ (ms : List Msg) (inner : Bool) (n : Nat), hasBad ms inner = true → (checkList ms inner n).isSome = true
    | [], _, _, h => by simp [hasBad] at h
    | .leaf url :: rest, inner, n, h => by
      simp only [hasBad, Bool.or_eq_true] at h
      simp only [checkList]
      split
      · rfl
      · rename_i hc
        rcases h with h | h
        · exact absurd h hc
        · exact bad_checkList rest inner n h
    | .grant url :: rest, inner, n, h => by
      simp only [hasBad, Bool.or_eq_true] at h
      simp only [checkList]
      split
      · rfl
      · rename_i hc
        rcases h with h | h
        · exact absurd h hc
        · exact bad_checkList rest inner n h
    | .exec ms :: rest, inner, n, h => by
      simp only [hasBad, Bool.or_eq_true] at h
      simp only [checkList]
      split
      · rfl
      · rename_i hc
        rcases h with h | h
        · have := bad_check ms true (n + 1) h
          rw [hc] at this; cases this
        · exact bad_checkList rest inner (n + 1) h
  theorem bad_check : ∀ (ms : List Msg) (inner : Bool) (n : Nat), hasBad ms inner = true → (check ms inner n).isSome = true
    | ms, inner, n, h => by
      unfold check
      split
      · rfl
      · exact bad_checkList ms inner n h
end

mutual
  /-- a path of `MsgExec`s long enough to reach the limit from counter `n` makes the check fail
  (the counter never decreases along a level, so siblings only make it fail earlier) -/
  theorem deep_checkList : ∀ (ms : List Msg) (inner : Bool) (n : Nat), n + depthL ms ≥ maxNested → 0 < depthL ms →
      (checkList ms inner n).isSome = true
    | [], _, _, _, h0 => by simp [depthL] at h0
    | .leaf url :: rest, inner, n, h, h0 => by
      simp only [depthL, depth, Nat.zero_max] at h h0
      simp only [checkList]
      split
      · rfl
      · exact deep_checkList rest inner n h h0
    | .grant url :: rest, inner, n, h, h0 => by
      simp only [depthL, depth, Nat.zero_max] at h h0
      simp only [checkList]
      split
      · rfl
      · exact deep_checkList rest inner n h h0
    | .exec ms :: rest, inner, n, h, _ => by
      simp only [depthL, depth] at h
      simp only [checkList]
      split
      · rfl
      · rename_i hc
        by_cases hd : n + (depthL ms + 1) ≥ maxNested
        · have := deep_check ms true (n + 1) (by omega)
          rw [hc] at this; cases this
        · have h1 : n + depthL rest ≥ maxNested := by
            have : max (depthL ms + 1) (depthL rest) = depthL rest := by omega
            omega
          have h2 : 0 < depthL rest := by
            have : max (depthL ms + 1) (depthL rest) = depthL rest := by omega
            omega
          exact deep_checkList rest inner (n + 1) (by omega) h2
  theorem deep_check : ∀ (ms : List Msg) (inner : Bool) (n : Nat), n + depthL ms ≥ maxNested → (check ms inner n).isSome = true
    | ms, inner, n, h => by
      unfold check
      split
      · rfl
      · rename_i hn
        exact deep_checkList ms inner n h (by omega)
end

mutual
  /-- conversely: nothing disabled and fewer `MsgExec`s in total than the limit leaves room for ⇒ the check passes -/
  theorem clean_checkList : ∀ (ms : List Msg) (inner : Bool) (n : Nat), hasBad ms inner = false → n + execsL ms < maxNested →
      checkList ms inner n = none
    | [], _, _, _, _ => by simp [checkList]
    | .leaf url :: rest, inner, n, h, hn => by
      simp only [hasBad, Bool.or_eq_false_iff] at h
      simp only [execsL, execs, Nat.zero_add] at hn
      simp only [checkList, h.1]
      exact clean_checkList rest inner n h.2 hn
    | .grant url :: rest, inner, n, h, hn => by
      simp only [hasBad, Bool.or_eq_false_iff] at h
      simp only [execsL, execs, Nat.zero_add] at hn
      simp only [checkList, h.1]
      exact clean_checkList rest inner n h.2 hn
    | .exec ms :: rest, inner, n, h, hn => by
      simp only [hasBad, Bool.or_eq_false_iff] at h
      simp only [execsL, execs] at hn
      simp only [checkList]
      rw [clean_check ms true (n + 1) h.1 (by omega)]
      exact clean_checkList rest inner (n + 1) h.2 (by omega)
  theorem clean_check : ∀ (ms : List Msg) (inner : Bool) (n : Nat), hasBad ms inner = false → n + execsL ms < maxNested →
      check ms inner n = none
    | ms, inner, n, h, hn => by
      unfold check
      split
      · omega
      · exact clean_checkList ms inner n h hn
end

mutual
  theorem hasBadExec_hasBad : ∀ (ms : List Msg) (inner : Bool), hasBadExec ms inner = true → hasBad ms inner = true
    | [], _, h => by simp [hasBadExec] at h
    | .leaf url :: rest, inner, h => by
      simp only [hasBadExec, Bool.or_eq_true] at h
      simp only [hasBad, Bool.or_eq_true]
      rcases h with h | h
      · exact Or.inl h
      · exact Or.inr (hasBadExec_hasBad rest inner h)
    | .grant url :: rest, inner, h => by
      simp only [hasBadExec] at h
      simp only [hasBad, Bool.or_eq_true]
      exact Or.inr (hasBadExec_hasBad rest inner h)
    | .exec ms :: rest, inner, h => by
      simp only [hasBadExec, Bool.or_eq_true] at h
      simp only [hasBad, Bool.or_eq_true]
      rcases h with h | h
      · exact Or.inl (hasBadExec_hasBad ms true h)
      · exact Or.inr (hasBadExec_hasBad rest inner h)
end

mutual
  theorem hasBadGrant_hasBad : ∀ (ms : List Msg) (inner : Bool), hasBadGrant ms = true → hasBad ms inner = true
    | [], _, h => by simp [hasBadGrant] at h
    | .leaf url :: rest, inner, h => by
      simp only [hasBadGrant] at h
      simp only [hasBad, Bool.or_eq_true]
      exact Or.inr (hasBadGrant_hasBad rest inner h)
    | .grant url :: rest, inner, h => by
      simp only [hasBadGrant, Bool.or_eq_true] at h
      simp only [hasBad, Bool.or_eq_true]
      rcases h with h | h
      · exact Or.inl h
      · exact Or.inr (hasBadGrant_hasBad rest inner h)
    | .exec ms :: rest, inner, h => by
      simp only [hasBadGrant, Bool.or_eq_true] at h
      simp only [hasBad, Bool.or_eq_true]
      rcases h with h | h
      · exact Or.inl (hasBadGrant_hasBad ms true h)
      · exact Or.inr (hasBadGrant_hasBad rest inner h)
end

/-- a list of Ethereum messages only contains nothing the authz filter could object to, and no `MsgExec` -/
theorem allEth_clean : ∀ (ms : List Msg), ms.all isEth = true → hasBad ms false = false ∧ depthL ms = 0
  | [], _ => ⟨by simp [hasBad], by simp [depthL]⟩
  | .leaf url :: rest, h => by
    simp only [List.all_cons, Bool.and_eq_true] at h
    obtain ⟨i1, i2⟩ := allEth_clean rest h.2
    simp [hasBad, depthL, depth, i1, i2]
  | .grant url :: rest, h => by simp [isEth] at h
  | .exec ms :: rest, h => by simp [isEth] at h

theorem depth_wrap (k : Nat) (m : Msg) : depth (wrap k m) = k + depth m := by
  induction k with
  | zero => simp [wrap]
  | succ k ih => simp only [wrap, depth, depthL, ih]; omega

end Ante
end CV
