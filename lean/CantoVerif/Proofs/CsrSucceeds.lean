import CantoVerif.Spec.Csr
import CantoVerif.Proofs.CsrFee
import CantoVerif.Proofs.CsrReg
/-!
# Helper lemmas of C10 (core Lean only): when the legs of the fee path succeed; the share never exceeds the fee.
-/
set_option linter.unusedSimpArgs false
namespace CV
namespace Csr
open Spec

theorem wiring_of_distinct {env : Env} {ts : Addr} (h : distinct env ts = true) : Wiring env ts := by
  simp only [distinct, Bool.and_eq_true, bne_iff_ne, ne_eq] at h
  obtain ⟨⟨⟨⟨⟨h1, h2⟩, h3⟩, h4⟩, h5⟩, h6⟩ := h
  exact ⟨h1, h2, h3, h4, h5, h6⟩


/-- `⌊fee·share⌋ ≤ fee` for a share in `[0,1]` -/
theorem share_le_fee (fee share : Nat) (h : share ≤ S18) : fee * share / S18 ≤ fee := by
  apply Nat.div_le_of_le_mul
  rw [Nat.mul_comm S18 fee]
  exact Nat.mul_le_mul_left _ h


theorem lookup_all {β : Type} {l : List (Nat × β)} {p : β → Bool} (h : l.all (fun x => p x.2) = true) {n : Nat} {r : β}
    (hr : lookup l n = some r) : p r = true := by
  have := List.all_eq_true.mp h (n, r) (lookup_mem hr)
  exact this

theorem getL_all {l : List (Nat × Nat)} {B : Nat} (hB : 0 < B) (h : l.all (fun x => decide (x.2 < B)) = true) (n : Nat) :
    AMap.getL l n < B := by
  induction l with
  | nil => exact hB
  | cons p ps ih =>
    obtain ⟨k, v⟩ := p
    simp only [List.all_cons, Bool.and_eq_true, decide_eq_true_eq] at h
    simp only [AMap.getL]
    split
    · exact h.1
    · exact ih h.2

theorem burnAll_succeeds (env : Env) (s : State) (fee : Nat) (h1 : fee ≤ s.bank.get env.modAddr env.denom)
    (h2 : fee ≤ s.bank.supply env.denom) : ∃ s', burnAll env s fee = .ok s' := by
  unfold burnAll
  split
  · exact ⟨_, rfl⟩
  · obtain ⟨b, hb⟩ := burn_ok s.bank env.modAddr env.denom h1 h2
    rw [applyAll_single hb]
    exact ⟨_, rfl⟩

theorem csrFeeOf_succeeds (fee share : Nat) (hfee : fee < HALF) (hshare : share ≤ S18) :
    csrFeeOf fee share = .ok (fee * share / S18) := by
  have h1 : fee * share ≤ fee * S18 := Nat.mul_le_mul_left _ hshare
  have h2 : fee * S18 < HALF * S18 := Nat.mul_lt_mul_of_pos_right hfee (by decide)
  have h3 : HALF * S18 ≤ Dec.decBound := by
    set_option exponentiation.threshold 400 in decide
  have hb : fee * share < Dec.decBound := by omega
  have hle := share_le_fee fee share hshare
  have h4 : HALF < intBound := by decide
  have hlt : fee * share / S18 < intBound := by omega
  unfold csrFeeOf Dec.mul
  rw [Dec.mulN_ofInt_left]
  simp only [Dec.guard315, hb, if_true, ok_bind, Dec.truncateInt, Dec.truncN, SdkInt.ofBig, hlt]

/-- the registered-target leg goes through when the module account holds the fee and nothing is near the 256-bit range -/
theorem split_succeeds (env : Env) (s : State) (ts : Addr) (n : Nat) (r : CSR) (fee share : Nat) (W : Wiring env ts)
    (hfee : fee < HALF) (hshare : share ≤ S18)
    (hmod : fee ≤ s.bank.get env.modAddr env.denom) (hts : s.bank.get ts env.denom + fee < intBound)
    (hevm : s.bank.get env.evmAddr env.denom + fee < intBound) (hsup : s.bank.supply env.denom + fee < intBound)
    (hsup' : fee ≤ s.bank.supply env.denom) (htsb : s.tsBal.get n + fee < intBound)
    (hrev : r.revenue + fee < intBound) : ∃ s', split env s ts n r fee share = .ok s' := by
  have hle := share_le_fee fee share hshare
  unfold split
  rw [csrFeeOf_succeeds fee share hfee hshare, ok_bind]
  dsimp only
  generalize hv : fee * share / S18 = v at hle
  -- the Turnstile call
  have hA : ∃ s3 : State, (if v = 0 then (.ok s : R State) else distributeFees env s ts n v) = .ok s3 ∧
      s3.bank.get env.modAddr env.denom + v = s.bank.get env.modAddr env.denom ∧
      s3.bank.supply env.denom = s.bank.supply env.denom := by
    by_cases hz : v = 0
    · exact ⟨s, by simp [hz], by omega, rfl⟩
    · obtain ⟨b, hb⟩ := evmTransfer_ok env s.bank s.modFirst (src := env.modAddr) (dst := ts) (v := v)
        W.mod_ts W.mod_evm (fun e => W.evm_ts e.symm) (by omega) (by omega) (by omega) (by omega) (by omega)
      obtain ⟨f1, _, _, f4⟩ := evmTransfer_flow hb W.mod_ts W.mod_evm (fun e => W.evm_ts e.symm)
      refine ⟨{ s with bank := b, tsBal := s.tsBal.set n (s.tsBal.get n + v) }, ?_, f1, f4 _⟩
      simp only [hz, if_false]
      unfold distributeFees
      have e1 : ensure (v != 0) (.evm "NothingToDistribute") = .ok () := by simp [ensure, hz]
      have e2 : ensure (decide (s.tsBal.get n + v < intBound)) (.evm "balances overflow") = .ok () := by
        have : s.tsBal.get n + v < intBound := by omega
        simp [ensure, this]
      rw [e1, ok_bind, e2, ok_bind, hb, ok_bind]
  obtain ⟨s3, hs3, hm3, hsup3⟩ := hA
  rw [hs3, ok_bind]
  -- the burn of the remainder
  have hB : ∃ b4, (if fee - v = 0 then (.ok s3.bank : R Bank)
      else s3.bank.applyAll [.burn env.modAddr env.denom (fee - v)]) = .ok b4 := by
    by_cases hz : fee - v = 0
    · exact ⟨s3.bank, by simp [hz]⟩
    · obtain ⟨b, hb⟩ := burn_ok s3.bank env.modAddr env.denom (v := fee - v) (by omega) (by omega)
      exact ⟨b, by simp only [hz, if_false]; exact applyAll_single hb⟩
  obtain ⟨b4, hb4⟩ := hB
  rw [hb4, ok_bind]
  have hadd : SdkInt.add r.revenue v = .ok (r.revenue + v) := by
    have : r.revenue + v < intBound := by omega
    simp [SdkInt.add, this]
  rw [hadd, ok_bind]
  exact ⟨_, rfl⟩


/-- the revenue recorded for every NFT equals its balance in the Turnstile (an NFT without a record has none) -/
def RevenueMatches (s : State) : Prop :=
  ∀ n, s.tsBal.get n = ((s.getCSR n).map (·.revenue)).getD 0


theorem revenueMatches_handleLog (env : Env) (ts : Addr) (s : State) (l : Log) (hI : RegInv s) (h : RevenueMatches s) :
    RevenueMatches (handleLog env ts s l).1 := by
  have hc := handleLog_cases env ts s l
  generalize handleLog env ts s l = res at hc ⊢
  cases hc with
  | skip k => exact h
  | register c tid hem htop hpay hfree hid =>
    intro n
    rw [getCSR_setCSR]
    show s.tsBal.get n = _
    by_cases hn : n = tid % U64
    · subst hn
      have := h (tid % U64)
      rw [hid] at this
      simp [this]
    · simp only [hn, if_false]; exact h n
  | assign c tid r hem htop hpay hfree hid =>
    obtain ⟨hrid, _⟩ := hI.wf _ r hid
    intro n
    rw [getCSR_setCSR]
    show s.tsBal.get n = _
    by_cases hn : n = r.id
    · subst hn
      have := h r.id
      rw [hrid, hid] at this
      simp [this, hrid]
    · simp only [hn, if_false]; exact h n


/-- what `feeTx` returning `some ts` means on an accepted transition -/
theorem feeTx_some {env : Env} {s s' : State} {op : Op} {gu : Nat} {ts : Addr}
    (h : feeTx { env := env, pre := s, op := op, ok := true, post := s' } gu = some ts) :
    s.turnstile = some ts ∧ s.params.enabled = true ∧ gu ≠ 0 ∧ Wiring env ts := by
  unfold feeTx at h
  split at h
  · rename_i ts' hts
    split at h
    · rename_i hc
      injection h with h; subst h
      simp only [Bool.true_and, Bool.and_eq_true, bne_iff_ne, ne_eq] at hc
      exact ⟨hts, hc.1.1, hc.1.2, wiring_of_distinct hc.2⟩
    · cases h
  · cases h


end Csr
end CV
