import CantoVerif.Proofs.CsrPost
/-!
# What the bank legs of the fee path add up to (core Lean only).
-/
set_option linter.unusedSimpArgs false
namespace CV
namespace Csr

/-- fee collector, csr module account, evm module account and Turnstile are four different accounts -/
structure Wiring (env : Env) (ts : Addr) : Prop where
  fc_mod : env.feeCollector ≠ env.modAddr
  fc_evm : env.feeCollector ≠ env.evmAddr
  fc_ts : env.feeCollector ≠ ts
  mod_evm : env.modAddr ≠ env.evmAddr
  mod_ts : env.modAddr ≠ ts
  evm_ts : env.evmAddr ≠ ts

/-- a (possibly skipped) single transfer -/
theorem xfer_facts {b b' : Bank} {x y : Addr} {d : Denom} {v : Nat} (h : CondApply v b [.xfer x y d v] b') (hxy : x ≠ y) :
    b'.get x d + v = b.get x d ∧ b'.get y d = b.get y d + v ∧
    (∀ a d', (a ≠ x ∧ a ≠ y) ∨ d' ≠ d → b'.get a d' = b.get a d') ∧ (∀ d', b'.supply d' = b.supply d') := by
  rcases h with ⟨hz, rfl⟩ | ⟨_, h⟩
  · subst hz; exact ⟨rfl, rfl, fun _ _ _ => rfl, fun _ => rfl⟩
  · have flow := Bank.applyAll_flow _ _ _ h
    have hyx : y ≠ x := fun e => hxy e.symm
    refine ⟨?_, ?_, ?_, ?_⟩
    · have f := (flow x d).1
      flow_simp at f
      simp only [hxy, and_true, true_and, false_and, if_true, if_false] at f
      omega
    · have f := (flow y d).1
      flow_simp at f
      simp only [hyx, and_true, true_and, false_and, if_true, if_false] at f
      omega
    · intro a d' hc
      have f := (flow a d').1
      flow_simp at f
      by_cases hd : d' = d
      · subst hd
        rcases hc with ⟨h1, h2⟩ | hd'
        · simp only [h1, h2, false_and, if_false] at f; omega
        · exact absurd rfl hd'
      · simp only [hd, and_false, if_false] at f; omega
    · intro d'
      have f := (flow "" d').2
      flow_simp at f
      omega

/-- a (possibly skipped) single burn -/
theorem burn_facts {b b' : Bank} {m : Addr} {d : Denom} {v : Nat} (h : CondApply v b [.burn m d v] b') :
    b'.get m d + v = b.get m d ∧ b'.supply d + v = b.supply d ∧
    (∀ a d', a ≠ m ∨ d' ≠ d → b'.get a d' = b.get a d') ∧ (∀ d', d' ≠ d → b'.supply d' = b.supply d') := by
  rcases h with ⟨hz, rfl⟩ | ⟨_, h⟩
  · subst hz; exact ⟨rfl, rfl, fun _ _ _ => rfl, fun _ _ => rfl⟩
  · have flow := Bank.applyAll_flow _ _ _ h
    refine ⟨?_, ?_, ?_, ?_⟩
    · have f := (flow m d).1
      flow_simp at f
      simp only [and_true, if_true] at f
      omega
    · have f := (flow "" d).2
      flow_simp at f
      simp only [if_true] at f
      omega
    · intro a d' hc
      have f := (flow a d').1
      flow_simp at f
      by_cases hd : d' = d
      · subst hd
        rcases hc with h1 | hd'
        · simp only [h1, false_and, if_false] at f; omega
        · exact absurd rfl hd'
      · simp only [hd, and_false, if_false] at f; omega
    · intro d' hd
      have f := (flow "" d').2
      flow_simp at f
      simp only [hd, if_false] at f
      omega

/-- a (possibly skipped) EVM value transfer from the module account to the Turnstile -/
def CondEvm (env : Env) (first : Bool) (ts : Addr) (v : Nat) (b b' : Bank) : Prop :=
  (v = 0 ∧ b' = b) ∨ (v ≠ 0 ∧ b.applyAll (evmTransfer env first env.modAddr ts v) = .ok b')

theorem evm_facts {env : Env} {first : Bool} {ts : Addr} {v : Nat} {b b' : Bank} (W : Wiring env ts)
    (h : CondEvm env first ts v b b') :
    b'.get env.modAddr env.denom + v = b.get env.modAddr env.denom ∧ b'.get ts env.denom = b.get ts env.denom + v ∧
    (∀ a d, (a ≠ env.modAddr ∧ a ≠ ts) ∨ d ≠ env.denom → b'.get a d = b.get a d) ∧ (∀ d, b'.supply d = b.supply d) := by
  rcases h with ⟨hz, rfl⟩ | ⟨_, h⟩
  · subst hz; exact ⟨rfl, rfl, fun _ _ _ => rfl, fun _ => rfl⟩
  · exact evmTransfer_flow h W.mod_ts W.mod_evm (fun e => W.evm_ts e.symm)

/-- **the three bank legs together.** Fee collector → module (`fee`), module → Turnstile through the EVM (`v`),
burn from the module (`rem`), with `v + rem = fee`: the fee collector is down by `fee`, the Turnstile up by `v`,
the supply down by `rem`, the module and evm module accounts and everything else are where they were. -/
theorem bank_path {env : Env} {ts : Addr} (W : Wiring env ts) {b0 b1 b2 b3 : Bank} {fee v rem : Nat} {first : Bool}
    (h1 : CondApply fee b0 [.xfer env.feeCollector env.modAddr env.denom fee] b1)
    (h2 : CondEvm env first ts v b1 b2)
    (h3 : CondApply rem b2 [.burn env.modAddr env.denom rem] b3) (hsum : v + rem = fee) :
    b3.get env.feeCollector env.denom + fee = b0.get env.feeCollector env.denom ∧
    b3.get ts env.denom = b0.get ts env.denom + v ∧
    b3.supply env.denom + rem = b0.supply env.denom ∧
    (∀ d, b3.get env.modAddr d = b0.get env.modAddr d) ∧
    (∀ d, b3.get env.evmAddr d = b0.get env.evmAddr d) ∧
    (∀ a d, (a ≠ env.feeCollector ∧ a ≠ ts) ∨ d ≠ env.denom → b3.get a d = b0.get a d) ∧
    (∀ d, d ≠ env.denom → b3.supply d = b0.supply d) := by
  obtain ⟨x1, x2, x3, x4⟩ := xfer_facts h1 W.fc_mod
  obtain ⟨e1, e2, e3, e4⟩ := evm_facts W h2
  obtain ⟨u1, u2, u3, u4⟩ := burn_facts h3
  have mod_fc : env.modAddr ≠ env.feeCollector := fun e => W.fc_mod e.symm
  have ts_fc : ts ≠ env.feeCollector := fun e => W.fc_ts e.symm
  have ts_mod : ts ≠ env.modAddr := fun e => W.mod_ts e.symm
  have evm_fc : env.evmAddr ≠ env.feeCollector := fun e => W.fc_evm e.symm
  have evm_mod : env.evmAddr ≠ env.modAddr := fun e => W.mod_evm e.symm
  -- the module account, EVM denomination
  have hmod : b3.get env.modAddr env.denom = b0.get env.modAddr env.denom := by omega
  refine ⟨?_, ?_, ?_, ?_, ?_, ?_, ?_⟩
  · have a := u3 env.feeCollector env.denom (Or.inl W.fc_mod)
    have b := e3 env.feeCollector env.denom (Or.inl ⟨W.fc_mod, W.fc_ts⟩)
    omega
  · have a := u3 ts env.denom (Or.inl ts_mod)
    have b := x3 ts env.denom (Or.inl ⟨ts_fc, ts_mod⟩)
    omega
  · have a := x4 env.denom
    have b := e4 env.denom
    omega
  · intro d
    by_cases hd : d = env.denom
    · subst hd; exact hmod
    · rw [u3 _ _ (Or.inr hd), e3 _ _ (Or.inr hd), x3 _ _ (Or.inr hd)]
  · intro d
    rw [u3 _ _ (Or.inl evm_mod), e3 _ _ (Or.inl ⟨evm_mod, W.evm_ts⟩), x3 _ _ (Or.inl ⟨evm_fc, evm_mod⟩)]
  · intro a d hc
    by_cases hd : d = env.denom
    · subst hd
      rcases hc with ⟨h1', h2'⟩ | hd'
      · by_cases hm : a = env.modAddr
        · subst hm; exact hmod
        · rw [u3 _ _ (Or.inl hm), e3 _ _ (Or.inl ⟨hm, h2'⟩), x3 _ _ (Or.inl ⟨h1', hm⟩)]
      · exact absurd rfl hd'
    · rw [u3 _ _ (Or.inr hd), e3 _ _ (Or.inr hd), x3 _ _ (Or.inr hd)]
  · intro d hd
    rw [u4 d hd, e4 d, x4 d]

end Csr
end CV
