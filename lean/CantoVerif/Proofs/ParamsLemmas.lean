import CantoVerif.Spec.Params
/-!
# Helper lemmas for C17: what a successful `SetParamSet` / `Subspace.Update` establishes, frame
facts of the handlers, and the validators in closed form.
-/
namespace CV
namespace Params

theorem ensure_ok {c : Bool} {e : Rej} {u : Unit} (h : ensure c e = .ok u) : c = true := by
  unfold ensure at h; split at h
  · assumption
  · cases h

theorem ensure_true {e : Rej} : ensure true e = .ok () := rfl

theorem okB_ok {r : R Unit} (h : okB r = true) : r = .ok () := by
  cases r with
  | ok u => rfl
  | error e => simp [okB] at h

theorem okB_iff {r : R Unit} : okB r = true ↔ r = .ok () := ⟨okB_ok, fun h => by rw [h]; rfl⟩

theorem deref_ok {v : Option Int} {x : Int} (h : deref v = .ok x) : v = some x := by
  cases v with
  | none => cases h
  | some y => injection h with h; rw [h]

/-! ## the validators in closed form -/

theorem vUnit_ok {w : String} {v : DecV} (h : vUnit w v = .ok ()) : ∃ x, v = some x ∧ 0 ≤ x ∧ x < one := by
  unfold vUnit at h
  obtain ⟨x, h1, h⟩ := bind_ok h
  have g := ensure_ok h
  simp only [Bool.not_eq_true', Bool.or_eq_false_iff, decide_eq_false_iff_not, Bool.not_eq_false', decide_eq_true_eq] at g
  exact ⟨x, deref_ok h1, by omega, g.2⟩

theorem vUnit_of {w : String} {x : Int} (h0 : 0 ≤ x) (h1 : x < one) : vUnit w (some x) = .ok () := by
  have : ¬ x < 0 := by omega
  simp [vUnit, deref, ensure, this, h1, bind, Except.bind]

theorem vPoolFee_ok {d : String} {a : IntV} (h : vPoolFee d a = .ok ()) : ∃ x, a = some x ∧ 0 ≤ x := by
  unfold vPoolFee at h
  obtain ⟨x, h1, h⟩ := bind_ok h
  have g := ensure_ok h
  simp only [Bool.not_eq_true', decide_eq_false_iff_not] at g
  exact ⟨x, deref_ok h1, by omega⟩

theorem vMaxStd_ok {v : IntV} (h : vMaxStd v = .ok ()) : ∃ x, v = some x ∧ 0 < x := by
  unfold vMaxStd at h
  obtain ⟨x, h1, h⟩ := bind_ok h
  have g := ensure_ok h
  simp only [decide_eq_true_eq] at g
  exact ⟨x, deref_ok h1, g⟩

theorem vThreshold_ok {v : IntV} (h : vThreshold v = .ok ()) : ∃ x, v = some x ∧ 0 ≤ x := by
  unfold vThreshold at h
  obtain ⟨x, h1, h⟩ := bind_ok h
  have g := ensure_ok h
  simp only [Bool.not_eq_true', decide_eq_false_iff_not] at g
  exact ⟨x, deref_ok h1, by omega⟩

theorem vShares_ok {v : DecV} (h : vShares v = .ok ()) : ∃ x, v = some x ∧ 0 ≤ x ∧ x ≤ one := by
  unfold vShares at h
  cases v with
  | none => cases h
  | some x =>
    simp only at h
    obtain ⟨_, h1, h⟩ := bind_ok h
    have g1 := ensure_ok h1
    have g2 := ensure_ok h
    simp only [Bool.not_eq_true', decide_eq_false_iff_not] at g1 g2
    exact ⟨x, rfl, by omega, by omega⟩

theorem vExp_ok {a r c bt mv : DecV} (h : vExp a r c bt mv = .ok ()) :
    ∃ a' r' c' bt' mv', a = some a' ∧ r = some r' ∧ c = some c' ∧ bt = some bt' ∧ mv = some mv' ∧
      0 ≤ a' ∧ 0 ≤ r' ∧ r' ≤ one ∧ 0 ≤ c' ∧ 0 < bt' ∧ bt' ≤ one ∧ 0 ≤ mv' := by
  unfold vExp at h
  obtain ⟨a', ha, h⟩ := bind_ok h
  obtain ⟨_, g1, h⟩ := bind_ok h
  obtain ⟨r', hr, h⟩ := bind_ok h
  obtain ⟨_, g2, h⟩ := bind_ok h
  obtain ⟨_, g3, h⟩ := bind_ok h
  obtain ⟨c', hc, h⟩ := bind_ok h
  obtain ⟨_, g4, h⟩ := bind_ok h
  obtain ⟨bt', hbt, h⟩ := bind_ok h
  obtain ⟨_, g5, h⟩ := bind_ok h
  obtain ⟨_, g6, h⟩ := bind_ok h
  obtain ⟨mv', hmv, h⟩ := bind_ok h
  have g1 := ensure_ok g1; have g2 := ensure_ok g2; have g3 := ensure_ok g3; have g4 := ensure_ok g4
  have g5 := ensure_ok g5; have g6 := ensure_ok g6; have g7 := ensure_ok h
  simp only [Bool.not_eq_true', decide_eq_false_iff_not, decide_eq_true_eq] at g1 g2 g3 g4 g5 g6 g7
  exact ⟨a', r', c', bt', mv', deref_ok ha, deref_ok hr, deref_ok hc, deref_ok hbt, deref_ok hmv,
    by omega, by omega, by omega, by omega, g6, by omega, by omega⟩

theorem vDist_ok {sr cp : DecV} (h : vDist sr cp = .ok ()) :
    ∃ s c, sr = some s ∧ cp = some c ∧ 0 ≤ s ∧ 0 ≤ c ∧ s + c = one := by
  unfold vDist at h
  obtain ⟨s, hs, h⟩ := bind_ok h
  obtain ⟨_, g1, h⟩ := bind_ok h
  obtain ⟨c, hc, h⟩ := bind_ok h
  obtain ⟨_, g2, h⟩ := bind_ok h
  obtain ⟨_, _, h⟩ := bind_ok h
  have g1 := ensure_ok g1; have g2 := ensure_ok g2; have g3 := ensure_ok h
  simp only [Bool.not_eq_true', decide_eq_false_iff_not, decide_eq_true_eq] at g1 g2 g3
  exact ⟨s, c, deref_ok hs, deref_ok hc, by omega, by omega, g3⟩

theorem vMintDenom_ok {d : String} (h : vMintDenom d = .ok ()) : validDenom d = true := by
  unfold vMintDenom at h
  obtain ⟨_, _, h⟩ := bind_ok h
  exact ensure_ok h

/-- each denomination is neither below nor equal to the one before it (`Coins.Validate`'s order test) -/
def Ascending : List (String × IntV) → Prop
  | [] => True
  | [_] => True
  | a :: b :: rest => (¬ b.1 < a.1 ∧ b.1 ≠ a.1) ∧ Ascending (b :: rest)

/-- every coin of an accepted `MaxSwapAmount` has a valid denomination and a positive amount, and
each denomination is neither below nor equal to the one before it -/
theorem vCoinsFrom_ok : ∀ (l : List (String × IntV)) (prev : Option String), vCoinsFrom prev l = .ok () →
    (∀ c ∈ l, validDenom c.1 = true ∧ ∃ a, c.2 = some a ∧ 0 < a) ∧
    Ascending l ∧
    (∀ low, prev = some low → ∀ c, l.head? = some c → ¬ c.1 < low ∧ c.1 ≠ low)
  | [], _, _ => ⟨by simp, trivial, by simp⟩
  | c :: cs, prev, h => by
    simp only [vCoinsFrom] at h
    obtain ⟨_, h1, h⟩ := bind_ok h
    obtain ⟨ih1, ih2, ih3⟩ := vCoinsFrom_ok cs (some c.1) h
    unfold vCoin at h1
    obtain ⟨_, g1, h1⟩ := bind_ok h1
    obtain ⟨_, g2, h1⟩ := bind_ok h1
    obtain ⟨a, g3, h1⟩ := bind_ok h1
    have g1 := ensure_ok g1
    have g4 := ensure_ok h1
    simp only [decide_eq_true_eq] at g4
    refine ⟨?_, ?_, ?_⟩
    · intro c' hc'
      rcases List.mem_cons.mp hc' with rfl | hc'
      · exact ⟨g1, a, deref_ok g3, g4⟩
      · exact ih1 c' hc'
    · cases cs with
      | nil => trivial
      | cons d ds => exact ⟨ih3 c.1 rfl d rfl, ih2⟩
    · intro low hlow c' hc'
      simp only [List.head?_cons, Option.some.injEq] at hc'
      subst hc' hlow
      simp only at g2
      obtain ⟨_, k1, g2⟩ := bind_ok g2
      have k1 := ensure_ok k1
      have k2 := ensure_ok g2
      simp only [Bool.not_eq_true', decide_eq_false_iff_not, bne_iff_ne, ne_eq] at k1 k2
      exact ⟨k1, k2⟩

/-! ## `SetParamSet` -/

/-- a successful `SetParamSet`: every validator accepted and every field was written, in order -/
theorem setParamSet_ok : ∀ (pairs : List (R Unit × (State → State))) (s s' : State),
    setParamSet pairs s = ⟨s', .ok ()⟩ →
    (∀ p ∈ pairs, p.1 = .ok ()) ∧ s' = pairs.foldl (fun s p => p.2 s) s
  | [], s, s', h => by
    simp only [setParamSet, HRes.mk.injEq] at h
    exact ⟨by simp, h.1.symm⟩
  | (v, w) :: rest, s, s', h => by
    simp only [setParamSet] at h
    split at h
    · rename_i u
      obtain ⟨h1, h2⟩ := setParamSet_ok rest (w s) s' h
      refine ⟨?_, by simpa using h2⟩
      intro p hp
      rcases List.mem_cons.mp hp with rfl | hp
      · cases u; rfl
      · exact h1 p hp
    · simp only [HRes.mk.injEq] at h
      cases h.2

/-- a failing `SetParamSet` leaves some prefix of the writes on the branch -/
theorem setParamSet_res (pairs : List (R Unit × (State → State))) (s : State) :
    (setParamSet pairs s).res = .ok () ∨ ∃ e, (setParamSet pairs s).res = .error e := by
  cases h : (setParamSet pairs s).res with
  | ok u => left; cases u; rfl
  | error e => right; exact ⟨e, rfl⟩

theorem hres_eta (r : HRes) : r = ⟨r.st, r.res⟩ := by cases r; rfl

/-- inversion of the common `UpdateParams` shape -/
theorem updateParams_ok {gov auth : String} {validate : R Unit} {pairs : List (R Unit × (State → State))} {s s' : State}
    (h : updateParams gov auth validate pairs s = ⟨s', .ok ()⟩) :
    auth = gov ∧ validate = .ok () ∧ (∀ p ∈ pairs, p.1 = .ok ()) ∧ s' = pairs.foldl (fun s p => p.2 s) s := by
  unfold updateParams at h
  split at h
  · simp only [HRes.mk.injEq] at h; cases h.2
  · rename_i hauth
    split at h
    · simp only [HRes.mk.injEq] at h; cases h.2
    · rename_i u
      obtain ⟨h1, h2⟩ := setParamSet_ok pairs s s' h
      exact ⟨by simpa using hauth, by cases u; rfl, h1, h2⟩

theorem updateParams_wrong {gov auth : String} (validate : R Unit) (pairs : List (R Unit × (State → State))) (s : State)
    (h : auth ≠ gov) : updateParams gov auth validate pairs s = ⟨s, .error .unauthorized⟩ := by
  simp [updateParams, h]

/-! ## validity is a function of the four parameter sets -/

theorem valid_congr {a b : State} (h1 : a.cs = b.cs) (h2 : a.inf = b.inf) (h3 : a.csr = b.csr) (h4 : a.onb = b.onb) :
    a.valid = b.valid := by
  simp [State.valid, h1, h2, h3, h4]

theorem redigest_cs (x : Ext) (pre : State) (r : HRes) : (redigest x pre r).st.cs = r.st.cs := by
  unfold redigest; dsimp only; split <;> rfl
theorem redigest_erc (x : Ext) (pre : State) (r : HRes) : (redigest x pre r).st.erc = r.st.erc := by
  unfold redigest; dsimp only; split <;> rfl
theorem redigest_inf (x : Ext) (pre : State) (r : HRes) : (redigest x pre r).st.inf = r.st.inf := by
  unfold redigest; dsimp only; split <;> rfl
theorem redigest_csr (x : Ext) (pre : State) (r : HRes) : (redigest x pre r).st.csr = r.st.csr := by
  unfold redigest; dsimp only; split <;> rfl
theorem redigest_onb (x : Ext) (pre : State) (r : HRes) : (redigest x pre r).st.onb = r.st.onb := by
  unfold redigest; dsimp only; split <;> rfl
theorem redigest_pairs (x : Ext) (pre : State) (r : HRes) : (redigest x pre r).st.pairs = r.st.pairs := by
  unfold redigest; dsimp only; split <;> rfl
theorem redigest_port (x : Ext) (pre : State) (r : HRes) : (redigest x pre r).st.port = r.st.port := by
  unfold redigest; dsimp only; split <;> rfl
theorem redigest_dgx (x : Ext) (pre : State) (r : HRes) : (redigest x pre r).st.dgx = r.st.dgx := by
  unfold redigest; dsimp only; split <;> rfl
theorem redigest_res (x : Ext) (pre : State) (r : HRes) : (redigest x pre r).res = r.res := rfl
theorem redigest_valid (x : Ext) (pre : State) (r : HRes) : (redigest x pre r).st.valid = r.st.valid :=
  valid_congr (redigest_cs ..) (redigest_inf ..) (redigest_csr ..) (redigest_onb ..)
theorem redigest_same (x : Ext) (s : State) (e : R Unit) : redigest x s ⟨s, e⟩ = ⟨s, e⟩ := by
  simp [redigest]

/-! ## the legacy route, one key -/

theorem upd_cases (s : State) (v : R Unit) (w : State → State) :
    (v = .ok () ∧ upd s v w = ⟨w s, .ok ()⟩) ∨ (∃ e, v = .error e ∧ upd s v w = ⟨s, .error e⟩) := by
  cases v with
  | ok u => left; cases u; exact ⟨rfl, rfl⟩
  | error e => right; exact ⟨e, rfl, rfl⟩

theorem upd_valid (s : State) (v : R Unit) (w : State → State) (hs : s.valid = true)
    (hw : v = .ok () → (w s).valid = true) : (upd s v w).st.valid = true := by
  rcases upd_cases s v w with ⟨hv, he⟩ | ⟨e, _, he⟩
  · rw [he]; exact hw hv
  · rw [he]; exact hs

theorem upd_frame (s : State) (v : R Unit) (w : State → State)
    (hw : (w s).pairs = s.pairs ∧ (w s).port = s.port ∧ (w s).dgx = s.dgx ∧ (w s).dg = s.dg) :
    (upd s v w).st.pairs = s.pairs ∧ (upd s v w).st.port = s.port ∧ (upd s v w).st.dgx = s.dgx ∧ (upd s v w).st.dg = s.dg := by
  rcases upd_cases s v w with ⟨_, he⟩ | ⟨e, _, he⟩
  · rw [he]; exact hw
  · rw [he]; exact ⟨rfl, rfl, rfl, rfl⟩

/-- `Subspace.Update` of one key keeps every stored set valid — whether it succeeds or not.  The only
validation on this route is the key's own field validator; it suffices because every rule of these
modules lives inside one field's validator. -/
theorem updateKey_valid (s : State) (c : Change) (hs : s.valid = true) : (updateKey s c).st.valid = true := by
  have hs' := hs
  simp only [State.valid, CsP.valid, InfP.valid, CsrP.valid, OnbP.valid, Bool.and_eq_true, okB_iff] at hs'
  unfold updateKey
  repeat' split
  all_goals first
    | exact hs
    | (apply upd_valid _ _ _ hs
       intro hv
       simp only [State.valid, CsP.valid, InfP.valid, CsrP.valid, OnbP.valid, Bool.and_eq_true, okB_iff]
       simp_all)

/-- … and touches nothing but the five parameter sets -/
theorem updateKey_frame (s : State) (c : Change) :
    (updateKey s c).st.pairs = s.pairs ∧ (updateKey s c).st.port = s.port ∧ (updateKey s c).st.dgx = s.dgx ∧
    (updateKey s c).st.dg = s.dg := by
  unfold updateKey
  repeat' split
  all_goals first
    | exact ⟨rfl, rfl, rfl, rfl⟩
    | (apply upd_frame; exact ⟨rfl, rfl, rfl, rfl⟩)

theorem applyChanges_valid : ∀ (cs : List Change) (s : State), s.valid = true → (applyChanges cs s).st.valid = true
  | [], s, hs => hs
  | c :: cs, s, hs => by
    simp only [applyChanges]
    have hv := updateKey_valid s c hs
    split
    · rename_i s' u heq
      rw [heq] at hv
      exact applyChanges_valid cs s' hv
    · exact hv

theorem applyChanges_frame : ∀ (cs : List Change) (s : State),
    (applyChanges cs s).st.pairs = s.pairs ∧ (applyChanges cs s).st.port = s.port ∧ (applyChanges cs s).st.dgx = s.dgx
  | [], s => ⟨rfl, rfl, rfl⟩
  | c :: cs, s => by
    simp only [applyChanges]
    have hf := updateKey_frame s c
    split
    · rename_i s' u heq
      rw [heq] at hf
      obtain ⟨i1, i2, i3⟩ := applyChanges_frame cs s'
      exact ⟨i1.trans hf.1, i2.trans hf.2.1, i3.trans hf.2.2.1⟩
    · exact ⟨hf.1, hf.2.1, hf.2.2.1⟩

end Params
end CV
