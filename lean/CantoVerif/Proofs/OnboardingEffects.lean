import CantoVerif.Proofs.OnboardingInv
/-!
# What a received packet does to the ledgers (core Lean only).

`recv_flow` is the summary everything in `Props/C11.lean` is derived from: for a packet whose
effects are kept, the bank ledger changes by exactly the net flow of

  the credit of the underlying transfer
  ++ (the two swap legs `recipient → pool : swapped voucher`, `pool → recipient : threshold`, iff a swap was made)
  ++ (the escrow leg `recipient → erc20 module : converted voucher`, iff the conversion succeeded)

and by nothing else — for every account and every denomination.
-/
namespace CV
namespace Onboarding
open Coinswap (lookupD swapEffs)

/-- `b'` differs from `b` by exactly the net flow of `es`, for every account, denomination and supply -/
def Flows (b b' : Bank) (es : List Eff) : Prop :=
  ∀ (a : Addr) (d : Denom), b'.get a d + outflow es a d = b.get a d + inflow es a d ∧
    b'.supply d + burned es d = b.supply d + minted es d

theorem Flows.refl (b : Bank) : Flows b b [] := by
  intro a d; simp [outflow, inflow, burned, minted]

theorem flows_of_apply {b b' : Bank} {es : List Eff} (h : b.applyAll es = .ok b') : Flows b b' es :=
  fun a d => Bank.applyAll_flow es b b' h a d

theorem Flows.trans {b b1 b2 : Bank} {es fs : List Eff} (h1 : Flows b b1 es) (h2 : Flows b1 b2 fs) :
    Flows b b2 (es ++ fs) := by
  intro a d
  obtain ⟨x1, y1⟩ := h1 a d
  obtain ⟨x2, y2⟩ := h2 a d
  simp only [outflow, inflow, burned, minted, sumBy_append] at *
  omega

/-- same balances and supplies (accounts may differ) -/
theorem Flows.congr_right {b b1 b2 : Bank} {es : List Eff} (h : Flows b b1 es)
    (hg : ∀ a d, b2.get a d = b1.get a d) (hs : ∀ d, b2.supply d = b1.supply d) : Flows b b2 es := by
  intro a d; rw [hg, hs]; exact h a d

theorem Flows.append_nil {b b' : Bank} {es : List Eff} (h : Flows b b' es) : Flows b b' (es ++ []) := by
  simpa using h

/-! ### packets -/

theorem parse_ok {p : Packet} {r : Addr} (h : (p.sender.parse >>= fun _ => p.receiver.parse) = .ok r) :
    r = p.receiver.bytes ∧ p.sender.form = .lower ∧ p.receiver.form = .lower := by
  obtain ⟨x, h1, h2⟩ := bind_ok h
  unfold PktAddr.parse at h1 h2
  split at h1
  · rename_i hs
    split at h2
    · rename_i hr
      injection h2 with h2
      exact ⟨h2.symm, hs, hr⟩
    · cases h2
  · cases h1

theorem parse_of_lower {p : Packet} (hs : p.sender.form = .lower) (hr : p.receiver.form = .lower) :
    (p.sender.parse >>= fun _ => p.receiver.parse) = .ok p.receiver.bytes := by
  simp only [PktAddr.parse, hs, hr]; rfl

@[simp] theorem credited_get (s : State) (p : Packet) (b : Bank) (a : Addr) (d : Denom) :
    (credited s p b).cs.bank.get a d = b.get a d := by
  unfold credited creditTouch State.withBank
  cases p.credit <;> simp
@[simp] theorem credited_supply (s : State) (p : Packet) (b : Bank) (d : Denom) :
    (credited s p b).cs.bank.supply d = b.supply d := by
  unfold credited creditTouch State.withBank
  cases p.credit <;> simp
@[simp] theorem credited_std (s : State) (p : Packet) (b : Bank) : (credited s p b).cs.std = s.cs.std := rfl
@[simp] theorem credited_ob (s : State) (p : Packet) (b : Bank) : (credited s p b).ob = s.ob := rfl
@[simp] theorem credited_pairs (s : State) (p : Packet) (b : Bank) : (credited s p b).pairs = s.pairs := rfl
@[simp] theorem credited_tok (s : State) (p : Packet) (b : Bank) : (credited s p b).tok = s.tok := rfl
@[simp] theorem credited_macc (s : State) (p : Packet) (b : Bank) : (credited s p b).macc = creditMacc s.macc p.credit := rfl

theorem creditMacc_mono {macc : List Addr} {c : Credit} {x : Addr} (h : macc.contains x = true) :
    (creditMacc macc c).contains x = true := by
  cases c with
  | mint m =>
    simp only [creditMacc]
    split
    · exact h
    · simp only [List.contains_iff_mem, List.mem_append] at h ⊢; exact Or.inl h
  | unescrow e => exact h

theorem credited_flows {s : State} {p : Packet} {b : Bank} (h : s.cs.bank.applyAll (creditEffs p) = .ok b) :
    Flows s.cs.bank (credited s p b).cs.bank (creditEffs p) :=
  (flows_of_apply h).congr_right (fun a d => credited_get s p b a d) (fun d => credited_supply s p b d)

/-! ### the two optional parts -/

def swapPart (r esc : Addr) (v : Denom) (swapped : Nat) (std : Denom) (thr : Nat) : List Eff :=
  if swapped = 0 then [] else swapEffs r r esc v swapped std thr

def convPart (r m : Addr) (v : Denom) (converted : Nat) : List Eff :=
  if converted = 0 then [] else [.xfer r m v converted]

/-- the bank effects of one kept packet -/
def packetEffs (env : Env) (s : State) (p : Packet) (esc : Addr) (resp : Resp) : List Eff :=
  creditEffs p ++ (swapPart p.receiver.bytes esc p.denom resp.swapped s.cs.std s.ob.threshold ++
    convPart p.receiver.bytes env.erc20Mod p.denom resp.converted)

/-- the first stage, as a flow -/
theorem autoSwap_flows {env : Env} {s : State} {r : Addr} {v : Denom} {amt : Nat} {s1 : State} {swapped : Nat}
    (F : AutoSwapFacts env s r v amt s1 swapped) :
    ∃ esc, Flows s.cs.bank s1.cs.bank (swapPart r esc v swapped s.cs.std s.ob.threshold) ∧ swapped ≤ amt ∧
      s1.ob = s.ob ∧ s1.pairs = s.pairs ∧ s1.tok = s.tok ∧ s1.macc = s.macc ∧ s1.cs.std = s.cs.std ∧
      s1.cs.pools = s.cs.pools ∧
      (0 < swapped → s.cs.bank.get r s.cs.std < s.ob.threshold ∧
        ∃ bought, Coinswap.trade env.cs s.cs v amt s.cs.std s.ob.threshold true = .ok (swapped, bought, esc)) ∧
      (swapped = 0 → s1 = s) := by
  cases F with
  | above h hs h0 =>
    subst hs h0
    exact ⟨"", by simpa [swapPart] using Flows.refl _, Nat.zero_le _, rfl, rfl, rfl, rfl, rfl, rfl,
      fun h => absurd h (Nat.lt_irrefl 0), fun _ => rfl⟩
  | refused hlt e ht hs h0 =>
    subst hs h0
    exact ⟨"", by simpa [swapPart] using Flows.refl _, Nat.zero_le _, rfl, rfl, rfl, rfl, rfl, rfl,
      fun h => absurd h (Nat.lt_irrefl 0), fun _ => rfl⟩
  | unpaid hlt sold bought esc ht hpay hs h0 =>
    subst hs h0
    exact ⟨"", by simpa [swapPart] using Flows.refl _, Nat.zero_le _, rfl, rfl, rfl, rfl, rfl, rfl,
      fun h => absurd h (Nat.lt_irrefl 0), fun _ => rfl⟩
  | swap hlt sold bought esc b ht hb hs h0 =>
    subst hs h0
    obtain ⟨_, _, _, hle, hpos, _⟩ := trade_buy_facts ht
    have hne : swapped ≠ 0 := by omega
    refine ⟨esc, ?_, hle, rfl, rfl, rfl, rfl, rfl, rfl, fun _ => ⟨hlt, bought, ht⟩, fun h => absurd h hne⟩
    simp only [swapPart, hne, if_false]
    exact flows_of_apply hb

/-- the second stage, as a flow -/
theorem stageTwo_flows {env : Env} {p : Packet} {r : Addr} {s1 : State} {swapped : Nat} {s' : State} {resp : Resp}
    (F : StageTwo env p r s1 swapped s' resp) :
    Flows s1.cs.bank s'.cs.bank (convPart r env.erc20Mod p.denom resp.converted) ∧
    resp.swapped = swapped ∧ resp.ack = .given ∧ resp.converted ≤ p.amount - swapped ∧
    s'.ob = s1.ob ∧ s'.macc = s1.macc ∧ s'.cs.std = s1.cs.std ∧ s'.cs.pools = s1.cs.pools := by
  cases F with
  | unregistered hl hs hr =>
    subst hs hr
    exact ⟨by simpa [convPart, pass] using Flows.refl _, rfl, rfl, Nat.zero_le _, rfl, rfl, rfl, rfl⟩
  | switchedOff pair hl he hs hr =>
    subst hs hr
    exact ⟨by simpa [convPart, pass] using Flows.refl _, rfl, rfl, Nat.zero_le _, rfl, rfl, rfl, rfl⟩
  | called pair hl he hle converted succ hc hr =>
    subst hr
    cases hc with
    | failed hs h0 =>
      subst hs h0
      exact ⟨by simpa [convPart] using Flows.refl _, rfl, rfl, Nat.zero_le _, rfl, rfl, rfl, rfl⟩
    | gone ho hs h0 =>
      subst hs h0
      exact ⟨by simpa [convPart] using Flows.refl _, rfl, rfl, Nat.zero_le _, rfl, rfl, rfl, rfl⟩
    | done ho b hb hs h0 =>
      subst hs h0
      have hne : p.amount - swapped ≠ 0 := by
        intro h0; rw [h0] at ho; simp at ho
      refine ⟨?_, rfl, rfl, Nat.le_refl _, rfl, rfl, rfl, rfl⟩
      simp only [convPart, hne, if_false]
      exact flows_of_apply hb

/-- the token ledger and the registry after the second stage -/
theorem stageTwo_tok {env : Env} {p : Packet} {r : Addr} {s1 : State} {swapped : Nat} {s' : State} {resp : Resp}
    (F : StageTwo env p r s1 swapped s' resp) :
    (resp.converted = 0 ∧ s'.tok = s1.tok ∧ (s'.pairs = s1.pairs ∨ s'.pairs = s1.pairs.filter (fun q => q.1 != p.denom))) ∨
    (0 < resp.converted ∧ resp.converted = p.amount - swapped ∧ resp.convCalled = true ∧ p.conv = .ok ∧ s'.pairs = s1.pairs ∧
      ∃ pair, lookupD s1.pairs p.denom = some pair ∧ pair.enabled = true ∧
        s'.tok = s1.tok.set (pair.contract, r) (s1.tok.get (pair.contract, r) + resp.converted)) := by
  cases F with
  | unregistered hl hs hr => subst hs hr; exact Or.inl ⟨rfl, rfl, Or.inl rfl⟩
  | switchedOff pair hl he hs hr => subst hs hr; exact Or.inl ⟨rfl, rfl, Or.inl rfl⟩
  | called pair hl he hle converted succ hc hr =>
    subst hr
    cases hc with
    | failed hs h0 => subst hs h0; exact Or.inl ⟨rfl, rfl, Or.inl rfl⟩
    | gone ho hs h0 => subst hs h0; exact Or.inl ⟨rfl, rfl, Or.inr rfl⟩
    | done ho b hb hs h0 =>
      subst hs h0
      have hne : p.amount - swapped ≠ 0 := by
        intro h0; rw [h0] at ho; simp at ho
      have hconv : p.conv = .ok := by simpa [hne] using ho
      exact Or.inr ⟨by show 0 < p.amount - swapped; omega, rfl, rfl, hconv, rfl, pair, hl, he, rfl⟩

/-! ### the summary -/

/-- the three guards of the callback let the packet through -/
def GuardsOK (s0 : State) (p : Packet) : Prop :=
  s0.ob.enabled = true ∧ s0.ob.channels.contains p.dstChannel = true ∧
  p.sender.form = .lower ∧ p.receiver.form = .lower ∧ s0.macc.contains p.receiver.bytes = false

/-- everything a kept packet establishes -/
structure KeptFacts (env : Env) (s : State) (p : Packet) (s' : State) (resp : Resp) : Prop where
  /-- the bank ledger changes by exactly the flow of credit ++ swap legs ++ conversion leg -/
  flows : ∃ esc, Flows s.cs.bank s'.cs.bank (packetEffs env s p esc resp) ∧
    (0 < resp.swapped → ∃ b bought, s.cs.bank.applyAll (creditEffs p) = .ok b ∧
      b.get p.receiver.bytes s.cs.std < s.ob.threshold ∧ GuardsOK (credited s p b) p ∧
      Coinswap.trade env.cs (credited s p b).cs p.denom p.amount s.cs.std s.ob.threshold true = .ok (resp.swapped, bought, esc))
  /-- anything beyond the credit happens only when the three guards let the packet through -/
  guards : (0 < resp.swapped + resp.converted ∨ resp.convCalled = true) →
    ∃ b, s.cs.bank.applyAll (creditEffs p) = .ok b ∧ GuardsOK (credited s p b) p
  bound : resp.swapped + resp.converted ≤ p.amount
  ob : s'.ob = s.ob
  std : s'.cs.std = s.cs.std
  pools : s'.cs.pools = s.cs.pools

theorem onRecv_kept {env : Env} {s0 : State} {p : Packet} {s' : State} {resp : Resp}
    (F : OnRecvFacts env s0 p s' resp) (ha : resp.ack = .given) :
    ∃ esc, Flows s0.cs.bank s'.cs.bank (swapPart p.receiver.bytes esc p.denom resp.swapped s0.cs.std s0.ob.threshold ++
        convPart p.receiver.bytes env.erc20Mod p.denom resp.converted) ∧
      resp.swapped + resp.converted ≤ p.amount ∧ s'.ob = s0.ob ∧ s'.cs.std = s0.cs.std ∧ s'.cs.pools = s0.cs.pools ∧
      ((0 < resp.swapped + resp.converted ∨ resp.convCalled = true) → GuardsOK s0 p) ∧
      (0 < resp.swapped → ∃ bought, s0.cs.bank.get p.receiver.bytes s0.cs.std < s0.ob.threshold ∧
        Coinswap.trade env.cs s0.cs p.denom p.amount s0.cs.std s0.ob.threshold true = .ok (resp.swapped, bought, esc)) := by
  have triv : ∀ (s' : State) (resp : Resp), s' = s0 → resp = pass →
      ∃ esc, Flows s0.cs.bank s'.cs.bank (swapPart p.receiver.bytes esc p.denom resp.swapped s0.cs.std s0.ob.threshold ++
        convPart p.receiver.bytes env.erc20Mod p.denom resp.converted) ∧
      resp.swapped + resp.converted ≤ p.amount ∧ s'.ob = s0.ob ∧ s'.cs.std = s0.cs.std ∧ s'.cs.pools = s0.cs.pools ∧
      ((0 < resp.swapped + resp.converted ∨ resp.convCalled = true) → GuardsOK s0 p) ∧
      (0 < resp.swapped → ∃ bought, s0.cs.bank.get p.receiver.bytes s0.cs.std < s0.ob.threshold ∧
        Coinswap.trade env.cs s0.cs p.denom p.amount s0.cs.std s0.ob.threshold true = .ok (resp.swapped, bought, esc)) := by
    intro s' resp hs hr
    subst hs hr
    exact ⟨"", by simpa [swapPart, convPart, pass] using Flows.refl _, by simp [pass], rfl, rfl, rfl,
      fun h => absurd h (by simp [pass]), fun h => absurd h (by simp [pass])⟩
  cases F with
  | disabled h hs hr => exact triv _ _ hs hr
  | channel he h hs hr => exact triv _ _ hs hr
  | moduleAccount he hc r hp hm hs hr => exact triv _ _ hs hr
  | unparsable he hc e hp hs hr => subst hr; simp [pass] at ha
  | acted he hc r hp hm s1 swapped hsw h2 =>
    obtain ⟨hr, hsf, hrf⟩ := parse_ok hp
    subst hr
    obtain ⟨esc, f1, hle, hob, _, _, _, hstd, hpools, hsw1, _⟩ := autoSwap_flows hsw
    obtain ⟨f2, hrs, _, hcv, hob2, _, hstd2, hpools2⟩ := stageTwo_flows h2
    refine ⟨esc, ?_, by omega, by rw [hob2, hob], by rw [hstd2, hstd], by rw [hpools2, hpools],
      fun _ => ⟨he, hc, hsf, hrf, hm⟩, ?_⟩
    · rw [hrs]; exact f1.trans f2
    · intro hpos
      rw [hrs] at hpos ⊢
      obtain ⟨hlt, bought, ht⟩ := hsw1 hpos
      exact ⟨bought, hlt, ht⟩

/-- **Summary of one kept packet.** -/
theorem recv_kept {env : Env} {s : State} {p : Packet} {s' : State} {resp : Resp}
    (h : recv env s p = .ok (s', resp)) (hu : p.underOk = true) (ha : resp.ack = .given) :
    KeptFacts env s p s' resp := by
  have F := recv_ok h
  cases F with
  | refused hu' _ _ => rw [hu] at hu'; cases hu'
  | dropped _ b hb s'' hrec ha' hs => exact absurd ha ha'
  | kept _ b hb hrec _ =>
    obtain ⟨esc, f, hbound, hob, hstd, hpools, hg, hsw⟩ := onRecv_kept hrec ha
    simp only [credited_std, credited_ob] at f hsw hob hstd
    refine ⟨⟨esc, ?_, ?_⟩, fun hx => ⟨b, hb, hg hx⟩, hbound, hob, hstd, by rw [hpools]; rfl⟩
    · exact (credited_flows hb).trans f
    · intro hpos
      obtain ⟨bought, hlt, ht⟩ := hsw hpos
      rw [credited_get] at hlt
      exact ⟨b, bought, hb, hlt, hg (Or.inl (by omega)), ht⟩

/-! ### the flow of a kept packet at one (account, denomination), spelled out -/

/-- what the credit takes from the channel escrow when the coin returns home -/
def unescrowed (p : Packet) (a : Addr) (d : Denom) : Nat :=
  match p.credit with
  | .unescrow e => if a = e ∧ d = p.denom then p.amount else 0
  | .mint _ => 0

theorem credit_net (p : Packet) (a : Addr) (d : Denom) :
    inflow (creditEffs p) a d + unescrowed p a d =
      outflow (creditEffs p) a d + (if a = p.receiver.bytes ∧ d = p.denom then p.amount else 0) := by
  unfold creditEffs unescrowed
  cases p.credit with
  | mint m =>
    simp only [inflow, outflow, sumBy_cons, sumBy_nil, Eff.inflow, Eff.outflow]
    omega
  | unescrow e =>
    simp only [inflow, outflow, sumBy_cons, sumBy_nil, Eff.inflow, Eff.outflow]
    omega

theorem credit_supply (p : Packet) (d : Denom) :
    burned (creditEffs p) d = 0 ∧
    minted (creditEffs p) d = (match p.credit with | .mint _ => if d = p.denom then p.amount else 0 | .unescrow _ => 0) := by
  unfold creditEffs
  cases p.credit with
  | mint m => simp [minted, burned, Eff.minted, Eff.burned]
  | unescrow e => simp [minted, burned, Eff.minted, Eff.burned]

/-- **Ledger equation of a kept packet**, for every account `a` and denomination `d`:
`post + (un-escrowed from the channel escrow) + (swap legs out) + (conversion leg out)
  = pre + (credit to the recipient) + (swap legs in) + (conversion leg in)`. -/
theorem kept_balance {env : Env} {s : State} {p : Packet} {s' : State} {resp : Resp} {esc : Addr}
    (hf : Flows s.cs.bank s'.cs.bank (packetEffs env s p esc resp)) (a : Addr) (d : Denom) :
    s'.cs.bank.get a d + unescrowed p a d +
      ((if a = p.receiver.bytes ∧ d = p.denom then resp.swapped else 0) +
       (if resp.swapped ≠ 0 ∧ a = esc ∧ d = s.cs.std then s.ob.threshold else 0)) +
      (if a = p.receiver.bytes ∧ d = p.denom then resp.converted else 0)
    = s.cs.bank.get a d + (if a = p.receiver.bytes ∧ d = p.denom then p.amount else 0) +
      ((if a = esc ∧ d = p.denom then resp.swapped else 0) +
       (if resp.swapped ≠ 0 ∧ a = p.receiver.bytes ∧ d = s.cs.std then s.ob.threshold else 0)) +
      (if a = env.erc20Mod ∧ d = p.denom then resp.converted else 0) := by
  have f := (hf a d).1
  have c := credit_net p a d
  simp only [packetEffs, inflow, outflow, sumBy_append] at f
  simp only [inflow, outflow] at c
  have hs : sumBy (Eff.outflow a d) (swapPart p.receiver.bytes esc p.denom resp.swapped s.cs.std s.ob.threshold) =
        (if a = p.receiver.bytes ∧ d = p.denom then resp.swapped else 0) +
        (if resp.swapped ≠ 0 ∧ a = esc ∧ d = s.cs.std then s.ob.threshold else 0) ∧
      sumBy (Eff.inflow a d) (swapPart p.receiver.bytes esc p.denom resp.swapped s.cs.std s.ob.threshold) =
        (if a = esc ∧ d = p.denom then resp.swapped else 0) +
        (if resp.swapped ≠ 0 ∧ a = p.receiver.bytes ∧ d = s.cs.std then s.ob.threshold else 0) := by
    unfold swapPart
    by_cases h0 : resp.swapped = 0
    · simp [h0]
    · simp [h0, swapEffs, Eff.inflow, Eff.outflow]
  have hv : sumBy (Eff.outflow a d) (convPart p.receiver.bytes env.erc20Mod p.denom resp.converted) =
        (if a = p.receiver.bytes ∧ d = p.denom then resp.converted else 0) ∧
      sumBy (Eff.inflow a d) (convPart p.receiver.bytes env.erc20Mod p.denom resp.converted) =
        (if a = env.erc20Mod ∧ d = p.denom then resp.converted else 0) := by
    unfold convPart
    by_cases h0 : resp.converted = 0
    · simp [h0]
    · simp [h0, Eff.inflow, Eff.outflow]
  rw [hs.1, hs.2, hv.1, hv.2] at f
  omega

/-- supplies: only the minted voucher -/
theorem kept_supply {env : Env} {s : State} {p : Packet} {s' : State} {resp : Resp} {esc : Addr}
    (hf : Flows s.cs.bank s'.cs.bank (packetEffs env s p esc resp)) (d : Denom) :
    s'.cs.bank.supply d = s.cs.bank.supply d +
      (match p.credit with | .mint _ => if d = p.denom then p.amount else 0 | .unescrow _ => 0) := by
  have f := (hf d d).2
  obtain ⟨c1, c2⟩ := credit_supply p d
  simp only [packetEffs, minted, burned, sumBy_append] at f
  simp only [minted, burned] at c1 c2
  have hs : sumBy (Eff.minted d) (swapPart p.receiver.bytes esc p.denom resp.swapped s.cs.std s.ob.threshold) = 0 ∧
      sumBy (Eff.burned d) (swapPart p.receiver.bytes esc p.denom resp.swapped s.cs.std s.ob.threshold) = 0 := by
    unfold swapPart; split <;> simp [swapEffs, Eff.minted, Eff.burned]
  have hv : sumBy (Eff.minted d) (convPart p.receiver.bytes env.erc20Mod p.denom resp.converted) = 0 ∧
      sumBy (Eff.burned d) (convPart p.receiver.bytes env.erc20Mod p.denom resp.converted) = 0 := by
    unfold convPart; split <;> simp [Eff.minted, Eff.burned]
  rw [hs.1, hs.2, hv.1, hv.2, c1, c2] at f
  omega

/-- a packet whose effects are not kept leaves the state it found, and reports nothing -/
theorem recv_unkept {env : Env} {s : State} {p : Packet} {s' : State} {resp : Resp}
    (h : recv env s p = .ok (s', resp)) (hn : p.underOk = false ∨ resp.ack ≠ .given) :
    s' = s ∧ resp.swapped = 0 ∧ resp.converted = 0 ∧ resp.convCalled = false ∧ resp.ack ≠ .other := by
  have F := recv_ok h
  cases F with
  | refused _ hs hr => subst hs hr; simp [pass]
  | dropped _ b hb s'' hrec ha' hs =>
    subst hs
    cases hrec with
    | disabled _ _ hr => subst hr; simp [pass] at ha'
    | channel _ _ _ hr => subst hr; simp [pass] at ha'
    | moduleAccount _ _ _ _ _ _ hr => subst hr; simp [pass] at ha'
    | unparsable _ _ _ _ _ hr => subst hr; simp [pass]
    | acted _ _ r _ _ s1 swapped _ h2 =>
      obtain ⟨_, _, hack, _⟩ := stageTwo_flows h2
      exact absurd hack ha'
  | kept hu b hb hrec ha =>
    rcases hn with hn | hn
    · rw [hu] at hn; cases hn
    · exact absurd ha hn

end Onboarding
end CV
