import CantoVerif.Spec.Csr
import CantoVerif.Proofs.CsrPost
/-!
# Helper lemmas of C16 (core Lean only): one iteration of the event loop w.r.t. the index, the records and
the logs that explain a change.
-/
set_option linter.unusedSimpArgs false
namespace CV
namespace Csr
open Spec

theorem RegInv.of_sameReg {a b : State} (hc : b.csrs = a.csrs) (hi : b.idx = a.idx) (h : RegInv a) : RegInv b := by
  refine ⟨?_, ?_, ?_⟩
  · intro c n hcn
    have : a.nftOf c = some n := by simpa only [State.nftOf, hi] using hcn
    obtain ⟨r, hr, hm⟩ := h.sound c n this
    exact ⟨r, by simpa only [State.getCSR, hc] using hr, hm⟩
  · intro n r hr c hm
    have : a.getCSR n = some r := by simpa only [State.getCSR, hc] using hr
    have := h.complete n r this c hm
    simpa only [State.nftOf, hi] using this
  · intro n r hr
    have : a.getCSR n = some r := by simpa only [State.getCSR, hc] using hr
    exact h.wf n r this

/-- the registered-target leg writes the record back with new counters and nothing else of the registry -/
theorem split_reg {env : Env} {s s' : State} {ts : Addr} {nft : Nat} {r : CSR} {fee share : Nat}
    (h : split env s ts nft r fee share = .ok s') :
    ∃ s4 : State, s4.csrs = s.csrs ∧ s4.idx = s.idx ∧
      s' = s4.setCSR { r with txs := (r.txs + 1) % U64, revenue := r.revenue + fee * share / S18 } := by
  obtain ⟨s3, b4, h3, _, _, hs'⟩ := (split_ok h).ex
  refine ⟨{ s3 with bank := b4 }, ?_, ?_, hs'⟩
  · rcases h3 with ⟨_, rfl⟩ | ⟨_, hd⟩
    · rfl
    · obtain ⟨_, _, b, _, rfl⟩ := distributeFees_ok hd; rfl
  · rcases h3 with ⟨_, rfl⟩ | ⟨_, hd⟩
    · rfl
    · obtain ⟨_, _, b, _, rfl⟩ := distributeFees_ok hd; rfl


theorem handleLog_foreign (env : Env) (ts : Addr) (s : State) (l : Log) (h : l.emitter ≠ ts) :
    handleLog env ts s l = (s, true) := by
  unfold handleLog
  split
  · rfl
  · simp [h]


theorem handleLog_inert (env : Env) (ts : Addr) (s : State) (l : Log) (h : isRegistryLog ts l = false) :
    (handleLog env ts s l).1 = s := by
  have hc := handleLog_cases env ts s l
  generalize handleLog env ts s l = res at hc ⊢
  cases hc with
  | skip k => rfl
  | register c tid hem htop hpay => simp [isRegistryLog, hem, htop, hpay] at h
  | assign c tid r hem htop hpay => simp [isRegistryLog, hem, htop, hpay] at h


/-- one iteration: an index entry present afterwards was present before or is accounted for by this very log —
emitted by the Turnstile, Register or Assign, well-formed, naming a code-bearing contract and this NFT id;
and no entry is lost or changed -/
theorem handleLog_idx {env : Env} {ts : Addr} {s : State} (l : Log) (hI : RegInv s) (c : Addr) (n : Nat) :
    ((handleLog env ts s l).1.nftOf c = some n → s.nftOf c = some n ∨ explains ts c n l = true) ∧
    (s.nftOf c = some n → (handleLog env ts s l).1.nftOf c = some n) := by
  have hc := handleLog_cases env ts s l
  generalize handleLog env ts s l = res at hc ⊢
  cases hc with
  | skip k => exact ⟨Or.inl, id⟩
  | register c0 tid hem htop hpay hfree hid =>
    constructor
    · intro h
      rw [nftOf_setCSR] at h
      by_cases hm : c ∈ [c0]
      · simp only [hm, if_true] at h
        injection h with h
        simp only [List.mem_singleton] at hm
        right
        simp [explains, hem, htop, hpay, hm, h]
      · simp only [hm, if_false] at h; exact Or.inl h
    · intro h
      rw [nftOf_setCSR]
      have hm : c ∉ [c0] := by
        simp only [List.mem_singleton]; intro e; subst e; rw [hfree] at h; cases h
      simp [hm, h]
  | assign c0 tid r hem htop hpay hfree hid =>
    obtain ⟨hrid, _⟩ := hI.wf _ r hid
    constructor
    · intro h
      rw [nftOf_setCSR] at h
      by_cases hm : c ∈ r.contracts ++ [c0]
      · simp only [hm, if_true] at h
        injection h with h
        rw [List.mem_append] at hm
        rcases hm with hm | hm
        · left
          rw [← h]
          show s.nftOf c = some r.id
          rw [hrid]; exact hI.complete _ r hid c hm
        · simp only [List.mem_singleton] at hm
          right
          have : tid % U64 = n := by rw [← h]; exact hrid.symm
          simp [explains, hem, htop, hpay, hm, this]
      · simp only [hm, if_false] at h; exact Or.inl h
    · intro h
      rw [nftOf_setCSR]
      by_cases hm : c ∈ r.contracts ++ [c0]
      · simp only [hm, if_true]
        rw [List.mem_append] at hm
        rcases hm with hm | hm
        · have := hI.complete _ r hid c hm
          rw [this] at h; injection h with h
          show some r.id = some n
          rw [hrid, h]
        · simp only [List.mem_singleton] at hm; subst hm; rw [hfree] at h; cases h
      · simp [hm, h]

theorem processEvents_induct_mem {P : State → Prop} (env : Env) (ts : Addr) : ∀ (logs : List Log)
    (_ : ∀ s l, l ∈ logs → P s → P (handleLog env ts s l).1) (s : State), P s → P (processEvents env ts s logs) := by
  intro logs
  induction logs with
  | nil => intro _ s h; exact h
  | cons l ls ih =>
    intro hstep s h
    have h1 := hstep s l (List.mem_cons_self ..) h
    have ih' := ih (fun s l' hl' => hstep s l' (List.mem_cons_of_mem _ hl'))
    unfold processEvents
    split
    · rename_i s' heq; rw [heq] at h1; exact ih' s' h1
    · rename_i s' heq; rw [heq] at h1; exact h1


/-- record `r'` is record `r` with, at most, more contracts appended -/
def Extends (r r' : CSR) : Prop :=
  r'.id = r.id ∧ r.contracts <+: r'.contracts ∧ r'.txs = r.txs ∧ r'.revenue = r.revenue

theorem Extends.refl (r : CSR) : Extends r r := ⟨rfl, List.prefix_refl _, rfl, rfl⟩
theorem Extends.trans {a b c : CSR} (h1 : Extends a b) (h2 : Extends b c) : Extends a c :=
  ⟨h2.1.trans h1.1, h1.2.1.trans h2.2.1, h2.2.2.1.trans h1.2.2.1, h2.2.2.2.trans h1.2.2.2⟩

theorem handleLog_keeps {env : Env} {ts : Addr} {s : State} (l : Log) (hI : RegInv s) {n : Nat} {r : CSR}
    (hr : s.getCSR n = some r) : ∃ r', (handleLog env ts s l).1.getCSR n = some r' ∧ Extends r r' := by
  have hc := handleLog_cases env ts s l
  generalize handleLog env ts s l = res at hc ⊢
  cases hc with
  | skip k => exact ⟨r, hr, Extends.refl r⟩
  | register c0 tid hem htop hpay hfree hid =>
    refine ⟨r, ?_, Extends.refl r⟩
    rw [getCSR_setCSR]
    have : n ≠ tid % U64 := by intro e; subst e; rw [hid] at hr; cases hr
    simp [this, hr]
  | assign c0 tid r0 hem htop hpay hfree hid =>
    obtain ⟨hrid, _⟩ := hI.wf _ r0 hid
    by_cases hn : n = tid % U64
    · subst hn
      rw [hid] at hr; injection hr with hr; subst hr
      refine ⟨{ r0 with contracts := r0.contracts ++ [c0] }, ?_, rfl, List.prefix_append _ _, rfl, rfl⟩
      rw [getCSR_setCSR]; simp [hrid]
    · refine ⟨r, ?_, Extends.refl r⟩
      rw [getCSR_setCSR]
      have : n ≠ r0.id := by rw [hrid]; exact hn
      simp [this, hr]


/-! ## helpers of the monitor-link theorems -/

/-- counters through the events of a receipt: a record found afterwards has the counters the id had before, zero if the id is new -/
theorem processEvents_counters {env : Env} {ts : Addr} {s : State} (logs : List Log) (hI : RegInv s) (n : Nat) {r : CSR}
    (hr : (processEvents env ts s logs).getCSR n = some r) :
    r.txs = ((s.getCSR n).map (·.txs)).getD 0 ∧ r.revenue = ((s.getCSR n).map (·.revenue)).getD 0 := by
  have key := processEvents_induct (P := fun s' => RegInv s' ∧ ((s.getCSR n).isSome → (s'.getCSR n).isSome) ∧
      ∀ r, s'.getCSR n = some r →
        r.txs = ((s.getCSR n).map (·.txs)).getD 0 ∧ r.revenue = ((s.getCSR n).map (·.revenue)).getD 0) env ts
    (by
      intro s1 l ⟨hI1, hsome, hcnt⟩
      refine ⟨handleLog_regInv env ts s1 l hI1, ?_, ?_⟩
      · intro h0
        have h1 := hsome h0
        cases hq : s1.getCSR n with
        | none => rw [hq] at h1; cases h1
        | some q =>
          obtain ⟨q', hq', _⟩ := handleLog_keeps (env := env) (ts := ts) l hI1 hq
          rw [hq']; rfl
      · have hc := handleLog_cases env ts s1 l
        generalize handleLog env ts s1 l = res at hc ⊢
        cases hc with
        | skip k => exact hcnt
        | register c tid hem htop hpay hfree hid =>
          intro r hr
          rw [getCSR_setCSR] at hr
          split at hr
          · rename_i hn
            injection hr with hr; subst hr
            have hnone : s.getCSR n = none := by
              cases h0 : s.getCSR n with
              | none => rfl
              | some q =>
                have := hsome (by rw [h0]; rfl)
                rw [hn, hid] at this; cases this
            rw [hnone]; exact ⟨rfl, rfl⟩
          · exact hcnt r hr
        | assign c tid r0 hem htop hpay hfree hid =>
          intro r hr
          rw [getCSR_setCSR] at hr
          obtain ⟨hrid, _⟩ := hI1.wf _ r0 hid
          split at hr
          · rename_i hn
            injection hr with hr; subst hr
            have := hcnt r0 (by rw [hn, hrid]; exact hid)
            exact this
          · exact hcnt r hr)
    logs s ⟨hI, id, fun r hr => by rw [hr]; exact ⟨rfl, rfl⟩⟩
  exact key.2.2 r hr

theorem AMap.eqv_refl {K : Type} [DecidableEq K] (a : AMap K) : a.eqv a = true := by
  simp [AMap.eqv]

theorem sameBank_refl (s : State) : sameBank s s = true := by simp [sameBank]
theorem sameState_refl (s : State) : sameState s s = true := by
  simp [sameState, sameBank_refl, csrsEq, idxEq, AMap.eqv_refl]


/-- a record under an id that did not exist before the receipt was created by a Register log of the Turnstile carrying that
id, and its first contract is that log's -/
theorem new_id_explained {env : Env} {ts : Addr} {s : State} (logs : List Log) (hI : RegInv s) (n : Nat) {r' : CSR}
    (hr' : (processEvents env ts s logs).getCSR n = some r') (hnone : s.getCSR n = none) :
    ∃ l ∈ logs, registersAs ts n r'.contracts.head? l = true := by
  have key := processEvents_induct_mem (P := fun s' => RegInv s' ∧ ∀ r', s'.getCSR n = some r' →
      (s.getCSR n).isSome ∨ ∃ l ∈ logs, registersAs ts n r'.contracts.head? l = true) env ts logs
    (by
      intro s1 l hl ⟨hI1, ih⟩
      refine ⟨handleLog_regInv env ts s1 l hI1, ?_⟩
      have hc := handleLog_cases env ts s1 l
      generalize handleLog env ts s1 l = res at hc ⊢
      cases hc with
      | skip k => exact ih
      | register c tid hem htop hpay hfree hid =>
        intro r hr
        rw [getCSR_setCSR] at hr
        split at hr
        · rename_i hn
          injection hr with hr; subst hr
          right
          refine ⟨l, hl, ?_⟩
          simp [registersAs, hem, htop, hpay, hn]
        · exact ih r hr
      | assign c tid r0 hem htop hpay hfree hid =>
        obtain ⟨hrid, _⟩ := hI1.wf _ r0 hid
        intro r hr
        rw [getCSR_setCSR] at hr
        split at hr
        · rename_i hn
          injection hr with hr; subst hr
          have h0 : s1.getCSR n = some r0 := by rw [hn]; show s1.getCSR r0.id = _; rw [hrid]; exact hid
          rcases ih r0 h0 with h1 | ⟨l0, hl0, hreg⟩
          · exact Or.inl h1
          · right
            refine ⟨l0, hl0, ?_⟩
            show registersAs ts n (r0.contracts ++ [c]).head? l0 = true
            have hne : ∃ c0, r0.contracts.head? = some c0 := by
              simp only [registersAs, Bool.and_eq_true] at hreg
              obtain ⟨_, hm⟩ := hreg
              split at hm
              · rename_i c0 tid0 _
                simp only [Bool.and_eq_true, beq_iff_eq] at hm
                exact ⟨c0, hm.2⟩
              · cases hm
            obtain ⟨c0, hc0⟩ := hne
            have : (r0.contracts ++ [c]).head? = r0.contracts.head? := by
              cases hcs : r0.contracts with
              | nil => rw [hcs] at hc0; cases hc0
              | cons a as => rfl
            rw [this]; exact hreg
        · exact ih r hr)
    s ⟨hI, fun r hr => Or.inl (by rw [hr]; rfl)⟩
  rcases key.2 r' hr' with h | h
  · rw [hnone] at h; cases h
  · exact h


end Csr
end CV
