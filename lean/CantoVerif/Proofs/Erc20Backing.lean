import CantoVerif.Model.Erc20Honest
import CantoVerif.Proofs.Erc20Honest
/-!
# The backing invariant of C03 and the generic lemmas that preserve it (core Lean only).
-/
namespace CV
namespace Erc20
namespace Token
open KMap

/-- standing facts about the wiring -/
structure EnvOK3 (env : Env) (cfg : Cfg) : Prop where
  base : EnvOK env
  /-- the erc20 module account is on the bank's blocked list (every module account is) -/
  modBlocked : env.blocked.contains env.modAddr = true
  cfgMod : cfg.modAddr = env.modAddr
  zeroNe : cfg.zero ≠ env.modAddr

/-- **The backing invariant.**
* `native`: for every registered pair whose contract the module deployed, the module's escrow of the
  coin equals the contract's total supply plus the tokens holders destroyed themselves;
* `external`: for every registered external (honest) token, the bank supply of its coin is at most the
  tokens the module holds in escrow;
* auxiliary: chain-deployed contracts carry code; an address without code has no token supply; the
  registry invariant of C15. -/
structure Backing (env : Env) (h : HWorld) : Prop where
  reg : RegInv h.w.st.reg
  native : ∀ i p, h.w.st.reg.getPair i = some p → p.owner = .module →
    h.w.st.bank.get env.modAddr p.denom = h.w.evm.supply p.addr + h.destroyed.get p.addr
  nativeCode : ∀ i p, h.w.st.reg.getPair i = some p → p.owner = .module → h.w.evm.hasCode p.addr = true
  external : ∀ i p, h.w.st.reg.getPair i = some p → p.owner = .external →
    h.w.st.bank.supply p.denom ≤ h.w.evm.balOf p.addr env.modAddr
  noCodeNoSupply : ∀ c, h.w.evm.hasCode c = false → h.w.evm.supply c = 0

/-- the bank, restricted to one denomination, is unchanged -/
def dFrame (b b' : Bank) (d : Denom) : Prop := (∀ a, b'.get a d = b.get a d) ∧ b'.supply d = b.supply d
theorem dFrame_refl (b : Bank) (d : Denom) : dFrame b b d := ⟨fun _ => rfl, rfl⟩
theorem dFrame_trans {b1 b2 b3 : Bank} {d : Denom} (h1 : dFrame b1 b2 d) (h2 : dFrame b2 b3 d) : dFrame b1 b3 d :=
  ⟨fun a => (h2.1 a).trans (h1.1 a), h2.2.trans h1.2⟩

def effDenom : Eff → Denom
  | .xfer _ _ d _ => d
  | .mint _ d _ => d
  | .burn _ d _ => d

theorem single_other_denom {b b' : Bank} {e : Eff} (h : b.applyAll [e] = .ok b') (d : Denom) (hne : d ≠ effDenom e) :
    dFrame b b' d := by
  have flow := Bank.applyAll_flow _ _ _ h
  constructor
  · intro a
    have f := (flow a d).1
    cases e <;>
      simp only [effDenom] at hne <;>
      simp only [inflow, outflow, sumBy_cons, sumBy_nil, Eff.inflow, Eff.outflow, hne, and_false, if_false] at f <;>
      omega
  · have f := (flow "" d).2
    cases e <;>
      simp only [effDenom] at hne <;>
      simp only [minted, burned, sumBy_cons, sumBy_nil, Eff.minted, Eff.burned, hne, if_false] at f <;>
      omega

/-- **Generic preservation** for operations that leave the registry's lookups alone: everything the
operation touches is confined to denominations in `TD` and contracts in `TC`; for the pairs that are
touched the invariant is shown directly, all others carry over. -/
theorem backing_confined {env : Env} {h h' : HWorld} (hB : Backing env h) (TD : Denom → Prop) (TC : Addr → Prop)
    (hreg : ∀ i, h'.w.st.reg.getPair i = h.w.st.reg.getPair i) (hI' : RegInv h'.w.st.reg)
    (hbank : ∀ d, ¬ TD d → dFrame h.w.st.bank h'.w.st.bank d)
    (htokB : ∀ c x, ¬ TC c → h'.w.evm.balOf c x = h.w.evm.balOf c x)
    (htokS : ∀ c, ¬ TC c → h'.w.evm.supply c = h.w.evm.supply c)
    (hcode : ∀ c, h.w.evm.hasCode c = true → h'.w.evm.hasCode c = true)
    (hghost : ∀ c, ¬ TC c → h'.destroyed.get c = h.destroyed.get c)
    (htarget : ∀ i q, h.w.st.reg.getPair i = some q → (TD q.denom ∨ TC q.addr) →
      (q.owner = .module → h'.w.st.bank.get env.modAddr q.denom = h'.w.evm.supply q.addr + h'.destroyed.get q.addr) ∧
      (q.owner = .external → h'.w.st.bank.supply q.denom ≤ h'.w.evm.balOf q.addr env.modAddr))
    (hncs : ∀ c, h'.w.evm.hasCode c = false → h'.w.evm.supply c = 0) : Backing env h' := by
  refine ⟨hI', ?_, ?_, ?_, hncs⟩
  · intro i q hq ho
    rw [hreg] at hq
    by_cases ht : TD q.denom ∨ TC q.addr
    · exact (htarget i q hq ht).1 ho
    · have h1 : ¬ TD q.denom := fun e => ht (Or.inl e)
      have h2 : ¬ TC q.addr := fun e => ht (Or.inr e)
      rw [(hbank _ h1).1, htokS _ h2, hghost _ h2]
      exact hB.native i q hq ho
  · intro i q hq ho
    rw [hreg] at hq
    exact hcode _ (hB.nativeCode i q hq ho)
  · intro i q hq ho
    rw [hreg] at hq
    by_cases ht : TD q.denom ∨ TC q.addr
    · exact (htarget i q hq ht).2 ho
    · have h1 : ¬ TD q.denom := fun e => ht (Or.inl e)
      have h2 : ¬ TC q.addr := fun e => ht (Or.inr e)
      rw [(hbank _ h1).2, htokB _ _ h2]
      exact hB.external i q hq ho

/-- **Generic preservation** for operations that rewrite the registry but leave both ledgers' amounts
alone: every pair of the new registry is an old pair (same address, denomination, owner; ghost
untouched) or satisfies the invariant directly. -/
theorem backing_registry {env : Env} {h h' : HWorld} (hB : Backing env h) (hI' : RegInv h'.w.st.reg)
    (hbank : ∀ a d, h'.w.st.bank.get a d = h.w.st.bank.get a d) (hsupB : ∀ d, h'.w.st.bank.supply d = h.w.st.bank.supply d)
    (htokB : ∀ c x, h'.w.evm.balOf c x = h.w.evm.balOf c x) (htokS : ∀ c, h'.w.evm.supply c = h.w.evm.supply c)
    (hcode : ∀ c, h.w.evm.hasCode c = true → h'.w.evm.hasCode c = true)
    (hpairs : ∀ i q, h'.w.st.reg.getPair i = some q →
      (∃ j q0, h.w.st.reg.getPair j = some q0 ∧ q0.addr = q.addr ∧ q0.denom = q.denom ∧ q0.owner = q.owner ∧
        h'.destroyed.get q.addr = h.destroyed.get q.addr) ∨
      ((q.owner = .module → h'.w.st.bank.get env.modAddr q.denom = h'.w.evm.supply q.addr + h'.destroyed.get q.addr ∧
          h'.w.evm.hasCode q.addr = true) ∧
       (q.owner = .external → h'.w.st.bank.supply q.denom ≤ h'.w.evm.balOf q.addr env.modAddr)))
    (hncs : ∀ c, h'.w.evm.hasCode c = false → h'.w.evm.supply c = 0) : Backing env h' := by
  refine ⟨hI', ?_, ?_, ?_, hncs⟩
  · intro i q hq ho
    rcases hpairs i q hq with ⟨j, q0, hq0, ea, ed, eo, eg⟩ | hd
    · rw [hbank, htokS, eg, ← ea, ← ed]
      exact hB.native j q0 hq0 (eo.trans ho)
    · exact (hd.1 ho).1
  · intro i q hq ho
    rcases hpairs i q hq with ⟨j, q0, hq0, ea, ed, eo, eg⟩ | hd
    · rw [← ea]; exact hcode _ (hB.nativeCode j q0 hq0 (eo.trans ho))
    · exact (hd.1 ho).2
  · intro i q hq ho
    rcases hpairs i q hq with ⟨j, q0, hq0, ea, ed, eo, eg⟩ | hd
    · rw [hsupB, htokB, ← ea, ← ed]
      exact hB.external j q0 hq0 (eo.trans ho)
    · exact hd.2 ho

end Token
end Erc20
end CV
