import CantoVerif.Model.Coinswap
/-!
# Inversion lemmas for the coinswap model (core Lean only).

Each says what a *successful* run of a model function establishes: which guards held, which
amounts were computed (as closed integer expressions), and which effect list was applied to the
bank.  The property files derive everything from these and from `Bank.applyAll_flow`.
-/
namespace CV
namespace Coinswap

/-! ### kernels -/

theorem inputPrice_ok {a X Y fee b : Nat} (h : inputPrice a X Y fee = .ok b) :
    fee ≤ S18 ∧ X * S18 + a * (S18 - fee) ≠ 0 ∧
    b = a * (S18 - fee) * Y / (X * S18 + a * (S18 - fee)) := by
  unfold inputPrice at h
  obtain ⟨df, h1, h⟩ := bind_ok h
  obtain ⟨df', h2, h⟩ := bind_ok h
  obtain ⟨awf, h3, h⟩ := bind_ok h
  obtain ⟨num, h4, h⟩ := bind_ok h
  obtain ⟨d0, h5, h⟩ := bind_ok h
  obtain ⟨den, h6, h⟩ := bind_ok h
  obtain ⟨e1, hle⟩ := Dec.sub_ok h1
  have e2 := SdkInt.ofBig_ok h2
  obtain ⟨e3, _⟩ := SdkInt.mul_ok h3
  obtain ⟨e4, _⟩ := SdkInt.mul_ok h4
  obtain ⟨e5, _⟩ := SdkInt.mul_ok h5
  obtain ⟨e6, _⟩ := SdkInt.add_ok h6
  obtain ⟨e7, hne⟩ := SdkInt.quo_ok h
  subst e1 e2 e3 e4 e5 e6
  exact ⟨hle, hne, e7⟩

theorem outputPrice_ok {out X Y fee s : Nat} (h : outputPrice out X Y fee = .ok s) :
    fee ≤ S18 ∧ out ≤ Y ∧ (Y - out) * (S18 - fee) ≠ 0 ∧
    s = X * out * S18 / ((Y - out) * (S18 - fee)) + 1 := by
  unfold outputPrice at h
  obtain ⟨df, h1, h⟩ := bind_ok h
  obtain ⟨n0, h2, h⟩ := bind_ok h
  obtain ⟨num, h3, h⟩ := bind_ok h
  obtain ⟨r, h4, h⟩ := bind_ok h
  obtain ⟨df', h5, h⟩ := bind_ok h
  obtain ⟨den, h6, h⟩ := bind_ok h
  obtain ⟨q, h7, h⟩ := bind_ok h
  obtain ⟨e1, hle⟩ := Dec.sub_ok h1
  obtain ⟨e2, _⟩ := SdkInt.mul_ok h2
  obtain ⟨e3, _⟩ := SdkInt.mul_ok h3
  obtain ⟨e4, hle2⟩ := SdkInt.sub_ok h4
  have e5 := SdkInt.ofBig_ok h5
  obtain ⟨e6, _⟩ := SdkInt.mul_ok h6
  obtain ⟨e7, hne⟩ := SdkInt.quo_ok h7
  obtain ⟨e8, _⟩ := SdkInt.add_ok h
  subst e1 e2 e3 e4 e5 e6 e7
  exact ⟨hle, hle2, hne, e8⟩

theorem addLiveAmounts_ok {exact maxStd X Y L s m d : Nat}
    (h : addLiveAmounts exact maxStd X Y L = .ok (s, m, d)) :
    X ≤ maxStd ∧ X ≠ 0 ∧ s = min exact (maxStd - X) ∧ m = L * s / X ∧ d = Y * s / X + 1 := by
  unfold addLiveAmounts at h
  obtain ⟨room, h1, h⟩ := bind_ok h
  obtain ⟨m0, h2, h⟩ := bind_ok h
  obtain ⟨mint, h3, h⟩ := bind_ok h
  obtain ⟨d0, h4, h⟩ := bind_ok h
  obtain ⟨d1, h5, h⟩ := bind_ok h
  obtain ⟨dep, h6, h⟩ := bind_ok h
  obtain ⟨e1, hle⟩ := SdkInt.sub_ok h1
  obtain ⟨e2, _⟩ := SdkInt.mul_ok h2
  obtain ⟨e3, hne⟩ := SdkInt.quo_ok h3
  obtain ⟨e4, _⟩ := SdkInt.mul_ok h4
  obtain ⟨e5, _⟩ := SdkInt.quo_ok h5
  obtain ⟨e6, _⟩ := SdkInt.add_ok h6
  injection h with h
  simp only [Prod.mk.injEq] at h
  obtain ⟨hs, hm, hd⟩ := h
  subst e1 e2 e3 e4 e5 e6 hs hm hd
  exact ⟨hle, hne, rfl, rfl, rfl⟩

theorem removeAmounts_ok {w X Y L a b : Nat} (h : removeAmounts w X Y L = .ok (a, b)) :
    L ≠ 0 ∧ a = w * X / L ∧ b = w * Y / L := by
  unfold removeAmounts at h
  obtain ⟨a0, h1, h⟩ := bind_ok h
  obtain ⟨a', h2, h⟩ := bind_ok h
  obtain ⟨b0, h3, h⟩ := bind_ok h
  obtain ⟨b', h4, h⟩ := bind_ok h
  obtain ⟨e1, _⟩ := SdkInt.mul_ok h1
  obtain ⟨e2, hne⟩ := SdkInt.quo_ok h2
  obtain ⟨e3, _⟩ := SdkInt.mul_ok h3
  obtain ⟨e4, _⟩ := SdkInt.quo_ok h4
  injection h with h
  simp only [Prod.mk.injEq] at h
  subst e1 e2 e3 e4
  exact ⟨hne, h.1.symm, h.2.symm⟩

theorem poolTax_ok {fee rate t : Nat} (h : poolTax fee rate = .ok t) : t = fee * rate / S18 := by
  unfold poolTax at h
  obtain ⟨x, h1, h⟩ := bind_ok h
  have e1 := Dec.mul_ok h1
  have e2 := Dec.truncateInt_ok h
  subst e1
  rw [e2, Dec.mulN_ofInt_left]

/-! ### pool lookup -/

theorem poolFor_ok {env : Env} {s : State} {d1 d2 : Denom} {p : Pool} {esc : Addr}
    (h : poolFor env s d1 d2 = .ok (p, esc)) :
    d1 ≠ d2 ∧ (d1 = s.std ∨ d2 = s.std) ∧
    s.poolByCounter (counterOf s.std d1 d2) = some p ∧
    env.reserve p.lpt = .ok esc ∧ s.bank.hasAcct esc = true := by
  unfold poolFor at h
  obtain ⟨_, h1, h⟩ := bind_ok h
  obtain ⟨_, h2, h⟩ := bind_ok h
  have g1 := ensure_ok h1
  have g2 := ensure_ok h2
  simp only [bne_iff_ne, ne_eq] at g1
  simp only [Bool.or_eq_true, beq_iff_eq] at g2
  split at h
  · cases h
  · rename_i p' hp
    obtain ⟨esc', h3, h⟩ := bind_ok h
    obtain ⟨_, h4, h⟩ := bind_ok h
    have g4 := ensure_ok h4
    injection h with h
    simp only [Prod.mk.injEq] at h
    obtain ⟨rfl, rfl⟩ := h
    exact ⟨g1, g2, hp, h3, g4⟩

theorem checkMaxSwap_ok {p : Params} {q : Denom × Nat} {u : Unit} (h : checkMaxSwap p q = .ok u) :
    ∃ mx, lookupD p.maxSwap q.1 = some mx ∧ q.2 ≤ mx := by
  unfold checkMaxSwap at h
  split at h
  · cases h
  · rename_i mx hm
    exact ⟨mx, hm, by simpa using ensure_ok h⟩

/-! ### trades -/

/-- what a successful sell establishes -/
theorem trade_sell_ok {env : Env} {s : State} {dIn dOut : Denom} {aIn aOut sold bought : Nat} {esc : Addr}
    (h : trade env s dIn aIn dOut aOut false = .ok (sold, bought, esc)) :
    ∃ p, poolFor env s dIn dOut = .ok (p, esc) ∧ sold = aIn ∧
      0 < s.bank.get esc dIn ∧ 0 < s.bank.get esc dOut ∧
      inputPrice aIn (s.bank.get esc dIn) (s.bank.get esc dOut) s.params.fee = .ok bought ∧
      aOut ≤ bought ∧
      checkMaxSwap s.params (quoteLeg s.std dIn aIn dOut bought false) = .ok () := by
  simp only [trade, Bool.false_eq_true, if_false] at h
  obtain ⟨⟨p, esc'⟩, h1, h⟩ := bind_ok h
  simp only at h
  obtain ⟨_, h2, h⟩ := bind_ok h
  obtain ⟨_, h3, h⟩ := bind_ok h
  obtain ⟨b, h4, h⟩ := bind_ok h
  obtain ⟨_, h5, h⟩ := bind_ok h
  obtain ⟨_, h6, h⟩ := bind_ok h
  injection h with h
  simp only [Prod.mk.injEq] at h
  obtain ⟨rfl, rfl, rfl⟩ := h
  exact ⟨p, h1, rfl, by simpa using ensure_ok h2, by simpa using ensure_ok h3, h4,
    by simpa using ensure_ok h5, h6⟩

/-- what a successful buy establishes -/
theorem trade_buy_ok {env : Env} {s : State} {dIn dOut : Denom} {aIn aOut sold bought : Nat} {esc : Addr}
    (h : trade env s dIn aIn dOut aOut true = .ok (sold, bought, esc)) :
    ∃ p, poolFor env s dOut dIn = .ok (p, esc) ∧ bought = aOut ∧
      0 < s.bank.get esc dIn ∧ 0 < s.bank.get esc dOut ∧ aOut < s.bank.get esc dOut ∧
      outputPrice aOut (s.bank.get esc dIn) (s.bank.get esc dOut) s.params.fee = .ok sold ∧
      sold ≤ aIn ∧
      checkMaxSwap s.params (quoteLeg s.std dIn sold dOut aOut true) = .ok () := by
  simp only [trade, if_true] at h
  obtain ⟨⟨p, esc'⟩, h1, h⟩ := bind_ok h
  simp only at h
  obtain ⟨_, h2, h⟩ := bind_ok h
  obtain ⟨_, h3, h⟩ := bind_ok h
  obtain ⟨_, h3', h⟩ := bind_ok h
  obtain ⟨sd, h4, h⟩ := bind_ok h
  obtain ⟨_, h5, h⟩ := bind_ok h
  obtain ⟨_, h6, h⟩ := bind_ok h
  injection h with h
  simp only [Prod.mk.injEq] at h
  obtain ⟨rfl, rfl, rfl⟩ := h
  exact ⟨p, h1, rfl, by simpa using ensure_ok h2, by simpa using ensure_ok h3,
    by simpa using ensure_ok h3', h4, by simpa using ensure_ok h5, h6⟩

/-- everything a successful `SwapCoin` establishes -/
structure SwapFacts (env : Env) (s : State) (m : MsgSwap) (s' : State) (r : Resp) where
  sender : Addr
  rcpt : Addr
  sold : Nat
  bought : Nat
  esc : Addr
  hSender : m.inAddr.decode = .ok sender
  hRcpt : m.outAddr.decode = .ok rcpt
  inPos : 0 < m.inAmt
  outPos : 0 < m.outAmt
  inValid : validDenom m.inDenom = true
  outValid : validDenom m.outDenom = true
  inNotLpt : hasLptPrefix m.inDenom = false
  outNotLpt : hasLptPrefix m.outDenom = false
  denomsNe : m.inDenom ≠ m.outDenom
  dlPos : 0 < m.deadline
  notExpired : pastDeadline s.nowSec s.nowNsec m.deadline = false
  notBlocked : recipientBlocked env m.outAddr = false
  oneStd : m.inDenom = s.std ∨ m.outDenom = s.std
  hTrade : trade env s m.inDenom m.inAmt.toNat m.outDenom m.outAmt.toNat m.isBuy = .ok (sold, bought, esc)
  hBank : s.bank.applyAll (swapEffs sender rcpt esc m.inDenom sold m.outDenom bought) = .ok s'.bank
  hState : s' = { s with bank := s'.bank }
  hResp : r = .swap (if m.isBuy then sold else bought)

theorem swap_ok {env : Env} {s : State} {m : MsgSwap} {s' : State} {r : Resp}
    (h : swap env s m = .ok (s', r)) : Nonempty (SwapFacts env s m s' r) := by
  unfold swap at h
  obtain ⟨_, h1, h⟩ := bind_ok h
  obtain ⟨_, h2, h⟩ := bind_ok h
  obtain ⟨sender, h3, h⟩ := bind_ok h
  obtain ⟨_, h4, h⟩ := bind_ok h
  obtain ⟨_, h5, h⟩ := bind_ok h
  obtain ⟨rcpt, h6, h⟩ := bind_ok h
  obtain ⟨_, h7, h⟩ := bind_ok h
  obtain ⟨_, h8, h⟩ := bind_ok h
  obtain ⟨_, h9, h⟩ := bind_ok h
  obtain ⟨_, h10, h⟩ := bind_ok h
  obtain ⟨_, h11, h⟩ := bind_ok h
  obtain ⟨⟨sold, bought, esc⟩, h12, h⟩ := bind_ok h
  simp only at h
  obtain ⟨bank', h13, h⟩ := bind_ok h
  injection h with h
  simp only [Prod.mk.injEq] at h
  obtain ⟨rfl, rfl⟩ := h
  have g1 := ensure_ok h1
  have g4 := ensure_ok h4
  simp only [validCoin, Bool.and_eq_true, decide_eq_true_eq] at g1 g4
  exact ⟨{ sender := sender, rcpt := rcpt, sold := sold, bought := bought, esc := esc,
           hSender := h3, hRcpt := h6, inPos := g1.2, outPos := g4.2, inValid := g1.1, outValid := g4.1,
           inNotLpt := by simpa using ensure_ok h2, outNotLpt := by simpa using ensure_ok h5,
           denomsNe := by simpa using ensure_ok h7, dlPos := by simpa using ensure_ok h8,
           notExpired := by simpa using ensure_ok h9, notBlocked := by simpa using ensure_ok h10,
           oneStd := by simpa using ensure_ok h11, hTrade := h12, hBank := h13, hState := rfl, hResp := rfl }⟩

/-! ### AddLiquidity -/

theorem initialChecks_ok {p : Params} {exact minLiq : Nat} {u : Unit} (h : initialChecks p exact minLiq = .ok u) :
    exact ≤ p.maxStd ∧ minLiq ≤ exact := by
  unfold initialChecks at h
  obtain ⟨_, h1, h⟩ := bind_ok h
  exact ⟨by simpa using ensure_ok h1, by simpa using ensure_ok h⟩

/-- the three ways `planAdd` succeeds -/
inductive PlanFacts (env : Env) (s : State) (sender : Addr) (tok : Denom) (maxTok exact minLiq : Nat) (plan : AddPlan) : Prop
  | create (tax : Nat) (esc : Addr)
      (hNone : s.poolByCounter tok = none)
      (hTax : poolTax s.params.feeAmt s.params.taxRate = .ok tax) (hTaxLe : tax ≤ s.params.feeAmt)
      (hCap : exact ≤ s.params.maxStd) (hMin : minLiq ≤ exact)
      (hEsc : env.reserve (lptName s.seq) = .ok esc)
      (hPlan : plan = { branch := .create, pool := { counter := tok, lpt := lptName s.seq, escrow := esc },
                        stdIn := exact, tokIn := maxTok, mint := exact,
                        feeEffs := creationFeeEffs env sender s.params.feeDenom s.params.feeAmt tax,
                        pools' := insertPool s.pools { counter := tok, lpt := lptName s.seq, escrow := esc },
                        seq' := s.seq + 1 })
  | refill (pool : Pool)
      (hSome : s.poolByCounter tok = some pool) (hAcct : s.bank.hasAcct pool.escrow = true)
      (hL : s.bank.supply pool.lpt = 0)
      (hCap : exact ≤ s.params.maxStd) (hMin : minLiq ≤ exact)
      (hPlan : plan = { branch := .refill, pool := pool, stdIn := exact, tokIn := maxTok, mint := exact,
                        feeEffs := [], pools' := s.pools, seq' := s.seq })
  | live (pool : Pool) (stdIn mint deposit : Nat)
      (hSome : s.poolByCounter tok = some pool) (hAcct : s.bank.hasAcct pool.escrow = true)
      (hL : s.bank.supply pool.lpt ≠ 0)
      (hRoom : s.bank.get pool.escrow s.std < s.params.maxStd)
      (hAmts : addLiveAmounts exact s.params.maxStd (s.bank.get pool.escrow s.std) (s.bank.get pool.escrow tok)
                 (s.bank.supply pool.lpt) = .ok (stdIn, mint, deposit))
      (hMin : minLiq ≤ mint) (hMax : deposit ≤ maxTok)
      (hPlan : plan = { branch := .live, pool := pool, stdIn := stdIn, tokIn := deposit, mint := mint,
                        feeEffs := [], pools' := s.pools, seq' := s.seq })

theorem planAdd_ok {env : Env} {s : State} {sender : Addr} {tok : Denom} {maxTok exact minLiq : Nat} {plan : AddPlan}
    (h : planAdd env s sender tok maxTok exact minLiq = .ok plan) :
    s.std ≠ tok ∧ 0 < s.params.maxSwapOf tok ∧ PlanFacts env s sender tok maxTok exact minLiq plan := by
  unfold planAdd at h
  obtain ⟨_, h1, h⟩ := bind_ok h
  obtain ⟨_, h2, h⟩ := bind_ok h
  refine ⟨by simpa using ensure_ok h1, by simpa using ensure_ok h2, ?_⟩
  split at h
  · rename_i hNone
    obtain ⟨_, h3, h⟩ := bind_ok h
    obtain ⟨tax, h4, h⟩ := bind_ok h
    obtain ⟨_, h5, h⟩ := bind_ok h
    obtain ⟨_, h6, h⟩ := bind_ok h
    obtain ⟨esc, h7, h⟩ := bind_ok h
    injection h with h
    obtain ⟨c1, c2⟩ := initialChecks_ok h6
    exact .create tax esc hNone h4 (by simpa using ensure_ok h5) c1 c2 h7 h.symm
  · rename_i pool hSome
    obtain ⟨_, h3, h⟩ := bind_ok h
    have hAcct := ensure_ok h3
    dsimp only at h
    split at h
    · rename_i hL
      obtain ⟨_, h4, h⟩ := bind_ok h
      injection h with h
      obtain ⟨c1, c2⟩ := initialChecks_ok h4
      exact .refill pool hSome hAcct hL c1 c2 h.symm
    · rename_i hL
      obtain ⟨_, h4, h⟩ := bind_ok h
      obtain ⟨⟨stdIn, mint, deposit⟩, h5, h⟩ := bind_ok h
      simp only at h
      obtain ⟨_, h6, h⟩ := bind_ok h
      obtain ⟨_, h7, h⟩ := bind_ok h
      injection h with h
      exact .live pool stdIn mint deposit hSome hAcct hL (by simpa using ensure_ok h4) h5
        (by simpa using ensure_ok h6) (by simpa using ensure_ok h7) h.symm

structure AddFacts (env : Env) (s : State) (m : MsgAdd) (s' : State) (r : Resp) where
  sender : Addr
  plan : AddPlan
  hSender : m.sender.decode = .ok sender
  tokValid : validDenom m.tokDenom = true
  maxPos : 0 < m.maxToken
  tokNotLpt : hasLptPrefix m.tokDenom = false
  exactPos : 0 < m.exact
  minNonneg : 0 ≤ m.minLiq
  dlPos : 0 < m.deadline
  notExpired : pastDeadline s.nowSec s.nowNsec m.deadline = false
  hPlan : planAdd env s sender m.tokDenom m.maxToken.toNat m.exact.toNat m.minLiq.toNat = .ok plan
  senderNotBlocked : env.blockedBank.contains sender = false
  hBank : s.bank.applyAll (plan.feeEffs ++
      addEffs env sender plan.pool.escrow s.std plan.stdIn m.tokDenom plan.tokIn plan.pool.lpt plan.mint) = .ok s'.bank
  hState : s' = { s with bank := s'.bank, pools := plan.pools', seq := plan.seq' }
  hResp : r = .add plan.pool.lpt plan.mint

theorem add_ok {env : Env} {s : State} {m : MsgAdd} {s' : State} {r : Resp}
    (h : add env s m = .ok (s', r)) : Nonempty (AddFacts env s m s' r) := by
  unfold add at h
  obtain ⟨_, h1, h⟩ := bind_ok h
  obtain ⟨_, h2, h⟩ := bind_ok h
  obtain ⟨_, h3, h⟩ := bind_ok h
  obtain ⟨_, h4, h⟩ := bind_ok h
  obtain ⟨_, h5, h⟩ := bind_ok h
  obtain ⟨sender, h6, h⟩ := bind_ok h
  obtain ⟨_, h7, h⟩ := bind_ok h
  obtain ⟨plan, h8, h⟩ := bind_ok h
  obtain ⟨_, h9, h⟩ := bind_ok h
  obtain ⟨bank', h10, h⟩ := bind_ok h
  injection h with h
  simp only [Prod.mk.injEq] at h
  obtain ⟨rfl, rfl⟩ := h
  have g1 := ensure_ok h1
  simp only [validCoin, Bool.and_eq_true, decide_eq_true_eq] at g1
  exact ⟨{ sender := sender, plan := plan, hSender := h6, tokValid := g1.1, maxPos := g1.2,
           tokNotLpt := by simpa using ensure_ok h2, exactPos := by simpa using ensure_ok h3,
           minNonneg := by simpa using ensure_ok h4, dlPos := by simpa using ensure_ok h5,
           notExpired := by simpa using ensure_ok h7, hPlan := h8,
           senderNotBlocked := by simpa using ensure_ok h9, hBank := h10, hState := rfl, hResp := rfl }⟩

/-! ### RemoveLiquidity -/

structure RemoveFacts (env : Env) (s : State) (m : MsgRemove) (s' : State) (r : Resp) where
  sender : Addr
  pool : Pool
  stdOut : Nat
  tokOut : Nat
  hSender : m.sender.decode = .ok sender
  minTokNonneg : 0 ≤ m.minToken
  wPos : 0 < m.withdraw
  lptValid : validLptDenom m.lptDenom = true
  minStdNonneg : 0 ≤ m.minStd
  dlPos : 0 < m.deadline
  notExpired : pastDeadline s.nowSec s.nowNsec m.deadline = false
  hPool : s.poolByLpt m.lptDenom = some pool
  hAcct : s.bank.hasAcct pool.escrow = true
  wLe : m.withdraw.toNat ≤ s.bank.supply pool.lpt
  hAmts : removeAmounts m.withdraw.toNat (s.bank.get pool.escrow s.std) (s.bank.get pool.escrow pool.counter)
            (s.bank.supply pool.lpt) = .ok (stdOut, tokOut)
  minStdMet : m.minStd.toNat ≤ stdOut
  minTokMet : m.minToken.toNat ≤ tokOut
  hBank : s.bank.applyAll (removeEffs env sender pool.escrow pool.lpt m.withdraw.toNat s.std stdOut pool.counter tokOut) = .ok s'.bank
  hState : s' = { s with bank := s'.bank }
  hResp : r = .remove (newCoins2 (s.std, stdOut) (pool.counter, tokOut))

theorem remove_ok {env : Env} {s : State} {m : MsgRemove} {s' : State} {r : Resp}
    (h : remove env s m = .ok (s', r)) : Nonempty (RemoveFacts env s m s' r) := by
  unfold remove at h
  obtain ⟨_, h1, h⟩ := bind_ok h
  obtain ⟨_, h2, h⟩ := bind_ok h
  obtain ⟨_, h3, h⟩ := bind_ok h
  obtain ⟨_, h4, h⟩ := bind_ok h
  obtain ⟨_, h5, h⟩ := bind_ok h
  obtain ⟨sender, h6, h⟩ := bind_ok h
  obtain ⟨_, h7, h⟩ := bind_ok h
  split at h
  · cases h
  · rename_i pool hPool
    obtain ⟨_, h8, h⟩ := bind_ok h
    obtain ⟨_, h9, h⟩ := bind_ok h
    obtain ⟨_, h10, h⟩ := bind_ok h
    obtain ⟨_, h11, h⟩ := bind_ok h
    obtain ⟨⟨stdOut, tokOut⟩, h12, h⟩ := bind_ok h
    simp only at h
    obtain ⟨_, h13, h⟩ := bind_ok h
    obtain ⟨_, h14, h⟩ := bind_ok h
    obtain ⟨bank', h15, h⟩ := bind_ok h
    injection h with h
    simp only [Prod.mk.injEq] at h
    obtain ⟨rfl, rfl⟩ := h
    have g2 := ensure_ok h2
    simp only [validCoin, Bool.and_eq_true, decide_eq_true_eq] at g2
    exact ⟨{ sender := sender, pool := pool, stdOut := stdOut, tokOut := tokOut, hSender := h6,
             minTokNonneg := by simpa using ensure_ok h1, wPos := g2.2,
             lptValid := by simpa using ensure_ok h3, minStdNonneg := by simpa using ensure_ok h4,
             dlPos := by simpa using ensure_ok h5, notExpired := by simpa using ensure_ok h7,
             hPool := hPool, hAcct := ensure_ok h8, wLe := by simpa using ensure_ok h11,
             hAmts := h12, minStdMet := by simpa using ensure_ok h13, minTokMet := by simpa using ensure_ok h14,
             hBank := h15, hState := rfl, hResp := rfl }⟩

end Coinswap
end CV
