import CantoVerif.Proofs.Erc20Inv
import CantoVerif.Proofs.Erc20Reg
/-!
# What each operation of the alphabet does to the registry and to the rest of the state
(core Lean only).  Built on the inversion lemmas; consumed by `Props/C15`, `C14`, `C04`.
-/
namespace CV
namespace Erc20
open KMap
variable {σ : Type}

/-! ### message level -/

/-- the dispatch on the owner after the gate and the code check -/
def coinPath (env : Env) (O : Oracle σ) (p : Pair) (d : Denom) (a : Nat) (receiver sender : Addr) :
    World σ → R (World σ × Resp) := fun w1 =>
  match p.owner with
  | .module => convertCoinNativeCoin env O w1 p d a receiver sender
  | .external => convertCoinNativeERC20 env O w1 p d a receiver sender
  | .unspecified => .error (.invalid "undefined owner")

def erc20Path (env : Env) (O : Oracle σ) (p : Pair) (a : Nat) (receiver sender : Addr) :
    World σ → R (World σ × Resp) := fun w1 =>
  match p.owner with
  | .module => convertERC20NativeCoin env O w1 p a receiver sender
  | .external => convertERC20NativeToken env O w1 p a receiver sender
  | .unspecified => .error (.invalid "undefined owner")

structure ConvertCoinFacts (env : Env) (O : Oracle σ) (w : World σ) (m : MsgConvertCoin) (w' : World σ) (r : Resp) where
  sender : Addr
  receiver : Addr
  p : Pair
  hDenom : (validErc20Denom m.denom.s || validIBCDenom m.denom.s) = true
  hNotHex : isHexAddress m.denom.s = false
  hAmt : 0 < m.amount
  hSender : m.sender.decode = .ok sender
  hReceiver : m.receiver.decode = .ok receiver
  hGate : gate env w.st sender receiver (w.st.reg.idOfTok m.denom) = .ok p
  hRest : afterGate O w p (coinPath env O p m.denom.s m.amount.toNat receiver sender) = .ok (w', r)

theorem convertCoin_ok {env : Env} {O : Oracle σ} {w w' : World σ} {m : MsgConvertCoin} {r : Resp}
    (h : convertCoin env O w m = .ok (w', r)) : Nonempty (ConvertCoinFacts env O w m w' r) := by
  unfold convertCoin at h
  obtain ⟨_, h1, h⟩ := bind_ok h
  obtain ⟨_, hx, h⟩ := bind_ok h
  obtain ⟨_, h2, h⟩ := bind_ok h
  obtain ⟨sender, h3, h⟩ := bind_ok h
  obtain ⟨receiver, h4, h⟩ := bind_ok h
  obtain ⟨p, h5, h⟩ := bind_ok h
  have gx : isHexAddress m.denom.s = false := by simpa using ensure_ok hx
  have ga : 0 < m.amount := by simpa using ensure_ok h2
  exact ⟨⟨sender, receiver, p, ensure_ok h1, gx, ga, h3, h4, h5, h⟩⟩

structure ConvertERC20Facts (env : Env) (O : Oracle σ) (w : World σ) (m : MsgConvertERC20) (w' : World σ) (r : Resp) where
  c : Addr
  sender : Addr
  receiver : Addr
  p : Pair
  hContract : m.contract.decode = .ok c
  hAmt : 0 < m.amount
  hReceiver : m.receiver.decode = .ok receiver
  hSender : m.sender.decode = .ok sender
  hGate : gate env w.st sender receiver (get? w.st.reg.byAddr c) = .ok p
  hRest : afterGate O w p (erc20Path env O p m.amount.toNat receiver sender) = .ok (w', r)

theorem convertERC20_ok {env : Env} {O : Oracle σ} {w w' : World σ} {m : MsgConvertERC20} {r : Resp}
    (h : convertERC20 env O w m = .ok (w', r)) : Nonempty (ConvertERC20Facts env O w m w' r) := by
  unfold convertERC20 at h
  obtain ⟨c, h1, h⟩ := bind_ok h
  obtain ⟨_, h2, h⟩ := bind_ok h
  obtain ⟨receiver, h3, h⟩ := bind_ok h
  obtain ⟨sender, h4, h⟩ := bind_ok h
  obtain ⟨p, h5, h⟩ := bind_ok h
  exact ⟨{ c := c, sender := sender, receiver := receiver, p := p, hContract := h1,
           hAmt := by simpa using ensure_ok h2, hReceiver := h3, hSender := h4, hGate := h5, hRest := h }⟩

/-- a conversion path changes nothing of Canto's state but the bank ledger -/
theorem coinPath_frame {env : Env} {O : Oracle σ} {p : Pair} {d : Denom} {a : Nat} {receiver sender : Addr}
    {w1 w' : World σ} {r : Resp} (h : coinPath env O p d a receiver sender w1 = .ok (w', r)) :
    ∃ b, w'.st = { w1.st with bank := b } ∧ r = .converted := by
  unfold coinPath at h
  split at h
  · obtain ⟨F⟩ := convertCoinNativeCoin_ok h; exact ⟨F.bank1, congrArg World.st F.hWorld, F.hResp⟩
  · obtain ⟨F⟩ := convertCoinNativeERC20_ok h; exact ⟨F.bank2, congrArg World.st F.hWorld, F.hResp⟩
  · cases h

theorem erc20Path_frame {env : Env} {O : Oracle σ} {p : Pair} {a : Nat} {receiver sender : Addr}
    {w1 w' : World σ} {r : Resp} (h : erc20Path env O p a receiver sender w1 = .ok (w', r)) :
    ∃ b, w'.st = { w1.st with bank := b } ∧ r = .converted := by
  unfold erc20Path at h
  split at h
  · obtain ⟨F⟩ := convertERC20NativeCoin_ok h; exact ⟨F.bank1, congrArg World.st F.hWorld, F.hResp⟩
  · obtain ⟨F⟩ := convertERC20NativeToken_ok h; exact ⟨F.bank2, congrArg World.st F.hWorld, F.hResp⟩
  · cases h

/-! ### governance -/

structure RegisterCoinFacts (env : Env) (O : Oracle σ) (w : World σ) (base : Denom) (digest : String) (w' : World σ) where
  addr : Addr
  dmeta1 : List (Denom × String)
  hEnabled : w.st.params.enableErc20 = true
  hNoCanto : containsCANTO base = false
  hNotHex : isHexAddress base = false
  hNew : get? w.st.reg.byDenom base = none
  hSupply : 0 < w.st.bank.supply base
  hAddr : env.create w.st.mn = .ok addr
  hCreate : (O (.create addr) w.evm).1.status = .ok
  hWorld : w' = { st := { w.st with reg := w.st.reg.insert { addr := addr, denom := base, enabled := true, owner := .module },
                                    dmeta := dmeta1, mn := w.st.mn + 1 },
                  evm := (O (.create addr) w.evm).2 }

theorem registerCoin_ok {env : Env} {O : Oracle σ} {w w' : World σ} {auth : Bool} {base : Denom} {dg : String} {r : Resp}
    (h : registerCoin env O w auth base dg = .ok (w', r)) :
    auth = true ∧ r = .none ∧ Nonempty (RegisterCoinFacts env O w base dg w') := by
  unfold registerCoin at h
  obtain ⟨_, h0, h⟩ := bind_ok h
  obtain ⟨_, h1, h⟩ := bind_ok h
  obtain ⟨_, h2, h⟩ := bind_ok h
  obtain ⟨_, h3, h⟩ := bind_ok h
  obtain ⟨_, h4, h⟩ := bind_ok h
  obtain ⟨_, h5, h⟩ := bind_ok h
  obtain ⟨dmeta1, h6, h⟩ := bind_ok h
  obtain ⟨_, h7, h⟩ := bind_ok h
  obtain ⟨addr, h8, h⟩ := bind_ok h
  simp only at h
  obtain ⟨ans, h9, h⟩ := bind_ok h
  obtain ⟨hacct, hans, hst, hsnd⟩ := callEVM_ok h9
  injection h with h
  simp only [Prod.mk.injEq] at h
  have g2 : containsCANTO base = false := by simpa using ensure_ok h2
  have g3 : isHexAddress base = false := by simpa using ensure_ok h3
  have g5 : 0 < w.st.bank.supply base := by simpa using ensure_ok h5
  have g9 : (O (.create addr) w.evm).1.status = .ok := by rw [hans]; exact hst
  refine ⟨ensure_ok h0, h.2.symm, ⟨⟨addr, dmeta1, ensure_ok h1, g2, g3, has_false (ensure_ok h4), g5, h8, g9, ?_⟩⟩⟩
  rw [← h.1, hsnd]

structure RegisterERC20Facts (env : Env) (O : Oracle σ) (w : World σ) (c : Addr) (w' : World σ) where
  d : Denom
  e1 : σ
  hEnabled : w.st.params.enableErc20 = true
  hNewAddr : get? w.st.reg.byAddr c = none
  hDenom : env.denomOf c = .ok d
  hNewDenom : get? w.st.reg.byDenom d = none
  hWorld : w' = { st := { w.st with reg := w.st.reg.insert { addr := c, denom := d, enabled := true, owner := .external },
                                    dmeta := put w.st.dmeta d "erc20" },
                  evm := e1 }

theorem registerERC20_ok {env : Env} {O : Oracle σ} {w w' : World σ} {auth : Bool} {c : Addr} {mo : Bool} {r : Resp}
    (h : registerERC20 env O w auth c mo = .ok (w', r)) :
    auth = true ∧ r = .none ∧ mo = true ∧ Nonempty (RegisterERC20Facts env O w c w') := by
  unfold registerERC20 at h
  obtain ⟨_, h0, h⟩ := bind_ok h
  obtain ⟨_, h1, h⟩ := bind_ok h
  obtain ⟨_, h2, h⟩ := bind_ok h
  obtain ⟨e1, h3, h⟩ := bind_ok h
  obtain ⟨d, h4, h⟩ := bind_ok h
  obtain ⟨_, h5, h⟩ := bind_ok h
  obtain ⟨_, h6, h⟩ := bind_ok h
  obtain ⟨_, h7, h⟩ := bind_ok h
  injection h with h
  simp only [Prod.mk.injEq] at h
  exact ⟨ensure_ok h0, h.2.symm, ensure_ok h7,
    ⟨⟨d, e1, ensure_ok h1, has_false (ensure_ok h2), h4, has_false (ensure_ok h6), h.1.symm⟩⟩⟩

theorem toggle_ok {w w' : World σ} {auth : Bool} {t : Tok} {r : Resp} (h : toggle w auth t = .ok (w', r)) :
    auth = true ∧ r = .none ∧ ∃ i p, w.st.reg.idOfTok t = some i ∧ w.st.reg.getPair i = some p ∧
      w' = { w with st := { w.st with reg := w.st.reg.setPair { p with enabled := !p.enabled } } } := by
  unfold toggle at h
  obtain ⟨_, h0, h⟩ := bind_ok h
  split at h
  · cases h
  · rename_i i hi
    split at h
    · cases h
    · rename_i p hp
      injection h with h
      simp only [Prod.mk.injEq] at h
      exact ⟨ensure_ok h0, h.2.symm, i, p, hi, hp, h.1.symm⟩

/-! ### the hook never touches the registry, the params or the nonce -/

/-- the parts of Canto's state that only governance / registration / deletion write -/
def sameCore (a b : State) : Prop :=
  b.reg = a.reg ∧ b.params = a.params ∧ b.dmeta = a.dmeta ∧ b.sendDefault = a.sendDefault ∧
  b.sendOverride = a.sendOverride ∧ b.mn = a.mn

theorem sameCore_refl (a : State) : sameCore a a := ⟨rfl, rfl, rfl, rfl, rfl, rfl⟩
theorem sameCore_trans {a b c : State} (h1 : sameCore a b) (h2 : sameCore b c) : sameCore a c := by
  obtain ⟨a1, a2, a3, a4, a5, a6⟩ := h1
  obtain ⟨b1, b2, b3, b4, b5, b6⟩ := h2
  exact ⟨b1.trans a1, b2.trans a2, b3.trans a3, b4.trans a4, b5.trans a5, b6.trans a6⟩
theorem sameCore_bank (a : State) (b : Bank) : sameCore a { a with bank := b } := ⟨rfl, rfl, rfl, rfl, rfl, rfl⟩

theorem hookLog_core {env : Env} {O : Oracle σ} {w w' : World σ} {l : Log}
    (h : hookLog env O w l = .ok w') : sameCore w.st w'.st := by
  unfold hookLog at h
  split at h
  · injection h with h; subst h; exact sameCore_refl _
  · rename_i p v _
    split at h
    · simp only at h
      split at h
      · injection h with h; subst h; exact sameCore_refl _
      · obtain ⟨b1, _, h⟩ := bind_ok h
        injection h with h; subst h; exact sameCore_bank _ _
    · obtain ⟨b1, _, h⟩ := bind_ok h
      obtain ⟨b2, _, h⟩ := bind_ok h
      injection h with h; subst h; exact sameCore_bank _ _
    · injection h with h; subst h; exact sameCore_refl _

theorem hookLogs_core {env : Env} {O : Oracle σ} (logs : List Log) : ∀ {w w' : World σ},
    hookLogs env O w logs = .ok w' → sameCore w.st w'.st := by
  induction logs with
  | nil => intro w w' h; simp only [hookLogs] at h; injection h with h; subst h; exact sameCore_refl _
  | cons l ls ih =>
    intro w w' h
    simp only [hookLogs] at h
    obtain ⟨w1, h1, h⟩ := bind_ok h
    exact sameCore_trans (hookLog_core h1) (ih h)

theorem postTx_core {env : Env} {O : Oracle σ} {w w' : World σ} {logs : List Log} {r : Resp}
    (h : postTx env O w logs = .ok (w', r)) : sameCore w.st w'.st ∧ r = .none := by
  unfold postTx at h
  split at h
  · injection h with h; simp only [Prod.mk.injEq] at h; rw [← h.1]; exact ⟨sameCore_refl _, h.2.symm⟩
  · obtain ⟨w1, h1, h⟩ := bind_ok h
    injection h with h; simp only [Prod.mk.injEq] at h; rw [← h.1]; exact ⟨hookLogs_core logs h1, h.2.symm⟩

theorem hookTarget_some {env : Env} {s : State} {l : Log} {p : Pair} {v : Nat}
    (h : hookTarget env s l = some (p, v)) :
    ∃ i, get? s.reg.byAddr l.emitter = some i ∧ s.reg.getPair i = some p ∧ p.enabled = true ∧
      l.to = env.modAddr ∧ 0 < v ∧ l.amount = some v := by
  unfold hookTarget at h
  split at h; · cases h
  split at h; · cases h
  split at h; · cases h
  rename_i v' hv
  split at h; · cases h
  rename_i hv0
  split at h; · cases h
  rename_i i hi
  split at h; · cases h
  rename_i q hq
  split at h; · cases h
  rename_i hto
  split at h; · cases h
  rename_i hen
  injection h with h
  simp only [Prod.mk.injEq] at h
  obtain ⟨rfl, rfl⟩ := h
  exact ⟨i, hi, hq, by simpa using hen, by simpa using hto, Nat.pos_of_ne_zero hv0, hv⟩

/-- a log emitted by the contract of a pair that is toggled off is not a conversion candidate -/
theorem hookTarget_pair_disabled {env : Env} {s : State} {l : Log} {i : PairId} {p : Pair}
    (hi : get? s.reg.byAddr l.emitter = some i) (hp : s.reg.getPair i = some p) (hoff : p.enabled = false) :
    hookTarget env s l = none := by
  unfold hookTarget
  split; · rfl
  split; · rfl
  split; · rfl
  split; · rfl
  simp only [hi, hp]
  split; · rfl
  simp [hoff]

/-- a log that does not go to the module address is not a conversion candidate (whatever the switches) -/
theorem hookTarget_not_to_module {env : Env} {s : State} {l : Log} (hto : l.to ≠ env.modAddr) :
    hookTarget env s l = none := by
  unfold hookTarget
  split; · rfl
  split; · rfl
  split; · rfl
  split; · rfl
  split; · rfl
  split; · rfl
  first | rfl | rw [if_pos hto]

theorem hookLogs_no_target {env : Env} {O : Oracle σ} (logs : List Log) : ∀ (w : World σ),
    (∀ l ∈ logs, hookTarget env w.st l = none) → hookLogs env O w logs = .ok w := by
  induction logs with
  | nil => intro w _; rfl
  | cons l ls ih =>
    intro w h
    have h1 : hookLog env O w l = .ok w := by
      unfold hookLog; rw [h l (List.mem_cons_self ..)]
    simp only [hookLogs, h1]
    exact ih w (fun l' hl' => h l' (List.mem_cons_of_mem _ hl'))

/-! ### how a successful step changes the registry -/

inductive RegChange (r : Registry) : Registry → Prop
  | same : RegChange r r
  | insert (p : Pair) (hd : get? r.byDenom p.denom = none) (ha : get? r.byAddr p.addr = none)
      (hx : isHexAddress p.denom = false) (he : p.enabled = true) : RegChange r (r.insert p)
  | toggle (p : Pair) (h : r.getPair p.id = some p) : RegChange r (r.setPair { p with enabled := !p.enabled })
  | delete (p : Pair) (h : r.getPair p.id = some p) : RegChange r (r.delete p)
  | reimport : RegChange r (reimport r)

theorem RegChange.inv {r r' : Registry} (h : RegInv r) (c : RegChange r r') : RegInv r' := by
  cases c with
  | same => exact h
  | insert p hd ha hx _ => exact regInv_insert h p hd ha hx
  | toggle p hp => exact regInv_setPair h p _ hp rfl rfl
  | delete p hp => exact regInv_delete h p hp
  | reimport => exact regInv_reimport h

/-- what the harness-supplied tables are assumed to satisfy -/
structure EnvOK (env : Env) : Prop where
  /-- `CreateDenom(contract.String())` = `"erc20/0x…"` never has the form of a hex address -/
  erc20DenomNotHex : ∀ c d, env.denomOf c = .ok d → isHexAddress d = false

/-- `fresh_deploy_addr`: the `CREATE` address the EVM hands out for the module's next nonce is not
already in the address index.  On the real EVM this holds because a `CREATE` at an address that
already carries code fails, and a registered ERC-20 answered `name()`/`symbol()`/`decimals()`, i.e.
carried code, when it was registered.  The keeper itself does not check it. -/
def Fresh (env : Env) (s : State) : Op → Prop
  | .registerCoin _ _ _ => ∀ a, env.create s.mn = .ok a → get? s.reg.byAddr a = none
  | _ => True

theorem afterGate_regChange {O : Oracle σ} {w w' : World σ} {p : Pair} {conv : World σ → R (World σ × Resp)} {r : Resp}
    (hp : w.st.reg.getPair p.id = some p)
    (hconv : ∀ w1 w2 r2, w1.st = w.st → conv w1 = .ok (w2, r2) → ∃ b, w2.st = { w1.st with bank := b })
    (h : afterGate O w p conv = .ok (w', r)) : RegChange w.st.reg w'.st.reg := by
  rcases afterGate_ok h with ⟨_, hc⟩ | ⟨_, hw, _⟩
  · obtain ⟨b, hb⟩ := hconv { w with evm := (O (.code p.addr) w.evm).2 } _ _ rfl hc
    rw [hb]; exact .same
  · rw [hw]; exact .delete p hp

theorem step_regChange {env : Env} {O : Oracle σ} {w w' : World σ} {op : Op} {r : Resp}
    (hE : EnvOK env) (hI : RegInv w.st.reg) (hF : Fresh env w.st op)
    (h : step env O w op = .ok (w', r)) : RegChange w.st.reg w'.st.reg := by
  cases op with
  | convertCoin m =>
    obtain ⟨F⟩ := convertCoin_ok (by simpa [step] using h)
    obtain ⟨_, ⟨i, _, hi⟩, _⟩ := gate_ok F.hGate
    refine afterGate_regChange (hI.getPair_id hi) ?_ F.hRest
    intro w1 w2 r2 _ hc
    obtain ⟨b, hb, _⟩ := coinPath_frame hc
    exact ⟨b, hb⟩
  | convertERC20 m =>
    obtain ⟨F⟩ := convertERC20_ok (by simpa [step] using h)
    obtain ⟨_, ⟨i, _, hi⟩, _⟩ := gate_ok F.hGate
    refine afterGate_regChange (hI.getPair_id hi) ?_ F.hRest
    intro w1 w2 r2 _ hc
    obtain ⟨b, hb, _⟩ := erc20Path_frame hc
    exact ⟨b, hb⟩
  | registerCoin auth base dg =>
    obtain ⟨_, _, ⟨F⟩⟩ := registerCoin_ok (by simpa [step] using h)
    rw [F.hWorld]
    exact .insert _ F.hNew (hF F.addr F.hAddr) F.hNotHex rfl
  | registerERC20 auth c mo =>
    obtain ⟨_, _, _, ⟨F⟩⟩ := registerERC20_ok (by simpa [step] using h)
    rw [F.hWorld]
    exact .insert _ F.hNewDenom F.hNewAddr (hE.erc20DenomNotHex c F.d F.hDenom) rfl
  | toggle auth t =>
    obtain ⟨_, _, i, p, _, hp, hw⟩ := toggle_ok (by simpa [step] using h)
    rw [hw]
    exact .toggle p (hI.getPair_id hp)
  | updateParams auth p =>
    simp only [step, updateParams] at h
    obtain ⟨_, _, h⟩ := bind_ok h
    injection h with h; simp only [Prod.mk.injEq] at h; rw [← h.1]; exact .same
  | hook logs =>
    obtain ⟨hc, _⟩ := postTx_core (by simpa [step] using h)
    rw [hc.1]; exact .same
  | send src dst d amt =>
    simp only [step] at h
    obtain ⟨b, _, h⟩ := bind_ok h
    injection h with h; simp only [Prod.mk.injEq] at h; rw [← h.1]; exact .same
  | setSendEnabled d v =>
    simp only [step] at h
    injection h with h; simp only [Prod.mk.injEq] at h; rw [← h.1]; exact .same
  | setSendDefault v =>
    simp only [step] at h
    injection h with h; simp only [Prod.mk.injEq] at h; rw [← h.1]; exact .same
  | reimport =>
    simp only [step] at h
    injection h with h; simp only [Prod.mk.injEq] at h; rw [← h.1]; exact .reimport

end Erc20
end CV
