import CantoVerif.Model.Govshuttle
/-!
# Hexadecimal lemmas for C20: the lenient decoders of go-ethereum on well-formed and malformed input.
-/
namespace CV
namespace Govshuttle

theorem hexVal_hexDigit : ∀ n, n < 16 → hexVal (hexDigit n) = some n := by decide

theorem hexVal_lt {c a : Nat} (h : hexVal c = some a) : a < 16 := by
  unfold hexVal at h
  split at h
  · injection h with h; omega
  · split at h
    · injection h with h; omega
    · split at h
      · injection h with h; omega
      · cases h

/-- a hex digit re-encodes to its lower-case spelling -/
theorem hexDigit_hexVal {c a : Nat} (h : hexVal c = some a) : hexDigit a = lowerByte c := by
  unfold hexVal at h
  unfold hexDigit lowerByte
  split at h
  · injection h with h; subst h
    rw [if_pos (by omega), if_neg (by omega)]; omega
  · split at h
    · injection h with h; subst h
      rw [if_neg (by omega), if_neg (by omega)]; omega
    · split at h
      · injection h with h; subst h
        rw [if_neg (by omega), if_pos (by omega)]; omega
      · cases h

/-- the digits `hex.EncodeToString` writes are never `x` / `X` -/
theorem hexDigit_ne_x : ∀ n, n < 16 → hexDigit n ≠ 120 ∧ hexDigit n ≠ 88 := by decide

theorem isBytes_cons {b : Nat} {bs : Bytes} : IsBytes (b :: bs) ↔ b < 256 ∧ IsBytes bs := by
  unfold IsBytes; simp

theorem hex2Bytes_cons_cons (b : Nat) (hb : b < 256) (t : Bytes) :
    hex2Bytes (hexDigit (b / 16) :: hexDigit (b % 16) :: t) = b :: hex2Bytes t := by
  have h1 : hexVal (hexDigit (b / 16)) = some (b / 16) := hexVal_hexDigit _ (by omega)
  have h2 : hexVal (hexDigit (b % 16)) = some (b % 16) := hexVal_hexDigit _ (by omega)
  rw [hex2Bytes, h1, h2]
  simp only [List.cons.injEq, and_true]
  omega

/-- decoding an encoded prefix followed by anything: the prefix comes back, decoding continues behind it -/
theorem hex2Bytes_append (bs : Bytes) (hb : IsBytes bs) (t : Bytes) :
    hex2Bytes (hexEncode bs ++ t) = bs ++ hex2Bytes t := by
  induction bs with
  | nil => simp [hexEncode]
  | cons b bs ih =>
    obtain ⟨h1, h2⟩ := isBytes_cons.mp hb
    simp only [hexEncode, List.cons_append]
    rw [hex2Bytes_cons_cons b h1, ih h2]

theorem hex2Bytes_nil : hex2Bytes [] = [] := by simp [hex2Bytes]
theorem hex2Bytes_single (d : Nat) : hex2Bytes [d] = [] := by simp [hex2Bytes]
theorem hex2Bytes_bad_first {c : Nat} (hc : hexVal c = none) (t : Bytes) : hex2Bytes (c :: t) = [] := by
  cases t with
  | nil => exact hex2Bytes_single c
  | cons q r => simp [hex2Bytes, hc]
theorem hex2Bytes_bad_second {c : Nat} (hc : hexVal c = none) (d : Nat) (t : Bytes) : hex2Bytes (d :: c :: t) = [] := by
  rw [hex2Bytes, hc]
  cases hexVal d <;> rfl

/-- **hex_roundtrip**: for every byte string, decoding its hex encoding gives it back -/
theorem hex_roundtrip (bs : Bytes) (hb : IsBytes bs) : hex2Bytes (hexEncode bs) = bs := by
  have := hex2Bytes_append bs hb []
  simpa [hex2Bytes_nil] using this

/-- lenient behaviour 1: decoding stops at the first byte that is not a hex digit (even offset) -/
theorem hex2Bytes_stops_even (bs : Bytes) (hb : IsBytes bs) {c : Nat} (hc : hexVal c = none) (t : Bytes) :
    hex2Bytes (hexEncode bs ++ c :: t) = bs := by
  rw [hex2Bytes_append bs hb, hex2Bytes_bad_first hc]; simp

/-- lenient behaviour 2: … (odd offset: the half-decoded byte is dropped as well) -/
theorem hex2Bytes_stops_odd (bs : Bytes) (hb : IsBytes bs) {c : Nat} (hc : hexVal c = none) (d : Nat) (t : Bytes) :
    hex2Bytes (hexEncode bs ++ d :: c :: t) = bs := by
  rw [hex2Bytes_append bs hb, hex2Bytes_bad_second hc]; simp

/-- lenient behaviour 3: a trailing single digit (odd length) is dropped -/
theorem hex2Bytes_odd (bs : Bytes) (hb : IsBytes bs) (d : Nat) : hex2Bytes (hexEncode bs ++ [d]) = bs := by
  rw [hex2Bytes_append bs hb, hex2Bytes_single]; simp

/-- whatever the input, the decoder returns bytes -/
theorem hex2Bytes_isBytes (s : Bytes) : IsBytes (hex2Bytes s) := by
  fun_induction hex2Bytes s with
  | case1 p q rest a b ha hb ih =>
    intro x hx
    simp only [List.mem_cons] at hx
    rcases hx with hx | hx
    · have := hexVal_lt ha; have := hexVal_lt hb; omega
    · exact ih x hx
  | case2 => intro x hx; cases hx
  | case3 => intro x hx; cases hx

/-- on well-formed hex (even number of hex digits, nothing else) the decoder loses nothing: re-encoding gives
the input back up to the case of the digits, and every two digits give one byte -/
theorem hex2Bytes_wellFormed (s : Bytes) (h : wellFormedHex s = true) :
    hexEncode (hex2Bytes s) = s.map lowerByte ∧ 2 * (hex2Bytes s).length = s.length := by
  fun_induction hex2Bytes s with
  | case1 p q rest a b ha hb ih =>
    have hr : wellFormedHex rest = true := by
      unfold wellFormedHex at h ⊢
      simp only [List.length_cons, List.all_cons, Bool.and_eq_true, beq_iff_eq] at h ⊢
      exact ⟨by omega, h.2.2.2⟩
    obtain ⟨i1, i2⟩ := ih hr
    have ha' := hexVal_lt ha
    have hb' := hexVal_lt hb
    refine ⟨?_, by simp only [List.length_cons]; omega⟩
    simp only [hexEncode, List.map_cons]
    have e1 : (16 * a + b) / 16 = a := by omega
    have e2 : (16 * a + b) % 16 = b := by omega
    rw [e1, e2, hexDigit_hexVal ha, hexDigit_hexVal hb, i1]
  | case2 p q rest hno =>
    exfalso
    unfold wellFormedHex at h
    simp only [List.all_cons, Bool.and_eq_true] at h
    obtain ⟨_, hp, hq, _⟩ := h
    cases hpv : hexVal p with
    | none => rw [hpv] at hp; simp at hp
    | some a =>
      cases hqv : hexVal q with
      | none => rw [hqv] at hq; simp at hq
      | some b => exact hno a b hpv hqv
  | case3 s hne =>
    match s, hne with
    | [], _ => simp [hexEncode]
    | [x], _ => unfold wellFormedHex at h; simp at h
    | p :: q :: r, hne => exact absurd rfl (hne p q r)

theorem hexEncode_length (bs : Bytes) : (hexEncode bs).length = 2 * bs.length := by
  induction bs with
  | nil => rfl
  | cons b bs ih => simp only [hexEncode, List.length_cons, ih]; omega

theorem has0x_hexEncode (bs : Bytes) (hb : IsBytes bs) : has0x (hexEncode bs) = false := by
  cases bs with
  | nil => rfl
  | cons b bs =>
    obtain ⟨h1, _⟩ := isBytes_cons.mp hb
    have := hexDigit_ne_x (b % 16) (by omega)
    simp only [hexEncode]
    unfold has0x
    split
    · rename_i x _ heq
      simp only [List.cons.injEq] at heq
      obtain ⟨_, h2, _⟩ := heq
      simp only [Bool.or_eq_false_iff, beq_eq_false_iff_ne, ne_eq]
      rw [← h2]; exact this
    · rfl

/-- `common.BytesToAddress` always yields 20 bytes -/
theorem bytesToAddress_length (b : Bytes) : (bytesToAddress b).length = 20 := by
  unfold bytesToAddress
  by_cases h : b.length > 20
  · simp only [h, if_true, List.length_append, List.length_replicate, List.length_drop]; omega
  · simp only [h, if_false, List.length_append, List.length_replicate]; omega

theorem hexToAddress_length (s : Bytes) : (hexToAddress s).length = 20 := bytesToAddress_length _

theorem bytesToAddress_id (a : Bytes) (hl : a.length = 20) : bytesToAddress a = a := by
  unfold bytesToAddress
  simp [hl]

/-- a 20-byte address written as 40 hex digits is read back exactly -/
theorem hexToAddress_encode (a : Bytes) (hb : IsBytes a) (hl : a.length = 20) : hexToAddress (hexEncode a) = a := by
  unfold hexToAddress fromHex
  have hlen : (hexEncode a).length % 2 = 0 := by rw [hexEncode_length]; omega
  simp only [has0x_hexEncode a hb]
  have : ¬ ((hexEncode a).length % 2 = 1) := by omega
  simp only [Bool.false_eq_true, if_false, this]
  rw [hex_roundtrip a hb, bytesToAddress_id a hl]

/-- … also with the `0x` prefix -/
theorem hexToAddress_encode_0x (a : Bytes) (hb : IsBytes a) (hl : a.length = 20) :
    hexToAddress (48 :: 120 :: hexEncode a) = a := by
  unfold hexToAddress fromHex
  have hlen : (hexEncode a).length % 2 = 0 := by rw [hexEncode_length]; omega
  have h0 : has0x (48 :: 120 :: hexEncode a) = true := by simp [has0x]
  have : ¬ ((hexEncode a).length % 2 = 1) := by omega
  simp only [h0, if_true, List.drop_succ_cons, List.drop_zero, this, if_false]
  rw [hex_roundtrip a hb, bytesToAddress_id a hl]

end Govshuttle
end CV
