import CantoVerif.Model.Epochs
/-!
# Helper lemmas about the epochs clock: what `BeginBlocker` computes, independently of the listeners.

`beginBlock_ok`: whenever `BeginBlocker` completes, with *any* listeners, the new records are the
old ones mapped through `advance`, the notifications are the concatenation of the per-record
`calls` in store order, and the listener state is the result of replaying exactly these
notifications.  Everything C12 says is then a statement about the pure functions `advance` and
`calls`, and everything C05/C13 say about blocks is a statement about `runCalls`.
-/
namespace CV
namespace Epochs

theorem runCalls_append {σ : Type} (H : Hooks σ) (a b : List Call) : ∀ (st : σ),
    runCalls H (a ++ b) st = (runCalls H a st >>= fun st' => runCalls H b st') := by
  induction a with
  | nil => intro st; rfl
  | cons c cs ih =>
    intro st
    cases c with
    | afterEnd id n =>
      simp only [List.cons_append, runCalls]
      cases H.afterEnd st id n with
      | error e => rfl
      | ok st1 => exact ih st1
    | beforeStart id n =>
      simp only [List.cons_append, runCalls]
      cases H.beforeStart st id n with
      | error e => rfl
      | ok st1 => exact ih st1

theorem stepInfo_ok {σ : Type} {H : Hooks σ} {now height : Int} {e e' : EpochInfo} {st st' : σ} {cs : List Call}
    (h : stepInfo H now height e st = .ok (e', st', cs)) :
    e' = advance now height e ∧ cs = calls now e ∧ runCalls H cs st = .ok st' := by
  unfold stepInfo at h
  unfold advance calls
  cases ha : action e now with
  | start =>
    rw [ha] at h
    simp only at h
    obtain ⟨st1, h1, h⟩ := bind_ok h
    injection h with h
    simp only [Prod.mk.injEq] at h
    obtain ⟨rfl, rfl, rfl⟩ := h
    refine ⟨rfl, rfl, ?_⟩
    simp only [runCalls, startInitial] at *
    rw [h1]; rfl
  | tick =>
    rw [ha] at h
    simp only at h
    obtain ⟨st1, h1, h⟩ := bind_ok h
    obtain ⟨st2, h2, h⟩ := bind_ok h
    injection h with h
    simp only [Prod.mk.injEq] at h
    obtain ⟨rfl, rfl, rfl⟩ := h
    refine ⟨rfl, rfl, ?_⟩
    simp only [runCalls, endEpoch] at *
    rw [h1]
    show (H.beforeStart st1 e.id (e.cur + 1) >>= fun st' => runCalls H [] st') = _
    rw [h2]; rfl
  | idle =>
    rw [ha] at h
    simp only at h
    injection h with h
    simp only [Prod.mk.injEq] at h
    obtain ⟨rfl, rfl, rfl⟩ := h
    exact ⟨rfl, rfl, rfl⟩

/-- **What `BeginBlocker` computes**, for any listeners. -/
theorem beginBlock_ok {σ : Type} (H : Hooks σ) (now height : Int) : ∀ (infos : List EpochInfo) (st : σ)
    (infos' : List EpochInfo) (st' : σ) (log : List Call),
    beginBlock H now height infos st = .ok (infos', st', log) →
    infos' = infos.map (advance now height) ∧ log = infos.flatMap (calls now) ∧ runCalls H log st = .ok st' := by
  intro infos
  induction infos with
  | nil =>
    intro st infos' st' log h
    simp only [beginBlock] at h
    injection h with h
    simp only [Prod.mk.injEq] at h
    obtain ⟨rfl, rfl, rfl⟩ := h
    exact ⟨rfl, rfl, rfl⟩
  | cons e es ih =>
    intro st infos' st' log h
    simp only [beginBlock] at h
    obtain ⟨r1, h1, h⟩ := bind_ok h
    obtain ⟨r2, h2, h⟩ := bind_ok h
    injection h with h
    simp only [Prod.mk.injEq] at h
    obtain ⟨rfl, rfl, rfl⟩ := h
    obtain ⟨e1, st1, cs1⟩ := r1
    obtain ⟨es2, st2, cs2⟩ := r2
    obtain ⟨he, hc, hr⟩ := stepInfo_ok h1
    obtain ⟨hes, hcs, hrs⟩ := ih _ _ _ _ h2
    simp only at *
    refine ⟨by rw [he, hes]; rfl, by rw [hc, hcs]; rfl, ?_⟩
    rw [runCalls_append, hr]
    exact hrs

/-- conversely: if replaying the notifications succeeds, so does `BeginBlocker` -/
theorem beginBlock_of_runCalls {σ : Type} (H : Hooks σ) (now height : Int) : ∀ (infos : List EpochInfo) (st st' : σ),
    runCalls H (infos.flatMap (calls now)) st = .ok st' →
    beginBlock H now height infos st = .ok (infos.map (advance now height), st', infos.flatMap (calls now)) := by
  intro infos
  induction infos with
  | nil =>
    intro st st' h
    simp only [List.flatMap_nil, runCalls] at h
    injection h with h; subst h; rfl
  | cons e es ih =>
    intro st st' h
    simp only [List.flatMap_cons] at h
    rw [runCalls_append] at h
    obtain ⟨st1, h1, h2⟩ := bind_ok h
    have hs : stepInfo H now height e st = .ok (advance now height e, st1, calls now e) := by
      unfold stepInfo advance calls
      unfold calls at h1
      cases ha : action e now with
      | start =>
        rw [ha] at h1
        simp only [runCalls] at h1 ⊢
        obtain ⟨x, hx, h1⟩ := bind_ok h1
        injection h1 with h1; subst h1
        simp only [startInitial]
        rw [hx]; rfl
      | tick =>
        rw [ha] at h1
        simp only [runCalls] at h1 ⊢
        obtain ⟨x, hx, h1⟩ := bind_ok h1
        obtain ⟨y, hy, h1⟩ := bind_ok h1
        injection h1 with h1; subst h1
        simp only [endEpoch]
        rw [hx]
        show (H.beforeStart x e.id (e.cur + 1) >>= fun st2 => _) = _
        rw [hy]; rfl
      | idle =>
        rw [ha] at h1
        simp only [runCalls] at h1 ⊢
        injection h1 with h1; subst h1; rfl
    simp only [beginBlock, hs]
    show (beginBlock H now height es st1 >>= fun r2 => _) = _
    rw [ih _ _ h2]
    rfl

/-! ### the three actions -/

theorem action_start_iff (e : EpochInfo) (now : Int) : action e now = .start ↔ (e.started = false ∧ e.start ≤ now) := by
  unfold action shouldEnd shouldStart
  cases hs : e.started <;> by_cases h : now < e.start <;> simp [h]
  · omega
  · split <;> simp

theorem action_tick_iff (e : EpochInfo) (now : Int) :
    action e now = .tick ↔ (e.started = true ∧ e.start ≤ now ∧ e.curStart + e.dur < now) := by
  unfold action shouldEnd shouldStart
  cases hs : e.started <;> by_cases h : now < e.start <;> by_cases h2 : e.curStart + e.dur < now <;> simp [h, h2]
  all_goals omega

theorem action_idle_iff (e : EpochInfo) (now : Int) :
    action e now = .idle ↔ ((e.started = false ∧ now < e.start) ∨ (e.started = true ∧ (now < e.start ∨ now ≤ e.curStart + e.dur))) := by
  unfold action shouldEnd shouldStart
  cases hs : e.started <;> by_cases h : now < e.start <;> by_cases h2 : e.curStart + e.dur < now <;> simp [h, h2]
  all_goals omega

@[simp] theorem advance_id (now h : Int) (e : EpochInfo) : (advance now h e).id = e.id := by
  unfold advance; cases action e now <;> rfl
@[simp] theorem advance_start (now h : Int) (e : EpochInfo) : (advance now h e).start = e.start := by
  unfold advance; cases action e now <;> rfl
@[simp] theorem advance_dur (now h : Int) (e : EpochInfo) : (advance now h e).dur = e.dur := by
  unfold advance; cases action e now <;> rfl

theorem map_advance_ids (now h : Int) (infos : List EpochInfo) :
    (infos.map (advance now h)).map (·.id) = infos.map (·.id) := by
  induction infos with
  | nil => rfl
  | cons e es ih => simp [ih]

/-! ### notifications of one identifier -/

def Call.id : Call → String
  | .afterEnd i _ => i
  | .beforeStart i _ => i

theorem calls_id (now : Int) (e : EpochInfo) : ∀ c ∈ calls now e, c.id = e.id := by
  intro c hc
  unfold calls at hc
  split at hc
  · simp at hc; subst hc; rfl
  · simp at hc; rcases hc with rfl | rfl <;> rfl
  · cases hc

theorem ends_append (id : String) (a b : List Call) : ends id (a ++ b) = ends id a ++ ends id b := by
  induction a with
  | nil => rfl
  | cons c cs ih =>
    cases c with
    | afterEnd i n =>
      simp only [List.cons_append, ends]
      split
      · simp [ih]
      · exact ih
    | beforeStart i n => simp only [List.cons_append, ends]; exact ih

theorem ends_of_other (id : String) (l : List Call) (h : ∀ c ∈ l, c.id ≠ id) : ends id l = [] := by
  induction l with
  | nil => rfl
  | cons c cs ih =>
    have hc := h c (List.mem_cons_self ..)
    have ih' := ih (fun c hc => h c (List.mem_cons_of_mem _ hc))
    cases c with
    | afterEnd i n =>
      simp only [Call.id] at hc
      simp [ends, hc, ih']
    | beforeStart i n => simp [ends, ih']

/-- with unique identifiers, the end-of-epoch numbers announced for `e.id` in a block are those of `e` -/
theorem ends_flatMap (now : Int) : ∀ (infos : List EpochInfo), (infos.map (·.id)).Nodup → ∀ (e : EpochInfo), e ∈ infos →
    ends e.id (infos.flatMap (calls now)) = ends e.id (calls now e) := by
  intro infos
  induction infos with
  | nil => intro _ e he; cases he
  | cons x xs ih =>
    intro hnd e he
    simp only [List.map_cons, List.nodup_cons] at hnd
    simp only [List.flatMap_cons, ends_append]
    rcases List.mem_cons.mp he with rfl | hmem
    · have : ends e.id (xs.flatMap (calls now)) = [] := by
        apply ends_of_other
        intro c hc
        simp only [List.mem_flatMap] at hc
        obtain ⟨y, hy, hcy⟩ := hc
        rw [calls_id now y c hcy]
        intro heq
        exact hnd.1 (by rw [← heq]; exact List.mem_map_of_mem hy)
      rw [this]; simp
    · have : ends e.id (calls now x) = [] := by
        apply ends_of_other
        intro c hc
        rw [calls_id now x c hc]
        intro heq
        exact hnd.1 (by rw [heq]; exact List.mem_map_of_mem hmem)
      rw [this, ih hnd.2 e hmem]; simp

theorem ends_calls (now : Int) (e : EpochInfo) :
    ends e.id (calls now e) = if action e now = .tick then [e.cur + 1] else [] := by
  unfold calls
  cases action e now <;> simp [ends]

end Epochs
end CV
