import CantoVerif.Model.Csr
/-!
# x/bank facts used by the CSR proofs (core Lean only): when single effects succeed, and what the
effect lists of the fee path do to the balances that matter.  All flow statements are
consequences of `Bank.applyAll_flow`.
-/
set_option linter.unusedSimpArgs false
namespace CV
namespace Csr

/-- a conditionally executed effect list: skipped when the amount is zero (the bank rejects zero coins) -/
def CondApply (v : Nat) (b : Bank) (es : List Eff) (b' : Bank) : Prop :=
  (v = 0 ∧ b' = b) ∨ (v ≠ 0 ∧ b.applyAll es = .ok b')

/-- `b'` is `b` changed by exactly the flows of `es` -/
def FlowsAs (b b' : Bank) (es : List Eff) : Prop :=
  ∀ (a : Addr) (d : Denom),
    b'.get a d + outflow es a d = b.get a d + inflow es a d ∧ b'.supply d + burned es d = b.supply d + minted es d

theorem FlowsAs.of_apply {b b' : Bank} {es : List Eff} (h : b.applyAll es = .ok b') : FlowsAs b b' es :=
  fun a d => Bank.applyAll_flow es b b' h a d

/-- unfold the flow sums of an explicit effect list -/
macro "flow_simp" " at " h:ident : tactic =>
  `(tactic| simp only [inflow, outflow, minted, burned, sumBy_cons, sumBy_nil, Eff.inflow, Eff.outflow,
      Eff.minted, Eff.burned, Nat.add_zero, Nat.zero_add] at $h:ident)

/-! ## single effects that succeed -/

theorem xfer_ok (b : Bank) {src dst : Addr} (d : Denom) {v : Nat} (hne : src ≠ dst)
    (h1 : v ≤ b.get src d) (h2 : b.get dst d + v < intBound) : ∃ b', b.apply1 (.xfer src dst d v) = .ok b' := by
  simp only [Bank.apply1]
  have : ¬ b.get src d < v := by omega
  simp only [this, if_false]
  have hd : (b.setBal src d (b.get src d - v)).get dst d = b.get dst d := by
    simp [Bank.get_setBal, hne.symm]
  rw [hd]
  simp only [h2, if_true]
  exact ⟨_, rfl⟩

theorem mint_ok (b : Bank) (m : Addr) (d : Denom) {v : Nat}
    (h1 : b.supply d + v < intBound) (h2 : b.get m d + v < intBound) : ∃ b', b.apply1 (.mint m d v) = .ok b' := by
  simp only [Bank.apply1, h1, h2, and_self, if_true]
  exact ⟨_, rfl⟩

theorem burn_ok (b : Bank) (m : Addr) (d : Denom) {v : Nat}
    (h1 : v ≤ b.get m d) (h2 : v ≤ b.supply d) : ∃ b', b.apply1 (.burn m d v) = .ok b' := by
  simp only [Bank.apply1]
  have a1 : ¬ b.get m d < v := by omega
  have a2 : ¬ b.supply d < v := by omega
  simp only [a1, a2, if_false]
  exact ⟨_, rfl⟩

theorem applyAll_cons_ok {b b1 : Bank} {e : Eff} {es : List Eff} (h : b.apply1 e = .ok b1) :
    b.applyAll (e :: es) = b1.applyAll es := by
  simp only [Bank.applyAll, h]

theorem applyAll_single {b b1 : Bank} {e : Eff} (h : b.apply1 e = .ok b1) : b.applyAll [e] = .ok b1 := by
  simp only [Bank.applyAll, h]

/-! ## the EVM value transfer -/

/-- net effect of `evmTransfer`, either commit order: `v` moves from `src` to `dst`; the evm module account,
everybody else and every supply end where they started -/
theorem evmTransfer_flow {env : Env} {b b' : Bank} {first : Bool} {src dst : Addr} {v : Nat}
    (h : b.applyAll (evmTransfer env first src dst v) = .ok b')
    (h1 : src ≠ dst) (h2 : src ≠ env.evmAddr) (h3 : dst ≠ env.evmAddr) :
    b'.get src env.denom + v = b.get src env.denom ∧ b'.get dst env.denom = b.get dst env.denom + v ∧
    (∀ a d, (a ≠ src ∧ a ≠ dst) ∨ d ≠ env.denom → b'.get a d = b.get a d) ∧ (∀ d, b'.supply d = b.supply d) := by
  have flow := Bank.applyAll_flow _ _ _ h
  have h1' : dst ≠ src := fun e => h1 e.symm
  have h2' : env.evmAddr ≠ src := fun e => h2 e.symm
  have h3' : env.evmAddr ≠ dst := fun e => h3 e.symm
  refine ⟨?_, ?_, ?_, ?_⟩
  · have f := (flow src env.denom).1
    cases first <;>
    · simp only [evmTransfer, List.cons_append, List.nil_append, if_true, if_false, Bool.false_eq_true] at f
      flow_simp at f
      simp only [h1, h2, and_true, true_and, false_and, if_true, if_false] at f
      omega
  · have f := (flow dst env.denom).1
    cases first <;>
    · simp only [evmTransfer, List.cons_append, List.nil_append, if_true, if_false, Bool.false_eq_true] at f
      flow_simp at f
      simp only [h1', h3, and_true, true_and, false_and, if_true, if_false] at f
      omega
  · intro a d hcond
    have f := (flow a d).1
    cases first <;>
    · simp only [evmTransfer, List.cons_append, List.nil_append, if_true, if_false, Bool.false_eq_true] at f
      flow_simp at f
      by_cases hd : d = env.denom
      · subst hd
        rcases hcond with ⟨ha1, ha2⟩ | hd'
        · simp only [ha1, ha2, false_and, if_false] at f
          split at f <;> omega
        · exact absurd rfl hd'
      · simp only [hd, and_false, if_false] at f
        omega
  · intro d
    have f := (flow "" d).2
    cases first <;>
    · simp only [evmTransfer, List.cons_append, List.nil_append, if_true, if_false, Bool.false_eq_true] at f
      flow_simp at f
      split at f <;> omega

/-- the EVM value transfer goes through, either commit order, when the sender holds the value and nothing
comes near the 256-bit range -/
theorem evmTransfer_ok (env : Env) (b : Bank) (first : Bool) {src dst : Addr} {v : Nat}
    (h1 : src ≠ dst) (h2 : src ≠ env.evmAddr) (h3 : dst ≠ env.evmAddr)
    (hs : v ≤ b.get src env.denom) (hd : b.get dst env.denom + v < intBound)
    (he : b.get env.evmAddr env.denom + v < intBound) (hsup : b.supply env.denom + v < intBound)
    (hsup' : v ≤ b.supply env.denom) : ∃ b', b.applyAll (evmTransfer env first src dst v) = .ok b' := by
  have h1' : dst ≠ src := fun e => h1 e.symm
  have h2' : env.evmAddr ≠ src := fun e => h2 e.symm
  have h3' : env.evmAddr ≠ dst := fun e => h3 e.symm
  cases first with
  | true =>
    simp only [evmTransfer, if_true, List.cons_append, List.nil_append]
    obtain ⟨b1, e1⟩ := xfer_ok b env.denom h2 hs he
    have f1 := Bank.apply1_flow b b1 _ e1
    rw [applyAll_cons_ok e1]
    have g1 := (f1 env.evmAddr env.denom).1
    have s1 := (f1 "" env.denom).2
    simp only [Eff.inflow, Eff.outflow, Eff.minted, Eff.burned, h2', and_true, true_and, false_and, if_true, if_false] at g1 s1
    obtain ⟨b2, e2⟩ := burn_ok b1 env.evmAddr env.denom (v := v) (by omega) (by omega)
    have f2 := Bank.apply1_flow b1 b2 _ e2
    rw [applyAll_cons_ok e2]
    have g2 := (f2 env.evmAddr env.denom).1
    have s2 := (f2 "" env.denom).2
    simp only [Eff.inflow, Eff.outflow, Eff.minted, Eff.burned, and_true, true_and, if_true] at g2 s2
    obtain ⟨b3, e3⟩ := mint_ok b2 env.evmAddr env.denom (v := v) (by omega) (by omega)
    have f3 := Bank.apply1_flow b2 b3 _ e3
    rw [applyAll_cons_ok e3]
    have g3 := (f3 env.evmAddr env.denom).1
    have d1 := (f1 dst env.denom).1
    have d2 := (f2 dst env.denom).1
    have d3 := (f3 dst env.denom).1
    simp only [Eff.inflow, Eff.outflow, h1', h3, and_true, true_and, false_and, if_true, if_false] at g3 d1 d2 d3
    obtain ⟨b4, e4⟩ := xfer_ok b3 env.denom h3' (v := v) (by omega) (by omega)
    exact ⟨b4, applyAll_single e4⟩
  | false =>
    simp only [evmTransfer, if_false, Bool.false_eq_true, List.cons_append, List.nil_append]
    obtain ⟨b1, e1⟩ := mint_ok b env.evmAddr env.denom (v := v) hsup he
    have f1 := Bank.apply1_flow b b1 _ e1
    rw [applyAll_cons_ok e1]
    have g1 := (f1 env.evmAddr env.denom).1
    have s1 := (f1 "" env.denom).2
    have d1 := (f1 dst env.denom).1
    have c1 := (f1 src env.denom).1
    simp only [Eff.inflow, Eff.outflow, Eff.minted, Eff.burned, h2, h3, and_true, true_and, false_and, if_true, if_false] at g1 s1 d1 c1
    obtain ⟨b2, e2⟩ := xfer_ok b1 env.denom h3' (v := v) (by omega) (by omega)
    have f2 := Bank.apply1_flow b1 b2 _ e2
    rw [applyAll_cons_ok e2]
    have g2 := (f2 env.evmAddr env.denom).1
    have s2 := (f2 "" env.denom).2
    have c2 := (f2 src env.denom).1
    simp only [Eff.inflow, Eff.outflow, Eff.minted, Eff.burned, h1, h2, h3', and_true, true_and, false_and, if_true, if_false] at g2 s2 c2
    obtain ⟨b3, e3⟩ := xfer_ok b2 env.denom h2 (v := v) (by omega) (by omega)
    have f3 := Bank.apply1_flow b2 b3 _ e3
    rw [applyAll_cons_ok e3]
    have g3 := (f3 env.evmAddr env.denom).1
    have s3 := (f3 "" env.denom).2
    simp only [Eff.inflow, Eff.outflow, Eff.minted, Eff.burned, h2', and_true, true_and, false_and, if_true, if_false] at g3 s3
    obtain ⟨b4, e4⟩ := burn_ok b3 env.evmAddr env.denom (v := v) (by omega) (by omega)
    exact ⟨b4, applyAll_single e4⟩

end Csr
end CV
