import CantoVerif.Proofs.Erc20Backing
/-!
# Every operation of the honest world keeps the backing invariant (core Lean only).
-/
namespace CV
namespace Erc20
namespace Token
open KMap

/-- closed-world side conditions of one operation (see `Props/C03.lean` for the reading) -/
def HOpOK (env : Env) (h : HWorld) : HOp → Prop
  | .k (.convertCoin m) => m.sender.bytes ≠ env.modAddr
  | .k (.convertERC20 m) => m.sender.bytes ≠ env.modAddr
  | .k (.registerCoin _ _ _) => ∀ a, env.create h.w.st.mn = .ok a → get? h.w.st.reg.byAddr a = none
  | .k (.registerERC20 _ c _) => ∀ d, env.denomOf c = .ok d → h.w.st.bank.supply d ≤ h.w.evm.balOf c env.modAddr
  | .k (.send src dst _ _) => src ≠ env.modAddr ∧ dst ≠ env.modAddr
  | .k (.hook _) => False
  | .evmTx _ holder _ => holder ≠ env.modAddr ∧ env.blocked.contains holder = false
  | _ => True

/-! ### small facts -/

theorem backing_of_eq {env : Env} {h h' : HWorld} (hB : Backing env h) (e1 : h'.w.st.reg = h.w.st.reg)
    (e2 : h'.w.st.bank = h.w.st.bank) (e3 : h'.w.evm = h.w.evm) (e4 : h'.destroyed = h.destroyed) : Backing env h' := by
  refine ⟨by rw [e1]; exact hB.reg, ?_, ?_, ?_, ?_⟩
  · intro i p hp ho; rw [e1] at hp; rw [e2, e3, e4]; exact hB.native i p hp ho
  · intro i p hp ho; rw [e1] at hp; rw [e3]; exact hB.nativeCode i p hp ho
  · intro i p hp ho; rw [e1] at hp; rw [e2, e3]; exact hB.external i p hp ho
  · intro c hc; rw [e3] at hc ⊢; exact hB.noCodeNoSupply c hc

theorem xfer_error {b : Bank} {s t : Addr} {d : Denom} {v : Nat} {e : Rej}
    (h : b.applyAll [.xfer s t d v] = .error e) : (e = .insufficient ∧ b.get s d < v) ∨ e = .overflow := by
  simp only [Bank.applyAll, Bank.apply1] at h
  split at h
  · cases h
  · rename_i e' he
    injection h with h; subst h
    split at he
    · rename_i hlt; injection he with he; exact Or.inl ⟨he.symm, hlt⟩
    · split at he
      · cases he
      · injection he with he; exact Or.inr he.symm

theorem modToAcct_error {env : Env} {b : Bank} {rcpt : Addr} {d : Denom} {v : Nat} {e : Rej}
    (h : modToAcct env b rcpt d v = .error e) :
    (e = .unauthorized ∧ env.blocked.contains rcpt = true) ∨ (e = .insufficient ∧ b.get env.modAddr d < v) ∨ e = .overflow := by
  unfold modToAcct ensure at h
  split at h
  · rcases xfer_error h with h1 | h1
    · exact Or.inr (Or.inl h1)
    · exact Or.inr (Or.inr h1)
  · rename_i hb
    injection h with h
    exact Or.inl ⟨h.symm, by simpa using hb⟩

theorem honest_burn_not_ok {cfg : Cfg} {c : Addr} {a : Nat} {t : TState} (hc : t.hasCode c = true)
    (h : (honest cfg (.burn c a) t).1.status ≠ .ok) : (honest cfg (.burn c a) t).2 = t := by
  simp only [honest, hc, Bool.not_true, Bool.false_eq_true, if_false, burnFrom] at h ⊢
  split
  · rfl
  · rename_i hg
    simp only [hg, okAns] at h
    exact absurd rfl h

theorem transferBy_ok {cfg : Cfg} {c s to : Addr} {a : Nat} {t : TState} (hc : t.hasCode c = true)
    (h : (transferBy cfg t c s to a).1.status = .ok) :
    (transferBy cfg t c s to a).2 = (t.debit c s a).credit c to a ∧ a ≤ t.balOf c s :=
  ⟨(honest_transfer_ok (cfg := cfg) hc h).1, (honest_transfer_ok (cfg := cfg) hc h).2.1⟩

theorem transferBy_nocode {cfg : Cfg} {c s to : Addr} {a : Nat} {t : TState} (hc : t.hasCode c = false) :
    transferBy cfg t c s to a = (emptyAns, t) := by
  simp [transferBy, hc]

theorem queryERC20_honest {cfg : Cfg} {s : State} {env : Env} {c : Addr} {e e1 : TState}
    (h : queryERC20 (honest cfg) s env c e = .ok e1) : e1 = e := by
  unfold queryERC20 at h
  simp only at h
  obtain ⟨a1, h1, h⟩ := bind_ok h
  obtain ⟨_, _, h⟩ := bind_ok h
  obtain ⟨a2, h2, h⟩ := bind_ok h
  obtain ⟨_, _, h⟩ := bind_ok h
  obtain ⟨a3, h3, h⟩ := bind_ok h
  obtain ⟨_, _, h⟩ := bind_ok h
  injection h with h
  obtain ⟨_, _, _, s1⟩ := callEVM_ok h1
  obtain ⟨_, _, _, s2⟩ := callEVM_ok h2
  obtain ⟨_, _, _, s3⟩ := callEVM_ok h3
  have n1 : ∀ t, (honest cfg (.name c) t).2 = t := by intro t; simp only [honest]; split <;> rfl
  have n2 : ∀ t, (honest cfg (.symbol c) t).2 = t := by intro t; simp only [honest]; split <;> rfl
  have n3 : ∀ t, (honest cfg (.decimals c) t).2 = t := by intro t; simp only [honest]; split <;> rfl
  rw [← h, s3, n3, s2, n2, s1, n1]

theorem honest_create_ok {cfg : Cfg} {addr : Addr} {t : TState} (h : (honest cfg (.create addr) t).1.status = .ok) :
    t.hasCode addr = false ∧
    (honest cfg (.create addr) t).2 = { t with code := t.code ++ [addr], minter := t.minter ++ [(addr, cfg.modAddr)] } := by
  simp only [honest] at h ⊢
  split at h
  · simp [revertAns] at h
  · rename_i hc
    have hc' : t.hasCode addr = false := by simpa using hc
    refine ⟨hc', ?_⟩
    simp [hc']

theorem hasCode_append (t : TState) (addr c : Addr) (m : List (Addr × Addr)) :
    ({ t with code := t.code ++ [addr], minter := m } : TState).hasCode c = (t.hasCode c || c == addr) := by
  simp only [TState.hasCode, List.contains_eq_mem, List.mem_append, List.mem_singleton]
  by_cases h1 : c ∈ t.code <;> by_cases h2 : c = addr <;> simp [h1, h2]

/-- under the registry invariant a pair that shares the denomination or the address of a stored pair is that pair -/
theorem same_pair {r : Registry} (hI : RegInv r) {i j : PairId} {p q : Pair} (hp : r.getPair i = some p)
    (hq : r.getPair j = some q) (h : q.denom = p.denom ∨ q.addr = p.addr) : q = p := by
  rcases h with h | h
  · exact (hI.denom_inj hq hp h).2
  · exact (hI.addr_inj hq hp h).2

theorem not_blocked_ne_mod {env : Env} {cfg : Cfg} (hE : EnvOK3 env cfg) {x : Addr}
    (h : env.blocked.contains x = false) : x ≠ env.modAddr := by
  intro e; rw [e, hE.modBlocked] at h; cases h

macro "flowb" " at " h:ident : tactic =>
  `(tactic| simp only [inflow, outflow, minted, burned, sumBy_cons, sumBy_nil, Eff.inflow, Eff.outflow,
      Eff.minted, Eff.burned, Nat.add_zero, Nat.zero_add] at $h:ident)

/-! ### conversions by message -/

theorem backing_coinPath {env : Env} {cfg : Cfg} {h : HWorld} {w' : World TState} {r : Resp} {p : Pair} {i : PairId}
    {a : Nat} {R S : Addr} (hE : EnvOK3 env cfg) (hB : Backing env h) (hp : h.w.st.reg.getPair i = some p)
    (hS : S ≠ env.modAddr) (hR : R ≠ env.modAddr)
    (path : coinPath env (honest cfg) p p.denom a R S h.w = .ok (w', r)) :
    Backing env { w := w', destroyed := h.destroyed } := by
  unfold coinPath at path
  cases ho : p.owner with
  | unspecified => rw [ho] at path; cases path
  | module =>
    rw [ho] at path
    simp only at path
    obtain ⟨b1, hb1, hst, hev, hcd, _⟩ := coinNative_honest path
    have flow := Bank.applyAll_flow _ _ _ hb1
    refine backing_confined hB (· = p.denom) (· = p.addr) ?_ ?_ ?_ ?_ ?_ ?_ ?_ ?_ ?_
    · intro j; show w'.st.reg.getPair j = _; rw [hst]
    · show RegInv w'.st.reg; rw [hst]; exact hB.reg
    · intro d hne; show dFrame h.w.st.bank w'.st.bank d; rw [hst]
      exact single_other_denom hb1 d (by simpa [effDenom] using hne)
    · intro c x hne; show w'.evm.balOf c x = _; rw [hev]
      have : ¬ c = p.addr := hne
      simp [this]
    · intro c hne; show w'.evm.supply c = _; rw [hev]
      have : ¬ c = p.addr := hne
      simp [this]
    · intro c hc; show w'.evm.hasCode c = true; rw [hev]; simpa using hc
    · intro c _; rfl
    · intro j q hq ht
      have hqp : q = p := same_pair hB.reg hp hq ht
      subst hqp
      constructor
      · intro _
        show w'.st.bank.get env.modAddr q.denom = w'.evm.supply q.addr + h.destroyed.get q.addr
        rw [hst, hev]
        have f := (flow env.modAddr q.denom).1
        flowb at f
        have hms : ¬ env.modAddr = S := fun e => hS e.symm
        simp only [hms, false_and, if_false, and_self, if_true, Nat.add_zero] at f
        have := hB.native j q hq ho
        simp only [supply_credit, supply_setSupply, if_true]
        show b1.get env.modAddr q.denom = _
        omega
      · intro he; rw [ho] at he; cases he
    · intro c hc
      have hc0 : h.w.evm.hasCode c = false := by
        have : w'.evm.hasCode c = false := hc
        rw [hev] at this; simpa using this
      show w'.evm.supply c = 0; rw [hev]
      have hne : c ≠ p.addr := by intro e; rw [e, hcd] at hc0; cases hc0
      simp [hne]
      exact hB.noCodeNoSupply c hc0
  | external =>
    rw [ho] at path
    simp only at path
    obtain ⟨b1, b2, hb1, hb2, hst, hev, hle, hcd, _⟩ := coinNativeERC20_honest path
    have flow1 := Bank.applyAll_flow _ _ _ hb1
    have flow2 := Bank.applyAll_flow _ _ _ hb2
    refine backing_confined hB (· = p.denom) (· = p.addr) ?_ ?_ ?_ ?_ ?_ ?_ ?_ ?_ ?_
    · intro j; show w'.st.reg.getPair j = _; rw [hst]
    · show RegInv w'.st.reg; rw [hst]; exact hB.reg
    · intro d hne; show dFrame h.w.st.bank w'.st.bank d; rw [hst]
      exact dFrame_trans (single_other_denom hb1 d (by simpa [effDenom] using hne))
        (single_other_denom hb2 d (by simpa [effDenom] using hne))
    · intro c x hne; show w'.evm.balOf c x = _; rw [hev]
      have : ¬ c = p.addr := hne
      simp [this]
    · intro c _; show w'.evm.supply c = _; rw [hev]; rfl
    · intro c hc; show w'.evm.hasCode c = true; rw [hev]; simpa using hc
    · intro c _; rfl
    · intro j q hq ht
      have hqp : q = p := same_pair hB.reg hp hq ht
      subst hqp
      constructor
      · intro he; rw [ho] at he; cases he
      · intro _
        show w'.st.bank.supply q.denom ≤ w'.evm.balOf q.addr env.modAddr
        rw [hst, hev]
        have f1 := (flow1 "" q.denom).2
        have f2 := (flow2 "" q.denom).2
        flowb at f1
        flowb at f2
        simp only [if_true] at f2
        have hmr : ¬ (env.modAddr = R) := fun e => hR e.symm
        simp only [balOf_credit, balOf_debit, hmr, and_false, if_false, and_self, if_true]
        have := hB.external j q hq ho
        show b2.supply q.denom ≤ _
        omega
    · intro c hc
      have hc0 : h.w.evm.hasCode c = false := by
        have : w'.evm.hasCode c = false := hc
        rw [hev] at this; simpa using this
      show w'.evm.supply c = 0; rw [hev]
      exact hB.noCodeNoSupply c hc0

theorem backing_erc20Path {env : Env} {cfg : Cfg} {h : HWorld} {w' : World TState} {r : Resp} {p : Pair} {i : PairId}
    {a : Nat} {R S : Addr} (hE : EnvOK3 env cfg) (hB : Backing env h) (hp : h.w.st.reg.getPair i = some p)
    (hS : S ≠ env.modAddr) (hR : R ≠ env.modAddr)
    (path : erc20Path env (honest cfg) p a R S h.w = .ok (w', r)) :
    Backing env { w := w', destroyed := h.destroyed } := by
  unfold erc20Path at path
  cases ho : p.owner with
  | unspecified => rw [ho] at path; cases path
  | module =>
    rw [ho] at path
    simp only at path
    obtain ⟨b1, hb1, hst, hev, hle, hls, hcd, _⟩ := erc20NativeCoin_honest path
    have flow := Bank.applyAll_flow _ _ _ hb1
    refine backing_confined hB (· = p.denom) (· = p.addr) ?_ ?_ ?_ ?_ ?_ ?_ ?_ ?_ ?_
    · intro j; show w'.st.reg.getPair j = _; rw [hst]
    · show RegInv w'.st.reg; rw [hst]; exact hB.reg
    · intro d hne; show dFrame h.w.st.bank w'.st.bank d; rw [hst]
      exact single_other_denom hb1 d (by simpa [effDenom] using hne)
    · intro c x hne; show w'.evm.balOf c x = _; rw [hev]
      have : ¬ c = p.addr := hne
      simp [this]
    · intro c hne; show w'.evm.supply c = _; rw [hev]
      have : ¬ c = p.addr := hne
      simp [this]
    · intro c hc; show w'.evm.hasCode c = true; rw [hev]; simpa using hc
    · intro c _; rfl
    · intro j q hq ht
      have hqp : q = p := same_pair hB.reg hp hq ht
      subst hqp
      constructor
      · intro _
        show w'.st.bank.get env.modAddr q.denom = w'.evm.supply q.addr + h.destroyed.get q.addr
        rw [hst, hev]
        have f := (flow env.modAddr q.denom).1
        flowb at f
        have hmr : ¬ env.modAddr = R := fun e => hR e.symm
        simp only [hmr, false_and, if_false, and_self, if_true, Nat.add_zero] at f
        have := hB.native j q hq ho
        simp only [supply_setSupply, if_true]
        show b1.get env.modAddr q.denom = _
        omega
      · intro he; rw [ho] at he; cases he
    · intro c hc
      have hc0 : h.w.evm.hasCode c = false := by
        have : w'.evm.hasCode c = false := hc
        rw [hev] at this; simpa using this
      show w'.evm.supply c = 0; rw [hev]
      have hne : c ≠ p.addr := by intro e; rw [e, hcd] at hc0; cases hc0
      simp [hne]
      exact hB.noCodeNoSupply c hc0
  | external =>
    rw [ho] at path
    simp only at path
    obtain ⟨b1, b2, hb1, hb2, hst, hev, hle, hcd, _⟩ := erc20NativeToken_honest path
    have flow1 := Bank.applyAll_flow _ _ _ hb1
    have flow2 := Bank.applyAll_flow _ _ _ hb2
    refine backing_confined hB (· = p.denom) (· = p.addr) ?_ ?_ ?_ ?_ ?_ ?_ ?_ ?_ ?_
    · intro j; show w'.st.reg.getPair j = _; rw [hst]
    · show RegInv w'.st.reg; rw [hst]; exact hB.reg
    · intro d hne; show dFrame h.w.st.bank w'.st.bank d; rw [hst]
      exact dFrame_trans (single_other_denom hb1 d (by simpa [effDenom] using hne))
        (single_other_denom hb2 d (by simpa [effDenom] using hne))
    · intro c x hne; show w'.evm.balOf c x = _; rw [hev]
      have : ¬ c = p.addr := hne
      simp [this]
    · intro c _; show w'.evm.supply c = _; rw [hev]; rfl
    · intro c hc; show w'.evm.hasCode c = true; rw [hev]; simpa using hc
    · intro c _; rfl
    · intro j q hq ht
      have hqp : q = p := same_pair hB.reg hp hq ht
      subst hqp
      constructor
      · intro he; rw [ho] at he; cases he
      · intro _
        show w'.st.bank.supply q.denom ≤ w'.evm.balOf q.addr env.modAddr
        rw [hst, hev]
        have f1 := (flow1 "" q.denom).2
        have f2 := (flow2 "" q.denom).2
        flowb at f1
        flowb at f2
        simp only [if_true] at f1
        have hms : ¬ (env.modAddr = S) := fun e => hS e.symm
        simp only [balOf_credit, balOf_debit, hms, and_false, if_false, and_self, if_true]
        have := hB.external j q hq ho
        show b2.supply q.denom ≤ _
        omega
    · intro c hc
      have hc0 : h.w.evm.hasCode c = false := by
        have : w'.evm.hasCode c = false := hc
        rw [hev] at this; simpa using this
      show w'.evm.supply c = 0; rw [hev]
      exact hB.noCodeNoSupply c hc0

/-- deletion of a pair (its contract lost its code) keeps the invariant for the remaining pairs -/
theorem backing_delete {env : Env} {h : HWorld} {w' : World TState} {p : Pair} (hB : Backing env h)
    (hp : h.w.st.reg.getPair p.id = some p)
    (hw : w'.st = { h.w.st with reg := h.w.st.reg.delete p }) (he : w'.evm = h.w.evm) :
    Backing env { w := w', destroyed := h.destroyed } := by
  refine backing_registry hB ?_ ?_ ?_ ?_ ?_ ?_ ?_ ?_
  · show RegInv w'.st.reg; rw [hw]; exact regInv_delete hB.reg p hp
  · intro a d; show w'.st.bank.get a d = _; rw [hw]
  · intro d; show w'.st.bank.supply d = _; rw [hw]
  · intro c x; show w'.evm.balOf c x = _; rw [he]
  · intro c; show w'.evm.supply c = _; rw [he]
  · intro c hc; show w'.evm.hasCode c = true; rw [he]; exact hc
  · intro j q hq
    have hq' : (h.w.st.reg.delete p).getPair j = some q := by
      have : w'.st.reg.getPair j = some q := hq
      rw [hw] at this; exact this
    rw [getPair_delete] at hq'
    split at hq'
    · cases hq'
    · exact Or.inl ⟨j, q, hq', rfl, rfl, rfl, rfl⟩
  · intro c hc
    have : w'.evm.hasCode c = false := hc
    rw [he] at this
    show w'.evm.supply c = 0; rw [he]; exact hB.noCodeNoSupply c this

/-! ### the hook on one log -/

/-- inversion of one iteration of the hook loop, for any oracle -/
theorem hookLog_ok {σ : Type} {env : Env} {O : Oracle σ} {w w2 : World σ} {l : Log} (h : hookLog env O w l = .ok w2) :
    (hookTarget env w.st l = none ∧ w2 = w) ∨
    ∃ p v, hookTarget env w.st l = some (p, v) ∧
      ((p.owner = .unspecified ∧ w2 = w) ∨
       (p.owner = .module ∧
          ((∃ e, (callEVM O w.st env.modAddr (.burn l.emitter v) w.evm).1 = .error e ∧
              w2 = { w with evm := (callEVM O w.st env.modAddr (.burn l.emitter v) w.evm).2 }) ∨
           (∃ ans bank1, (callEVM O w.st env.modAddr (.burn l.emitter v) w.evm).1 = .ok ans ∧
              bankSoft w.st.bank (modToAcct env w.st.bank l.sender p.denom v) = .ok bank1 ∧
              w2 = { st := { w.st with bank := bank1 }, evm := (callEVM O w.st env.modAddr (.burn l.emitter v) w.evm).2 }))) ∨
       (p.owner = .external ∧ ∃ bank1 bank2, w.st.bank.applyAll [.mint env.modAddr p.denom v] = .ok bank1 ∧
          bankSoft bank1 (modToAcct env bank1 l.sender p.denom v) = .ok bank2 ∧
          w2 = { w with st := { w.st with bank := bank2 } })) := by
  unfold hookLog at h
  split at h
  · rename_i ht; injection h with h; exact Or.inl ⟨ht, h.symm⟩
  · rename_i p v ht
    refine Or.inr ⟨p, v, ht, ?_⟩
    split at h
    · rename_i ho
      right; left
      refine ⟨ho, ?_⟩
      simp only at h
      split at h
      · rename_i e he; injection h with h; exact Or.inl ⟨e, he, h.symm⟩
      · rename_i ans he
        obtain ⟨b1, hb1, h⟩ := bind_ok h
        injection h with h
        exact Or.inr ⟨ans, b1, he, hb1, h.symm⟩
    · rename_i ho
      right; right
      obtain ⟨b1, hb1, h⟩ := bind_ok h
      obtain ⟨b2, hb2, h⟩ := bind_ok h
      injection h with h
      exact ⟨ho, b1, b2, hb1, hb2, h.symm⟩
    · rename_i ho
      left
      injection h with h
      exact ⟨ho, h.symm⟩

theorem callEVM_error {σ : Type} {O : Oracle σ} {s : State} {snd : Addr} {c : Call} {e : σ} {r : Rej}
    (h : (callEVM O s snd c e).1 = .error r) :
    (s.bank.hasAcct snd = false ∧ (callEVM O s snd c e).2 = e) ∨
    ((O c e).1.status ≠ .ok ∧ (callEVM O s snd c e).2 = (O c e).2) := by
  unfold callEVM at h ⊢
  split
  · rename_i ha
    right
    simp only [ha, if_true] at h
    split at h
    · cases h
    · rename_i hs; exact ⟨hs, rfl⟩
  · rename_i ha
    left
    exact ⟨by simpa using ha, rfl⟩

/-- a holder's transfer alone (no hook effect): the invariant is kept -/
theorem backing_transfer {env : Env} {h : HWorld} {c holder to : Addr} {a : Nat} (hB : Backing env h)
    (hh : holder ≠ env.modAddr) :
    Backing env { w := { h.w with evm := (h.w.evm.debit c holder a).credit c to a }, destroyed := h.destroyed } := by
  refine backing_confined hB (fun _ => False) (· = c) (fun _ => rfl) hB.reg (fun d _ => dFrame_refl _ _) ?_ ?_ ?_ ?_ ?_ ?_
  · intro c' x hne
    have : ¬ c' = c := hne
    show ((h.w.evm.debit c holder a).credit c to a).balOf c' x = _
    simp [this]
  · intro c' _; rfl
  · intro c' hc; exact hc
  · intro c' _; rfl
  · intro j q hq ht
    have hqa : q.addr = c := by rcases ht with f | e; exact absurd f id; exact e
    constructor
    · intro ho; exact hB.native j q hq ho
    · intro ho
      show h.w.st.bank.supply q.denom ≤ ((h.w.evm.debit c holder a).credit c to a).balOf q.addr env.modAddr
      have := hB.external j q hq ho
      have hmh : ¬ env.modAddr = holder := fun e => hh e.symm
      rw [hqa] at this ⊢
      by_cases hto : env.modAddr = to
      · subst hto
        simp only [balOf_credit, balOf_debit, hmh, and_false, if_false, and_self, if_true]
        omega
      · simp only [balOf_credit, balOf_debit, hmh, hto, and_false, if_false]
        omega
  · intro c' hc; exact hB.noCodeNoSupply c' hc

theorem backing_hookLog {env : Env} {cfg : Cfg} {h : HWorld} {w2 : World TState} {c holder to : Addr} {a : Nat}
    (hE : EnvOK3 env cfg) (hB : Backing env h) (hc : h.w.evm.hasCode c = true)
    (hh : holder ≠ env.modAddr) (hnb : env.blocked.contains holder = false)
    (hl : hookLog env (honest cfg) { h.w with evm := (h.w.evm.debit c holder a).credit c to a }
      { emitter := c, nTopics := 3, isTransfer := true, sender := holder, to := to, amount := some a } = .ok w2) :
    Backing env { w := w2, destroyed := h.destroyed } := by
  have hB1 := backing_transfer (c := c) (holder := holder) (to := to) (a := a) hB hh
  rcases hookLog_ok hl with ⟨_, hw⟩ | ⟨p, v, ht, hcase⟩
  · rw [hw]; exact hB1
  · obtain ⟨i, hi, hp, _, hto, _, hv⟩ := hookTarget_some ht
    simp only at hi hp hto hv
    injection hv with hv; subst hv
    have hpa : p.addr = c := by
      obtain ⟨q, hq, hqa⟩ := (hB.reg.addrIdx c i).mp hi
      rw [hp] at hq; injection hq with hq; subst hq; exact hqa
    have hcm : cfg.modAddr = env.modAddr := hE.cfgMod
    rcases hcase with ⟨_, hw⟩ | ⟨ho, hm⟩ | ⟨ho, b1, b2, hb1, hb2, hw⟩
    · rw [hw]; exact hB1
    · -- chain-deployed contract: burn the tokens the module just received, release the coins
      simp only at hm
      have hc1 : ((h.w.evm.debit c holder a).credit c to a).hasCode c = true := by simpa using hc
      rcases hm with ⟨e, he, hw⟩ | ⟨ans, bank1, he, hsoft, hw⟩
      · rcases callEVM_error he with ⟨_, hs⟩ | ⟨hns, hs⟩
        · rw [hw, hs]; exact hB1
        · rw [hw, hs, honest_burn_not_ok hc1 hns]; exact hB1
      · obtain ⟨_, hans, hst, hs⟩ := callEVM_ok he
        rw [← hans] at hst
        obtain ⟨e2, hle2, hls2⟩ := honest_burn_ok hc1 hst
        rw [hcm] at e2 hle2
        -- the payout cannot fail softly
        have hesc := hB.native i p hp ho
        have hsup1 : ((h.w.evm.debit c holder a).credit c to a).supply c = h.w.evm.supply c := rfl
        rw [hsup1] at hls2
        unfold bankSoft at hsoft
        split at hsoft
        · rename_i bpaid hpaid
          injection hsoft with hsoft; subst hsoft
          obtain ⟨_, hx⟩ := modToAcct_ok hpaid
          have flow := Bank.applyAll_flow _ _ _ hx
          rw [hw, hs, e2]
          refine backing_confined hB (· = p.denom) (· = c) (fun _ => rfl) hB.reg ?_ ?_ ?_ ?_ ?_ ?_ ?_
          · intro d hne; exact single_other_denom hx d (by simpa [effDenom] using hne)
          · intro c' x hne
            have : ¬ c' = c := hne
            show ((((h.w.evm.debit c holder a).credit c to a).debit c env.modAddr a).setSupply c _).balOf c' x = _
            simp [this]
          · intro c' hne
            have : ¬ c' = c := hne
            show ((((h.w.evm.debit c holder a).credit c to a).debit c env.modAddr a).setSupply c _).supply c' = _
            simp [this]
          · intro c' hc'
            show ((((h.w.evm.debit c holder a).credit c to a).debit c env.modAddr a).setSupply c _).hasCode c' = true
            simpa using hc'
          · intro c' _; rfl
          · intro j q hq htq
            have hqp : q = p := same_pair hB.reg hp hq (by rw [hpa]; exact htq)
            subst hqp
            constructor
            · intro _
              show bpaid.get env.modAddr q.denom =
                ((((h.w.evm.debit c holder a).credit c to a).debit c env.modAddr a).setSupply c _).supply q.addr + h.destroyed.get q.addr
              have f := (flow env.modAddr q.denom).1
              flowb at f
              have hmh : ¬ env.modAddr = holder := fun e => hh e.symm
              simp only [hmh, false_and, if_false, and_self, if_true, Nat.add_zero] at f
              rw [hpa] at hesc ⊢
              simp only [supply_setSupply, if_true, supply_debit, supply_credit]
              omega
            · intro he'; rw [ho] at he'; cases he'
          · intro c' hc'
            have hc0 : h.w.evm.hasCode c' = false := by
              have : ((((h.w.evm.debit c holder a).credit c to a).debit c env.modAddr a).setSupply c
                (((h.w.evm.debit c holder a).credit c to a).supply c - a)).hasCode c' = false := hc'
              simpa using this
            have hne : c' ≠ c := by intro e; rw [e, hc] at hc0; cases hc0
            show ((((h.w.evm.debit c holder a).credit c to a).debit c env.modAddr a).setSupply c _).supply c' = 0
            simp [hne]
            exact hB.noCodeNoSupply c' hc0
        · cases hsoft
        · rename_i e hne herr
          exfalso
          rcases modToAcct_error herr with ⟨_, hb⟩ | ⟨_, hlt⟩ | hov
          · rw [hnb] at hb; cases hb
          · have : (h.w.st.bank.get env.modAddr p.denom) < a := hlt
            rw [hpa] at hesc
            omega
          · exact hne hov
    · -- external token: mint the coins for the tokens the module just received
      simp only at hb1 hb2 hw
      have flow1 := Bank.applyAll_flow _ _ _ hb1
      have hb2' : dFrame b1 b2 p.denom ∨ True := Or.inr trivial
      -- whatever the payout does, it neither mints nor burns
      have hsup2 : ∀ d, b2.supply d = b1.supply d := by
        intro d
        unfold bankSoft at hb2
        split at hb2
        · rename_i bp hpd
          injection hb2 with hb2; subst hb2
          obtain ⟨_, hx⟩ := modToAcct_ok hpd
          have f := (Bank.applyAll_flow _ _ _ hx "" d).2
          flowb at f
          omega
        · cases hb2
        · injection hb2 with hb2; subst hb2; rfl
      have hother : ∀ d, d ≠ p.denom → dFrame b1 b2 d := by
        intro d hne
        unfold bankSoft at hb2
        split at hb2
        · rename_i bp hpd
          injection hb2 with hb2; subst hb2
          obtain ⟨_, hx⟩ := modToAcct_ok hpd
          exact single_other_denom hx d (by simpa [effDenom] using hne)
        · cases hb2
        · injection hb2 with hb2; subst hb2; exact dFrame_refl _ _
      rw [hw]
      refine backing_confined hB (· = p.denom) (· = c) (fun _ => rfl) hB.reg ?_ ?_ ?_ ?_ ?_ ?_ ?_
      · intro d hne
        exact dFrame_trans (single_other_denom hb1 d (by simpa [effDenom] using hne)) (hother d hne)
      · intro c' x hne
        have : ¬ c' = c := hne
        show ((h.w.evm.debit c holder a).credit c to a).balOf c' x = _
        simp [this]
      · intro c' _; rfl
      · intro c' hc'; exact hc'
      · intro c' _; rfl
      · intro j q hq htq
        have hqp : q = p := same_pair hB.reg hp hq (by rw [hpa]; exact htq)
        subst hqp
        constructor
        · intro he'; rw [ho] at he'; cases he'
        · intro _
          show b2.supply q.denom ≤ ((h.w.evm.debit c holder a).credit c to a).balOf q.addr env.modAddr
          have f1 := (flow1 "" q.denom).2
          flowb at f1
          simp only [if_true] at f1
          rw [hsup2, hpa, hto]
          have hmh : ¬ env.modAddr = holder := fun e => hh e.symm
          simp only [balOf_credit, balOf_debit, hmh, and_false, if_false, and_self, if_true]
          have := hB.external j q hq ho
          rw [hpa] at this
          omega
      · intro c' hc'; exact hB.noCodeNoSupply c' hc'

end Token
end Erc20
end CV
