import CantoVerif.Spec.Epochs
import CantoVerif.Proofs.InflationBlock
/-!
# Bridge between the block theorems and the Bool predicates of `Spec/Epochs.lean`.

`block_summary`: a successful block of the model is one of four kinds — a minting block, an
enabled block without an epoch end of the configured identifier, a disabled block with a daily
epoch end, a disabled block without — and the kind is the one the monitors compute from the
epoch records (`Spec.idTicked`).
-/
namespace CV
namespace Inflation
open Epochs Spec

theorem ticked_advance (now h : Int) (e : EpochInfo) : ticked (e, advance now h e) = decide (action e now = .tick) := by
  unfold ticked
  cases hact : action e now with
  | tick =>
    have hs := ((action_tick_iff e now).1 hact).1
    have : advance now h e = endEpoch e h := by unfold advance; rw [hact]
    simp [this, endEpoch, hs]
  | start =>
    have hs := ((action_start_iff e now).1 hact).1
    simp [hs]
  | idle =>
    have : advance now h e = e := by unfold advance; rw [hact]
    simp only [this]
    have : (e.cur == e.cur + 1) = false := by simp
    simp [this]

theorem any_zip_map {α : Type} (f : α → α) (P : α × α → Bool) (l : List α) :
    (l.zip (l.map f)).any P = l.any (fun e => P (e, f e)) := by
  induction l with
  | nil => rfl
  | cons x xs ih => simp only [List.map_cons, List.zip_cons_cons, List.any_cons, ih]

/-- with unique identifiers: "some record with identifier `id` ticks" is "the record found under `id` ticks" -/
theorem any_tick_find (now : Int) (infos : List EpochInfo) (hnd : (infos.map (·.id)).Nodup) (id : String) :
    infos.any (fun e => e.id == id && decide (action e now = .tick)) =
      (match infos.find? (fun e => e.id == id) with
       | some e => decide (action e now = .tick)
       | none => false) := by
  cases hf : infos.find? (fun e => e.id == id) with
  | none =>
    simp only
    rw [List.any_eq_false]
    intro e he
    have := find_id_none hf e he
    simp [this]
  | some e0 =>
    simp only
    obtain ⟨hm0, hid0⟩ := find_id_some hf
    by_cases ht : action e0 now = .tick
    · simp only [ht, decide_true]
      rw [List.any_eq_true]
      exact ⟨e0, hm0, by simp [hid0, ht]⟩
    · simp only [ht, decide_false]
      rw [List.any_eq_false]
      intro e he
      by_cases hid : e.id = id
      · have := nodup_ids_unique infos hnd e e0 he hm0 (by rw [hid, hid0])
        subst this
        simp [ht]
      · simp [hid]

/-- what the monitors call "the record of `id` ended an epoch in this block", on a model transition -/
theorem idTicked_model (t : Tr) (now h : Int) (hpost : t.post.infos = t.pre.infos.map (advance now h))
    (hnd : (t.pre.infos.map (·.id)).Nodup) (id : String) :
    idTicked t id = (match t.pre.infos.find? (fun e => e.id == id) with
                     | some e => decide (action e now = .tick)
                     | none => false) := by
  unfold idTicked pairs
  rw [hpost, any_zip_map]
  simp only [ticked_advance]
  exact any_tick_find now t.pre.infos hnd id

/-- **The four kinds of block.** -/
theorem block_summary {env : Env} (hE : EnvOK env) {s s' : State} {now h : Int} {r : Resp}
    (hnd : (s.infos.map (·.id)).Nodup) (hstep : step env s (.block now h) = .ok (s', r))
    (t : Tr) (hpre : t.pre = s) (hpost : t.post = s') :
    (s.infl.params.enable = true ∧ idTicked t s.infl.epochId = true ∧ ∃ n, MintRun env s.infl n s'.infl) ∨
    (s.infl.params.enable = true ∧ idTicked t s.infl.epochId = false ∧ s'.infl = s.infl) ∨
    (s.infl.params.enable = false ∧ idTicked t dayId = true ∧
       s'.infl = { s.infl with skipped := s.infl.skipped + 1, skips := s.infl.skips + 1 }) ∨
    (s.infl.params.enable = false ∧ idTicked t dayId = false ∧ s'.infl = s.infl) := by
  obtain ⟨hinfos, _, _, _, hcase⟩ := block_cases hE hnd hstep
  have hT : ∀ id, idTicked t id = (match s.infos.find? (fun e => e.id == id) with
                     | some e => decide (action e now = .tick)
                     | none => false) := by
    intro id
    have := idTicked_model t now h (by rw [hpost, hpre]; exact hinfos) (by rw [hpre]; exact hnd) id
    rw [hpre] at this
    exact this
  cases hen : s.infl.params.enable with
  | true =>
    have he : effId s.infl = s.infl.epochId := by unfold effId; rw [hen]; rfl
    rw [he] at hcase
    rw [hT s.infl.epochId]
    cases hf : s.infos.find? (fun e => e.id == s.infl.epochId) with
    | none => rw [hf] at hcase; right; left; exact ⟨rfl, rfl, hcase⟩
    | some e0 =>
      rw [hf] at hcase
      simp only at hcase ⊢
      by_cases ht : action e0 now = .tick
      · simp only [ht, if_true] at hcase
        left
        rcases afterEpochEnd_cases hE hcase with ⟨h1, _⟩ | ⟨h1, _⟩ | ⟨_, h2, _⟩ | ⟨_, _, M⟩
        · rw [hen] at h1; cases h1
        · rw [hen] at h1; cases h1
        · exact absurd rfl h2
        · exact ⟨trivial, by simp [ht], _, M⟩
      · simp only [ht, if_false] at hcase
        right; left
        exact ⟨trivial, by simp [ht], hcase⟩
  | false =>
    have he : effId s.infl = dayId := by unfold effId; rw [hen]; rfl
    rw [he] at hcase
    rw [hT dayId]
    right; right
    cases hf : s.infos.find? (fun e => e.id == dayId) with
    | none => rw [hf] at hcase; right; exact ⟨rfl, rfl, hcase⟩
    | some e0 =>
      rw [hf] at hcase
      simp only at hcase ⊢
      by_cases ht : action e0 now = .tick
      · simp only [ht, if_true] at hcase
        left
        rcases afterEpochEnd_cases hE hcase with ⟨_, h2, _⟩ | ⟨_, _, e⟩ | ⟨h1, _⟩ | ⟨h1, _⟩
        · exact absurd rfl h2
        · exact ⟨trivial, by simp [ht], e⟩
        · rw [hen] at h1; cases h1
        · rw [hen] at h1; cases h1
      · simp only [ht, if_false] at hcase
        right
        exact ⟨trivial, by simp [ht], hcase⟩

theorem sameLedger_refl (a b : State) (h : a.infl.bank = b.infl.bank) (hp : a.infl.pool = b.infl.pool) : sameLedger a b = true := by
  unfold sameLedger
  simp [h, hp]

end Inflation
end CV
