import CantoVerif.Proofs.CsrInv
import CantoVerif.Proofs.CsrBank
/-!
# Inversion of a successful `PostTxProcessing` (core Lean only): everything a successful run of the
hook establishes, leg by leg.
-/
set_option linter.unusedSimpArgs false
namespace CV
namespace Csr

/-- `csrFee` is exactly `⌊fee·share / 10^18⌋`: an integer times a decimal is exact before truncation -/
theorem csrFeeOf_ok {fee share v : Nat} (h : csrFeeOf fee share = .ok v) : v = fee * share / S18 := by
  unfold csrFeeOf at h
  obtain ⟨d, h1, h2⟩ := bind_ok h
  have hd := Dec.mul_ok h1
  rw [Dec.mulN_ofInt_left] at hd
  have := Dec.truncateInt_ok h2
  rw [this, hd]

theorem burnAll_ok {env : Env} {s s' : State} {fee : Nat} (h : burnAll env s fee = .ok s') :
    ∃ b', CondApply fee s.bank [.burn env.modAddr env.denom fee] b' ∧ s' = { s with bank := b' } := by
  unfold burnAll at h
  split at h
  · rename_i hz
    injection h with h
    exact ⟨s.bank, Or.inl ⟨hz, rfl⟩, h.symm⟩
  · rename_i hz
    obtain ⟨b, hb, h⟩ := bind_ok h
    injection h with h
    exact ⟨b, Or.inr ⟨hz, hb⟩, h.symm⟩

theorem distributeFees_ok {env : Env} {s s' : State} {ts : Addr} {nft v : Nat}
    (h : distributeFees env s ts nft v = .ok s') :
    v ≠ 0 ∧ s.tsBal.get nft + v < intBound ∧
    ∃ b, s.bank.applyAll (evmTransfer env s.modFirst env.modAddr ts v) = .ok b ∧
      s' = { s with bank := b, tsBal := s.tsBal.set nft (s.tsBal.get nft + v) } := by
  unfold distributeFees at h
  obtain ⟨_, h1, h⟩ := bind_ok h
  obtain ⟨_, h2, h⟩ := bind_ok h
  obtain ⟨b, h3, h⟩ := bind_ok h
  injection h with h
  have h1 := ensure_ok h1
  have h2 := ensure_ok h2
  refine ⟨by simpa using h1, by simpa using h2, b, h3, h.symm⟩

/-- the registered-target leg, step by step -/
structure SplitFacts (env : Env) (s : State) (ts : Addr) (nft : Nat) (r : CSR) (fee share : Nat) (s' : State) : Prop where
  /-- the state after the Turnstile call (or the same state when `csrFee = 0`) -/
  ex : ∃ (s3 : State) (b4 : Bank),
    let csrFee := fee * share / S18
    ((csrFee = 0 ∧ s3 = s) ∨ (csrFee ≠ 0 ∧ distributeFees env s ts nft csrFee = .ok s3)) ∧
    CondApply (fee - csrFee) s3.bank [.burn env.modAddr env.denom (fee - csrFee)] b4 ∧
    r.revenue + csrFee < intBound ∧
    s' = ({ s3 with bank := b4 }.setCSR { r with txs := (r.txs + 1) % U64, revenue := r.revenue + csrFee })

theorem split_ok {env : Env} {s s' : State} {ts : Addr} {nft : Nat} {r : CSR} {fee share : Nat}
    (h0 : split env s ts nft r fee share = .ok s') : SplitFacts env s ts nft r fee share s' := by
  unfold split at h0
  obtain ⟨csrFee, hA, hB⟩ := bind_ok h0
  clear h0
  have hc := csrFeeOf_ok hA
  clear hA
  dsimp only at hB
  obtain ⟨s3, hC, hD⟩ := bind_ok hB
  clear hB
  obtain ⟨b4, hE, hF⟩ := bind_ok hD
  clear hD
  obtain ⟨rev, hG, hH⟩ := bind_ok hF
  clear hF
  obtain ⟨hrev, hlt⟩ := SdkInt.add_ok hG
  clear hG
  injection hH with hH
  rw [hrev] at hH
  rw [hc] at hC hE hlt hH
  refine ⟨s3, b4, ?_, ?_, hlt, hH.symm⟩
  · split at hC
    · rename_i hz
      injection hC with hC
      exact Or.inl ⟨hz, hC.symm⟩
    · rename_i hz
      exact Or.inr ⟨hz, hC⟩
  · split at hE
    · rename_i hz
      injection hE with hE
      exact Or.inl ⟨hz, hE.symm⟩
    · rename_i hz
      exact Or.inr ⟨hz, hE⟩

/-- which leg of the fee path ran -/
inductive FeePath (env : Env) (s1 : State) (ts : Addr) (to : Option Addr) (fee share : Nat) (b1 : Bank) (s' : State) : Prop where
  | burn (hto : to = none ∨ ∃ c, to = some c ∧ s1.nftOf c = none)
      (h : burnAll env { s1 with bank := b1 } fee = .ok s')
  | split (c : Addr) (nft : Nat) (r : CSR) (hto : to = some c) (hn : s1.nftOf c = some nft) (hr : s1.getCSR nft = some r)
      (h : split env { s1 with bank := b1 } ts nft r fee share = .ok s')

/-- everything a successful hook invocation establishes -/
inductive PostFacts (env : Env) (s : State) (to : Option Addr) (gu gp : Nat) (logs : List Log) (s' : State) : Prop where
  | disabled (hen : s.params.enabled = false) (hs : s' = s)
  | gasZero (ts : Addr) (hen : s.params.enabled = true) (hts : s.turnstile = some ts) (hgu : gu = 0)
      (hs : s' = processEvents env ts s logs)
  | fee (ts : Addr) (b1 : Bank) (hen : s.params.enabled = true) (hts : s.turnstile = some ts) (hgu : gu ≠ 0)
      (hgp : gp < intBound) (hfee : gu * gp < intBound)
      (h1 : CondApply (gu * gp) (processEvents env ts s logs).bank
              [.xfer env.feeCollector env.modAddr env.denom (gu * gp)] b1)
      (hpath : FeePath env (processEvents env ts s logs) ts to (gu * gp) s.params.share b1 s')

theorem postTx_ok {env : Env} {s s' : State} {to : Option Addr} {gu gp : Nat} {logs : List Log}
    (h0 : postTx env s to gu gp logs = .ok s') : PostFacts env s to gu gp logs s' := by
  unfold postTx at h0
  split at h0
  · rename_i hen
    injection h0 with h0
    exact .disabled hen h0.symm
  · rename_i hen
    have hen : s.params.enabled = true := by
      cases he : s.params.enabled with
      | true => rfl
      | false => exact absurd he hen
    split at h0
    · cases h0
    · rename_i ts hts
      dsimp only at h0
      split at h0
      · rename_i hgu
        injection h0 with h0
        exact .gasZero ts hen hts hgu h0.symm
      · rename_i hgu
        obtain ⟨gp', hA, hB⟩ := bind_ok h0
        clear h0
        have hgp' : gp' = gp := SdkInt.ofBig_ok hA
        have hgplt : gp < intBound := by
          unfold SdkInt.ofBig at hA
          split at hA
          · assumption
          · cases hA
        clear hA
        rw [hgp'] at hB
        obtain ⟨fee, hC, hD⟩ := bind_ok hB
        clear hB
        obtain ⟨hfee, hfeelt⟩ := SdkInt.mul_ok hC
        clear hC
        rw [hfee] at hD
        obtain ⟨b1, hE, hF⟩ := bind_ok hD
        clear hD
        have hb1 : CondApply (gu * gp) (processEvents env ts s logs).bank
            [.xfer env.feeCollector env.modAddr env.denom (gu * gp)] b1 := by
          split at hE
          · rename_i hz
            injection hE with hE
            exact Or.inl ⟨hz, hE.symm⟩
          · rename_i hz
            exact Or.inr ⟨hz, hE⟩
        clear hE
        refine .fee ts b1 hen hts hgu hgplt hfeelt hb1 ?_
        split at hF
        · exact .burn (Or.inl rfl) hF
        · rename_i c
          split at hF
          · rename_i hn
            exact .burn (Or.inr ⟨c, rfl, hn⟩) hF
          · rename_i nft hn
            split at hF
            · cases hF
            · rename_i r hr
              exact .split c nft r rfl hn hr hF

end Csr
end CV
