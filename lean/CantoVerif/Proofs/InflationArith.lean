import CantoVerif.Model.Inflation
import Mathlib.Tactic.Linarith
import Mathlib.Tactic.Ring
import Mathlib.Tactic.Positivity
/-!
# Arithmetic of the provision formula (`CalculateEpochMintProvision`) in exact `LegacyDec` arithmetic.

* `sub_le_v` — the term subtracted in the bonding incentive, `min(b,t) ⊗ (v ⊘ t)`, never exceeds `v`
  (rounded quotient overshoots by at most ½ ulp, multiplying by `t < 1` keeps the product below
  `v + ½ ulp`, `t = 1` is exact; rounded multiplication is monotone in `b`);
* `provision_ok` — inversion: a successful run of the guarded model returns the guard-free closed form
  `provisionN`, and both subtractions were defined;
* `OnlyErr` — which rejections the guarded computation can end in.
-/
namespace CV
namespace Inflation
open Dec

theorem quoN_one (v : Nat) : quoN v S18 = v := by
  unfold quoN
  have hP : 0 < S18 := by decide
  have : v * (S18 * S18) / S18 = S18 * v := by
    rw [show v * (S18 * S18) = (S18 * v) * S18 by ring]
    exact Nat.mul_div_cancel _ hP
  rw [this, chop_mul_S18]

/-- the subtracted term never exceeds the maximum variance -/
theorem sub_le_v (b t v : Nat) (ht0 : 0 < t) (htP : t ≤ S18) (hb : b ≤ t) : mulN b (quoN v t) ≤ v := by
  have hmono : mulN b (quoN v t) ≤ mulN t (quoN v t) := mulN_mono_left _ hb
  refine Nat.le_trans hmono ?_
  by_cases hEq : t = S18
  · subst hEq
    rw [quoN_one, mulN_one_left]
  · have htlt : t < S18 := Nat.lt_of_le_of_ne htP hEq
    unfold mulN
    apply chop_le_of_lt
    have hT : quoN v t = chop (v * (S18 * S18) / t) := rfl
    generalize hTT : v * (S18 * S18) / t = T at hT
    have hTt : T * t ≤ v * (S18 * S18) := by rw [← hTT]; exact Nat.div_mul_le_self _ _
    have hQ : 2 * S18 * quoN v t ≤ 2 * T + S18 := by rw [hT]; exact two_chop_le T
    have hP : 0 < S18 := by decide
    have h1 : 2 * (t * quoN v t) * S18 ≤ (2 * T + S18) * t := by
      calc 2 * (t * quoN v t) * S18 = (2 * S18 * quoN v t) * t := by ring
        _ ≤ (2 * T + S18) * t := Nat.mul_le_mul_right _ hQ
    have h2 : (2 * T + S18) * t ≤ 2 * (v * (S18 * S18)) + S18 * t := by
      calc (2 * T + S18) * t = 2 * (T * t) + S18 * t := by ring
        _ ≤ 2 * (v * (S18 * S18)) + S18 * t := by omega
    have h3 : 2 * (v * (S18 * S18)) + S18 * t < (2 * v + 1) * S18 * S18 := by
      have : S18 * t < S18 * S18 := Nat.mul_lt_mul_of_pos_left htlt hP
      calc 2 * (v * (S18 * S18)) + S18 * t < 2 * (v * (S18 * S18)) + S18 * S18 := by omega
        _ = (2 * v + 1) * S18 * S18 := by ring
    have h4 : 2 * (t * quoN v t) * S18 < (2 * v + 1) * S18 * S18 := by omega
    exact Nat.lt_of_mul_lt_mul_right h4

theorem capBonded_le (b t : Nat) : capBonded b t ≤ t := by
  unfold capBonded; split <;> omega

/-- for valid parameters the subtracted term is at most the maximum variance, whatever the bonded ratio -/
theorem subN_le (p : Params) (b : Nat) (hv : p.valid = true) : subN p b ≤ p.maxVariance := by
  simp only [Params.valid, Bool.and_eq_true, decide_eq_true_eq] at hv
  obtain ⟨⟨⟨⟨_, _⟩, ht1⟩, ht0⟩, _⟩ := hv
  exact sub_le_v _ _ _ ht0 ht1 (capBonded_le b _)

/-! ### inversion of the guarded computation -/

/-- everything a successful run of `provision` establishes -/
theorem provision_ok {p : Params} {x epp b v : Nat} (h : provision p x epp b = .ok v) :
    v = provisionN p x epp b ∧ p.r ≤ S18 ∧ subN p b ≤ S18 + p.maxVariance ∧ epp ≠ 0 ∧ p.bondingTarget ≠ 0 := by
  unfold provision at h
  obtain ⟨decay, h1, h⟩ := bind_ok h
  obtain ⟨pw, h2, h⟩ := bind_ok h
  obtain ⟨t, h3, h⟩ := bind_ok h
  obtain ⟨ed, h4, h⟩ := bind_ok h
  dsimp only at h
  obtain ⟨q, h5, h⟩ := bind_ok h
  obtain ⟨sub, h6, h⟩ := bind_ok h
  obtain ⟨onePlus, h7, h⟩ := bind_ok h
  obtain ⟨inc, h8, h⟩ := bind_ok h
  obtain ⟨pp, h9, h⟩ := bind_ok h
  obtain ⟨ep, h10, h⟩ := bind_ok h
  obtain ⟨e1, hr⟩ := Dec.sub_ok h1
  have e2 := Dec.power_ok h2
  have e3 := Dec.mul_ok h3
  have e4 := Dec.add_ok h4
  obtain ⟨e5, hbt⟩ := Dec.quo_ok h5
  have e6 := Dec.mul_ok h6
  have e7 := Dec.add_ok h7
  obtain ⟨e8, hsub⟩ := Dec.sub_ok h8
  have e9 := Dec.mul_ok h9
  obtain ⟨e10, hepp⟩ := Dec.quo_ok h10
  have e11 := Dec.mul_ok h
  subst e1 e2 e3 e4 e5 e6 e7 e8 e9 e10 e11
  refine ⟨rfl, hr, hsub, ?_, hbt⟩
  intro h0; apply hepp; rw [h0]; rfl

/-! ### which rejections are possible -/

/-- the computation can only be rejected with a rejection satisfying `P` -/
def OnlyErr {α : Type} (P : Rej → Prop) (x : R α) : Prop := ∀ e, x = .error e → P e

theorem onlyErr_bind {α β : Type} {P : Rej → Prop} {x : R α} {f : α → R β} (hx : OnlyErr P x)
    (hf : ∀ a, x = .ok a → OnlyErr P (f a)) : OnlyErr P (x >>= f) := by
  intro e he
  cases hxe : x with
  | error e' =>
    rw [hxe] at he
    have : e' = e := by injection he
    subst this
    exact hx _ hxe
  | ok a =>
    rw [hxe] at he
    exact hf a hxe e he

def IsOverflow (e : Rej) : Prop := e = .overflow

theorem onlyErr_guard (v : Nat) : OnlyErr IsOverflow (guard315 v) := by
  intro e he; unfold guard315 at he; split at he
  · cases he
  · injection he with he; exact he.symm
theorem onlyErr_mul (a b : Nat) : OnlyErr IsOverflow (Dec.mul a b) := onlyErr_guard _
theorem onlyErr_add (a b : Nat) : OnlyErr IsOverflow (Dec.add a b) := onlyErr_guard _
theorem onlyErr_quo (a b : Nat) (hb : b ≠ 0) : OnlyErr IsOverflow (Dec.quo a b) := by
  intro e he; unfold Dec.quo at he; rw [if_neg hb] at he; exact onlyErr_guard _ e he
theorem onlyErr_sub (a b : Nat) (h : b ≤ a) : OnlyErr IsOverflow (Dec.sub a b) := by
  intro e he; unfold Dec.sub at he; rw [if_pos h] at he; cases he

theorem onlyErr_powLoopG (i : Nat) : ∀ d tmp, OnlyErr IsOverflow (powLoopG i d tmp) := by
  induction i using Nat.strongRecOn with
  | _ i ih =>
    intro d tmp
    unfold powLoopG
    split
    · exact onlyErr_mul _ _
    · apply onlyErr_bind
      · split
        · exact onlyErr_mul _ _
        · intro e he; cases he
      · intro tmp' _
        apply onlyErr_bind (onlyErr_mul _ _)
        intro d' _
        exact ih (i / 2) (by omega) _ _

theorem onlyErr_power (d n : Nat) : OnlyErr IsOverflow (Dec.power d n) := by
  unfold Dec.power
  split
  · intro e he; cases he
  · exact onlyErr_powLoopG _ _ _

end Inflation
end CV
