import CantoVerif.Proofs.GenesisMap
/-!
# Module invariants of the genesis model and the per-module round-trip lemmas
(`init (export s) = s` up to the two deliberately recomputed values, `validate (export s) = true`).
-/
namespace CV
namespace Genesis

open CV.Coinswap (validDenom)

/-! ## what is assumed of the external functions -/

/-- the stored 20-byte address `b` survives `common.Address.String()` followed by `common.HexToAddress`, and its string
form is not empty (an empty string means "not deployed" to the import) -/
def AddrRT (env : Env) (b : Bytes) : Prop := env.hexBytes (env.hexString b) = b ∧ env.hexString b ≠ ""

/-! ## coinswap -/

/-- the running maximum of the `ValidateGenesis` loop -/
def maxSeq (pools : List Pool) (mx : Nat) : Nat :=
  pools.foldl (fun m p => if (parseLpt p.lpt).getD 0 > m then (parseLpt p.lpt).getD 0 else m) mx

def PoolOK (env : Env) (p : Pool) : Prop :=
  (parseLpt p.lpt).isSome = true ∧ validDenom p.counter = true ∧ validDenom p.std = true ∧ env.validAddr p.escrow = true

structure CsInv (env : Env) (s : CsState) : Prop where
  sorted : SortedBy poolKey s.pools
  idx : s.lptIdx = build lptKey (s.pools.map (fun p => (p.lpt, p.id)))
  lptNodup : s.pools.Pairwise (fun a b => a.lpt ≠ b.lpt)
  poolOk : ∀ p ∈ s.pools, PoolOK env p
  seq : s.seq = maxSeq s.pools 0 + 1
  std : validDenom s.std = true
  params : csParamsValid s.params = true

theorem csLoop_ok (env : Env) : ∀ (l : List Pool) (ids lpts : List String) (mx : Nat),
    (∀ p ∈ l, PoolOK env p) → l.Pairwise (fun a b => a.id ≠ b.id) → l.Pairwise (fun a b => a.lpt ≠ b.lpt) →
    (∀ p ∈ l, p.id ∉ ids) → (∀ p ∈ l, p.lpt ∉ lpts) → csLoop env l ids lpts mx = some (maxSeq l mx)
  | [], _, _, _, _, _, _, _, _ => rfl
  | p :: rest, ids, lpts, mx, hok, hid, hlpt, hni, hnl => by
    have hp := hok p (List.mem_cons_self ..)
    obtain ⟨hparse, hc, hs, ha⟩ := hp
    have h1 : ids.contains p.id = false := by
      have := hni p (List.mem_cons_self ..)
      simpa using this
    have h2 : lpts.contains p.lpt = false := by
      have := hnl p (List.mem_cons_self ..)
      simpa using this
    obtain ⟨sq, hsq⟩ := Option.isSome_iff_exists.mp hparse
    have hidc := List.pairwise_cons.mp hid
    have hlptc := List.pairwise_cons.mp hlpt
    unfold csLoop
    simp only [h1, h2, hsq, hc, hs, ha, Bool.false_eq_true, if_false, Bool.not_true]
    rw [csLoop_ok env rest (p.id :: ids) (p.lpt :: lpts) _ (fun q hq => hok q (List.mem_cons_of_mem _ hq)) hidc.2 hlptc.2]
    · simp [maxSeq, hsq]
    · intro q hq hmem
      rcases List.mem_cons.mp hmem with h | h
      · exact hidc.1 q hq h.symm
      · exact hni q (List.mem_cons_of_mem _ hq) h
    · intro q hq hmem
      rcases List.mem_cons.mp hmem with h | h
      · exact hlptc.1 q hq h.symm
      · exact hnl q (List.mem_cons_of_mem _ hq) h

theorem cs_export_validates {env : Env} {s : CsState} (h : CsInv env s) : csValidate env (csExport s) = true := by
  have hid : s.pools.Pairwise (fun a b => a.id ≠ b.id) :=
    h.sorted.pairwise_ne (f := fun p => p.id) (fun a b e => by simp only [poolKey]; rw [e])
  have := csLoop_ok env s.pools [] [] 0 h.poolOk hid h.lptNodup (by simp) (by simp)
  simp [csValidate, csExport, this, h.std, h.params, h.seq]

theorem csSetPools_eq (pools : List Pool) :
    csSetPools pools = (build poolKey pools, build lptKey (pools.map (fun p => (p.lpt, p.id)))) := by
  unfold csSetPools build
  rw [foldl_pair (fun a p => insBy poolKey p a) (fun a (p : Pool) => insBy lptKey (p.lpt, p.id) a)]
  simp [List.foldl_map]

theorem cs_init_export {env : Env} {s : CsState} (h : CsInv env s) : csInit env (csExport s) = .ok s := by
  unfold csInit
  rw [cs_export_validates h]
  simp only [if_true, csExport]
  rw [csSetPools_eq, build_sorted_id _ _ h.sorted, ← h.idx]

/-! ## erc20 -/

structure Erc20Inv (env : Env) (s : Erc20State) : Prop where
  pairsSorted : SortedBy (pairKey env) s.pairs
  dixSorted : SortedBy dixKey s.dix
  aixSorted : SortedBy aixKey s.aix
  aixLen : ∀ e ∈ s.aix, e.1.length = 20
  addrNodup : s.pairs.Pairwise (fun a b => a.addr ≠ b.addr)
  denomNodup : s.pairs.Pairwise (fun a b => a.denom ≠ b.denom)
  pairOk : ∀ p ∈ s.pairs, validDenom p.denom = true ∧ isHexAddress p.addr = true

theorem toAddr20_id {b : Bytes} (h : b.length = 20) : toAddr20 b = b := by
  simp [toAddr20, h]

theorem erc20Loop_ok : ∀ (l : List Pair) (addrs denoms : List String),
    (∀ p ∈ l, validDenom p.denom = true ∧ isHexAddress p.addr = true) →
    l.Pairwise (fun a b => a.addr ≠ b.addr) → l.Pairwise (fun a b => a.denom ≠ b.denom) →
    (∀ p ∈ l, p.addr ∉ addrs) → (∀ p ∈ l, p.denom ∉ denoms) → erc20Loop l addrs denoms = true
  | [], _, _, _, _, _, _, _ => rfl
  | p :: rest, addrs, denoms, hok, ha, hd, hna, hnd => by
    have hp := hok p (List.mem_cons_self ..)
    have h1 : addrs.contains p.addr = false := by
      have := hna p (List.mem_cons_self ..)
      simpa using this
    have h2 : denoms.contains p.denom = false := by
      have := hnd p (List.mem_cons_self ..)
      simpa using this
    have hac := List.pairwise_cons.mp ha
    have hdc := List.pairwise_cons.mp hd
    unfold erc20Loop
    simp only [h1, h2, hp.1, hp.2, Bool.false_eq_true, if_false, Bool.not_true]
    apply erc20Loop_ok rest _ _ (fun q hq => hok q (List.mem_cons_of_mem _ hq)) hac.2 hdc.2
    · intro q hq hmem
      rcases List.mem_cons.mp hmem with h | h
      · exact hac.1 q hq h.symm
      · exact hna q (List.mem_cons_of_mem _ hq) h
    · intro q hq hmem
      rcases List.mem_cons.mp hmem with h | h
      · exact hdc.1 q hq h.symm
      · exact hnd q (List.mem_cons_of_mem _ hq) h

theorem erc20_export_validates {env : Env} {s : Erc20State} (h : Erc20Inv env s) : erc20Validate (erc20Export s) = true :=
  erc20Loop_ok s.pairs [] [] h.pairOk h.addrNodup h.denomNodup (by simp) (by simp)

theorem erc20_init_export {env : Env} {s : Erc20State} (h : Erc20Inv env s) : erc20Init env (erc20Export s) = .ok s := by
  have haix : s.aix.map (fun e => (toAddr20 e.1, e.2)) = s.aix := by
    have : ∀ e ∈ s.aix, (fun e : Bytes × Bytes => (toAddr20 e.1, e.2)) e = e := by
      intro e he; simp [toAddr20_id (h.aixLen e he)]
    rw [List.map_congr_left this]; simp
  simp only [erc20Init, erc20Export, haix, build_sorted_id _ _ h.pairsSorted, build_sorted_id _ _ h.dixSorted,
    build_sorted_id _ _ h.aixSorted]

/-! ## csr -/

/-- the contract index that `SetCSR` builds when the records are written in store order -/
def cidxOf (csrs : List Csr) : List (String × Nat) :=
  csrs.foldl (fun ix c => c.contracts.foldl (fun ix a => insBy cidxKey (a, c.id) ix) ix) []

structure CsrInv (env : Env) (s : CsrState) : Prop where
  sorted : SortedBy csrKey s.csrs
  idx : s.cidx = cidxOf s.csrs
  shares : csrValidate { enable := s.enable, shares := s.shares, csrs := [], turnstile := "" } = true
  ts : ∀ b, s.turnstile = some b → AddrRT env b

theorem foldl_setCsr (csrs : List Csr) : csrs.foldl setCsr ([], []) = (build csrKey csrs, cidxOf csrs) := by
  have : setCsr = fun (acc : List Csr × List (String × Nat)) c =>
      ((fun a c => insBy csrKey c a) acc.1 c, (fun ix (c : Csr) => c.contracts.foldl (fun ix a => insBy cidxKey (a, c.id) ix) ix) acc.2 c) := by
    funext acc c; rfl
  rw [this]
  exact foldl_pair (fun a c => insBy csrKey c a)
    (fun ix (c : Csr) => c.contracts.foldl (fun ix a => insBy cidxKey (a, c.id) ix) ix) csrs [] []

theorem csr_export_validates {env : Env} {s : CsrState} (h : CsrInv env s) : csrValidate (csrExport env s) = true := by
  have := h.shares
  simp only [csrValidate, csrExport] at this ⊢
  exact this

theorem csr_init_export {env : Env} {s : CsrState} (h : CsrInv env s) :
    csrInit env (csrExport env s) = .ok s := by
  unfold csrInit csrExport
  simp only [foldl_setCsr, build_sorted_id _ _ h.sorted, ← h.idx]
  cases hts : s.turnstile with
  | none => cases s; simp_all
  | some b =>
    have hb := h.ts b hts
    unfold AddrRT at hb
    cases s; simp_all

/-! ## govshuttle -/

def GsInv (env : Env) (s : GsState) : Prop := ∀ b, s.port = some b → AddrRT env b

theorem gs_init_export {env : Env} {s : GsState} (h : GsInv env s) : gsInit env (gsExport env s) = .ok s := by
  unfold gsInit gsExport
  cases hp : s.port with
  | none => cases s; simp_all
  | some b =>
    have hb := h b hp
    unfold AddrRT at hb
    cases s; simp_all

/-! ## epochs -/

def EpochOK (e : Epoch) : Prop :=
  blank e.id = false ∧ e.dur ≠ 0 ∧ 0 ≤ e.cur ∧ 0 ≤ e.height ∧ e.start ≠ zeroTime

structure EpInv (s : EpState) : Prop where
  sorted : SortedBy epochKey s.epochs
  ok : ∀ e ∈ s.epochs, EpochOK e

def setHeight (h : Int) (e : Epoch) : Epoch := { e with height := h }

theorem epLoop_ok : ∀ (l : List Epoch) (seen : List String), (∀ e ∈ l, EpochOK e) →
    l.Pairwise (fun a b => a.id ≠ b.id) → (∀ e ∈ l, e.id ∉ seen) → epLoop l seen = true
  | [], _, _, _, _ => rfl
  | e :: rest, seen, hok, hid, hns => by
    obtain ⟨hb, hd, hc, hh, _⟩ := hok e (List.mem_cons_self ..)
    have h1 : seen.contains e.id = false := by
      have := hns e (List.mem_cons_self ..)
      simpa using this
    have hidc := List.pairwise_cons.mp hid
    have hv : epochValid e = true := by simp [epochValid, hb, hd, hc, hh]
    unfold epLoop
    simp only [h1, hv, Bool.false_eq_true, if_false, Bool.not_true]
    apply epLoop_ok rest _ (fun q hq => hok q (List.mem_cons_of_mem _ hq)) hidc.2
    intro q hq hmem
    rcases List.mem_cons.mp hmem with h | h
    · exact hidc.1 q hq h.symm
    · exact hns q (List.mem_cons_of_mem _ hq) h

theorem ep_export_validates {s : EpState} (h : EpInv s) : epValidate (epExport s) = true :=
  epLoop_ok s.epochs [] h.ok
    (h.sorted.pairwise_ne (f := fun e => e.id) (fun a b e => by simp only [epochKey]; rw [e])) (by simp)

theorem sortedBy_map {α : Type} {key : α → Bytes} {f : α → α} (hf : ∀ a, key (f a) = key a) {l : List α}
    (h : SortedBy key l) : SortedBy key (l.map f) := by
  unfold SortedBy at *
  rw [List.pairwise_map]
  exact List.Pairwise.imp (fun {a b} hab => by rw [hf a, hf b]; exact hab) h

theorem ep_init_export {s : EpState} (ctx : Ctx) (h : EpInv s) :
    epInit ctx (epExport s) = .ok { epochs := s.epochs.map (setHeight ctx.height) } := by
  have hmap : s.epochs.map (epImport ctx) = s.epochs.map (setHeight ctx.height) := by
    apply List.map_congr_left
    intro e he
    have := (h.ok e he).2.2.2.2
    simp [epImport, setHeight, this]
  have hs : SortedBy epochKey (s.epochs.map (setHeight ctx.height)) :=
    sortedBy_map (f := setHeight ctx.height) (fun a => rfl) h.sorted
  simp only [epInit, epExport, hmap, build_sorted_id _ _ hs]

theorem lookBy_map {α : Type} (key : α → Bytes) (f : α → α) (hf : ∀ a, key (f a) = key a) (k : Bytes) :
    ∀ l : List α, lookBy key k (l.map f) = (lookBy key k l).map f
  | [] => rfl
  | w :: rest => by
    simp only [List.map_cons, lookBy, hf]
    split
    · rfl
    · exact lookBy_map key f hf k rest

/-! ## inflation, onboarding -/

def InfInv (s : InfState) : Prop := infValidate (infExport s) = true
def ObInv (s : ObState) : Prop := obValidate (obExport s) = true

/-! ## all seven -/

structure Inv (env : Env) (s : State) : Prop where
  cs : CsInv env s.cs
  erc20 : Erc20Inv env s.erc20
  csr : CsrInv env s.csr
  gs : GsInv env s.gs
  ob : ObInv s.ob
  ep : EpInv s.ep
  inf : InfInv s.inf

/-- the state a fresh chain holds after importing `export s` in block context `ctx`: `s` itself except for the two
things the import deliberately recomputes -/
def reimport (env : Env) (ctx : Ctx) (s : State) : State :=
  { s with ep := { epochs := s.ep.epochs.map (setHeight ctx.height) },
           inf := { s.inf with provision := infProvision env ctx s.inf.params s.inf.period s.inf.epp } }

theorem init_export {env : Env} (ctx : Ctx) {s : State} (h : Inv env s) :
    initAll env ctx (exportAll env s) = .ok (reimport env ctx s) := by
  unfold initAll exportAll
  simp only [cs_init_export h.cs, erc20_init_export h.erc20, csr_init_export h.csr, gs_init_export h.gs,
    ep_init_export ctx h.ep, obInit, obExport, infInit, infExport, bind, Except.bind, reimport]

end Genesis
end CV
