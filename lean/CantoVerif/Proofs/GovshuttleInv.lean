import CantoVerif.Model.Govshuttle
/-!
# Inversion lemmas for the govshuttle model: everything a successful run establishes, and the
store laws (`sget`/`sset`, `queryStore`).
-/
namespace CV
namespace Govshuttle

/-! ## the abstract store -/

theorem sget_sset (st : Store) (k k' : Nat) (v : Proposal) :
    sget (sset st k v) k' = if k' = k then v else sget st k' := by
  induction st with
  | nil =>
    by_cases h : k' = k
    · subst h; simp [sset, sget]
    · have : ¬ k = k' := fun e => h e.symm
      simp [sset, sget, h, this]
  | cons p ps ih =>
    obtain ⟨pk, pv⟩ := p
    by_cases h1 : pk = k
    · subst h1
      by_cases h2 : k' = pk
      · subst h2; simp [sset, sget]
      · have : ¬ pk = k' := fun e => h2 e.symm
        simp [sset, sget, h2, this]
    · by_cases h2 : pk = k'
      · subst h2
        simp [sset, sget, h1]
      · simp [sset, sget, h1, h2, ih]

theorem sget_sset_same (st : Store) (k : Nat) (v : Proposal) : sget (sset st k v) k = v := by
  simp [sget_sset]
theorem sget_sset_other (st : Store) {k k' : Nat} (v : Proposal) (h : k' ≠ k) : sget (sset st k v) k' = sget st k' := by
  simp [sget_sset, h]

/-- the slot just written is answered as written (its id is the key it was written under) -/
theorem queryStore_sset_same (st : Store) (p : Proposal) : queryStore (sset st p.id p) p.id = p := by
  unfold queryStore
  simp [sget_sset_same]

/-- every other slot answers as before -/
theorem queryStore_sset_other (st : Store) {k j : Nat} (p : Proposal) (h : j ≠ k) :
    queryStore (sset st k p) j = queryStore st j := by
  unfold queryStore
  simp [sget_sset_other st p h]

theorem queryStore_nil (j : Nat) : queryStore [] j = Proposal.empty := by
  unfold queryStore sget
  simp

/-! ## inversion of the keeper functions -/

theorem createAddr_ok {env : Env} {n : Nat} {a : Bytes} (h : env.createAddr n = .ok a) : lookupN env.create n = some a := by
  unfold Env.createAddr at h
  split at h
  · rename_i b hb; injection h with h; rw [hb, h]
  · cases h

theorem findOrDeploy_ok {env : Env} {s : State} {p : Proposal} {f : Bool} {d : Dep}
    (h : findOrDeploy env s p f = .ok d) :
    (∃ a, s.port = some a ∧ d.addr = a ∧ d.store = s.store ∧ d.nonce = s.nonce) ∨
    (s.port = none ∧ f = false ∧ ∃ a, env.createAddr s.nonce = .ok a ∧ d.addr = a ∧ d.store = sset [] p.id p ∧
      d.nonce = s.nonce + 1) := by
  unfold findOrDeploy at h
  split at h
  · rename_i a ha
    injection h with h; subst h
    exact .inl ⟨a, ha, rfl, rfl, rfl⟩
  · rename_i hn
    obtain ⟨a, hc, h⟩ := bind_ok h
    obtain ⟨_, he, h⟩ := bind_ok h
    have hf := ensure_ok he
    injection h with h; subst h
    exact .inr ⟨hn, by simpa using hf, a, hc, rfl, rfl, rfl⟩

/-- what a successful `AppendLendingMarketProposal` establishes -/
structure AppendFacts (env : Env) (s : State) (title desc : Bytes) (m : Metadata) (f : Bool) (s' : State) : Prop where
  noFail : f = false
  dep : ∃ d, findOrDeploy env s (content s title desc m) f = .ok d ∧
    s'.port = some d.addr ∧ s'.store = sset d.store (effId s m.propId) (content s title desc m) ∧ s'.nonce = d.nonce
  next : s'.nextGovId = s.nextGovId

theorem append_ok {env : Env} {s s' : State} {title desc : Bytes} {m : Metadata} {f : Bool} {u : Unit}
    (h : append env s title desc m f = .ok (s', u)) : AppendFacts env s title desc m f s' := by
  unfold append at h
  obtain ⟨d, hd, h⟩ := bind_ok h
  obtain ⟨_, he, h⟩ := bind_ok h
  have hf := ensure_ok he
  injection h with h
  simp only [Prod.mk.injEq] at h
  obtain ⟨h, _⟩ := h
  subst h
  exact ⟨by simpa using hf, ⟨d, hd, rfl, rfl, rfl⟩, rfl⟩

theorem content_id (s : State) (title desc : Bytes) (m : Metadata) : (content s title desc m).id = effId s m.propId := rfl

/-- after a successful append the written id answers the submitted record -/
theorem append_query_same {env : Env} {s s' : State} {title desc : Bytes} {m : Metadata} {f : Bool}
    (F : AppendFacts env s title desc m f s') :
    query s' (effId s m.propId) = some (content s title desc m) := by
  obtain ⟨d, _, hp, hs, _⟩ := F.dep
  unfold query
  rw [hp, hs]
  simp only
  rw [← content_id s title desc m, queryStore_sset_same]

/-- after a successful append on an existing store, every other id answers as before -/
theorem append_query_other {env : Env} {s s' : State} {title desc : Bytes} {m : Metadata} {f : Bool} {a : Bytes}
    (F : AppendFacts env s title desc m f s') (hp : s.port = some a) {j : Nat} (hj : j ≠ effId s m.propId) :
    query s' j = query s j := by
  obtain ⟨d, hd, hp', hs, _⟩ := F.dep
  rcases findOrDeploy_ok hd with ⟨a', ha', _, hst, _⟩ | ⟨hn, _⟩
  · unfold query
    rw [hp', hs, hp, hst]
    simp only
    rw [queryStore_sset_other _ _ hj]
  · rw [hp] at hn; cases hn

/-- after a successful append that deployed the store, every other id answers the empty record -/
theorem append_query_other_deploy {env : Env} {s s' : State} {title desc : Bytes} {m : Metadata} {f : Bool}
    (F : AppendFacts env s title desc m f s') (hp : s.port = none) {j : Nat} (hj : j ≠ effId s m.propId) :
    query s' j = some Proposal.empty := by
  obtain ⟨d, hd, hp', hs, _⟩ := F.dep
  rcases findOrDeploy_ok hd with ⟨a', ha', _⟩ | ⟨_, _, a, _, _, hst, _⟩
  · rw [hp] at ha'; cases ha'
  · unfold query
    rw [hp', hs, hst]
    simp only
    rw [queryStore_sset_other _ _ hj, content_id, queryStore_sset_other _ _ hj, queryStore_nil]

/-- port and nonce after a successful append -/
theorem append_port {env : Env} {s s' : State} {title desc : Bytes} {m : Metadata} {f : Bool}
    (F : AppendFacts env s title desc m f s') :
    (∀ a, s.port = some a → s'.port = some a ∧ s'.nonce = s.nonce) ∧
    (s.port = none → ∃ a, env.createAddr s.nonce = .ok a ∧ s'.port = some a ∧ s'.nonce = s.nonce + 1) := by
  obtain ⟨d, hd, hp', _, hn'⟩ := F.dep
  rcases findOrDeploy_ok hd with ⟨a', ha', hda, _, hdn⟩ | ⟨hn, _, a, hc, hda, _, hdn⟩
  · refine ⟨fun a ha => ?_, fun hn => ?_⟩
    · rw [ha'] at ha; injection ha with ha; subst ha
      exact ⟨by rw [hp', hda], by rw [hn', hdn]⟩
    · rw [hn] at ha'; cases ha'
  · refine ⟨fun a' ha' => ?_, fun _ => ⟨a, hc, by rw [hp', hda], by rw [hn', hdn]⟩⟩
    rw [hn] at ha'; cases ha'

/-- what a successful `LendingMarketProposal` establishes -/
theorem lendingMarket_ok {env : Env} {s s' : State} {m : MsgLM} {f : Bool} {u : Unit}
    (h : lendingMarket env s m f = .ok (s', u)) :
    m.authority = env.authority ∧ (lens m.metadata).1 = (lens m.metadata).2.1 ∧ (lens m.metadata).2.1 = (lens m.metadata).2.2 ∧
    ∃ md, m.metadata = some md ∧ AppendFacts env s m.title m.desc md f s' := by
  unfold lendingMarket at h
  obtain ⟨_, h1, h⟩ := bind_ok h
  obtain ⟨_, h2, h⟩ := bind_ok h
  obtain ⟨_, h3, h⟩ := bind_ok h
  have a1 := ensure_ok h1
  have a2 := ensure_ok h2
  have a3 := ensure_ok h3
  split at h
  · cases h
  · rename_i md hmd
    exact ⟨by simpa using a1, by simpa using a2, by simpa using a3, md, hmd, append_ok h⟩

/-- what a successful `TreasuryProposal` establishes -/
theorem treasury_ok {env : Env} {s s' : State} {m : MsgTreasury} {f : Bool} {u : Unit}
    (h : treasury env s m f = .ok (s', u)) :
    m.authority = env.authority ∧
    ∃ md, m.metadata = some md ∧ denomOK md.denom = true ∧ AppendFacts env s m.title m.desc (fromTreasury md) f s' := by
  unfold treasury at h
  obtain ⟨_, h1, h⟩ := bind_ok h
  have a1 := ensure_ok h1
  split at h
  · cases h
  · rename_i md hmd
    obtain ⟨_, h2, h⟩ := bind_ok h
    exact ⟨by simpa using a1, md, hmd, ensure_ok h2, append_ok h⟩

end Govshuttle
end CV
