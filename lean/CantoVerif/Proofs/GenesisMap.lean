import CantoVerif.Model.Genesis
/-!
# Sorted store sections: the byte-wise key order is a strict total order; rebuilding a section by
`Set`-ing its records in iteration order gives the section back (`build_sorted_id`).
Core Lean only.
-/
namespace CV
namespace Genesis

theorem bytesLt_irrefl : ∀ a : Bytes, bytesLt a a = false
  | [] => rfl
  | x :: xs => by simp [bytesLt, bytesLt_irrefl xs]

theorem bytesLt_trans : ∀ {a b c : Bytes}, bytesLt a b = true → bytesLt b c = true → bytesLt a c = true
  | [], [], _, h, _ => by simp [bytesLt] at h
  | [], _ :: _, [], _, h => by simp [bytesLt] at h
  | [], _ :: _, _ :: _, _, _ => by simp [bytesLt]
  | _ :: _, [], _, h, _ => by simp [bytesLt] at h
  | _ :: _, _ :: _, [], _, h => by simp [bytesLt] at h
  | x :: xs, y :: ys, z :: zs, h1, h2 => by
    simp only [bytesLt] at h1 h2 ⊢
    by_cases hxy : x < y
    · by_cases hyz : y < z
      · have : x < z := Nat.lt_trans hxy hyz
        simp [this]
      · simp only [hyz, if_false] at h2
        by_cases hzy : z < y
        · simp [hzy] at h2
        · have : y = z := by omega
          subst this; simp [hxy]
    · simp only [hxy, if_false] at h1
      by_cases hyx : y < x
      · simp [hyx] at h1
      · have hxy' : x = y := by omega
        subst hxy'
        simp only [hyx, if_false] at h1
        by_cases hxz : x < z
        · simp [hxz]
        · simp only [hxz, if_false] at h2 ⊢
          by_cases hzx : z < x
          · simp [hzx] at h2
          · simp only [hzx, if_false] at h2 ⊢
            exact bytesLt_trans h1 h2

/-- trichotomy: two keys neither of which is below the other are equal -/
theorem bytesLt_connex : ∀ {a b : Bytes}, bytesLt a b = false → bytesLt b a = false → a = b
  | [], [], _, _ => rfl
  | [], _ :: _, h, _ => by simp [bytesLt] at h
  | _ :: _, [], _, h => by simp [bytesLt] at h
  | x :: xs, y :: ys, h1, h2 => by
    simp only [bytesLt] at h1 h2
    by_cases hxy : x < y
    · simp [hxy] at h1
    · by_cases hyx : y < x
      · simp [hyx] at h2
      · have : x = y := by omega
        subst this
        simp only [hxy, if_false] at h1 h2
        rw [bytesLt_connex h1 h2]

theorem bytesLt_ne {a b : Bytes} (h : bytesLt a b = true) : a ≠ b := by
  intro e; subst e; rw [bytesLt_irrefl] at h; cases h

theorem bytesLt_asymm {a b : Bytes} (h : bytesLt a b = true) : bytesLt b a = false := by
  cases hb : bytesLt b a with
  | false => rfl
  | true => have := bytesLt_trans h hb; rw [bytesLt_irrefl] at this; cases this

/-- a store section: records in strictly increasing key order -/
def SortedBy {α : Type} (key : α → Bytes) (l : List α) : Prop :=
  l.Pairwise (fun a b => bytesLt (key a) (key b) = true)

theorem SortedBy.nil {α : Type} {key : α → Bytes} : SortedBy key ([] : List α) := List.Pairwise.nil

/-- a key above every key of the section is appended at the end -/
theorem insBy_last {α : Type} (key : α → Bytes) (v : α) :
    ∀ (l : List α), (∀ w ∈ l, bytesLt (key w) (key v) = true) → insBy key v l = l ++ [v]
  | [], _ => rfl
  | w :: rest, h => by
    have hw : bytesLt (key w) (key v) = true := h w (List.mem_cons_self ..)
    have hvw : bytesLt (key v) (key w) = false := bytesLt_asymm hw
    simp only [insBy, hvw, hw, if_true, List.cons_append]
    simp only [Bool.false_eq_true, if_false]
    rw [insBy_last key v rest (fun x hx => h x (List.mem_cons_of_mem _ hx))]

theorem foldl_insBy_sorted {α : Type} (key : α → Bytes) :
    ∀ (l acc : List α), SortedBy key (acc ++ l) → l.foldl (fun a v => insBy key v a) acc = acc ++ l
  | [], acc, _ => by simp
  | v :: l, acc, h => by
    simp only [List.foldl_cons]
    have hlast : insBy key v acc = acc ++ [v] := by
      apply insBy_last
      intro w hw
      have := List.pairwise_append.mp h
      exact this.2.2 w hw v (List.mem_cons_self ..)
    rw [hlast]
    have h' : SortedBy key ((acc ++ [v]) ++ l) := by simpa [SortedBy] using h
    rw [foldl_insBy_sorted key l (acc ++ [v]) h']
    simp

/-- **Re-`Set`ting the records of a section in iteration order gives the section back.** -/
theorem build_sorted_id {α : Type} (key : α → Bytes) (l : List α) (h : SortedBy key l) : build key l = l := by
  unfold build
  have := foldl_insBy_sorted key l [] (by simpa using h)
  simpa using this

theorem mem_insBy {α : Type} (key : α → Bytes) (v : α) : ∀ (l : List α) (x : α), x ∈ insBy key v l → x = v ∨ x ∈ l
  | [], x, h => by simp [insBy] at h; exact Or.inl h
  | w :: rest, x, h => by
    simp only [insBy] at h
    split at h
    · simp only [List.mem_cons] at h ⊢
      rcases h with h | h | h
      · exact Or.inl h
      · exact Or.inr (Or.inl h)
      · exact Or.inr (Or.inr h)
    · split at h
      · simp only [List.mem_cons] at h ⊢
        rcases h with h | h
        · exact Or.inr (Or.inl h)
        · rcases mem_insBy key v rest x h with h | h
          · exact Or.inl h
          · exact Or.inr (Or.inr h)
      · simp only [List.mem_cons] at h ⊢
        rcases h with h | h
        · exact Or.inl h
        · exact Or.inr (Or.inr h)

theorem insBy_sorted {α : Type} (key : α → Bytes) (v : α) : ∀ (l : List α), SortedBy key l → SortedBy key (insBy key v l)
  | [], _ => by simp [insBy, SortedBy]
  | w :: rest, h => by
    have hw := List.pairwise_cons.mp h
    simp only [insBy]
    split
    · rename_i hvw
      refine List.pairwise_cons.mpr ⟨?_, h⟩
      intro x hx
      rcases List.mem_cons.mp hx with rfl | hx
      · exact hvw
      · exact bytesLt_trans hvw (hw.1 x hx)
    · split
      · rename_i _ hwv
        refine List.pairwise_cons.mpr ⟨?_, insBy_sorted key v rest hw.2⟩
        intro x hx
        rcases mem_insBy key v rest x hx with rfl | hx
        · exact hwv
        · exact hw.1 x hx
      · rename_i h1 h2
        have heq : key v = key w := bytesLt_connex (by simpa using h1) (by simpa using h2)
        refine List.pairwise_cons.mpr ⟨?_, hw.2⟩
        intro x hx
        rw [heq]; exact hw.1 x hx

theorem build_sorted {α : Type} (key : α → Bytes) (l : List α) : SortedBy key (build key l) := by
  unfold build
  suffices ∀ acc, SortedBy key acc → SortedBy key (l.foldl (fun a v => insBy key v a) acc) from this [] SortedBy.nil
  induction l with
  | nil => intro acc h; simpa
  | cons v l ih => intro acc h; exact ih _ (insBy_sorted key v acc h)

theorem mem_foldl_insBy {α : Type} (key : α → Bytes) (x : α) :
    ∀ (l acc : List α), x ∈ l.foldl (fun a v => insBy key v a) acc → x ∈ acc ∨ x ∈ l
  | [], acc, h => Or.inl (by simpa using h)
  | v :: l, acc, h => by
    simp only [List.foldl_cons] at h
    rcases mem_foldl_insBy key x l _ h with h | h
    · rcases mem_insBy key v acc x h with h | h
      · exact Or.inr (by simp [h])
      · exact Or.inl h
    · exact Or.inr (List.mem_cons_of_mem _ h)

theorem mem_build {α : Type} (key : α → Bytes) (l : List α) (x : α) (h : x ∈ build key l) : x ∈ l := by
  rcases mem_foldl_insBy key x l [] h with h | h
  · cases h
  · exact h

/-- distinct records of a sorted section have distinct images under any function the key is a function of -/
theorem SortedBy.pairwise_ne {α β : Type} {key : α → Bytes} {f : α → β} {l : List α} (h : SortedBy key l)
    (hf : ∀ a b, f a = f b → key a = key b) : l.Pairwise (fun a b => f a ≠ f b) :=
  List.Pairwise.imp (fun {a b} hab e => by
    have := hf a b e; rw [this, bytesLt_irrefl] at hab; cases hab) h

/-- two independent sections written in one loop -/
theorem foldl_pair {α β γ : Type} (f : β → α → β) (g : γ → α → γ) :
    ∀ (l : List α) (b : β) (c : γ), l.foldl (fun (acc : β × γ) a => (f acc.1 a, g acc.2 a)) (b, c) = (l.foldl f b, l.foldl g c)
  | [], _, _ => rfl
  | a :: l, b, c => by simp only [List.foldl_cons]; exact foldl_pair f g l _ _

theorem lookBy_mem {α : Type} (key : α → Bytes) (k : Bytes) : ∀ (l : List α) (x : α), lookBy key k l = some x → x ∈ l ∧ key x = k
  | [], _, h => by simp [lookBy] at h
  | w :: rest, x, h => by
    simp only [lookBy] at h
    split at h
    · injection h with h; subst h; exact ⟨List.mem_cons_self .., by assumption⟩
    · have := lookBy_mem key k rest x h
      exact ⟨List.mem_cons_of_mem _ this.1, this.2⟩

end Genesis
end CV
