import CantoVerif.Proofs.CoinswapEffects
import Std.Data.String.ToNat
/-!
# Well-formedness of coinswap states and the assumptions about the environment (core Lean only).

* `EnvOK`   — assumptions about external functions, recorded in the trusted base: the pool address
              hash `GetReservePoolAddr` has no collisions on the denominations in play and never
              produces the coinswap module account or the fee collector.
* `WF`      — the state invariant the message handlers maintain.
* `SignerOK`— the account a message is signed by is not a pool escrow (escrow addresses are
              hashes of denominations; nobody holds a key for them).
-/
namespace CV
namespace Coinswap

structure EnvOK (env : Env) : Prop where
  reserveInj : ∀ l1 l2 a, env.reserve l1 = .ok a → env.reserve l2 = .ok a → l1 = l2
  reserveNotMod : ∀ l a, env.reserve l = .ok a → a ≠ env.modAddr ∧ a ≠ env.feeCollector

structure WF (env : Env) (s : State) : Prop where
  stdNotLpt : hasLptPrefix s.std = false
  lptPrefix : ∀ p ∈ s.pools, hasLptPrefix p.lpt = true
  counterNotLpt : ∀ p ∈ s.pools, hasLptPrefix p.counter = false
  counterNeStd : ∀ p ∈ s.pools, p.counter ≠ s.std
  lptInj : ∀ p ∈ s.pools, ∀ q ∈ s.pools, p.lpt = q.lpt → p = q
  reserveOk : ∀ p ∈ s.pools, env.reserve p.lpt = .ok p.escrow
  fresh : ∀ p ∈ s.pools, ∀ n, s.seq ≤ n → p.lpt ≠ lptName n

theorem lptName_inj {a b : Nat} (h : lptName a = lptName b) : a = b := by
  unfold lptName at h
  have h2 := congrArg String.toList h
  simp only [String.toList_append] at h2
  have h3 := List.append_cancel_left h2
  exact Nat.repr_injective (String.toList_inj.mp h3)

theorem lptName_prefix (n : Nat) : hasLptPrefix (lptName n) = true := by
  unfold hasLptPrefix lptName
  simp [String.toList_append]

theorem mem_insertPool {l : List Pool} {p x : Pool} : x ∈ insertPool l p ↔ x = p ∨ x ∈ l := by
  induction l with
  | nil => simp [insertPool]
  | cons q qs ih =>
    simp only [insertPool]
    split
    · simp
    · simp only [List.mem_cons, ih]
      constructor
      · rintro (h | h | h)
        · exact Or.inr (Or.inl h)
        · exact Or.inl h
        · exact Or.inr (Or.inr h)
      · rintro (h | h | h)
        · exact Or.inr (Or.inl h)
        · exact Or.inl h
        · exact Or.inr (Or.inr h)

/-- the account whose signature the message needs -/
def signerOf : Op → Option Addr
  | .swap m => some m.inAddr.bytes
  | .add m => some m.sender.bytes
  | .remove m => some m.sender.bytes
  | .send src _ _ _ => some src
  | .autoSwap rcpt _ _ _ => some rcpt
  | _ => none

def SignerOK (s : State) (op : Op) : Prop :=
  ∀ a, signerOf op = some a → ∀ p ∈ s.pools, a ≠ p.escrow

/-- state-independent form: the signer is not the pool address of any pool-token denomination -/
def NotEscrow (env : Env) (op : Op) : Prop :=
  ∀ a, signerOf op = some a → ∀ l, env.reserve l ≠ .ok a

theorem signerOK_of_notEscrow {env : Env} {s : State} {op : Op} (hW : WF env s) (h : NotEscrow env op) :
    SignerOK s op := by
  intro a ha p hp e
  exact h a ha p.lpt (by rw [e]; exact hW.reserveOk p hp)

theorem mem_of_poolByCounter {s : State} {d : Denom} {p : Pool} (h : s.poolByCounter d = some p) :
    p ∈ s.pools ∧ p.counter = d := by
  unfold State.poolByCounter at h
  exact ⟨List.mem_of_find?_eq_some h, by simpa using List.find?_some h⟩

theorem mem_of_poolByLpt {s : State} {d : Denom} {p : Pool} (h : s.poolByLpt d = some p) :
    p ∈ s.pools ∧ p.lpt = d := by
  unfold State.poolByLpt at h
  exact ⟨List.mem_of_find?_eq_some h, by simpa using List.find?_some h⟩

theorem ne_of_prefix {a b : Denom} (ha : hasLptPrefix a = true) (hb : hasLptPrefix b = false) : a ≠ b := by
  intro e; subst e; rw [ha] at hb; cases hb

theorem WF.escrow_ne {env : Env} {s : State} (hE : EnvOK env) (hW : WF env s) {p q : Pool}
    (hp : p ∈ s.pools) (hq : q ∈ s.pools) (hne : p ≠ q) : p.escrow ≠ q.escrow := by
  intro e
  apply hne
  apply hW.lptInj p hp q hq
  have h1 := hW.reserveOk p hp
  have h2 := hW.reserveOk q hq
  rw [← e] at h2
  exact hE.reserveInj _ _ _ h1 h2

theorem WF.escrow_ne_mod {env : Env} {s : State} (hE : EnvOK env) (hW : WF env s) {p : Pool}
    (hp : p ∈ s.pools) : p.escrow ≠ env.modAddr ∧ p.escrow ≠ env.feeCollector :=
  hE.reserveNotMod _ _ (hW.reserveOk p hp)

/-- the invariant is maintained by every operation -/
theorem wf_step {env : Env} {s s' : State} {op : Op} {r : Resp} (hW : WF env s)
    (h : step env s op = .ok (s', r)) : WF env s' := by
  have same : ∀ s'' : State, s''.std = s.std → s''.pools = s.pools → s''.seq = s.seq → WF env s'' := by
    intro s'' h1 h2 h3
    exact ⟨by rw [h1]; exact hW.stdNotLpt, by rw [h2]; exact hW.lptPrefix, by rw [h2]; exact hW.counterNotLpt,
      by rw [h1, h2]; exact hW.counterNeStd, by rw [h2]; exact hW.lptInj, by rw [h2]; exact hW.reserveOk,
      by rw [h2, h3]; exact hW.fresh⟩
  cases op with
  | swap m =>
    obtain ⟨F⟩ := swap_ok h
    rw [F.hState]; exact same _ rfl rfl rfl
  | remove m =>
    obtain ⟨F⟩ := remove_ok h
    rw [F.hState]; exact same _ rfl rfl rfl
  | send src dst d amt =>
    simp only [step] at h
    obtain ⟨b, _, h⟩ := bind_ok h
    injection h with h; simp only [Prod.mk.injEq] at h
    rw [← h.1]; exact same _ rfl rfl rfl
  | autoSwap rcpt dIn maxIn out =>
    simp only [step] at h
    obtain ⟨⟨sold, bought, esc⟩, _, h⟩ := bind_ok h
    simp only at h
    obtain ⟨b, _, h⟩ := bind_ok h
    injection h with h; simp only [Prod.mk.injEq] at h
    rw [← h.1]; exact same _ rfl rfl rfl
  | setParams p =>
    simp only [step] at h
    obtain ⟨_, _, h⟩ := bind_ok h
    injection h with h; simp only [Prod.mk.injEq] at h
    rw [← h.1]; exact same _ rfl rfl rfl
  | setTime a b =>
    simp only [step] at h
    injection h with h; simp only [Prod.mk.injEq] at h
    rw [← h.1]; exact same _ rfl rfl rfl
  | add m =>
    obtain ⟨F⟩ := add_ok h
    obtain ⟨hstdtok, _, PF⟩ := planAdd_ok F.hPlan
    cases PF with
    | refill pool hSome hAcct hL hCap hMin hPlan =>
      rw [F.hState, hPlan]; exact same _ rfl rfl rfl
    | live pool stdIn mint deposit hSome hAcct hL hRoom hAmts hMin hMax hPlan =>
      rw [F.hState, hPlan]; exact same _ rfl rfl rfl
    | create tax esc hNone hTax hTaxLe hCap hMin hEsc hPlan =>
      rw [F.hState, hPlan]
      refine ⟨hW.stdNotLpt, ?_, ?_, ?_, ?_, ?_, ?_⟩
      · intro p hp
        rcases mem_insertPool.mp hp with rfl | hp
        · exact lptName_prefix _
        · exact hW.lptPrefix p hp
      · intro p hp
        rcases mem_insertPool.mp hp with rfl | hp
        · exact F.tokNotLpt
        · exact hW.counterNotLpt p hp
      · intro p hp
        rcases mem_insertPool.mp hp with rfl | hp
        · exact fun e => hstdtok e.symm
        · exact hW.counterNeStd p hp
      · intro p hp q hq e
        rcases mem_insertPool.mp hp with rfl | hp <;> rcases mem_insertPool.mp hq with rfl | hq
        · rfl
        · exact absurd e.symm (hW.fresh q hq s.seq (Nat.le_refl _))
        · exact absurd e (hW.fresh p hp s.seq (Nat.le_refl _))
        · exact hW.lptInj p hp q hq e
      · intro p hp
        rcases mem_insertPool.mp hp with rfl | hp
        · exact hEsc
        · exact hW.reserveOk p hp
      · intro p hp n hn
        rcases mem_insertPool.mp hp with rfl | hp
        · intro e
          have := lptName_inj e
          simp only at hn; omega
        · exact hW.fresh p hp n (by simp only at hn; omega)

end Coinswap
end CV
