import CantoVerif.Model.Erc20
/-!
# Inversion lemmas for the erc20 model (core Lean only).

Each says what a *successful* run of a model function establishes, for an arbitrary oracle: which
guards held, what the oracle answered, which effect list was applied to the bank, and what the
resulting world is.
-/
namespace CV
namespace Erc20
variable {σ : Type}

/-! ### small pieces -/

theorem AddrStr.decode_ok {a : AddrStr} {x : Addr} (h : a.decode = .ok x) : x = a.bytes ∧ a.form ≠ .bad := by
  unfold AddrStr.decode at h
  split at h
  · cases h
  · rename_i hne; injection h with h; exact ⟨h.symm, fun e => hne e⟩

theorem HexStr.decode_ok {a : HexStr} {x : Addr} (h : a.decode = .ok x) : x = a.bytes ∧ a.valid = true := by
  unfold HexStr.decode at h
  split at h
  · rename_i hv; injection h with h; exact ⟨h.symm, hv⟩
  · cases h

theorem balanceOf_snd (O : Oracle σ) (c who : Addr) (e : σ) :
    (balanceOf O c who e).2 = (O (.balanceOf c who) e).2 := rfl

theorem balanceOf_some {O : Oracle σ} {c who : Addr} {e : σ} {b : Nat}
    (h : (balanceOf O c who e).1 = some b) :
    (O (.balanceOf c who) e).1.status = .ok ∧ (O (.balanceOf c who) e).1.ret = some b := by
  simp only [balanceOf] at h
  split at h
  · rename_i hs; exact ⟨hs, h⟩
  · cases h

theorem callEVM_ok {O : Oracle σ} {s : State} {snd : Addr} {c : Call} {e : σ} {ans : Ans}
    (h : (callEVM O s snd c e).1 = .ok ans) :
    s.bank.hasAcct snd = true ∧ (O c e).1 = ans ∧ ans.status = .ok ∧ (callEVM O s snd c e).2 = (O c e).2 := by
  unfold callEVM at h ⊢
  split at h
  · rename_i ha
    simp only at h
    split at h
    · rename_i hs
      injection h with h
      refine ⟨ha, h, by rw [← h]; exact hs, ?_⟩
      simp [ha]
    · cases h
  · cases h

theorem callEVM_snd_of_acct {O : Oracle σ} {s : State} {snd : Addr} {c : Call} {e : σ}
    (ha : s.bank.hasAcct snd = true) : (callEVM O s snd c e).2 = (O c e).2 := by
  unfold callEVM; simp [ha]

theorem unpackBool_ok {r : Option Nat} {b : Bool} (h : unpackBool r = .ok b) :
    (r = some 0 ∧ b = false) ∨ (r = some 1 ∧ b = true) := by
  unfold unpackBool at h
  split at h
  · injection h with h; exact Or.inl ⟨rfl, h.symm⟩
  · injection h with h; exact Or.inr ⟨rfl, h.symm⟩
  · cases h

theorem monitorApproval_ok {logs : List LogK} {u : Unit} (h : monitorApproval logs = .ok u) :
    LogK.approval ∉ logs ∧ LogK.noTopics ∉ logs := by
  induction logs with
  | nil => simp
  | cons l ls ih =>
    cases l with
    | transfer => simp only [monitorApproval] at h; have := ih h; simp [this]
    | approval => simp [monitorApproval] at h
    | noTopics => simp [monitorApproval] at h
    | other => simp only [monitorApproval] at h; have := ih h; simp [this]

theorem modToAcct_ok {env : Env} {b b' : Bank} {rcpt : Addr} {d : Denom} {a : Nat}
    (h : modToAcct env b rcpt d a = .ok b') :
    env.blocked.contains rcpt = false ∧ b.applyAll [.xfer env.modAddr rcpt d a] = .ok b' := by
  unfold modToAcct at h
  obtain ⟨_, h1, h⟩ := bind_ok h
  have g := ensure_ok h1
  exact ⟨by simpa using g, h⟩

/-! ### the gate -/

theorem gate_ok {env : Env} {s : State} {snd rcv : Addr} {i? : Option PairId} {p : Pair}
    (h : gate env s snd rcv i? = .ok p) :
    s.params.enableErc20 = true ∧ (∃ i, i? = some i ∧ s.reg.getPair i = some p) ∧ p.enabled = true ∧
    env.blocked.contains rcv = false ∧ (snd = rcv ∨ s.sendEnabled p.denom = true) := by
  unfold gate at h
  obtain ⟨_, h1, h⟩ := bind_ok h
  have g1 := ensure_ok h1
  cases i? with
  | none => cases h
  | some i =>
    simp only at h
    split at h
    · cases h
    · rename_i q hq
      obtain ⟨_, h2, h⟩ := bind_ok h
      obtain ⟨_, h3, h⟩ := bind_ok h
      obtain ⟨_, h4, h⟩ := bind_ok h
      injection h with h; subst h
      have g2 := ensure_ok h2
      have g3 := ensure_ok h3
      have g4 := ensure_ok h4
      refine ⟨g1, ⟨i, rfl, hq⟩, g2, by simpa using g3, ?_⟩
      simp only [Bool.or_eq_true, beq_iff_eq] at g4
      exact g4

/-- the gate rejects when the module is disabled -/
theorem gate_module_disabled {env : Env} {s : State} {snd rcv : Addr} {i? : Option PairId}
    (h : s.params.enableErc20 = false) : gate env s snd rcv i? = .error .disabled := by
  unfold gate ensure; simp [h]; rfl

theorem afterGate_ok {O : Oracle σ} {w w' : World σ} {p : Pair} {conv : World σ → R (World σ × Resp)} {r : Resp}
    (h : afterGate O w p conv = .ok (w', r)) :
    ((O (.code p.addr) w.evm).1.ret = some 1 ∧ conv { w with evm := (O (.code p.addr) w.evm).2 } = .ok (w', r)) ∨
    ((O (.code p.addr) w.evm).1.ret ≠ some 1 ∧
      w' = { st := { w.st with reg := w.st.reg.delete p }, evm := (O (.code p.addr) w.evm).2 } ∧ r = .deleted) := by
  unfold afterGate hasCode at h
  simp only at h
  split at h
  · rename_i hc
    left
    exact ⟨by simpa using hc, h⟩
  · rename_i hc
    right
    injection h with h
    simp only [Prod.mk.injEq] at h
    refine ⟨by simpa using hc, h.1.symm, h.2.symm⟩

/-! ### the four conversion paths -/

/-- case 1.1 (coin → token, chain-deployed contract) -/
structure CoinNativeFacts (env : Env) (O : Oracle σ) (w : World σ) (p : Pair) (d : Denom) (a : Nat)
    (receiver sender : Addr) (w' : World σ) (r : Resp) where
  b0 : Nat
  b1 : Nat
  bank1 : Bank
  hB0 : (O (.balanceOf p.addr receiver) w.evm).1.status = .ok ∧ (O (.balanceOf p.addr receiver) w.evm).1.ret = some b0
  hBank : w.st.bank.applyAll [.xfer sender env.modAddr d a] = .ok bank1
  hAcct : w.st.bank.hasAcct env.modAddr = true
  hCall : (O (.mint p.addr receiver a) (O (.balanceOf p.addr receiver) w.evm).2).1.status = .ok
  hB1 : (O (.balanceOf p.addr receiver) (O (.mint p.addr receiver a) (O (.balanceOf p.addr receiver) w.evm).2).2).1.status = .ok ∧
        (O (.balanceOf p.addr receiver) (O (.mint p.addr receiver a) (O (.balanceOf p.addr receiver) w.evm).2).2).1.ret = some b1
  hEq : b1 = b0 + a
  hWorld : w' = { st := { w.st with bank := bank1 },
                  evm := (O (.balanceOf p.addr receiver) (O (.mint p.addr receiver a) (O (.balanceOf p.addr receiver) w.evm).2).2).2 }
  hResp : r = .converted

theorem convertCoinNativeCoin_ok {env : Env} {O : Oracle σ} {w w' : World σ} {p : Pair} {d : Denom} {a : Nat}
    {receiver sender : Addr} {r : Resp}
    (h : convertCoinNativeCoin env O w p d a receiver sender = .ok (w', r)) :
    Nonempty (CoinNativeFacts env O w p d a receiver sender w' r) := by
  unfold convertCoinNativeCoin at h
  simp only at h
  split at h
  · cases h
  · rename_i b0 hb0
    obtain ⟨bank1, h1, h⟩ := bind_ok h
    obtain ⟨ans, h2, h⟩ := bind_ok h
    obtain ⟨hacct, hans, hst, hsnd⟩ := callEVM_ok h2
    split at h
    · cases h
    · rename_i b1 hb1
      obtain ⟨_, h3, h⟩ := bind_ok h
      have g3 := ensure_ok h3
      injection h with h
      simp only [Prod.mk.injEq] at h
      rw [hsnd, balanceOf_snd] at hb1
      have hb1' := balanceOf_some hb1
      refine ⟨{ b0 := b0, b1 := b1, bank1 := bank1, hB0 := balanceOf_some hb0, hBank := h1, hAcct := hacct,
                hCall := by rw [balanceOf_snd] at hans; rw [hans]; exact hst,
                hB1 := hb1', hEq := by simpa using g3, hWorld := ?_, hResp := h.2.symm }⟩
      rw [← h.1, hsnd]
      rfl

/-- case 1.2 (token → coin, chain-deployed contract) -/
structure ERC20NativeCoinFacts (env : Env) (O : Oracle σ) (w : World σ) (p : Pair) (a : Nat)
    (receiver sender : Addr) (w' : World σ) (r : Resp) where
  t0 : Nat
  t1 : Nat
  bank1 : Bank
  hT0 : (O (.balanceOf p.addr sender) w.evm).1.status = .ok ∧ (O (.balanceOf p.addr sender) w.evm).1.ret = some t0
  hAcct : w.st.bank.hasAcct env.modAddr = true
  hCall : (O (.burnCoins p.addr sender a) (O (.balanceOf p.addr sender) w.evm).2).1.status = .ok
  hNotBlocked : env.blocked.contains receiver = false
  hBank : w.st.bank.applyAll [.xfer env.modAddr receiver p.denom a] = .ok bank1
  hCoin : bank1.get receiver p.denom = w.st.bank.get receiver p.denom + a
  hT1 : (O (.balanceOf p.addr sender) (O (.burnCoins p.addr sender a) (O (.balanceOf p.addr sender) w.evm).2).2).1.status = .ok ∧
        (O (.balanceOf p.addr sender) (O (.burnCoins p.addr sender a) (O (.balanceOf p.addr sender) w.evm).2).2).1.ret = some t1
  hEq : t1 + a = t0
  hWorld : w' = { st := { w.st with bank := bank1 },
                  evm := (O (.balanceOf p.addr sender) (O (.burnCoins p.addr sender a) (O (.balanceOf p.addr sender) w.evm).2).2).2 }
  hResp : r = .converted

theorem convertERC20NativeCoin_ok {env : Env} {O : Oracle σ} {w w' : World σ} {p : Pair} {a : Nat}
    {receiver sender : Addr} {r : Resp}
    (h : convertERC20NativeCoin env O w p a receiver sender = .ok (w', r)) :
    Nonempty (ERC20NativeCoinFacts env O w p a receiver sender w' r) := by
  unfold convertERC20NativeCoin at h
  simp only at h
  split at h
  · cases h
  · rename_i t0 ht0
    obtain ⟨ans, h2, h⟩ := bind_ok h
    obtain ⟨hacct, hans, hst, hsnd⟩ := callEVM_ok h2
    obtain ⟨bank1, h3, h⟩ := bind_ok h
    obtain ⟨hnb, hbank⟩ := modToAcct_ok h3
    obtain ⟨_, h4, h⟩ := bind_ok h
    have g4 := ensure_ok h4
    split at h
    · cases h
    · rename_i t1 ht1
      obtain ⟨_, h5, h⟩ := bind_ok h
      have g5 := ensure_ok h5
      injection h with h
      simp only [Prod.mk.injEq] at h
      rw [hsnd, balanceOf_snd] at ht1
      refine ⟨{ t0 := t0, t1 := t1, bank1 := bank1, hT0 := balanceOf_some ht0, hAcct := hacct,
                hCall := by rw [balanceOf_snd] at hans; rw [hans]; exact hst,
                hNotBlocked := hnb, hBank := hbank, hCoin := by simpa using g4,
                hT1 := balanceOf_some ht1, hEq := by simpa using g5, hWorld := ?_, hResp := h.2.symm }⟩
      rw [← h.1, hsnd]
      rfl

/-- case 2.1 (token → coin, external contract) -/
structure ERC20NativeTokenFacts (env : Env) (O : Oracle σ) (w : World σ) (p : Pair) (a : Nat)
    (receiver sender : Addr) (w' : World σ) (r : Resp) where
  m0 : Nat
  m1 : Nat
  bank1 : Bank
  bank2 : Bank
  hM0 : (O (.balanceOf p.addr env.modAddr) w.evm).1.status = .ok ∧ (O (.balanceOf p.addr env.modAddr) w.evm).1.ret = some m0
  hAcct : w.st.bank.hasAcct sender = true
  hCall : (O (.transfer p.addr sender env.modAddr a) (O (.balanceOf p.addr env.modAddr) w.evm).2).1.status = .ok
  hRet : (O (.transfer p.addr sender env.modAddr a) (O (.balanceOf p.addr env.modAddr) w.evm).2).1.ret = some 1
  hM1 : (O (.balanceOf p.addr env.modAddr) (O (.transfer p.addr sender env.modAddr a) (O (.balanceOf p.addr env.modAddr) w.evm).2).2).1.status = .ok ∧
        (O (.balanceOf p.addr env.modAddr) (O (.transfer p.addr sender env.modAddr a) (O (.balanceOf p.addr env.modAddr) w.evm).2).2).1.ret = some m1
  hEq : m1 = m0 + a
  hMint : w.st.bank.applyAll [.mint env.modAddr p.denom a] = .ok bank1
  hNotBlocked : env.blocked.contains receiver = false
  hSend : bank1.applyAll [.xfer env.modAddr receiver p.denom a] = .ok bank2
  hCoin : bank2.get receiver p.denom = w.st.bank.get receiver p.denom + a
  hNoApproval : LogK.approval ∉ (O (.transfer p.addr sender env.modAddr a) (O (.balanceOf p.addr env.modAddr) w.evm).2).1.logs
  hWorld : w' = { st := { w.st with bank := bank2 },
                  evm := (O (.balanceOf p.addr env.modAddr) (O (.transfer p.addr sender env.modAddr a) (O (.balanceOf p.addr env.modAddr) w.evm).2).2).2 }
  hResp : r = .converted

theorem convertERC20NativeToken_ok {env : Env} {O : Oracle σ} {w w' : World σ} {p : Pair} {a : Nat}
    {receiver sender : Addr} {r : Resp}
    (h : convertERC20NativeToken env O w p a receiver sender = .ok (w', r)) :
    Nonempty (ERC20NativeTokenFacts env O w p a receiver sender w' r) := by
  unfold convertERC20NativeToken at h
  simp only at h
  split at h
  · cases h
  · rename_i m0 hm0
    obtain ⟨ans, h2, h⟩ := bind_ok h
    obtain ⟨hacct, hans, hst, hsnd⟩ := callEVM_ok h2
    obtain ⟨okv, h3, h⟩ := bind_ok h
    obtain ⟨_, h4, h⟩ := bind_ok h
    have g4 := ensure_ok h4
    have hret : ans.ret = some 1 := by
      rcases unpackBool_ok h3 with ⟨_, hb⟩ | ⟨hr, _⟩
      · rw [hb] at g4; cases g4
      · exact hr
    split at h
    · cases h
    · rename_i m1 hm1
      obtain ⟨_, h5, h⟩ := bind_ok h
      have g5 := ensure_ok h5
      obtain ⟨bank1, h6, h⟩ := bind_ok h
      obtain ⟨bank2, h7, h⟩ := bind_ok h
      obtain ⟨hnb, hsend⟩ := modToAcct_ok h7
      obtain ⟨_, h8, h⟩ := bind_ok h
      have g8 := ensure_ok h8
      obtain ⟨_, h9, h⟩ := bind_ok h
      have g9 := monitorApproval_ok h9
      injection h with h
      simp only [Prod.mk.injEq] at h
      rw [hsnd, balanceOf_snd] at hm1
      rw [balanceOf_snd] at hans
      refine ⟨{ m0 := m0, m1 := m1, bank1 := bank1, bank2 := bank2, hM0 := balanceOf_some hm0, hAcct := hacct,
                hCall := by rw [hans]; exact hst, hRet := by rw [hans]; exact hret,
                hM1 := balanceOf_some hm1, hEq := by simpa using g5, hMint := h6, hNotBlocked := hnb,
                hSend := hsend, hCoin := by simpa using g8, hNoApproval := by rw [hans]; exact g9.1,
                hWorld := ?_, hResp := h.2.symm }⟩
      rw [← h.1, hsnd]
      rfl

/-- case 2.2 (coin → token, external contract) -/
structure CoinNativeERC20Facts (env : Env) (O : Oracle σ) (w : World σ) (p : Pair) (d : Denom) (a : Nat)
    (receiver sender : Addr) (w' : World σ) (r : Resp) where
  r0 : Nat
  r1 : Nat
  bank1 : Bank
  bank2 : Bank
  hR0 : (O (.balanceOf p.addr receiver) w.evm).1.status = .ok ∧ (O (.balanceOf p.addr receiver) w.evm).1.ret = some r0
  hBank : w.st.bank.applyAll [.xfer sender env.modAddr d a] = .ok bank1
  hAcct : w.st.bank.hasAcct env.modAddr = true
  hCall : (O (.transfer p.addr env.modAddr receiver a) (O (.balanceOf p.addr receiver) w.evm).2).1.status = .ok
  hRet : (O (.transfer p.addr env.modAddr receiver a) (O (.balanceOf p.addr receiver) w.evm).2).1.ret = some 1
  hR1 : (O (.balanceOf p.addr receiver) (O (.transfer p.addr env.modAddr receiver a) (O (.balanceOf p.addr receiver) w.evm).2).2).1.status = .ok ∧
        (O (.balanceOf p.addr receiver) (O (.transfer p.addr env.modAddr receiver a) (O (.balanceOf p.addr receiver) w.evm).2).2).1.ret = some r1
  hEq : r1 = r0 + a
  hBurn : bank1.applyAll [.burn env.modAddr d a] = .ok bank2
  hNoApproval : LogK.approval ∉ (O (.transfer p.addr env.modAddr receiver a) (O (.balanceOf p.addr receiver) w.evm).2).1.logs
  hWorld : w' = { st := { w.st with bank := bank2 },
                  evm := (O (.balanceOf p.addr receiver) (O (.transfer p.addr env.modAddr receiver a) (O (.balanceOf p.addr receiver) w.evm).2).2).2 }
  hResp : r = .converted

theorem convertCoinNativeERC20_ok {env : Env} {O : Oracle σ} {w w' : World σ} {p : Pair} {d : Denom} {a : Nat}
    {receiver sender : Addr} {r : Resp}
    (h : convertCoinNativeERC20 env O w p d a receiver sender = .ok (w', r)) :
    Nonempty (CoinNativeERC20Facts env O w p d a receiver sender w' r) := by
  unfold convertCoinNativeERC20 at h
  simp only at h
  split at h
  · cases h
  · rename_i r0 hr0
    obtain ⟨bank1, h1, h⟩ := bind_ok h
    obtain ⟨ans, h2, h⟩ := bind_ok h
    obtain ⟨hacct, hans, hst, hsnd⟩ := callEVM_ok h2
    obtain ⟨okv, h3, h⟩ := bind_ok h
    obtain ⟨_, h4, h⟩ := bind_ok h
    have g4 := ensure_ok h4
    have hret : ans.ret = some 1 := by
      rcases unpackBool_ok h3 with ⟨_, hb⟩ | ⟨hr, _⟩
      · rw [hb] at g4; cases g4
      · exact hr
    split at h
    · cases h
    · rename_i r1 hr1
      obtain ⟨_, h5, h⟩ := bind_ok h
      have g5 := ensure_ok h5
      obtain ⟨bank2, h6, h⟩ := bind_ok h
      obtain ⟨_, h9, h⟩ := bind_ok h
      have g9 := monitorApproval_ok h9
      injection h with h
      simp only [Prod.mk.injEq] at h
      rw [hsnd, balanceOf_snd] at hr1
      rw [balanceOf_snd] at hans
      refine ⟨{ r0 := r0, r1 := r1, bank1 := bank1, bank2 := bank2, hR0 := balanceOf_some hr0, hBank := h1, hAcct := hacct,
                hCall := by rw [hans]; exact hst, hRet := by rw [hans]; exact hret,
                hR1 := balanceOf_some hr1, hEq := by simpa using g5, hBurn := h6,
                hNoApproval := by rw [hans]; exact g9.1, hWorld := ?_, hResp := h.2.symm }⟩
      rw [← h.1, hsnd]
      rfl

end Erc20
end CV
