import CantoVerif.Proofs.CoinswapInv
/-!
# What the coinswap effect lists do to the balances and supplies that matter (core Lean only).
All statements are consequences of `Bank.applyAll_flow`.
-/
namespace CV
namespace Coinswap

/-- unfold the flow equations of an explicit effect list -/
macro "flow_simp" " at " h:ident : tactic =>
  `(tactic| simp only [inflow, outflow, minted, burned, sumBy_cons, sumBy_nil, Eff.inflow, Eff.outflow,
      Eff.minted, Eff.burned, Nat.add_zero, Nat.zero_add] at $h:ident)

theorem swapEffs_flow {b b' : Bank} {sender rcpt esc : Addr} {dS dB : Denom} {sold bought : Nat}
    (h : b.applyAll (swapEffs sender rcpt esc dS sold dB bought) = .ok b')
    (hse : sender ≠ esc) (hd : dS ≠ dB) :
    b.get esc dS + sold ≤ b'.get esc dS ∧ b.get esc dB ≤ b'.get esc dB + bought ∧
    (∀ d, d ≠ dB → b.get esc d ≤ b'.get esc d) ∧
    (∀ e d, e ≠ sender → e ≠ esc → b.get e d ≤ b'.get e d) ∧ (∀ d, b'.supply d = b.supply d) := by
  have flow := Bank.applyAll_flow _ _ _ h
  have hes : esc ≠ sender := fun e => hse e.symm
  have hd' : dB ≠ dS := fun e => hd e.symm
  refine ⟨?_, ?_, ?_, ?_, ?_⟩
  · have f := (flow esc dS).1
    simp only [swapEffs] at f
    flow_simp at f
    simp only [hes, hd, false_and, true_and, and_true, if_false, if_true] at f
    split at f <;> omega
  · have f := (flow esc dB).1
    simp only [swapEffs] at f
    flow_simp at f
    simp only [hes, hd', false_and, true_and, and_true, if_false, if_true] at f
    split at f <;> omega
  · intro d hdd
    have f := (flow esc d).1
    simp only [swapEffs] at f
    flow_simp at f
    simp only [hes, hdd, false_and, true_and, and_true, and_false, if_false, if_true] at f
    repeat' split at f
    all_goals omega
  · intro e d h1 h2
    have f := (flow e d).1
    simp only [swapEffs] at f
    flow_simp at f
    simp only [h1, h2, false_and, if_false] at f
    repeat' split at f
    all_goals omega
  · intro d
    have f := (flow "" d).2
    simp only [swapEffs] at f
    flow_simp at f
    omega

/-- the exact balance changes of a swap whose payer and recipient are not the escrow -/
theorem swapEffs_exact {b b' : Bank} {sender rcpt esc : Addr} {dS dB : Denom} {sold bought : Nat}
    (h : b.applyAll (swapEffs sender rcpt esc dS sold dB bought) = .ok b')
    (hse : sender ≠ esc) (hre : rcpt ≠ esc) (hd : dS ≠ dB) :
    b'.get esc dS = b.get esc dS + sold ∧ b'.get esc dB + bought = b.get esc dB ∧
    b'.get rcpt dB = b.get rcpt dB + bought ∧ b'.get sender dS + sold = b.get sender dS := by
  have flow := Bank.applyAll_flow _ _ _ h
  have hes : esc ≠ sender := fun e => hse e.symm
  have her : esc ≠ rcpt := fun e => hre e.symm
  have hd' : dB ≠ dS := fun e => hd e.symm
  refine ⟨?_, ?_, ?_, ?_⟩
  · have f := (flow esc dS).1
    simp only [swapEffs] at f
    flow_simp at f
    simp only [hes, her, hd, false_and, true_and, and_true, and_false, if_false, if_true] at f
    repeat' split at f
    all_goals omega
  · have f := (flow esc dB).1
    simp only [swapEffs] at f
    flow_simp at f
    simp only [hes, her, hd', false_and, true_and, and_true, and_false, if_false, if_true] at f
    repeat' split at f
    all_goals omega
  · have f := (flow rcpt dB).1
    simp only [swapEffs] at f
    flow_simp at f
    simp only [hre, hd', false_and, true_and, and_true, and_false, if_false, if_true] at f
    repeat' split at f
    all_goals omega
  · have f := (flow sender dS).1
    simp only [swapEffs] at f
    flow_simp at f
    simp only [hse, hd, false_and, true_and, and_true, and_false, if_false, if_true] at f
    repeat' split at f
    all_goals omega

end Coinswap
end CV

namespace CV
namespace Coinswap

theorem decode_ok {a : AddrStr} {x : Addr} (h : a.decode = .ok x) : x = a.bytes := by
  unfold AddrStr.decode at h
  split at h
  · cases h
  · injection h with h; exact h.symm

/-- live-pool addition (no fee effects): what the escrow and the pool-token supply get -/
theorem addEffs_flow {env : Env} {b b' : Bank} {sender esc : Addr} {std tok lpt : Denom} {stdIn tokIn mint : Nat}
    (h : b.applyAll (addEffs env sender esc std stdIn tok tokIn lpt mint) = .ok b')
    (hse : sender ≠ esc) (hme : env.modAddr ≠ esc) (hd : std ≠ tok) :
    b.get esc std + stdIn ≤ b'.get esc std ∧ b.get esc tok + tokIn ≤ b'.get esc tok ∧
    b'.supply lpt = b.supply lpt + mint := by
  have flow := Bank.applyAll_flow _ _ _ h
  have hes : esc ≠ sender := fun e => hse e.symm
  have hem : esc ≠ env.modAddr := fun e => hme e.symm
  have hd' : tok ≠ std := fun e => hd e.symm
  refine ⟨?_, ?_, ?_⟩
  · have f := (flow esc std).1
    simp only [addEffs] at f
    flow_simp at f
    simp only [hes, hem, hd, false_and, true_and, and_true, if_false, if_true] at f
    repeat' split at f
    all_goals omega
  · have f := (flow esc tok).1
    simp only [addEffs] at f
    flow_simp at f
    simp only [hes, hem, hd', false_and, true_and, and_true, if_false, if_true] at f
    repeat' split at f
    all_goals omega
  · have f := (flow "" lpt).2
    simp only [addEffs] at f
    flow_simp at f
    simp only [if_true] at f
    omega

/-- removal: what the escrow pays at most, and the exact pool-token supply -/
theorem removeEffs_flow {env : Env} {b b' : Bank} {sender esc : Addr} {std tok lpt : Denom} {w stdOut tokOut : Nat}
    (h : b.applyAll (removeEffs env sender esc lpt w std stdOut tok tokOut) = .ok b')
    (hd : std ≠ tok) (hls : std ≠ lpt) (hlt : tok ≠ lpt) :
    b.get esc std ≤ b'.get esc std + stdOut ∧ b.get esc tok ≤ b'.get esc tok + tokOut ∧
    b'.supply lpt + w = b.supply lpt := by
  have flow := Bank.applyAll_flow _ _ _ h
  have hd' : tok ≠ std := fun e => hd e.symm
  refine ⟨?_, ?_, ?_⟩
  · have f := (flow esc std).1
    simp only [removeEffs] at f
    flow_simp at f
    simp only [hd, hls, and_false, and_true, true_and, if_false, if_true] at f
    repeat' split at f
    all_goals omega
  · have f := (flow esc tok).1
    simp only [removeEffs] at f
    flow_simp at f
    simp only [hd', hlt, and_false, and_true, true_and, if_false, if_true] at f
    repeat' split at f
    all_goals omega
  · have f := (flow "" lpt).2
    simp only [removeEffs] at f
    flow_simp at f
    simp only [if_true] at f
    omega

/-- the exact changes of a removal at the escrow (provider not the escrow) and of the pool-token supply -/
theorem removeEffs_exact {env : Env} {b b' : Bank} {sender esc : Addr} {std tok lpt : Denom} {w stdOut tokOut : Nat}
    (h : b.applyAll (removeEffs env sender esc lpt w std stdOut tok tokOut) = .ok b')
    (hse : sender ≠ esc) (hd : std ≠ tok) (hls : std ≠ lpt) (hlt : tok ≠ lpt) :
    b'.get esc std + stdOut = b.get esc std ∧ b'.get esc tok + tokOut = b.get esc tok ∧
    b'.supply lpt + w = b.supply lpt := by
  have flow := Bank.applyAll_flow _ _ _ h
  have hd' : tok ≠ std := fun e => hd e.symm
  have hes : esc ≠ sender := fun e => hse e.symm
  refine ⟨?_, ?_, (removeEffs_flow h hd hls hlt).2.2⟩
  · have f := (flow esc std).1
    simp only [removeEffs] at f
    flow_simp at f
    simp only [hd, hls, hes, and_false, and_true, true_and, false_and, if_false, if_true] at f
    repeat' split at f
    all_goals omega
  · have f := (flow esc tok).1
    simp only [removeEffs] at f
    flow_simp at f
    simp only [hd', hlt, hes, and_false, and_true, true_and, false_and, if_false, if_true] at f
    repeat' split at f
    all_goals omega

end Coinswap
end CV
