import CantoVerif.Model.Erc20Token
import CantoVerif.Proofs.Erc20Step
/-!
# The four conversion paths against the honest token: explicit post-states (core Lean only).
-/
namespace CV
namespace Erc20
namespace Token

/-! ### reading the token ledger after an update -/

@[simp] theorem balOf_credit (t : TState) (c who c' h : Addr) (a : Nat) :
    (t.credit c who a).balOf c' h = if c' = c ∧ h = who then t.balOf c who + a else t.balOf c' h := by
  simp only [TState.balOf, TState.credit, AMap.get_set, Prod.mk.injEq]
@[simp] theorem balOf_debit (t : TState) (c who c' h : Addr) (a : Nat) :
    (t.debit c who a).balOf c' h = if c' = c ∧ h = who then t.balOf c who - a else t.balOf c' h := by
  simp only [TState.balOf, TState.debit, AMap.get_set, Prod.mk.injEq]
@[simp] theorem balOf_setSupply (t : TState) (c c' h : Addr) (v : Nat) : (t.setSupply c v).balOf c' h = t.balOf c' h := rfl
@[simp] theorem supply_credit (t : TState) (c who c' : Addr) (a : Nat) : (t.credit c who a).supply c' = t.supply c' := rfl
@[simp] theorem supply_debit (t : TState) (c who c' : Addr) (a : Nat) : (t.debit c who a).supply c' = t.supply c' := rfl
@[simp] theorem supply_setSupply (t : TState) (c c' : Addr) (v : Nat) :
    (t.setSupply c v).supply c' = if c' = c then v else t.supply c' := by
  simp only [TState.supply, TState.setSupply, AMap.get_set]
@[simp] theorem code_credit (t : TState) (c who : Addr) (a : Nat) : (t.credit c who a).code = t.code := rfl
@[simp] theorem code_debit (t : TState) (c who : Addr) (a : Nat) : (t.debit c who a).code = t.code := rfl
@[simp] theorem code_setSupply (t : TState) (c : Addr) (v : Nat) : (t.setSupply c v).code = t.code := rfl
@[simp] theorem minter_credit (t : TState) (c who : Addr) (a : Nat) : (t.credit c who a).minter = t.minter := rfl
@[simp] theorem minter_debit (t : TState) (c who : Addr) (a : Nat) : (t.debit c who a).minter = t.minter := rfl
@[simp] theorem minter_setSupply (t : TState) (c : Addr) (v : Nat) : (t.setSupply c v).minter = t.minter := rfl
@[simp] theorem hasCode_credit (t : TState) (c who c' : Addr) (a : Nat) : (t.credit c who a).hasCode c' = t.hasCode c' := rfl
@[simp] theorem hasCode_debit (t : TState) (c who c' : Addr) (a : Nat) : (t.debit c who a).hasCode c' = t.hasCode c' := rfl
@[simp] theorem hasCode_setSupply (t : TState) (c c' : Addr) (v : Nat) : (t.setSupply c v).hasCode c' = t.hasCode c' := rfl
@[simp] theorem hasRole_credit (t : TState) (c who c' x : Addr) (a : Nat) : (t.credit c who a).hasRole c' x = t.hasRole c' x := rfl
@[simp] theorem hasRole_debit (t : TState) (c who c' x : Addr) (a : Nat) : (t.debit c who a).hasRole c' x = t.hasRole c' x := rfl
@[simp] theorem hasRole_setSupply (t : TState) (c c' x : Addr) (v : Nat) : (t.setSupply c v).hasRole c' x = t.hasRole c' x := rfl

/-- the same token ledger (as functions) -/
def TState.same (t t' : TState) : Prop :=
  (∀ c h, t'.balOf c h = t.balOf c h) ∧ (∀ c, t'.supply c = t.supply c) ∧ t'.code = t.code ∧ t'.minter = t.minter

/-! ### what an `ok` answer of the honest machine means -/

theorem honest_balanceOf_snd (cfg : Cfg) (c who : Addr) (t : TState) : (honest cfg (.balanceOf c who) t).2 = t := by
  simp only [honest]; split <;> rfl

theorem honest_balanceOf_ret {cfg : Cfg} {c who : Addr} {t : TState} {b : Nat}
    (h : (honest cfg (.balanceOf c who) t).1.ret = some b) : t.hasCode c = true ∧ b = t.balOf c who := by
  simp only [honest] at h
  split at h
  · rename_i hc; simp only [okAns] at h; injection h with h; exact ⟨hc, h.symm⟩
  · simp [emptyAns] at h

theorem honest_code_snd (cfg : Cfg) (c : Addr) (t : TState) : (honest cfg (.code c) t).2 = t := rfl
theorem honest_code_ret (cfg : Cfg) (c : Addr) (t : TState) :
    ((honest cfg (.code c) t).1.ret = some 1) ↔ t.hasCode c = true := by
  simp only [honest, okAns]
  cases t.hasCode c <;> simp

theorem honest_mint_ok {cfg : Cfg} {c to : Addr} {a : Nat} {t : TState} (hc : t.hasCode c = true)
    (h : (honest cfg (.mint c to a) t).1.status = .ok) :
    (honest cfg (.mint c to a) t).2 = (t.setSupply c (t.supply c + a)).credit c to a ∧
    t.hasRole c cfg.modAddr = true ∧ to ≠ cfg.zero ∧ t.supply c + a < uintBound := by
  simp only [honest, mintBy, hc, Bool.not_true, Bool.false_eq_true, if_false] at h
  split at h
  · simp [revertAns] at h
  · rename_i hg
    simp only [Bool.or_eq_true, Bool.not_eq_true', beq_iff_eq, decide_eq_true_eq, not_or, Bool.not_eq_false, Nat.not_le] at hg
    have h1 : (!t.hasRole c cfg.modAddr) = false := by simp [hg.1.1]
    have h2 : (to == cfg.zero) = false := by simpa using hg.1.2
    have h3 : decide (uintBound ≤ t.supply c + a) = false := by simpa using hg.2
    refine ⟨?_, hg.1.1, hg.1.2, hg.2⟩
    simp only [honest, mintBy, hc, h1, h2, h3, Bool.not_true, Bool.false_eq_true, if_false, Bool.or_self]

theorem burnFrom_ok {cfg : Cfg} {c who : Addr} {a : Nat} {t : TState}
    (h : (burnFrom cfg t c who a).1.status = .ok) :
    (burnFrom cfg t c who a).2 = (t.debit c who a).setSupply c (t.supply c - a) ∧ a ≤ t.balOf c who ∧
    a ≤ t.supply c ∧ who ≠ cfg.zero := by
  unfold burnFrom at h
  split at h
  · simp [revertAns] at h
  · rename_i hg
    simp only [Bool.or_eq_true, beq_iff_eq, decide_eq_true_eq, not_or, Nat.not_lt] at hg
    have h1 : (who == cfg.zero) = false := by simpa using hg.1.1
    have h2 : decide (t.balOf c who < a) = false := by simpa using hg.1.2
    have h3 : decide (t.supply c < a) = false := by simpa using hg.2
    refine ⟨?_, hg.1.2, hg.2, hg.1.1⟩
    simp only [burnFrom, h1, h2, h3, Bool.or_self, Bool.false_eq_true, if_false]

theorem honest_burnCoins_ok {cfg : Cfg} {c who : Addr} {a : Nat} {t : TState} (hc : t.hasCode c = true)
    (h : (honest cfg (.burnCoins c who a) t).1.status = .ok) :
    (honest cfg (.burnCoins c who a) t).2 = (t.debit c who a).setSupply c (t.supply c - a) ∧ a ≤ t.balOf c who ∧
    a ≤ t.supply c ∧ t.hasRole c cfg.modAddr = true := by
  simp only [honest, hc, Bool.not_true, Bool.false_eq_true, if_false] at h
  split at h
  · simp [revertAns] at h
  · rename_i hr
    have hr' : t.hasRole c cfg.modAddr = true := by simpa using hr
    obtain ⟨e1, e2, e3, _⟩ := burnFrom_ok h
    refine ⟨?_, e2, e3, hr'⟩
    simp only [honest, hc, hr', Bool.not_true, Bool.false_eq_true, if_false]
    exact e1

theorem honest_burn_ok {cfg : Cfg} {c : Addr} {a : Nat} {t : TState} (hc : t.hasCode c = true)
    (h : (honest cfg (.burn c a) t).1.status = .ok) :
    (honest cfg (.burn c a) t).2 = (t.debit c cfg.modAddr a).setSupply c (t.supply c - a) ∧ a ≤ t.balOf c cfg.modAddr ∧
    a ≤ t.supply c := by
  simp only [honest, hc, Bool.not_true, Bool.false_eq_true, if_false] at h
  obtain ⟨e1, e2, e3, _⟩ := burnFrom_ok h
  refine ⟨?_, e2, e3⟩
  simp only [honest, hc, Bool.not_true, Bool.false_eq_true, if_false]
  exact e1

theorem honest_transfer_ok {cfg : Cfg} {c s to : Addr} {a : Nat} {t : TState} (hc : t.hasCode c = true)
    (h : (honest cfg (.transfer c s to a) t).1.status = .ok) :
    (honest cfg (.transfer c s to a) t).2 = (t.debit c s a).credit c to a ∧ a ≤ t.balOf c s ∧
    (honest cfg (.transfer c s to a) t).1.logs = [.transfer] := by
  simp only [honest, transferBy, hc, Bool.not_true, Bool.false_eq_true, if_false] at h
  split at h
  · simp [revertAns] at h
  · rename_i hg
    simp only [Bool.or_eq_true, beq_iff_eq, decide_eq_true_eq, not_or, Nat.not_lt] at hg
    have h1 : (to == cfg.zero) = false := by simpa using hg.1.1
    have h2 : (s == cfg.zero) = false := by simpa using hg.1.2
    have h3 : decide (t.balOf c s < a) = false := by simpa using hg.2
    refine ⟨?_, hg.2, ?_⟩ <;>
      simp only [honest, transferBy, hc, h1, h2, h3, Bool.not_true, Bool.or_self, Bool.false_eq_true, if_false, okAns]

/-- moving `a` from `X` to `Y` and back leaves every balance as it was -/
theorem transfer_there_and_back (t : TState) (c0 X Y : Addr) (a : Nat) (hle : a ≤ t.balOf c0 X) (c h : Addr) :
    ((((t.debit c0 X a).credit c0 Y a).debit c0 Y a).credit c0 X a).balOf c h = t.balOf c h := by
  by_cases hXY : X = Y
  · subst hXY
    simp only [balOf_credit, balOf_debit, and_self, if_true]
    split
    · rename_i hc; obtain ⟨rfl, rfl⟩ := hc; omega
    · rfl
  · have hYX : ¬ Y = X := fun e => hXY e.symm
    simp only [balOf_credit, balOf_debit, hXY, hYX, if_false, and_false, if_true, and_self]
    by_cases c1 : (c = c0 ∧ h = X)
    · obtain ⟨rfl, rfl⟩ := c1; simp; omega
    · by_cases c2 : (c = c0 ∧ h = Y)
      · obtain ⟨rfl, rfl⟩ := c2; simp [hYX]
      · simp [c1, c2]

/-! ### the four paths: explicit post-states -/

variable {env : Env} {cfg : Cfg}

/-- 1.1 coin → token, chain-deployed contract: coins escrowed, tokens minted -/
theorem coinNative_honest {w w' : World TState} {p : Pair} {d : Denom} {a : Nat} {receiver sender : Addr} {r : Resp}
    (h : convertCoinNativeCoin env (honest cfg) w p d a receiver sender = .ok (w', r)) :
    ∃ bank1, w.st.bank.applyAll [.xfer sender env.modAddr d a] = .ok bank1 ∧
      w'.st = { w.st with bank := bank1 } ∧
      w'.evm = (w.evm.setSupply p.addr (w.evm.supply p.addr + a)).credit p.addr receiver a ∧
      w.evm.hasCode p.addr = true ∧ r = .converted := by
  obtain ⟨F⟩ := convertCoinNativeCoin_ok h
  have hc := (honest_balanceOf_ret F.hB0.2).1
  have hcall := F.hCall
  rw [honest_balanceOf_snd] at hcall
  obtain ⟨e1, _⟩ := honest_mint_ok hc hcall
  refine ⟨F.bank1, F.hBank, congrArg World.st F.hWorld, ?_, hc, F.hResp⟩
  rw [F.hWorld]
  simp only [honest_balanceOf_snd, e1]

/-- 1.2 token → coin, chain-deployed contract: tokens burned, escrowed coins released -/
theorem erc20NativeCoin_honest {w w' : World TState} {p : Pair} {a : Nat} {receiver sender : Addr} {r : Resp}
    (h : convertERC20NativeCoin env (honest cfg) w p a receiver sender = .ok (w', r)) :
    ∃ bank1, w.st.bank.applyAll [.xfer env.modAddr receiver p.denom a] = .ok bank1 ∧
      w'.st = { w.st with bank := bank1 } ∧
      w'.evm = (w.evm.debit p.addr sender a).setSupply p.addr (w.evm.supply p.addr - a) ∧
      a ≤ w.evm.balOf p.addr sender ∧ a ≤ w.evm.supply p.addr ∧ w.evm.hasCode p.addr = true ∧ r = .converted := by
  obtain ⟨F⟩ := convertERC20NativeCoin_ok h
  have hc := (honest_balanceOf_ret F.hT0.2).1
  have hcall := F.hCall
  rw [honest_balanceOf_snd] at hcall
  obtain ⟨e1, hle, hls, _⟩ := honest_burnCoins_ok hc hcall
  refine ⟨F.bank1, F.hBank, congrArg World.st F.hWorld, ?_, hle, hls, hc, F.hResp⟩
  rw [F.hWorld]
  simp only [honest_balanceOf_snd, e1]

/-- 2.1 token → coin, external contract: tokens escrowed on the module address, coins minted -/
theorem erc20NativeToken_honest {w w' : World TState} {p : Pair} {a : Nat} {receiver sender : Addr} {r : Resp}
    (h : convertERC20NativeToken env (honest cfg) w p a receiver sender = .ok (w', r)) :
    ∃ bank1 bank2, w.st.bank.applyAll [.mint env.modAddr p.denom a] = .ok bank1 ∧
      bank1.applyAll [.xfer env.modAddr receiver p.denom a] = .ok bank2 ∧
      w'.st = { w.st with bank := bank2 } ∧
      w'.evm = (w.evm.debit p.addr sender a).credit p.addr env.modAddr a ∧
      a ≤ w.evm.balOf p.addr sender ∧ w.evm.hasCode p.addr = true ∧ r = .converted := by
  obtain ⟨F⟩ := convertERC20NativeToken_ok h
  have hc := (honest_balanceOf_ret F.hM0.2).1
  have hcall := F.hCall
  rw [honest_balanceOf_snd] at hcall
  obtain ⟨e1, hle, _⟩ := honest_transfer_ok hc hcall
  refine ⟨F.bank1, F.bank2, F.hMint, F.hSend, congrArg World.st F.hWorld, ?_, hle, hc, F.hResp⟩
  rw [F.hWorld]
  simp only [honest_balanceOf_snd, e1]

/-- 2.2 coin → token, external contract: coins escrowed then burned, escrowed tokens released -/
theorem coinNativeERC20_honest {w w' : World TState} {p : Pair} {d : Denom} {a : Nat} {receiver sender : Addr} {r : Resp}
    (h : convertCoinNativeERC20 env (honest cfg) w p d a receiver sender = .ok (w', r)) :
    ∃ bank1 bank2, w.st.bank.applyAll [.xfer sender env.modAddr d a] = .ok bank1 ∧
      bank1.applyAll [.burn env.modAddr d a] = .ok bank2 ∧
      w'.st = { w.st with bank := bank2 } ∧
      w'.evm = (w.evm.debit p.addr env.modAddr a).credit p.addr receiver a ∧
      a ≤ w.evm.balOf p.addr env.modAddr ∧ w.evm.hasCode p.addr = true ∧ r = .converted := by
  obtain ⟨F⟩ := convertCoinNativeERC20_ok h
  have hc := (honest_balanceOf_ret F.hR0.2).1
  have hcall := F.hCall
  rw [honest_balanceOf_snd] at hcall
  obtain ⟨e1, hle, _⟩ := honest_transfer_ok hc hcall
  refine ⟨F.bank1, F.bank2, F.hBank, F.hBurn, congrArg World.st F.hWorld, ?_, hle, hc, F.hResp⟩
  rw [F.hWorld]
  simp only [honest_balanceOf_snd, e1]

end Token
end Erc20
end CV
