import CantoVerif.Proofs.Erc20Map
/-!
# The registry invariant and its preservation by the four ways the code writes the three prefixes
(insert on registration, rewrite of the pair record on toggle, deletion, genesis re-import).
Core Lean only.
-/
namespace CV
namespace Erc20
open KMap

/-- **The registry invariant of C15.**  The pair table and the two indexes agree:
* every stored pair sits under its own id (`sha256(address|denom)`, modelled by the preimage);
* the denomination index holds `d ↦ i` exactly when the pair stored under `i` has denomination `d`;
* the address index holds `a ↦ i` exactly when the pair stored under `i` has address `a`;
* no registered denomination has the form of a hex address (else `GetTokenPairID` would send it to
  the address index);
* keys are unique in each prefix (true of any KV store; needed because the model uses lists). -/
structure RegInv (r : Registry) : Prop where
  idOk : ∀ i p, r.getPair i = some p → i = p.id
  denomIdx : ∀ d i, get? r.byDenom d = some i ↔ ∃ p, r.getPair i = some p ∧ p.denom = d
  addrIdx : ∀ a i, get? r.byAddr a = some i ↔ ∃ p, r.getPair i = some p ∧ p.addr = a
  noHexDenom : ∀ i p, r.getPair i = some p → isHexAddress p.denom = false
  nodupP : NodupKeys r.pairs
  nodupD : NodupKeys r.byDenom
  nodupA : NodupKeys r.byAddr

theorem regInv_empty : RegInv Registry.empty where
  idOk := by intro i p h; simp [Registry.getPair, Registry.empty] at h
  denomIdx := by intro d i; simp [Registry.getPair, Registry.empty]
  addrIdx := by intro a i; simp [Registry.getPair, Registry.empty]
  noHexDenom := by intro i p h; simp [Registry.getPair, Registry.empty] at h
  nodupP := nodup_nil
  nodupD := nodup_nil
  nodupA := nodup_nil

theorem getPair_insert (r : Registry) (p : Pair) (i : PairId) :
    (r.insert p).getPair i = if i = p.id then some p else r.getPair i := by
  simp [Registry.getPair, Registry.insert, get?_put]

theorem id_inj {p q : Pair} (h : p.id = q.id) : p.addr = q.addr ∧ p.denom = q.denom := by
  simp only [Pair.id, Prod.mk.injEq] at h; exact h

/-- registration: both keys are new ⇒ the invariant is kept -/
theorem regInv_insert {r : Registry} (h : RegInv r) (p : Pair)
    (hd : get? r.byDenom p.denom = none) (ha : get? r.byAddr p.addr = none)
    (hx : isHexAddress p.denom = false) : RegInv (r.insert p) where
  idOk := by
    intro i q hq
    rw [getPair_insert] at hq
    split at hq
    · rename_i hi; injection hq with hq; subst hq; exact hi
    · exact h.idOk i q hq
  denomIdx := by
    intro d i
    simp only [Registry.insert, get?_put]
    show (if d = p.denom then some p.id else get? r.byDenom d) = some i ↔ ∃ q, (r.insert p).getPair i = some q ∧ q.denom = d
    by_cases hdd : d = p.denom
    · subst hdd
      simp only [if_true]
      constructor
      · intro e; injection e with e; subst e
        exact ⟨p, by rw [getPair_insert]; simp, rfl⟩
      · rintro ⟨q, hq, hqd⟩
        rw [getPair_insert] at hq
        split at hq
        · rename_i hi; rw [hi]
        · have := (h.denomIdx p.denom i).mpr ⟨q, hq, hqd⟩
          rw [hd] at this; cases this
    · simp only [hdd, if_false]
      rw [h.denomIdx d i]
      constructor
      · rintro ⟨q, hq, hqd⟩
        refine ⟨q, ?_, hqd⟩
        rw [getPair_insert]
        have : i ≠ p.id := by
          intro e
          have := h.idOk i q hq
          rw [e] at this
          exact hdd (hqd ▸ (id_inj this).2.symm)
        simp [this, hq]
      · rintro ⟨q, hq, hqd⟩
        rw [getPair_insert] at hq
        split at hq
        · injection hq with hq; subst hq; exact absurd hqd.symm hdd
        · exact ⟨q, hq, hqd⟩
  addrIdx := by
    intro a i
    simp only [Registry.insert, get?_put]
    show (if a = p.addr then some p.id else get? r.byAddr a) = some i ↔ ∃ q, (r.insert p).getPair i = some q ∧ q.addr = a
    by_cases haa : a = p.addr
    · subst haa
      simp only [if_true]
      constructor
      · intro e; injection e with e; subst e
        exact ⟨p, by rw [getPair_insert]; simp, rfl⟩
      · rintro ⟨q, hq, hqa⟩
        rw [getPair_insert] at hq
        split at hq
        · rename_i hi; rw [hi]
        · have := (h.addrIdx p.addr i).mpr ⟨q, hq, hqa⟩
          rw [ha] at this; cases this
    · simp only [haa, if_false]
      rw [h.addrIdx a i]
      constructor
      · rintro ⟨q, hq, hqa⟩
        refine ⟨q, ?_, hqa⟩
        rw [getPair_insert]
        have : i ≠ p.id := by
          intro e
          have := h.idOk i q hq
          rw [e] at this
          exact haa (hqa ▸ (id_inj this).1.symm)
        simp [this, hq]
      · rintro ⟨q, hq, hqa⟩
        rw [getPair_insert] at hq
        split at hq
        · injection hq with hq; subst hq; exact absurd hqa.symm haa
        · exact ⟨q, hq, hqa⟩
  noHexDenom := by
    intro i q hq
    rw [getPair_insert] at hq
    split at hq
    · injection hq with hq; subst hq; exact hx
    · exact h.noHexDenom i q hq
  nodupP := nodup_put h.nodupP _ _
  nodupD := nodup_put h.nodupD _ _
  nodupA := nodup_put h.nodupA _ _

theorem getPair_setPair (r : Registry) (p : Pair) (i : PairId) :
    (r.setPair p).getPair i = if i = p.id then some p else r.getPair i := by
  simp [Registry.getPair, Registry.setPair, get?_put]

/-- toggle: the record of a stored pair is rewritten with the same address and denomination -/
theorem regInv_setPair {r : Registry} (h : RegInv r) (p p' : Pair) (hp : r.getPair p.id = some p)
    (ha : p'.addr = p.addr) (hd : p'.denom = p.denom) : RegInv (r.setPair p') := by
  have hid : p'.id = p.id := by simp [Pair.id, ha, hd]
  have key : ∀ i, (∃ q, (r.setPair p').getPair i = some q ∧ q.denom = p.denom ∧ i = p.id) ↔ i = p.id := by
    intro i
    constructor
    · rintro ⟨_, _, _, e⟩; exact e
    · intro e; refine ⟨p', ?_, hd, e⟩; rw [getPair_setPair, hid]; simp [e]
  refine ⟨?_, ?_, ?_, ?_, nodup_put h.nodupP _ _, h.nodupD, h.nodupA⟩
  · intro i q hq
    rw [getPair_setPair, hid] at hq
    split at hq
    · rename_i hi; injection hq with hq; subst hq; rw [hid]; exact hi
    · exact h.idOk i q hq
  · intro d i
    show get? r.byDenom d = some i ↔ _
    rw [h.denomIdx d i]
    constructor
    · rintro ⟨q, hq, hqd⟩
      by_cases hi : i = p.id
      · subst hi
        rw [hp] at hq; injection hq with hq; subst hq
        exact ⟨p', by rw [getPair_setPair, hid]; simp, by rw [hd]; exact hqd⟩
      · exact ⟨q, by rw [getPair_setPair, hid]; simp [hi, hq], hqd⟩
    · rintro ⟨q, hq, hqd⟩
      rw [getPair_setPair, hid] at hq
      split at hq
      · rename_i hi; injection hq with hq; subst hq; subst hi
        exact ⟨p, hp, by rw [← hd]; exact hqd⟩
      · exact ⟨q, hq, hqd⟩
  · intro a i
    show get? r.byAddr a = some i ↔ _
    rw [h.addrIdx a i]
    constructor
    · rintro ⟨q, hq, hqa⟩
      by_cases hi : i = p.id
      · subst hi
        rw [hp] at hq; injection hq with hq; subst hq
        exact ⟨p', by rw [getPair_setPair, hid]; simp, by rw [ha]; exact hqa⟩
      · exact ⟨q, by rw [getPair_setPair, hid]; simp [hi, hq], hqa⟩
    · rintro ⟨q, hq, hqa⟩
      rw [getPair_setPair, hid] at hq
      split at hq
      · rename_i hi; injection hq with hq; subst hq; subst hi
        exact ⟨p, hp, by rw [← ha]; exact hqa⟩
      · exact ⟨q, hq, hqa⟩
  · intro i q hq
    rw [getPair_setPair, hid] at hq
    split at hq
    · injection hq with hq; subst hq; rw [hd]; exact h.noHexDenom p.id p hp
    · exact h.noHexDenom i q hq

theorem getPair_delete (r : Registry) (p : Pair) (i : PairId) :
    (r.delete p).getPair i = if i = p.id then none else r.getPair i := by
  simp [Registry.getPair, Registry.delete, get?_del]

/-- deletion of a stored pair removes its three entries and keeps the invariant -/
theorem regInv_delete {r : Registry} (h : RegInv r) (p : Pair) (hp : r.getPair p.id = some p) :
    RegInv (r.delete p) where
  idOk := by
    intro i q hq
    rw [getPair_delete] at hq
    split at hq
    · cases hq
    · exact h.idOk i q hq
  denomIdx := by
    intro d i
    show get? (del r.byDenom p.denom) d = some i ↔ _
    rw [get?_del]
    by_cases hdd : d = p.denom
    · subst hdd
      simp only [if_true]
      constructor
      · intro e; cases e
      · rintro ⟨q, hq, hqd⟩
        rw [getPair_delete] at hq
        split at hq
        · cases hq
        · rename_i hi
          have h1 := (h.denomIdx p.denom i).mpr ⟨q, hq, hqd⟩
          have h2 := (h.denomIdx p.denom p.id).mpr ⟨p, hp, rfl⟩
          rw [h1] at h2; injection h2 with h2; exact absurd h2 hi
    · simp only [hdd, if_false]
      rw [h.denomIdx d i]
      constructor
      · rintro ⟨q, hq, hqd⟩
        refine ⟨q, ?_, hqd⟩
        rw [getPair_delete]
        have : i ≠ p.id := by
          intro e; subst e; rw [hp] at hq; injection hq with hq; subst hq; exact hdd hqd.symm
        simp [this, hq]
      · rintro ⟨q, hq, hqd⟩
        rw [getPair_delete] at hq
        split at hq
        · cases hq
        · exact ⟨q, hq, hqd⟩
  addrIdx := by
    intro a i
    show get? (del r.byAddr p.addr) a = some i ↔ _
    rw [get?_del]
    by_cases haa : a = p.addr
    · subst haa
      simp only [if_true]
      constructor
      · intro e; cases e
      · rintro ⟨q, hq, hqa⟩
        rw [getPair_delete] at hq
        split at hq
        · cases hq
        · rename_i hi
          have h1 := (h.addrIdx p.addr i).mpr ⟨q, hq, hqa⟩
          have h2 := (h.addrIdx p.addr p.id).mpr ⟨p, hp, rfl⟩
          rw [h1] at h2; injection h2 with h2; exact absurd h2 hi
    · simp only [haa, if_false]
      rw [h.addrIdx a i]
      constructor
      · rintro ⟨q, hq, hqa⟩
        refine ⟨q, ?_, hqa⟩
        rw [getPair_delete]
        have : i ≠ p.id := by
          intro e; subst e; rw [hp] at hq; injection hq with hq; subst hq; exact haa hqa.symm
        simp [this, hq]
      · rintro ⟨q, hq, hqa⟩
        rw [getPair_delete] at hq
        split at hq
        · cases hq
        · exact ⟨q, hq, hqa⟩
  noHexDenom := by
    intro i q hq
    rw [getPair_delete] at hq
    split at hq
    · cases hq
    · exact h.noHexDenom i q hq
  nodupP := nodup_del h.nodupP _
  nodupD := nodup_del h.nodupD _
  nodupA := nodup_del h.nodupA _

/-! ### genesis export / import -/

theorem reimport_pairs (r : Registry) :
    (reimport r).pairs = r.pairs.foldl (fun a e => put a e.2.id e.2) [] ∧
    (reimport r).byDenom = r.byDenom.foldl (fun a e => put a e.1 e.2) [] ∧
    (reimport r).byAddr = r.byAddr.foldl (fun a e => put a e.1 e.2) [] := by
  unfold reimport
  -- each fold only touches its own field
  have f1 : ∀ (l : List (PairId × Pair)) (acc : Registry),
      (l.foldl (fun (acc : Registry) e => { acc with pairs := put acc.pairs e.2.id e.2 }) acc) =
      { acc with pairs := l.foldl (fun a e => put a e.2.id e.2) acc.pairs } := by
    intro l; induction l with
    | nil => intro acc; rfl
    | cons e es ih => intro acc; simp only [List.foldl_cons]; rw [ih]
  have f2 : ∀ (l : List (Denom × PairId)) (acc : Registry),
      (l.foldl (fun (acc : Registry) e => { acc with byDenom := put acc.byDenom e.1 e.2 }) acc) =
      { acc with byDenom := l.foldl (fun a e => put a e.1 e.2) acc.byDenom } := by
    intro l; induction l with
    | nil => intro acc; rfl
    | cons e es ih => intro acc; simp only [List.foldl_cons]; rw [ih]
  have f3 : ∀ (l : List (Addr × PairId)) (acc : Registry),
      (l.foldl (fun (acc : Registry) e => { acc with byAddr := put acc.byAddr e.1 e.2 }) acc) =
      { acc with byAddr := l.foldl (fun a e => put a e.1 e.2) acc.byAddr } := by
    intro l; induction l with
    | nil => intro acc; rfl
    | cons e es ih => intro acc; simp only [List.foldl_cons]; rw [ih]
  simp [f1, f2, f3, Registry.empty]

/-- `InitGenesis (ExportGenesis s)` into emptied stores gives back the same three maps -/
theorem reimport_lookups {r : Registry} (h : RegInv r) :
    (∀ i, (reimport r).getPair i = r.getPair i) ∧
    (∀ d, get? (reimport r).byDenom d = get? r.byDenom d) ∧
    (∀ a, get? (reimport r).byAddr a = get? r.byAddr a) := by
  obtain ⟨e1, e2, e3⟩ := reimport_pairs r
  refine ⟨?_, ?_, ?_⟩
  · intro i
    unfold Registry.getPair
    rw [e1, get?_foldl_put (fun e => e.2.id) r.pairs [] h.nodupP]
    · cases get? r.pairs i <;> rfl
    · intro e he
      obtain ⟨k, v⟩ := e
      exact (h.idOk k v (get?_of_mem h.nodupP he)).symm
  · intro d
    rw [e2, get?_foldl_put (fun e => e.1) r.byDenom [] h.nodupD (fun _ _ => rfl) d]
    cases get? r.byDenom d <;> rfl
  · intro a
    rw [e3, get?_foldl_put (fun e => e.1) r.byAddr [] h.nodupA (fun _ _ => rfl) a]
    cases get? r.byAddr a <;> rfl

theorem regInv_reimport {r : Registry} (h : RegInv r) : RegInv (reimport r) := by
  obtain ⟨l1, l2, l3⟩ := reimport_lookups h
  obtain ⟨e1, e2, e3⟩ := reimport_pairs r
  refine ⟨?_, ?_, ?_, ?_, ?_, ?_, ?_⟩
  · intro i p hp; rw [l1] at hp; exact h.idOk i p hp
  · intro d i; rw [l2, h.denomIdx]; simp only [l1]
  · intro a i; rw [l3, h.addrIdx]; simp only [l1]
  · intro i p hp; rw [l1] at hp; exact h.noHexDenom i p hp
  · rw [e1]; exact nodup_foldl_put _ _ _ nodup_nil
  · rw [e2]; exact nodup_foldl_put _ _ _ nodup_nil
  · rw [e3]; exact nodup_foldl_put _ _ _ nodup_nil

/-! ### consequences of the invariant -/

/-- one-to-one: a denomination belongs to at most one pair, an address to at most one pair -/
theorem RegInv.denom_inj {r : Registry} (h : RegInv r) {i j : PairId} {p q : Pair}
    (hp : r.getPair i = some p) (hq : r.getPair j = some q) (hd : p.denom = q.denom) : i = j ∧ p = q := by
  have h1 := (h.denomIdx p.denom i).mpr ⟨p, hp, rfl⟩
  have h2 := (h.denomIdx p.denom j).mpr ⟨q, hq, hd.symm⟩
  rw [h1] at h2; injection h2 with h2; subst h2
  rw [hp] at hq; injection hq with hq
  exact ⟨rfl, hq⟩

theorem RegInv.addr_inj {r : Registry} (h : RegInv r) {i j : PairId} {p q : Pair}
    (hp : r.getPair i = some p) (hq : r.getPair j = some q) (ha : p.addr = q.addr) : i = j ∧ p = q := by
  have h1 := (h.addrIdx p.addr i).mpr ⟨p, hp, rfl⟩
  have h2 := (h.addrIdx p.addr j).mpr ⟨q, hq, ha.symm⟩
  rw [h1] at h2; injection h2 with h2; subst h2
  rw [hp] at hq; injection hq with hq
  exact ⟨rfl, hq⟩

theorem RegInv.getPair_id {r : Registry} (h : RegInv r) {i : PairId} {p : Pair} (hp : r.getPair i = some p) :
    r.getPair p.id = some p := by
  have := h.idOk i p hp; rw [← this]; exact hp

end Erc20
end CV
