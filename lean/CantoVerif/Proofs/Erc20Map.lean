import CantoVerif.Model.Erc20
/-!
# Laws of the association-list maps that model the three registry prefixes (core Lean only).
-/
namespace CV
namespace Erc20
namespace KMap
variable {κ β : Type} [DecidableEq κ]

def NodupKeys (l : List (κ × β)) : Prop := (l.map (·.1)).Nodup

theorem get?_put (l : List (κ × β)) (k k' : κ) (v : β) :
    get? (put l k v) k' = if k' = k then some v else get? l k' := by
  induction l with
  | nil =>
    by_cases h : k' = k
    · subst h; simp [put, get?]
    · have : ¬ k = k' := fun e => h e.symm
      simp [put, get?, h, this]
  | cons p ps ih =>
    obtain ⟨pk, pv⟩ := p
    by_cases h1 : pk = k
    · subst h1
      by_cases h2 : k' = pk
      · subst h2; simp [put, get?]
      · have : ¬ pk = k' := fun e => h2 e.symm
        simp [put, get?, h2, this]
    · by_cases h2 : pk = k'
      · subst h2
        simp [put, get?, h1]
      · simp [put, get?, h1, h2, ih]

theorem get?_del (l : List (κ × β)) (k k' : κ) :
    get? (del l k) k' = if k' = k then none else get? l k' := by
  induction l with
  | nil => simp [del, get?]
  | cons p ps ih =>
    obtain ⟨pk, pv⟩ := p
    unfold del at ih ⊢
    by_cases h1 : pk = k
    · subst h1
      simp only [List.filter, decide_true, Bool.not_true]
      rw [ih]
      by_cases h2 : k' = pk
      · simp [h2]
      · have : ¬ pk = k' := fun e => h2 e.symm
        simp [get?, h2, this]
    · simp only [List.filter, h1, decide_false, Bool.not_false]
      by_cases h2 : pk = k'
      · subst h2; simp [get?, h1]
      · simp only [get?, h2, if_false]; exact ih

@[simp] theorem get?_nil (k : κ) : get? ([] : List (κ × β)) k = none := rfl

theorem has_eq (l : List (κ × β)) (k : κ) : has l k = (get? l k).isSome := rfl

theorem has_false {l : List (κ × β)} {k : κ} (h : (!has l k) = true) : get? l k = none := by
  unfold has at h
  cases hg : get? l k with
  | none => rfl
  | some v => rw [hg] at h; simp at h

theorem mem_of_get? {l : List (κ × β)} {k : κ} {v : β} (h : get? l k = some v) : (k, v) ∈ l := by
  induction l with
  | nil => cases h
  | cons p ps ih =>
    obtain ⟨pk, pv⟩ := p
    simp only [get?] at h
    split at h
    · rename_i hk; subst hk; injection h with h; subst h; exact List.mem_cons_self ..
    · exact List.mem_cons_of_mem _ (ih h)

omit [DecidableEq κ] in
theorem key_mem_of_mem {l : List (κ × β)} {k : κ} {v : β} (h : (k, v) ∈ l) : k ∈ l.map (·.1) :=
  List.mem_map.mpr ⟨(k, v), h, rfl⟩

theorem get?_none_of_not_key {l : List (κ × β)} {k : κ} (h : k ∉ l.map (·.1)) : get? l k = none := by
  cases hg : get? l k with
  | none => rfl
  | some v => exact absurd (key_mem_of_mem (mem_of_get? hg)) h

theorem get?_of_mem {l : List (κ × β)} (hn : NodupKeys l) {k : κ} {v : β} (h : (k, v) ∈ l) :
    get? l k = some v := by
  induction l with
  | nil => cases h
  | cons p ps ih =>
    obtain ⟨pk, pv⟩ := p
    unfold NodupKeys at hn
    simp only [List.map_cons, List.nodup_cons] at hn
    cases h with
    | head => simp [get?]
    | tail _ h' =>
      have hne : pk ≠ k := by
        intro e; subst e; exact hn.1 (key_mem_of_mem h')
      simp only [get?, hne, if_false]
      exact ih hn.2 h'

theorem keys_put (l : List (κ × β)) (k : κ) (v : β) :
    ∀ x, x ∈ (put l k v).map (·.1) ↔ x = k ∨ x ∈ l.map (·.1) := by
  induction l with
  | nil => intro x; simp [put]
  | cons p ps ih =>
    obtain ⟨pk, pv⟩ := p
    intro x
    by_cases h1 : pk = k
    · subst h1; simp [put]
    · simp only [put, h1, if_false, List.map_cons, List.mem_cons, ih x]
      constructor
      · rintro (h | h | h)
        · exact Or.inr (Or.inl h)
        · exact Or.inl h
        · exact Or.inr (Or.inr h)
      · rintro (h | h | h)
        · exact Or.inr (Or.inl h)
        · exact Or.inl h
        · exact Or.inr (Or.inr h)

theorem nodup_put {l : List (κ × β)} (hn : NodupKeys l) (k : κ) (v : β) : NodupKeys (put l k v) := by
  induction l with
  | nil => simp [NodupKeys, put]
  | cons p ps ih =>
    obtain ⟨pk, pv⟩ := p
    unfold NodupKeys at hn ⊢
    simp only [List.map_cons, List.nodup_cons] at hn
    by_cases h1 : pk = k
    · subst h1
      simp only [put, if_true, List.map_cons, List.nodup_cons]
      exact hn
    · simp only [put, h1, if_false, List.map_cons, List.nodup_cons]
      refine ⟨?_, ih hn.2⟩
      intro hm
      rcases (keys_put ps k v pk).mp hm with h | h
      · exact h1 h
      · exact hn.1 h

theorem nodup_del {l : List (κ × β)} (hn : NodupKeys l) (k : κ) : NodupKeys (del l k) := by
  unfold NodupKeys del at *
  induction l with
  | nil => simp
  | cons p ps ih =>
    simp only [List.map_cons, List.nodup_cons] at hn
    simp only [List.filter]
    split
    · simp only [List.map_cons, List.nodup_cons]
      refine ⟨?_, ih hn.2⟩
      intro hm
      apply hn.1
      obtain ⟨q, hq, he⟩ := List.mem_map.mp hm
      exact List.mem_map.mpr ⟨q, (List.mem_filter.mp hq).1, he⟩
    · exact ih hn.2

omit [DecidableEq κ] in
theorem nodup_nil : NodupKeys ([] : List (κ × β)) := by simp [NodupKeys]

/-- folding `put` over a list with distinct keys reproduces its lookups -/
theorem get?_foldl_put (g : κ × β → κ) :
    ∀ (l : List (κ × β)) (acc : List (κ × β)), NodupKeys l → (∀ e ∈ l, g e = e.1) → ∀ k,
      get? (l.foldl (fun a e => put a (g e) e.2) acc) k = (match get? l k with | some v => some v | none => get? acc k) := by
  intro l
  induction l with
  | nil => intro acc _ _ k; simp [get?]
  | cons e r ih =>
    intro acc hn hg k
    obtain ⟨ek, ev⟩ := e
    unfold NodupKeys at hn
    simp only [List.map_cons, List.nodup_cons] at hn
    have hge : g (ek, ev) = ek := hg (ek, ev) (List.mem_cons_self ..)
    simp only [List.foldl_cons, hge]
    rw [ih (put acc ek ev) hn.2 (fun e he => hg e (List.mem_cons_of_mem _ he)) k, get?_put]
    by_cases hk : ek = k
    · subst hk
      rw [get?_none_of_not_key hn.1]
      simp [get?]
    · have hk' : ¬ k = ek := fun e => hk e.symm
      simp only [get?, hk, hk', if_false]

theorem nodup_foldl_put (g : κ × β → κ) :
    ∀ (l : List (κ × β)) (acc : List (κ × β)), NodupKeys acc →
      NodupKeys (l.foldl (fun a e => put a (g e) e.2) acc) := by
  intro l
  induction l with
  | nil => intro acc h; exact h
  | cons e r ih => intro acc h; exact ih _ (nodup_put h _ _)

end KMap
end Erc20
end CV
