import CantoVerif.Model.Inflation
import CantoVerif.Proofs.InflationArith
/-!
# Inversion lemmas for the inflation listener: what a successful `AfterEpochEnd` establishes.

`sweep_ok` — sending "every balance of the inflation account" to the distribution account empties
the account for *every* denomination, credits the distribution account and the community-pool
record with exactly what was there, and touches nobody else;
`mintAndAllocate_ok` — the ledger after mint + staking leg + sweep, read off `Bank.applyAll_flow`;
`afterEpochEnd_cases` — the three branches of the listener with everything each one establishes.
-/
namespace CV
namespace Inflation
open Epochs

/-- the three module accounts involved are distinct (they are distinct module names in `maccPerms`) -/
structure EnvOK (env : Env) : Prop where
  infl_fc : env.infl ≠ env.feeCollector
  infl_distr : env.infl ≠ env.distr
  fc_distr : env.feeCollector ≠ env.distr

/-! ### balances of one account -/

theorem getL_ne_zero_mem (l : List ((Addr × Denom) × Nat)) (k : Addr × Denom) (h : AMap.getL l k ≠ 0) :
    ∃ v, (k, v) ∈ l ∧ v ≠ 0 := by
  induction l with
  | nil => simp [AMap.getL] at h
  | cons p ps ih =>
    obtain ⟨pk, pv⟩ := p
    simp only [AMap.getL] at h
    split at h
    · rename_i hk; subst hk; exact ⟨pv, List.mem_cons_self .., h⟩
    · obtain ⟨v, hv, hv0⟩ := ih h
      exact ⟨v, List.mem_cons_of_mem _ hv, hv0⟩

/-- every denomination with a non-zero balance is listed -/
theorem heldDenoms_mem (b : Bank) (a : Addr) (d : Denom) (h : b.get a d ≠ 0) : d ∈ heldDenoms b a := by
  obtain ⟨v, hv, hv0⟩ := getL_ne_zero_mem b.bal.items (a, d) h
  unfold heldDenoms
  simp only [List.mem_map, List.mem_filter, Bool.and_eq_true, beq_iff_eq, bne_iff_ne, ne_eq]
  exact ⟨((a, d), v), ⟨hv, rfl, hv0⟩, rfl⟩

/-! ### the sweep -/

structure SweepFacts (env : Env) (b : Bank) (pl : AMap Denom) (ds : List Denom) (b' : Bank) (pl' : AMap Denom) : Prop where
  infl : ∀ d, b'.get env.infl d = if d ∈ ds then 0 else b.get env.infl d
  distr : ∀ d, b'.get env.distr d = b.get env.distr d + (if d ∈ ds then b.get env.infl d else 0)
  other : ∀ a d, a ≠ env.infl → a ≠ env.distr → b'.get a d = b.get a d
  supply : ∀ d, b'.supply d = b.supply d
  pool : ∀ d, pl'.get d = pl.get d + (if d ∈ ds then b.get env.infl d * S18 else 0)

theorem sweepStep_ok {env : Env} (hE : EnvOK env) {b b' : Bank} {pl pl' : AMap Denom} {d0 : Denom}
    (h : sweepStep env (b, pl) d0 = .ok (b', pl')) : SweepFacts env b pl [d0] b' pl' := by
  unfold sweepStep at h
  simp only at h
  obtain ⟨b1, h1, h⟩ := bind_ok h
  obtain ⟨pv, h2, h⟩ := bind_ok h
  injection h with h
  simp only [Prod.mk.injEq] at h
  obtain ⟨rfl, rfl⟩ := h
  have hpv := Dec.guard315_ok h2
  have flow := Bank.apply1_flow b b1 _ h1
  have hid : env.infl ≠ env.distr := hE.infl_distr
  have hdi : env.distr ≠ env.infl := fun e => hid e.symm
  refine ⟨?_, ?_, ?_, ?_, ?_⟩
  · intro d
    have := (flow env.infl d).1
    simp only [Eff.inflow, Eff.outflow, hid, false_and, if_false, true_and] at this
    by_cases hd : d = d0
    · subst hd; simp at this ⊢; omega
    · simp [hd] at this ⊢; omega
  · intro d
    have := (flow env.distr d).1
    simp only [Eff.inflow, Eff.outflow, hdi, false_and, if_false, true_and] at this
    by_cases hd : d = d0
    · subst hd; simp at this ⊢; omega
    · simp [hd] at this ⊢; omega
  · intro a d ha1 ha2
    have := (flow a d).1
    simp only [Eff.inflow, Eff.outflow, ha1, ha2, false_and, if_false] at this
    omega
  · intro d
    have := (flow env.infl d).2
    simp only [Eff.burned, Eff.minted] at this
    omega
  · intro d
    rw [AMap.get_set]
    by_cases hd : d = d0
    · subst hd; simp [hpv]
    · simp [hd]

theorem sweep_ok {env : Env} (hE : EnvOK env) : ∀ (ds : List Denom) (b : Bank) (pl : AMap Denom) (b' : Bank) (pl' : AMap Denom),
    sweep env ds (b, pl) = .ok (b', pl') → SweepFacts env b pl ds b' pl' := by
  intro ds
  induction ds with
  | nil =>
    intro b pl b' pl' h
    simp only [sweep] at h
    injection h with h
    simp only [Prod.mk.injEq] at h
    obtain ⟨rfl, rfl⟩ := h
    exact ⟨by simp, by simp, fun _ _ _ _ => rfl, fun _ => rfl, by simp⟩
  | cons d0 ds ih =>
    intro b pl b' pl' h
    simp only [sweep] at h
    obtain ⟨acc1, h1, h⟩ := bind_ok h
    obtain ⟨b1, pl1⟩ := acc1
    have F1 := sweepStep_ok hE h1
    have F2 := ih b1 pl1 b' pl' h
    refine ⟨?_, ?_, ?_, ?_, ?_⟩
    · intro d
      rw [F2.infl d, F1.infl d]
      by_cases hd : d = d0 <;> by_cases hm : d ∈ ds <;> simp [hd, hm]
    · intro d
      rw [F2.distr d, F1.distr d, F1.infl d]
      by_cases hd : d = d0
      · subst hd; by_cases hm : d ∈ ds <;> simp [hm]
      · by_cases hm : d ∈ ds <;> simp [hd, hm]
    · intro a d h1 h2
      rw [F2.other a d h1 h2, F1.other a d h1 h2]
    · intro d; rw [F2.supply d, F1.supply d]
    · intro d
      rw [F2.pool d, F1.pool d, F1.infl d]
      by_cases hd : d = d0
      · subst hd; by_cases hm : d ∈ ds <;> simp [hm]
      · by_cases hm : d ∈ ds <;> simp [hd, hm]

/-! ### mint, staking leg, sweep -/

theorem stakingShare_ok {minted ratio st : Nat} (h : stakingShare minted ratio = .ok st) :
    st = minted * ratio / S18 := by
  unfold stakingShare at h
  obtain ⟨x, h1, h⟩ := bind_ok h
  have e1 := Dec.mul_ok h1
  have e2 := Dec.truncateInt_ok h
  rw [e2, e1, Dec.mulN_ofInt_left]

/-- everything a successful `MintAndAllocateInflation` establishes; `st` is the staking share -/
structure AllocFacts (env : Env) (b : Bank) (pl : AMap Denom) (md : Denom) (minted st : Nat) (b' : Bank) (pl' : AMap Denom) : Prop where
  /-- supply of the mint denomination grows by exactly the minted amount; no other supply changes -/
  supply : ∀ d, b'.supply d = b.supply d + (if d = md then minted else 0)
  /-- the inflation account ends empty, in every denomination -/
  empty : ∀ d, b'.get env.infl d = 0
  /-- the fee collector receives exactly the staking share -/
  staking : ∀ d, b'.get env.feeCollector d = b.get env.feeCollector d + (if d = md then st else 0)
  /-- the staking leg was affordable -/
  staking_le : st ≤ b.get env.infl md + minted
  /-- the distribution account receives everything else: the rest of the mint and all prior balances -/
  distr : ∀ d, b'.get env.distr d + (if d = md then st else 0) =
               b.get env.distr d + b.get env.infl d + (if d = md then minted else 0)
  /-- and the community-pool record grows by the same amounts -/
  pool : ∀ d, pl'.get d + (if d = md then st else 0) * S18 =
              pl.get d + (b.get env.infl d + (if d = md then minted else 0)) * S18
  /-- nobody else is touched -/
  other : ∀ a d, a ≠ env.infl → a ≠ env.feeCollector → a ≠ env.distr → b'.get a d = b.get a d

/-- the staking share is `⌊minted·ratio⌋` exactly (the decimal product is exact: one factor is an integer) -/
theorem mintAndAllocate_ok {env : Env} (hE : EnvOK env) {b b' : Bank} {pl pl' : AMap Denom} {md : Denom} {minted ratio : Nat}
    (h : mintAndAllocate env b pl md minted ratio = .ok (b', pl')) :
    ∃ st, st = minted * ratio / S18 ∧ AllocFacts env b pl md minted st b' pl' := by
  unfold mintAndAllocate at h
  obtain ⟨st, h1, hA⟩ := bind_ok h
  obtain ⟨b1, h2, hB⟩ := bind_ok hA
  refine ⟨st, stakingShare_ok h1, ?_⟩
  clear h hA h1
  have S := sweep_ok hE _ _ _ _ _ hB
  have flow := Bank.applyAll_flow _ b b1 h2
  have hif := hE.infl_fc
  have hid := hE.infl_distr
  have hfd := hE.fc_distr
  have hfi : env.feeCollector ≠ env.infl := fun e => hif e.symm
  have hdi : env.distr ≠ env.infl := fun e => hid e.symm
  have hdf : env.distr ≠ env.feeCollector := fun e => hfd e.symm
  -- the ledger after mint + staking leg
  have g_infl : ∀ d, b1.get env.infl d + (if d = md then st else 0) = b.get env.infl d + (if d = md then minted else 0) := by
    intro d
    have := (flow env.infl d).1
    simp only [mintEffs, outflow, inflow, sumBy_cons, sumBy_nil, Eff.inflow, Eff.outflow, hif, true_and, false_and, if_false] at this
    omega
  have g_fc : ∀ d, b1.get env.feeCollector d = b.get env.feeCollector d + (if d = md then st else 0) := by
    intro d
    have := (flow env.feeCollector d).1
    simp only [mintEffs, outflow, inflow, sumBy_cons, sumBy_nil, Eff.inflow, Eff.outflow, hfi, true_and, false_and, if_false] at this
    omega
  have g_other : ∀ a d, a ≠ env.infl → a ≠ env.feeCollector → b1.get a d = b.get a d := by
    intro a d ha1 ha2
    have := (flow a d).1
    simp only [mintEffs, outflow, inflow, sumBy_cons, sumBy_nil, Eff.inflow, Eff.outflow, ha1, ha2, false_and, if_false] at this
    omega
  have g_sup : ∀ d, b1.supply d = b.supply d + (if d = md then minted else 0) := by
    intro d
    have := (flow env.infl d).2
    simp only [mintEffs, burned, CV.minted, sumBy_cons, sumBy_nil, Eff.burned, Eff.minted] at this
    omega
  -- whatever the inflation account holds after the staking leg is swept
  have swept : ∀ d, (if d ∈ heldDenoms b1 env.infl then b1.get env.infl d else 0) = b1.get env.infl d := by
    intro d
    by_cases hz : b1.get env.infl d = 0
    · simp [hz]
    · simp [heldDenoms_mem b1 env.infl d hz]
  refine ⟨?_, ?_, ?_, ?_, ?_, ?_, ?_⟩
  · intro d; rw [S.supply d, g_sup d]
  · intro d
    rw [S.infl d]
    by_cases hm : d ∈ heldDenoms b1 env.infl
    · simp [hm]
    · simp only [hm, if_false]
      by_contra hz
      exact hm (heldDenoms_mem b1 env.infl d hz)
  · intro d; rw [S.other _ d hfi hfd, g_fc d]
  · have := g_infl md; simp at this; omega
  · intro d
    rw [S.distr d, swept d, g_other _ d hdi hdf]
    have := g_infl d
    omega
  · intro d
    rw [S.pool d]
    have h1 : (if d ∈ heldDenoms b1 env.infl then b1.get env.infl d * S18 else 0) = b1.get env.infl d * S18 := by
      have := swept d
      by_cases hm : d ∈ heldDenoms b1 env.infl
      · simp [hm]
      · simp only [hm, if_false] at this ⊢; rw [← this]; simp
    rw [h1, ← g_infl d, Nat.add_mul, Nat.add_assoc]
  · intro a d h1 h2 h3
    rw [S.other a d h1 h3, g_other a d h1 h2]

/-! ### the listener -/

/-- everything a minting `AfterEpochEnd` establishes -/
structure MintRun (env : Env) (s : Infl) (n : Int) (s' : Infl) : Prop where
  /-- `⌊provision⌋` is minted, `⌊minted·stakingRewards⌋` goes to the fee collector, the rest and every prior balance to the community pool -/
  alloc : AllocFacts env s.bank s.pool s.params.mintDenom (s.provision / S18)
            (s.provision / S18 * s.params.stakingRewards / S18) s'.bank s'.pool
  params : s'.params = s.params
  epochId : s'.epochId = s.epochId
  epp : s'.epp = s.epp
  skipped : s'.skipped = s.skipped
  skips : s'.skips = s.skips
  mints : s'.mints = s.mints + 1
  issued : s'.issued = s.issued ++ [(s.params.mintDenom, s.provision / S18)]
  /-- the period moves iff the boundary test fires; then the provision is recomputed for the new period from the
  bonded ratio of the ledger *after* the allocation; otherwise period and provision are untouched -/
  boundary : (periodPassed n s.epp s.period s.skipped = true →
                s'.period = s.period + 1 ∧
                ∃ ratio, bondedRatio env s'.bank = .ok ratio ∧ s'.provision = provisionN s.params (s.period + 1) s.epp ratio ∧
                         provision s.params (s.period + 1) s.epp ratio = .ok s'.provision) ∧
             (periodPassed n s.epp s.period s.skipped = false → s'.period = s.period ∧ s'.provision = s.provision)

/-- **The listener, by cases.** -/
theorem afterEpochEnd_cases {env : Env} (hE : EnvOK env) {s s' : Infl} {id : String} {n : Int}
    (h : afterEpochEnd env s id n = .ok s') :
    (s.params.enable = false ∧ id ≠ dayId ∧ s' = s) ∨
    (s.params.enable = false ∧ id = dayId ∧ s' = { s with skipped := s.skipped + 1, skips := s.skips + 1 }) ∨
    (s.params.enable = true ∧ id ≠ s.epochId ∧ s' = s) ∨
    (s.params.enable = true ∧ id = s.epochId ∧ MintRun env s n s') := by
  unfold afterEpochEnd at h
  cases hen : s.params.enable with
  | false =>
    simp only [hen, Bool.not_false, if_true] at h
    by_cases hid : id = dayId
    · right; left
      simp only [hid, bne_self_eq_false, Bool.false_eq_true, if_false] at h
      injection h with h
      exact ⟨rfl, hid, h.symm⟩
    · left
      have : (id != dayId) = true := by simpa using hid
      simp only [this, if_true] at h
      injection h with h
      exact ⟨rfl, hid, h.symm⟩
  | true =>
    simp only [hen, Bool.not_true, Bool.false_eq_true, if_false] at h
    by_cases hid : id = s.epochId
    · right; right; right
      simp only [hid, bne_self_eq_false, Bool.false_eq_true, if_false] at h
      obtain ⟨minted, h1, hA⟩ := bind_ok h
      obtain ⟨_, _, hB⟩ := bind_ok hA
      obtain ⟨bp, h3, hC⟩ := bind_ok hB
      have hm := Dec.truncateInt_ok h1
      subst hm
      obtain ⟨b', pl'⟩ := bp
      obtain ⟨st, hst, A⟩ := mintAndAllocate_ok hE h3
      subst hst
      refine ⟨rfl, hid, ?_⟩
      clear h hA hB
      rename' hC => h
      dsimp only at h
      split at h
      · rename_i hpp
        obtain ⟨ratio, h4, h⟩ := bind_ok h
        obtain ⟨np, h5, h⟩ := bind_ok h
        injection h with h
        subst h
        refine ⟨A, rfl, rfl, rfl, rfl, rfl, rfl, rfl, ?_, ?_⟩
        · intro _
          exact ⟨rfl, ratio, h4, (provision_ok h5).1, h5⟩
        · intro hc; rw [hpp] at hc; cases hc
      · rename_i hpp
        injection h with h
        subst h
        refine ⟨A, rfl, rfl, rfl, rfl, rfl, rfl, rfl, ?_, ?_⟩
        · intro hc; exact absurd hc hpp
        · intro _; exact ⟨rfl, rfl⟩
    · right; right; left
      have : (id != s.epochId) = true := by simpa using hid
      simp only [this, if_true] at h
      injection h with h
      exact ⟨rfl, hid, h.symm⟩

end Inflation
end CV
