import CantoVerif.Model.Csr
/-!
# Laws of the association lists that stand for the two registry prefixes (core Lean only).
-/
namespace CV
namespace Csr

variable {α β : Type} [DecidableEq α]

theorem lookup_insert (l : List (α × β)) (a a' : α) (b : β) :
    lookup (insert l a b) a' = if a' = a then some b else lookup l a' := by
  induction l with
  | nil =>
    by_cases h : a' = a
    · subst h; simp [insert, lookup]
    · have : ¬ a = a' := fun e => h e.symm
      simp [insert, lookup, h, this]
  | cons p ps ih =>
    obtain ⟨k, v⟩ := p
    by_cases h1 : k = a
    · subst h1
      by_cases h2 : a' = k
      · subst h2; simp [insert, lookup]
      · have : ¬ k = a' := fun e => h2 e.symm
        simp [insert, lookup, h2, this]
    · by_cases h2 : k = a'
      · subst h2
        simp [insert, lookup, h1]
      · simp [insert, lookup, h1, h2, ih]

/-- writing the value a key already has changes nothing, not even the list -/
theorem insert_of_lookup {l : List (α × β)} {a : α} {b : β} (h : lookup l a = some b) : insert l a b = l := by
  induction l with
  | nil => simp [lookup] at h
  | cons p ps ih =>
    obtain ⟨k, v⟩ := p
    by_cases h1 : k = a
    · subst h1
      simp only [lookup, if_true] at h
      injection h with h; subst h
      simp [insert]
    · simp only [lookup, h1, if_false] at h
      simp [insert, h1, ih h]

theorem lookup_mem {l : List (α × β)} {a : α} {b : β} (h : lookup l a = some b) : (a, b) ∈ l := by
  induction l with
  | nil => simp [lookup] at h
  | cons p ps ih =>
    obtain ⟨k, v⟩ := p
    by_cases h1 : k = a
    · subst h1
      simp only [lookup, if_true] at h
      injection h with h; subst h
      exact List.mem_cons_self ..
    · simp only [lookup, h1, if_false] at h
      exact List.mem_cons_of_mem _ (ih h)

theorem lookup_setIdx (cs : List Addr) : ∀ (idx : List (Addr × Nat)) (n : Nat) (c : Addr),
    lookup (setIdx idx cs n) c = if c ∈ cs then some n else lookup idx c := by
  induction cs with
  | nil => intro idx n c; simp [setIdx]
  | cons x xs ih =>
    intro idx n c
    have : setIdx idx (x :: xs) n = setIdx (insert idx x n) xs n := rfl
    rw [this, ih, lookup_insert]
    by_cases h1 : c ∈ xs
    · simp [h1]
    · by_cases h2 : c = x
      · simp [h2]
      · simp [h1, h2]

/-- re-writing index entries that are already there changes nothing, not even the list -/
theorem setIdx_of_lookup (cs : List Addr) : ∀ (idx : List (Addr × Nat)) (n : Nat),
    (∀ c ∈ cs, lookup idx c = some n) → setIdx idx cs n = idx := by
  induction cs with
  | nil => intro idx n _; rfl
  | cons x xs ih =>
    intro idx n h
    have e : setIdx idx (x :: xs) n = setIdx (insert idx x n) xs n := rfl
    rw [e, insert_of_lookup (h x (List.mem_cons_self ..))]
    exact ih idx n (fun c hc => h c (List.mem_cons_of_mem _ hc))

theorem getCSR_setCSR (s : State) (r : CSR) (n : Nat) :
    (s.setCSR r).getCSR n = if n = r.id then some r else s.getCSR n := by
  simp [State.getCSR, State.setCSR, lookup_insert]

theorem nftOf_setCSR (s : State) (r : CSR) (c : Addr) :
    (s.setCSR r).nftOf c = if c ∈ r.contracts then some r.id else s.nftOf c := by
  simp [State.nftOf, State.setCSR, lookup_setIdx]

end Csr
end CV
