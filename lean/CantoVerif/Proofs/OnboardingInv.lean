import CantoVerif.Model.Onboarding
import CantoVerif.Proofs.CoinswapEffects
/-!
# Inversion lemmas for the onboarding model (core Lean only).

Each says what a *successful* run of a model function establishes.  The two facts that are more
than bookkeeping:

* `swapLegs_no_partial` — when the exact-output purchase was priced successfully (so the pool
  holds strictly more standard coin than is bought, and the two denominations differ), the second
  bank leg cannot fail once the first succeeded: a swap is made of both legs or of none;
* `convertCached_fail` — a conversion that fails, after any number of inner effects, leaves the
  state it started from (the `CacheContext` wrapper).
-/
namespace CV
namespace Onboarding
open Coinswap (ensure ensure_ok lookupD swapEffs)

/-! ### bank legs -/

theorem apply1_xfer_err {b : Bank} {src dst : Addr} {d : Denom} {amt : Nat} {e : Rej}
    (h : b.apply1 (.xfer src dst d amt) = .error e) :
    (e = .insufficient ∧ b.get src d < amt) ∨ e = .overflow := by
  simp only [Bank.apply1] at h
  split at h
  · rename_i hlt
    injection h with h
    exact Or.inl ⟨h.symm, hlt⟩
  · split at h
    · cases h
    · injection h with h
      exact Or.inr h.symm

theorem applyAll_two {b b2 : Bank} {e1 e2 : Eff} :
    b.applyAll [e1, e2] = .ok b2 ↔ ∃ b1, b.apply1 e1 = .ok b1 ∧ b1.apply1 e2 = .ok b2 := by
  simp only [Bank.applyAll]
  constructor
  · intro h
    split at h
    · rename_i b1 h1
      split at h
      · rename_i b2' h2
        injection h with h; subst h
        exact ⟨b1, h1, h2⟩
      · cases h
    · cases h
  · rintro ⟨b1, h1, h2⟩
    rw [h1]; simp only; rw [h2]

theorem applyAll_one {b b1 : Bank} {e1 : Eff} : b.applyAll [e1] = .ok b1 ↔ b.apply1 e1 = .ok b1 := by
  simp only [Bank.applyAll]
  constructor
  · intro h
    split at h
    · rename_i b1' h1
      injection h with h; subst h; exact h1
    · cases h
  · intro h; rw [h]

/-- what `swapLegs` can return -/
inductive LegsFacts (b : Bank) (r esc : Addr) (v : Denom) (sold : Nat) (std : Denom) (out : Nat) (b' : Bank) : Bool → Prop
  | both (h : b.applyAll (swapEffs r r esc v sold std out) = .ok b') : LegsFacts b r esc v sold std out b' true
  | firstFailed (hb : b' = b) (hlt : b.get r v < sold) : LegsFacts b r esc v sold std out b' false
  | secondFailed (h1 : b.apply1 (.xfer r esc v sold) = .ok b') (hlt : b'.get esc std < out) :
      LegsFacts b r esc v sold std out b' false

theorem swapLegs_ok {b : Bank} {r esc : Addr} {v std : Denom} {sold out : Nat} {b' : Bank} {done : Bool}
    (h : swapLegs b r esc v sold std out = .ok (b', done)) : LegsFacts b r esc v sold std out b' done := by
  unfold swapLegs at h
  split at h
  · rename_i e he
    split at h
    · cases h
    · rename_i hp
      injection h with h; simp only [Prod.mk.injEq] at h
      obtain ⟨rfl, rfl⟩ := h
      rcases apply1_xfer_err he with ⟨_, hlt⟩ | rfl
      · exact .firstFailed rfl hlt
      · simp [isPanic] at hp
  · rename_i b1 h1
    split at h
    · rename_i e he
      split at h
      · cases h
      · rename_i hp
        injection h with h; simp only [Prod.mk.injEq] at h
        obtain ⟨rfl, rfl⟩ := h
        rcases apply1_xfer_err he with ⟨_, hlt⟩ | rfl
        · exact .secondFailed h1 hlt
        · simp [isPanic] at hp
    · rename_i b2 h2
      injection h with h; simp only [Prod.mk.injEq] at h
      obtain ⟨rfl, rfl⟩ := h
      exact .both (applyAll_two.mpr ⟨b1, h1, h2⟩)

/-- **No partial swap.**  If the pool holds more standard coin than is bought and the voucher is
not the standard coin (both established by the pricing step), a swap that did not complete moved
nothing. -/
theorem swapLegs_no_partial {b : Bank} {r esc : Addr} {v std : Denom} {sold out : Nat} {b' : Bank}
    (h : swapLegs b r esc v sold std out = .ok (b', false)) (hres : out < b.get esc std) (hd : v ≠ std) :
    b' = b ∧ b.get r v < sold := by
  have F := swapLegs_ok h
  cases F with
  | firstFailed hb hlt => exact ⟨hb, hlt⟩
  | secondFailed h1 hlt =>
    exfalso
    have f := (Bank.apply1_flow b b' _ h1 esc std).1
    have hd' : std ≠ v := fun e => hd e.symm
    simp only [Eff.inflow, Eff.outflow, hd', and_false, if_false] at f
    omega

/-! ### the automatic swap -/

/-- what a successful buy establishes, in the vocabulary of this file -/
theorem trade_buy_facts {env : Coinswap.Env} {s : Coinswap.State} {v std : Denom} {amt thr sold bought : Nat} {esc : Addr}
    (h : Coinswap.trade env s v amt std thr true = .ok (sold, bought, esc)) :
    bought = thr ∧ std ≠ v ∧ thr < s.bank.get esc std ∧ sold ≤ amt ∧ 0 < sold ∧
    (∃ p, s.poolByCounter (Coinswap.counterOf s.std std v) = some p ∧ env.reserve p.lpt = .ok esc) := by
  obtain ⟨p, hpf, hb, _, _, hlt, hprice, hle, _⟩ := Coinswap.trade_buy_ok h
  obtain ⟨hne, _, hfind, hres, _⟩ := Coinswap.poolFor_ok hpf
  obtain ⟨_, _, _, hs⟩ := Coinswap.outputPrice_ok hprice
  exact ⟨hb, hne, hlt, hle, by rw [hs]; exact Nat.succ_pos _, p, hfind, hres⟩

inductive AutoSwapFacts (env : Env) (s : State) (r : Addr) (v : Denom) (amt : Nat) (s1 : State) (swapped : Nat) : Prop
  /-- balance at or above the threshold: no purchase is attempted -/
  | above (h : ¬ s.cs.bank.get r s.cs.std < s.ob.threshold) (hs : s1 = s) (h0 : swapped = 0)
  /-- the purchase is refused by the coinswap keeper (no pool, reserve too small, more than the transferred amount
  needed, governance limit, not whitelisted, …) -/
  | refused (hlt : s.cs.bank.get r s.cs.std < s.ob.threshold) (e : Rej)
      (ht : Coinswap.trade env.cs s.cs v amt s.cs.std s.ob.threshold true = .error e) (hs : s1 = s) (h0 : swapped = 0)
  /-- priced, but the recipient does not hold the voucher to pay with -/
  | unpaid (hlt : s.cs.bank.get r s.cs.std < s.ob.threshold) (sold bought : Nat) (esc : Addr)
      (ht : Coinswap.trade env.cs s.cs v amt s.cs.std s.ob.threshold true = .ok (sold, bought, esc))
      (hpay : s.cs.bank.get r v < sold) (hs : s1 = s) (h0 : swapped = 0)
  /-- the swap: both legs -/
  | swap (hlt : s.cs.bank.get r s.cs.std < s.ob.threshold) (sold bought : Nat) (esc : Addr) (b : Bank)
      (ht : Coinswap.trade env.cs s.cs v amt s.cs.std s.ob.threshold true = .ok (sold, bought, esc))
      (hb : s.cs.bank.applyAll (swapEffs r r esc v sold s.cs.std s.ob.threshold) = .ok b)
      (hs : s1 = s.withBank b) (h0 : swapped = sold)

theorem autoSwap_ok {env : Env} {s : State} {r : Addr} {v : Denom} {amt : Nat} {s1 : State} {swapped : Nat}
    (h : autoSwap env s r v amt = .ok (s1, swapped)) : AutoSwapFacts env s r v amt s1 swapped := by
  unfold autoSwap at h
  obtain ⟨_, _, h⟩ := bind_ok h
  split at h
  · rename_i hlt
    split at h
    · rename_i e he
      split at h
      · cases h
      · injection h with h; simp only [Prod.mk.injEq] at h
        exact .refused hlt e he h.1.symm h.2.symm
    · rename_i sold bought esc ht
      obtain ⟨⟨b, done⟩, hl, h⟩ := bind_ok h
      simp only at h
      injection h with h; simp only [Prod.mk.injEq] at h
      obtain ⟨hs, h0⟩ := h
      obtain ⟨_, hne, hres, _, _, _⟩ := trade_buy_facts ht
      cases done with
      | true =>
        have F := swapLegs_ok hl
        cases F with
        | both hb => exact .swap hlt sold bought esc b ht hb hs.symm (by simpa using h0.symm)
      | false =>
        obtain ⟨hb, hpay⟩ := swapLegs_no_partial hl hres (fun e => hne e.symm)
        subst hb
        exact .unpaid hlt sold bought esc ht hpay (by rw [← hs]; rfl) (by simpa using h0.symm)
  · rename_i hge
    injection h with h; simp only [Prod.mk.injEq] at h
    exact .above hge h.1.symm h.2.symm

/-! ### the conversion -/

theorem convertInner_fail {env : Env} {s : State} {r : Addr} {v : Denom} {c : Addr} {a k : Nat} {s' : State} :
    convertInner env s r v c a (.fail k) ≠ .ok s' := by
  intro h
  match k with
  | 0 => simp [convertInner] at h
  | 1 =>
    simp only [convertInner] at h
    obtain ⟨_, _, h⟩ := bind_ok h
    cases h
  | k + 2 =>
    simp only [convertInner] at h
    obtain ⟨_, _, h⟩ := bind_ok h
    obtain ⟨_, _, h⟩ := bind_ok h
    cases h

inductive ConvFacts (env : Env) (s : State) (r : Addr) (v : Denom) (c : Addr) (a : Nat) (o : ConvOutcome)
    (s2 : State) (converted : Nat) : Bool → Prop
  /-- `ConvertCoin` returned an error: the branch is dropped -/
  | failed (hs : s2 = s) (h0 : converted = 0) : ConvFacts env s r v c a o s2 converted false
  /-- success: exactly `a` of the voucher moves to the module account, exactly `a` tokens are credited -/
  | done (ho : o = .ok) (b : Bank) (hb : s.cs.bank.applyAll [.xfer r env.erc20Mod v a] = .ok b)
      (hs : s2 = { s.withBank b with tok := s.tok.set (c, r) (s.tok.get (c, r) + a) }) (h0 : converted = a) :
      ConvFacts env s r v c a o s2 converted true
  /-- the pair's contract has no code: the pair is deleted, nothing moves -/
  | gone (ho : o = .gone) (hs : s2 = { s with pairs := s.pairs.filter (fun p => p.1 != v) }) (h0 : converted = 0) :
      ConvFacts env s r v c a o s2 converted true

theorem convertCached_ok {env : Env} {s : State} {r : Addr} {v : Denom} {c : Addr} {a : Nat} {o : ConvOutcome}
    {s2 : State} {converted : Nat} {succ : Bool}
    (h : convertCached env s r v c a o = .ok (s2, converted, succ)) : ConvFacts env s r v c a o s2 converted succ := by
  unfold convertCached at h
  split at h
  · rename_i s' hi
    injection h with h; simp only [Prod.mk.injEq] at h
    obtain ⟨rfl, rfl, rfl⟩ := h
    cases o with
    | ok =>
      simp only [convertInner] at hi
      obtain ⟨b, hb, hi⟩ := bind_ok hi
      injection hi with hi
      exact .done rfl b hb hi.symm (by simp)
    | gone =>
      simp only [convertInner] at hi
      injection hi with hi
      exact .gone rfl hi.symm (by simp)
    | fail k => exact absurd hi convertInner_fail
  · rename_i e he
    split at h
    · cases h
    · injection h with h; simp only [Prod.mk.injEq] at h
      obtain ⟨rfl, rfl, rfl⟩ := h
      exact .failed rfl rfl

/-- **No partial conversion.**  Whatever the conversion did on its branch — nothing, the escrow
leg, the escrow leg and a mint — when it ends in an error the state is the one before it. -/
theorem convertCached_fail {env : Env} {s : State} {r : Addr} {v : Denom} {c : Addr} {a k : Nat}
    {s2 : State} {converted : Nat} {succ : Bool}
    (h : convertCached env s r v c a (.fail k) = .ok (s2, converted, succ)) : s2 = s ∧ converted = 0 ∧ succ = false := by
  have F := convertCached_ok h
  cases F with
  | failed hs h0 => exact ⟨hs, h0, rfl⟩
  | done ho => cases ho
  | gone ho => cases ho

/-! ### the callback -/

/-- the conversion stage of the callback -/
inductive StageTwo (env : Env) (p : Packet) (r : Addr) (s1 : State) (swapped : Nat) (s' : State) (resp : Resp) : Prop
  | unregistered (hl : lookupD s1.pairs p.denom = none) (hs : s' = s1) (hr : resp = { pass with swapped := swapped })
  | switchedOff (pair : Pair) (hl : lookupD s1.pairs p.denom = some pair) (he : pair.enabled = false)
      (hs : s' = s1) (hr : resp = { pass with swapped := swapped })
  | called (pair : Pair) (hl : lookupD s1.pairs p.denom = some pair) (he : pair.enabled = true)
      (hle : swapped ≤ p.amount) (converted : Nat) (succ : Bool)
      (hc : ConvFacts env s1 r p.denom pair.contract (p.amount - swapped)
              (if p.amount - swapped = 0 then ConvOutcome.fail 0 else p.conv) s' converted succ)
      (hr : resp = { ack := .given, swapped := swapped, convCalled := true, convAmt := p.amount - swapped,
                     converted := converted, event := some (swapped, if succ then p.amount - swapped else 0) })

inductive OnRecvFacts (env : Env) (s : State) (p : Packet) (s' : State) (resp : Resp) : Prop
  | disabled (h : s.ob.enabled = false) (hs : s' = s) (hr : resp = pass)
  | channel (he : s.ob.enabled = true) (h : s.ob.channels.contains p.dstChannel = false) (hs : s' = s) (hr : resp = pass)
  | unparsable (he : s.ob.enabled = true) (hc : s.ob.channels.contains p.dstChannel = true) (e : Rej)
      (hp : (p.sender.parse >>= fun _ => p.receiver.parse) = .error e) (hs : s' = s) (hr : resp = { pass with ack := .error })
  | moduleAccount (he : s.ob.enabled = true) (hc : s.ob.channels.contains p.dstChannel = true) (r : Addr)
      (hp : (p.sender.parse >>= fun _ => p.receiver.parse) = .ok r) (hm : s.macc.contains r = true) (hs : s' = s) (hr : resp = pass)
  | acted (he : s.ob.enabled = true) (hc : s.ob.channels.contains p.dstChannel = true) (r : Addr)
      (hp : (p.sender.parse >>= fun _ => p.receiver.parse) = .ok r) (hm : s.macc.contains r = false)
      (s1 : State) (swapped : Nat) (hsw : AutoSwapFacts env s r p.denom p.amount s1 swapped)
      (h2 : StageTwo env p r s1 swapped s' resp)

theorem onRecv_ok {env : Env} {s : State} {p : Packet} {s' : State} {resp : Resp}
    (h : onRecv env s p = .ok (s', resp)) : OnRecvFacts env s p s' resp := by
  unfold onRecv at h
  split at h
  · rename_i hen
    injection h with h; simp only [Prod.mk.injEq] at h
    exact .disabled (by simpa using hen) h.1.symm h.2.symm
  · rename_i hen
    have hen' : s.ob.enabled = true := by simpa using hen
    split at h
    · rename_i hch
      injection h with h; simp only [Prod.mk.injEq] at h
      exact .channel hen' (by simpa using hch) h.1.symm h.2.symm
    · rename_i hch
      have hch' : s.ob.channels.contains p.dstChannel = true := by simpa using hch
      split at h
      · rename_i e hp
        injection h with h; simp only [Prod.mk.injEq] at h
        exact .unparsable hen' hch' e hp h.1.symm h.2.symm
      · rename_i r hp
        split at h
        · rename_i hm
          injection h with h; simp only [Prod.mk.injEq] at h
          exact .moduleAccount hen' hch' r hp hm h.1.symm h.2.symm
        · rename_i hm
          have hm' : s.macc.contains r = false := by simpa using hm
          obtain ⟨⟨s1, swapped⟩, hsw, h⟩ := bind_ok h
          simp only at h
          refine .acted hen' hch' r hp hm' s1 swapped (autoSwap_ok hsw) ?_
          split at h
          · rename_i hl
            injection h with h; simp only [Prod.mk.injEq] at h
            exact .unregistered hl h.1.symm h.2.symm
          · rename_i pair hl
            split at h
            · rename_i hoff
              injection h with h; simp only [Prod.mk.injEq] at h
              exact .switchedOff pair hl (by simpa using hoff) h.1.symm h.2.symm
            · rename_i hon
              obtain ⟨a, ha, h⟩ := bind_ok h
              obtain ⟨ea, hle⟩ := SdkInt.sub_ok ha
              subst ea
              obtain ⟨⟨s2, converted, succ⟩, hc, h⟩ := bind_ok h
              simp only at h
              injection h with h; simp only [Prod.mk.injEq] at h
              obtain ⟨rfl, rfl⟩ := h
              exact .called pair hl (by simpa using hon) hle converted succ (convertCached_ok hc) rfl

/-! ### one packet -/

inductive RecvFacts (env : Env) (s : State) (p : Packet) (s' : State) (resp : Resp) : Prop
  /-- the underlying application refused the packet -/
  | refused (hu : p.underOk = false) (hs : s' = s) (hr : resp = pass)
  /-- credited, called back, acknowledgement untouched: the effects are kept -/
  | kept (hu : p.underOk = true) (b : Bank) (hb : s.cs.bank.applyAll (creditEffs p) = .ok b)
      (hrec : OnRecvFacts env (credited s p b) p s' resp) (ha : resp.ack = .given)
  /-- the callback replaced the acknowledgement by an error: core drops the branch, credit included -/
  | dropped (hu : p.underOk = true) (b : Bank) (hb : s.cs.bank.applyAll (creditEffs p) = .ok b) (s'' : State)
      (hrec : OnRecvFacts env (credited s p b) p s'' resp) (ha : resp.ack ≠ .given) (hs : s' = s)

theorem recv_ok {env : Env} {s : State} {p : Packet} {s' : State} {resp : Resp}
    (h : recv env s p = .ok (s', resp)) : RecvFacts env s p s' resp := by
  unfold recv at h
  split at h
  · rename_i hu
    injection h with h; simp only [Prod.mk.injEq] at h
    exact .refused (by simpa using hu) h.1.symm h.2.symm
  · rename_i hu
    have hu' : p.underOk = true := by simpa using hu
    obtain ⟨b, hb, h⟩ := bind_ok h
    obtain ⟨⟨s'', resp'⟩, hrec, h⟩ := bind_ok h
    simp only at h
    split at h
    · rename_i hack
      injection h with h; simp only [Prod.mk.injEq] at h
      obtain ⟨rfl, rfl⟩ := h
      exact .kept hu' b hb (onRecv_ok hrec) hack
    · rename_i hack
      injection h with h; simp only [Prod.mk.injEq] at h
      obtain ⟨rfl, rfl⟩ := h
      exact .dropped hu' b hb s'' (onRecv_ok hrec) (fun e => hack e) rfl

end Onboarding
end CV
