import CantoVerif.Proofs.CsrMaps
/-!
# Inversion and frame lemmas of the event handlers, and the registry invariant (core Lean only).
-/
namespace CV
namespace Csr

theorem ok_bind {α β : Type} (a : α) (f : α → R β) : ((.ok a : R α) >>= f) = f a := rfl

/-! ## the registry invariant (C16) -/

/-- the two prefixes agree; every record sits under its own id with a duplicate-free contract list -/
structure RegInv (s : State) : Prop where
  sound : ∀ c n, s.nftOf c = some n → ∃ r, s.getCSR n = some r ∧ c ∈ r.contracts
  complete : ∀ n r, s.getCSR n = some r → ∀ c ∈ r.contracts, s.nftOf c = some n
  wf : ∀ n r, s.getCSR n = some r → r.id = n ∧ r.contracts.Nodup

/-- `SetCSR` keeps the invariant when the written record keeps the contracts its id already had, has no
duplicates, and every contract in it was free or already indexed to this id -/
theorem regInv_setCSR {s : State} {r : CSR} (h : RegInv s) (hnd : r.contracts.Nodup)
    (hold : ∀ r0, s.getCSR r.id = some r0 → ∀ c ∈ r0.contracts, c ∈ r.contracts)
    (hnew : ∀ c ∈ r.contracts, s.nftOf c = none ∨ s.nftOf c = some r.id) : RegInv (s.setCSR r) := by
  refine ⟨?_, ?_, ?_⟩
  · intro c n hc
    rw [nftOf_setCSR] at hc
    by_cases hm : c ∈ r.contracts
    · simp only [hm, if_true] at hc
      injection hc with hc; subst hc
      exact ⟨r, by rw [getCSR_setCSR]; simp, hm⟩
    · simp only [hm, if_false] at hc
      obtain ⟨r0, hr0, hc0⟩ := h.sound c n hc
      have hne : n ≠ r.id := by
        intro e; subst e
        exact hm (hold r0 hr0 c hc0)
      exact ⟨r0, by rw [getCSR_setCSR]; simp [hne, hr0], hc0⟩
  · intro n r' hr' c hc
    rw [getCSR_setCSR] at hr'
    rw [nftOf_setCSR]
    by_cases hn : n = r.id
    · simp only [hn, if_true] at hr'
      injection hr' with hr'; subst hr'
      simp [hc, hn]
    · simp only [hn, if_false] at hr'
      have hidx := h.complete n r' hr' c hc
      have hm : c ∉ r.contracts := by
        intro hm
        rcases hnew c hm with h0 | h0
        · rw [h0] at hidx; cases hidx
        · rw [h0] at hidx; injection hidx with hidx; exact hn hidx.symm
      simp [hm, hidx]
  · intro n r' hr'
    rw [getCSR_setCSR] at hr'
    by_cases hn : n = r.id
    · simp only [hn, if_true] at hr'
      injection hr' with hr'; subst hr'
      exact ⟨hn.symm, hnd⟩
    · simp only [hn, if_false] at hr'
      exact h.wf n r' hr'

/-- two NFTs never share a contract -/
theorem RegInv.at_most_one {s : State} (h : RegInv s) {n m : Nat} {r q : CSR} {c : Addr}
    (hr : s.getCSR n = some r) (hq : s.getCSR m = some q) (hcr : c ∈ r.contracts) (hcq : c ∈ q.contracts) : n = m := by
  have a := h.complete n r hr c hcr
  have b := h.complete m q hq c hcq
  rw [a] at b; injection b

/-! ## inversion of the handlers -/

theorem validateContract_ok {s : State} {c : Addr} {hasCode : Bool} {u : Unit}
    (h : validateContract s c hasCode = .ok u) : s.nftOf c = none ∧ hasCode = true := by
  unfold validateContract at h
  obtain ⟨_, h1, h⟩ := bind_ok h
  have h1 := ensure_ok h1
  have h2 := ensure_ok h
  refine ⟨?_, h2⟩
  cases hn : s.nftOf c with
  | none => rfl
  | some n => rw [hn] at h1; simp at h1

/-- a successful `RegisterEvent`: a well-formed payload naming a code-bearing, so far unindexed contract
and a free NFT id; the record written is the fresh one -/
theorem registerEvent_ok {env : Env} {s s' : State} {p : Payload} (h0 : registerEvent env s p = .ok s') :
    ∃ c tid, p = .reg c true tid ∧ s.nftOf c = none ∧ s.getCSR (tid % U64) = none ∧
      s' = s.setCSR { id := tid % U64, contracts := [c], txs := 0, revenue := 0 } := by
  unfold registerEvent at h0
  split at h0
  · rename_i c hasCode tid
    obtain ⟨_, h1, h2⟩ := bind_ok h0
    obtain ⟨hfree, hcode⟩ := validateContract_ok h1
    dsimp only at h2
    obtain ⟨_, h3, h4⟩ := bind_ok h2
    have h3 := ensure_ok h3
    obtain ⟨_, _, h5⟩ := bind_ok h4
    injection h5 with h5
    refine ⟨c, tid, by rw [hcode], hfree, ?_, h5.symm⟩
    cases hn : s.getCSR (tid % U64) with
    | none => rfl
    | some r => rw [hn] at h3; simp at h3
  · cases h0

/-- a successful `UpdateEvent`: a well-formed payload naming a code-bearing, so far unindexed contract and an
existing NFT id; the record written is the old one with the contract appended -/
theorem updateEvent_ok {env : Env} {s s' : State} {p : Payload} (h0 : updateEvent env s p = .ok s') :
    ∃ c tid r, p = .upd c true tid ∧ s.nftOf c = none ∧ s.getCSR (tid % U64) = some r ∧
      s' = s.setCSR { r with contracts := r.contracts ++ [c] } := by
  unfold updateEvent at h0
  split at h0
  · rename_i c hasCode tid
    obtain ⟨_, h1, h2⟩ := bind_ok h0
    obtain ⟨hfree, hcode⟩ := validateContract_ok h1
    split at h2
    · cases h2
    · rename_i r hr
      dsimp only at h2
      obtain ⟨_, _, h3⟩ := bind_ok h2
      injection h3 with h3
      exact ⟨c, tid, r, by rw [hcode], hfree, hr, h3.symm⟩
  · cases h0

/-- what one iteration of the event loop can do -/
inductive LogStep (env : Env) (ts : Addr) (s : State) (l : Log) : State × Bool → Prop where
  | skip (k : Bool) : LogStep env ts s l (s, k)
  | register (c : Addr) (tid : Nat) (hem : l.emitter = ts) (htop : l.topic = .register)
      (hpay : l.payload = .reg c true tid) (hfree : s.nftOf c = none) (hid : s.getCSR (tid % U64) = none) :
      LogStep env ts s l (s.setCSR { id := tid % U64, contracts := [c], txs := 0, revenue := 0 }, true)
  | assign (c : Addr) (tid : Nat) (r : CSR) (hem : l.emitter = ts) (htop : l.topic = .assign)
      (hpay : l.payload = .upd c true tid) (hfree : s.nftOf c = none) (hid : s.getCSR (tid % U64) = some r) :
      LogStep env ts s l (s.setCSR { r with contracts := r.contracts ++ [c] }, true)

theorem handleLog_cases (env : Env) (ts : Addr) (s : State) (l : Log) : LogStep env ts s l (handleLog env ts s l) := by
  unfold handleLog
  split
  · exact .skip _
  · split
    · exact .skip _
    · rename_i hem
      have hem : l.emitter = ts := Classical.not_not.mp hem
      split
      · exact .skip _
      · rename_i htop
        split
        · rename_i s' hs'
          obtain ⟨c, tid, hp, hf, hi, rfl⟩ := registerEvent_ok hs'
          exact .register c tid hem htop hp hf hi
        · exact .skip _
      · rename_i htop
        split
        · rename_i s' hs'
          obtain ⟨c, tid, r, hp, hf, hi, rfl⟩ := updateEvent_ok hs'
          exact .assign c tid r hem htop hp hf hi
        · exact .skip _
      · exact .skip _

/-! ## lifting one-iteration facts to the whole loop -/

theorem processEvents_induct {P : State → Prop} (env : Env) (ts : Addr)
    (hstep : ∀ s l, P s → P (handleLog env ts s l).1) : ∀ (logs : List Log) (s : State), P s → P (processEvents env ts s logs) := by
  intro logs
  induction logs with
  | nil => intro s h; exact h
  | cons l ls ih =>
    intro s h
    have h1 := hstep s l h
    unfold processEvents
    split
    · rename_i s' heq; rw [heq] at h1; exact ih s' h1
    · rename_i s' heq; rw [heq] at h1; exact h1

/-- the event handlers write nothing but the two registry prefixes -/
structure SameRest (s s' : State) : Prop where
  bank : s'.bank = s.bank
  params : s'.params = s.params
  turnstile : s'.turnstile = s.turnstile
  modFirst : s'.modFirst = s.modFirst
  tsBal : s'.tsBal = s.tsBal

theorem SameRest.refl (s : State) : SameRest s s := ⟨rfl, rfl, rfl, rfl, rfl⟩
theorem SameRest.setCSR (s : State) (r : CSR) : SameRest s (s.setCSR r) := ⟨rfl, rfl, rfl, rfl, rfl⟩
theorem SameRest.trans {a b c : State} (h1 : SameRest a b) (h2 : SameRest b c) : SameRest a c :=
  ⟨h2.bank.trans h1.bank, h2.params.trans h1.params, h2.turnstile.trans h1.turnstile, h2.modFirst.trans h1.modFirst,
   h2.tsBal.trans h1.tsBal⟩

theorem handleLog_sameRest (env : Env) (ts : Addr) (s : State) (l : Log) : SameRest s (handleLog env ts s l).1 := by
  have hc := handleLog_cases env ts s l
  generalize handleLog env ts s l = res at hc ⊢
  cases hc with
  | skip k => exact SameRest.refl s
  | register => exact SameRest.setCSR s _
  | assign => exact SameRest.setCSR s _

theorem processEvents_sameRest (env : Env) (ts : Addr) (s : State) (logs : List Log) :
    SameRest s (processEvents env ts s logs) :=
  processEvents_induct (P := fun s' => SameRest s s') env ts
    (fun s1 l h => h.trans (handleLog_sameRest env ts s1 l)) logs s (SameRest.refl s)

/-- one iteration keeps the registry invariant -/
theorem handleLog_regInv (env : Env) (ts : Addr) (s : State) (l : Log) (h : RegInv s) : RegInv (handleLog env ts s l).1 := by
  have hc := handleLog_cases env ts s l
  generalize handleLog env ts s l = res at hc ⊢
  cases hc with
  | skip k => exact h
  | register c tid hem htop hpay hfree hid =>
    apply regInv_setCSR h
    · simp
    · intro r0 hr0; dsimp only at hr0; rw [hid] at hr0; cases hr0
    · intro c' hc'; simp only [List.mem_singleton] at hc'; subst hc'; exact Or.inl hfree
  | assign c tid r hem htop hpay hfree hid =>
    obtain ⟨hrid, hnd⟩ := h.wf _ r hid
    have hcnot : c ∉ r.contracts := by
      intro hc
      have := h.complete _ r hid c hc
      rw [hfree] at this; cases this
    apply regInv_setCSR h
    · show (r.contracts ++ [c]).Nodup
      rw [List.nodup_append]
      refine ⟨hnd, by simp, ?_⟩
      intro a ha b hb
      simp only [List.mem_singleton] at hb; subst hb
      intro e; subst e; exact hcnot ha
    · intro r0 hr0 c' hc'
      dsimp only at hr0
      rw [hrid, hid] at hr0; injection hr0 with hr0; subst hr0
      show c' ∈ r.contracts ++ [c]
      exact List.mem_append_left _ hc'
    · intro c' hc'
      have hc' : c' ∈ r.contracts ++ [c] := hc'
      rw [List.mem_append] at hc'
      rcases hc' with hc' | hc'
      · right
        show s.nftOf c' = some r.id
        rw [hrid]; exact h.complete _ r hid c' hc'
      · simp only [List.mem_singleton] at hc'; subst hc'; exact Or.inl hfree

theorem processEvents_regInv (env : Env) (ts : Addr) (s : State) (logs : List Log) (h : RegInv s) :
    RegInv (processEvents env ts s logs) :=
  processEvents_induct (P := RegInv) env ts (fun s1 l h1 => handleLog_regInv env ts s1 l h1) logs s h

end Csr
end CV
