import CantoVerif.Proofs.GenesisInv
import CantoVerif.Model.Replica
/-!
# Lemmas for C06: a store section depends only on the *set* of records written, not on the order of the writes
(`build_perm`), and the database image of the Canto state reads back (`load_save`).
-/
namespace CV
namespace Genesis

/-- members of a sorted section after one `Set` -/
theorem mem_insBy_iff {α : Type} (key : α → Bytes) (v x : α) :
    ∀ (l : List α), SortedBy key l → (x ∈ insBy key v l ↔ x = v ∨ (x ∈ l ∧ key x ≠ key v))
  | [], _ => by simp [insBy]
  | w :: rest, h => by
    have hw := List.pairwise_cons.mp h
    simp only [insBy]
    split
    · rename_i hvw
      simp only [List.mem_cons]
      constructor
      · rintro (h1 | h1 | h1)
        · exact Or.inl h1
        · subst h1; exact Or.inr ⟨Or.inl rfl, (bytesLt_ne hvw).symm⟩
        · exact Or.inr ⟨Or.inr h1, (bytesLt_ne (bytesLt_trans hvw (hw.1 x h1))).symm⟩
      · rintro (h1 | ⟨h1, _⟩)
        · exact Or.inl h1
        · exact Or.inr h1
    · split
      · rename_i _ hwv
        simp only [List.mem_cons, mem_insBy_iff key v x rest hw.2]
        constructor
        · rintro (h1 | h1 | ⟨h1, h2⟩)
          · subst h1; exact Or.inr ⟨Or.inl rfl, bytesLt_ne hwv⟩
          · exact Or.inl h1
          · exact Or.inr ⟨Or.inr h1, h2⟩
        · rintro (h1 | ⟨h1 | h1, h2⟩)
          · exact Or.inr (Or.inl h1)
          · exact Or.inl h1
          · exact Or.inr (Or.inr ⟨h1, h2⟩)
      · rename_i h1 h2
        have heq : key v = key w := bytesLt_connex (by simpa using h1) (by simpa using h2)
        simp only [List.mem_cons]
        constructor
        · rintro (h3 | h3)
          · exact Or.inl h3
          · refine Or.inr ⟨Or.inr h3, ?_⟩
            rw [heq]; exact (bytesLt_ne (hw.1 x h3)).symm
        · rintro (h3 | ⟨h3 | h3, h4⟩)
          · exact Or.inl h3
          · subst h3; exact absurd heq.symm h4
          · exact Or.inr h3

/-- no two distinct records of the list share a store key -/
def KeysInj {α : Type} (key : α → Bytes) (l : List α) : Prop := ∀ x ∈ l, ∀ y ∈ l, key x = key y → x = y

theorem mem_foldl_insBy_iff {α : Type} (key : α → Bytes) (x : α) :
    ∀ (l acc : List α), SortedBy key acc → KeysInj key (acc ++ l) →
      (x ∈ l.foldl (fun a v => insBy key v a) acc ↔ x ∈ acc ∨ x ∈ l)
  | [], acc, _, _ => by simp
  | v :: l, acc, hs, hk => by
    simp only [List.foldl_cons]
    have hk' : KeysInj key (insBy key v acc ++ l) := by
      intro a ha b hb hab
      have conv : ∀ z, z ∈ insBy key v acc ++ l → z ∈ acc ++ v :: l := by
        intro z hz
        rcases List.mem_append.mp hz with hz | hz
        · rcases mem_insBy key v acc z hz with hz | hz
          · simp [hz]
          · simp [hz]
        · simp [hz]
      exact hk a (conv a ha) b (conv b hb) hab
    rw [mem_foldl_insBy_iff key x l _ (insBy_sorted key v acc hs) hk', mem_insBy_iff key v x acc hs]
    simp only [List.mem_cons]
    constructor
    · rintro ((h1 | ⟨h1, _⟩) | h1)
      · exact Or.inr (Or.inl h1)
      · exact Or.inl h1
      · exact Or.inr (Or.inr h1)
    · rintro (h1 | h1 | h1)
      · by_cases hkv : key x = key v
        · have := hk x (by simp [h1]) v (by simp) hkv
          exact Or.inl (Or.inl this)
        · exact Or.inl (Or.inr ⟨h1, hkv⟩)
      · exact Or.inl (Or.inl h1)
      · exact Or.inr h1

theorem mem_build_iff {α : Type} (key : α → Bytes) (l : List α) (hk : KeysInj key l) (x : α) : x ∈ build key l ↔ x ∈ l := by
  unfold build
  rw [mem_foldl_insBy_iff key x l [] SortedBy.nil (by simpa using hk)]
  simp

/-- two sorted sections with the same records are the same list -/
theorem sorted_ext {α : Type} (key : α → Bytes) : ∀ (l₁ l₂ : List α), SortedBy key l₁ → SortedBy key l₂ →
    (∀ x, x ∈ l₁ ↔ x ∈ l₂) → l₁ = l₂
  | [], [], _, _, _ => rfl
  | [], b :: _, _, _, h => by have := (h b).mpr (List.mem_cons_self ..); cases this
  | a :: _, [], _, _, h => by have := (h a).mp (List.mem_cons_self ..); cases this
  | a :: t₁, b :: t₂, h₁, h₂, h => by
    have c₁ := List.pairwise_cons.mp h₁
    have c₂ := List.pairwise_cons.mp h₂
    have hab : a = b := by
      have ha := (h a).mp (List.mem_cons_self ..)
      have hb := (h b).mpr (List.mem_cons_self ..)
      rcases List.mem_cons.mp ha with ha | ha
      · exact ha
      · rcases List.mem_cons.mp hb with hb | hb
        · exact hb.symm
        · have x1 := c₂.1 a ha
          have x2 := c₁.1 b hb
          rw [bytesLt_asymm x1] at x2; cases x2
    subst hab
    have ht : ∀ x, x ∈ t₁ ↔ x ∈ t₂ := by
      intro x
      constructor
      · intro hx
        rcases List.mem_cons.mp ((h x).mp (List.mem_cons_of_mem _ hx)) with e | e
        · subst e; have := c₁.1 x hx; rw [bytesLt_irrefl] at this; cases this
        · exact e
      · intro hx
        rcases List.mem_cons.mp ((h x).mpr (List.mem_cons_of_mem _ hx)) with e | e
        · subst e; have := c₂.1 x hx; rw [bytesLt_irrefl] at this; cases this
        · exact e
    rw [sorted_ext key t₁ t₂ c₁.2 c₂.2 ht]

/-- **A store section is a function of the set of records written, not of the order of the writes**: writing the same
records (with pairwise distinct keys) in any other order — e.g. the order a Go `range` over a map happens to produce —
yields the same section, hence the same export. -/
theorem build_perm {α : Type} (key : α → Bytes) {l₁ l₂ : List α} (p : l₁.Perm l₂) (hk : KeysInj key l₁) :
    build key l₁ = build key l₂ := by
  have hk₂ : KeysInj key l₂ := fun x hx y hy e => hk x (p.mem_iff.mpr hx) y (p.mem_iff.mpr hy) e
  apply sorted_ext key _ _ (build_sorted key l₁) (build_sorted key l₂)
  intro x
  rw [mem_build_iff key l₁ hk, mem_build_iff key l₂ hk₂]
  exact p.mem_iff

end Genesis

namespace Replica
open CV.Genesis

theorem mapM_map_some {α β : Type} (g : α → β) (f : β → Option α) (h : ∀ x, f (g x) = some x) :
    ∀ l : List α, (l.map g).mapM f = some l
  | [] => rfl
  | x :: l => by
    simp only [List.map_cons, List.mapM_cons, h x, mapM_map_some g f h l]
    rfl

theorem map_dec_enc_coin (l : List Coin) : (l.map encCoin).map decCoin = l := by
  induction l with
  | nil => rfl
  | cons c l ih => simp only [List.map_cons, ih]; cases c; rfl

/-- **Restart reads back exactly what was saved**: every component of the model state is in the database image. -/
theorem load_save (env : Env) (s : State) : load (save env s) = some s := by
  obtain ⟨⟨⟨fee, tax, ⟨fd, fa⟩, mx, ms⟩, std, seq, pools, lptIdx⟩, ⟨e1, e2, pairs, aix, dix⟩, ⟨cen, csh, csrs, cidx, ts⟩, ⟨port⟩,
    ⟨oen, othr, och⟩, ⟨epochs⟩, ⟨⟨md, a, r, c, bt, mv, sr, cp, ien⟩, period, eid, epp, skipped, prov⟩⟩ := s
  have h1 : (pools.map (fun p => (poolKey p, encPool p))).mapM (fun (e : Bytes × Val) => decPool e.2) = some pools :=
    mapM_map_some _ _ (fun p => by cases p; rfl) pools
  have h2 : (lptIdx.map (fun e => (lptKey e, Val.strs [e.1, e.2]))).mapM (fun (e : Bytes × Val) => decSS e.2) = some lptIdx :=
    mapM_map_some _ _ (fun p => by cases p; rfl) lptIdx
  have h3 : (pairs.map (fun p => (1 :: pairKey env p, encPair p))).mapM (fun (e : Bytes × Val) => decPair e.2) = some pairs :=
    mapM_map_some _ _ (fun p => by cases p; rfl) pairs
  have h4 : (aix.map (fun e => (2 :: aixKey e, Val.rec_ [.bytes e.1, .bytes e.2]))).mapM (fun (e : Bytes × Val) => decBB e.2) = some aix :=
    mapM_map_some _ _ (fun p => by cases p; rfl) aix
  have h5 : (dix.map (fun e => (3 :: dixKey e, Val.rec_ [.str e.1, .bytes e.2]))).mapM (fun (e : Bytes × Val) => decSB e.2) = some dix :=
    mapM_map_some _ _ (fun p => by cases p; rfl) dix
  have h6 : (csrs.map (fun c => (1 :: csrKey c, encCsr c))).mapM (fun (e : Bytes × Val) => decCsr e.2) = some csrs :=
    mapM_map_some _ _ (fun p => by cases p; rfl) csrs
  have h7 : (cidx.map (fun e => (2 :: cidxKey e, Val.rec_ [.str e.1, .nat e.2]))).mapM (fun (e : Bytes × Val) => decSN e.2) = some cidx :=
    mapM_map_some _ _ (fun p => by cases p; rfl) cidx
  have h8 : (epochs.map (fun e => (1 :: epochKey e, encEpoch e))).mapM (fun (e : Bytes × Val) => decEpoch e.2) = some epochs :=
    mapM_map_some _ _ (fun p => by cases p; rfl) epochs
  have h9 : decOptBytes (ts.map Val.bytes) = some ts := by cases ts <;> rfl
  have h10 : decOptBytes (port.map Val.bytes) = some port := by cases port <;> rfl
  simp only [load, save, h1, h2, h3, h4, h5, h6, h7, h8, h9, h10, Option.bind_some, map_dec_enc_coin]

/-- the keys of the database image are exactly the raw store keys `Genesis.keysOf` predicts — which the driver of the
`genesis` suite compares with a KV dump of the real module stores at every checkpoint -/
theorem save_keys (env : Env) (s : State) : (save env s).keys = keysOf env s := by
  cases hts : s.csr.turnstile <;> cases hp : s.gs.port <;>
    simp [Disk.keys, save, keysOf, List.map_map, Function.comp_def, hts, hp]

end Replica
end CV
