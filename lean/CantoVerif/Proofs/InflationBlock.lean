import CantoVerif.Proofs.EpochsClock
import CantoVerif.Proofs.InflationHook
/-!
# One block of the composed system: which listener call matters.

In a given configuration the inflation listener reacts to end-of-epoch notifications of exactly one
identifier, `effId`: the configured identifier while inflation is enabled, `"day"` while it is
disabled.  Store keys are unique, so at most one record carries that identifier, and a record ticks
at most once per block: a block runs the listener's effective branch **at most once**
(`block_cases`).
-/
namespace CV
namespace Inflation
open Epochs

/-- the identifier whose end-of-epoch the listener reacts to -/
def effId (s : Infl) : String := if s.params.enable then s.epochId else dayId

theorem afterEpochEnd_irrelevant (env : Env) (s : Infl) (id : String) (n : Int) (h : id ≠ effId s) :
    afterEpochEnd env s id n = .ok s := by
  unfold afterEpochEnd
  unfold effId at h
  cases hen : s.params.enable with
  | false =>
    rw [hen] at h
    have : (id != dayId) = true := by simpa using h
    simp [this]
  | true =>
    rw [hen] at h
    have : (id != s.epochId) = true := by simpa using h
    simp [this]

theorem afterEpochEnd_effId {env : Env} (hE : EnvOK env) {s s' : Infl} {id : String} {n : Int}
    (h : afterEpochEnd env s id n = .ok s') : effId s' = effId s ∧ s'.params = s.params ∧ s'.epochId = s.epochId ∧ s'.epp = s.epp := by
  rcases afterEpochEnd_cases hE h with ⟨_, _, rfl⟩ | ⟨_, _, rfl⟩ | ⟨_, _, rfl⟩ | ⟨_, _, M⟩
  · exact ⟨rfl, rfl, rfl, rfl⟩
  · exact ⟨rfl, rfl, rfl, rfl⟩
  · exact ⟨rfl, rfl, rfl, rfl⟩
  · exact ⟨by unfold effId; rw [M.params, M.epochId], M.params, M.epochId, M.epp⟩

/-- notifications of records with other identifiers do nothing -/
theorem runCalls_irrelevant (env : Env) (now : Int) : ∀ (infos : List EpochInfo) (st : Infl),
    (∀ e ∈ infos, e.id ≠ effId st) → runCalls (hooks env) (infos.flatMap (calls now)) st = .ok st := by
  intro infos
  induction infos with
  | nil => intro st _; rfl
  | cons x xs ih =>
    intro st hall
    have hx := hall x (List.mem_cons_self ..)
    simp only [List.flatMap_cons]
    rw [runCalls_append]
    have h1 : runCalls (hooks env) (calls now x) st = .ok st := by
      unfold calls
      cases action x now with
      | idle => rfl
      | start => rfl
      | tick =>
        simp only [runCalls, hooks]
        rw [afterEpochEnd_irrelevant env st x.id _ hx]
        rfl
    rw [h1]
    exact ih st (fun e he => hall e (List.mem_cons_of_mem _ he))

/-- **At most one effective listener call per block.** -/
theorem runCalls_cases {env : Env} (hE : EnvOK env) (now : Int) : ∀ (infos : List EpochInfo) (st st' : Infl),
    (infos.map (·.id)).Nodup → runCalls (hooks env) (infos.flatMap (calls now)) st = .ok st' →
    (match infos.find? (fun e => e.id == effId st) with
     | some e => if action e now = .tick then afterEpochEnd env st (effId st) (e.cur + 1) = .ok st' else st' = st
     | none => st' = st) := by
  intro infos
  induction infos with
  | nil =>
    intro st st' _ h
    simp only [List.flatMap_nil, runCalls] at h
    injection h with h
    simp [h]
  | cons x xs ih =>
    intro st st' hnd h
    simp only [List.map_cons, List.nodup_cons] at hnd
    simp only [List.flatMap_cons] at h
    rw [runCalls_append] at h
    obtain ⟨st1, h1, h2⟩ := bind_ok h
    by_cases hx : x.id = effId st
    · have hfind : (x :: xs).find? (fun e => e.id == effId st) = some x := by simp [List.find?, hx]
      rw [hfind]
      have hrest : ∀ e ∈ xs, e.id ≠ effId st := by
        intro e he heq
        exact hnd.1 (by rw [hx, ← heq]; exact List.mem_map_of_mem he)
      simp only
      unfold calls at h1
      cases hact : action x now with
      | tick =>
        rw [hact] at h1
        simp only [runCalls, hooks] at h1
        obtain ⟨sa, ha, h1⟩ := bind_ok h1
        obtain ⟨sb, hb, h1⟩ := bind_ok h1
        injection h1 with h1
        simp only [beforeEpochStart] at hb
        injection hb with hb
        subst hb h1
        have heff := (afterEpochEnd_effId hE ha).1
        rw [runCalls_irrelevant env now xs sa (by rw [heff]; exact hrest)] at h2
        injection h2 with h2
        subst h2
        simp only [if_true]
        rw [← hx]; exact ha
      | start =>
        rw [hact] at h1
        simp only [runCalls, hooks, beforeEpochStart] at h1
        have : st1 = st := by
          obtain ⟨sb, hb, h1⟩ := bind_ok h1
          injection hb with hb; injection h1 with h1; rw [← h1, ← hb]
        subst this
        rw [runCalls_irrelevant env now xs st1 hrest] at h2
        injection h2 with h2
        simp [h2]
      | idle =>
        rw [hact] at h1
        simp only [runCalls] at h1
        injection h1 with h1
        subst h1
        rw [runCalls_irrelevant env now xs st hrest] at h2
        injection h2 with h2
        simp [h2]
    · have hfind : (x :: xs).find? (fun e => e.id == effId st) = xs.find? (fun e => e.id == effId st) := by
        have hb : (x.id == effId st) = false := by simpa using hx
        simp [List.find?, hb]
      rw [hfind]
      have : runCalls (hooks env) ([x].flatMap (calls now)) st = .ok st :=
        runCalls_irrelevant env now [x] st (by intro e he; simp at he; subst he; exact hx)
      simp only [List.flatMap_cons, List.flatMap_nil, List.append_nil] at this
      rw [this] at h1
      injection h1 with h1
      subst h1
      exact ih st st' hnd.2 h2

/-- everything a successful block establishes -/
theorem block_cases {env : Env} (hE : EnvOK env) {s s' : State} {now h : Int} {r : Resp}
    (hnd : (s.infos.map (·.id)).Nodup) (hstep : step env s (.block now h) = .ok (s', r)) :
    s'.infos = s.infos.map (advance now h) ∧ r = .block (s.infos.flatMap (calls now)) ∧
    s'.hist = s.hist ++ s.infos.flatMap (calls now) ∧ s'.lastNow = now ∧
    (match s.infos.find? (fun e => e.id == effId s.infl) with
     | some e => if action e now = .tick then afterEpochEnd env s.infl (effId s.infl) (e.cur + 1) = .ok s'.infl else s'.infl = s.infl
     | none => s'.infl = s.infl) := by
  simp only [step] at hstep
  obtain ⟨res, hb, hstep⟩ := bind_ok hstep
  injection hstep with hstep
  simp only [Prod.mk.injEq] at hstep
  obtain ⟨rfl, rfl⟩ := hstep
  obtain ⟨infos', infl', log⟩ := res
  obtain ⟨rfl, rfl, hr⟩ := beginBlock_ok _ _ _ _ _ _ _ _ hb
  exact ⟨rfl, rfl, rfl, rfl, runCalls_cases hE now s.infos s.infl infl' hnd hr⟩

theorem nodup_ids_unique : ∀ (l : List EpochInfo), (l.map (·.id)).Nodup → ∀ (a b : EpochInfo), a ∈ l → b ∈ l → a.id = b.id → a = b := by
  intro l
  induction l with
  | nil => intro _ a b ha; cases ha
  | cons x xs ih =>
    intro hnd a b ha hb hab
    simp only [List.map_cons, List.nodup_cons] at hnd
    rcases List.mem_cons.mp ha with rfl | ha' <;> rcases List.mem_cons.mp hb with rfl | hb'
    · rfl
    · exact absurd (by rw [hab]; exact List.mem_map_of_mem hb') hnd.1
    · exact absurd (by rw [← hab]; exact List.mem_map_of_mem ha') hnd.1
    · exact ih hnd.2 a b ha' hb' hab

theorem find_id_some {l : List EpochInfo} {id : String} {e : EpochInfo} (h : l.find? (fun x => x.id == id) = some e) :
    e ∈ l ∧ e.id = id := by
  have h1 := List.mem_of_find?_eq_some h
  have h2 := List.find?_some h
  exact ⟨h1, by simpa using h2⟩

theorem find_id_none {l : List EpochInfo} {id : String} (h : l.find? (fun x => x.id == id) = none) :
    ∀ e ∈ l, e.id ≠ id := by
  intro e he heq
  have := List.find?_eq_none.1 h e he
  simp [heq] at this

end Inflation
end CV
