import Mathlib.Tactic.Linarith
import Mathlib.Tactic.Ring
import Mathlib.Tactic.Positivity
/-!
# Integer arithmetic of the constant-product pool, on the exact formulas of the code.
`S = 10^18`, `df = S − fee·S`.  No bound on any quantity.
-/
namespace CV.Arith

/-- `GetInputPrice`: bought = ⌊in·df·Y / (X·S + in·df)⌋ -/
def inputPrice (dx X Y df S : Nat) : Nat := (dx * df * Y) / (X * S + dx * df)

/-- `GetOutputPrice`: sold = ⌊X·out·S / ((Y−out)·df)⌋ + 1 -/
def outputPrice (out X Y df S : Nat) : Nat := (X * out * S) / ((Y - out) * df) + 1

theorem inputPrice_le (dx X Y df S : Nat) (hX : 0 < X) (hS : 0 < S) : inputPrice dx X Y df S ≤ Y := by
  unfold inputPrice
  have hD : 0 < X * S + dx * df := by positivity
  apply Nat.div_le_of_le_mul
  nlinarith [Nat.zero_le (X * S * Y)]

theorem sell_k (dx X Y df S : Nat) (hX : 0 < X) (hS : 0 < S) (hdf : df ≤ S) :
    X * Y ≤ (X + dx) * (Y - inputPrice dx X Y df S) := by
  have hqY := inputPrice_le dx X Y df S hX hS
  unfold inputPrice at *
  set D := X * S + dx * df with hD
  have hDpos : 0 < D := by positivity
  set q := dx * df * Y / D with hq
  have h1 : q * D ≤ dx * df * Y := Nat.div_mul_le_self _ _
  zify [hqY]
  have h1' : (q:ℤ) * D ≤ dx * df * Y := by exact_mod_cast h1
  have hD' : (D:ℤ) = X * S + dx * df := by exact_mod_cast hD
  have hdf' : (df:ℤ) ≤ S := by exact_mod_cast hdf
  have hq0 : (0:ℤ) ≤ q := by positivity
  have hX' : (0:ℤ) < X := by exact_mod_cast hX
  have hS' : (0:ℤ) < S := by exact_mod_cast hS
  have hdx : (0:ℤ) ≤ dx := by positivity
  have hY : (0:ℤ) ≤ Y := by positivity
  have hdf0 : (0:ℤ) ≤ df := by positivity
  by_contra hcon
  push Not at hcon
  have hc : (dx:ℤ) * Y < q * X + q * dx := by nlinarith
  have : (q:ℤ) * X * df ≤ q * X * S := by
    have : (0:ℤ) ≤ q * X := by positivity
    nlinarith
  by_cases hdfz : (df:ℤ) = 0
  · have : q = 0 := by
      have : dx * df * Y = 0 := by
        have : df = 0 := by exact_mod_cast hdfz
        simp [this]
      rw [hq, this]; simp
    rw [this] at hc; simp at hc; nlinarith
  · have hdfpos : (0:ℤ) < df := lt_of_le_of_ne hdf0 (Ne.symm hdfz)
    nlinarith [mul_lt_mul_of_pos_right hc hdfpos]

theorem buy_k (out X Y df S : Nat) (hout : out < Y) (hdf0 : 0 < df) (hdf : df ≤ S) :
    X * Y ≤ (X + outputPrice out X Y df S) * (Y - out) := by
  unfold outputPrice
  obtain ⟨r, rfl⟩ : ∃ r, Y = out + r := ⟨Y - out, by omega⟩
  have hr : 0 < r := by omega
  simp only [Nat.add_sub_cancel_left]
  set D := r * df with hD
  have hDpos : 0 < D := by positivity
  set q := X * out * S / D with hq
  have h1 : X * out * S < (q + 1) * D := by
    have h := Nat.div_add_mod (X * out * S) D
    have hm := Nat.mod_lt (X * out * S) hDpos
    rw [← hq] at h
    nlinarith
  have key : X * out ≤ (q + 1) * r := by
    by_contra hc
    push Not at hc
    have : (q + 1) * r * df < X * out * df := by
      have := Nat.mul_lt_mul_of_pos_right hc hdf0
      linarith
    have h2 : X * out * df ≤ X * out * S := Nat.mul_le_mul_left _ hdf
    have h3 : (q + 1) * D = (q + 1) * r * df := by rw [hD]; ring
    linarith
  nlinarith

/-- remove: paid = ⌊w·X/L⌋; new state (X − ⌊wX/L⌋, Y − ⌊wY/L⌋, L − w) -/
theorem remove_k (w X Y L : Nat) (hw : w ≤ L) :
    X * Y * (L - w) ^ 2 ≤ (X - w * X / L) * (Y - w * Y / L) * L ^ 2 := by
  obtain ⟨r, rfl⟩ : ∃ r, L = w + r := ⟨L - w, by omega⟩
  simp only [Nat.add_sub_cancel_left]
  by_cases hL : w + r = 0
  · have : r = 0 := by omega
    simp [this]
  have hLpos : 0 < w + r := Nat.pos_of_ne_zero hL
  set a := w * X / (w + r) with ha
  set b := w * Y / (w + r) with hb
  have h1 : a * (w + r) ≤ w * X := Nat.div_mul_le_self _ _
  have h2 : b * (w + r) ≤ w * Y := Nat.div_mul_le_self _ _
  have haX : a ≤ X := by
    apply Nat.div_le_of_le_mul
    nlinarith
  have hbY : b ≤ Y := by
    apply Nat.div_le_of_le_mul
    nlinarith
  have hx : X * r ≤ (X - a) * (w + r) := by
    have : (X - a) * (w + r) = X * (w + r) - a * (w + r) := Nat.sub_mul _ _ _
    rw [this]
    have : a * (w + r) ≤ X * (w + r) := Nat.mul_le_mul_right _ haX
    nlinarith [Nat.sub_add_cancel (Nat.mul_le_mul_right (w + r) haX)]
  have hy : Y * r ≤ (Y - b) * (w + r) := by
    have : (Y - b) * (w + r) = Y * (w + r) - b * (w + r) := Nat.sub_mul _ _ _
    rw [this]
    have : b * (w + r) ≤ Y * (w + r) := Nat.mul_le_mul_right _ hbY
    nlinarith [Nat.sub_add_cancel (Nat.mul_le_mul_right (w + r) hbY)]
  calc X * Y * r ^ 2 = (X * r) * (Y * r) := by ring
    _ ≤ ((X - a) * (w + r)) * ((Y - b) * (w + r)) := Nat.mul_le_mul hx hy
    _ = (X - a) * (Y - b) * (w + r) ^ 2 := by ring

theorem remove_le (w X L : Nat) (hw : w ≤ L) : w * X / L ≤ X := by
  by_cases hL : L = 0
  · subst hL; simp
  apply Nat.div_le_of_le_mul
  nlinarith

/-- add to a live pool: `s` standard in, mint = ⌊L·s/X⌋, deposit = ⌊Y·s/X⌋ + 1 -/
theorem add_k (s X Y L : Nat) (hX : 0 < X) :
    X * Y * (L + L * s / X) ^ 2 ≤ (X + s) * (Y + (Y * s / X + 1)) * L ^ 2 := by
  set m := L * s / X with hm
  set d := Y * s / X with hd
  have h1 : m * X ≤ L * s := Nat.div_mul_le_self _ _
  have h2 : Y * s < (d + 1) * X := by
    have h := Nat.div_add_mod (Y * s) X
    have hlt := Nat.mod_lt (Y * s) hX
    rw [← hd] at h
    nlinarith
  have hL : (L + m) * X ≤ L * (X + s) := by nlinarith
  have hY : Y * (X + s) ≤ (Y + (d + 1)) * X := by nlinarith
  have hsq : ((L + m) * X) ^ 2 ≤ (L * (X + s)) ^ 2 := Nat.pow_le_pow_left hL 2
  have hX2 : 0 < X ^ 2 := by positivity
  apply Nat.le_of_mul_le_mul_right _ hX2
  calc X * Y * (L + m) ^ 2 * X ^ 2 = X * Y * ((L + m) * X) ^ 2 := by ring
    _ ≤ X * Y * (L * (X + s)) ^ 2 := Nat.mul_le_mul_left _ hsq
    _ = (X + s) * L ^ 2 * X * (Y * (X + s)) := by ring
    _ ≤ (X + s) * L ^ 2 * X * ((Y + (d + 1)) * X) := Nat.mul_le_mul_left _ hY
    _ = (X + s) * (Y + (d + 1)) * L ^ 2 * X ^ 2 := by ring

/-- larger reserves and no more shares: `X·Y/L²` does not decrease -/
theorem k_mono (X Y L X' Y' L' : Nat) (hX : X ≤ X') (hY : Y ≤ Y') (hL : L' ≤ L) :
    X * Y * L' ^ 2 ≤ X' * Y' * L ^ 2 := by
  have h1 : X * Y ≤ X' * Y' := Nat.mul_le_mul hX hY
  have h2 : L' ^ 2 ≤ L ^ 2 := Nat.pow_le_pow_left hL 2
  exact Nat.mul_le_mul h1 h2

/-- the cross-multiplied order is transitive (history lemma) -/
theorem k_trans (a b c d e f : Nat) (hd : 0 < d)
    (h1 : a * d ≤ c * b) (h2 : c * f ≤ e * d) : a * f ≤ e * b := by
  have : a * f * d ≤ e * b * d := by
    calc a * f * d = (a * d) * f := by ring
      _ ≤ (c * b) * f := Nat.mul_le_mul_right _ h1
      _ = (c * f) * b := by ring
      _ ≤ (e * d) * b := Nat.mul_le_mul_right _ h2
      _ = e * b * d := by ring
  exact Nat.le_of_mul_le_mul_right this hd

/-- weakening the right-hand side of a `k` comparison -/
theorem k_weaken (X Y L X1 Y1 L1 X' Y' : Nat) (h : X * Y * L1 ^ 2 ≤ X1 * Y1 * L ^ 2) (hX : X1 ≤ X') (hY : Y1 ≤ Y') :
    X * Y * L1 ^ 2 ≤ X' * Y' * L ^ 2 :=
  Nat.le_trans h (Nat.mul_le_mul_right _ (Nat.mul_le_mul hX hY))

end CV.Arith
