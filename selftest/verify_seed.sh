#!/bin/sh
# verify_seed.sh <seed-dir>: confirms in a scratch worktree that the seeded change compiles, that the demonstration
# passes without it and fails with it, and that the existing tests of the touched area (or FULL=1: whole suite) pass with it.
d=$1
export GOFLAGS=-mod=mod GOPROXY=off GOSUMDB=off GOTOOLCHAIN=local
WT=/tmp/wt-verify-$$
git -C /repo worktree add -q $WT HEAD || exit 2
pkg=$(python3 -c "import json;print(json.load(open('$d/meta.json'))['demo_pkg'])")
cmd=$(python3 -c "import json;print(json.load(open('$d/meta.json'))['demo_cmd'])")
cp $d/demo_test.go $WT/$pkg/zz_seed_demo_test.go
(cd $WT && sh -c "$cmd" > /tmp/verify-$$-before.log 2>&1); before=$?
git -C $WT apply $(realpath $d/patch.diff) || { echo "patch does not apply"; git -C /repo worktree remove --force $WT; exit 2; }
(cd $WT && go build ./... > /tmp/verify-$$-build.log 2>&1); build=$?
(cd $WT && sh -c "$cmd" > /tmp/verify-$$-after.log 2>&1); after=$?
rm $WT/$pkg/zz_seed_demo_test.go
if [ "$FULL" = 1 ]; then tests="./..."; else tests=$(python3 -c "
import json;m=json.load(open('$d/meta.json'));print(' '.join(sorted({'./'+f.split('/')[0]+'/'+f.split('/')[1]+'/...' for f in m['files']})))"); fi
(cd $WT && go test -vet=off -count=1 $tests > /tmp/verify-$$-tests.log 2>&1); existing=$?
echo "$(basename $d): demo-without-change exit=$before (want 0), build exit=$build (want 0), demo-with-change exit=$after (want !=0), existing tests [$tests] exit=$existing (want 0)"
grep -E "^(FAIL|---.*FAIL)" /tmp/verify-$$-tests.log | head -5
git -C /repo worktree remove --force $WT; git -C /repo worktree prune
rm -f /tmp/verify-$$-*.log
