#!/bin/sh
# Runs the checks against every seeded breaking change under seeded/<id>/ in a scratch worktree of /repo
# (never in /repo itself) and writes the verdicts to seeded/RESULTS.md.
# usage: selftest/run_seeded.sh [id ...]      (default: all)
cd "$(dirname "$0")/.."
VERIF=$(pwd)
ids="$@"
[ -z "$ids" ] && ids=$(ls seeded | grep -v RESULTS.md)
WT=/tmp/wt-seeded-$$
for id in $ids; do
  d=seeded/$id
  [ -f $d/patch.diff ] || continue
  prop=$(python3 -c "import json;print(json.load(open('$d/meta.json'))['property'])")
  git -C /repo worktree add -q $WT HEAD || exit 2
  if ! git -C $WT apply $VERIF/$d/patch.diff; then echo "$id: patch does not apply"; git -C /repo worktree remove --force $WT; continue; fi
  out=$(VERIF_REPO=$WT ./check $prop 2>&1); rc=$?
  verdict=$(echo "$out" | grep -E "^(VIOLATION|KNOWN-FINDING|CHECK-ERROR)" | head -2 | tr '\n' ' ')
  echo "$id property=$prop exit=$rc $verdict"
  echo "$id|$prop|$rc|$verdict" >> .work/seeded-results.txt
  git -C /repo worktree remove --force $WT
done
git -C /repo worktree prune
