#!/usr/bin/env python3
"""Writes the verdicts of the last selftest/run_seeded(_par).sh run (.work/seeded-results.txt: id|property|exit|verdict) and
the confirmations of selftest/verify_seed.sh (.work/verify-*.log) into seeded/<id>/meta.json."""
import json, os, re, glob, sys
V = os.path.join(os.path.dirname(os.path.abspath(__file__)), "..")
res = {}
for line in open(os.path.join(V, ".work", "seeded-results.txt")):
    p = line.rstrip("\n").split("|")
    if len(p) >= 4:
        res[p[0]] = (p[1], p[2], p[3].strip())
conf = {}
for f in glob.glob(os.path.join(V, ".work", "verify-*.log")):
    for line in open(f):
        m = re.match(r"(C\d\d-[a-z]): (demo-without-change exit=(\d+) .*build exit=(\d+) .*demo-with-change exit=(\d+) .*existing tests \[(.*?)\] exit=(\d+))", line)
        if m:
            conf[m.group(1)] = dict(line=m.group(2), ok=(m.group(3) == "0" and m.group(4) == "0" and m.group(5) != "0" and m.group(7) == "0"), full=(m.group(6) == "./..."))
n = 0
for i, (prop, rc, verdict) in sorted(res.items()):
    mp = os.path.join(V, "seeded", i, "meta.json")
    if not os.path.exists(mp):
        continue
    m = json.load(open(mp))
    m["check_verdict"] = f"VERIF_REPO=<scratch worktree with patch> ./check {prop} -> exit {rc}: {verdict or '(no VIOLATION line)'}"
    if i in conf and conf[i]["full"]:
        m["confirmed_by_me"] = ("yes: " if conf[i]["ok"] else "NO: ") + conf[i]["line"]
    json.dump(m, open(mp, "w"), indent=1)
    n += 1
print(f"recorded {n} verdicts; confirmations available for {len(conf)} seeds")
bad = [i for i, (p, rc, v) in res.items() if rc != "1" or "no-failing-input-found" in v]
print("not caught with a concrete replay:", sorted(bad))
