#!/bin/sh
# validates MANIFEST.json and every evidence file against the interface schemas (uses the tooling venv's jsonschema)
cd "$(dirname "$0")/.."
python3-vt - <<'PY'
import json, jsonschema, glob, sys
ok = True
try:
    jsonschema.validate(json.load(open('MANIFEST.json')), json.load(open('/root/.vp/MANIFEST.schema.json'))); print('MANIFEST.json ok')
except Exception as e:
    ok = False; print('MANIFEST.json INVALID', str(e)[:300])
sch = json.load(open('/root/.vp/EVIDENCE.schema.json'))
m = json.load(open('MANIFEST.json'))
for c in m['checks']:
    f = c['evidence_file']
    try:
        e = json.load(open(f)); jsonschema.validate(e, sch)
        cov = e['coverage']
        assert e['property_id'] == c['property_id']
        if e['level'] == 'proof': assert cov['obligations'] == cov['discharged'] >= 1, 'discharged != obligations'
        print(f, 'ok', e['tier'], cov.get('obligations'), cov.get('evaluations'))
    except Exception as ex:
        ok = False; print(f, 'INVALID', str(ex)[:300])
claimed = {c['property_id'] for c in m['checks']} | {n['property_id'] for n in m.get('not_applicable', [])}
allp = {json.loads(l)['id'] for l in open('properties.jsonl')}
if claimed != allp: ok = False; print('properties neither claimed nor not_applicable:', allp - claimed)
sys.exit(0 if ok else 1)
PY
