#!/usr/bin/env python3
"""Prints the markdown table of seeded changes from seeded/*/meta.json (used in selftest/REPORT.md and DESIGN.md)."""
import json, glob, os, re
rows = []
for mp in sorted(glob.glob(os.path.join(os.path.dirname(__file__), "..", "seeded", "*", "meta.json"))):
    m = json.load(open(mp)); i = os.path.basename(os.path.dirname(mp))
    v = m.get("check_verdict", "")
    verdict = "**missed**" if "exit 0" in v else ("no-failing-input-found" if "no-failing-input-found" in v else "VIOLATION with replay")
    summ = re.sub(r"\s+", " ", m.get("summary", ""))[:230]
    needs = re.sub(r"\s+", " ", m.get("needs", ""))[:200]
    note = m.get("strengthened", "")
    rows.append(f"| {i} | {summ} | {needs} | {verdict}{(' — ' + note) if note else ''} |")
print("| id | change | needs | verdict of `./check <property>` |\n|---|---|---|---|")
print("\n".join(rows))
