#!/bin/sh
# Runs selftest/run_seeded.sh over all (or the given) seeds, N at a time (default 3). Results: .work/seeded-results.txt
cd "$(dirname "$0")/.."
N=${JOBS:-3}
ids="$@"
[ -z "$ids" ] && ids=$(ls seeded | grep -v RESULTS.md)
: > .work/seeded-results.txt
echo $ids | tr ' ' '\n' | xargs -P $N -I{} ./selftest/run_seeded.sh {}
sort .work/seeded-results.txt > .work/seeded-results.sorted
awk -F'|' '{ if ($3==1 && $4 !~ /no-failing-input-found/) c++; else if ($3==1) n++; else m++ } END { printf "caught with input: %d, no-failing-input-found: %d, not reported: %d\n", c, n, m }' .work/seeded-results.sorted
