#!/bin/sh
# r5_import.sh <Cxx>: imports /tmp/r5/<Cxx>-out as seeded/<Cxx>-h, verifies it (verify_seed.sh, FULL=1) and runs the
# property's check against the scratch worktree /tmp/r5/<Cxx> (which holds the change). Output -> .work/r5-<Cxx>.log
cd "$(dirname "$0")/.."
p=$1; id=$p-h; src=/tmp/r5/$p-out
mkdir -p seeded/$id .work
cp $src/patch.diff seeded/$id/patch.diff; cp $src/demo_test.go seeded/$id/demo_test.go; cp $src/meta.json seeded/$id/meta.json
{
echo "== verify"; FULL=${FULL:-1} selftest/verify_seed.sh seeded/$id
echo "== worktree diff equals patch?"; git -C /tmp/r5/$p status --short
git -C /tmp/r5/$p checkout -q -- . ; git -C /tmp/r5/$p clean -fdq; git -C /tmp/r5/$p apply $(pwd)/seeded/$id/patch.diff && echo applied
echo "== check"; VERIF_REPO=/tmp/r5/$p ./check $p 2>&1 | tail -8; echo "exit=$?"
} > .work/r5-$p.log 2>&1
tail -12 .work/r5-$p.log
