#!/bin/sh
# Specificity sweep on the unchanged tree: every check under several seeds, N at a time. Any VIOLATION / non-zero exit is a
# false alarm to be investigated. usage: SEEDS="2 3 4 5" JOBS=4 selftest/sweep.sh [tier]
cd "$(dirname "$0")/.."
tier=${1:-quick}
: > .work/sweep-results.txt
for s in ${SEEDS:-2 3 4 5}; do for p in C01 C02 C03 C04 C05 C06 C07 C08 C09 C10 C11 C12 C13 C14 C15 C16 C17 C18 C19 C20; do echo "$s $p"; done; done |
  xargs -P ${JOBS:-4} -L 1 sh -c 'out=$(VERIF_SEED=$0 ./check $1 --tier '$tier' 2>&1); rc=$?; echo "seed=$0 $1 exit=$rc $(echo "$out" | grep -E "^(VIOLATION|KNOWN-FINDING|CHECK-ERROR)" | head -2 | tr "\n" " ") $(echo "$out" | tail -1)" >> .work/sweep-results.txt'
grep -c "exit=0" .work/sweep-results.txt; grep -v "exit=0" .work/sweep-results.txt
