#!/bin/sh
# Run once after a fresh restore, offline: builds the harness against /repo and the Lean library.
set -e
cd "$(dirname "$0")"
export GOFLAGS=-mod=mod GOPROXY=off GOSUMDB=off GOTOOLCHAIN=local
mkdir -p .work/bin evidence replays
cp /repo/go.sum harness/go.sum
(cd harness && go build -tags verif -o ../.work/bin/harness .)
if [ -d factx ]; then (cd factx && go build -o ../.work/bin/factx . && mkdir -p ../lean/CantoVerif/Gen && ../.work/bin/factx -repo /repo -out ../lean/CantoVerif/Gen); fi
(cd lean && lake build)
echo setup done
