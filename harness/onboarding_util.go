package main

// Helpers of the "onboarding" suite:
//   obScriptEVM  - a scripted EVMKeeper handed to the REAL erc20 keeper (erc20keeper.NewKeeper over the app's stores):
//                  an honest ERC-20 state machine per contract whose ledger lives in the context's KV store (so that a
//                  dropped branch of state also drops the token writes), with scripted deviations and a failure that
//                  can be injected at the n-th EVM interaction of an operation;
//   obRecorder   - wraps that erc20 keeper as the onboarding keeper's Erc20Keeper and records what ConvertCoin was asked
//                  and how it ended (ok / pair deleted / failed after how many inner effects);
//   obUnder      - the application underneath the onboarding middleware: the real ICS-20 module, a stub that credits the
//                  voucher unconditionally, or a failing application.

import (
	"bytes"
	"context"
	"fmt"
	"math/big"
	"sort"

	sdkmath "cosmossdk.io/math"
	storetypes "cosmossdk.io/store/types"
	sdk "github.com/cosmos/cosmos-sdk/types"
	authtypes "github.com/cosmos/cosmos-sdk/x/auth/types"
	transfer "github.com/cosmos/ibc-go/v8/modules/apps/transfer"
	transfertypes "github.com/cosmos/ibc-go/v8/modules/apps/transfer/types"
	channeltypes "github.com/cosmos/ibc-go/v8/modules/core/04-channel/types"
	"github.com/cosmos/ibc-go/v8/modules/core/exported"
	"github.com/ethereum/go-ethereum/accounts/abi"
	"github.com/ethereum/go-ethereum/common"
	"github.com/ethereum/go-ethereum/core"
	"github.com/ethereum/go-ethereum/core/vm"
	"github.com/ethereum/go-ethereum/crypto"
	"github.com/evmos/ethermint/x/evm/statedb"
	evmtypes "github.com/evmos/ethermint/x/evm/types"

	"github.com/Canto-Network/Canto/v8/app"
	"github.com/Canto-Network/Canto/v8/contracts"
	canto "github.com/Canto-Network/Canto/v8/types"
	erc20keeper "github.com/Canto-Network/Canto/v8/x/erc20/keeper"
	erc20types "github.com/Canto-Network/Canto/v8/x/erc20/types"
)

// ---------------------------------------------------------------- scripted EVM

const (
	obHonest      = iota
	obMintLess    // mint credits one unit less than asked
	obMintMore    // mint credits one unit more
	obMintNothing // mint returns success and credits nothing
	obMintOther   // mint credits another holder
	obMintVMError // mint answers with a VM error (revert)
	obBalGarbage  // balanceOf answers with bytes that do not decode
	obNoCode      // the contract account has no code (self-destructed)
	obNumModes
)

var obModeNames = []string{"honest", "mintLess", "mintMore", "mintNothing", "mintOther", "mintVMError", "balGarbage", "noCode"}

var (
	obLedgerPrefix = []byte{0xEE} // 0xEE | contract(20) | holder(20) -> big-endian amount
	obCodePrefix   = []byte{0xED} // 0xED | contract(20) -> 1
)

type obScriptEVM struct {
	app    *app.Canto
	key    storetypes.StoreKey
	calls  int // EVM interactions of the current operation (GetAccountWithoutBalance, EstimateGas, ApplyMessage)
	failAt int // 0: never
	mode   int
}

func (m *obScriptEVM) reset(failAt, mode int) { m.calls, m.failAt, m.mode = 0, failAt, mode }

func (m *obScriptEVM) tick() bool { m.calls++; return m.failAt != 0 && m.calls == m.failAt }

func (m *obScriptEVM) GetParams(ctx sdk.Context) evmtypes.Params          { return evmtypes.DefaultParams() }
func (m *obScriptEVM) SetParams(ctx sdk.Context, p evmtypes.Params) error { return nil }
func (m *obScriptEVM) ChainID() *big.Int                                  { return big.NewInt(7700) }
func (m *obScriptEVM) GetNonce(ctx sdk.Context, a common.Address) uint64  { return 0 }
func (m *obScriptEVM) EthereumTx(c context.Context, msg *evmtypes.MsgEthereumTx) (*evmtypes.MsgEthereumTxResponse, error) {
	return nil, fmt.Errorf("not scripted")
}

func (m *obScriptEVM) hasCode(ctx sdk.Context, c common.Address) bool {
	return ctx.KVStore(m.key).Has(append(append([]byte{}, obCodePrefix...), c.Bytes()...))
}

func (m *obScriptEVM) GetAccountWithoutBalance(ctx sdk.Context, addr common.Address) *statedb.Account {
	if m.tick() {
		return nil
	}
	if m.mode == obNoCode || !m.hasCode(ctx, addr) {
		return statedb.NewEmptyAccount()
	}
	return &statedb.Account{Balance: new(big.Int), CodeHash: []byte{1, 2, 3}}
}

func (m *obScriptEVM) EstimateGas(c context.Context, req *evmtypes.EthCallRequest) (*evmtypes.EstimateGasResponse, error) {
	if m.tick() {
		return nil, fmt.Errorf("injected failure at EVM interaction %d (EstimateGas)", m.calls)
	}
	return &evmtypes.EstimateGasResponse{Gas: 100000}, nil
}

func obLedgerKey(contract, holder common.Address) []byte {
	k := append([]byte{}, obLedgerPrefix...)
	k = append(k, contract.Bytes()...)
	return append(k, holder.Bytes()...)
}

func (m *obScriptEVM) tokGet(ctx sdk.Context, contract, holder common.Address) *big.Int {
	bz := ctx.KVStore(m.key).Get(obLedgerKey(contract, holder))
	return new(big.Int).SetBytes(bz)
}

func (m *obScriptEVM) tokSet(ctx sdk.Context, contract, holder common.Address, v *big.Int) {
	st := ctx.KVStore(m.key)
	if v.Sign() == 0 {
		st.Delete(obLedgerKey(contract, holder))
		return
	}
	st.Set(obLedgerKey(contract, holder), v.Bytes())
}

// tokAll lists the whole token ledger: contract -> holder -> amount
func (m *obScriptEVM) tokAll(ctx sdk.Context) map[common.Address]map[common.Address]*big.Int {
	out := map[common.Address]map[common.Address]*big.Int{}
	it := storetypes.KVStorePrefixIterator(ctx.KVStore(m.key), obLedgerPrefix)
	defer it.Close()
	for ; it.Valid(); it.Next() {
		k := it.Key()
		c := common.BytesToAddress(k[1:21])
		h := common.BytesToAddress(k[21:41])
		if out[c] == nil {
			out[c] = map[common.Address]*big.Int{}
		}
		out[c][h] = new(big.Int).SetBytes(it.Value())
	}
	return out
}

func (m *obScriptEVM) ApplyMessage(ctx sdk.Context, msg core.Message, tracer vm.EVMLogger, commit bool) (*evmtypes.MsgEthereumTxResponse, error) {
	if m.tick() {
		return nil, fmt.Errorf("injected failure at EVM interaction %d (ApplyMessage)", m.calls)
	}
	if msg.To() == nil {
		// contract creation: the created address gets code, the creator's sequence is bumped (as the real EVM does)
		from := sdk.AccAddress(msg.From().Bytes())
		acc := m.app.AccountKeeper.GetAccount(ctx, from)
		if acc == nil {
			acc = m.app.AccountKeeper.NewAccountWithAddress(ctx, from)
		}
		created := crypto.CreateAddress(msg.From(), acc.GetSequence())
		if commit {
			if err := acc.SetSequence(acc.GetSequence() + 1); err != nil {
				return nil, err
			}
			m.app.AccountKeeper.SetAccount(ctx, acc)
			ctx.KVStore(m.key).Set(append(append([]byte{}, obCodePrefix...), created.Bytes()...), []byte{1})
		}
		return &evmtypes.MsgEthereumTxResponse{Ret: created.Bytes()}, nil
	}
	erc := contracts.ERC20MinterBurnerDecimalsContract.ABI
	if len(msg.Data()) < 4 {
		return nil, fmt.Errorf("short call data")
	}
	method, err := erc.MethodById(msg.Data()[:4])
	if err != nil {
		return nil, err
	}
	args, err := method.Inputs.Unpack(msg.Data()[4:])
	if err != nil {
		return nil, err
	}
	contract := *msg.To()
	switch method.Name {
	case "balanceOf":
		if m.mode == obBalGarbage {
			return &evmtypes.MsgEthereumTxResponse{Ret: []byte{1, 2, 3}}, nil
		}
		ret, _ := method.Outputs.Pack(m.tokGet(ctx, contract, args[0].(common.Address)))
		return &evmtypes.MsgEthereumTxResponse{Ret: ret}, nil
	case "mint":
		to := args[0].(common.Address)
		amt := new(big.Int).Set(args[1].(*big.Int))
		switch m.mode {
		case obMintVMError:
			return &evmtypes.MsgEthereumTxResponse{VmError: "execution reverted"}, nil
		case obMintLess:
			amt.Sub(amt, big.NewInt(1))
		case obMintMore:
			amt.Add(amt, big.NewInt(1))
		case obMintNothing:
			amt.SetInt64(0)
		case obMintOther:
			to = common.BytesToAddress([]byte("somebody else......."))
		}
		if commit && amt.Sign() > 0 {
			m.tokSet(ctx, contract, to, new(big.Int).Add(m.tokGet(ctx, contract, to), amt))
		}
		// (ethermint's ApplyMessage bumps the sender's nonce for contract creation only, not for calls)
		return &evmtypes.MsgEthereumTxResponse{}, nil
	}
	return nil, fmt.Errorf("unscripted method %s", method.Name)
}

// ---------------------------------------------------------------- ConvertCoin recorder

type obConvRec struct {
	Called   bool
	Amount   sdkmath.Int
	Denom    string
	Sender   string
	Receiver string
	Outcome  string // ok | gone | fail:<stage> | panic
}

type obRecorder struct {
	ek  erc20keeper.Keeper
	evm *obScriptEVM
	bk  interface {
		GetBalance(ctx context.Context, addr sdk.AccAddress, denom string) sdk.Coin
	}
	rec obConvRec
}

func (r *obRecorder) ConvertCoin(goCtx context.Context, msg *erc20types.MsgConvertCoin) (resp *erc20types.MsgConvertCoinResponse, err error) {
	ctx := sdk.UnwrapSDKContext(goCtx)
	mod := authtypes.NewModuleAddress(erc20types.ModuleName)
	r.rec = obConvRec{Called: true, Amount: msg.Coin.Amount, Denom: msg.Coin.Denom, Sender: msg.Sender, Receiver: msg.Receiver, Outcome: "panic"}
	bal0 := r.bk.GetBalance(ctx, mod, msg.Coin.Denom).Amount
	tok0 := fmt.Sprint(r.evm.tokAll(ctx))
	resp, err = r.ek.ConvertCoin(goCtx, msg)
	switch {
	case err == nil && resp == nil:
		r.rec.Outcome = "gone"
	case err == nil:
		r.rec.Outcome = "ok"
	default:
		stage := 0
		if !r.bk.GetBalance(ctx, mod, msg.Coin.Denom).Amount.Equal(bal0) {
			stage = 1
		}
		if fmt.Sprint(r.evm.tokAll(ctx)) != tok0 {
			stage = 2
		}
		r.rec.Outcome = fmt.Sprintf("fail:%d", stage)
	}
	return resp, err
}
func (r *obRecorder) GetTokenPairID(ctx sdk.Context, token string) []byte { return r.ek.GetTokenPairID(ctx, token) }
func (r *obRecorder) GetTokenPair(ctx sdk.Context, id []byte) (erc20types.TokenPair, bool) {
	return r.ek.GetTokenPair(ctx, id)
}
func (r *obRecorder) BalanceOf(ctx sdk.Context, a abi.ABI, contract, account common.Address) *big.Int {
	return r.ek.BalanceOf(ctx, a, contract, account)
}
func (r *obRecorder) CallEVM(ctx sdk.Context, a abi.ABI, from, contract common.Address, commit bool, method string, args ...interface{}) (*evmtypes.MsgEthereumTxResponse, error) {
	return r.ek.CallEVM(ctx, a, from, contract, commit, method, args...)
}

// ---------------------------------------------------------------- the application under the middleware

const (
	obUnderReal = iota // the real ICS-20 module of the app
	obUnderStub        // credits the voucher to the receiver whatever the receiver is (bypasses the blocked-address check)
	obUnderFail        // acknowledges an error without doing anything
)

type obUnder struct {
	transfer.IBCModule // every other callback: the real transfer module
	w                  *World
	mode               int
	lastAck            exported.Acknowledgement
	stubAck            []byte
	credited           string // how the stub credited: "mint:<alias>" / "unescrow:<alias>"
}

// obLocalDenom: the denomination the received coin has on this chain and whether it returns home (computed here
// from the ICS-20 rules, independently of canto's ibc.GetReceivedCoin)
func obLocalDenom(packet channeltypes.Packet, rawDenom string) (denom string, home bool) {
	if transfertypes.ReceiverChainIsSource(packet.GetSourcePort(), packet.GetSourceChannel(), rawDenom) {
		unprefixed := rawDenom[len(transfertypes.GetDenomPrefix(packet.GetSourcePort(), packet.GetSourceChannel())):]
		tr := transfertypes.ParseDenomTrace(unprefixed)
		if !tr.IsNativeDenom() {
			return tr.IBCDenom(), true
		}
		return unprefixed, true
	}
	pre := transfertypes.GetDenomPrefix(packet.GetDestPort(), packet.GetDestChannel())
	return transfertypes.ParseDenomTrace(pre + rawDenom).IBCDenom(), false
}

func (u *obUnder) OnRecvPacket(ctx sdk.Context, packet channeltypes.Packet, relayer sdk.AccAddress) exported.Acknowledgement {
	switch u.mode {
	case obUnderReal:
		u.lastAck = u.IBCModule.OnRecvPacket(ctx, packet, relayer)
	case obUnderFail:
		u.lastAck = channeltypes.NewErrorAcknowledgement(fmt.Errorf("underlying application refused the packet"))
	default:
		u.lastAck = u.stub(ctx, packet)
	}
	return u.lastAck
}

func (u *obUnder) stub(ctx sdk.Context, packet channeltypes.Packet) exported.Acknowledgement {
	var data transfertypes.FungibleTokenPacketData
	if err := transfertypes.ModuleCdc.UnmarshalJSON(packet.GetData(), &data); err != nil {
		return channeltypes.NewErrorAcknowledgement(err)
	}
	// the stub accepts whatever spelling canto's own parser or the SDK accepts
	rcpt, err := sdk.AccAddressFromBech32(data.Receiver)
	if err != nil {
		rcpt, err = canto.GetcantoAddressFromBech32(data.Receiver)
	}
	if err != nil {
		return channeltypes.NewErrorAcknowledgement(err)
	}
	amt, ok := sdkmath.NewIntFromString(data.Amount)
	if !ok || !amt.IsPositive() {
		return channeltypes.NewErrorAcknowledgement(fmt.Errorf("bad amount"))
	}
	denom, home := obLocalDenom(packet, data.Denom)
	coins := sdk.NewCoins(sdk.NewCoin(denom, amt))
	bk := u.w.App.BankKeeper
	if home {
		esc := transfertypes.GetEscrowAddress(packet.GetDestPort(), packet.GetDestChannel())
		if err := bk.SendCoins(ctx, esc, rcpt, coins); err != nil {
			return channeltypes.NewErrorAcknowledgement(err)
		}
	} else {
		if err := bk.MintCoins(ctx, transfertypes.ModuleName, coins); err != nil {
			return channeltypes.NewErrorAcknowledgement(err)
		}
		if err := bk.SendCoins(ctx, authtypes.NewModuleAddress(transfertypes.ModuleName), rcpt, coins); err != nil {
			return channeltypes.NewErrorAcknowledgement(err)
		}
	}
	return channeltypes.NewResultAcknowledgement(u.stubAck)
}

// ack classification: the acknowledgement returned by the middleware against the one the underlying application gave
func obAckClass(given, got exported.Acknowledgement) string {
	if got == nil {
		return "nil"
	}
	if given != nil && got.Success() == given.Success() && bytes.Equal(got.Acknowledgement(), given.Acknowledgement()) {
		return "same"
	}
	if !got.Success() {
		return "err"
	}
	return "other"
}

func obSortedAddrs(m map[common.Address]*big.Int) []common.Address {
	ks := make([]common.Address, 0, len(m))
	for k := range m {
		ks = append(ks, k)
	}
	sort.Slice(ks, func(i, j int) bool { return bytes.Compare(ks[i][:], ks[j][:]) < 0 })
	return ks
}
