package main

// Surface T (DESIGN §5.1): the real application driven through InitChain / FinalizeBlock / Commit with signed
// transactions. Shared by the suites `genesis` (C18) and `replica` (C06).
//
// app.Setup / SetupWithGenesisAccounts ignore the error InitChain returns for an empty validator set, so this
// file builds its own genesis: one bonded validator (operator = user 0, who holds the whole delegation and
// therefore decides every governance vote), funded EthAccounts, short epochs with an explicit start time,
// inflation and CSR enabled, a 2 s governance voting period.

import (
	"context"
	"crypto/sha256"
	"encoding/json"
	"fmt"
	"math/big"
	"time"

	"cosmossdk.io/log"
	sdkmath "cosmossdk.io/math"
	abci "github.com/cometbft/cometbft/abci/types"
	tmproto "github.com/cometbft/cometbft/proto/tendermint/types"
	dbm "github.com/cosmos/cosmos-db"
	"github.com/cosmos/cosmos-sdk/baseapp"
	"github.com/cosmos/cosmos-sdk/client"
	codectypes "github.com/cosmos/cosmos-sdk/codec/types"
	"github.com/cosmos/cosmos-sdk/crypto/keys/ed25519"
	simtestutil "github.com/cosmos/cosmos-sdk/testutil/sims"
	sdk "github.com/cosmos/cosmos-sdk/types"
	"github.com/cosmos/cosmos-sdk/types/tx/signing"
	authsigning "github.com/cosmos/cosmos-sdk/x/auth/signing"
	authtypes "github.com/cosmos/cosmos-sdk/x/auth/types"
	banktypes "github.com/cosmos/cosmos-sdk/x/bank/types"
	govv1 "github.com/cosmos/cosmos-sdk/x/gov/types/v1"
	slashingtypes "github.com/cosmos/cosmos-sdk/x/slashing/types"
	stakingtypes "github.com/cosmos/cosmos-sdk/x/staking/types"
	clienttx "github.com/cosmos/cosmos-sdk/client/tx"
	"github.com/ethereum/go-ethereum/common"
	ethtypes "github.com/ethereum/go-ethereum/core/types"
	"github.com/ethereum/go-ethereum/crypto"
	"github.com/evmos/ethermint/crypto/ethsecp256k1"
	"github.com/evmos/ethermint/tests"
	ethermint "github.com/evmos/ethermint/types"
	evmtypes "github.com/evmos/ethermint/x/evm/types"
	feemarkettypes "github.com/evmos/ethermint/x/feemarket/types"

	"github.com/Canto-Network/Canto/v8/app"
	coinswaptypes "github.com/Canto-Network/Canto/v8/x/coinswap/types"
	csrtypes "github.com/Canto-Network/Canto/v8/x/csr/types"
	epochstypes "github.com/Canto-Network/Canto/v8/x/epochs/types"
	inflationtypes "github.com/Canto-Network/Canto/v8/x/inflation/types"
	onboardingtypes "github.com/Canto-Network/Canto/v8/x/onboarding/types"
)

const (
	chainID   = "canto_7700-1"
	bondDenom = "acanto"
)

// counter-asset denominations known to the coinswap whitelist of the harness genesis
// (twelve of them: ten or more pools are needed before "lpt-10" sorts below "lpt-9")
var chainDenoms = []string{"ausdc", "abtc", "ibc/ETH", "aeth", "atk05", "atk06", "atk07", "atk08", "atk09", "atk10", "atk11", "atk12"}

// genesis time of the harness chain. The replica suite anchors it a little in the past of the WALL CLOCK on purpose:
// deadlines and other block-time-scale values then straddle the wall-clock instants at which the replicas (some run
// seconds later, in other processes) execute the same block, so code that consults the wall clock diverges visibly.
var chainGenTime = time.Unix(1_700_000_000, 0).UTC()

// coins that exist in the bank but are not whitelisted in coinswap (RegisterCoin candidates, rejected adds)
var extraDenoms = []string{"ucoin", "zjunk", "anote", "UCOIN"}

// ---------- configuration shared by every replica of one run ----------

type ChainCfg struct {
	Keys    []*ethsecp256k1.PrivKey
	Addrs   []sdk.AccAddress
	ValKey  *ed25519.PrivKey
	GenTime time.Time
	Genesis []byte // app state bytes
}

func gnDetKey(label string) *ethsecp256k1.PrivKey {
	h := sha256.Sum256([]byte("verif-key-" + label))
	return &ethsecp256k1.PrivKey{Key: h[:]}
}

func pow10i(n int) sdkmath.Int { return sdkmath.NewIntWithDecimal(1, n) }

// NewChainCfg builds the genesis. variant (from the PRNG) perturbs the Canto parameters so that different seeds start
// from different parameter settings.
func NewChainCfg(nUsers int, r *Rng) *ChainCfg {
	cfg := &ChainCfg{GenTime: chainGenTime}
	for i := 0; i < nUsers; i++ {
		k := gnDetKey(fmt.Sprintf("user%d", i))
		cfg.Keys = append(cfg.Keys, k)
		cfg.Addrs = append(cfg.Addrs, sdk.AccAddress(k.PubKey().Address()))
	}
	cfg.ValKey = ed25519.GenPrivKeyFromSecret([]byte("verif-validator"))

	tmp := app.NewCanto(log.NewNopLogger(), dbm.NewMemDB(), nil, true, map[int64]bool{}, app.DefaultNodeHome, 0, false,
		simtestutil.NewAppOptionsWithFlagHome(app.DefaultNodeHome), baseapp.SetChainID(chainID))
	cdc := tmp.AppCodec()
	gs := tmp.DefaultGenesis()

	// auth + bank
	var accs []authtypes.GenesisAccount
	var bals []banktypes.Balance
	emptyHash := common.BytesToHash(crypto.Keccak256(nil)).String()
	for _, a := range cfg.Addrs {
		accs = append(accs, &ethermint.EthAccount{BaseAccount: authtypes.NewBaseAccount(a, nil, 0, 0), CodeHash: emptyHash})
		coins := sdk.NewCoins(sdk.NewCoin(bondDenom, pow10i(27)))
		for _, d := range append(append([]string{}, chainDenoms...), extraDenoms...) {
			coins = coins.Add(sdk.NewCoin(d, pow10i(24)))
		}
		bals = append(bals, banktypes.Balance{Address: a.String(), Coins: coins})
	}
	gs[authtypes.ModuleName] = cdc.MustMarshalJSON(authtypes.NewGenesisState(authtypes.DefaultParams(), accs))

	// staking: one bonded validator, operator and delegator = user 0
	bondAmt := sdk.TokensFromConsensusPower(100, ethermint.PowerReduction)
	pkAny, err := codectypes.NewAnyWithValue(cfg.ValKey.PubKey())
	if err != nil {
		panic(err)
	}
	valAddr := sdk.ValAddress(cfg.Addrs[0])
	val := stakingtypes.Validator{
		OperatorAddress: valAddr.String(), ConsensusPubkey: pkAny, Jailed: false, Status: stakingtypes.Bonded,
		Tokens: bondAmt, DelegatorShares: sdkmath.LegacyNewDecFromInt(bondAmt), Description: stakingtypes.Description{Moniker: "v0"},
		UnbondingHeight: 0, UnbondingTime: time.Unix(0, 0).UTC(),
		Commission:        stakingtypes.NewCommission(sdkmath.LegacyNewDecWithPrec(5, 2), sdkmath.LegacyNewDecWithPrec(20, 2), sdkmath.LegacyNewDecWithPrec(1, 2)),
		MinSelfDelegation: sdkmath.OneInt(),
	}
	sp := stakingtypes.DefaultParams()
	sp.BondDenom = bondDenom
	sp.UnbondingTime = 30 * time.Second
	sg := stakingtypes.NewGenesisState(sp, []stakingtypes.Validator{val},
		[]stakingtypes.Delegation{stakingtypes.NewDelegation(cfg.Addrs[0].String(), valAddr.String(), sdkmath.LegacyNewDecFromInt(bondAmt))})
	gs[stakingtypes.ModuleName] = cdc.MustMarshalJSON(sg)
	bals = append(bals, banktypes.Balance{Address: authtypes.NewModuleAddress(stakingtypes.BondedPoolName).String(),
		Coins: sdk.NewCoins(sdk.NewCoin(bondDenom, bondAmt))})
	gs[banktypes.ModuleName] = cdc.MustMarshalJSON(banktypes.NewGenesisState(banktypes.DefaultGenesisState().Params, bals, sdk.NewCoins(),
		[]banktypes.Metadata{}, []banktypes.SendEnabled{}))

	// slashing: signing info of the validator (staking InitGenesis does not run the AfterValidatorBonded hook)
	consAddr := sdk.ConsAddress(cfg.ValKey.PubKey().Address())
	slg := slashingtypes.DefaultGenesisState()
	slg.SigningInfos = []slashingtypes.SigningInfo{{Address: consAddr.String(),
		ValidatorSigningInfo: slashingtypes.NewValidatorSigningInfo(consAddr, 0, 0, time.Unix(0, 0).UTC(), false, 0)}}
	gs[slashingtypes.ModuleName] = cdc.MustMarshalJSON(slg)

	// gov: 2 s voting period, deposits in acanto
	gg := govv1.DefaultGenesisState()
	vp, evp, dp := 2*time.Second, 1*time.Second, 20*time.Second
	gg.Params.VotingPeriod, gg.Params.ExpeditedVotingPeriod, gg.Params.MaxDepositPeriod = &vp, &evp, &dp
	gg.Params.MinDeposit = sdk.NewCoins(sdk.NewCoin(bondDenom, sdkmath.NewInt(1000)))
	gg.Params.ExpeditedMinDeposit = sdk.NewCoins(sdk.NewCoin(bondDenom, sdkmath.NewInt(5000)))
	gs["gov"] = cdc.MustMarshalJSON(gg)

	// evm / feemarket
	var eg evmtypes.GenesisState
	cdc.MustUnmarshalJSON(gs[evmtypes.ModuleName], &eg)
	eg.Params.EvmDenom = bondDenom
	gs[evmtypes.ModuleName] = cdc.MustMarshalJSON(&eg)
	fg := feemarkettypes.DefaultGenesisState()
	fg.Params.NoBaseFee = false
	fg.Params.EnableHeight = 0
	fg.Params.BaseFee = sdkmath.NewInt(1_000_000_000)
	fg.Params.MinGasPrice = sdkmath.LegacyZeroDec()
	gs[feemarkettypes.ModuleName] = cdc.MustMarshalJSON(fg)

	// epochs: short durations, explicit start time (app.Setup leaves it at year 1)
	durs := [][2]time.Duration{{11 * time.Second, 47 * time.Second}, {7 * time.Second, 31 * time.Second}, {17 * time.Second, 23 * time.Second}}[r.Intn(3)]
	eps := []epochstypes.EpochInfo{
		{Identifier: epochstypes.DayEpochID, StartTime: cfg.GenTime.Add(3 * time.Second), Duration: durs[0]},
		{Identifier: epochstypes.WeekEpochID, StartTime: cfg.GenTime, Duration: durs[1]},
	}
	if r.Chance(1, 2) {
		eps = append(eps, epochstypes.EpochInfo{Identifier: epochstypes.HourEpochID, StartTime: cfg.GenTime.Add(9 * time.Second), Duration: 5 * time.Second})
	}
	gs[epochstypes.ModuleName] = cdc.MustMarshalJSON(epochstypes.NewGenesisState(eps))

	// inflation: enabled, 3 epochs per period so that periods advance within a history
	ig := inflationtypes.DefaultGenesisState()
	ig.Params.EnableInflation = true
	ig.EpochsPerPeriod = int64(2 + r.Intn(3))
	ig.Params.ExponentialCalculation.MaxVariance = sdkmath.LegacyNewDecWithPrec(int64(r.Intn(40)), 2)
	if r.Chance(1, 2) {
		ig.Params.InflationDistribution.StakingRewards = sdkmath.LegacyNewDecWithPrec(60, 2)
		ig.Params.InflationDistribution.CommunityPool = sdkmath.LegacyNewDecWithPrec(40, 2)
	}
	gs[inflationtypes.ModuleName] = cdc.MustMarshalJSON(ig)

	// csr: mostly enabled (the Turnstile is deployed by the first BeginBlock); in a third of the configurations it starts
	// disabled and governance enables it later, so that the deployment happens at a height that depends on the history
	cg := csrtypes.DefaultGenesis()
	cg.Params.EnableCsr = !r.Chance(1, 3)
	cg.Params.CsrShares = sdkmath.LegacyNewDecWithPrec(int64(10+r.Intn(60)), 2)
	gs[csrtypes.ModuleName] = cdc.MustMarshalJSON(cg)

	// coinswap: whitelist the harness denominations
	wg := coinswaptypes.DefaultGenesisState()
	wg.StandardDenom = bondDenom
	ms := sdk.NewCoins()
	for _, d := range chainDenoms {
		ms = ms.Add(sdk.NewCoin(d, pow10i(20)))
	}
	wg.Params = coinswaptypes.NewParams(sdkmath.LegacyNewDecWithPrec(int64(r.PickInt(0, 3, 30)), 3), sdkmath.LegacyNewDecWithPrec(int64(r.PickInt(0, 5)), 2),
		sdk.NewCoin(bondDenom, sdkmath.NewInt(int64(r.PickInt(0, 1000, 5000)))), pow10i(24), ms)
	gs[coinswaptypes.ModuleName] = cdc.MustMarshalJSON(wg)

	og := onboardingtypes.DefaultGenesisState()
	gs[onboardingtypes.ModuleName] = cdc.MustMarshalJSON(og)

	bz, err := json.Marshal(gs)
	if err != nil {
		panic(err)
	}
	cfg.Genesis = bz
	return cfg
}

// ---------- a node: the real application over one database ----------

type Node struct {
	Name string
	App  *app.Canto
	DB   dbm.DB
	Cfg  *ChainCfg
	Sim  bool
}

func newApp(db dbm.DB) *app.Canto {
	return app.NewCanto(log.NewNopLogger(), db, nil, true, map[int64]bool{}, app.DefaultNodeHome, 0, false,
		simtestutil.NewAppOptionsWithFlagHome(app.DefaultNodeHome), baseapp.SetChainID(chainID))
}

func NewNode(name string, cfg *ChainCfg) *Node {
	db := dbm.NewMemDB()
	return &Node{Name: name, App: newApp(db), DB: db, Cfg: cfg}
}

// Restart destroys the application object and re-creates it over the same database (loads the latest version).
func (n *Node) Restart() { n.App = newApp(n.DB) }

func (n *Node) InitChain(appState []byte, t time.Time, initialHeight int64) (err error) {
	defer func() {
		if r := recover(); r != nil {
			err = fmt.Errorf("InitChain panic: %v", r)
		}
	}()
	_, err = n.App.InitChain(&abci.RequestInitChain{
		ChainId: chainID, Time: t, InitialHeight: initialHeight, Validators: []abci.ValidatorUpdate{},
		ConsensusParams: app.DefaultConsensusParams, AppStateBytes: appState,
	})
	return err
}

func (n *Node) consAddr() []byte { return n.Cfg.ValKey.PubKey().Address() }

// Block = FinalizeBlock + Commit
func (n *Node) Block(h int64, t time.Time, txs [][]byte) (*abci.ResponseFinalizeBlock, error) {
	res, err := n.App.FinalizeBlock(&abci.RequestFinalizeBlock{
		Height: h, Time: t, Txs: txs, ProposerAddress: n.consAddr(),
		DecidedLastCommit: abci.CommitInfo{Votes: []abci.VoteInfo{{Validator: abci.Validator{Address: n.consAddr(), Power: 100},
			BlockIdFlag: tmproto.BlockIDFlagCommit}}},
	})
	if err != nil {
		return nil, err
	}
	if _, err := n.App.Commit(); err != nil {
		return nil, err
	}
	return res, nil
}

// QueryCtx: a read-only context over the last committed state (what gRPC queries see).
func (n *Node) QueryCtx() sdk.Context {
	ctx, err := n.App.CreateQueryContext(0, false)
	if err != nil {
		panic(err)
	}
	return ctx
}

// ---------- transactions ----------

type TxSpec struct {
	Kind   string // for statistics
	Signer int    // user index
	Bytes  []byte
}

func txConfig(a *app.Canto) client.TxConfig { return a.TxConfig() }

// SignCosmos builds a SIGN_MODE_DIRECT transaction signed by user i.
func (cfg *ChainCfg) SignCosmos(a *app.Canto, i int, accNum, seq uint64, gas uint64, fee sdk.Coins, corruptSig bool, msgs ...sdk.Msg) ([]byte, error) {
	txc := txConfig(a)
	b := txc.NewTxBuilder()
	if err := b.SetMsgs(msgs...); err != nil {
		return nil, err
	}
	b.SetGasLimit(gas)
	b.SetFeeAmount(fee)
	priv := cfg.Keys[i]
	mode := signing.SignMode_SIGN_MODE_DIRECT
	sig := signing.SignatureV2{PubKey: priv.PubKey(), Data: &signing.SingleSignatureData{SignMode: mode}, Sequence: seq}
	if err := b.SetSignatures(sig); err != nil {
		return nil, err
	}
	sd := authsigning.SignerData{ChainID: chainID, AccountNumber: accNum, Sequence: seq, PubKey: priv.PubKey(), Address: cfg.Addrs[i].String()}
	sig, err := clienttx.SignWithPrivKey(context.Background(), mode, sd, b, priv, txc, seq)
	if err != nil {
		return nil, err
	}
	if corruptSig {
		d := sig.Data.(*signing.SingleSignatureData)
		d.Signature[5] ^= 0x40
	}
	if err := b.SetSignatures(sig); err != nil {
		return nil, err
	}
	return txc.TxEncoder()(b.GetTx())
}

// SignEth builds a signed legacy Ethereum transaction wrapped as a Cosmos tx.
func (cfg *ChainCfg) SignEth(a *app.Canto, i int, nonce uint64, to *common.Address, amount *big.Int, gas uint64, gasPrice *big.Int, data []byte) ([]byte, error) {
	cid := big.NewInt(7700)
	msg := evmtypes.NewTx(cid, nonce, to, amount, gas, gasPrice, nil, nil, data, nil)
	msg.From = common.BytesToAddress(cfg.Addrs[i]).Hex()
	if err := msg.Sign(ethtypes.LatestSignerForChainID(cid), tests.NewSigner(cfg.Keys[i])); err != nil {
		return nil, err
	}
	txc := txConfig(a)
	tx, err := msg.BuildTx(txc.NewTxBuilder(), bondDenom)
	if err != nil {
		return nil, err
	}
	return txc.TxEncoder()(tx)
}
