package main

// Helpers shared by the suites "params" (C17), "ante" (C19) and "signers" (C07).

import (
	"crypto/sha256"
	"encoding/hex"
	"fmt"
	"sort"
	"strings"
	"time"

	sdkmath "cosmossdk.io/math"
	"github.com/cometbft/cometbft/crypto/tmhash"
	tmproto "github.com/cometbft/cometbft/proto/tendermint/types"
	tmversion "github.com/cometbft/cometbft/proto/tendermint/version"
	"github.com/cometbft/cometbft/version"
	"github.com/cosmos/cosmos-sdk/crypto/keys/ed25519"
	sdk "github.com/cosmos/cosmos-sdk/types"
	authtypes "github.com/cosmos/cosmos-sdk/x/auth/types"
	banktypes "github.com/cosmos/cosmos-sdk/x/bank/types"
	paramstypes "github.com/cosmos/cosmos-sdk/x/params/types"
	stakingtypes "github.com/cosmos/cosmos-sdk/x/staking/types"

	"github.com/Canto-Network/Canto/v8/app"
)

// NewEvmWorld: NewWorld plus what the EVM needs to run keeper-level calls: a validator behind the block's proposer
// address (coinbase lookup), a full block header and the EVM chain id.
func NewEvmWorld(nUsers int, fund sdk.Coins, t time.Time, seedByte byte) *World {
	return evmWorld(NewWorld(nUsers, fund, t), t, seedByte)
}

// NewEvmWorldAddrs: the same with the given user addresses (accounts whose keys the suite holds).
func NewEvmWorldAddrs(addrs []sdk.AccAddress, fund sdk.Coins, t time.Time, seedByte byte) *World {
	w := &World{alias: map[string]string{}}
	accs := []authtypes.GenesisAccount{}
	bals := []banktypes.Balance{}
	for i, a := range addrs {
		w.Users = append(w.Users, a)
		w.alias[string(a)] = fmt.Sprintf("u%d", i)
		accs = append(accs, &authtypes.BaseAccount{Address: a.String()})
		bals = append(bals, banktypes.Balance{Address: a.String(), Coins: fund})
	}
	w.App = app.SetupWithGenesisAccounts(accs, bals...)
	for _, name := range ModuleNames() {
		w.alias[string(authtypes.NewModuleAddress(name))] = "m." + name
	}
	return evmWorld(w, t, seedByte)
}

func evmWorld(w *World, t time.Time, seedByte byte) *World {
	// deterministic consensus key
	seed := make([]byte, 32)
	for i := range seed {
		seed[i] = seedByte
	}
	pub := ed25519.GenPrivKeyFromSecret(seed).PubKey()
	cons := sdk.ConsAddress(pub.Address())
	hdr := tmproto.Header{
		Height: 1, ChainID: "canto_7700-1", Time: t, ProposerAddress: cons.Bytes(),
		Version:     tmversion.Consensus{Block: version.BlockProtocol},
		LastBlockId: tmproto.BlockID{Hash: tmhash.Sum([]byte("block_id")), PartSetHeader: tmproto.PartSetHeader{Total: 11, Hash: tmhash.Sum([]byte("partset_header"))}},
		AppHash:     tmhash.Sum([]byte("app")), DataHash: tmhash.Sum([]byte("data")), EvidenceHash: tmhash.Sum([]byte("evidence")),
		ValidatorsHash: tmhash.Sum([]byte("validators")), NextValidatorsHash: tmhash.Sum([]byte("next_validators")),
		ConsensusHash: tmhash.Sum([]byte("consensus")), LastResultsHash: tmhash.Sum([]byte("last_result")),
	}
	w.Ctx = w.App.BaseApp.NewContextLegacy(false, hdr)
	valAddr := sdk.ValAddress(w.Users[0])
	val, err := stakingtypes.NewValidator(valAddr.String(), pub, stakingtypes.Description{})
	if err != nil {
		panic(err)
	}
	if err := w.App.StakingKeeper.SetValidator(w.Ctx, val); err != nil {
		panic(err)
	}
	if err := w.App.StakingKeeper.Hooks().AfterValidatorCreated(w.Ctx, valAddr); err != nil {
		panic(err)
	}
	if err := w.App.StakingKeeper.SetValidatorByConsAddr(w.Ctx, val); err != nil {
		panic(err)
	}
	if w.App.EvmKeeper.ChainID() == nil {
		w.App.EvmKeeper.WithChainID(w.Ctx)
	}
	return w
}

// seedRng: the PRNG state for (suite, seed).  The state is derived by hashing: with `seed*gamma + c` (splitmix's own
// increment) consecutive seeds would give the SAME stream shifted by one draw, and runs with different seeds re-synchronise.
func seedRng(suite string, seed uint64) *Rng {
	h := sha256.Sum256([]byte(fmt.Sprintf("canto-verif/%s/%d", suite, seed)))
	var v uint64
	for i := 0; i < 8; i++ {
		v = v<<8 | uint64(h[i])
	}
	return &Rng{s: v}
}

// storeDigest: sha256 over (store name, key, value) of every KV store of the application, optionally skipping some.
func (w *World) storeDigest(ctx sdk.Context, skip ...string) string {
	names := []string{}
	for _, k := range w.App.GetStoreKeys() {
		if k == nil {
			continue
		}
		names = append(names, k.Name())
	}
	sort.Strings(names)
	h := sha256.New()
	for _, n := range names {
		skipIt := false
		for _, s := range skip {
			if s == n {
				skipIt = true
			}
		}
		key := w.App.GetKey(n)
		if skipIt || key == nil {
			continue
		}
		st := ctx.KVStore(key)
		it := st.Iterator(nil, nil)
		for ; it.Valid(); it.Next() {
			fmt.Fprintf(h, "%s|%d|", n, len(it.Key()))
			h.Write(it.Key())
			fmt.Fprintf(h, "|%d|", len(it.Value()))
			h.Write(it.Value())
		}
		it.Close()
	}
	return hex.EncodeToString(h.Sum(nil))[:16]
}

// DeliverObs is World.Deliver with one more observation: when f fails (error or panic) `onReject` sees the BRANCH
// as the handler left it, before it is discarded (what the handler wrote before it gave up).
func (w *World) DeliverObs(f func(ctx sdk.Context) error, onReject func(branch sdk.Context)) (out Outcome) {
	cctx, write := w.Ctx.CacheContext()
	func() {
		defer func() {
			if r := recover(); r != nil {
				out = Outcome{OK: false, Class: "panic", Err: fmt.Sprint(r)}
			}
		}()
		if err := f(cctx); err != nil {
			out = Outcome{OK: false, Class: errClass(err), Err: err.Error()}
			return
		}
		out = Outcome{OK: true}
	}()
	if out.OK {
		write()
	} else if onReject != nil {
		onReject(cctx)
	}
	return out
}

// pSafe: tokenSafe plus the separators the params/ante/signers traces use inside values.
func pSafe(s string) string {
	if s == "" {
		return "%empty"
	}
	r := strings.NewReplacer("%", "%25", " ", "%20", ",", "%2c", ":", "%3a", "=", "%3d", "|", "%7c", "\n", "%0a", "\t", "%09", ";", "%3b")
	return r.Replace(s)
}

func decStr(d sdkmath.LegacyDec) string {
	if d.IsNil() {
		return "nil"
	}
	return d.BigInt().String()
}
func intStr(i sdkmath.Int) string {
	if i.IsNil() {
		return "nil"
	}
	return i.String()
}
func gvB01(b bool) string {
	if b {
		return "1"
	}
	return "0"
}

// kvDiff: tokens of `post` that differ from `pre` (both are space separated k=v lists with the same keys)
func kvDiff(pre, post string) string {
	if pre == post {
		return ""
	}
	pm := map[string]string{}
	for _, kv := range strings.Fields(pre) {
		i := strings.Index(kv, "=")
		pm[kv[:i]] = kv[i+1:]
	}
	var out []string
	for _, kv := range strings.Fields(post) {
		i := strings.Index(kv, "=")
		if v, ok := pm[kv[:i]]; !ok || v != kv[i+1:] {
			out = append(out, kv)
		}
	}
	return strings.Join(out, " ")
}

var _ = paramstypes.StoreKey
