package main

// Suite "govshuttle" (C20): lending-market and treasury proposals through the real govshuttle message server on the REAL
// EVM (ethermint, compiled ProposalStore from /repo/contracts), under the baseapp discipline (World.Deliver). After every
// operation QueryProp(id) is eth_call'ed for ALL ids met so far (given ids, every next-gov-id that was current at an
// operation, id 0 and one never-used id) and the port address, the next gov proposal id and the module account's
// sequence are read back; the O line carries only what changed.

import (
	"encoding/hex"
	"fmt"
	"math"
	"math/big"
	"strconv"
	"strings"
	"time"

	sdk "github.com/cosmos/cosmos-sdk/types"
	authtypes "github.com/cosmos/cosmos-sdk/x/auth/types"
	govtypes "github.com/cosmos/cosmos-sdk/x/gov/types"
	"github.com/ethereum/go-ethereum/common"
	"github.com/ethereum/go-ethereum/crypto"

	"github.com/Canto-Network/Canto/v8/contracts"
	govshuttlekeeper "github.com/Canto-Network/Canto/v8/x/govshuttle/keeper"
	govshuttletypes "github.com/Canto-Network/Canto/v8/x/govshuttle/types"
)

const gsNeverID = uint64(777777777)

type gsState struct {
	port  string // lower-case hex, "-" when unset
	next  uint64
	nonce uint64
	ans   map[uint64]string // id -> record (absent when there is no port)
	raw   map[uint64]string // id -> hex of the raw QueryProp answer, for answers of at most gsRawMax bytes
}

// raw QueryProp answers up to this size are written into the trace (`r<id>=<hex>`): the driver encodes the record with the
// Lean model of the contract ABI and compares byte for byte, and decodes the raw bytes and compares with the record
const gsRawMax = 1536

type gsSuite struct {
	w     *World
	r     *Rng
	t     *Trace
	ms    govshuttletypes.MsgServer
	auth  string
	stat  map[string]int
	ids   []uint64
	idset map[uint64]bool
	big   bool // this world may use 10-kB payloads
	fresh []uint64 // ids tracked since the last emitted line: their pre-answers travel on the next O line
}

func (s *gsSuite) track(id uint64) {
	if !s.idset[id] {
		s.idset[id] = true
		s.ids = append(s.ids, id)
		s.fresh = append(s.fresh, id)
	}
}

// freshTok: the ids that became tracked with this operation and what QueryProp answered for them BEFORE it
// (`newids=..` and `pq<id>=<record>`); the driver adds them to the pre-state.
func (s *gsSuite) freshTok(pre gsState) string {
	var ids, out []string
	for _, id := range s.fresh {
		ids = append(ids, strconv.FormatUint(id, 10))
		if a, ok := pre.ans[id]; ok {
			out = append(out, fmt.Sprintf("pq%d=%s", id, a))
		}
	}
	s.fresh = nil
	return strings.TrimSpace("newids=" + strings.Join(ids, ",") + " " + strings.Join(out, " "))
}

func (s *gsSuite) read() gsState {
	w := s.w
	st := gsState{port: "-", ans: map[uint64]string{}, raw: map[uint64]string{}}
	next, err := w.App.GovKeeper.ProposalID.Peek(w.Ctx)
	if err != nil {
		panic(err)
	}
	st.next = next
	seq, err := w.App.AccountKeeper.GetSequence(w.Ctx, govshuttletypes.ModuleAddress.Bytes())
	if err != nil {
		panic(err)
	}
	st.nonce = seq
	if port, ok := w.App.GovshuttleKeeper.GetPort(w.Ctx); ok {
		st.port = hex.EncodeToString(port.Bytes())
		for _, id := range s.ids {
			p, err := gsQueryProp(w, w.Ctx, govshuttletypes.ModuleAddress, port, new(big.Int).SetUint64(id))
			if err != nil {
				// the store does not answer (no contract at the recorded address): an observation, not a harness error
				st.ans[id] = "qerr"
				s.stat["query-error"]++
				continue
			}
			st.ans[id] = gsRecord(p)
			if len(p.Raw) <= gsRawMax {
				st.raw[id] = hex.EncodeToString(p.Raw)
			}
		}
	}
	return st
}

func (s *gsSuite) idsTok() string {
	xs := make([]string, len(s.ids))
	for i, id := range s.ids {
		xs[i] = strconv.FormatUint(id, 10)
	}
	return strings.Join(xs, ",")
}

func (s *gsSuite) full(st gsState) string {
	var b strings.Builder
	fmt.Fprintf(&b, "port=%s next=%d nonce=%d ids=%s", st.port, st.next, st.nonce, s.idsTok())
	for _, id := range s.ids {
		if a, ok := st.ans[id]; ok {
			fmt.Fprintf(&b, " q%d=%s", id, a)
		}
	}
	return b.String()
}

func (s *gsSuite) sync() { s.fresh = nil; s.t.Line("S " + s.full(s.read())) }

// delta: only what changed. A newly tracked id whose answer was not known before is always printed.
func (s *gsSuite) delta(pre, post gsState) string {
	var out []string
	if pre.port != post.port {
		out = append(out, "port="+post.port)
	}
	if pre.next != post.next {
		out = append(out, "next="+strconv.FormatUint(post.next, 10))
	}
	if pre.nonce != post.nonce {
		out = append(out, "nonce="+strconv.FormatUint(post.nonce, 10))
	}
	for _, id := range s.ids {
		a, ok := post.ans[id]
		if !ok {
			continue
		}
		if b, okb := pre.ans[id]; !okb || a != b {
			out = append(out, fmt.Sprintf("q%d=%s", id, a))
			if rw, okr := post.raw[id]; okr {
				out = append(out, fmt.Sprintf("r%d=%s", id, rw))
			}
		}
	}
	return strings.Join(out, " ")
}

// ---------- generators ----------

var gsTexts = []string{
	"", "a", "lending market proposal", "Treasury: pay 5 canto => u1 | memo, a=b; c:d %20 + 2*3",
	"提案 №1 — ünïcödé 🚀 ñ", "tab\tnewline\nnul\x00end", "  leading and trailing  ", "/slash/and\\backslash\"quote'",
	"q1=fake/0///0;/0;/0;/0;", "%empty", "0x00",
}

func (s *gsSuite) text() string {
	t := s.text0()
	switch {
	case len(t) >= 10000:
		s.stat["gen:text-10kB"]++
	case len(t) >= 200:
		s.stat["gen:text-long"]++
	default:
		s.stat["gen:text-short"]++
	}
	for i := 0; i < len(t); i++ {
		if t[i] >= 0x80 {
			s.stat["gen:text-nonascii"]++
			break
		}
	}
	return t
}

func (s *gsSuite) text0() string {
	r := s.r
	switch k := r.Intn(20); {
	case k < 12:
		return gsTexts[r.Intn(len(gsTexts))]
	case k < 15:
		// random short string over a mixed alphabet
		al := []string{"a", "B", "7", " ", "%", "/", ";", ",", "+", "*", "=", "é", "提", "🚀", "\n", "|", ">"}
		n := r.Intn(12)
		var b strings.Builder
		for i := 0; i < n; i++ {
			b.WriteString(al[r.Intn(len(al))])
		}
		return b.String()
	case k < 17:
		return strings.Repeat(r.PickStr("x", "ab", "lorem ipsum ", "é", "提案", "a b,c;"), 40+r.Intn(60)) + r.PickStr("", "!", "é")
	default:
		if !s.big {
			return strings.Repeat("medium ", 30+r.Intn(30))
		}
		// ~10 kB
		pat := r.PickStr("0123456789", "lorem ipsum dolor ", "é", "提案🚀", "z")
		return strings.Repeat(pat, 10240/len(pat)+r.Intn(3)) + r.PickStr("", "tail")
	}
}

const gsHexDigits = "0123456789abcdefABCDEF"

func (s *gsSuite) hexOf(n int, mixed bool) string {
	var b strings.Builder
	for i := 0; i < 2*n; i++ {
		if mixed {
			b.WriteByte(gsHexDigits[s.r.Intn(22)])
		} else {
			b.WriteByte(gsHexDigits[s.r.Intn(16)])
		}
	}
	return b.String()
}

// calldata: mostly well-formed hex (even number of hex digits, no prefix), sometimes malformed in each way the lenient
// decoder tolerates
func (s *gsSuite) calldata() string {
	c := s.calldata0()
	if gsWellFormedHex(c) {
		s.stat["gen:calldata-wellformed"]++
	} else {
		s.stat["gen:calldata-malformed"]++
	}
	return c
}

func gsWellFormedHex(c string) bool {
	if len(c)%2 != 0 {
		return false
	}
	for i := 0; i < len(c); i++ {
		if !strings.ContainsRune(gsHexDigits, rune(c[i])) || c[i] >= 0x80 {
			return false
		}
	}
	return true
}

func (s *gsSuite) calldata0() string {
	r := s.r
	switch k := r.Intn(40); {
	case k < 22:
		return s.hexOf(r.Intn(40), r.Chance(1, 3))
	case k < 24:
		return ""
	case k < 26:
		return hex.EncodeToString([]byte(gsTexts[r.Intn(len(gsTexts))]))
	case k < 28:
		if s.big {
			pat := s.hexOf(1+r.Intn(4), false)
			return strings.Repeat(pat, 20480/len(pat))
		}
		return strings.Repeat(s.hexOf(2, false), 150)
	case k < 30: // odd length
		return s.hexOf(r.Intn(8), false) + string(gsHexDigits[r.Intn(22)])
	case k < 32: // 0x prefix
		return r.PickStr("0x", "0X") + s.hexOf(r.Intn(8), false)
	case k < 35: // a non-hex character somewhere (at an even or an odd offset)
		h := s.hexOf(1+r.Intn(8), true)
		i := r.Intn(len(h))
		return h[:i] + r.PickStr("g", "G", " ", "x", "é", "-", "\x00", "🚀") + h[i+r.Intn(2):]
	case k < 37:
		return r.PickStr("zz", "0", "f", "xyz", " ab", "ab ", "a b", "é", "0x")
	case k < 38:
		return s.hexOf(r.Intn(6), false) + "é" // even byte length with a two-byte rune
	default:
		return strings.ToUpper(s.hexOf(r.Intn(20), false))
	}
}

// target address strings: mostly 40 hex digits with or without 0x, sometimes too short / too long / non-hex / odd
func (s *gsSuite) addrStr() string {
	a := s.addrStr0()
	if common.IsHexAddress(a) {
		s.stat["gen:address-wellformed"]++
	} else {
		s.stat["gen:address-malformed"]++
	}
	return a
}

func (s *gsSuite) addrStr0() string {
	r := s.r
	switch k := r.Intn(40); {
	case k < 10:
		return "0x" + s.hexOf(20, true)
	case k < 18:
		return s.hexOf(20, r.Chance(1, 2))
	case k < 21:
		return common.BytesToAddress(s.w.Users[r.Intn(len(s.w.Users))]).Hex() // EIP-55 spelling
	case k < 23:
		return r.PickStr("0X", "0x") + s.hexOf(20, false)
	case k < 26: // too short
		return r.PickStr("", "0x", "0x1", "1", "abc", "0xabc", "00", "0x"+s.hexOf(r.Intn(19), false), s.hexOf(1+r.Intn(19), false))
	case k < 29: // too long: the LAST 20 bytes are kept
		return r.PickStr("", "0x") + s.hexOf(21+r.Intn(20), false)
	case k < 31: // odd length: a leading 0 is added
		return r.PickStr("", "0x") + s.hexOf(19, false) + "a"
	case k < 35: // non-hex somewhere: decoding stops there
		h := s.hexOf(20, false)
		i := r.Intn(len(h))
		return r.PickStr("", "0x") + h[:i] + r.PickStr("g", "Z", " ", "é", "x") + h[i+1:]
	case k < 37:
		return s.w.Users[0].String() // bech32 is not hex
	case k < 38:
		return "0x0x" + s.hexOf(19, false)
	default:
		return r.PickStr("zz", "0xzz", "éé", " 0x12", "0x 12", "x")
	}
}

func (s *gsSuite) value() uint64 {
	r := s.r
	switch r.Intn(6) {
	case 0:
		return 0
	case 1:
		return math.MaxUint64
	case 2:
		return uint64(1) << uint(r.Intn(64))
	case 3:
		return r.Next()
	default:
		return uint64(r.Intn(100000))
	}
}

// ids: 0 (defaulted), small ones that repeat, the current next-gov-id, huge ones
func (s *gsSuite) propID(next uint64) uint64 {
	r := s.r
	switch k := r.Intn(20); {
	case k < 6:
		return 0
	case k < 13:
		return uint64(1 + r.Intn(8))
	case k < 15:
		return next
	case k < 16:
		return math.MaxUint64
	case k < 17:
		return r.PickU64(1<<63, 1<<32, math.MaxUint64-1, 1<<53+1)
	case k < 19 && len(s.ids) > 0:
		return s.ids[r.Intn(len(s.ids))]
	default:
		return 1 + r.Next()%1000
	}
}

func (r *Rng) PickU64(xs ...uint64) uint64 { return xs[r.Intn(len(xs))] }

// authority strings: the gov module address, or a wrong one
func (s *gsSuite) authority() string {
	r := s.r
	if r.Intn(10) < 8 {
		return s.auth
	}
	switch r.Intn(6) {
	case 0:
		return s.w.Users[0].String()
	case 1:
		return strings.ToUpper(s.auth) // the same bytes in upper-case bech32: a different STRING
	case 2:
		return ""
	case 3:
		return authtypes.NewModuleAddress(govshuttletypes.ModuleName).String()
	case 4:
		return s.auth + " "
	default:
		return common.BytesToAddress(authtypes.NewModuleAddress(govtypes.ModuleName)).Hex()
	}
}

func gsPayload(title, desc string, lists ...[]string) int {
	n := len(title) + len(desc)
	for _, l := range lists {
		for _, x := range l {
			n += len(x)
		}
	}
	return n
}

func gsIsGas(err string) bool {
	return strings.Contains(err, "out of gas") || strings.Contains(err, "gas required exceeds allowance") ||
		strings.Contains(err, "max code size exceeded") || strings.Contains(err, "gas uint64 overflow")
}

func (s *gsSuite) emit(kind, args string, pre gsState, snapPre Snap, out Outcome) {
	s.t.seq++
	post := s.read()
	gas := 0
	if !out.OK && gsIsGas(out.Err) {
		gas = 1
	}
	line := fmt.Sprintf("O %d %s %s %s evmfail=%d => %s | %s %s", s.t.seq, kind, args, s.freshTok(pre), gas, out.String(), s.delta(pre, post),
		Delta(snapPre, s.w.Snapshot()))
	s.t.Line(line)
	s.stat[kind+":"+out.String()]++
	if !out.OK {
		m := out.Err
		if len(m) > 60 {
			m = m[:60]
		}
		s.stat["panicmsg:"+kind+":"+m]++
	}
}

// one proposal in seven carries a later message that fails: the gov module discards everything the proposal's messages
// did (a proposal bundling a valid govshuttle message with an invalid one); more often while no store is deployed yet
func (s *gsSuite) later() bool {
	if _, ok := s.w.App.GovshuttleKeeper.GetPort(s.w.Ctx); !ok {
		return s.r.Intn(3) == 0
	}
	return s.r.Intn(9) == 0
}

func (s *gsSuite) opLM() {
	r := s.r
	st0 := s.read()
	n := r.Intn(7)
	if r.Intn(10) == 0 {
		n = 0
	}
	nAcct, nVal, nSig, nCd := n, n, n, n
	if r.Intn(8) == 0 { // targets are not part of the length check
		s.stat["gen:lm-targets-other-length"]++
		nAcct = r.Intn(7)
	}
	if r.Intn(6) == 0 { // mismatched lengths: each pair
		s.stat["gen:lm-length-mismatch"]++
		switch r.Intn(6) {
		case 0:
			nCd = (n + 1 + r.Intn(3)) % 7
		case 1:
			nVal = (n + 1 + r.Intn(3)) % 7
		case 2:
			nSig = (n + 1 + r.Intn(3)) % 7
		case 3:
			nCd, nVal = n+1, n+1 // cd = vals != sigs
		case 4:
			nVal, nSig = n+1, n+1 // cd != vals = sigs
		default:
			nCd, nSig = n+1, n+1 // cd = sigs != vals
		}
	}
	md := &govshuttletypes.LendingMarketMetadata{PropId: s.propID(st0.next)}
	for i := 0; i < nAcct; i++ {
		md.Account = append(md.Account, s.addrStr())
	}
	for i := 0; i < nVal; i++ {
		md.Values = append(md.Values, s.value())
	}
	for i := 0; i < nSig; i++ {
		md.Signatures = append(md.Signatures, r.PickStr("transfer(address,uint256)", "_setPendingAdmin(address)", "", s.text()))
	}
	huge := s.big && r.Intn(10) == 0 // ~10 kB per call data entry: beyond the EVM gas cap when the slots are fresh
	for i := 0; i < nCd; i++ {
		if huge {
			pat := s.hexOf(1+r.Intn(4), false)
			md.Calldatas = append(md.Calldatas, strings.Repeat(pat, 20480/len(pat)))
			continue
		}
		md.Calldatas = append(md.Calldatas, s.calldata())
	}
	msg := &govshuttletypes.MsgLendingMarketProposal{Authority: s.authority(), Title: s.text(), Description: s.text(), Metadata: md}
	meta := 1
	if r.Intn(40) == 0 {
		msg.Metadata = nil
		meta = 0
		md = &govshuttletypes.LendingMarketMetadata{}
	}
	s.track(md.PropId)
	s.track(st0.next)
	pre := s.read()
	snap := s.w.Snapshot()
	args := fmt.Sprintf("auth=%s title=%s desc=%s meta=%d id=%d acct=%s vals=%s sigs=%s cds=%s", gsStr(msg.Authority), gsStr(msg.Title),
		gsStr(msg.Description), meta, md.PropId, gsStrList(md.Account), gsU64List(md.Values), gsStrList(md.Signatures), gsStrList(md.Calldatas))
	later, hok := s.later(), false
	if later {
		args += " later=1"
	}
	out := s.w.Deliver(func(ctx sdk.Context) error {
		_, err := s.ms.LendingMarketProposal(ctx, msg)
		if err == nil && later {
			hok = true
			return fmt.Errorf("a later message of the transaction failed")
		}
		return err
	})
	if hok {
		out.Class = "later"
	}
	s.emit("lm", args, pre, snap, out)
}

func (s *gsSuite) opTreasury() {
	r := s.r
	st0 := s.read()
	denom := r.PickStr("canto", "note", "canto", "note", "CANTO", "Note", "cAnTo", "NOTE", "nOTE")
	if r.Intn(6) == 0 {
		denom = r.PickStr("acanto", "canto ", " note", "", "cantoo", "can", "usdc", "ćanto", "note\x00", "canto,note", "ⅽanto", "notE!", "KANTO")
	}
	md := &govshuttletypes.TreasuryProposalMetadata{PropID: s.propID(st0.next), Recipient: s.addrStr(), Amount: s.value(), Denom: denom}
	msg := &govshuttletypes.MsgTreasuryProposal{Authority: s.authority(), Title: s.text(), Description: s.text(), Metadata: md}
	meta := 1
	if r.Intn(40) == 0 {
		msg.Metadata = nil
		meta = 0
		md = &govshuttletypes.TreasuryProposalMetadata{}
	}
	s.track(md.PropID)
	s.track(st0.next)
	pre := s.read()
	snap := s.w.Snapshot()
	args := fmt.Sprintf("auth=%s title=%s desc=%s meta=%d id=%d rcpt=%s amt=%d denom=%s", gsStr(msg.Authority), gsStr(msg.Title),
		gsStr(msg.Description), meta, md.PropID, gsStr(md.Recipient), md.Amount, gsStr(md.Denom))
	later, hok := s.later(), false
	if later {
		args += " later=1"
	}
	out := s.w.Deliver(func(ctx sdk.Context) error {
		_, err := s.ms.TreasuryProposal(ctx, msg)
		if err == nil && later {
			hok = true
			return fmt.Errorf("a later message of the transaction failed")
		}
		return err
	})
	if hok {
		out.Class = "later"
	}
	s.emit("tr", args, pre, snap, out)
}

// the gov module assigns proposal ids independently of govshuttle: move the next id between operations
func (s *gsSuite) opSetNext() {
	r := s.r
	st0 := s.read()
	var n uint64
	switch k := r.Intn(10); {
	case k < 5:
		n = st0.next + uint64(1+r.Intn(3))
	case k < 8:
		n = uint64(1 + r.Intn(10))
	case k < 9:
		n = r.PickU64(math.MaxUint64, 1<<63, 1<<40)
	default:
		n = 0
	}
	s.track(n)
	pre := s.read()
	snap := s.w.Snapshot()
	out := s.w.Deliver(func(ctx sdk.Context) error { return s.w.App.GovKeeper.ProposalID.Set(ctx, n) })
	s.emit("setnext", fmt.Sprintf("n=%d", n), pre, snap, out)
}

// somebody else calls AddProposal on the store directly (a committed EVM call from a user account): the contract accepts
// only the govshuttle module account, so this must be rejected and change nothing
func (s *gsSuite) opForeign() {
	port, ok := s.w.App.GovshuttleKeeper.GetPort(s.w.Ctx)
	if !ok {
		return
	}
	r := s.r
	id := s.propID(0)
	s.track(id)
	from := common.BytesToAddress(s.w.Users[r.Intn(len(s.w.Users))])
	pre := s.read()
	snap := s.w.Snapshot()
	title := s.text()
	out := s.w.Deliver(func(ctx sdk.Context) error {
		_, err := s.w.App.Erc20Keeper.CallEVM(ctx, contracts.ProposalStoreContract.ABI, from, port, true, "AddProposal",
			new(big.Int).SetUint64(id), title, "", []common.Address{from}, []*big.Int{big.NewInt(1)}, []string{"x"}, [][]byte{{1}})
		return err
	})
	s.emit("foreign", fmt.Sprintf("from=%s id=%d title=%s", hex.EncodeToString(from.Bytes()), id, gsStr(title)), pre, snap, out)
}

func (s *gsSuite) envLine(lo uint64) string {
	var tab []string
	for n := lo; n < lo+8; n++ {
		tab = append(tab, fmt.Sprintf("%d:%s", n, hex.EncodeToString(crypto.CreateAddress(govshuttletypes.ModuleAddress, n).Bytes())))
	}
	return fmt.Sprintf("E auth=%s mod=%s create=%s", gsStr(s.auth), hex.EncodeToString(govshuttletypes.ModuleAddress.Bytes()), strings.Join(tab, ","))
}

func init() { suites["govshuttle"] = runGovshuttle }

func runGovshuttle(seed uint64, nOps int, outPath string) map[string]int {
	gsCheckToLower()
	s := &gsSuite{r: SeedRng("govshuttle", seed), stat: map[string]int{}}
	s.t = NewTrace(outPath)
	defer s.t.Close()
	done := 0
	world := 0
	for done < nOps {
		// a fresh world (no store contract yet) every few dozen operations, so that the deployment branch recurs
		s.w = gsNewWorld(3, sdk.NewCoins(sdk.NewCoin("acanto", pow10(24))), time.Unix(1_700_000_000, 0))
		s.ms = govshuttlekeeper.NewMsgServerImpl(s.w.App.GovshuttleKeeper)
		s.auth = authtypes.NewModuleAddress(govtypes.ModuleName).String()
		s.ids, s.idset = nil, map[uint64]bool{}
		s.track(0)
		s.track(gsNeverID)
		s.big = world%3 == 1
		// the module account's sequence decides the store address: start from different values
		var lo uint64
		if s.r.Intn(2) == 0 {
			lo = uint64(s.r.Intn(5))
			acc := s.w.App.AccountKeeper.GetAccount(s.w.Ctx, govshuttletypes.ModuleAddress.Bytes())
			if err := acc.SetSequence(lo); err != nil {
				panic(err)
			}
			s.w.App.AccountKeeper.SetAccount(s.w.Ctx, acc)
		}
		if s.r.Intn(2) == 0 {
			if err := s.w.App.GovKeeper.ProposalID.Set(s.w.Ctx, uint64(1+s.r.Intn(6))); err != nil {
				panic(err)
			}
		}
		s.t.Line(s.envLine(lo))
		s.sync()
		size := 20 + s.r.Intn(25)
		for i := 0; i < size && done < nOps; i++ {
			if i > 0 && i%12 == 0 {
				s.sync()
			}
			before := s.t.seq
			switch k := s.r.Intn(20); {
			case k < 9:
				s.opLM()
			case k < 15:
				s.opTreasury()
			case k < 18:
				s.opSetNext()
			default:
				s.opForeign()
			}
			if s.t.seq > before {
				done++
			}
		}
		world++
	}
	return s.stat
}
