package main

// Helpers shared by the suites `genesis` (C18) and `replica` (C06): rendering the seven Canto genesis sections for
// the Lean driver, JSON-canonical comparison, raw KV dumps of the Canto stores, the Canto gRPC queries.

import (
	"bytes"
	"encoding/hex"
	"encoding/json"
	"fmt"
	"math/big"
	"reflect"
	"sort"
	"strings"
	"time"

	abci "github.com/cometbft/cometbft/abci/types"
	"github.com/cosmos/cosmos-sdk/codec"
	sdk "github.com/cosmos/cosmos-sdk/types"
	paramstypes "github.com/cosmos/cosmos-sdk/x/params/types"
	"github.com/cosmos/gogoproto/proto"

	"github.com/Canto-Network/Canto/v8/app"
	coinswaptypes "github.com/Canto-Network/Canto/v8/x/coinswap/types"
	csrtypes "github.com/Canto-Network/Canto/v8/x/csr/types"
	epochstypes "github.com/Canto-Network/Canto/v8/x/epochs/types"
	erc20types "github.com/Canto-Network/Canto/v8/x/erc20/types"
	govshuttletypes "github.com/Canto-Network/Canto/v8/x/govshuttle/types"
	inflationtypes "github.com/Canto-Network/Canto/v8/x/inflation/types"
	onboardingtypes "github.com/Canto-Network/Canto/v8/x/onboarding/types"
)

var cantoModules = []string{coinswaptypes.ModuleName, erc20types.ModuleName, csrtypes.ModuleName, govshuttletypes.ModuleName,
	onboardingtypes.ModuleName, epochstypes.ModuleName, inflationtypes.ModuleName}

// store key name of each module (govshuttle's is "shuttle")
var cantoStoreKeys = map[string]string{coinswaptypes.ModuleName: coinswaptypes.StoreKey, erc20types.ModuleName: erc20types.StoreKey,
	csrtypes.ModuleName: csrtypes.StoreKey, govshuttletypes.ModuleName: govshuttletypes.StoreKey, onboardingtypes.ModuleName: onboardingtypes.StoreKey,
	epochstypes.ModuleName: epochstypes.StoreKey, inflationtypes.ModuleName: inflationtypes.StoreKey}

// CantoGen: the typed genesis states of the seven modules
type CantoGen struct {
	Coinswap   coinswaptypes.GenesisState
	Erc20      erc20types.GenesisState
	Csr        csrtypes.GenesisState
	Govshuttle govshuttletypes.GenesisState
	Onboarding onboardingtypes.GenesisState
	Epochs     epochstypes.GenesisState
	Inflation  inflationtypes.GenesisState
	Raw        map[string]json.RawMessage // the module sections as JSON
}

func parseCantoGen(cdc codec.Codec, sections map[string]json.RawMessage) (g CantoGen, err error) {
	defer func() {
		if r := recover(); r != nil {
			err = fmt.Errorf("genesis section does not decode: %v", r)
		}
	}()
	g.Raw = map[string]json.RawMessage{}
	for _, m := range cantoModules {
		g.Raw[m] = sections[m]
	}
	cdc.MustUnmarshalJSON(sections[coinswaptypes.ModuleName], &g.Coinswap)
	cdc.MustUnmarshalJSON(sections[erc20types.ModuleName], &g.Erc20)
	cdc.MustUnmarshalJSON(sections[csrtypes.ModuleName], &g.Csr)
	cdc.MustUnmarshalJSON(sections[govshuttletypes.ModuleName], &g.Govshuttle)
	cdc.MustUnmarshalJSON(sections[onboardingtypes.ModuleName], &g.Onboarding)
	cdc.MustUnmarshalJSON(sections[epochstypes.ModuleName], &g.Epochs)
	cdc.MustUnmarshalJSON(sections[inflationtypes.ModuleName], &g.Inflation)
	return g, nil
}

func gsafe(s string) string {
	if s == "" {
		return "%empty"
	}
	return strings.NewReplacer("%", "%25", " ", "%20", ",", "%2c", ":", "%3a", "=", "%3d", ";", "%3b", "+", "%2b", "|", "%7c", "\n", "%0a").Replace(s)
}

func validBech32(a string) bool {
	_, err := sdk.AccAddressFromBech32(a)
	return err == nil
}

func gnB01(b bool) string {
	if b {
		return "1"
	}
	return "0"
}

func timeNs(t time.Time) string {
	v := new(big.Int).Mul(big.NewInt(t.Unix()), big.NewInt(1_000_000_000))
	return v.Add(v, big.NewInt(int64(t.Nanosecond()))).String()
}

func gnDecStr(d interface{ BigInt() *big.Int }) string {
	b := d.BigInt()
	if b == nil {
		return "nil"
	}
	return b.String()
}

// Lines renders the seven sections for the Lean driver: `G <seq> <n> <module> k=v ...`
func (g CantoGen) Lines(seq int, n int) []string {
	pre := func(m string) string { return fmt.Sprintf("G %d %d %s ", seq, n, m) }
	var out []string
	{
		c := g.Coinswap
		var ms, pools []string
		for _, x := range c.Params.MaxSwapAmount {
			ms = append(ms, gsafe(x.Denom)+";"+x.Amount.String())
		}
		for _, p := range c.Pool {
			pools = append(pools, strings.Join([]string{gsafe(p.Id), gsafe(p.StandardDenom), gsafe(p.CounterpartyDenom), gsafe(p.EscrowAddress), gsafe(p.LptDenom), gnB01(validBech32(p.EscrowAddress))}, ";"))
		}
		out = append(out, pre("coinswap")+fmt.Sprintf("fee=%s tax=%s cfd=%s cfa=%s maxstd=%s ms=%s std=%s seq=%d pools=%s",
			gnDecStr(c.Params.Fee), gnDecStr(c.Params.TaxRate), gsafe(c.Params.PoolCreationFee.Denom), c.Params.PoolCreationFee.Amount.String(),
			c.Params.MaxStandardCoinPerPool.String(), strings.Join(ms, ","), gsafe(c.StandardDenom), c.Sequence, strings.Join(pools, ",")))
	}
	{
		e := g.Erc20
		var pairs, dix, aix []string
		for _, p := range e.TokenPairs {
			pairs = append(pairs, strings.Join([]string{gsafe(p.Erc20Address), gsafe(p.Denom), gnB01(p.Enabled), fmt.Sprint(int32(p.ContractOwner)), hex.EncodeToString(p.GetID())}, ";"))
		}
		for _, i := range e.DenomIndexes {
			dix = append(dix, gsafe(i.Denom)+";"+hex.EncodeToString(i.TokenPairId))
		}
		for _, i := range e.Erc20AddressIndexes {
			aix = append(aix, hex.EncodeToString(i.Erc20Address)+";"+hex.EncodeToString(i.TokenPairId))
		}
		out = append(out, pre("erc20")+fmt.Sprintf("en=%s hook=%s pairs=%s dix=%s aix=%s", gnB01(e.Params.EnableErc20), gnB01(e.Params.EnableEVMHook),
			strings.Join(pairs, ","), strings.Join(dix, ","), strings.Join(aix, ",")))
	}
	{
		c := g.Csr
		var csrs []string
		for _, x := range c.Csrs {
			var cs []string
			for _, a := range x.Contracts {
				cs = append(cs, gsafe(a))
			}
			csrs = append(csrs, fmt.Sprintf("%d;%d;%s;%s", x.Id, x.Txs, x.Revenue.String(), strings.Join(cs, "+")))
		}
		ts := "-"
		if c.TurnstileAddress != "" {
			ts = gsafe(c.TurnstileAddress)
		}
		out = append(out, pre("csr")+fmt.Sprintf("en=%s shares=%s ts=%s csrs=%s", gnB01(c.Params.EnableCsr), gnDecStr(c.Params.CsrShares), ts, strings.Join(csrs, ",")))
	}
	{
		port := "-"
		if g.Govshuttle.PortContractAddr != "" {
			port = gsafe(g.Govshuttle.PortContractAddr)
		}
		out = append(out, pre("govshuttle")+"port="+port)
	}
	{
		o := g.Onboarding
		var ch []string
		for _, c := range o.Params.WhitelistedChannels {
			ch = append(ch, gsafe(c))
		}
		out = append(out, pre("onboarding")+fmt.Sprintf("en=%s thr=%s ch=%s", gnB01(o.Params.EnableOnboarding), o.Params.AutoSwapThreshold.String(), strings.Join(ch, ",")))
	}
	{
		var es []string
		for _, e := range g.Epochs.Epochs {
			es = append(es, strings.Join([]string{gsafe(e.Identifier), timeNs(e.StartTime), fmt.Sprint(int64(e.Duration)), fmt.Sprint(e.CurrentEpoch),
				timeNs(e.CurrentEpochStartTime), gnB01(e.EpochCountingStarted), fmt.Sprint(e.CurrentEpochStartHeight)}, ";"))
		}
		out = append(out, pre("epochs")+"e="+strings.Join(es, ","))
	}
	{
		i := g.Inflation
		ec, d := i.Params.ExponentialCalculation, i.Params.InflationDistribution
		out = append(out, pre("inflation")+fmt.Sprintf("mint=%s a=%s r=%s c=%s bt=%s mv=%s sr=%s cp=%s en=%s period=%d id=%s epp=%d skipped=%d",
			gsafe(i.Params.MintDenom), gnDecStr(ec.A), gnDecStr(ec.R), gnDecStr(ec.C), gnDecStr(ec.BondingTarget), gnDecStr(ec.MaxVariance),
			gnDecStr(d.StakingRewards), gnDecStr(d.CommunityPool), gnB01(i.Params.EnableInflation), i.Period, gsafe(i.EpochIdentifier), i.EpochsPerPeriod, i.SkippedEpochs))
	}
	return out
}

// ---------- JSON-canonical comparison ----------

// dropExempt removes the fields the property exempts: epochs' current_epoch_start_height.
func dropExempt(module string, v interface{}) interface{} {
	switch x := v.(type) {
	case map[string]interface{}:
		for k, vv := range x {
			if k == "current_epoch_start_height" || k == "epoch_mint_provision" || k == "inflation_rate" {
				delete(x, k)
				continue
			}
			x[k] = dropExempt(module, vv)
		}
		return x
	case []interface{}:
		for i := range x {
			x[i] = dropExempt(module, x[i])
		}
		return x
	}
	return v
}

func canonJSON(module string, raw []byte, exempt bool) string {
	var v interface{}
	if err := json.Unmarshal(raw, &v); err != nil {
		return "unparsable:" + string(raw)
	}
	if exempt {
		v = dropExempt(module, v)
	}
	out, _ := json.Marshal(v) // encoding/json sorts map keys
	return string(out)
}

// diffSections lists the Canto modules whose sections differ JSON-canonically (exempt fields removed).
func diffSections(a, b map[string]json.RawMessage) []string {
	var out []string
	for _, m := range cantoModules {
		if canonJSON(m, a[m], true) != canonJSON(m, b[m], true) {
			out = append(out, m)
		}
	}
	return out
}

// exportSections: ExportAppStateAndValidators of the committed state, split into module sections
func exportSections(a *app.Canto) (sections map[string]json.RawMessage, height int64, err error) {
	defer func() {
		if r := recover(); r != nil {
			err = fmt.Errorf("export panic: %v", r)
		}
	}()
	exp, err := a.ExportAppStateAndValidators(false, nil, nil)
	if err != nil {
		return nil, 0, err
	}
	if err := json.Unmarshal(exp.AppState, &sections); err != nil {
		return nil, 0, err
	}
	return sections, exp.Height, nil
}

// directSections: the module managers' ExportGenesis of the seven Canto modules on an arbitrary context
func directSections(a *app.Canto, ctx sdk.Context) (sections map[string]json.RawMessage, err error) {
	defer func() {
		if r := recover(); r != nil {
			err = fmt.Errorf("export panic: %v", r)
		}
	}()
	return a.ModuleManager.ExportGenesisForModules(ctx, a.AppCodec(), cantoModules)
}

// ---------- raw KV dump of the Canto stores (reach check) ----------

type KV struct{ K, V []byte }

func dumpKV(a *app.Canto, ctx sdk.Context) map[string][]KV {
	out := map[string][]KV{}
	for _, m := range cantoModules {
		st := ctx.KVStore(a.GetKey(cantoStoreKeys[m]))
		it := st.Iterator(nil, nil)
		for ; it.Valid(); it.Next() {
			out[m] = append(out[m], KV{append([]byte{}, it.Key()...), append([]byte{}, it.Value()...)})
		}
		it.Close()
	}
	// the modules' parameters live in the x/params store under "<module>/"
	ps := ctx.KVStore(a.GetKey(paramstypes.StoreKey))
	it := ps.Iterator(nil, nil)
	for ; it.Valid(); it.Next() {
		k := it.Key()
		for _, m := range cantoModules {
			if bytes.HasPrefix(k, []byte(m+"/")) {
				out["params"] = append(out["params"], KV{append([]byte{}, k...), append([]byte{}, it.Value()...)})
			}
		}
	}
	it.Close()
	return out
}

// normaliseKV blanks what the import deliberately recomputes: the epochs' CurrentEpochStartHeight inside each
// EpochInfo value and the inflation module's EpochMintProvision entry (prefix 2).
func normaliseKV(cdc codec.Codec, store string, kv KV) []byte {
	switch store {
	case epochstypes.ModuleName:
		var e epochstypes.EpochInfo
		if err := cdc.Unmarshal(kv.V, &e); err == nil {
			e.CurrentEpochStartHeight = 0
			return cdc.MustMarshal(&e)
		}
	case "params":
		// x/params keeps amino-JSON: an empty list is written as `[]` by a parameter update and as `null` after the
		// import decoded the genesis JSON into a nil slice; both read back as the empty list (encoding level)
		if bytes.Equal(kv.V, []byte("[]")) {
			return []byte("null")
		}
	case inflationtypes.ModuleName:
		if len(kv.K) > 0 && kv.K[0] == inflationtypes.KeyPrefixEpochMintProvision[0] {
			return []byte("exempt")
		}
	}
	return kv.V
}

// diffKV lists the differences between two dumps: "<store>:<hexkey>:missing|extra|value"
func diffKV(cdc codec.Codec, a, b map[string][]KV) []string {
	var out []string
	stores := append(append([]string{}, cantoModules...), "params")
	for _, s := range stores {
		am, bm := map[string][]byte{}, map[string][]byte{}
		for _, kv := range a[s] {
			am[string(kv.K)] = normaliseKV(cdc, s, kv)
		}
		for _, kv := range b[s] {
			bm[string(kv.K)] = normaliseKV(cdc, s, kv)
		}
		var keys []string
		for k := range am {
			keys = append(keys, k)
		}
		for k := range bm {
			if _, ok := am[k]; !ok {
				keys = append(keys, k)
			}
		}
		sort.Strings(keys)
		for _, k := range keys {
			av, aok := am[k]
			bv, bok := bm[k]
			switch {
			case !bok:
				out = append(out, s+":"+hex.EncodeToString([]byte(k))+":missing")
			case !aok:
				out = append(out, s+":"+hex.EncodeToString([]byte(k))+":extra")
			case !bytes.Equal(av, bv):
				out = append(out, s+":"+hex.EncodeToString([]byte(k))+":value")
			}
		}
	}
	return out
}

func kvKeyLines(seq, n int, d map[string][]KV) []string {
	var out []string
	for _, s := range append(append([]string{}, cantoModules...), "params") {
		var ks []string
		for _, kv := range d[s] {
			ks = append(ks, hex.EncodeToString(kv.K))
		}
		out = append(out, fmt.Sprintf("K %d %d %s %s", seq, n, s, strings.Join(ks, ",")))
	}
	return out
}

// ---------- the Canto gRPC queries ----------

type qSpec struct {
	path string
	req  proto.Message
	resp func() proto.Message
}

func cantoQuerySpecs(g CantoGen) []qSpec {
	var qs []qSpec
	add := func(path string, req proto.Message, resp func() proto.Message) { qs = append(qs, qSpec{path, req, resp}) }
	add("/canto.coinswap.v1.Query/Params", &coinswaptypes.QueryParamsRequest{}, func() proto.Message { return &coinswaptypes.QueryParamsResponse{} })
	add("/canto.coinswap.v1.Query/LiquidityPools", &coinswaptypes.QueryLiquidityPoolsRequest{}, func() proto.Message { return &coinswaptypes.QueryLiquidityPoolsResponse{} })
	for _, p := range g.Coinswap.Pool {
		add("/canto.coinswap.v1.Query/LiquidityPool", &coinswaptypes.QueryLiquidityPoolRequest{LptDenom: p.LptDenom}, func() proto.Message { return &coinswaptypes.QueryLiquidityPoolResponse{} })
	}
	add("/canto.coinswap.v1.Query/LiquidityPool", &coinswaptypes.QueryLiquidityPoolRequest{LptDenom: "lpt-999"}, func() proto.Message { return &coinswaptypes.QueryLiquidityPoolResponse{} })
	add("/canto.erc20.v1.Query/Params", &erc20types.QueryParamsRequest{}, func() proto.Message { return &erc20types.QueryParamsResponse{} })
	add("/canto.erc20.v1.Query/TokenPairs", &erc20types.QueryTokenPairsRequest{}, func() proto.Message { return &erc20types.QueryTokenPairsResponse{} })
	for _, p := range g.Erc20.TokenPairs {
		add("/canto.erc20.v1.Query/TokenPair", &erc20types.QueryTokenPairRequest{Token: p.Denom}, func() proto.Message { return &erc20types.QueryTokenPairResponse{} })
		add("/canto.erc20.v1.Query/TokenPair", &erc20types.QueryTokenPairRequest{Token: p.Erc20Address}, func() proto.Message { return &erc20types.QueryTokenPairResponse{} })
	}
	add("/canto.csr.v1.Query/Params", &csrtypes.QueryParamsRequest{}, func() proto.Message { return &csrtypes.QueryParamsResponse{} })
	add("/canto.csr.v1.Query/CSRs", &csrtypes.QueryCSRsRequest{}, func() proto.Message { return &csrtypes.QueryCSRsResponse{} })
	add("/canto.csr.v1.Query/Turnstile", &csrtypes.QueryTurnstileRequest{}, func() proto.Message { return &csrtypes.QueryTurnstileResponse{} })
	for _, c := range g.Csr.Csrs {
		add("/canto.csr.v1.Query/CSRByNFT", &csrtypes.QueryCSRByNFTRequest{NftId: c.Id}, func() proto.Message { return &csrtypes.QueryCSRByNFTResponse{} })
		for _, a := range c.Contracts {
			add("/canto.csr.v1.Query/CSRByContract", &csrtypes.QueryCSRByContractRequest{Address: a}, func() proto.Message { return &csrtypes.QueryCSRByContractResponse{} })
		}
	}
	add("/canto.epochs.v1.Query/EpochInfos", &epochstypes.QueryEpochsInfoRequest{}, func() proto.Message { return &epochstypes.QueryEpochsInfoResponse{} })
	for _, e := range g.Epochs.Epochs {
		add("/canto.epochs.v1.Query/CurrentEpoch", &epochstypes.QueryCurrentEpochRequest{Identifier: e.Identifier}, func() proto.Message { return &epochstypes.QueryCurrentEpochResponse{} })
	}
	add("/canto.govshuttle.v1.Query/Params", &govshuttletypes.QueryParamsRequest{}, func() proto.Message { return &govshuttletypes.QueryParamsResponse{} })
	add("/canto.inflation.v1.Query/Period", &inflationtypes.QueryPeriodRequest{}, func() proto.Message { return &inflationtypes.QueryPeriodResponse{} })
	add("/canto.inflation.v1.Query/SkippedEpochs", &inflationtypes.QuerySkippedEpochsRequest{}, func() proto.Message { return &inflationtypes.QuerySkippedEpochsResponse{} })
	add("/canto.inflation.v1.Query/CirculatingSupply", &inflationtypes.QueryCirculatingSupplyRequest{}, func() proto.Message { return &inflationtypes.QueryCirculatingSupplyResponse{} })
	add("/canto.inflation.v1.Query/Params", &inflationtypes.QueryParamsRequest{}, func() proto.Message { return &inflationtypes.QueryParamsResponse{} })
	// exempt from the comparison (recomputed on import) but still exercised as reads:
	add("/canto.inflation.v1.Query/EpochMintProvision", &inflationtypes.QueryEpochMintProvisionRequest{}, func() proto.Message { return &inflationtypes.QueryEpochMintProvisionResponse{} })
	add("/canto.inflation.v1.Query/InflationRate", &inflationtypes.QueryInflationRateRequest{}, func() proto.Message { return &inflationtypes.QueryInflationRateResponse{} })
	add("/canto.onboarding.v1.Query/Params", &onboardingtypes.QueryParamsRequest{}, func() proto.Message { return &onboardingtypes.QueryParamsResponse{} })
	return qs
}

var exemptQueries = map[string]bool{"/canto.inflation.v1.Query/EpochMintProvision": true, "/canto.inflation.v1.Query/InflationRate": true}

// runQueries answers every query through the ABCI Query entry point (the gRPC router) on the last committed state.
func runQueries(a *app.Canto, qs []qSpec) []string {
	out := make([]string, len(qs))
	for i, q := range qs {
		bz, err := proto.Marshal(q.req)
		if err != nil {
			panic(err)
		}
		var res *abci.ResponseQuery
		func() {
			defer func() {
				if r := recover(); r != nil {
					res = &abci.ResponseQuery{Code: 111222, Log: fmt.Sprint("panic: ", r)}
				}
			}()
			res, err = a.Query(nil, &abci.RequestQuery{Path: q.path, Data: bz})
			if err != nil {
				res = &abci.ResponseQuery{Code: 111223, Log: err.Error()}
			}
		}()
		if res.Code != 0 {
			out[i] = fmt.Sprintf("err:%s/%d", res.Codespace, res.Code)
			continue
		}
		m := q.resp()
		if err := proto.Unmarshal(res.Value, m); err != nil {
			out[i] = "undecodable"
			continue
		}
		js, err := a.AppCodec().MarshalJSON(m)
		if err != nil {
			out[i] = "unjsonable"
			continue
		}
		out[i] = canonJSON("", js, true)
	}
	return out
}

func diffQueries(qs []qSpec, a, b []string) []string {
	var out []string
	for i, q := range qs {
		if exemptQueries[q.path] {
			continue
		}
		if a[i] != b[i] {
			out = append(out, strings.TrimPrefix(q.path, "/canto.")+"("+gsafe(fmt.Sprint(q.req))+")")
		}
	}
	return out
}

var _ = reflect.DeepEqual
